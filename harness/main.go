package main

import (
	"bufio"
	"encoding/json"
	"flag"
	"fmt"
	"os"
	"path/filepath"
	"sort"
	"strings"
	"time"
)

// One process runs many histories.  For every history:
//   <out>.trace   "# history <n> seed <s>" then one line per call (read by the Lean driver)
//   <out>.ops     the abstract operations, one JSON array per history (for replay / shrinking)

var hangSeconds = 120

type runOpts struct {
	crashAt, failAt   int
	stateOut, stateIn string
	keepRoot          bool
	recover           bool
	golden            bool
}

var opts runOpts

func runHistory(root string, ops []Op, w *bufio.Writer, seed int64) (lines int, stats map[string]int) {
	if !opts.recover && !opts.golden {
		os.RemoveAll(root)
	}
	if err := os.MkdirAll(root, 0700); err != nil {
		panic(err)
	}
	ex := NewExec(root, w, seed)
	ex.crashAt, ex.failAt, ex.stateOut = opts.crashAt, opts.failAt, opts.stateOut
	if opts.stateIn != "" {
		ex.loadState(opts.stateIn)
	}
	if opts.recover {
		ops = recoveryOps(ex)
	}
	if opts.golden {
		known := []int{}
		for k := range ex.kmap {
			known = append(known, k)
		}
		sort.Ints(known)
		ops = goldenContinuation(profiles["golden"], seed, known)
	}
	done := make(chan struct{})
	go func() {
		select {
		case <-done:
		case <-time.After(time.Duration(hangSeconds) * time.Second):
			fmt.Fprintf(w, "# HANG\n")
			w.Flush()
			fmt.Fprintf(os.Stderr, "HANG in history seed=%d\n", seed)
			os.Exit(4)
		}
	}()
	for _, op := range ops {
		ex.Run(op)
	}
	if opts.crashAt < 0 {
		// the process dies after its last call, without Close (pending writes are lost)
		fmt.Fprintf(w, "crash at=0 count\n")
		w.Flush()
		ex.saveState()
		os.Exit(77)
	}
	close(done)
	if ex.db != nil {
		func() {
			defer func() { recover() }()
			ex.db.Close()
		}()
	}
	ex.saveState()
	if !opts.keepRoot {
		os.RemoveAll(root)
	}
	return ex.lines, ex.stats
}

// recoveryOps is what a process does on a directory left by a crash: open it, look at the
// first answer, check, repair, check again, and read everything back.
func recoveryOps(ex *Exec) []Op {
	ops := []Op{{Op: "reopen"}, {Op: "count"}, {Op: "control"}, {Op: "consistent"}, {Op: "repair"}, {Op: "control"}, {Op: "consistent"}}
	ks := []int{}
	for k := range ex.kmap {
		ks = append(ks, k)
	}
	sort.Ints(ks)
	for _, k := range ks {
		ops = append(ops, Op{Op: "get", K: k}, Op{Op: "exist", K: k})
	}
	ops = append(ops, Op{Op: "count"}, Op{Op: "all"}, Op{Op: "ls"})
	for _, l := range leaves {
		if l.Cast != "-" {
			ops = append(ops, Op{Op: "aidx", Field: l.Path})
		}
	}
	// life goes on: every known object is rewritten with a SHORT value (a leftover of the
	// crash must not leak into it), then a clean restart reads everything back
	for _, k := range ks {
		// (every field distinct per object: no uniqueness constraint can refuse the rewrite)
		sp := Spec{K: k, A: int64(1000 + k), B: uint32(1000 + k), F: uint64(4600000000000000000 + k), G: uint32(1000000000 + k),
			S: hexs(fmt.Sprintf("r%d", k)), Tm: int64(1000 + k), I8: 1, U16: uint16(1000 + k), Y: int64(1000 + k), Z: hexs(fmt.Sprintf("z%d", k)),
			HasP: true, X: uint64(1000 + k), W: hexs(fmt.Sprintf("w%d", k)), HasQ: true, D: int16(1000 + k), L: -1, M: -1}
		ops = append(ops, Op{Op: "ins", Spec: &sp})
	}
	ops = append(ops, Op{Op: "close"}, Op{Op: "reopen"}, Op{Op: "count"}, Op{Op: "control"}, Op{Op: "consistent"})
	for _, k := range ks {
		ops = append(ops, Op{Op: "get", K: k}, Op{Op: "disk", K: k})
	}
	ops = append(ops, Op{Op: "all"}, Op{Op: "ls"})
	return ops
}

func main() {
	profile := flag.String("profile", "crud", "generation profile")
	seed := flag.Int64("seed", 1, "base seed")
	n := flag.Int("n", 10, "number of histories")
	out := flag.String("out", "", "output prefix (<out>.trace, <out>.ops, <out>.stats)")
	root := flag.String("root", "", "scratch directory for databases")
	replay := flag.String("replay", "", "replay the histories of an .ops file instead of generating")
	list := flag.Bool("list", false, "list profiles")
	casecheck := flag.Bool("casecheck", false, "validate the case-mapping laws the Lean theorems assume, over all code points")
	flag.IntVar(&opts.crashAt, "crashat", 0, "exit(77) just before the n-th directory mutation (shim build only)")
	flag.IntVar(&opts.failAt, "failat", 0, "fail the n-th directory mutation with an I/O error (shim build only)")
	flag.StringVar(&opts.stateOut, "state-out", "", "write uuid/handle tables to this file at exit")
	flag.StringVar(&opts.stateIn, "state-in", "", "load uuid/handle tables from this file")
	flag.BoolVar(&opts.keepRoot, "keep", false, "keep the database directory")
	flag.BoolVar(&opts.golden, "golden", false, "continue on a copy of a golden directory (needs -state-in): sweep, further writes, restart, sweep")
	flag.BoolVar(&opts.recover, "recover", false, "run the recovery sequence on an existing directory (needs -state-in)")
	flag.IntVar(&hangSeconds, "hang", 120, "seconds after which a history is declared hung")
	sleepdiv := flag.Int("sleepdiv", 1, "divide the package's sleeps (shim build only)")
	conc := flag.String("conc", "", "run a concurrency scenario: first | progress | lin")
	seconds := flag.Int("seconds", 3, "duration of the progress scenario")
	hostile := flag.Bool("hostile", false, "run the malformed-directory scenario (C19); -n = number of byte-level mutations")
	flag.IntVar(&hostileLimit, "limit", 0, "hostile: number of mutations sampled per configuration (0 = full structural sweep)")
	alias := flag.Bool("alias", false, "run the aliasing / isolation scenario (C14)")
	flag.Parse()
	shimSleepDiv(*sleepdiv)

	if *hostile {
		runHostile(*root, *seed, *n)
		return
	}
	if *alias {
		runAlias(*root, *seed, *n)
		return
	}
	if *conc != "" {
		runConc(*conc, *seed, *n, *root, *out, *seconds)
		return
	}

	if *casecheck {
		caseCheck()
		return
	}

	if *list {
		names := []string{}
		for k := range profiles {
			names = append(names, k)
		}
		sort.Strings(names)
		fmt.Println(strings.Join(names, " "))
		return
	}
	if *out == "" || *root == "" {
		fmt.Fprintln(os.Stderr, "need -out and -root")
		os.Exit(2)
	}
	tf, err := os.Create(*out + ".trace")
	if err != nil {
		panic(err)
	}
	defer tf.Close()
	tw := bufio.NewWriter(tf)
	defer tw.Flush()

	var histories [][]Op
	var seeds []int64
	if opts.recover || opts.golden {
		histories = append(histories, nil)
		seeds = append(seeds, *seed)
	} else if *replay != "" {
		data, err := os.ReadFile(*replay)
		if err != nil {
			panic(err)
		}
		for i, line := range strings.Split(strings.TrimSpace(string(data)), "\n") {
			if line == "" {
				continue
			}
			var ops []Op
			if err := json.Unmarshal([]byte(line), &ops); err != nil {
				panic(err)
			}
			histories = append(histories, ops)
			seeds = append(seeds, *seed+int64(i))
		}
	} else {
		p, ok := profiles[*profile]
		if !ok {
			fmt.Fprintf(os.Stderr, "unknown profile %s\n", *profile)
			os.Exit(2)
		}
		of, err := os.Create(*out + ".ops")
		if err != nil {
			panic(err)
		}
		ow := bufio.NewWriter(of)
		for i := 0; i < *n; i++ {
			s := *seed*1000003 + int64(i)
			ops := History(p, s)
			histories = append(histories, ops)
			seeds = append(seeds, s)
			b, _ := json.Marshal(ops)
			ow.Write(b)
			ow.WriteString("\n")
		}
		ow.Flush()
		of.Close()
	}

	total := map[string]int{}
	lines := 0
	for i, ops := range histories {
		fmt.Fprintf(tw, "# history %d seed %d\n", i, seeds[i])
		dir := filepath.Join(*root, fmt.Sprintf("h%d", i))
		if opts.recover || opts.golden || opts.keepRoot {
			dir = *root
		}
		l, st := runHistory(dir, ops, tw, seeds[i])
		lines += l
		for k, v := range st {
			total[k] += v
		}
	}
	tw.Flush()
	sf, _ := os.Create(*out + ".stats")
	json.NewEncoder(sf).Encode(map[string]interface{}{"histories": len(histories), "lines": lines, "ops": total})
	sf.Close()
}

// caseCheck validates, exhaustively over all Unicode scalar values, the facts about
// strings.ToUpper / strings.ToLower that Props/C16.lean takes as hypotheses:
//
//	up∘up = up, lo∘lo = lo, (lo∘up)∘(lo∘up) = lo∘up, and the string functions map rune by rune.
func caseCheck() {
	n, bad := 0, []string{}
	for r := rune(0); r <= 0x10FFFF; r++ {
		if r >= 0xD800 && r <= 0xDFFF {
			continue
		}
		n++
		s := string(r)
		up, lo := strings.ToUpper(s), strings.ToLower(s)
		lu := strings.ToLower(up)
		if strings.ToUpper(up) != up {
			bad = append(bad, fmt.Sprintf("up-not-idempotent U+%04X", r))
		}
		if strings.ToLower(lo) != lo {
			bad = append(bad, fmt.Sprintf("lo-not-idempotent U+%04X", r))
		}
		if strings.ToLower(strings.ToUpper(lu)) != lu {
			bad = append(bad, fmt.Sprintf("loup-not-idempotent U+%04X", r))
		}
		// rune-by-rune: mapping a two-rune string equals the concatenation of the mappings
		if strings.ToUpper("a"+s+"b") != "A"+up+"B" || strings.ToLower("A"+s+"B") != "a"+lo+"b" {
			bad = append(bad, fmt.Sprintf("not-per-rune U+%04X", r))
		}
	}
	json.NewEncoder(os.Stdout).Encode(map[string]interface{}{"code_points": n, "violations": bad})
	if len(bad) > 0 {
		os.Exit(1)
	}
}
