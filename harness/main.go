package main

import (
	"bufio"
	"encoding/json"
	"flag"
	"fmt"
	"os"
	"path/filepath"
	"sort"
	"strings"
	"time"
)

// One process runs many histories.  For every history:
//   <out>.trace   "# history <n> seed <s>" then one line per call (read by the Lean driver)
//   <out>.ops     the abstract operations, one JSON array per history (for replay / shrinking)

func runHistory(root string, ops []Op, w *bufio.Writer, seed int64) (lines int, stats map[string]int) {
	os.RemoveAll(root)
	if err := os.MkdirAll(root, 0700); err != nil {
		panic(err)
	}
	ex := NewExec(root, w, seed)
	done := make(chan struct{})
	go func() {
		select {
		case <-done:
		case <-time.After(120 * time.Second):
			fmt.Fprintf(w, "# HANG\n")
			w.Flush()
			fmt.Fprintf(os.Stderr, "HANG in history seed=%d\n", seed)
			os.Exit(4)
		}
	}()
	for _, op := range ops {
		ex.Run(op)
	}
	close(done)
	if ex.db != nil {
		func() {
			defer func() { recover() }()
			ex.db.Close()
		}()
	}
	os.RemoveAll(root)
	return ex.lines, ex.stats
}

func main() {
	profile := flag.String("profile", "crud", "generation profile")
	seed := flag.Int64("seed", 1, "base seed")
	n := flag.Int("n", 10, "number of histories")
	out := flag.String("out", "", "output prefix (<out>.trace, <out>.ops, <out>.stats)")
	root := flag.String("root", "", "scratch directory for databases")
	replay := flag.String("replay", "", "replay the histories of an .ops file instead of generating")
	list := flag.Bool("list", false, "list profiles")
	flag.Parse()

	if *list {
		names := []string{}
		for k := range profiles {
			names = append(names, k)
		}
		sort.Strings(names)
		fmt.Println(strings.Join(names, " "))
		return
	}
	if *out == "" || *root == "" {
		fmt.Fprintln(os.Stderr, "need -out and -root")
		os.Exit(2)
	}
	tf, err := os.Create(*out + ".trace")
	if err != nil {
		panic(err)
	}
	defer tf.Close()
	tw := bufio.NewWriter(tf)
	defer tw.Flush()

	var histories [][]Op
	var seeds []int64
	if *replay != "" {
		data, err := os.ReadFile(*replay)
		if err != nil {
			panic(err)
		}
		for i, line := range strings.Split(strings.TrimSpace(string(data)), "\n") {
			if line == "" {
				continue
			}
			var ops []Op
			if err := json.Unmarshal([]byte(line), &ops); err != nil {
				panic(err)
			}
			histories = append(histories, ops)
			seeds = append(seeds, *seed+int64(i))
		}
	} else {
		p, ok := profiles[*profile]
		if !ok {
			fmt.Fprintf(os.Stderr, "unknown profile %s\n", *profile)
			os.Exit(2)
		}
		of, err := os.Create(*out + ".ops")
		if err != nil {
			panic(err)
		}
		ow := bufio.NewWriter(of)
		for i := 0; i < *n; i++ {
			s := *seed*1000003 + int64(i)
			ops := History(p, s)
			histories = append(histories, ops)
			seeds = append(seeds, s)
			b, _ := json.Marshal(ops)
			ow.Write(b)
			ow.WriteString("\n")
		}
		ow.Flush()
		of.Close()
	}

	total := map[string]int{}
	lines := 0
	for i, ops := range histories {
		fmt.Fprintf(tw, "# history %d seed %d\n", i, seeds[i])
		l, st := runHistory(filepath.Join(*root, fmt.Sprintf("h%d", i)), ops, tw, seeds[i])
		lines += l
		for k, v := range st {
			total[k] += v
		}
	}
	tw.Flush()
	sf, _ := os.Create(*out + ".stats")
	json.NewEncoder(sf).Encode(map[string]interface{}{"histories": len(histories), "lines": lines, "ops": total})
	sf.Close()
}
