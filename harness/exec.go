package main

import (
	"bufio"
	"compress/gzip"
	"crypto/sha1"
	"encoding/hex"
	"encoding/json"
	"errors"
	"fmt"
	"io"
	"io/fs"
	"math/rand"
	"os"
	"path/filepath"
	"reflect"
	"regexp"
	"regexp/syntax"
	"sort"
	"strings"
	"sync"
	"sync/atomic"
	"time"

	"github.com/0xrawsec/sod"
)

// Op is one abstract operation of a history (JSON-serialisable).
type Op struct {
	Op     string  `json:"op"`
	K      int     `json:"k,omitempty"`
	Spec   *Spec   `json:"spec,omitempty"`
	Specs  []Spec  `json:"specs,omitempty"`
	Wrong  int     `json:"wrong,omitempty"`  // 1-based position of an object of another type (0 = none)
	WrongU bool    `json:"wrongu,omitempty"` // that object already has a uuid
	CS     int     `json:"cs,omitempty"`
	Sid    int     `json:"sid,omitempty"`
	Old    int     `json:"old,omitempty"`
	Field  string  `json:"field,omitempty"`
	Cmp    string  `json:"cmp,omitempty"`
	Probe  *Probe  `json:"probe,omitempty"`
	N      uint64  `json:"n,omitempty"`
	Cons   []DCons `json:"cons,omitempty"`
	Ext    string  `json:"ext,omitempty"`
	Gz     bool    `json:"gz,omitempty"`
	Cache  bool    `json:"cache,omitempty"`
	AThr   int     `json:"athr,omitempty"` // async threshold (0 = async off)
	AMs    int     `json:"ams,omitempty"`  // async timeout in ms
	Lower  bool    `json:"lower,omitempty"`
	Def    bool    `json:"def,omitempty"` // create with sod.DefaultSchema-like value (no custom descriptors)
	Ms     int     `json:"ms,omitempty"`
	Alt    int     `json:"alt,omitempty"`    // which of several equivalent API entry points makes the call
	Shadow bool    `json:"shadow,omitempty"` // (open) a second collection lives in the same database and is used between the calls
}

type DCons struct {
	Path string `json:"p"`
	C    string `json:"c"` // subset of "iuUL"
}

type Exec struct {
	root    string
	db      *sod.DB
	out     *bufio.Writer
	kmap    map[int]string
	handles map[string]int
	srch    map[int]*sod.Search
	ext     string
	gz      bool
	rng     *rand.Rand
	lines   int
	stats   map[string]int
	aborted bool
	// file-operation observation (only with the shimmed copy of the package)
	fsops           []string // classified mutations of the current call
	nmut            int      // mutations so far in this history
	crashAt         int      // stop the process just before the n-th mutation (0 = never)
	failAt          int      // fail the n-th mutation with an I/O error (0 = never)
	curCall         func() string
	stateOut        string
	failed          bool
	lower           bool
	mu              *sync.Mutex
	sink            func(line string) // when set, trace lines go there instead of `out`
	before          string            // observation sweep taken before the current call (fault mode)
	aidxTargets     map[string]reflect.Value
	realtimeFlusher bool       // a create of this history asked for a flusher that can fire on its own
	shadow          bool       // a second collection (type U) shares the database and the Schema value
	noise           *rand.Rand // PRNG of the calls made on it
	shadowIDs       []string
	reported        bool
}

// A twin of the flusher's polling loop: a goroutine of this process that sleeps in the same 100 ms
// steps.  `sleep` waits for the wall-clock time AND for the twin to have completed as many steps
// as fit into it, so that a process starved of CPU (many checks at once) does not conclude "the
// timeout elapsed" before its own goroutines could have polled that often.
var (
	twinOnce  sync.Once
	twinSteps int64
)

func sleepTicks(ms int) {
	twinOnce.Do(func() {
		go func() {
			for {
				time.Sleep(100 * time.Millisecond)
				atomic.AddInt64(&twinSteps, 1)
			}
		}()
	})
	start := atomic.LoadInt64(&twinSteps)
	time.Sleep(time.Duration(ms) * time.Millisecond)
	deadline := time.Now().Add(30 * time.Second)
	for atomic.LoadInt64(&twinSteps)-start < int64(ms/100) && time.Now().Before(deadline) {
		time.Sleep(10 * time.Millisecond)
	}
}

func NewExec(root string, out io.Writer, seed int64) *Exec {
	return &Exec{root: root, out: bufio.NewWriter(out), mu: &sync.Mutex{}, kmap: map[int]string{}, handles: map[string]int{"": 0},
		srch: map[int]*sod.Search{}, ext: ".json", rng: rand.New(rand.NewSource(seed)), stats: map[string]int{}}
}

func (e *Exec) handle(uuid string) int {
	e.mu.Lock()
	defer e.mu.Unlock()
	if h, ok := e.handles[uuid]; ok {
		return h
	}
	h := len(e.handles)
	e.handles[uuid] = h
	return h
}

func (e *Exec) setK(k int, u string, overwrite bool) {
	e.mu.Lock()
	defer e.mu.Unlock()
	if _, ok := e.kmap[k]; ok && !overwrite {
		return
	}
	e.kmap[k] = u
}

func (e *Exec) getK(k int) (string, bool) {
	e.mu.Lock()
	defer e.mu.Unlock()
	u, ok := e.kmap[k]
	return u, ok
}

func (e *Exec) uuidOfK(k int) string {
	e.mu.Lock()
	defer e.mu.Unlock()
	if u, ok := e.kmap[k]; ok {
		return u
	}
	// a well-formed identifier that was never stored
	b := make([]byte, 16)
	e.rng.Read(b)
	u := fmt.Sprintf("%x-%x-%x-%x-%x", b[0:4], b[4:6], b[6:8], b[8:10], b[10:16])
	e.kmap[k] = u
	return u
}

func errClass(err error) string {
	var se *syntax.Error
	var je *json.SyntaxError
	var ute *json.UnmarshalTypeError
	switch {
	case err == nil:
		return "ok"
	case errors.Is(err, sod.ErrConstraintUnique):
		return "E:unique"
	case errors.Is(err, sod.ErrInvalidObject):
		return "E:invalid"
	case errors.Is(err, sod.ErrWrongObjectType):
		return "E:wrongtype"
	case errors.Is(err, sod.ErrIndexCorrupted):
		return "E:corrupted"
	case errors.Is(err, sod.ErrStructureChanged):
		return "E:structchanged"
	case errors.Is(err, sod.ErrFieldDescModif):
		return "E:descmodif"
	case errors.Is(err, sod.ErrUnkownField):
		return "E:unknownfield"
	case errors.Is(err, sod.ErrUnkownSearchOperator):
		return "E:unknownop"
	case errors.Is(err, sod.ErrCasting):
		return "E:cast"
	case errors.Is(err, sod.ErrUnknownKeyType):
		return "E:keytype"
	case errors.Is(err, sod.ErrNoObjectFound):
		return "E:noobject"
	case errors.Is(err, sod.ErrExtensionMismatch):
		return "E:extmismatch"
	case errors.Is(err, sod.ErrBadSchema):
		return "E:badschema"
	case errors.Is(err, sod.ErrMissingObjIndex):
		return "E:missingindex"
	case errors.Is(err, sod.ErrUnindexedField):
		return "E:unindexed"
	case errors.Is(err, sod.ErrUnexpectedNumberOfResults):
		return "E:unexpectedn"
	case errors.Is(err, fs.ErrNotExist):
		return "E:notfound"
	case errors.As(err, &se):
		return "E:pattern"
	case errors.As(err, &je), errors.As(err, &ute), errors.Is(err, io.ErrUnexpectedEOF):
		return "E:syntax"
	default:
		return "E:other"
	}
}

func (e *Exec) objToken(t *T) string {
	shape, vals := flatten(t)
	return fmt.Sprintf("%d:%s:%s", e.handle(t.UUID()), shape, strings.Join(vals, ";"))
}

func (e *Exec) objsToken(objs []sod.Object, sorted bool) string {
	ts := make([]*T, 0, len(objs))
	for _, o := range objs {
		ts = append(ts, o.(*T))
	}
	if sorted {
		sort.Slice(ts, func(i, j int) bool { return e.handle(ts[i].UUID()) < e.handle(ts[j].UUID()) })
	}
	toks := make([]string, 0, len(ts))
	for _, t := range ts {
		toks = append(toks, e.objToken(t))
	}
	return "[" + strings.Join(toks, " ") + "]"
}

func (e *Exec) emit(call, result string) {
	if e.sink != nil {
		e.sink(call + " => " + result)
		return
	}
	fmt.Fprintf(e.out, "%s => %s\n", call, result)
	e.lines++
	if shimEnabled && !strings.HasPrefix(call, "casemap") && !strings.HasPrefix(call, "tags ") && !strings.HasPrefix(call, "open") {
		// the directory mutations the call performed, in order
		fmt.Fprintf(e.out, "fsops => %s\n", strings.Join(e.fsops, " "))
		e.lines++
	}
	e.fsops = e.fsops[:0]
	e.out.Flush()
}

// classify maps a mutated path to what the model logs: w:<handle> / r:<handle> for an object
// file, ws / rs for schema.json, mk for the collection directory, drop for the whole database.
// Temporary files (dot-prefixed) are invisible to the database and are not logged.
func (e *Exec) classify(op, path string) string {
	base := filepath.Base(path)
	suffix := e.ext
	if e.gz {
		suffix += ".gz"
	}
	switch {
	case op == "removeall":
		return "drop"
	case op == "mkdir":
		return "mk"
	case strings.HasPrefix(base, "."):
		return ""
	case op == "created":
		// a file of the database was opened for writing in place: it is now empty
		if base == sod.SchemaFilename {
			return "trunc:schema"
		}
		return "trunc:" + base
	case base == sod.SchemaFilename:
		if op == "rename" {
			return "ws"
		} else if op == "remove" {
			return "rs"
		}
		return "direct-" + op + ":schema"
	case len(base) >= 36:
		h := e.handle(base[:36])
		if op == "rename" {
			return fmt.Sprintf("w:%d", h)
		} else if op == "remove" {
			return fmt.Sprintf("r:%d", h)
		}
		return fmt.Sprintf("direct-%s:%d", op, h)
	}
	return op + ":" + base
}

var errInjected = errors.New("injected I/O error")

func (e *Exec) hook(op, path string) error {
	c := e.classify(op, path)
	if c == "" {
		return nil
	}
	e.nmut++
	if e.crashAt > 0 && e.nmut == e.crashAt {
		// the process dies just before this mutation
		call := "?"
		if e.curCall != nil {
			call = e.curCall()
		}
		fmt.Fprintf(e.out, "crash at=%d %s\n", len(e.fsops), call)
		e.out.Flush()
		e.saveState()
		os.Exit(77)
	}
	if e.failAt > 0 && e.nmut == e.failAt {
		e.failed = true
		e.fsops = append(e.fsops, "FAIL:"+c)
		return errInjected
	}
	e.fsops = append(e.fsops, c)
	return nil
}

type savedState struct {
	Kmap    map[int]string `json:"kmap"`
	Handles map[string]int `json:"handles"`
	Ext     string         `json:"ext"`
	Gz      bool           `json:"gz"`
	Lower   bool           `json:"lower"`
}

func (e *Exec) saveState() {
	if e.stateOut == "" {
		return
	}
	b, _ := json.Marshal(savedState{e.kmap, e.handles, e.ext, e.gz, e.lower})
	os.WriteFile(e.stateOut, b, 0600)
}

func (e *Exec) loadState(path string) {
	b, err := os.ReadFile(path)
	if err != nil {
		panic(err)
	}
	var st savedState
	if err := json.Unmarshal(b, &st); err != nil {
		panic(err)
	}
	e.kmap, e.handles, e.ext, e.gz, e.lower = st.Kmap, st.Handles, st.Ext, st.Gz, st.Lower
}

// guard runs f, turning a panic into the result "PANIC".
func guard(f func() string) (res string) {
	defer func() {
		if r := recover(); r != nil {
			res = "PANIC"
			if os.Getenv("HARNESS_DEBUG") != "" {
				fmt.Fprintf(os.Stderr, "panic: %v\n", r)
			}
		}
	}()
	return f()
}

func hx(s string) string { return hex.EncodeToString([]byte(s)) }

func (e *Exec) collDir() string {
	entries, err := os.ReadDir(e.root)
	if err != nil {
		return ""
	}
	for _, en := range entries {
		if en.IsDir() {
			return filepath.Join(e.root, en.Name())
		}
	}
	return ""
}

func (e *Exec) fileName(uuid string) string {
	n := uuid + e.ext
	if e.gz {
		n += ".gz"
	}
	return n
}

func asyncTicks(ms int) int { return (ms + 99) / 100 }

func (e *Exec) fieldDescs(cons []DCons) sod.FieldDescMap {
	fds := sod.FieldDescriptors(&T{})
	for _, c := range cons {
		if err := fds.Constraint(c.Path, sod.Constraints{
			Index:  strings.Contains(c.C, "i"), // "u" alone: Unique WITHOUT Index (a custom schema may say so)
			Unique: strings.Contains(c.C, "u"),
			Upper:  strings.Contains(c.C, "U"),
			Lower:  strings.Contains(c.C, "L")}); err != nil {
			panic(err)
		}
	}
	return fds
}

func consOf(cons []DCons, path string) string {
	// later entries override earlier ones (as fds.Constraint does)
	for i := len(cons) - 1; i >= 0; i-- {
		c := cons[i]
		if c.Path == path {
			return c.C
		}
	}
	return ""
}

func liveToken() string {
	parts := make([]string, 0, len(leaves))
	for _, l := range leaves {
		parts = append(parts, l.Path+"|"+l.Type)
	}
	return strings.Join(parts, ",")
}

// Run executes one operation against the real package and writes its trace line.
func (e *Exec) Run(op Op) {
	e.stats[op.Op]++
	// operations on a search that does not exist (removed while shrinking) are skipped
	switch op.Op {
	case "and", "or":
		if e.srch[op.Old] == nil {
			return
		}
	case "len", "limit", "reverse", "collect", "one", "sdel", "uniq", "expects", "expects0":
		if e.srch[op.Sid] == nil {
			return
		}
	}
	if (e.db == nil && op.Op != "open" && op.Op != "reopen" && op.Op != "simg") || e.aborted {
		return
	}
	e.curCall = nil
	if e.failAt > 0 && !e.failed && op.Op != "open" && op.Op != "create" {
		e.before = e.snapshot()
	}
	defer e.afterFault(op)
	if e.shadow && e.db != nil && op.Op != "open" && op.Op != "reopen" && op.Op != "close" && op.Op != "sleep" && op.Op != "tick" {
		e.shadowNoise()
	}
	switch op.Op {
	case "open":
		sod.LowercaseNames = op.Lower
		e.lower = op.Lower
		e.shadow = op.Shadow && !shimEnabled
		e.realtimeFlusher = false
		e.noise = rand.New(rand.NewSource(int64(e.lines)*131 + 7))
		shimInstall(e.hook)
		e.db = sod.Open(e.root)
		e.emit(fmt.Sprintf("open live=%s hooks=1 lower=%d", liveToken(), b2i(op.Lower)), "ok")
		// validate the model's case table on the alphabet in use
		for _, s := range caseAlphabet {
			e.emit(fmt.Sprintf("casemap %s %s %s %s", hx(s), hx(strings.ToUpper(s)), hx(strings.ToLower(s)), hx(strings.ToLower(strings.ToUpper(s)))), "ok")
		}
		e.emitTags()

	case "create":
		var sch sod.Schema
		call := &strings.Builder{}
		fmt.Fprintf(call, "create ext=%s compress=%d cache=%d", hx(op.Ext), b2i(op.Gz), b2i(op.Cache))
		if op.AThr > 0 {
			fmt.Fprintf(call, " async=%d,%d", op.AThr, asyncTicks(op.AMs))
		} else {
			fmt.Fprintf(call, " async=-")
		}
		sch = sod.NewCustomSchema(e.fieldDescs(op.Cons), op.Ext)
		sch.Compress = op.Gz
		sch.Cache = op.Cache
		if op.AThr > 0 {
			sch.Asynchrone(op.AThr, time.Duration(op.AMs)*time.Millisecond)
			if op.AThr < 1000 || op.AMs < 3600*1000 {
				e.realtimeFlusher = true
			}
		}
		for _, l := range leaves {
			fmt.Fprintf(call, " d=%s|%s|%s|%s", l.Path, l.Type, l.Cast, consOf(op.Cons, l.Path))
		}
		e.curCall = func() string { return call.String() }
		res := guard(func() string { return errClass(e.db.Create(&T{}, sch)) })
		if e.shadow {
			// the second collection is created from the SAME Schema value (it shares whatever that
			// value points to), with its own descriptors
			su := sch
			su.Fields, su.ObjectIndex = nil, nil
			e.db.Create(&U{}, su)
		}
		if res == "ok" {
			// remember the on-disk naming of the collection (first successful create fixes it)
			if e.collDir() != "" {
				if s, err := e.db.Schema(&T{}); err == nil {
					e.ext, e.gz = s.Extension, s.Compress
				}
			}
		}
		e.emit(call.String(), res)

	case "ins":
		t := op.Spec.build()
		had := false
		if op.Spec.K > 0 {
			if u, ok := e.getK(op.Spec.K); ok {
				t.Initialize(u)
				had = true
			}
		}
		tok := e.objToken(t)
		call := func() string {
			nw := 0
			if !had && t.UUID() != "" {
				nw = e.handle(t.UUID())
				if op.Spec.K > 0 {
					e.setK(op.Spec.K, t.UUID(), true)
				}
			}
			return fmt.Sprintf("ins %s new=%d", tok, nw)
		}
		e.curCall = call
		res := guard(func() string { return errClass(e.db.InsertOrUpdate(t)) })
		e.emit(call(), res)
		e.simgAfterFailure(res)

	case "many", "bulk":
		objs := make([]sod.Object, 0, len(op.Specs))
		ts := make([]*T, 0, len(op.Specs))
		had := make([]bool, 0, len(op.Specs))
		call := &strings.Builder{}
		if op.Op == "many" {
			if op.Wrong > 0 {
				fmt.Fprintf(call, "many wrong=%d,%d", op.Wrong-1, b2i(op.WrongU))
			} else {
				fmt.Fprintf(call, "many wrong=-")
			}
		} else {
			fmt.Fprintf(call, "bulk k=%d", op.CS)
		}
		for i := range op.Specs {
			sp := &op.Specs[i]
			t := sp.build()
			h := false
			if sp.K > 0 {
				if u, ok := e.getK(sp.K); ok {
					t.Initialize(u)
					h = true
				}
			}
			if op.Op == "many" && op.Wrong > 0 && i == op.Wrong-1 {
				w := &T2{A: 1}
				if op.WrongU {
					w.Initialize(e.uuidOfK(9000 + i))
				}
				objs = append(objs, w)
			} else {
				objs = append(objs, t)
			}
			ts = append(ts, t)
			had = append(had, h)
			fmt.Fprintf(call, " o=%s", e.objToken(t))
		}
		prefix := call.String()
		full := func() string {
			news := make([]string, 0, len(ts))
			for i, t := range ts {
				nw := 0
				if !had[i] && t.UUID() != "" {
					nw = e.handle(t.UUID())
					if op.Specs[i].K > 0 {
						e.setK(op.Specs[i].K, t.UUID(), false)
					}
				}
				news = append(news, fmt.Sprintf("%d", nw))
			}
			return prefix + " news=" + strings.Join(news, ",")
		}
		e.curCall = full
		var res string
		if op.Op == "many" {
			res = guard(func() string {
				if op.Alt == 1 && op.Wrong == 0 {
					objs = sod.ToObjectSlice(ts)
				}
				n, err := e.db.InsertOrUpdateMany(objs...)
				return fmt.Sprintf("%d %s", n, errClass(err))
			})
		} else {
			res = guard(func() string {
				var ch chan sod.Object
				if op.Alt == 1 && op.Wrong == 0 {
					ch = sod.ToObjectChan(ts)
				} else if op.Alt == 2 {
					// a pipeline: the producer reads the database between two sends
					ch = make(chan sod.Object)
					go func() {
						defer close(ch)
						for _, o := range objs {
							e.db.Count(&T{})
							ch <- o
						}
					}()
				} else {
					ch = make(chan sod.Object)
					go func() {
						defer close(ch)
						for _, o := range objs {
							ch <- o
						}
					}()
				}
				n, err := e.db.InsertOrUpdateBulk(ch, op.CS)
				// drain in case of early return
				for range ch {
				}
				return fmt.Sprintf("%d %s", n, errClass(err))
			})
		}
		e.emit(full(), res)
		e.simgAfterFailure(res)

	case "del":
		u := e.uuidOfK(op.K)
		t := &T{}
		t.Initialize(u)
		txt := fmt.Sprintf("del %d", e.handle(u))
		e.curCall = func() string { return txt }
		e.emit(txt, guard(func() string { return errClass(e.db.Delete(t)) }))

	case "delall":
		e.curCall = func() string { return "delall" }
		e.emit("delall", guard(func() string {
			if op.Alt == 1 {
				it, err := e.db.Iterator(&T{})
				if err != nil {
					return errClass(err)
				}
				return errClass(e.db.DeleteObjects(it))
			}
			return errClass(e.db.DeleteAll(&T{}))
		}))

	case "get", "getu":
		u := e.uuidOfK(op.K)
		res := guard(func() string {
			var o sod.Object
			var err error
			if op.Op == "get" {
				t := &T{}
				t.Initialize(u)
				o, err = e.db.Get(t)
			} else {
				o, err = e.db.GetByUUID(&T{}, u)
			}
			if err != nil {
				return errClass(err)
			}
			return e.objToken(o.(*T))
		})
		e.emit(fmt.Sprintf("get %d", e.handle(u)), res)

	case "exist":
		u := e.uuidOfK(op.K)
		t := &T{}
		t.Initialize(u)
		e.emit(fmt.Sprintf("exist %d", e.handle(u)), guard(func() string {
			ok, err := e.db.Exist(t)
			if err != nil {
				return errClass(err)
			}
			return fmt.Sprintf("%t", ok)
		}))

	case "count":
		e.emit("count", guard(func() string {
			n, err := e.db.Count(&T{})
			if err != nil {
				return errClass(err)
			}
			return fmt.Sprintf("%d", n)
		}))

	case "all", "assignall":
		e.emit("all", guard(func() string {
			var objs []sod.Object
			var err error
			if op.Op == "all" {
				objs, err = e.db.All(&T{})
			} else {
				var ts []*T
				err = e.db.AssignAll(&T{}, &ts)
				for _, t := range ts {
					objs = append(objs, t)
				}
			}
			if err != nil {
				return "[] " + errClass(err)
			}
			return e.objsToken(objs, true) + " ok"
		}))

	case "search", "and", "or":
		pv, ptok := op.Probe.value()
		var s *sod.Search
		res := guard(func() string {
			switch op.Op {
			case "search":
				s = e.db.Search(&T{}, op.Field, op.Cmp, pv)
			case "and":
				s = e.srch[op.Old].And(op.Field, op.Cmp, pv)
			case "or":
				s = e.srch[op.Old].Or(op.Field, op.Cmp, pv)
			}
			return fmt.Sprintf("%d %s", s.Len(), errClass(s.Err()))
		})
		if s != nil {
			e.srch[op.Sid] = s
		}
		if op.Op == "search" {
			e.emit(fmt.Sprintf("search %d %s %s %s", op.Sid, hx(op.Field), hx(op.Cmp), ptok), res)
		} else {
			e.emit(fmt.Sprintf("%s %d %d %s %s %s", op.Op, op.Sid, op.Old, hx(op.Field), hx(op.Cmp), ptok), res)
		}

	case "len":
		s := e.srch[op.Sid]
		e.emit(fmt.Sprintf("len %d", op.Sid), guard(func() string { return fmt.Sprintf("%d %s", s.Len(), errClass(s.Err())) }))

	case "limit":
		e.srch[op.Sid].Limit(op.N)
		e.emit(fmt.Sprintf("limit %d %d", op.Sid, op.N), "ok")

	case "reverse":
		e.srch[op.Sid].Reverse()
		e.emit(fmt.Sprintf("reverse %d", op.Sid), "ok")

	case "collect":
		s := e.srch[op.Sid]
		e.emit(fmt.Sprintf("collect %d", op.Sid), guard(func() string {
			if op.Alt == 1 {
				// Assign: nothing is assigned when the search fails
				var ts []*T
				err := s.Assign(&ts)
				objs := make([]sod.Object, 0, len(ts))
				for _, t := range ts {
					objs = append(objs, t)
				}
				return e.objsToken(objs, false) + " " + errClass(err)
			}
			objs, err := s.Collect()
			return e.objsToken(objs, false) + " " + errClass(err)
		}))

	case "one":
		s := e.srch[op.Sid]
		e.emit(fmt.Sprintf("one %d", op.Sid), guard(func() string {
			if op.Alt == 1 {
				var t *T
				if err := s.AssignOne(&t); err != nil {
					return errClass(err)
				}
				return e.objToken(t)
			}
			o, err := s.One()
			if err != nil {
				return errClass(err)
			}
			return e.objToken(o.(*T))
		}))

	case "uniq":
		// AssignUnique = ExpectsZeroOrN(1) then AssignOne
		s := e.srch[op.Sid]
		e.emit(fmt.Sprintf("uniq %d", op.Sid), guard(func() string {
			var t *T
			if err := s.AssignUnique(&t); err != nil {
				return errClass(err)
			}
			return e.objToken(t)
		}))

	case "expects", "expects0":
		s := e.srch[op.Sid]
		e.emit(fmt.Sprintf("%s %d %d", op.Op, op.Sid, op.N), guard(func() string {
			if op.Op == "expects" {
				s.Expects(int(op.N))
			} else {
				s.ExpectsZeroOrN(int(op.N))
			}
			return errClass(s.Err())
		}))

	case "sdel":
		s := e.srch[op.Sid]
		e.curCall = func() string { return fmt.Sprintf("sdel %d", op.Sid) }
		e.emit(fmt.Sprintf("sdel %d", op.Sid), guard(func() string {
			if op.Alt == 1 {
				it, err := s.Iterator()
				if err != nil {
					return errClass(err)
				}
				return errClass(e.db.DeleteObjects(it))
			}
			return errClass(s.Delete())
		}))

	case "aidx":
		e.emit(fmt.Sprintf("aidx %s", hx(op.Field)), guard(func() string { return e.assignIndexInto(op.Field, op.Alt >= 1) }))

	case "consistent":
		e.emit("consistent", guard(func() string { return e.consistent() }))
	case "control":
		if e.shadow {
			// Control checks every collection of the database, and reports a collection with
			// pending asynchronous writes: the shadow collection is flushed first
			e.db.FlushAllAndCommit(&U{})
			e.db.Repair(&U{}) // writes lost with an abandoned handle are not this collection's business
		}
		e.emit("control", guard(func() string {
			err := e.db.Control()
			if err != nil && os.Getenv("HARNESS_DEBUG") != "" {
				fmt.Fprintf(os.Stderr, "control: %v\n", err)
			}
			return errClass(err)
		}))
	case "repair":
		e.curCall = func() string { return "repair" }
		before := e.objectFiles()
		res := guard(func() string { return errClass(e.db.Repair(&T{})) })
		defer func() {
			// Repair indexes and un-indexes; it never writes, replaces or deletes an object file
			if !shimEnabled {
				e.emit("repairfiles", sameFiles(before, e.objectFiles()))
			}
		}()
		e.emit("repair", res)
		if res == "E:unique" {
			// files are re-indexed in map order: which ones made it before the conflict is
			// unspecified, the rest of the history cannot be compared
			e.aborted = true
		}
	case "close":
		e.curCall = func() string { return "close" }
		e.emit("close", guard(func() string { return errClass(e.db.Close()) }))
	case "reopen":
		// abandon the handle (its flusher, if any, is stopped so that it cannot write later)
		sod.LowercaseNames = e.lower
		shimInstall(e.hook)
		e.db = sod.Open(e.root)
		e.srch = map[int]*sod.Search{}
		e.emit("reopen", "ok")
	case "commit":
		e.curCall = func() string { return "commit" }
		e.emit("commit", guard(func() string { return errClass(e.db.Commit(&T{})) }))
	case "flushall":
		e.curCall = func() string { return "flushall" }
		e.emit("flushall", guard(func() string { return errClass(e.db.FlushAll(&T{})) }))
	case "flushallc":
		e.curCall = func() string { return "flushallc" }
		e.emit("flushallc", guard(func() string { return errClass(e.db.FlushAllAndCommit(&T{})) }))

	case "rmfile":
		u := e.uuidOfK(op.K)
		os.Remove(filepath.Join(e.collDir(), e.fileName(u)))
		e.emit(fmt.Sprintf("rmfile %d", e.handle(u)), "ok")

	case "addfile":
		t := op.Spec.build()
		u := e.uuidOfK(op.Spec.K)
		t.Initialize(u)
		if err := e.writeRaw(t); err != nil {
			panic(err)
		}
		e.emit(fmt.Sprintf("addfile %s", e.objToken(t)), "ok")

	case "dropentry":
		u := e.uuidOfK(op.K)
		if op.N == 2 {
			e.tamperSchema(func(m map[string]interface{}) { dupOid(m, u) })
		} else {
			e.tamperSchema(func(m map[string]interface{}) { dropEntry(m, u, op.N == 1) })
		}
		e.emit(fmt.Sprintf("dropentry %d %d", e.handle(u), op.N), "ok")

	case "reshape":
		e.tamperSchema(func(m map[string]interface{}) { reshape(m, int(op.N)) })
		e.emit(fmt.Sprintf("reshape %d", op.N), "ok")

	case "tags":
		e.emitTags()

	case "drop":
		e.emit("drop", guard(func() string { return errClass(e.db.Drop()) }))

	case "simg":
		e.emit("simg", e.schemaImage())

	case "rmschema":
		os.Remove(filepath.Join(e.collDir(), sod.SchemaFilename))
		e.emit("rmschema", "ok")

	case "ls":
		e.emit("ls", e.ls())
		if d := e.collDir(); d != "" {
			e.emit("dirname", hx(filepath.Base(d)))
		}

	case "disk":
		u := e.uuidOfK(op.K)
		e.emit(fmt.Sprintf("disk %d", e.handle(u)), e.readRaw(u))

	case "sleep":
		sleepTicks(op.Ms)

	case "tick":
		e.emit(fmt.Sprintf("tick %d", op.N), "ok")

	default:
		panic("unknown op " + op.Op)
	}
}

func b2i(b bool) int {
	if b {
		return 1
	}
	return 0
}

// writeRaw writes an object file the way another tool would: plain JSON (+gzip).
func (e *Exec) writeRaw(t *T) error {
	data, err := json.Marshal(t)
	if err != nil {
		return err
	}
	path := filepath.Join(e.collDir(), e.fileName(t.UUID()))
	f, err := os.Create(path)
	if err != nil {
		return err
	}
	defer f.Close()
	if e.gz {
		w := gzip.NewWriter(f)
		if _, err = w.Write(data); err != nil {
			return err
		}
		return w.Close()
	}
	_, err = f.Write(data)
	return err
}

// readRaw decodes an object file independently of the package under test.
func (e *Exec) readRaw(uuid string) string {
	defer e.rawLock()()
	path := filepath.Join(e.collDir(), e.fileName(uuid))
	f, err := os.Open(path)
	if err != nil {
		return "-"
	}
	defer f.Close()
	var r io.Reader = f
	if e.gz {
		if r, err = gzip.NewReader(f); err != nil {
			return "BADGZ"
		}
	}
	data, err := io.ReadAll(r)
	if err != nil {
		return "BADREAD"
	}
	t := &T{}
	dec := json.NewDecoder(strings.NewReader(string(data)))
	dec.DisallowUnknownFields()
	if err = dec.Decode(t); err != nil {
		return "BADJSON"
	}
	t.Initialize(uuid)
	return e.objToken(t)
}

// rawLock: the harness looks at the directory as another process would, but it must not do so
// WHILE the background flusher of this process is half way through a flush (some files written,
// the temporary schema file not renamed yet): raw observations take the handle's own lock.
func (e *Exec) rawLock() func() {
	if e.db == nil {
		return func() {}
	}
	e.db.Lock()
	return e.db.Unlock
}

func (e *Exec) ls() string {
	defer e.rawLock()()
	dir := e.collDir()
	schema := 0
	hs := []int{}
	extra := []string{}
	if dir != "" {
		entries, _ := os.ReadDir(dir)
		suffix := e.ext
		if e.gz {
			suffix += ".gz"
		}
		for _, en := range entries {
			n := en.Name()
			switch {
			case n == sod.SchemaFilename:
				schema = 1
			case strings.HasSuffix(n, suffix) && len(n) == 36+len(suffix) && !en.IsDir():
				hs = append(hs, e.handle(strings.TrimSuffix(n, suffix)))
			case opts.recover && strings.HasPrefix(n, ".") && strings.HasSuffix(n, ".tmp"):
				// temporary file left by the crash: invisible to the database
			default:
				extra = append(extra, n)
			}
		}
	}
	sort.Ints(hs)
	parts := make([]string, 0, len(hs))
	for _, h := range hs {
		parts = append(parts, fmt.Sprintf("%d", h))
	}
	res := fmt.Sprintf("[%s] schema=%d", strings.Join(parts, ", "), schema)
	if len(extra) > 0 {
		sort.Strings(extra)
		res += " extra=" + strings.Join(extra, ",")
	}
	return res
}

func (e *Exec) assignIndex(field string) string { return e.assignIndexInto(field, false) }

// assignIndexInto: with `reuse`, the target is the slice the previous AssignIndex of that field
// filled (a caller polling an index into the same variable)
func (e *Exec) assignIndexInto(field string, reuse bool) string {
	li := leafIndex(field)
	var err error
	var toks []string
	typ := "int64"
	if li >= 0 {
		typ = leaves[li].Type
	}
	var target reflect.Value
	switch typ {
	case "int64":
		target = reflect.New(reflect.TypeOf([]int64{}))
	case "uint32":
		target = reflect.New(reflect.TypeOf([]uint32{}))
	case "float64":
		target = reflect.New(reflect.TypeOf([]float64{}))
	case "float32":
		target = reflect.New(reflect.TypeOf([]float32{}))
	case "string":
		target = reflect.New(reflect.TypeOf([]string{}))
	case "time.Time":
		target = reflect.New(reflect.TypeOf([]time.Time{}))
	case "int8":
		target = reflect.New(reflect.TypeOf([]int8{}))
	case "uint16":
		target = reflect.New(reflect.TypeOf([]uint16{}))
	case "int":
		target = reflect.New(reflect.TypeOf([]int{}))
	case "uint64":
		target = reflect.New(reflect.TypeOf([]uint64{}))
	case "int16":
		target = reflect.New(reflect.TypeOf([]int16{}))
	default:
		target = reflect.New(reflect.TypeOf([]int64{}))
	}
	if reuse {
		if e.aidxTargets == nil {
			e.aidxTargets = map[string]reflect.Value{}
		}
		if prev, ok := e.aidxTargets[field]; ok && prev.Type() == target.Type() {
			target = prev
		}
		e.aidxTargets[field] = target
	}
	err = e.db.AssignIndex(&T{}, field, target.Interface())
	if err != nil {
		return "[] " + errClass(err)
	}
	sl := target.Elem()
	for i := 0; i < sl.Len(); i++ {
		v := sl.Index(i)
		switch {
		case typ == "time.Time":
			toks = append(toks, fmt.Sprintf("i%d", v.Interface().(time.Time).UTC().UnixNano()))
		case v.CanInt():
			toks = append(toks, fmt.Sprintf("i%d", v.Int()))
		case v.CanUint():
			toks = append(toks, fmt.Sprintf("u%d", v.Uint()))
		case v.CanFloat():
			toks = append(toks, fleaf(v.Float()))
		default:
			toks = append(toks, sleaf(v.String()))
		}
	}
	return "[" + strings.Join(toks, " ") + "] ok"
}

var caseAlphabet = []string{"a", "Z", "m", "é", "É", "ß", "ÿ", "ǅ", "ǆ", "Ǆ", "İ", "ı", "\u212a", "ſ", "÷", "×", "à", "Þ", "0", " ", "aBc Ééßǅİ\u212a",
	"\x01", "a\"b", "b\\c", "<&>", "\u2028", "\x7f", "\U0001F600", "a\tb"}

// tamperSchema edits schema.json as another tool would (numbers are kept textually).
func (e *Exec) tamperSchema(f func(m map[string]interface{})) {
	path := filepath.Join(e.collDir(), sod.SchemaFilename)
	data, err := os.ReadFile(path)
	if err != nil {
		return
	}
	dec := json.NewDecoder(strings.NewReader(string(data)))
	dec.UseNumber()
	var m map[string]interface{}
	if err := dec.Decode(&m); err != nil {
		panic(err)
	}
	f(m)
	out, err := json.Marshal(m)
	if err != nil {
		panic(err)
	}
	if err := os.WriteFile(path, out, 0600); err != nil {
		panic(err)
	}
}

// dropEntry removes the index entry of an object: from every map of the index (full), or
// only from the first field index in name order (leaving the index internally inconsistent).
func dropEntry(m map[string]interface{}, uuid string, full bool) {
	idx, ok := m["index"].(map[string]interface{})
	if !ok {
		return
	}
	ids, _ := idx["object-ids"].(map[string]interface{})
	oid := ""
	for k, v := range ids {
		if v == uuid {
			oid = k
		}
	}
	if oid == "" {
		return
	}
	fields, _ := idx["fields"].(map[string]interface{})
	names := []string{}
	for n := range fields {
		names = append(names, n)
	}
	sort.Strings(names)
	for i, n := range names {
		if !full && i > 0 {
			break
		}
		fi := fields[n].(map[string]interface{})
		entries, _ := fi["index"].([]interface{})
		kept := []interface{}{}
		for _, en := range entries {
			t := en.([]interface{})
			if fmt.Sprintf("%v", t[1]) != oid {
				kept = append(kept, en)
			}
		}
		fi["index"] = kept
	}
	if full {
		delete(ids, oid)
	}
}

var savedFields interface{}

// reshape makes the stored structure differ from the Go struct: 0 a field disappears,
// 1 a field appears, 2 a field changes type; 99 restores the original descriptors.
func reshape(m map[string]interface{}, variant int) {
	fields, ok := m["fields"].(map[string]interface{})
	if !ok {
		return
	}
	if variant == 99 {
		if savedFields != nil {
			m["fields"] = savedFields
			savedFields = nil
		}
		return
	}
	if savedFields == nil {
		b, _ := json.Marshal(fields)
		var cp map[string]interface{}
		json.Unmarshal(b, &cp)
		savedFields = cp
	}
	switch variant {
	case 0:
		delete(fields, "U16")
	case 1:
		fields["Extra"] = map[string]interface{}{"path": "Extra", "type": "int", "constraints": map[string]interface{}{}}
	case 2:
		if d, ok := fields["B"].(map[string]interface{}); ok {
			d["type"] = "int"
		}
	}
}

// consistent is the oracle "the index and the stored files agree": every stored object must be
// found, under every indexed field, by an equality search on the value its file holds (and the
// number of index entries must be the number of objects).  Answers "true" or "false h1,h2,…"
// with the handles of the objects whose index entries are stale.
func (e *Exec) consistent() string {
	sch, err := e.db.Schema(&T{})
	if err != nil {
		return errClass(err)
	}
	objs, err := e.db.All(&T{})
	if err != nil {
		return "false"
	}
	bad := map[int]bool{}
	sizeOK := true
	for _, fd := range sch.Indexed() {
		li := leafIndex(fd.Path)
		if li < 0 {
			continue
		}
		res := e.assignIndex(fd.Path)
		if !strings.HasSuffix(res, "] ok") {
			return "false"
		}
		inner := strings.TrimSuffix(strings.TrimPrefix(res, "["), "] ok")
		n := 0
		if inner != "" {
			n = len(strings.Split(inner, " "))
		}
		if n != len(objs) {
			sizeOK = false
		}
		for _, o := range objs {
			t := o.(*T)
			var v interface{}
			switch fd.Path {
			case "A":
				v = t.A
			case "B":
				v = t.B
			case "F":
				v = t.F
			case "G":
				v = t.G
			case "S":
				v = t.S
			case "Tm":
				v = t.Tm
			case "I8":
				v = t.I8
			case "U16":
				v = t.U16
			case "Emb.Y":
				v = t.Emb.Y
			case "Emb.Z":
				v = t.Emb.Z
			case "P.X":
				v = uint64(0)
				if t.P != nil {
					v = t.P.X
				}
			case "P.W":
				v = ""
				if t.P != nil {
					v = t.P.W
				}
			case "P.Q.D":
				v = int16(0)
				if t.P != nil && t.P.Q != nil {
					v = t.P.Q.D
				}
			default:
				continue
			}
			found := false
			if it, err := e.db.Search(&T{}, fd.Path, "=", v).Iterator(); err == nil {
				_ = it
			}
			if res, err := e.db.Search(&T{}, fd.Path, "=", v).Collect(); err == nil {
				for _, r := range res {
					if r.UUID() == t.UUID() {
						found = true
					}
				}
			}
			if !found {
				bad[e.handle(t.UUID())] = true
			}
		}
	}
	if len(bad) == 0 && sizeOK {
		return "true"
	}
	hs := []int{}
	for h := range bad {
		hs = append(hs, h)
	}
	sort.Ints(hs)
	parts := []string{}
	for _, h := range hs {
		parts = append(parts, fmt.Sprintf("%d", h))
	}
	return strings.TrimSpace("false " + strings.Join(parts, ","))
}

// snapshot is everything observable through the read paths, as one canonical string.
func (e *Exec) snapshot() string {
	defer func() { recover() }()
	b := &strings.Builder{}
	n, err := e.db.Count(&T{})
	fmt.Fprintf(b, "count=%d/%s;", n, errClass(err))
	objs, err := e.db.All(&T{})
	fmt.Fprintf(b, "all=%s/%s;", e.objsToken(objs, true), errClass(err))
	for _, l := range leaves {
		if l.Cast != "-" {
			fmt.Fprintf(b, "%s=%s;", l.Path, e.assignIndex(l.Path))
		}
	}
	return b.String()
}

// afterFault: once the injected I/O error has fired, the property's oracle sequence is run and
// the history stops (the model does not follow storage faults).
func (e *Exec) afterFault(op Op) {
	if e.failAt == 0 || !e.failed || e.reported {
		return
	}
	e.reported = true
	failAt := e.failAt
	e.failAt = 0 // no further fault
	same := e.snapshot() == e.before
	e.emit(fmt.Sprintf("faultsame %d %s", failAt, op.Op), fmt.Sprintf("%t", same))
	ctl := guard(func() string { return errClass(e.db.Control()) })
	e.emit("control", ctl)
	e.emit("consistent", guard(func() string { return e.consistent() }))
	if ctl != "ok" {
		e.emit("repair", guard(func() string { return errClass(e.db.Repair(&T{})) }))
		e.emit("control", guard(func() string { return errClass(e.db.Control()) }))
		e.emit("consistent", guard(func() string { return e.consistent() }))
	}
	// what a restart sees (the handle is abandoned: nothing more is written)
	e.db = sod.Open(e.root)
	e.emit("reopen", "ok")
	e.emit("count", guard(func() string {
		n, err := e.db.Count(&T{})
		if err != nil {
			return errClass(err)
		}
		return fmt.Sprintf("%d", n)
	}))
	e.emit("consistent", guard(func() string { return e.consistent() }))
	e.aborted = true
}

// rawTags collects path -> raw `sod` tag of every exported leaf field (the harness' own walk)
func rawTags(t reflect.Type, path string, out map[string]string) {
	for i := 0; i < t.NumField(); i++ {
		f := t.Field(i)
		if !f.IsExported() || f.Name == "Item" {
			continue
		}
		p := f.Name
		if path != "" {
			p = path + "." + f.Name
		}
		ft := f.Type
		if ft.Kind() == reflect.Ptr {
			ft = ft.Elem()
		}
		if ft.Kind() == reflect.Struct {
			rawTags(ft, p, out)
			continue
		}
		out[p] = f.Tag.Get("sod")
	}
}

// emitTags: the constraints sod derives from struct tags, against the raw tag text
func (e *Exec) emitTags() {
	// the constraints sod derives from struct tags, against the raw tag text
	fds := sod.FieldDescriptors(&Tagged{})
	raw := map[string]string{}
	rawTags(reflect.TypeOf(Tagged{}), "", raw)
	paths := make([]string, 0, len(raw))
	for k := range raw {
		paths = append(paths, k)
	}
	sort.Strings(paths)
	for _, k := range paths {
		fd, ok := fds[k]
		res := "missing"
		if ok {
			res = "c"
			if fd.Constraints.Index {
				res += "i"
			}
			if fd.Constraints.Unique {
				res += "u"
			}
			if fd.Constraints.Upper {
				res += "U"
			}
			if fd.Constraints.Lower {
				res += "L"
			}
		}
		e.emit(fmt.Sprintf("tags %s %s", hx(k), hx(raw[k])), res)
	}
}

var uuidInJSON = regexp.MustCompile(`"([0-9a-fA-F]{8}-[0-9a-fA-F]{4}-[0-9a-fA-F]{4}-[0-9a-fA-F]{4}-[0-9a-fA-F]{12})"`)

// schemaImage: the bytes of schema.json as they are on disk, in hex, for the model's own JSON
// reader; the only edit is that every uuid string is replaced by the handle the trace uses for it.
func (e *Exec) schemaImage() string {
	defer e.rawLock()()
	d := e.collDir()
	if d == "" {
		return "none"
	}
	data, err := os.ReadFile(filepath.Join(d, sod.SchemaFilename))
	if err != nil {
		return "none"
	}
	data = uuidInJSON.ReplaceAllFunc(data, func(m []byte) []byte {
		return []byte(fmt.Sprintf(`"h%d"`, e.handle(string(m[1:len(m)-1]))))
	})
	return hex.EncodeToString(data)
}

// U is the type of the shadow collection: calls on it must not change anything observable about
// the collection of T (non-interference between collections of one database).
type U struct {
	sod.Item
	A int64  `sod:"index"`
	S string `sod:"unique"`
}

func (e *Exec) shadowNoise() {
	r := e.noise
	switch r.Intn(9) {
	case 0, 1, 2:
		u := &U{A: int64(r.Intn(5)), S: fmt.Sprintf("u%d", r.Intn(1000000))}
		if e.db.InsertOrUpdate(u) == nil {
			e.shadowIDs = append(e.shadowIDs, u.UUID())
		}
	case 3:
		if len(e.shadowIDs) > 0 {
			u := &U{}
			u.Initialize(e.shadowIDs[r.Intn(len(e.shadowIDs))])
			e.db.Delete(u)
		}
	case 4:
		e.db.Count(&U{})
		e.db.Search(&U{}, "A", ">=", int64(r.Intn(5))).Collect()
	case 5:
		e.db.FlushAll(&U{})
	case 6:
		e.db.FlushAllAndCommit(&U{})
	case 7:
		// its settings are changed on the live handle
		s2 := sod.DefaultSchema
		s2.Cache = r.Intn(2) == 0
		if r.Intn(3) > 0 {
			// never reached on its own: a flusher of the shadow collection must not fire after the
			// history's directory is gone (the library panics when its background flush fails)
			s2.Asynchrone(1000+r.Intn(3), time.Hour)
		}
		e.db.Create(&U{}, s2)
	case 8:
		e.db.All(&U{})
	}
}

// simgAfterFailure: a write call that returns an error must leave schema.json as the model says
// (commits forgotten or done twice on error paths show only in the file, or to a second handle)
func (e *Exec) simgAfterFailure(res string) {
	if shimEnabled || e.realtimeFlusher || strings.HasSuffix(res, "ok") || strings.HasSuffix(res, "PANIC") {
		return
	}
	e.emit("simg", e.schemaImage())
}

// dupOid: in the first field index (name order) the entry that FOLLOWS the entry of the object
// (the one before it when it is the last) is made to name that object too.
func dupOid(m map[string]interface{}, uuid string) {
	idx, ok := m["index"].(map[string]interface{})
	if !ok {
		return
	}
	ids, _ := idx["object-ids"].(map[string]interface{})
	oid := ""
	for k, v := range ids {
		if v == uuid {
			oid = k
		}
	}
	fields, _ := idx["fields"].(map[string]interface{})
	names := []string{}
	for n := range fields {
		names = append(names, n)
	}
	sort.Strings(names)
	if oid == "" || len(names) == 0 {
		return
	}
	fi := fields[names[0]].(map[string]interface{})
	entries, _ := fi["index"].([]interface{})
	for i, en := range entries {
		t := en.([]interface{})
		if fmt.Sprintf("%v", t[1]) == oid {
			j := i + 1
			if j >= len(entries) {
				j = i - 1
			}
			if j >= 0 {
				o := entries[j].([]interface{})
				o[1] = t[1]
			}
			return
		}
	}
}

type fileID struct {
	info os.FileInfo
	sum  string
}

// objectFiles: every entry of the collection directory except schema.json, with its identity
// (inode) and content hash
func (e *Exec) objectFiles() map[string]fileID {
	defer e.rawLock()()
	out := map[string]fileID{}
	d := e.collDir()
	if d == "" {
		return out
	}
	entries, _ := os.ReadDir(d)
	for _, en := range entries {
		if en.Name() == sod.SchemaFilename || en.IsDir() {
			continue
		}
		info, err := en.Info()
		if err != nil {
			continue
		}
		data, _ := os.ReadFile(filepath.Join(d, en.Name()))
		out[en.Name()] = fileID{info: info, sum: fmt.Sprintf("%x", sha1.Sum(data))}
	}
	return out
}

func sameFiles(a, b map[string]fileID) string {
	diffs := []string{}
	for n, x := range a {
		y, ok := b[n]
		switch {
		case !ok:
			diffs = append(diffs, "deleted:"+n)
		case x.sum != y.sum:
			diffs = append(diffs, "modified:"+n)
		case !os.SameFile(x.info, y.info):
			diffs = append(diffs, "replaced:"+n)
		}
	}
	for n := range b {
		if _, ok := a[n]; !ok {
			diffs = append(diffs, "created:"+n)
		}
	}
	if len(diffs) == 0 {
		return "same"
	}
	sort.Strings(diffs)
	return strings.Join(diffs, ",")
}
