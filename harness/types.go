package main

import (
	"encoding/hex"
	"encoding/json"
	"errors"
	"fmt"
	"math"
	"sort"
	"strings"
	"time"

	"github.com/0xrawsec/sod"
)

// ---------------------------------------------------------------------------
// The harness object type.  One field of every indexable kind, an embedded
// struct, a two-level pointer chain, and three fields that cannot be indexed.
// Which fields are indexed / unique / upper / lower is chosen at run time
// through NewCustomSchema.
// ---------------------------------------------------------------------------

type Emb struct {
	Y int
	Z string
}

type Deep struct {
	D int16
}

type Inner struct {
	X uint64
	W string
	Q *Deep
}

type T struct {
	sod.Item
	A   int64
	B   uint32
	F   float64
	G   float32
	S   string
	Tm  time.Time
	I8  int8
	U16 uint16
	Emb
	P    *Inner
	Flag bool
	L    []string
	M    map[string]int
}

// Transform: data dependent so that ordering mistakes are observable.
func (t *T) Transform() {
	if t.I8 == 7 {
		t.A++
	}
	t.S = strings.TrimLeft(t.S, " ")
	// sets a field that may carry an upper/lower constraint: the schema's case transform has to
	// come AFTER this hook
	if t.I8 == 2 {
		t.Emb.Z += "x"
	}
}

var errHook = errors.New("rejected by Validate")

// Validate looks at transformed *and* case-canonicalised values.
func (t *T) Validate() error {
	if t.A == 13 {
		return errHook
	}
	if t.S == "BAD" {
		return errHook
	}
	if t.P != nil && t.P.W == "bad" {
		return errHook
	}
	return nil
}

// T2 is "an object of another type" for batch calls.
type T2 struct {
	sod.Item
	A int64
}

// leaf paths of T in descriptor (= model) order, with Go type names and casts
type leafInfo struct {
	Path string
	Type string
	Cast string // i64 u64 f64 str or -
}

var leaves = []leafInfo{
	{"A", "int64", "i64"},
	{"B", "uint32", "u64"},
	{"F", "float64", "f64"},
	{"G", "float32", "f64"},
	{"S", "string", "str"},
	{"Tm", "time.Time", "i64"},
	{"I8", "int8", "i64"},
	{"U16", "uint16", "u64"},
	{"Emb.Y", "int", "i64"},
	{"Emb.Z", "string", "str"},
	{"P.X", "uint64", "u64"},
	{"P.W", "string", "str"},
	{"P.Q.D", "int16", "i64"},
	{"Flag", "bool", "-"},
	{"L", "[]string", "-"},
	{"M", "map[string]int", "-"},
}

func leafIndex(path string) int {
	for i, l := range leaves {
		if l.Path == path {
			return i
		}
	}
	return -1
}

// Spec is the generator-level description of an object (JSON-serialisable so
// that histories can be stored, replayed and shrunk).
type Spec struct {
	K    int    `json:"k"` // generator-level identity (0 = anonymous new object)
	A    int64  `json:"A"`
	B    uint32 `json:"B"`
	F    uint64 `json:"F"` // float64 bits
	G    uint32 `json:"G"` // float32 bits
	S    string `json:"S"` // hex
	Tm   int64  `json:"Tm"`
	I8   int8   `json:"I8"`
	U16  uint16 `json:"U16"`
	Y    int64  `json:"Y"`
	Z    string `json:"Z"` // hex
	HasP bool   `json:"hasP"`
	X    uint64 `json:"X"`
	W    string `json:"W"` // hex
	HasQ bool   `json:"hasQ"`
	D    int16  `json:"D"`
	Flag bool   `json:"Flag"`
	L    int    `json:"L"` // -1 nil, else length
	M    int    `json:"M"` // -1 nil, else size
	// the zero time.Time (year 1): its UnixNano is outside the representable range and wraps
	TmZero bool `json:"tmzero,omitempty"`
}

func unhexs(s string) string {
	b, err := hex.DecodeString(s)
	if err != nil {
		panic(err)
	}
	return string(b)
}

func (sp *Spec) build() *T {
	t := &T{
		A: sp.A, B: sp.B, F: math.Float64frombits(sp.F), G: math.Float32frombits(sp.G),
		S: unhexs(sp.S), Tm: time.Unix(0, sp.Tm).UTC(), I8: sp.I8, U16: sp.U16,
		Emb: Emb{Y: int(sp.Y), Z: unhexs(sp.Z)}, Flag: sp.Flag,
	}
	if sp.TmZero {
		t.Tm = time.Time{}
	}
	if sp.HasP {
		t.P = &Inner{X: sp.X, W: unhexs(sp.W)}
		if sp.HasQ {
			t.P.Q = &Deep{D: sp.D}
		}
	}
	if sp.L >= 0 {
		t.L = make([]string, sp.L)
		for i := range t.L {
			t.L[i] = fmt.Sprintf("l%d", i)
		}
	}
	if sp.M >= 0 {
		t.M = make(map[string]int)
		for i := 0; i < sp.M; i++ {
			t.M[fmt.Sprintf("m%d", i)] = i
		}
	}
	return t
}

// floatKey maps a non-NaN double to an integer with the same order (+0 and -0 share 0).
func floatKey(f float64) (string, bool) {
	if f != f {
		return "", false
	}
	if f == 0 {
		return "0", true
	}
	bits := math.Float64bits(f)
	if bits>>63 == 0 {
		return fmt.Sprintf("%d", bits), true
	}
	return fmt.Sprintf("-%d", bits&0x7FFFFFFFFFFFFFFF), true
}

func fleaf(f float64) string {
	if k, ok := floatKey(f); ok {
		return "f" + k
	}
	return "onan"
}

func sleaf(s string) string { return "s" + hex.EncodeToString([]byte(s)) }

func opaqueJSON(v interface{}) string {
	b, err := json.Marshal(v)
	if err != nil {
		panic(err)
	}
	return "o" + hex.EncodeToString(b)
}

// flatten resolves every leaf the way the specification says field paths resolve:
// a leaf behind a nil pointer reads as the zero value.
func flatten(t *T) (shape string, vals []string) {
	var p Inner
	shape = "P0"
	if t.P != nil {
		p = *t.P
		shape = "P1Q0"
	}
	var q Deep
	if p.Q != nil {
		q = *p.Q
		shape = "P1Q1"
	}
	// nil vs empty containers do not survive a JSON round trip identically only for
	// nil slice/map (null -> nil): both sides see the same, so they are part of the leaf
	l := "onull"
	if t.L != nil {
		l = opaqueJSON(t.L)
	}
	m := "onull"
	if t.M != nil {
		keys := make([]string, 0, len(t.M))
		for k := range t.M {
			keys = append(keys, k)
		}
		sort.Strings(keys)
		parts := make([]string, 0, len(keys))
		for _, k := range keys {
			parts = append(parts, fmt.Sprintf("%s=%d", k, t.M[k]))
		}
		m = "o" + hex.EncodeToString([]byte(strings.Join(parts, ",")))
	}
	vals = []string{
		fmt.Sprintf("i%d", t.A),
		fmt.Sprintf("u%d", t.B),
		fleaf(t.F),
		fleaf(float64(t.G)),
		sleaf(t.S),
		timeLeaf(t.Tm),
		fmt.Sprintf("i%d", t.I8),
		fmt.Sprintf("u%d", t.U16),
		fmt.Sprintf("i%d", t.Emb.Y),
		sleaf(t.Emb.Z),
		fmt.Sprintf("u%d", p.X),
		sleaf(p.W),
		fmt.Sprintf("i%d", q.D),
		fmt.Sprintf("o%t", t.Flag),
		l,
		m,
	}
	return
}

// Probe is a typed search value.
type Probe struct {
	T string `json:"t"` // int int8 int16 int32 int64 uint uint8 uint16 uint32 uint64 float32 float64 string time nil bool struct
	I int64  `json:"i,omitempty"`
	U uint64 `json:"u,omitempty"`
	F uint64 `json:"f,omitempty"` // bits
	S string `json:"s,omitempty"` // hex
}

func (p Probe) value() (interface{}, string) {
	switch p.T {
	case "int":
		return int(p.I), fmt.Sprintf("i%d", int(p.I))
	case "int8":
		return int8(p.I), fmt.Sprintf("i%d", int8(p.I))
	case "int16":
		return int16(p.I), fmt.Sprintf("i%d", int16(p.I))
	case "int32":
		return int32(p.I), fmt.Sprintf("i%d", int32(p.I))
	case "int64":
		return int64(p.I), fmt.Sprintf("i%d", p.I)
	case "uint":
		return uint(p.U), fmt.Sprintf("u%d", uint(p.U))
	case "uint8":
		return uint8(p.U), fmt.Sprintf("u%d", uint8(p.U))
	case "uint16":
		return uint16(p.U), fmt.Sprintf("u%d", uint16(p.U))
	case "uint32":
		return uint32(p.U), fmt.Sprintf("u%d", uint32(p.U))
	case "uint64":
		return p.U, fmt.Sprintf("u%d", p.U)
	case "float32":
		f := math.Float32frombits(uint32(p.F))
		return f, fleaf(float64(f))
	case "float64":
		f := math.Float64frombits(p.F)
		return f, fleaf(f)
	case "string":
		return unhexs(p.S), sleaf(unhexs(p.S))
	case "nstring":
		return namedString(unhexs(p.S)), "onstring"
	case "time":
		return time.Unix(0, p.I).UTC(), fmt.Sprintf("i%d", p.I)
	case "nil":
		return nil, "onil"
	case "bool":
		return p.I != 0, "obool"
	case "struct":
		return Deep{D: 1}, "ostruct"
	case "slice":
		return []string{"x"}, "oslice"
	}
	panic("unknown probe type " + p.T)
}

// timeLeaf: a time as its UnixNano.  The zero time.Time is outside the representable range and
// wraps to a number that is ALSO the UnixNano of an ordinary date (1754-08-30): that date must not
// pass for the zero time.
func timeLeaf(t time.Time) string {
	n := t.UTC().UnixNano()
	if !t.IsZero() && n == (time.Time{}).UnixNano() {
		return fmt.Sprintf("i%d!not-the-zero-time", n)
	}
	return fmt.Sprintf("i%d", n)
}

// namedString: a defined type whose underlying type is string (not an index key type)
type namedString string
