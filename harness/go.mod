module sodharness

go 1.18

require github.com/0xrawsec/sod v0.0.0

require (
	github.com/0xrawsec/toast v1.2.3 // indirect
	github.com/google/uuid v1.3.0 // indirect
)

replace github.com/0xrawsec/sod => /repo
