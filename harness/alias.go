package main

import (
	"encoding/json"
	"fmt"
	"math/rand"
	"os"
	"path/filepath"
	"reflect"
	"time"

	"github.com/0xrawsec/sod"
)

// ---------------------------------------------------------------------------
// C14: stored values are isolated from caller memory.
//
// Random object shapes (nil / empty / non-empty containers, pointer chains, slices of
// pointers, maps of slices, arrays of references, nested structs).  For each: store, scribble
// over everything the caller still holds, read, scribble over what was read, read again; the
// reads must equal the value stored, and two reads must share no reference (the relation the
// Lean model `SodModel/Clone.lean` predicts: references reachable through exported fields of a
// copy are all fresh).
// ---------------------------------------------------------------------------

// (a recursive type — Next *Node — sends sod's FieldDescriptors into unbounded recursion: out
// of scope of the properties, noted in DESIGN.md; the chain uses distinct types)
type N3 struct {
	V int
}

type N2 struct {
	V    int
	Next *N3
}

type Node struct {
	V    int
	Next *N2
}

type Nest struct {
	X []int
	Q *Node
	M map[string][]int
}

type DeepT struct {
	sod.Item
	A    int `sod:"index"`
	P    *Node
	S    []int
	SP   []*Node
	SS   [][]string
	M    map[string]int
	MP   map[string]*Node
	MS   map[string][]int
	Arr  [2]*Node
	ArrS [2][]int
	ArrM [1]map[string]int
	St   Nest
	PSt  *Nest
	I    interface{}
	SA   [][2]*Node // containers of arrays of references
	SAS  [][1][]int
	MA   map[string][2]*Node
	AA   [2][1]*Node
	// free-form data: references BELOW an interface element
	SI []interface{}
	MI map[string]interface{}
}

func genNode(r *rand.Rand, depth int) *Node {
	if depth == 0 || r.Intn(4) == 0 {
		return nil
	}
	n := &Node{V: r.Intn(100)}
	if depth > 1 && r.Intn(4) > 0 {
		n.Next = &N2{V: r.Intn(100)}
		if depth > 2 && r.Intn(4) > 0 {
			n.Next.Next = &N3{V: r.Intn(100)}
		}
	}
	return n
}

// genFree builds JSON-like free-form data (what a decoded document looks like): maps and slices
// nested below interface values
func genFree(r *rand.Rand, depth int) interface{} {
	m := map[string]interface{}{"v": float64(r.Intn(100))}
	if depth > 0 {
		m["sub"] = genFree(r, depth-1)
		m["list"] = []interface{}{float64(r.Intn(10)), map[string]interface{}{"z": float64(r.Intn(10))}}
	}
	return m
}

func scribbleFree(v interface{}) {
	switch x := v.(type) {
	case map[string]interface{}:
		for k := range x {
			scribbleFree(x[k])
		}
		for k := range x {
			x[k] = "scribble"
		}
		if x != nil {
			x["scribble"] = -777.0
		}
	case []interface{}:
		for i := range x {
			scribbleFree(x[i])
		}
		for i := range x {
			x[i] = "scribble"
		}
	case *Node:
		scribbleNode(x)
	}
}

func genInts(r *rand.Rand) []int {
	if r.Intn(6) == 0 {
		return make([]int, 0, 3) // empty, not nil, with room to append
	}
	switch r.Intn(4) {
	case 0:
		return nil
	case 1:
		return []int{}
	}
	s := make([]int, 1+r.Intn(3), 5)
	for i := range s {
		s[i] = r.Intn(100)
	}
	return s
}

func genNest(r *rand.Rand) Nest {
	n := Nest{X: genInts(r), Q: genNode(r, 2)}
	if r.Intn(2) == 0 {
		n.M = map[string][]int{"k": genInts(r), "l": genInts(r)}
	}
	return n
}

func genDeep(r *rand.Rand) *DeepT {
	d := &DeepT{A: r.Intn(50), P: genNode(r, 3), S: genInts(r), St: genNest(r)}
	if r.Intn(3) > 0 {
		d.SP = []*Node{genNode(r, 2), genNode(r, 1), nil}
	}
	if r.Intn(3) > 0 {
		d.SS = [][]string{{"a", "b"}, nil, {}}
	}
	switch r.Intn(3) {
	case 0:
		d.M = map[string]int{}
	case 1:
		d.M = map[string]int{"x": 1, "y": 2}
	}
	if r.Intn(2) == 0 {
		d.MP = map[string]*Node{"n": genNode(r, 2), "nil": nil}
	}
	if r.Intn(2) == 0 {
		d.MS = map[string][]int{"s": genInts(r), "t": genInts(r)}
	}
	d.Arr = [2]*Node{genNode(r, 2), genNode(r, 1)}
	d.ArrS = [2][]int{genInts(r), genInts(r)}
	if r.Intn(2) == 0 {
		d.ArrM = [1]map[string]int{{"z": 26}}
	}
	if r.Intn(2) == 0 {
		n := genNest(r)
		d.PSt = &n
	}
	switch r.Intn(4) {
	case 0:
		d.I = "text"
	case 1:
		d.I = genFree(r, 2)
	case 2:
		d.I = []interface{}{genFree(r, 1), "x"}
	}
	if r.Intn(3) > 0 {
		d.SI = []interface{}{genFree(r, 2), []interface{}{1.0, genFree(r, 1)}, "s", 2.0}
	}
	if r.Intn(3) > 0 {
		d.MI = map[string]interface{}{"m": genFree(r, 2), "l": []interface{}{genFree(r, 1)}, "n": 1.0}
	}
	if r.Intn(3) > 0 {
		d.SA = [][2]*Node{{genNode(r, 2), genNode(r, 1)}, {nil, genNode(r, 1)}}
	}
	if r.Intn(3) > 0 {
		d.SAS = [][1][]int{{genInts(r)}, {genInts(r)}}
	}
	if r.Intn(2) == 0 {
		d.MA = map[string][2]*Node{"a": {genNode(r, 1), genNode(r, 2)}}
	}
	d.AA = [2][1]*Node{{genNode(r, 1)}, {genNode(r, 2)}}
	return d
}

// scribble overwrites everything reachable through references (not the top-level scalar fields).
func scribbleNode(n *Node) {
	if n == nil {
		return
	}
	n.V = -777
	if n.Next != nil {
		n.Next.V = -777
		if n.Next.Next != nil {
			n.Next.Next.V = -777
		}
	}
}

func scribbleInts(s []int) {
	for i := range s {
		s[i] = -777
	}
	if cap(s) > len(s) {
		s = s[:cap(s)]
		for i := range s {
			s[i] = -777
		}
	}
}

func scribbleNest(n *Nest) {
	if n == nil {
		return
	}
	scribbleInts(n.X)
	scribbleNode(n.Q)
	for k, v := range n.M {
		scribbleInts(v)
		_ = k
	}
	if n.M != nil {
		n.M["scribble"] = []int{-777}
	}
}

func scribble(d *DeepT) {
	scribbleNode(d.P)
	scribbleInts(d.S)
	for _, n := range d.SP {
		scribbleNode(n)
	}
	for i := range d.SP {
		d.SP[i] = &Node{V: -777}
	}
	for _, ss := range d.SS {
		for i := range ss {
			ss[i] = "scribble"
		}
	}
	if d.M != nil {
		d.M["scribble"] = -777
		for k := range d.M {
			d.M[k] = -777
		}
	}
	for k, n := range d.MP {
		scribbleNode(n)
		d.MP[k] = &Node{V: -777}
	}
	for _, s := range d.MS {
		scribbleInts(s)
	}
	if d.MS != nil {
		d.MS["scribble"] = []int{-777}
	}
	for _, n := range d.Arr {
		scribbleNode(n)
	}
	for _, s := range d.ArrS {
		scribbleInts(s)
	}
	if d.ArrM[0] != nil {
		d.ArrM[0]["scribble"] = -777
	}
	scribbleNest(&d.St)
	scribbleNest(d.PSt)
	for i := range d.SA {
		scribbleNode(d.SA[i][0])
		scribbleNode(d.SA[i][1])
	}
	for i := range d.SAS {
		scribbleInts(d.SAS[i][0])
	}
	for _, a := range d.MA {
		scribbleNode(a[0])
		scribbleNode(a[1])
	}
	scribbleNode(d.AA[0][0])
	scribbleNode(d.AA[1][0])
	scribbleFree(d.I)
	scribbleFree(d.SI)
	scribbleFree(d.MI)
}

func snap(d *DeepT) string {
	b, err := json.Marshal(d)
	if err != nil {
		panic(err)
	}
	return string(b)
}

// refs collects the identity of every pointer, non-empty slice and map reachable through
// exported fields.
func refs(v reflect.Value, out map[uintptr]string, path string) {
	switch v.Kind() {
	case reflect.Ptr:
		if !v.IsNil() {
			out[v.Pointer()] = path
			refs(v.Elem(), out, path+"*")
		}
	case reflect.Slice:
		if !v.IsNil() && v.Cap() > 0 {
			out[v.Pointer()] = path
		}
		for i := 0; i < v.Len(); i++ {
			refs(v.Index(i), out, fmt.Sprintf("%s[%d]", path, i))
		}
	case reflect.Map:
		if !v.IsNil() {
			out[v.Pointer()] = path
			it := v.MapRange()
			for it.Next() {
				refs(it.Value(), out, path+"{"+fmt.Sprint(it.Key())+"}")
			}
		}
	case reflect.Array:
		for i := 0; i < v.Len(); i++ {
			refs(v.Index(i), out, fmt.Sprintf("%s[%d]", path, i))
		}
	case reflect.Struct:
		for i := 0; i < v.NumField(); i++ {
			if v.Type().Field(i).IsExported() && v.Type().Field(i).Name != "Item" {
				refs(v.Field(i), out, path+"."+v.Type().Field(i).Name)
			}
		}
	case reflect.Interface:
		if !v.IsNil() {
			refs(v.Elem(), out, path)
		}
	}
}

func shared(a, b *DeepT) []string {
	ra, rb := map[uintptr]string{}, map[uintptr]string{}
	refs(reflect.ValueOf(a).Elem(), ra, "")
	refs(reflect.ValueOf(b).Elem(), rb, "")
	res := []string{}
	for p, pa := range ra {
		if pb, ok := rb[p]; ok {
			res = append(res, pa+" == "+pb)
		}
	}
	return res
}

type aliasReport struct {
	Cases    int      `json:"cases"`
	Configs  []string `json:"configs"`
	Failures []string `json:"failures"`
	Refs     int      `json:"references_compared"`
	Sample   string   `json:"sample"`
}

func runAlias(root string, seed int64, n int) {
	rep := aliasReport{}
	nread := 0
	for cfg := 0; cfg < 4; cfg++ {
		cache, async := cfg&1 == 1, cfg&2 == 2
		dir := filepath.Join(root, fmt.Sprintf("alias%d", cfg))
		os.RemoveAll(dir)
		db := sod.Open(dir)
		sch := sod.DefaultSchema
		sch.Cache = cache
		if async {
			sch.Asynchrone(1000, time.Hour)
		}
		if err := db.Create(&DeepT{}, sch); err != nil {
			panic(err)
		}
		rep.Configs = append(rep.Configs, fmt.Sprintf("cache=%v async=%v", cache, async))
		r := rand.New(rand.NewSource(seed*131 + int64(cfg)))
		for i := 0; i < n; i++ {
			rep.Cases++
			fail := func(format string, args ...interface{}) {
				if len(rep.Failures) < 20 {
					rep.Failures = append(rep.Failures, fmt.Sprintf("[cache=%v async=%v case %d] ", cache, async, i)+fmt.Sprintf(format, args...))
				}
			}
			o := genDeep(r)
			want := snap(o)
			if rep.Sample == "" {
				rep.Sample = want
			}
			if err := db.InsertOrUpdate(o); err != nil {
				fail("insert: %v", err)
				continue
			}
			uuid := o.UUID()
			aVal := o.A
			scribble(o) // the caller keeps writing to its object
			nread++
			get := func() *DeepT {
				// every way of reading an object back, in turn
				nread++
				var g sod.Object
				var err error
				switch nread % 5 {
				case 0:
					t := &DeepT{}
					t.Initialize(uuid)
					g, err = db.Get(t)
				case 1:
					g, err = db.GetByUUID(&DeepT{}, uuid)
				case 2:
					var objs []sod.Object
					if objs, err = db.Search(&DeepT{}, "A", "=", aVal).Collect(); err == nil {
						err = fmt.Errorf("not among the results of a search on A")
						for _, x := range objs {
							if x.UUID() == uuid {
								g, err = x, nil
							}
						}
					}
				case 3:
					var ts []*DeepT
					if err = db.AssignAll(&DeepT{}, &ts); err == nil {
						err = fmt.Errorf("not among the results of AssignAll")
						for _, x := range ts {
							if x.UUID() == uuid {
								g, err = x, nil
							}
						}
					}
				default:
					var ts []*DeepT
					if err = db.Search(&DeepT{}, "A", "=", aVal).Assign(&ts); err == nil {
						err = fmt.Errorf("not among the results of Search.Assign")
						for _, x := range ts {
							if x.UUID() == uuid {
								g, err = x, nil
							}
						}
					}
				}
				if err != nil {
					fail("read (path %d): %v", nread%5, err)
					return nil
				}
				return g.(*DeepT)
			}
			g1 := get()
			if g1 == nil {
				continue
			}
			if got := snap(g1); got != want {
				fail("mutating the object after storing it changed the stored value:\n   stored %s\n   read   %s", want, got)
			}
			if sh := shared(o, g1); len(sh) > 0 {
				fail("the object read shares memory with the object stored: %v", sh)
			}
			scribble(g1) // and to what it read
			g2 := get()
			if g2 == nil {
				continue
			}
			if got := snap(g2); got != want {
				fail("mutating an object returned by Get changed what the next Get returns:\n   stored %s\n   read   %s", want, got)
			}
			g3 := get()
			if g3 != nil {
				if sh := shared(g2, g3); len(sh) > 0 {
					fail("two reads share memory: %v", sh)
				}
				ra := map[uintptr]string{}
				refs(reflect.ValueOf(g3).Elem(), ra, "")
				rep.Refs += len(ra)
			}
			// a cached read equals a round trip through the file (asynchronous writes: once flushed —
			// what reaches the disk is what was stored, not what the caller did to its object since)
			if async {
				if err := db.FlushAllAndCommit(&DeepT{}); err != nil {
					fail("flush: %v", err)
				}
			}
			{
				db2 := sod.Open(dir)
				t := &DeepT{}
				t.Initialize(uuid)
				if f, err := db2.Get(t); err != nil {
					fail("second handle get: %v", err)
				} else if g4 := get(); g4 != nil && !reflect.DeepEqual(stripItem(f.(*DeepT)), stripItem(g4)) {
					fail("cached read differs from the file round trip:\n   file   %s\n   cached %s", snap(f.(*DeepT)), snap(g4))
				} else if got := snap(f.(*DeepT)); got != want {
					fail("the file does not hold the value that was stored:\n   stored %s\n   file   %s", want, got)
				}
			}
			// a read that MISSES the cache (new handle on the same directory): what it returns must
			// not be the cache entry itself
			if !async && i%3 == 0 {
				db.Close()
				db = sod.Open(dir)
				if m1 := get(); m1 != nil {
					if got := snap(m1); got != want {
						fail("first read through a new handle differs from the stored value:\n   stored %s\n   read   %s", want, got)
					}
					scribble(m1)
					m1.A = -777
					if m2 := get(); m2 != nil {
						if got := snap(m2); got != want {
							fail("mutating the object returned by a cache-missing read changed what the next read returns:\n   stored %s\n   read   %s", want, got)
						}
						if sh := shared(m1, m2); len(sh) > 0 {
							fail("a cache-missing read shares memory with the next read: %v", sh)
						}
					}
				}
			}
			// All / iteration also hand out private copies
			if i%10 == 0 {
				if objs, err := db.All(&DeepT{}); err == nil {
					for _, x := range objs {
						if x.UUID() == uuid {
							scribble(x.(*DeepT))
						}
					}
					if g5 := get(); g5 != nil && snap(g5) != want {
						fail("mutating an object returned by All changed the stored value")
					}
				}
			}
		}
		db.Close()
		os.RemoveAll(dir)
	}
	json.NewEncoder(os.Stdout).Encode(rep)
	if len(rep.Failures) > 0 {
		os.Exit(1)
	}
}

func stripItem(d *DeepT) DeepT {
	c := *d
	c.Item = sod.Item{}
	return c
}
