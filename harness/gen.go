package main

import (
	"encoding/hex"
	"math"
	"math/rand"
	"strings"
)

// ---------------------------------------------------------------------------
// History generation.  Everything random derives from one PRNG.
// ---------------------------------------------------------------------------

type Profile struct {
	Shadow  bool // one history in three also uses a second collection of the same database
	Name    string
	Weights map[string]int // op kind -> weight
	Len     [2]int         // min,max number of ops after create
	MaxK    int            // number of distinct object identities
	// probabilities (percent)
	PIndex, PUnique, PUpper, PLower int
	PCache, PAsync, PGz, PLowerDir  int
	PExt                            int // custom extension
	PWrongProbe                     int
	PBadInput                       int // invalid / NaN objects
	Wide                            bool
	Fields                          []string // restrict searched fields (nil = all castable)
	SweepEvery                      int      // emit a read sweep every n ops (0 = never)
	SearchSweep                     bool
	NoHostile                       bool
	CaseHeavy                       bool
	EmptyOften                      bool
	NoLimit                         bool
}

type Gen struct {
	lastCreate Op
	alt        *rand.Rand
	r          *rand.Rand
	p          *Profile
	cons       []DCons
	nextSid    int
	sids       []int
	maxK       int
	usedK      map[int]bool
	async      bool
	asyncMs    int
	ext        string
	gz         bool
	ops        []Op
}

func hexs(s string) string { return hex.EncodeToString([]byte(s)) }

var (
	valsA = []int64{-3, -1, 0, 1, 2, 3, 4, 5, 12, 13, 1 << 53, 1<<53 + 1, 1 << 60, 1<<60 + 1, math.MaxInt64, math.MinInt64, math.MaxInt64 - 1}
	valsB = []uint32{0, 1, 2, 3, 4, math.MaxUint32}
	valsF = []float64{-1.5, math.Copysign(0, -1), 0, 0.1, 1, 2.5, 1e300, -1e300, 5e-324, 3}
	valsG = []float32{0, 0.1, 1.5, 3e38, -2}
	valsS = []string{"", "a", "A", "b", "B", "ab", "Ab", "AB", "bad", "BAD", "é", "É", "ß", "ǅ", " x", "abc", "ABC", "b c",
		// what a JSON encoder has to escape or may mangle: control characters, quote, backslash,
		// the HTML-sensitive characters, U+2028, DEL, a rune outside the BMP
		"\x01", "a\"b", "b\\c", "<&>", "\u2028", "\x7f", "\U0001F600", "a\tb"}
	valsTm  = []int64{0, 1, -1, 1700000000123456789, 1700000000123456788, 1700000000123456790, 1600000000000000000, math.MaxInt64, math.MinInt64 + 1}
	valsI8  = []int8{-128, 0, 1, 2, 7, 127}
	valsU16 = []uint16{0, 1, 2, 65535}
	valsY   = []int64{-2, -1, 0, 1, 2, 3}
	valsX   = []uint64{0, 1, 2, 3, 1 << 63, math.MaxUint64, 1<<53 + 1}
	valsW   = []string{"", "w", "W", "bad", "Bad", "ww"}
	valsD   = []int16{-1, 0, 1, 32767, -32768}
)

var valsCase = []string{"straße", "STRASSE", "Éa", "éA", "ǅx", "ǆX", "ǄX", "İb", "ib", "ıb", "Ib", "\u212a1", "k1", "K1", "ſt", "st", "ST", "ÿz", "ŸZ", "bad", "BAD", "Bad"}

func (g *Gen) spec(k int) Spec {
	r := g.r
	n := 3
	if g.p.Wide {
		n = 100
	}
	pick := func(l int) int {
		if n < l && r.Intn(100) < 85 {
			m := n + 2
			if m > l {
				m = l
			}
			return r.Intn(m)
		}
		return r.Intn(l)
	}
	sp := Spec{K: k,
		A: valsA[pick(len(valsA))], B: valsB[pick(len(valsB))],
		F: math.Float64bits(valsF[pick(len(valsF))]), G: math.Float32bits(valsG[pick(len(valsG))]),
		S: hexs(valsS[pick(len(valsS))]), Tm: valsTm[pick(len(valsTm))],
		I8: valsI8[r.Intn(len(valsI8))], U16: valsU16[pick(len(valsU16))],
		Y: valsY[pick(len(valsY))], Z: hexs(valsS[pick(len(valsS))]),
		HasP: r.Intn(100) < 70, X: valsX[pick(len(valsX))], W: hexs(valsW[pick(len(valsW))]),
		HasQ: r.Intn(100) < 50, D: valsD[pick(len(valsD))],
		Flag: r.Intn(2) == 0, L: r.Intn(4) - 1, M: r.Intn(4) - 1,
		TmZero: r.Intn(100) < 6,
	}
	if g.p.CaseHeavy {
		sp.S = hexs(valsCase[r.Intn(len(valsCase))])
		sp.Z = hexs(valsCase[r.Intn(len(valsCase))])
		sp.W = hexs(valsCase[r.Intn(len(valsCase))])
		if r.Intn(100) >= g.p.PBadInput && (sp.W == hexs("bad") || sp.W == hexs("BAD") || sp.W == hexs("Bad")) {
			sp.W = hexs("st")
		}
		if r.Intn(100) >= g.p.PBadInput && (sp.S == hexs("bad") || sp.S == hexs("BAD") || sp.S == hexs("Bad")) {
			sp.S = hexs("st")
		}
	}
	// the hook triggers are kept rare unless the profile asks for bad input
	if r.Intn(100) >= g.p.PBadInput {
		if sp.I8 == 7 {
			sp.I8 = 1
		}
		if sp.A == 13 || sp.A == 12 {
			sp.A = 2
		}
		if sp.S == hexs("BAD") || sp.S == hexs("bad") {
			sp.S = hexs("ab")
		}
		if sp.W == hexs("bad") || sp.W == hexs("Bad") {
			sp.W = hexs("w")
		}
	} else if r.Intn(4) == 0 {
		sp.F = math.Float64bits(math.NaN())
	}
	return sp
}

func (g *Gen) pickK(newBias int) int {
	if g.r.Intn(100) < newBias || len(g.usedK) == 0 {
		k := g.r.Intn(g.p.MaxK) + 1
		g.usedK[k] = true
		return k
	}
	ks := make([]int, 0, len(g.usedK))
	for k := 1; k <= g.p.MaxK+8; k++ {
		if g.usedK[k] {
			ks = append(ks, k)
		}
	}
	if len(ks) == 0 {
		return 1
	}
	return ks[g.r.Intn(len(ks))]
}

// foreignK: an identity for a file ADDED by another tool — never one that exists already
// (C11 quantifies over added and removed files, not over files modified behind the index)
func (g *Gen) foreignK() int {
	for try := 0; try < 8; try++ {
		k := g.p.MaxK + 2 + g.r.Intn(6)
		if !g.usedK[k] {
			g.usedK[k] = true
			return k
		}
	}
	return 0
}

func castOf(path string) string { return leaves[leafIndex(path)].Cast }

func (g *Gen) searchFields() []string {
	if g.p.Fields != nil {
		return g.p.Fields
	}
	fs := []string{}
	for _, l := range leaves {
		if l.Cast != "-" {
			fs = append(fs, l.Path)
		}
	}
	return fs
}

// probe builds a search value for a field: mostly well typed, from the value alphabets
// (present values, neighbours, extremes), sometimes mistyped.
func (g *Gen) probe(field string) Probe {
	r := g.r
	li := leafIndex(field)
	if li < 0 || r.Intn(100) < g.p.PWrongProbe {
		switch r.Intn(8) {
		case 0:
			return Probe{T: "nil"}
		case 1:
			return Probe{T: "bool", I: 1}
		case 2:
			return Probe{T: "struct"}
		case 3:
			if r.Intn(2) == 0 {
				return Probe{T: "nstring", S: hexs("a")} // a named string type is not a string key
			}
			return Probe{T: "string", S: hexs("a")}
		case 4:
			return Probe{T: "int", I: 1}
		case 5:
			return Probe{T: "uint8", U: 1}
		case 6:
			return Probe{T: "float64", F: math.Float64bits(1)}
		default:
			return Probe{T: "slice"}
		}
	}
	l := leaves[li]
	delta := int64(r.Intn(3) - 1)
	switch l.Path {
	case "A":
		v := valsA[r.Intn(len(valsA))]
		if (delta > 0 && v < math.MaxInt64) || (delta < 0 && v > math.MinInt64) {
			v += delta
		}
		return Probe{T: "int64", I: v}
	case "B":
		v := valsB[r.Intn(len(valsB))]
		return Probe{T: "uint32", U: uint64(v)}
	case "F":
		return Probe{T: "float64", F: math.Float64bits(valsF[r.Intn(len(valsF))] + float64(delta)*0.5)}
	case "G":
		return Probe{T: "float32", F: uint64(math.Float32bits(valsG[r.Intn(len(valsG))]))}
	case "S", "Emb.Z":
		if g.p.CaseHeavy {
			return Probe{T: "string", S: hexs(valsCase[r.Intn(len(valsCase))])}
		}
		return Probe{T: "string", S: hexs(valsS[r.Intn(len(valsS))])}
	case "P.W":
		if g.p.CaseHeavy {
			return Probe{T: "string", S: hexs(valsCase[r.Intn(len(valsCase))])}
		}
		return Probe{T: "string", S: hexs(valsW[r.Intn(len(valsW))])}
	case "Tm":
		v := valsTm[r.Intn(len(valsTm))]
		if (delta > 0 && v < math.MaxInt64) || (delta < 0 && v > math.MinInt64+1) {
			v += delta
		}
		return Probe{T: "time", I: v}
	case "I8":
		return Probe{T: "int8", I: int64(valsI8[r.Intn(len(valsI8))])}
	case "U16":
		return Probe{T: "uint16", U: uint64(valsU16[r.Intn(len(valsU16))])}
	case "Emb.Y":
		return Probe{T: "int", I: valsY[r.Intn(len(valsY))] + delta}
	case "P.X":
		return Probe{T: "uint64", U: valsX[r.Intn(len(valsX))]}
	case "P.Q.D":
		return Probe{T: "int16", I: int64(valsD[r.Intn(len(valsD))])}
	}
	return Probe{T: "nil"}
}

// absentProbe: a well-typed value no generator ever stores in that field
func (g *Gen) absentProbe(field string) Probe {
	switch field {
	case "A":
		return Probe{T: "int64", I: 777}
	case "B":
		return Probe{T: "uint32", U: 777}
	case "F":
		return Probe{T: "float64", F: math.Float64bits(777.5)}
	case "G":
		return Probe{T: "float32", F: uint64(math.Float32bits(777.5))}
	case "S", "Emb.Z", "P.W":
		return Probe{T: "string", S: hexs("absent-777")}
	case "Tm":
		return Probe{T: "time", I: 777}
	case "I8":
		return Probe{T: "int8", I: 77}
	case "U16":
		return Probe{T: "uint16", U: 777}
	case "Emb.Y":
		return Probe{T: "int", I: 777}
	case "P.X":
		return Probe{T: "uint64", U: 777}
	case "P.Q.D":
		return Probe{T: "int16", I: 777}
	}
	return Probe{T: "int64", I: 777}
}

var cmps = []string{"=", "!=", "<", "<=", ">", ">=", "~="}
var patterns = []string{"a", "^a", "b$", "^ab$", "B", "", "^", "é", "(", "[a", "A", "^A", "bc"}

func (g *Gen) cmpAndProbe(field string) (string, Probe) {
	r := g.r
	cmp := cmps[r.Intn(len(cmps))]
	if !g.p.NoHostile && r.Intn(100) < 3 {
		cmp = []string{"==", "", "=~", "<>"}[r.Intn(4)]
	}
	p := g.probe(field)
	if cmp == "~=" && p.T == "string" {
		p.S = hexs(patterns[r.Intn(len(patterns))])
	}
	return cmp, p
}

func (g *Gen) field() string {
	fs := g.searchFields()
	r := g.r
	if !g.p.NoHostile && r.Intn(100) < 3 {
		return []string{"Nope", "P", "A.B", "Emb", "P.Q", "Flag", "L", "", "a"}[r.Intn(9)]
	}
	return fs[r.Intn(len(fs))]
}

func (g *Gen) genCons() []DCons {
	r := g.r
	cons := []DCons{}
	for _, l := range leaves {
		if l.Cast == "-" {
			continue
		}
		c := ""
		if r.Intn(100) < g.p.PIndex {
			c += "i"
		}
		if r.Intn(100) < g.p.PUnique {
			c += "u"
		}
		if l.Cast == "str" {
			if r.Intn(100) < g.p.PUpper {
				c += "U"
			}
			if r.Intn(100) < g.p.PLower {
				c += "L"
			}
		}
		if c != "" {
			cons = append(cons, DCons{Path: l.Path, C: c})
		}
	}
	return cons
}

// extAlt: one custom extension in six is the empty one (files named by the bare uuid); drawn from
// the generator's secondary PRNG so that the main stream is unchanged
func (g *Gen) extAlt() bool {
	if g.alt == nil {
		g.alt = rand.New(rand.NewSource(int64(len(g.ops))*7919 + 17))
	}
	return g.alt.Intn(6) == 0
}

func (g *Gen) createOp() Op {
	r := g.r
	op := Op{Op: "create", Cons: g.cons, Ext: ".json"}
	if r.Intn(100) < g.p.PExt {
		op.Ext = []string{".obj", ".j", ".data.json"}[r.Intn(3)]
		if g.extAlt() {
			op.Ext = ""
		}
	}
	op.Gz = r.Intn(100) < g.p.PGz
	op.Cache = r.Intn(100) < g.p.PCache
	if r.Intn(100) < g.p.PAsync {
		op.AThr = []int{1, 2, 3, 5, 1000}[r.Intn(5)]
		op.AMs = 3600 * 1000 // the flusher must not fire on its own in sequential profiles
		if op.AThr < 1000 {
			op.AThr = 1000
		}
		g.async = true
	}
	return op
}

// add appends an operation.  Calls that have several equivalent API entry points (Collect /
// Assign, One / AssignOne / AssignUnique, DeleteAll / Iterator+DeleteObjects, Search.Delete /
// Search.Iterator+DeleteObjects, variadic / ToObjectSlice, channel / ToObjectChan) pick one from a
// PRNG of their own, so that the main random stream — and every history built from it — is unchanged.
func (g *Gen) add(op Op) {
	if op.Op == "create" {
		g.lastCreate = op
	}
	if g.alt == nil {
		g.alt = rand.New(rand.NewSource(int64(len(g.ops))*7919 + 17))
	}
	switch op.Op {
	case "collect":
		if g.alt.Intn(20) == 0 {
			g.ops = append(g.ops, Op{Op: []string{"expects", "expects0"}[g.alt.Intn(2)], Sid: op.Sid, N: uint64(g.alt.Intn(4))})
		}
		op.Alt = g.alt.Intn(2)
	case "one":
		if g.alt.Intn(4) == 0 {
			op.Op = "uniq"
		} else {
			op.Alt = g.alt.Intn(2)
		}
	case "aidx":
		if op.Alt == 0 {
			op.Alt = g.alt.Intn(2)
		}
	case "bulk":
		op.Alt = g.alt.Intn(3)
	case "sdel", "delall", "many":
		op.Alt = g.alt.Intn(2)
	}
	g.ops = append(g.ops, op)
}

func (g *Gen) sweep() {
	for k := 1; k <= g.p.MaxK+8; k++ {
		if g.usedK[k] || k == g.p.MaxK+1 {
			g.add(Op{Op: "get", K: k})
			if !g.usedK[k] {
				g.add(Op{Op: "get", K: k}) // absent ids are looked up twice
			}
			g.add(Op{Op: "exist", K: k})
		}
	}
	g.add(Op{Op: "count"})
	g.add(Op{Op: "all"})
}

func (g *Gen) searchSweep() {
	for _, f := range g.searchFields() {
		for i := 0; i < 2; i++ {
			cmp, p := g.cmpAndProbe(f)
			g.nextSid++
			g.add(Op{Op: "search", Sid: g.nextSid, Field: f, Cmp: cmp, Probe: &p})
			g.add(Op{Op: "collect", Sid: g.nextSid})
		}
	}
}

func weighted(r *rand.Rand, w map[string]int) string {
	keys := make([]string, 0, len(w))
	total := 0
	for k := range w {
		keys = append(keys, k)
	}
	// deterministic order
	for i := 0; i < len(keys); i++ {
		for j := i + 1; j < len(keys); j++ {
			if keys[j] < keys[i] {
				keys[i], keys[j] = keys[j], keys[i]
			}
		}
	}
	for _, k := range keys {
		total += w[k]
	}
	x := r.Intn(total)
	for _, k := range keys {
		if x < w[k] {
			return k
		}
		x -= w[k]
	}
	return keys[0]
}

// asyncHistory: real-time scenarios for asynchronous writes (C10).  The flusher is observed
// only after waits that are certainly long enough; `tick n` tells the model how many polls
// have certainly happened.
func asyncHistory(p *Profile, seed int64) []Op {
	g := &Gen{r: rand.New(rand.NewSource(seed)), alt: rand.New(rand.NewSource(seed ^ 0x5eed5eed)), p: p, usedK: map[int]bool{}}
	r := g.r
	g.cons = g.genCons()
	g.add(Op{Op: "open", Shadow: seed%2 == 1, Lower: seed%5 == 0})
	byTimeout := r.Intn(2) == 0
	thr, ms := 2+r.Intn(3), 3600*1000
	if byTimeout {
		thr, ms = 1000, 200+100*r.Intn(2)
	}
	g.add(Op{Op: "create", Cons: g.cons, Ext: ".json", Cache: r.Intn(2) == 0, Gz: r.Intn(4) == 0, AThr: thr, AMs: ms})
	quiesce := func() {
		if byTimeout {
			g.add(Op{Op: "sleep", Ms: ms + 450})
			g.add(Op{Op: "tick", N: uint64(asyncTicks(ms) + 2)})
		} else {
			g.add(Op{Op: "sleep", Ms: 450})
			g.add(Op{Op: "tick", N: 3})
		}
	}
	observe := func() {
		g.add(Op{Op: "ls"})
		for k := 1; k <= 6; k++ {
			if g.usedK[k] {
				g.add(Op{Op: "disk", K: k})
				g.add(Op{Op: "get", K: k})
				g.add(Op{Op: "exist", K: k})
			}
		}
		g.add(Op{Op: "count"})
	}
	rounds := 2 + r.Intn(2)
	for round := 0; round < rounds; round++ {
		n := 1 + r.Intn(3)
		if !byTimeout {
			n = thr + r.Intn(2) // reach the threshold
		}
		for i := 0; i < n; i++ {
			k := 1 + r.Intn(6)
			g.usedK[k] = true
			sp := g.spec(k)
			g.add(Op{Op: "ins", Spec: &sp})
			// visible at once through every read of the handle
			g.add(Op{Op: "get", K: k})
			g.add(Op{Op: "exist", K: k})
			if r.Intn(4) == 0 {
				g.add(Op{Op: "del", K: 1 + r.Intn(6)}) // possibly while its write is pending
			}
		}
		switch r.Intn(10) {
		case 9:
			// settings made tight on the live handle: the flusher must pick them up
			g.add(Op{Op: "flushall"})
			g.add(Op{Op: "create", Cons: g.cons, Ext: ".json", Cache: r.Intn(2) == 0, AThr: 1 << 30, AMs: 3600 * 1000})
			g.add(Op{Op: "sleep", Ms: 250})
			g.add(Op{Op: "tick", N: 2})
			g.add(Op{Op: "create", Cons: g.cons, Ext: ".json", Cache: r.Intn(2) == 0, AThr: thr, AMs: ms})
			for i := 0; i < thr && i < 6; i++ {
				sp := g.spec(1 + i)
				g.usedK[1+i] = true
				g.add(Op{Op: "ins", Spec: &sp})
			}
			quiesce()
			observe()
		case 8:
			// objects flushed without commit, then a flush-and-commit with nothing pending: the
			// schema must be committed all the same
			g.add(Op{Op: "flushall"})
			g.add(Op{Op: "flushallc"})
			g.add(Op{Op: "simg"})
			observe()
		case 7:
			// the database is dropped and the collection created again on the same handle: the new
			// collection needs a flusher of its own
			g.add(Op{Op: "drop"})
			g.add(Op{Op: "create", Cons: g.cons, Ext: ".json", Cache: r.Intn(2) == 0, AThr: thr, AMs: ms})
			for i := 0; i < thr && i < 6; i++ {
				sp := g.spec(1 + i)
				g.usedK[1+i] = true
				g.add(Op{Op: "ins", Spec: &sp})
			}
			quiesce()
			observe()
		case 6:
			// asynchronous writes switched off and on again on the live handle: the flusher must be back
			off := Op{Op: "create", Cons: g.cons, Ext: ".json", Cache: r.Intn(2) == 0}
			g.add(off)
			g.add(Op{Op: "sleep", Ms: 250})
			g.add(Op{Op: "tick", N: 2})
			g.add(Op{Op: "create", Cons: g.cons, Ext: ".json", Cache: r.Intn(2) == 0, AThr: thr, AMs: ms})
			k := 1 + r.Intn(6)
			g.usedK[k] = true
			for i := 0; i < thr && i < 6; i++ {
				sp := g.spec(1 + (k+i)%6)
				g.usedK[1+(k+i)%6] = true
				g.add(Op{Op: "ins", Spec: &sp})
			}
			quiesce()
			observe()
		case 0:
			g.add(Op{Op: "flushall"})
			observe()
		case 1:
			g.add(Op{Op: "flushallc"})
			observe()
		case 2:
			// the only call after Open is an update
			g.add(Op{Op: "close"})
			g.add(Op{Op: "reopen"})
			k := 1 + r.Intn(6)
			g.usedK[k] = true
			sp := g.spec(k)
			g.add(Op{Op: "ins", Spec: &sp})
			quiesce()
			observe()
		default:
			quiesce()
			observe()
		}
	}
	g.add(Op{Op: "close"})
	observe()
	g.add(Op{Op: "reopen"})
	g.add(Op{Op: "count"})
	g.add(Op{Op: "control"})
	g.add(Op{Op: "all"})
	return g.ops
}

// goldenHistory: what the pinned release is asked to write for the golden corpus (C18).  The
// configuration is taken from the low bits of the seed so that a run of 32 seeds covers every
// combination; only calls that the pinned release handles correctly are used.
func goldenHistory(p *Profile, seed int64) []Op {
	g := &Gen{r: rand.New(rand.NewSource(seed)), alt: rand.New(rand.NewSource(seed ^ 0x5eed5eed)), p: p, usedK: map[int]bool{}}
	r := g.r
	g.cons = g.genCons()
	bits := seed % 32
	g.add(Op{Op: "open", Lower: bits&1 != 0})
	c := Op{Op: "create", Cons: g.cons, Ext: ".json", Cache: bits&2 != 0, Gz: bits&4 != 0}
	if bits&8 != 0 {
		c.Ext = ".obj"
	}
	if bits&16 != 0 {
		c.AThr, c.AMs = 1000, 3600*1000
	}
	g.add(c)
	n := 8 + r.Intn(10)
	for i := 0; i < n; i++ {
		switch x := r.Intn(10); {
		case x < 6:
			sp := g.spec(g.pickK(55))
			g.add(Op{Op: "ins", Spec: &sp})
		case x < 8:
			specs := []Spec{}
			for j := 0; j < 1+r.Intn(3); j++ {
				specs = append(specs, g.spec(g.pickK(70)))
			}
			g.add(Op{Op: "many", Specs: specs})
		default:
			g.add(Op{Op: "del", K: g.pickK(5)})
		}
	}
	g.goldenSweep()
	g.add(Op{Op: "close"})
	g.add(Op{Op: "ls"})
	return g.ops
}

func (g *Gen) goldenSweep() {
	for k := 1; k <= g.p.MaxK+1; k++ {
		if g.usedK[k] || k == g.p.MaxK+1 {
			g.add(Op{Op: "get", K: k})
		}
	}
	g.add(Op{Op: "count"})
	g.add(Op{Op: "all"})
	for _, l := range leaves {
		if l.Cast != "-" {
			g.add(Op{Op: "aidx", Field: l.Path})
		}
	}
}

// goldenContinuation: what the CURRENT code does on a copy of a golden directory.
func goldenContinuation(p *Profile, seed int64, known []int) []Op {
	g := &Gen{r: rand.New(rand.NewSource(seed)), alt: rand.New(rand.NewSource(seed ^ 0x5eed5eed)), p: p, usedK: map[int]bool{}}
	for _, k := range known {
		g.usedK[k] = true
	}
	r := g.r
	// the schema file exactly as the pinned release left it, read by the model's own decoder
	g.add(Op{Op: "simg"})
	g.add(Op{Op: "reopen"})
	g.add(Op{Op: "count"})
	g.add(Op{Op: "control"})
	g.goldenSweep()
	for _, k := range known {
		g.add(Op{Op: "exist", K: k})
		g.add(Op{Op: "disk", K: k})
	}
	g.add(Op{Op: "ls"})
	g.searchSweep()
	// further writes, then a restart
	for i := 0; i < 8; i++ {
		switch x := r.Intn(10); {
		case x < 6:
			sp := g.spec(g.pickK(50))
			g.add(Op{Op: "ins", Spec: &sp})
		case x < 8:
			specs := []Spec{g.spec(g.pickK(70)), g.spec(g.pickK(70))}
			g.add(Op{Op: "many", Specs: specs})
		default:
			g.add(Op{Op: "del", K: g.pickK(5)})
		}
	}
	g.add(Op{Op: "close"})
	g.add(Op{Op: "simg"})
	g.add(Op{Op: "reopen"})
	g.add(Op{Op: "count"})
	g.add(Op{Op: "control"})
	g.goldenSweep()
	g.searchSweep()
	g.add(Op{Op: "ls"})
	return g.ops
}

// History generates one history for the profile.
func History(p *Profile, seed int64) []Op {
	if p.Name == "async" {
		return asyncHistory(p, seed)
	}
	if p.Name == "golden" {
		return goldenHistory(p, seed)
	}
	g := &Gen{r: rand.New(rand.NewSource(seed)), alt: rand.New(rand.NewSource(seed ^ 0x5eed5eed)), p: p, usedK: map[int]bool{}}
	r := g.r
	g.cons = g.genCons()
	g.add(Op{Op: "open", Lower: r.Intn(100) < p.PLowerDir, Shadow: p.Shadow && seed%3 == 0})
	first := g.createOp()
	g.ext = first.Ext
	g.gz = first.Gz
	g.add(first)
	if p.EmptyOften {
		for i := 0; i < 6; i++ {
			f := g.field()
			cmp, pr := g.cmpAndProbe(f)
			g.nextSid++
			g.sids = append(g.sids, g.nextSid)
			g.add(Op{Op: "search", Sid: g.nextSid, Field: f, Cmp: cmp, Probe: &pr})
			g.add(Op{Op: "collect", Sid: g.nextSid})
		}
	}
	n := p.Len[0] + r.Intn(p.Len[1]-p.Len[0]+1)
	for i := 0; i < n; i++ {
		kind := weighted(r, p.Weights)
		switch kind {
		case "ins":
			k := g.pickK(45)
			if r.Intn(100) < 4 {
				k = 0
			}
			sp := g.spec(k)
			g.add(Op{Op: "ins", Spec: &sp})
		case "many", "bulk":
			m := r.Intn(6)
			if r.Intn(10) == 0 {
				m = r.Intn(25)
			}
			specs := make([]Spec, 0, m)
			for j := 0; j < m; j++ {
				k := g.pickK(60)
				if r.Intn(100) < 10 {
					k = 0
				}
				specs = append(specs, g.spec(k))
			}
			op := Op{Op: kind, Specs: specs}
			if kind == "many" && m > 0 && r.Intn(100) < 8 {
				op.Wrong = r.Intn(m) + 1
				op.WrongU = r.Intn(2) == 0
			}
			if kind == "bulk" {
				op.CS = []int{1, 2, 3, m, m + 1, 0, 5}[r.Intn(7)]
				if op.CS == 0 && m == 0 {
					op.CS = 1
				}
			}
			g.add(op)
		case "del":
			g.add(Op{Op: "del", K: g.pickK(10)})
		case "delall":
			g.add(Op{Op: "delall"})
		case "get":
			g.add(Op{Op: []string{"get", "getu"}[r.Intn(2)], K: g.pickK(15)})
			if r.Intn(3) == 0 {
				g.add(Op{Op: "get", K: g.ops[len(g.ops)-1].K})
			}
		case "exist":
			g.add(Op{Op: "exist", K: g.pickK(15)})
		case "count":
			g.add(Op{Op: "count"})
		case "all":
			g.add(Op{Op: []string{"all", "assignall"}[r.Intn(2)]})
		case "search":
			f := g.field()
			cmp, pr := g.cmpAndProbe(f)
			g.nextSid++
			g.sids = append(g.sids, g.nextSid)
			g.add(Op{Op: "search", Sid: g.nextSid, Field: f, Cmp: cmp, Probe: &pr})
		case "refine":
			if len(g.sids) == 0 {
				continue
			}
			old := g.sids[r.Intn(len(g.sids))]
			f := g.field()
			cmp, pr := g.cmpAndProbe(f)
			g.nextSid++
			g.sids = append(g.sids, g.nextSid)
			g.add(Op{Op: []string{"and", "or"}[r.Intn(2)], Sid: g.nextSid, Old: old, Field: f, Cmp: cmp, Probe: &pr})
		case "collect":
			if len(g.sids) == 0 {
				continue
			}
			sid := g.sids[r.Intn(len(g.sids))]
			if g.p.NoLimit {
				g.add(Op{Op: []string{"collect", "len"}[r.Intn(2)], Sid: sid})
				continue
			}
			if r.Intn(100) < 25 {
				g.add(Op{Op: "limit", Sid: sid, N: uint64([]int{0, 1, 2, 3, 100}[r.Intn(5)])})
			}
			if r.Intn(100) < 25 {
				g.add(Op{Op: "reverse", Sid: sid})
			}
			g.add(Op{Op: []string{"collect", "collect", "collect", "one", "len"}[r.Intn(5)], Sid: sid})
		case "sdel":
			if len(g.sids) == 0 {
				continue
			}
			g.add(Op{Op: "sdel", Sid: g.sids[r.Intn(len(g.sids))]})
		case "aidx":
			g.add(Op{Op: "aidx", Field: g.field()})
		case "reopen":
			if r.Intn(2) == 0 || g.async || g.p.NoLimit {
				// (the pairs profile is replayed under an asynchronous configuration too)
				g.add(Op{Op: "close"})
			}
			g.add(Op{Op: "simg"})
			g.add(Op{Op: "reopen"})
			g.sids = nil
		case "control":
			g.add(Op{Op: "control"})
		case "flush":
			g.add(Op{Op: []string{"flushall", "flushallc", "commit"}[r.Intn(3)]})
		case "ls":
			g.add(Op{Op: "ls"})
			g.add(Op{Op: "simg"})
			g.add(Op{Op: "disk", K: g.pickK(10)})
		case "recreatec":
			// Create again on the live handle with a COMPATIBLE schema: same descriptors, extension
			// and compression; cache and asynchronous-write settings kept or changed
			op := g.lastCreate
			if op.Op == "" {
				op = g.createOp()
				op.Ext, op.Gz = g.ext, g.gz
			}
			switch r.Intn(4) {
			case 0:
				op.Cache = !op.Cache
			case 1:
				if op.AThr > 0 {
					op.AThr, op.AMs = 0, 0
				} else {
					op.AThr, op.AMs = 1000, 3600*1000
					g.async = true
				}
			case 2:
				if op.AThr > 0 {
					op.AThr++ // another threshold, still never reached
				}
			case 3:
				// the compression flag of an EXISTING collection is not the caller's to change:
				// Create must go on reading and writing the files as they are named
				op.Gz = !op.Gz
			}
			g.add(op)
			g.lastCreate.Gz = g.gz
		case "cachetoggle":
			// caching that exists only because of asynchronous writes, switched off and on again
			// around an update and a delete
			on := g.lastCreate
			if on.Op == "" {
				continue
			}
			on.Cache = false
			on.AThr, on.AMs = 1000, 3600*1000
			off := on
			off.AThr, off.AMs = 0, 0
			g.add(on)
			g.async = true
			k1, k2 := g.pickK(60), g.pickK(60)
			sp1, sp2 := g.spec(k1), g.spec(k2)
			g.add(Op{Op: "ins", Spec: &sp1})
			g.add(Op{Op: "ins", Spec: &sp2})
			g.add(Op{Op: "get", K: k1})
			g.add(off)
			sp3 := g.spec(k1)
			g.add(Op{Op: "ins", Spec: &sp3})
			g.add(Op{Op: "del", K: k2})
			g.add(on)
			g.add(Op{Op: "get", K: k1})
			g.add(Op{Op: "getu", K: k2})
			g.add(Op{Op: "all"})
		case "emptyrx":
			// a pattern search that matches everything (the empty pattern), evaluated, then the
			// collection moves, then it is collected: it is a snapshot like any other
			f := []string{"S", "Emb.Z", "P.W"}[r.Intn(3)]
			g.nextSid++
			sid := g.nextSid
			g.sids = append(g.sids, sid)
			pr := Probe{T: "string", S: hexs("")}
			g.add(Op{Op: "search", Sid: sid, Field: f, Cmp: "~=", Probe: &pr})
			g.add(Op{Op: "del", K: g.pickK(0)})
			sp := g.spec(g.pickK(90))
			g.add(Op{Op: "ins", Spec: &sp})
			sp2 := g.spec(g.pickK(90))
			g.add(Op{Op: "ins", Spec: &sp2})
			g.add(Op{Op: "collect", Sid: sid})
			g.add(Op{Op: "control"})
		case "orabsent":
			// a union whose second term matches nothing, on a unique field when there is one; then
			// the index moves; then the union is collected
			f := g.field()
			for _, c := range g.cons {
				if strings.Contains(c.C, "u") && castOf(c.Path) != "-" {
					f = c.Path
				}
			}
			f1 := g.field()
			cmp1, pr1 := g.cmpAndProbe(f1)
			g.nextSid++
			base := g.nextSid
			g.sids = append(g.sids, base)
			g.add(Op{Op: "search", Sid: base, Field: f1, Cmp: cmp1, Probe: &pr1})
			pr := g.absentProbe(f)
			g.nextSid++
			u := g.nextSid
			g.sids = append(g.sids, u)
			g.add(Op{Op: "or", Sid: u, Old: base, Field: f, Cmp: "=", Probe: &pr})
			g.add(Op{Op: "del", K: g.pickK(0)})
			sp := g.spec(g.pickK(80))
			g.add(Op{Op: "ins", Spec: &sp})
			g.add(Op{Op: "collect", Sid: u})
			g.add(Op{Op: "control"})
		case "ortwice":
			// two unions built from the SAME base search: the second must not disturb the first
			f := g.field()
			cmp, pr := g.cmpAndProbe(f)
			g.nextSid++
			base := g.nextSid
			g.sids = append(g.sids, base)
			g.add(Op{Op: "search", Sid: base, Field: f, Cmp: cmp, Probe: &pr})
			var made []int
			for i := 0; i < 2; i++ {
				f2 := g.field()
				cmp2, pr2 := g.cmpAndProbe(f2)
				g.nextSid++
				made = append(made, g.nextSid)
				g.sids = append(g.sids, g.nextSid)
				g.add(Op{Op: []string{"or", "or", "and"}[r.Intn(3)], Sid: g.nextSid, Old: base, Field: f2, Cmp: cmp2, Probe: &pr2})
			}
			for _, sid := range append(made, base) {
				g.add(Op{Op: "len", Sid: sid})
				g.add(Op{Op: "collect", Sid: sid})
			}
		case "aidxpoll":
			// an index polled into the same slice before and after the collection shrank
			f := g.field()
			g.add(Op{Op: "aidx", Field: f, Alt: 2})
			g.add(Op{Op: "del", K: g.pickK(0)})
			if r.Intn(2) == 0 {
				g.add(Op{Op: "del", K: g.pickK(0)})
			}
			g.add(Op{Op: "aidx", Field: f, Alt: 2})
		case "oidreuse":
			// an object is stored, found by a search, deleted; something that could make the
			// database forget which ids it has handed out happens; a new object is stored; the
			// search is collected: it must not return the new object
			k := g.p.MaxK + 8
			sp := g.spec(k)
			g.usedK[k] = true
			g.add(Op{Op: "ins", Spec: &sp})
			g.nextSid++
			sid := g.nextSid
			g.sids = append(g.sids, sid)
			pr := Probe{T: "int64", I: sp.A}
			g.add(Op{Op: "search", Sid: sid, Field: "A", Cmp: "=", Probe: &pr})
			g.add(Op{Op: "del", K: k})
			switch r.Intn(5) {
			case 0:
				op := g.lastCreate
				if op.Op != "" {
					op.Cache = !op.Cache
					g.add(op)
				}
			case 1:
				g.add(Op{Op: "close"})
				g.add(Op{Op: "reopen"})
				// (a search does not survive its handle: a new one is made after the restart)
				g.add(Op{Op: "search", Sid: sid, Field: "A", Cmp: "=", Probe: &pr})
			case 2:
				g.add(Op{Op: "delall"})
			case 3:
				g.add(Op{Op: "flushallc"})
			}
			sp2 := g.spec(0)
			g.add(Op{Op: "ins", Spec: &sp2})
			g.add(Op{Op: "collect", Sid: sid})
			g.add(Op{Op: "one", Sid: sid})
		case "recreate":
			op := g.createOp()
			switch x := r.Intn(100); {
			case x < 15:
				// different constraints on one field
				cons := append([]DCons{}, g.cons...)
				cons = append(cons, DCons{Path: "Emb.Y", C: []string{"i", "u", ""}[r.Intn(3)]})
				op.Cons = cons
			case x < 30:
				op.Ext = ".other"
			default:
				op.Ext = g.ext
			}
			g.add(op)
			g.add(Op{Op: "sleep", Ms: 120})
		case "reshape":
			g.add(Op{Op: "close"})
			g.add(Op{Op: "reshape", N: uint64(r.Intn(3))})
			if r.Intn(2) == 0 {
				// … and the directory does not match the index either (stray file / missing file)
				if r.Intn(2) == 0 {
					if k := g.foreignK(); k != 0 {
						sp := g.spec(k)
						g.add(Op{Op: "addfile", Spec: &sp})
					}
				} else {
					g.add(Op{Op: "rmfile", K: g.pickK(5)})
				}
			}
			g.add(Op{Op: "reopen"})
			g.sids = nil
			// every kind of call must be refused
			sp := g.spec(g.pickK(50))
			g.add(Op{Op: "ins", Spec: &sp})
			g.add(Op{Op: "get", K: g.pickK(10)})
			g.add(Op{Op: "count"})
			g.add(Op{Op: "del", K: g.pickK(10)})
			g.add(g.createOp())
			sp2 := g.spec(g.pickK(50))
			g.add(Op{Op: "ins", Spec: &sp2})
			g.add(Op{Op: "count"})
			g.add(Op{Op: "repair"})
			g.add(Op{Op: "count"})
			g.add(Op{Op: "ls"})
			g.add(Op{Op: "reshape", N: 99}) // restore
			g.add(Op{Op: "reopen"})
		case "tamper":
			switch r.Intn(6) {
			case 0, 1:
				g.add(Op{Op: "rmfile", K: g.pickK(5)})
			case 2:
				// one to three files written by another tool (several unindexed files in one Repair)
				for j := 0; j <= r.Intn(3); j++ {
					if k := g.foreignK(); k != 0 {
						sp := g.spec(k)
						g.add(Op{Op: "addfile", Spec: &sp})
					}
				}
			case 3:
				g.add(Op{Op: "close"})
				g.add(Op{Op: "dropentry", K: g.pickK(5), N: 1})
				g.add(Op{Op: "reopen"})
				g.sids = nil
			case 4:
				g.add(Op{Op: "close"})
				g.add(Op{Op: "dropentry", K: g.pickK(5), N: 0})
				g.add(Op{Op: "reopen"})
				g.sids = nil
			case 5:
				g.add(Op{Op: "close"})
				g.add(Op{Op: "rmschema"})
				g.add(Op{Op: "reopen"})
				g.sids = nil
				g.add(Op{Op: "count"})
				op := g.createOp()
				op.Ext = g.ext
				op.Gz = g.gz // files written under another naming scheme would be unreadable
				g.add(op)
			}
		case "repair":
			g.add(Op{Op: "repair"})
			g.add(Op{Op: "control"})
		}
		if p.SweepEvery > 0 && i%p.SweepEvery == p.SweepEvery-1 {
			g.sweep()
			if p.SearchSweep {
				g.searchSweep()
			}
		}
	}
	g.sweep()
	if p.SearchSweep {
		g.searchSweep()
	}
	return g.ops
}

var profiles = map[string]*Profile{
	// C01: CRUD refinement, every configuration
	"crud": {Name: "crud", Shadow: true, Len: [2]int{10, 40}, MaxK: 8, PIndex: 35, PUnique: 8, PUpper: 15, PLower: 15,
		PCache: 50, PAsync: 30, PGz: 30, PLowerDir: 30, PExt: 30, PBadInput: 6, SweepEvery: 6, NoHostile: true,
		Weights: map[string]int{"ins": 30, "many": 6, "bulk": 4, "del": 10, "delall": 1, "get": 10, "exist": 4, "count": 2, "all": 3, "recreatec": 2, "cachetoggle": 1,
			"search": 4, "sdel": 3, "reopen": 4, "flush": 2}},
	// C02: query trees over all fields and operators
	"search": {Name: "search", Len: [2]int{15, 50}, MaxK: 14, PIndex: 50, PUnique: 3, PUpper: 10, PLower: 10,
		PCache: 30, PAsync: 15, PGz: 10, PLowerDir: 10, PExt: 10, SweepEvery: 12, SearchSweep: true, NoHostile: true,
		Weights: map[string]int{"ins": 30, "many": 4, "del": 8, "search": 20, "refine": 20, "collect": 20, "sdel": 3, "reopen": 3, "control": 3, "count": 1, "recreatec": 2, "ortwice": 5}},
	// C03: uniqueness, tiny alphabets so that conflicts are frequent
	"unique": {Name: "unique", Len: [2]int{15, 45}, MaxK: 7, PIndex: 15, PUnique: 30, PUpper: 20, PLower: 20,
		PCache: 40, PAsync: 25, PGz: 10, PLowerDir: 10, PExt: 10, SweepEvery: 8, NoHostile: true,
		Weights: map[string]int{"ins": 45, "many": 8, "bulk": 3, "del": 14, "sdel": 2, "search": 3, "reopen": 8, "get": 4, "control": 2}},
	// C04: close / reopen at arbitrary positions, whole value domain
	"reopen": {Name: "reopen", Shadow: true, Len: [2]int{12, 40}, MaxK: 10, PIndex: 55, PUnique: 10, PUpper: 10, PLower: 10, Wide: true,
		PCache: 40, PAsync: 25, PGz: 25, PLowerDir: 20, PExt: 20, SweepEvery: 7, SearchSweep: true, NoHostile: true,
		Weights: map[string]int{"ins": 35, "many": 5, "del": 8, "reopen": 18, "search": 8, "collect": 8, "aidx": 4, "control": 3, "ls": 2}},
	// C06 / C15: rejected writes (hooks, uniqueness, unserialisable values), read back through every path
	"reject": {Name: "reject", Len: [2]int{10, 35}, MaxK: 6, PIndex: 35, PUnique: 25, PUpper: 25, PLower: 25,
		PCache: 60, PAsync: 35, PGz: 10, PLowerDir: 10, PExt: 10, PBadInput: 45, SweepEvery: 2, NoHostile: true,
		Weights: map[string]int{"ins": 50, "many": 15, "bulk": 6, "del": 6, "search": 6, "collect": 6, "reopen": 3}},
	// C15: Transform, case transforms, then Validate, on every insertion path
	"hooks": {Name: "hooks", Len: [2]int{10, 35}, MaxK: 6, PIndex: 35, PUnique: 0, PUpper: 40, PLower: 40,
		PCache: 60, PAsync: 35, PGz: 10, PLowerDir: 10, PExt: 10, PBadInput: 55, SweepEvery: 2, NoHostile: true,
		Weights: map[string]int{"ins": 45, "many": 20, "bulk": 12, "del": 4, "search": 5, "collect": 5, "reopen": 3}},
	// C07: batches
	"batch": {Name: "batch", Len: [2]int{8, 25}, MaxK: 10, PIndex: 30, PUnique: 20, PUpper: 15, PLower: 15,
		PCache: 40, PAsync: 30, PGz: 10, PLowerDir: 10, PExt: 10, PBadInput: 12, SweepEvery: 3, NoHostile: true,
		Weights: map[string]int{"ins": 12, "many": 45, "bulk": 30, "del": 8, "reopen": 4, "ls": 3}},
	// C11: divergence between files and index, Control, Repair
	"fault": {Name: "fault", Shadow: true, Len: [2]int{10, 30}, MaxK: 8, PIndex: 40, PUnique: 6, PUpper: 10, PLower: 10,
		PCache: 50, PAsync: 0, PGz: 20, PLowerDir: 10, PExt: 20, SweepEvery: 9, SearchSweep: true, NoHostile: true,
		Weights: map[string]int{"ins": 30, "del": 6, "tamper": 22, "control": 14, "repair": 12, "reopen": 10, "search": 4, "collect": 4, "ls": 3}},
	// C13: order, reverse, limit, one, AssignIndex
	"order": {Name: "order", Len: [2]int{15, 45}, MaxK: 16, PIndex: 70, PUnique: 2, PUpper: 10, PLower: 10,
		PCache: 30, PAsync: 15, PGz: 5, PLowerDir: 5, PExt: 5, SweepEvery: 0, NoHostile: true,
		Weights: map[string]int{"ins": 35, "many": 6, "del": 6, "search": 18, "refine": 10, "collect": 30, "aidx": 12, "aidxpoll": 4, "reopen": 3, "recreatec": 2}},
	// C16: case canonicalisation
	"case": {Name: "case", Len: [2]int{12, 40}, MaxK: 10, PIndex: 40, PUnique: 20, PUpper: 45, PLower: 45,
		PCache: 30, PAsync: 15, PGz: 5, PLowerDir: 5, PExt: 5, SweepEvery: 8, SearchSweep: true, NoHostile: true,
		Fields: []string{"S", "Emb.Z", "P.W"}, CaseHeavy: true,
		Weights: map[string]int{"ins": 40, "many": 6, "del": 5, "search": 20, "refine": 8, "collect": 16, "aidx": 4, "reopen": 4}},
	// C19 (argument part) / C12 (error outcomes): hostile search arguments
	"args": {Name: "args", Len: [2]int{10, 30}, MaxK: 6, PIndex: 50, PUnique: 5, PUpper: 20, PLower: 20,
		PCache: 30, PAsync: 15, PGz: 5, PLowerDir: 5, PExt: 5, PWrongProbe: 30, SweepEvery: 0, EmptyOften: true,
		Weights: map[string]int{"ins": 14, "del": 6, "delall": 3, "search": 45, "refine": 20, "collect": 14, "aidx": 6}},
	// C20: a search is a snapshot: writes between evaluation and collection
	"snapshot": {Name: "snapshot", Len: [2]int{20, 60}, MaxK: 16, PIndex: 60, PUnique: 3, PUpper: 5, PLower: 5,
		PCache: 40, PAsync: 20, PGz: 5, PLowerDir: 5, PExt: 5, SweepEvery: 0, NoHostile: true,
		Weights: map[string]int{"ins": 40, "many": 6, "del": 14, "sdel": 3, "search": 14, "refine": 8, "collect": 22, "recreatec": 3, "delall": 2, "oidreuse": 4, "orabsent": 4, "emptyrx": 3}},
	// C17: schema guard, re-creation, settings switches
	"guard": {Name: "guard", Shadow: true, Len: [2]int{10, 30}, MaxK: 8, PIndex: 35, PUnique: 10, PUpper: 15, PLower: 15,
		PCache: 50, PAsync: 50, PGz: 20, PLowerDir: 10, PExt: 30, SweepEvery: 5, NoHostile: true,
		Weights: map[string]int{"ins": 35, "many": 5, "del": 8, "recreate": 16, "reshape": 8, "reopen": 8, "ls": 6, "get": 6, "cachetoggle": 3}},
	// C05: crash points. Synchronous mode and calls whose file operations come in a defined order.
	"crash": {Name: "crash", Len: [2]int{6, 16}, MaxK: 6, PIndex: 45, PUnique: 10, PUpper: 10, PLower: 10,
		PCache: 50, PAsync: 35, PGz: 25, PLowerDir: 10, PExt: 20, PBadInput: 5, SweepEvery: 0, NoHostile: true,
		Weights: map[string]int{"ins": 55, "many": 12, "bulk": 6, "del": 16, "reopen": 5, "recreate": 3}},
	// C06 (storage part): the same, a single file operation fails
	"iofault": {Name: "iofault", Len: [2]int{6, 16}, MaxK: 6, PIndex: 45, PUnique: 10, PUpper: 10, PLower: 10,
		PCache: 60, PAsync: 0, PGz: 25, PLowerDir: 10, PExt: 20, PBadInput: 5, SweepEvery: 0, NoHostile: true,
		Weights: map[string]int{"ins": 55, "many": 12, "bulk": 6, "del": 16, "reopen": 3}},
	// C12: the same history replayed under two configurations (the check flips the settings)
	"pairs": {Name: "pairs", Len: [2]int{15, 45}, MaxK: 10, PIndex: 45, PUnique: 12, PUpper: 15, PLower: 15,
		PCache: 50, PAsync: 40, PGz: 40, PLowerDir: 40, PExt: 40, PBadInput: 10, PWrongProbe: 8, SweepEvery: 10, SearchSweep: true, NoLimit: true,
		Weights: map[string]int{"ins": 30, "many": 5, "bulk": 2, "del": 8, "search": 16, "refine": 10, "collect": 14, "exist": 6, "get": 4, "count": 2, "all": 2, "sdel": 2, "reopen": 4, "recreatec": 2}},
	// C10: asynchronous writes in real time (custom generator: asyncHistory)
	"async": {Name: "async", Len: [2]int{1, 1}, MaxK: 6, PIndex: 40, PUnique: 0, PUpper: 10, PLower: 10, NoHostile: true,
		Weights: map[string]int{"ins": 1}},
	// C18: golden corpus written by the pinned release (custom generator: goldenHistory)
	"golden": {Name: "golden", Len: [2]int{1, 1}, MaxK: 8, PIndex: 45, PUnique: 0, PUpper: 10, PLower: 10, Wide: true, NoHostile: true,
		Weights: map[string]int{"ins": 1}},
	// C18: layout
	"layout": {Name: "layout", Len: [2]int{8, 30}, MaxK: 8, PIndex: 35, PUnique: 8, PUpper: 10, PLower: 10,
		PCache: 40, PAsync: 30, PGz: 50, PLowerDir: 50, PExt: 50, SweepEvery: 0, NoHostile: true,
		Weights: map[string]int{"ins": 35, "many": 6, "bulk": 3, "del": 10, "sdel": 2, "search": 2, "reopen": 8, "flush": 6, "ls": 20, "recreate": 6, "get": 6}},
}
