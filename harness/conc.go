package main

import (
	"bufio"
	"encoding/json"
	"fmt"
	"math/rand"
	"os"
	"path/filepath"
	"runtime"
	"sync"
	"sync/atomic"
	"time"

	"github.com/0xrawsec/sod"
)

// ---------------------------------------------------------------------------
// Concurrency scenarios (C08, C09).  Built with -race by the check.
//
//   first     many goroutines perform the FIRST access after Open at the same time
//   progress  readers that enumerate the collection, chained refinements, writers and the
//             flusher run together under a watchdog: every goroutine must keep advancing
//   lin       small concurrent histories with invocation/response order recorded; the check
//             searches a linearisation that the Lean model accepts
// ---------------------------------------------------------------------------

func concCons() []DCons {
	return []DCons{{Path: "A", C: "i"}, {Path: "S", C: "iu"}, {Path: "B", C: "i"}, {Path: "Emb.Y", C: "i"}}
}

func concSpec(r *rand.Rand, k int) Spec {
	return Spec{K: k, A: int64(r.Intn(5)), B: uint32(r.Intn(3)), S: hexs(fmt.Sprintf("s%d", r.Intn(6))), Tm: int64(r.Intn(3)),
		I8: 1, Y: int64(r.Intn(4)), Z: hexs("z"), HasP: r.Intn(2) == 0, X: uint64(r.Intn(3)), W: hexs("w"), L: -1, M: -1}
}

func setupConc(root string, async bool, cache bool, n int, seed int64) (*Exec, []string) {
	os.RemoveAll(root)
	os.MkdirAll(root, 0700)
	lines := []string{}
	ex := NewExec(root, bufio.NewWriter(os.Stdout), seed)
	ex.sink = func(l string) { lines = append(lines, l) }
	ex.Run(Op{Op: "open"})
	c := Op{Op: "create", Cons: concCons(), Ext: ".json", Cache: cache}
	if async {
		c.AThr, c.AMs = 3, 200
	}
	ex.Run(c)
	r := rand.New(rand.NewSource(seed))
	for k := 1; k <= n; k++ {
		sp := concSpec(r, k)
		sp.S = hexs(fmt.Sprintf("init%d", k))
		ex.Run(Op{Op: "ins", Spec: &sp})
	}
	return ex, lines
}

func concFirst(root string, seed int64, rounds int) int {
	ex, _ := setupConc(root, false, true, 12, seed)
	ex.db.Close()
	bad := int32(0)
	for r := 0; r < rounds; r++ {
		db := sod.Open(root)
		var wg sync.WaitGroup
		start := make(chan struct{})
		for g := 0; g < 8; g++ {
			wg.Add(1)
			go func(g int) {
				defer wg.Done()
				defer func() {
					if rec := recover(); rec != nil {
						fmt.Printf("PANIC first-access goroutine %d: %v\n", g, rec)
						atomic.AddInt32(&bad, 1)
					}
				}()
				<-start
				switch g % 4 {
				case 0:
					if n, err := db.Count(&T{}); err != nil || n != 12 {
						fmt.Printf("WRONG first Count: %d %v\n", n, err)
						atomic.AddInt32(&bad, 1)
					}
				case 1:
					if objs, err := db.All(&T{}); err != nil || len(objs) != 12 {
						fmt.Printf("WRONG first All: %d %v\n", len(objs), err)
						atomic.AddInt32(&bad, 1)
					}
				case 2:
					if s := db.Search(&T{}, "A", ">=", int64(0)); s.Err() != nil || s.Len() != 12 {
						fmt.Printf("WRONG first Search: %d %v\n", s.Len(), s.Err())
						atomic.AddInt32(&bad, 1)
					}
				case 3:
					var vals []int64
					if err := db.AssignIndex(&T{}, "A", &vals); err != nil || len(vals) != 12 {
						fmt.Printf("WRONG first AssignIndex: %d %v\n", len(vals), err)
						atomic.AddInt32(&bad, 1)
					}
				}
			}(g)
		}
		close(start)
		wg.Wait()
		db.Close()
	}
	return int(bad)
}

// concProgress: every goroutine must keep making progress; returns the number of problems.
func concProgress(root string, seed int64, dur time.Duration, async bool) int {
	ex, _ := setupConc(root, async, true, 10, seed)
	db := ex.db
	stop := int32(0)
	const nG = 11
	var counters [nG]int64
	names := [nG]string{"All", "AssignAll", "SearchUnindexed+Collect", "Search+And+Or+Collect", "Count+Get+Exist", "InsertOrUpdate", "Delete", "InsertOrUpdateMany", "Search.Delete+Iterator", "pattern searches (indexed)", "pattern searches (scan)"}
	bad := int32(0)
	var wg sync.WaitGroup
	var uuidsMu sync.Mutex
	uuids := []string{}
	for _, u := range ex.kmap {
		uuids = append(uuids, u)
	}
	pick := func(r *rand.Rand) string {
		uuidsMu.Lock()
		defer uuidsMu.Unlock()
		if len(uuids) == 0 {
			return ""
		}
		return uuids[r.Intn(len(uuids))]
	}
	for g := 0; g < nG; g++ {
		wg.Add(1)
		go func(g int) {
			defer wg.Done()
			r := rand.New(rand.NewSource(seed*31 + int64(g)))
			defer func() {
				if rec := recover(); rec != nil {
					fmt.Printf("PANIC goroutine %s: %v\n", names[g], rec)
					atomic.AddInt32(&bad, 1)
				}
			}()
			for atomic.LoadInt32(&stop) == 0 {
				switch g {
				case 0:
					db.All(&T{})
				case 1:
					var ts []*T
					db.AssignAll(&T{}, &ts)
				case 2:
					db.Search(&T{}, "Tm", ">=", time.Unix(0, 0).UTC()).Collect()
				case 3:
					s := db.Search(&T{}, "A", ">=", int64(1)).And("B", "<", uint32(2)).Or("Emb.Y", "=", 1).And("Tm", "<", time.Unix(0, 5).UTC())
					s.Collect()
					s.Len()
				case 4:
					db.Count(&T{})
					t := &T{}
					t.Initialize(pick(r))
					db.Get(t)
					db.Exist(t)
					var vals []int64
					db.AssignIndex(&T{}, "A", &vals)
				case 5:
					sp := concSpec(r, 0)
					sp.S = hexs(fmt.Sprintf("g5-%d", counters[g]))
					t := sp.build()
					if r.Intn(2) == 0 {
						t.Initialize(pick(r))
						t.S = "" // keep uniqueness out of the way: S unique, update keeps own
					}
					if r.Intn(2) == 0 || t.UUID() == "" {
						if err := db.InsertOrUpdate(t); err == nil {
							uuidsMu.Lock()
							if len(uuids) < 200 {
								uuids = append(uuids, t.UUID())
							}
							uuidsMu.Unlock()
						}
					}
				case 6:
					t := &T{}
					t.Initialize(pick(r))
					if r.Intn(3) == 0 {
						db.Delete(t)
					}
					time.Sleep(time.Millisecond)
				case 7:
					objs := []sod.Object{}
					for i := 0; i < 3; i++ {
						sp := concSpec(r, 0)
						sp.S = hexs(fmt.Sprintf("g7-%d-%d", counters[g], i))
						objs = append(objs, sp.build())
					}
					db.InsertOrUpdateMany(objs...)
					time.Sleep(time.Millisecond)
				case 9, 10:
					// pattern searches with ever new expressions, from two goroutines at once
					// (whatever the package keeps between two compilations is shared by them)
					f := "S"
					if g == 10 {
						f = "Emb.Z"
					}
					db.Search(&T{}, f, "~=", fmt.Sprintf("^g%d-%d", g, counters[g])).Collect()
					db.Search(&T{}, f, "~=", fmt.Sprintf("s%d$", counters[g]%7)).Len()
				case 8:
					s := db.Search(&T{}, "A", "=", int64(4))
					if it, err := s.Iterator(); err == nil {
						_ = it
					}
					if r.Intn(4) == 0 {
						s.Delete()
					}
				}
				atomic.AddInt64(&counters[g], 1)
			}
		}(g)
	}
	// watchdog
	deadline := time.Now().Add(dur)
	var last [nG]int64
	for g := 0; g < nG; g++ {
		last[g] = atomic.LoadInt64(&counters[g])
	}
	lastMove := time.Now()
	for time.Now().Before(deadline) {
		time.Sleep(250 * time.Millisecond)
		moved := true
		for g := 0; g < nG; g++ {
			if atomic.LoadInt64(&counters[g]) == last[g] {
				moved = false
			}
		}
		if moved {
			for g := 0; g < nG; g++ {
				last[g] = atomic.LoadInt64(&counters[g])
			}
			lastMove = time.Now()
		} else if time.Since(lastMove) > 8*time.Second {
			for g := 0; g < nG; g++ {
				if atomic.LoadInt64(&counters[g]) == last[g] {
					fmt.Printf("STALL goroutine %q made no progress for 8s (async=%v)\n", names[g], async)
				}
			}
			buf := make([]byte, 1<<16)
			n := runtime.Stack(buf, true)
			os.Stderr.Write(buf[:n])
			os.Exit(5)
		}
	}
	atomic.StoreInt32(&stop, 1)
	done := make(chan struct{})
	go func() { wg.Wait(); close(done) }()
	select {
	case <-done:
	case <-time.After(20 * time.Second):
		fmt.Printf("STALL goroutines did not finish (async=%v)\n", async)
		os.Exit(5)
	}
	// quiescent state must be sound
	if err := db.FlushAllAndCommit(&T{}); err != nil {
		fmt.Printf("WRONG FlushAllAndCommit after load: %v\n", err)
		bad++
	}
	if err := db.Control(); err != nil {
		fmt.Printf("WRONG Control after concurrent load: %v\n", err)
		bad++
	}
	ex.db = db
	if c := ex.consistent(); c != "true" {
		fmt.Printf("WRONG index and files disagree after concurrent load: %s\n", c)
		bad++
	}
	total := int64(0)
	for g := 0; g < nG; g++ {
		total += atomic.LoadInt64(&counters[g])
	}
	fmt.Printf("progress async=%v iterations=%d\n", async, total)
	db.Close()
	return int(bad)
}

// ---- linearizability histories -------------------------------------------------

type linOp struct {
	G     int    `json:"g"`
	I     int    `json:"i"`
	Start int64  `json:"start"`
	End   int64  `json:"end"`
	Line  string `json:"line"`
}

type linHistory struct {
	Prefix []string `json:"prefix"`
	Ops    []linOp  `json:"ops"`
	Suffix []string `json:"suffix"`
}

func concLin(root string, seed int64, n int, out string) {
	f, err := os.Create(out)
	if err != nil {
		panic(err)
	}
	defer f.Close()
	w := bufio.NewWriter(f)
	defer w.Flush()
	for h := 0; h < n; h++ {
		r := rand.New(rand.NewSource(seed*7919 + int64(h)))
		async, cache := r.Intn(3) == 0, r.Intn(2) == 0
		os.RemoveAll(root)
		os.MkdirAll(root, 0700)
		var mu sync.Mutex
		prefix := []string{}
		ex := NewExec(root, bufio.NewWriter(os.Stdout), seed+int64(h))
		ex.sink = func(l string) { mu.Lock(); prefix = append(prefix, l); mu.Unlock() }
		ex.Run(Op{Op: "open"})
		c := Op{Op: "create", Cons: concCons(), Ext: ".json", Cache: cache}
		if async {
			c.AThr, c.AMs = 1000, 3600*1000
		}
		ex.Run(c)
		nInit := r.Intn(4)
		for k := 1; k <= nInit; k++ {
			sp := concSpec(r, k)
			ex.Run(Op{Op: "ins", Spec: &sp})
		}
		// concurrent phase
		G := 2 + r.Intn(2)
		var clock int64
		var ops []linOp
		var wg sync.WaitGroup
		start := make(chan struct{})
		for g := 0; g < G; g++ {
			nops := 2 + r.Intn(2)
			plan := []Op{}
			for i := 0; i < nops; i++ {
				k := 1 + r.Intn(5)
				switch r.Intn(10) {
				case 0, 1, 2, 3:
					sp := concSpec(r, k)
					plan = append(plan, Op{Op: "ins", Spec: &sp})
				case 4:
					plan = append(plan, Op{Op: "del", K: k})
				case 5:
					// an atomic batch: two objects whose unique field may collide with another goroutine's
					a, b := concSpec(r, 10+r.Intn(4)), concSpec(r, 10+r.Intn(4))
					plan = append(plan, Op{Op: "many", Specs: []Spec{a, b}})
				case 6:
					plan = append(plan, Op{Op: "get", K: k})
				case 7:
					plan = append(plan, Op{Op: "exist", K: k})
				case 8:
					plan = append(plan, Op{Op: "count"})
				default:
					plan = append(plan, Op{Op: "all"})
				}
			}
			wg.Add(1)
			go func(g int, plan []Op) {
				defer wg.Done()
				// each goroutine has its own executor view sharing the database and the tables
				ge := *ex
				ge.stats = map[string]int{}
				ge.srch = map[int]*sod.Search{}
				var line string
				ge.sink = func(l string) { line = l }
				<-start
				for i, op := range plan {
					s := atomic.AddInt64(&clock, 1)
					(&ge).Run(op)
					e := atomic.AddInt64(&clock, 1)
					mu.Lock()
					ops = append(ops, linOp{G: g, I: i, Start: s, End: e, Line: line})
					mu.Unlock()
				}
			}(g, plan)
		}
		close(start)
		fin := make(chan struct{})
		go func() { wg.Wait(); close(fin) }()
		select {
		case <-fin:
		case <-time.After(20 * time.Second):
			fmt.Printf("STALL concurrent history %d (seed %d): calls did not return within 20s\n", h, seed)
			buf := make([]byte, 1<<16)
			n := runtime.Stack(buf, true)
			os.Stderr.Write(buf[:n])
			w.Flush()
			os.Exit(5)
		}
		// sequential suffix: everything is read back
		suffix := []string{}
		ex.sink = func(l string) { suffix = append(suffix, l) }
		for k := 1; k <= 5; k++ {
			ex.Run(Op{Op: "get", K: k})
			ex.Run(Op{Op: "exist", K: k})
		}
		ex.Run(Op{Op: "count"})
		ex.Run(Op{Op: "all"})
		for _, fld := range []string{"A", "S", "B", "Emb.Y"} {
			ex.Run(Op{Op: "aidx", Field: fld})
		}
		ex.Run(Op{Op: "control"})
		b, _ := json.Marshal(linHistory{Prefix: prefix, Ops: ops, Suffix: suffix})
		w.Write(b)
		w.WriteString("\n")
		ex.db.Close()
	}
	os.RemoveAll(root)
}

func runConc(scenario string, seed int64, n int, root, out string, seconds int) {
	switch scenario {
	case "first":
		if bad := concFirst(filepath.Join(root, "first"), seed, n); bad > 0 {
			os.Exit(6)
		}
	case "progress":
		bad := concProgress(filepath.Join(root, "progress"), seed, time.Duration(seconds)*time.Second, false)
		bad += concProgress(filepath.Join(root, "progress-async"), seed+1, time.Duration(seconds)*time.Second, true)
		if bad > 0 {
			os.Exit(6)
		}
	case "lin":
		concLin(filepath.Join(root, "lin"), seed, n, out)
	case "window":
		if bad := concWindow(filepath.Join(root, "window"), seed, n); bad > 0 {
			os.Exit(6)
		}
	default:
		fmt.Fprintln(os.Stderr, "unknown scenario", scenario)
		os.Exit(2)
	}
	os.RemoveAll(root)
}

// concWindow: a call made of two critical sections (list under the read lock, then act under the
// write lock) lets a queued writer and a reader slip in between.  T1: DeleteAll.  T2: insert a new
// object X, then Count.  With T2 keeping its program order the sequential outcomes are
//
//	DeleteAll, Insert, Count -> (count 1, final 1)      Insert, DeleteAll, Count -> (0, 0)
//	Insert, Count, DeleteAll -> (n+1, 0)
//
// The collection is large so that T2's insert queues on the lock while T1 is still listing.
func concWindow(root string, seed int64, rounds int) (bad int) {
	const n = 800
	for round := 0; round < rounds && bad == 0; round++ {
		dir := fmt.Sprintf("%s-%d", root, round)
		os.RemoveAll(dir)
		db := sod.Open(dir)
		sch := sod.DefaultSchema
		sch.Cache = true
		if round%4 != 3 {
			// nothing reaches the disk: the rounds are fast
			sch.Asynchrone(1<<30, time.Hour)
		}
		if err := db.Create(&T{}, sch); err != nil {
			panic(err)
		}
		objs := make([]sod.Object, 0, n)
		for i := 0; i < n; i++ {
			objs = append(objs, &T{A: int64(i) + 100})
		}
		if _, err := db.InsertOrUpdateMany(objs...); err != nil {
			panic(err)
		}
		var wg sync.WaitGroup
		start := make(chan struct{})
		count := -1
		wg.Add(2)
		go func() {
			defer wg.Done()
			<-start
			if err := db.DeleteAll(&T{}); err != nil {
				fmt.Printf("WINDOW DeleteAll: %v\n", err)
			}
		}()
		go func() {
			defer wg.Done()
			<-start
			if err := db.InsertOrUpdate(&T{A: -1}); err != nil {
				fmt.Printf("WINDOW InsertOrUpdate: %v\n", err)
			}
			count, _ = db.Count(&T{})
		}()
		close(start)
		wg.Wait()
		final, _ := db.Count(&T{})
		if !((count == 1 && final == 1) || (count == 0 && final == 0) || (count == n+1 && final == 0)) {
			bad++
			fmt.Printf("NOT-LINEARIZABLE round %d: %d stored objects; T1 DeleteAll || T2 InsertOrUpdate(new X); Count -> T2 counted %d, final count %d: no sequential order of the three calls gives this\n", round, n, count, final)
		}
		db.Close()
		os.RemoveAll(dir)
	}
	fmt.Printf("window rounds=%d bad=%d\n", rounds, bad)
	return
}
