package main

import (
	"bytes"
	"compress/gzip"
	"encoding/json"
	"fmt"
	"io"
	"math/rand"
	"os"
	"path/filepath"
	"sort"
	"strings"
	"time"

	"github.com/0xrawsec/sod"
)

// ---------------------------------------------------------------------------
// C19: malformed files and directory entries produce errors, never panics or hangs.
//
// A small valid database is built with the current code; then, case by case, the directory is
// damaged (every node of schema.json nulled / retyped / dropped / duplicated, numbers made
// negative, fractional or huge, strings emptied, arrays truncated or shuffled; bytes truncated,
// flipped, zeroed; stray entries added) and a fresh handle runs a fixed sequence of calls, each
// under recover() with a watchdog.  The oracle: no call panics, none hangs, and the process
// survives.
// ---------------------------------------------------------------------------

type hostileReport struct {
	Cases     int            `json:"cases"`
	Kinds     map[string]int `json:"kinds"`
	Outcomes  map[string]int `json:"first_access_outcomes"`
	Failures  []string       `json:"failures"`
	CallsRun  int            `json:"calls_run"`
	SampleMut []string       `json:"sample_mutations"`
}

func copyDir(src, dst string) {
	os.RemoveAll(dst)
	filepath.Walk(src, func(p string, info os.FileInfo, err error) error {
		if err != nil {
			return nil
		}
		rel, _ := filepath.Rel(src, p)
		if info.IsDir() {
			os.MkdirAll(filepath.Join(dst, rel), 0700)
			return nil
		}
		in, _ := os.Open(p)
		defer in.Close()
		out, _ := os.Create(filepath.Join(dst, rel))
		defer out.Close()
		io.Copy(out, in)
		return nil
	})
}

// jsonPaths lists every node of a decoded JSON value as a path of keys / indexes.
func jsonPaths(v interface{}, cur []interface{}, out *[][]interface{}) {
	*out = append(*out, append([]interface{}{}, cur...))
	switch t := v.(type) {
	case map[string]interface{}:
		keys := []string{}
		for k := range t {
			keys = append(keys, k)
		}
		sort.Strings(keys)
		for _, k := range keys {
			jsonPaths(t[k], append(cur, k), out)
		}
	case []interface{}:
		for i, e := range t {
			if i > 2 {
				break // the first entries of an array are representative
			}
			jsonPaths(e, append(cur, i), out)
		}
	}
}

func getAt(root interface{}, path []interface{}) interface{} {
	cur := root
	for _, p := range path {
		switch k := p.(type) {
		case string:
			cur = cur.(map[string]interface{})[k]
		case int:
			cur = cur.([]interface{})[k]
		}
	}
	return cur
}

// setAt returns root with the node at path replaced (del: removed from its parent).
func setAt(root interface{}, path []interface{}, val interface{}, del bool) interface{} {
	if len(path) == 0 {
		return val
	}
	parent := getAt(root, path[:len(path)-1])
	switch k := path[len(path)-1].(type) {
	case string:
		m := parent.(map[string]interface{})
		if del {
			delete(m, k)
		} else {
			m[k] = val
		}
	case int:
		a := parent.([]interface{})
		if del {
			na := append(append([]interface{}{}, a[:k]...), a[k+1:]...)
			return setAt(root, path[:len(path)-1], na, false)
		}
		a[k] = val
	}
	return root
}

func decodeNum(data []byte) interface{} {
	dec := json.NewDecoder(bytes.NewReader(data))
	dec.UseNumber()
	var v interface{}
	if err := dec.Decode(&v); err != nil {
		panic(err)
	}
	return v
}

type mutation struct {
	core bool // always tried, never sampled away: a shallow member set to null or removed
	kind string
	desc string
	data []byte // new content of schema.json (nil: see apply)
	app  func(dir string)
}

func structuralMutations(schema []byte) []mutation {
	muts := []mutation{}
	var paths [][]interface{}
	jsonPaths(decodeNum(schema), nil, &paths)
	repl := []struct {
		name string
		val  interface{}
	}{{"null", nil}, {"string", "x"}, {"number", json.Number("1")}, {"neg", json.Number("-1")}, {"frac", json.Number("1.5")},
		{"huge", json.Number("1e400")}, {"big", json.Number("99999999999999999999999")}, {"bool", true},
		{"array", []interface{}{}}, {"array1", []interface{}{nil}}, {"object", map[string]interface{}{}}, {"empty", ""}}
	for _, p := range paths {
		if len(p) == 0 {
			continue
		}
		for _, r := range repl {
			root := decodeNum(schema)
			root = setAt(root, p, r.val, false)
			b, _ := json.Marshal(root)
			muts = append(muts, mutation{core: len(p) <= 3 && r.name == "null", kind: "retype:" + r.name, desc: fmt.Sprintf("schema.json %v := %s", p, r.name), data: b})
		}
		root := decodeNum(schema)
		root = setAt(root, p, nil, true)
		b, _ := json.Marshal(root)
		muts = append(muts, mutation{core: len(p) <= 3, kind: "drop", desc: fmt.Sprintf("schema.json %v dropped", p), data: b})
		// arrays: duplicate first element, reverse
		if arr, ok := getAt(decodeNum(schema), p).([]interface{}); ok && len(arr) > 0 {
			root := decodeNum(schema)
			a := getAt(root, p).([]interface{})
			root = setAt(root, p, append(append([]interface{}{}, a...), a[0]), false)
			b, _ := json.Marshal(root)
			muts = append(muts, mutation{kind: "dup", desc: fmt.Sprintf("schema.json %v first element duplicated", p), data: b})
			root = decodeNum(schema)
			a = getAt(root, p).([]interface{})
			rev := []interface{}{}
			for i := len(a) - 1; i >= 0; i-- {
				rev = append(rev, a[i])
			}
			root = setAt(root, p, rev, false)
			b, _ = json.Marshal(root)
			muts = append(muts, mutation{kind: "reverse", desc: fmt.Sprintf("schema.json %v reversed", p), data: b})
		}
	}
	for _, whole := range []string{"null", "[]", "[[]]", "\"x\"", "1", "{}", "{\"index\":null}", "{\"index\":{\"fields\":{\"A\":null},\"object-ids\":null}}", ""} {
		muts = append(muts, mutation{kind: "whole", desc: "schema.json = " + whole, data: []byte(whole)})
	}
	return muts
}

func byteMutations(r *rand.Rand, name string, content []byte, n int) []mutation {
	muts := []mutation{}
	for i := 0; i < n; i++ {
		b := append([]byte{}, content...)
		var kind, desc string
		switch r.Intn(4) {
		case 0:
			k := r.Intn(len(b) + 1)
			b = b[:k]
			kind, desc = "truncate", fmt.Sprintf("%s truncated at %d", name, k)
		case 1:
			if len(b) == 0 {
				continue
			}
			k := r.Intn(len(b))
			b[k] ^= 1 << uint(r.Intn(8))
			kind, desc = "bitflip", fmt.Sprintf("%s bit flipped at %d", name, k)
		case 2:
			if len(b) == 0 {
				continue
			}
			k := r.Intn(len(b))
			for j := k; j < len(b) && j < k+1+r.Intn(16); j++ {
				b[j] = 0
			}
			kind, desc = "zeros", fmt.Sprintf("%s NUL run at %d", name, k)
		case 3:
			k := r.Intn(len(b) + 1)
			b = append(append(append([]byte{}, b[:k]...), []byte("{\"x\":[")...), b[k:]...)
			kind, desc = "insert", fmt.Sprintf("%s garbage inserted at %d", name, k)
		}
		nm, nb := name, b
		muts = append(muts, mutation{kind: "bytes:" + kind, desc: desc, app: func(dir string) { os.WriteFile(filepath.Join(dir, nm), nb, 0600) }})
	}
	return muts
}

func tailMutations(r *rand.Rand, name string, content []byte) []mutation {
	muts := []mutation{}
	add := func(kind string, b []byte) {
		nm, nb := name, b
		muts = append(muts, mutation{kind: "bytes:" + kind, desc: fmt.Sprintf("%s: %s", name, kind), app: func(dir string) { os.WriteFile(filepath.Join(dir, nm), nb, 0600) }})
	}
	if strings.HasSuffix(name, ".gz") {
		// several bit flips in the compressed payload (after the 10-byte header, before the trailer)
		for i := 0; i < 24 && len(content) > 20; i++ {
			b := append([]byte{}, content...)
			k := 10 + r.Intn(len(b)-18)
			b[k] ^= 1 << uint(r.Intn(8))
			add(fmt.Sprintf("gzflip@%d", k), b)
		}
		// trailer (CRC32, ISIZE) damaged
		b := append([]byte{}, content...)
		b[len(b)-6] ^= 0x10
		add("gzcrc", b)
		return muts
	}
	for _, tail := range []string{"}", "{\"x\":1}", "\x00\x00\x00\x00", "\n[1,2]", "garbage", "null"} {
		add(fmt.Sprintf("tail %q", tail), append(append([]byte{}, content...), []byte(tail)...))
	}
	return muts
}

func strayMutations(objName string) []mutation {
	mk := func(kind, desc string, f func(dir string)) mutation {
		return mutation{kind: "stray:" + kind, desc: desc, app: f}
	}
	uu := "0a1b2c3d-0000-4000-8000-00000000abcd"
	return []mutation{
		mk("nodot", "file without a dot", func(d string) { os.WriteFile(filepath.Join(d, "README"), []byte("x"), 0600) }),
		mk("dotfile", "dot file", func(d string) { os.WriteFile(filepath.Join(d, ".hidden"), []byte("x"), 0600) }),
		mk("subdir", "sub-directory", func(d string) { os.MkdirAll(filepath.Join(d, "sub", "dir"), 0700) }),
		mk("uuiddir", "directory named like an object file", func(d string) { os.MkdirAll(filepath.Join(d, uu+".json"), 0700) }),
		mk("uuidnodot", "uuid-shaped name without extension", func(d string) { os.WriteFile(filepath.Join(d, uu), []byte("{}"), 0600) }),
		mk("otherext", "uuid-shaped name with another extension", func(d string) { os.WriteFile(filepath.Join(d, uu+".bak"), []byte("{}"), 0600) }),
		mk("emptyobj", "empty object file", func(d string) { os.WriteFile(filepath.Join(d, objName), nil, 0600) }),
		mk("nullobj", "object file = null", func(d string) { os.WriteFile(filepath.Join(d, objName), []byte("null"), 0600) }),
		mk("arrobj", "object file = []", func(d string) { os.WriteFile(filepath.Join(d, objName), []byte("[]"), 0600) }),
		mk("wrongtypes", "object file with wrongly typed fields", func(d string) {
			os.WriteFile(filepath.Join(d, objName), []byte(`{"A":"x","B":-1,"F":"nan","S":5,"Tm":7,"P":[],"L":{},"M":[]}`), 0600)
		}),
		mk("schemadir", "schema.json is a directory", func(d string) {
			os.Remove(filepath.Join(d, "schema.json"))
			os.MkdirAll(filepath.Join(d, "schema.json"), 0700)
		}),
		mk("longname", "very long file name", func(d string) { os.WriteFile(filepath.Join(d, strings.Repeat("z", 200)+".json"), []byte("{}"), 0600) }),
		mk("unicode", "non-ascii file name", func(d string) { os.WriteFile(filepath.Join(d, "é.ü.json"), []byte("{}"), 0600) }),
		mk("dots", "name made of dots", func(d string) { os.WriteFile(filepath.Join(d, "...json"), []byte("{}"), 0600) }),
	}
}

// callSequence runs the API on the damaged directory; returns the outcome of the first access
// and the list of calls that panicked.
func callSequence(root string, uuids []string, rep *hostileReport) (first string, panics []string) {
	db := sod.Open(root)
	hung := false
	run := func(name string, f func() string) string {
		if hung {
			return "SKIPPED" // a call that never returned holds the handle: nothing after it is meaningful
		}
		done := make(chan string, 1)
		go func() {
			defer func() {
				if rec := recover(); rec != nil {
					done <- fmt.Sprintf("PANIC %v", rec)
				}
			}()
			done <- f()
		}()
		select {
		case res := <-done:
			rep.CallsRun++
			if strings.HasPrefix(res, "PANIC") {
				panics = append(panics, name+": "+res)
			}
			return res
		case <-time.After(15 * time.Second):
			panics = append(panics, name+": HANG")
			hung = true
			return "HANG"
		}
	}
	first = run("Count", func() string { _, err := db.Count(&T{}); return errClass(err) })
	if data, err := os.ReadFile(filepath.Join(root, "main.T", "schema.json")); err == nil {
		var doc interface{}
		if jerr := json.Unmarshal(data, &doc); jerr != nil && first == "ok" {
			panics = append(panics, fmt.Sprintf("the first access succeeded although schema.json is not a JSON document (%v)", jerr))
		}
	}
	for _, u := range uuids {
		u := u
		// reference reader: the whole file, gzip trailer checked, one JSON document and nothing else
		undecodable := strictDecodeError(filepath.Join(root, "main.T"), u)
		res := run("Get", func() string { t := &T{}; t.Initialize(u); _, err := db.Get(t); return errClass(err) })
		if undecodable != "" && res == "ok" {
			panics = append(panics, fmt.Sprintf("Get %s returned an object although its file cannot be decoded (%s)", u, undecodable))
		}
		// … and the second time as well (a failed read must leave nothing behind that a later read serves)
		res2 := run("Get again", func() string { _, err := db.GetByUUID(&T{}, u); return errClass(err) })
		if undecodable != "" && res2 == "ok" {
			panics = append(panics, fmt.Sprintf("the second read of %s returned an object although its file cannot be decoded (%s)", u, undecodable))
		}
		run("Exist", func() string { t := &T{}; t.Initialize(u); _, err := db.Exist(t); return errClass(err) })
	}
	run("All", func() string { _, err := db.All(&T{}); return errClass(err) })
	for _, f := range []string{"A", "B", "F", "S", "Tm", "Emb.Y", "P.X", "P.W"} {
		for _, op := range []string{"=", "<", ">=", "!=", "~="} {
			f, op := f, op
			run("Search "+f+op, func() string {
				var v interface{} = int64(1)
				switch f {
				case "B":
					v = uint32(1)
				case "F":
					v = 1.5
				case "S", "P.W":
					v = "a"
				case "Tm":
					v = time.Unix(0, 1).UTC()
				case "Emb.Y":
					v = 1
				case "P.X":
					v = uint64(1)
				}
				s := db.Search(&T{}, f, op, v)
				s2 := s.And("A", ">", int64(0)).Or("S", "=", "b")
				_, err := s2.Collect()
				s.One()
				s.Len()
				return errClass(err)
			})
		}
		f2 := f
		run("AssignIndex "+f, func() string { return (&Exec{db: db, mu: nil}).assignIndexNoHandle(f2) })
	}
	run("Control", func() string { return errClass(db.Control()) })
	run("Insert new", func() string {
		sp := Spec{A: 41, S: hexs("hostile-new"), L: -1, M: -1}
		return errClass(db.InsertOrUpdate(sp.build()))
	})
	if len(uuids) > 0 {
		run("Insert update", func() string {
			sp := Spec{A: 42, S: hexs("hostile-upd"), L: -1, M: -1}
			t := sp.build()
			t.Initialize(uuids[0])
			return errClass(db.InsertOrUpdate(t))
		})
		run("Delete", func() string { t := &T{}; t.Initialize(uuids[len(uuids)-1]); return errClass(db.Delete(t)) })
	}
	run("Many", func() string {
		a, b := Spec{A: 43, S: hexs("hostile-m1"), L: -1, M: -1}, Spec{A: 44, S: hexs("hostile-m2"), L: -1, M: -1}
		_, err := db.InsertOrUpdateMany(a.build(), b.build())
		return errClass(err)
	})
	run("Search.Delete", func() string { return errClass(db.Search(&T{}, "A", "=", int64(43)).Delete()) })
	run("Repair", func() string { return errClass(db.Repair(&T{})) })
	run("Control after Repair", func() string { return errClass(db.Control()) })
	run("Count after Repair", func() string { _, err := db.Count(&T{}); return errClass(err) })
	run("All after Repair", func() string { _, err := db.All(&T{}); return errClass(err) })
	run("DeleteAll", func() string { return errClass(db.DeleteAll(&T{})) })
	run("Create", func() string { return errClass(db.Create(&T{}, sod.DefaultSchema)) })
	run("Close", func() string { return errClass(db.Close()) })
	return
}

func (e *Exec) assignIndexNoHandle(field string) string {
	var vals []int64
	var strs []string
	defer func() { recover() }() // assigning to a target of another element type is documented misuse
	if field == "S" || field == "P.W" {
		return errClass(e.db.AssignIndex(&T{}, field, &strs))
	}
	return errClass(e.db.AssignIndex(&T{}, field, &vals))
}

var hostileLimit int

func runHostile(root string, seed int64, nBytes int) {
	rep := hostileReport{Kinds: map[string]int{}, Outcomes: map[string]int{}}
	r := rand.New(rand.NewSource(seed))
	for variant := 0; variant < 3; variant++ {
		base := filepath.Join(root, fmt.Sprintf("base%d", variant))
		os.RemoveAll(base)
		db := sod.Open(base)
		cons := []DCons{{Path: "A", C: "i"}, {Path: "S", C: "iu"}, {Path: "F", C: "i"}, {Path: "Tm", C: "i"}, {Path: "B", C: "i"}, {Path: "P.W", C: "iL"}}
		fds := (&Exec{}).fieldDescs(cons)
		sch := sod.NewCustomSchema(fds, ".json")
		sch.Compress = variant == 1
		sch.Cache = variant == 2
		if variant == 2 {
			sch.Asynchrone(1000, time.Hour)
		}
		if err := db.Create(&T{}, sch); err != nil {
			panic(err)
		}
		uuids := []string{}
		for i := 0; i < 4; i++ {
			sp := Spec{A: int64(i), B: uint32(i), F: uint64(i), S: hexs(fmt.Sprintf("s%d", i)), Tm: 1700000000000000000 + int64(i), HasP: i%2 == 0, W: hexs("w"), L: 1, M: 1}
			t := sp.build()
			if err := db.InsertOrUpdate(t); err != nil {
				panic(err)
			}
			uuids = append(uuids, t.UUID())
		}
		db.Close()
		cdir := filepath.Join(base, "main.T")
		schema, err := os.ReadFile(filepath.Join(cdir, "schema.json"))
		if err != nil {
			panic(err)
		}
		objName := uuids[1] + ".json"
		if variant == 1 {
			objName += ".gz"
		}
		obj, _ := os.ReadFile(filepath.Join(cdir, objName))
		muts := structuralMutations(schema)
		muts = append(muts, byteMutations(r, "schema.json", schema, nBytes)...)
		muts = append(muts, byteMutations(r, objName, obj, nBytes/2)...)
		muts = append(muts, strayMutations(objName)...)
		if variant > 0 || hostileLimit > 0 {
			// the structural sweep is done in full once (thorough tier); otherwise sampled
			lim := 400
			if hostileLimit > 0 {
				lim = hostileLimit
			}
			whole, core, rest := []mutation{}, []mutation{}, []mutation{}
			for _, m := range muts {
				switch {
				case m.kind == "whole" || strings.HasPrefix(m.kind, "stray"):
					whole = append(whole, m)
				case m.core:
					core = append(core, m)
				default:
					rest = append(rest, m)
				}
			}
			r.Shuffle(len(rest), func(i, j int) { rest[i], rest[j] = rest[j], rest[i] })
			if len(rest) > lim {
				rest = rest[:lim]
			}
			muts = append(core, rest...)
			if variant == 0 {
				muts = append(muts, whole...)
			}
		}
		// always tried, in every variant: a valid document followed by something else, and (for
		// compressed files) flips inside the deflate stream that the gzip trailer must catch
		muts = append(muts, tailMutations(r, "schema.json", schema)...)
		muts = append(muts, tailMutations(r, objName, obj)...)
		for _, m := range muts {
			if len(rep.Failures) >= 12 {
				break // enough to report; hangs cost 15 s each
			}
			work := filepath.Join(root, "work")
			copyDir(base, work)
			wdir := filepath.Join(work, "main.T")
			if m.data != nil {
				os.WriteFile(filepath.Join(wdir, "schema.json"), m.data, 0600)
			}
			if m.app != nil {
				m.app(wdir)
			}
			rep.Cases++
			rep.Kinds[strings.SplitN(m.kind, ":", 2)[0]]++
			if len(rep.SampleMut) < 8 && rep.Cases%97 == 1 {
				rep.SampleMut = append(rep.SampleMut, m.desc)
			}
			first, panics := callSequence(work, uuids, &rep)
			rep.Outcomes[first]++
			for _, p := range panics {
				if len(rep.Failures) < 30 {
					rep.Failures = append(rep.Failures, fmt.Sprintf("[variant %d] %s  ⇒  %s", variant, m.desc, p))
				}
			}
			if len(panics) > 0 && m.data != nil && len(rep.Failures) <= 30 {
				os.WriteFile(filepath.Join(root, fmt.Sprintf("failing-schema-%d.json", rep.Cases)), m.data, 0600)
			}
		}
	}
	os.RemoveAll(filepath.Join(root, "work"))
	json.NewEncoder(os.Stdout).Encode(rep)
	if len(rep.Failures) > 0 {
		os.Exit(1)
	}
}

// strictDecodeError reads the object file of u the way the format is defined: the complete file
// (for .gz: a gzip stream whose CRC and size trailer check), holding exactly one JSON document that
// decodes into T.  Returns "" when the file is absent or decodes, the reason otherwise.
func strictDecodeError(dir, u string) string {
	entries, err := os.ReadDir(dir)
	if err != nil {
		return ""
	}
	for _, en := range entries {
		if !strings.HasPrefix(en.Name(), u) || en.IsDir() {
			continue
		}
		data, err := os.ReadFile(filepath.Join(dir, en.Name()))
		if err != nil {
			return ""
		}
		if strings.HasSuffix(en.Name(), ".gz") {
			zr, err := gzip.NewReader(bytes.NewReader(data))
			if err != nil {
				return "gzip: " + err.Error()
			}
			if data, err = io.ReadAll(zr); err != nil {
				return "gzip: " + err.Error()
			}
		}
		if err := json.Unmarshal(data, &T{}); err != nil {
			return "json: " + err.Error()
		}
		return ""
	}
	return ""
}
