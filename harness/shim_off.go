//go:build !shim

package main

const shimEnabled = false

func shimInstall(h func(op, path string) error) {}
func shimSleepDiv(n int)                        {}
