//go:build shim

package main

import (
	"time"

	"github.com/0xrawsec/sod"
)

const shimEnabled = true

func shimInstall(h func(op, path string) error) { sod.ShimHook = h }
func shimSleepDiv(n int)                        { sod.ShimSleepDiv = time.Duration(n) }
