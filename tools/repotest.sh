#!/bin/bash
# runs the repository's own test-suite (guard off) and prints pass/fail counts
export GOFLAGS=-mod=mod GOPROXY=off GOSUMDB=off GOTOOLCHAIN=local
cd /repo && go test -json -vet=off -count=1 -timeout 25m ./... 2>&1 | python3 -c "
import sys,json
p=f=0; failed=[]
for l in sys.stdin:
    try: e=json.loads(l)
    except: continue
    if e.get('Test') and '/' not in e['Test']:
        if e['Action']=='pass': p+=1
        elif e['Action']=='fail': f+=1; failed.append(e['Test'])
print('pass',p,'fail',f,failed)
sys.exit(1 if f or p<61 else 0)
"
