#!/bin/bash
# Builds the golden corpus of C18 ONCE: directories written by the pinned release e481c06 under
# every configuration, with that build's own observations.  The result is committed under
# /verif/golden; checks never run this script.
set -e
export GOFLAGS=-mod=mod GOPROXY=off GOSUMDB=off GOTOOLCHAIN=local
S=/var/tmp/sod-pinned
rm -rf $S; mkdir -p $S
git -C /repo worktree add -q $S/src e481c06
sed "s#=> /repo#=> $S/src#" /verif/harness/go.mod > $S/go.pinned.mod
cp /verif/harness/go.sum $S/go.pinned.sum
(cd /verif/harness && go build -modfile=$S/go.pinned.mod -o $S/harness-pinned .)
rm -rf /verif/golden; mkdir -p /verif/golden
for k in $(seq 0 31); do
  $S/harness-pinned -profile golden -seed $k -n 1 -keep -root /verif/golden/db$k -state-out /verif/golden/state$k.json -out /verif/golden/run$k
  rm -f /verif/golden/run$k.stats
done
git -C /repo worktree remove --force $S/src
rm -rf $S
echo "golden corpus: $(ls /verif/golden | wc -l) entries, $(du -sh /verif/golden | cut -f1)"
