#!/bin/bash
# soak.sh <first-seed> <last-seed> [histories-per-run] [profiles...]
# Unchanged-tree soak: runs every sequential profile of the harness for a range of seeds and replays
# the traces on the model; prints one line per (profile, seed) with the number of disagreements and
# keeps the trace of every run that disagrees under /var/tmp/soak/.  Not registered in MANIFEST:
# a tool to look for rare false alarms (and rare real divergences) before they hit a check.
export GOFLAGS=-mod=mod GOPROXY=off GOSUMDB=off GOTOOLCHAIN=local
V=/verif
A=$1; B=$2; N=${3:-1500}; shift 3
P=${@:-crud search unique reopen reject hooks batch fault order case args snapshot guard layout}
mkdir -p /var/tmp/soak
(cd $V/harness && go build -o /var/tmp/soak/harness .) || exit 2
M=$V/lean/.lake/build/bin/sodmodel
run() {
  p=$1; s=$2; n=$3
  d=/var/tmp/soak/$p-$s
  rm -rf $d; mkdir -p $d
  /var/tmp/soak/harness -profile $p -seed $s -n $n -out $d/run -root $d/db -hang 60 >/dev/null 2>$d/err; rc=$?
  bad=$($M < $d/run.trace 2>/dev/null | grep -c '^[!?]')
  echo "$p seed=$s rc=$rc lines=$(wc -l < $d/run.trace) disagreements=$bad"
  if [ "$bad" = "0" ] && [ "$rc" = "0" ]; then rm -rf $d; else rm -rf $d/db; fi
}
export -f run; export M
for p in $P; do for s in $(seq $A $B); do echo "$p $s $N"; done; done | xargs -P 14 -L 1 bash -c 'run $0 $1 $2'
