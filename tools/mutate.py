#!/usr/bin/env python3
"""
mutate.py — run the registered checks against the seeded changes under /verif/seeded.

  tools/mutate.py confirm <dir>          confirm a candidate change in a scratch worktree:
                                         builds, existing suite passes, demo fails with / passes without
  tools/mutate.py run [id ...] [--tier quick] [--props C01,C02]
                                         apply each seeded patch to /repo, run the checks of the
                                         property it breaks (or the given ones), undo, report

/repo is always restored (git checkout -- .) even when a check crashes.
"""
import json, os, subprocess, sys, time, glob, shutil

VERIF = os.path.dirname(os.path.dirname(os.path.abspath(__file__)))
GOENV = dict(os.environ, GOFLAGS="-mod=mod", GOPROXY="off", GOSUMDB="off", GOTOOLCHAIN="local")


def sh(cmd, **kw):
    return subprocess.run(cmd, stdout=subprocess.PIPE, stderr=subprocess.STDOUT, text=True, **kw)


def confirm(d):
    """d contains patch.diff and demo_test.go"""
    wt = "/var/tmp/confirm-wt-" + os.path.basename(os.path.abspath(d))
    sh(["git", "-C", "/repo", "worktree", "remove", "--force", wt])
    r = sh(["git", "-C", "/repo", "worktree", "add", "-q", wt, "HEAD"])
    res = {}
    try:
        shutil.copy(os.path.join(d, "demo_test.go"), os.path.join(wt, "zz_demo_test.go"))
        r = sh(["go", "test", "-vet=off", "-count=1", "-run", "TestMutationDemo", "."], cwd=wt, env=GOENV, timeout=600)
        res["demo_passes_without"] = r.returncode == 0
        r = sh(["git", "apply", os.path.join(os.path.abspath(d), "patch.diff")], cwd=wt)
        res["applies"] = r.returncode == 0
        r = sh(["go", "build", "./..."], cwd=wt, env=GOENV)
        res["builds"] = r.returncode == 0
        r = sh(["go", "test", "-vet=off", "-count=1", "-run", "TestMutationDemo", "."], cwd=wt, env=GOENV, timeout=600)
        res["demo_fails_with"] = r.returncode != 0
        res["demo_output"] = r.stdout[-600:]
        os.remove(os.path.join(wt, "zz_demo_test.go"))
        ok = False
        for attempt in range(2):      # TestIndexAllTypes is randomly flaky on its own
            r = sh(["go", "test", "-vet=off", "-count=1", "./..."], cwd=wt, env=GOENV, timeout=1500)
            if r.returncode == 0:
                ok = True
                break
            failed = [l for l in r.stdout.splitlines() if l.startswith("--- FAIL")]
            if failed != ["--- FAIL: TestIndexAllTypes"] and not all("TestIndexAllTypes" in f for f in failed):
                res["suite_failures"] = failed[:5]
                break
        res["suite_passes_with"] = ok
    finally:
        sh(["git", "-C", "/repo", "worktree", "remove", "--force", wt])
    res["confirmed"] = all(res.get(k) for k in ("demo_passes_without", "applies", "builds", "demo_fails_with", "suite_passes_with"))
    return res


def run(ids, tier, props):
    out = []
    for d in sorted(glob.glob(os.path.join(VERIF, "seeded", "*"))):
        sid = os.path.basename(d)
        if not os.path.isdir(d) or (ids and sid not in ids):
            continue
        meta = json.load(open(os.path.join(d, "meta.json")))
        targets = props or meta.get("breaks", [])
        st = sh(["git", "-C", "/repo", "status", "--porcelain"]).stdout.strip()
        if st:
            print("refusing: /repo has uncommitted changes:\n" + st)
            sys.exit(2)
        r = sh(["git", "-C", "/repo", "apply", os.path.join(d, "patch.diff")])
        if r.returncode != 0:
            out.append((sid, "PATCH-DOES-NOT-APPLY", r.stdout[-200:]))
            continue
        try:
            for pid in targets:
                t0 = time.time()
                c = sh([os.path.join(VERIF, "check"), pid, "--tier", tier], cwd=VERIF, timeout=3600)
                viol = [l for l in c.stdout.splitlines() if l.startswith("VIOLATION")]
                verdict = "DETECTED" if c.returncode == 1 and viol else ("MISSED" if c.returncode == 0 else f"ERROR(exit {c.returncode})")
                note = next((l for l in c.stdout.splitlines() if l.startswith("# ")), "")
                out.append((sid, pid, verdict, f"{time.time()-t0:.0f}s", ("no-input " if viol and viol[0].endswith("no-failing-input-found") else "") + note[:160]))
                print(*out[-1], flush=True)
        finally:
            sh(["git", "-C", "/repo", "checkout", "--", "."])
            sh(["git", "-C", "/repo", "clean", "-fdq"])
            shutil.rmtree(os.path.join(VERIF, "replays"), ignore_errors=True)
    return out


if __name__ == "__main__":
    if len(sys.argv) >= 3 and sys.argv[1] == "confirm":
        print(json.dumps(confirm(sys.argv[2]), indent=1))
    elif len(sys.argv) >= 2 and sys.argv[1] == "run":
        args = sys.argv[2:]
        tier, props, ids = "quick", None, []
        i = 0
        while i < len(args):
            if args[i] == "--tier":
                tier = args[i + 1]; i += 2
            elif args[i] == "--props":
                props = args[i + 1].split(","); i += 2
            else:
                ids.append(args[i]); i += 1
        res = run(ids, tier, props)
        # merge with earlier results (keyed by seed id + property) and rewrite the table
        path = os.path.join(VERIF, "seeded", "results.json")
        allres = json.load(open(path)) if os.path.exists(path) else {}
        for r in res:
            if len(r) >= 4:
                allres[f"{r[0]}|{r[1]}"] = {"seed": r[0], "property": r[1], "verdict": r[2], "time": r[3], "tier": tier, "note": r[4] if len(r) > 4 else ""}
        json.dump(allres, open(path, "w"), indent=1)
        with open(os.path.join(VERIF, "seeded", "RESULTS.md"), "w") as fh:
            fh.write("# Seeded changes vs checks\n\n`tools/mutate.py run` applies each `seeded/<id>/patch.diff` to /repo, runs the check(s) of the property it breaks, restores /repo.\n\n")
            fh.write("| seeded change | property | verdict | tier | time | first report |\n|---|---|---|---|---|---|\n")
            for k in sorted(allres):
                v = allres[k]
                fh.write(f"| {v['seed']} | {v['property']} | {v['verdict']} | {v['tier']} | {v['time']} | {v['note'][:110].replace('|', '/')} |\n")
    else:
        print(__doc__)
