#!/usr/bin/env python3
"""
ingest.py <out-dir> <property> <letter> ... — take a candidate change written by a sub-agent
(<out-dir>/<letter>/{patch.diff,demo_test.go,notes.md}), confirm it in a scratch worktree
(tools/mutate.py confirm) and, when confirmed, keep it as seeded/M-<property>-<letter>/.
"""
import json, os, shutil, sys
sys.path.insert(0, os.path.dirname(os.path.abspath(__file__)))
import mutate

VERIF = os.path.dirname(os.path.dirname(os.path.abspath(__file__)))


def main():
    out, pid = sys.argv[1], sys.argv[2]
    for letter in sys.argv[3:]:
        src = os.path.join(out, letter)
        if not all(os.path.exists(os.path.join(src, f)) for f in ("patch.diff", "demo_test.go")):
            print(pid, letter, "INCOMPLETE")
            continue
        res = mutate.confirm(src)
        print(pid, letter, json.dumps({k: v for k, v in res.items() if k != "demo_output"}))
        if not res["confirmed"]:
            print(res.get("demo_output", "")[-400:])
            continue
        dst = os.path.join(VERIF, "seeded", f"M-{pid}-{letter}")
        shutil.rmtree(dst, ignore_errors=True)
        os.makedirs(dst)
        for f in ("patch.diff", "demo_test.go", "notes.md"):
            if os.path.exists(os.path.join(src, f)):
                shutil.copy(os.path.join(src, f), dst)
        notes = open(os.path.join(src, "notes.md")).read() if os.path.exists(os.path.join(src, "notes.md")) else ""
        meta = {"id": f"M-{pid}-{letter}", "breaks": [pid],
                "kind": "independent sub-agent, second round (saw only the property text and a scratch worktree)",
                "needs": notes[:1500], "confirmed": {k: v for k, v in res.items() if k != "demo_output"},
                "what_was_run": "tools/mutate.py confirm: scratch worktree of /repo HEAD; go build; go test (whole suite) with the change; "
                                "demo with and without the change. tools/mutate.py run: git -C /repo apply patch.diff; ./check <prop> --tier quick; git -C /repo checkout -- ."}
        json.dump(meta, open(os.path.join(dst, "meta.json"), "w"), indent=1)


if __name__ == "__main__":
    main()
