"""per-property configuration of ./check

modules   Lean modules holding the property's theorems (built on every run)
theorems  fully qualified names audited with `#print axioms` on every run
quick / thorough
  profiles  (harness profile, workers, histories per worker)
  special   names of functions in tools/special.py (crash points, concurrency, …)
target    what makes a history non-trivial for the property (besides an accepted write)
"""


def has(prefixes):
    return lambda lines: any(l.startswith(prefixes) for l in lines)


def has_result(sub):
    return lambda lines: any(sub in l for l in lines)


PROPS = {
    "C01": {
        "title": "Reads reflect exactly the accepted writes",
        "modules": ["Props.C01"],
        "quick": {"profiles": [("crud", 8, 40)]},
        "thorough": {"profiles": [("crud", 16, 2400)]},
        "target": has(("del ", "sdel ", "delall", "reopen")),
        "design_ref": "5/C01",
    },
    "C02": {
        "title": "Search returns exactly the matching objects",
        "modules": ["Props.C02"],
        "quick": {"profiles": [("search", 8, 20)]},
        "thorough": {"profiles": [("search", 16, 1000)]},
        "target": has(("and ", "or ", "collect ")),
        "design_ref": "5/C02",
    },
    "C03": {
        "title": "Uniqueness never violated, never over-enforced",
        "modules": ["Props.C03"],
        "quick": {"profiles": [("unique", 8, 40)]},
        "thorough": {"profiles": [("unique", 16, 2400)]},
        "target": has_result("E:unique"),
        "design_ref": "5/C03",
    },
    "C04": {
        "title": "Close/reopen preserves objects, indexes, constraints",
        "modules": ["Props.C04"],
        "quick": {"profiles": [("reopen", 8, 15)]},
        "thorough": {"profiles": [("reopen", 16, 800)]},
        "target": has(("reopen",)),
        "design_ref": "5/C04",
    },
    "C05": {
        "title": "A crash at any point is detected or harmless, and Repair converges",
        "modules": ["Props.C05"],
        "quick": {"special": ["crash_points"]},
        "thorough": {"special": ["crash_points"]},
        "target": has(("ins ", "many ", "del ")),
        "rule": "every crash point (position between two directory mutations) of every generated history is executed: "
                "the real process is stopped there, a fresh process recovers; distinct = (history, crash point)",
        "design_ref": "5/C05",
    },
    "C06": {
        "title": "A rejected or failed write leaves no trace",
        "modules": ["Props.C06"],
        "quick": {"profiles": [("reject", 8, 30)], "special": ["storage_faults"]},
        "thorough": {"profiles": [("reject", 16, 1600)], "special": ["storage_faults"]},
        "target": has_result("=> E:"),
        "design_ref": "5/C06",
    },
    "C07": {
        "title": "Batch insertion is all-or-nothing",
        "modules": ["Props.C07"],
        "quick": {"profiles": [("batch", 8, 30)]},
        "thorough": {"profiles": [("batch", 16, 1600)]},
        "target": has(("many ", "bulk ")),
        "design_ref": "5/C07",
    },
    "C08": {
        "title": "Concurrent calls are linearizable and free of data races",
        "modules": ["Props.C08"],
        "quick": {"special": ["conc_races", "conc_linearizable"]},
        "thorough": {"special": ["conc_races", "conc_linearizable"]},
        "rule": "lock/access facts regenerated from the source and re-proved; race detector on first-access and mixed-load scenarios; "
                "concurrent histories (2-3 goroutines x 2-3 calls) with every real-time-respecting order replayed on the model; distinct by call lines",
        "level_note": "proof of the lock protocol (every schedule), of linearizability of one-critical-section calls (every interleaving of their micro-steps), + regenerated facts (accesses covered, one section per entry); Go's memory model and scheduler are not modelled: "
                      "the race detector and the linearizability search are supporting evidence on sampled schedules",
        "design_ref": "5/C08",
    },
    "C09": {
        "title": "No API call can block forever",
        "modules": ["Props.C09"],
        "quick": {"special": ["conc_progress"]},
        "thorough": {"special": ["conc_progress"]},
        "rule": "lock discipline facts regenerated from the source and re-proved (every entry point and goroutine); watchdog run of enumerating readers, "
                "chained refinements, writers and the flusher in sync and async variants",
        "level_note": "proof for every schedule and any number of threads of the modelled RW-lock machine; assumes sync.RWMutex behaves as modelled "
                      "(writer-preferring or fairer) and that user hooks return and do not re-enter the handle",
        "design_ref": "5/C09",
    },
    "C10": {
        "title": "Async writes: visible at once, flushed by threshold/timeout, complete at Close",
        "modules": ["Props.C10"],
        "quick": {"profiles": [("async", 16, 3)]},
        "thorough": {"profiles": [("async", 16, 80)]},
        "target": has(("tick ", "flushall", "close")),
        "level_note": "proof of the flusher state machine over every interleaving of polls and calls; wall-clock behaviour "
                      "(sleep granularity, scheduler latency) is observed in real time by the `async` profile, not proved",
        "design_ref": "5/C10",
    },
    "C12": {
        "title": "Observable behaviour does not depend on storage configuration or indexing",
        "modules": ["Props.C12"],
        "quick": {"profiles": [("args", 8, 30)], "special": ["config_pairs"]},
        "thorough": {"profiles": [("args", 16, 1200)], "special": ["config_pairs"]},
        "target": has(("search ", "exist ")),
        "design_ref": "5/C12",
    },
    "C11": {
        "title": "Control detects every divergence, Repair restores agreement",
        "modules": ["Props.C11"],
        "quick": {"profiles": [("fault", 8, 25)]},
        "thorough": {"profiles": [("fault", 16, 1200)]},
        "target": has(("rmfile", "addfile", "dropentry", "rmschema")),
        "design_ref": "5/C11",
    },
    "C13": {
        "title": "Result order, Reverse, Limit, One, AssignIndex",
        "modules": ["Props.C13"],
        "quick": {"profiles": [("order", 8, 40)]},
        "thorough": {"profiles": [("order", 16, 2000)]},
        "target": has(("collect ", "one ", "aidx ")),
        "design_ref": "5/C13",
    },
    "C14": {
        "title": "Stored values are isolated from caller memory",
        "modules": ["Props.C14"],
        "quick": {"special": ["alias_check"]},
        "thorough": {"special": ["alias_check"]},
        "rule": "random deep object shapes (nil/empty/non-empty containers, pointer chains, arrays of references) x 4 configurations: store, scribble, "
                "read, scribble, read; equality with the stored value and disjointness of references; distinct = (seed, case)",
        "level_note": "proof on the tagged-tree model of cloneValue; trusted: reflect does what the kind-by-kind mirror says (validated by the observed alias relation)",
        "design_ref": "5/C14",
    },
    "C15": {
        "title": "Validate and Transform gate every insertion path",
        "modules": ["Props.C15"],
        "quick": {"profiles": [("hooks", 8, 30)]},
        "thorough": {"profiles": [("hooks", 16, 1600)]},
        "target": has_result("E:invalid"),
        "design_ref": "5/C15",
    },
    "C16": {
        "title": "upper/lower canonicalisation",
        "modules": ["Props.C16"],
        "quick": {"profiles": [("case", 8, 25)], "special": ["case_tables"]},
        "thorough": {"profiles": [("case", 16, 1200)], "special": ["case_tables"]},
        "target": has(("search ", "collect ")),
        "design_ref": "5/C16",
    },
    "C17": {
        "title": "Schema guard",
        "modules": ["Props.C17"],
        "quick": {"profiles": [("guard", 8, 20), ("async", 16, 2)]},
        "thorough": {"profiles": [("guard", 16, 500), ("async", 16, 40)]},
        "target": has(("reshape", "create ")),
        "design_ref": "5/C17",
    },
    "C18": {
        "title": "On-disk layout is stable and readable by other tools and versions",
        "modules": ["Props.C18"],
        "quick": {"profiles": [("layout", 8, 25)], "special": ["golden_corpus"]},
        "thorough": {"profiles": [("layout", 16, 1200)], "special": ["golden_corpus"]},
        "target": has(("ls", "disk ")),
        "level_note": "naming rules and layout invariant proved on the model; format constants regenerated from the source and compared with the pinned table; "
                      "the golden corpus (32 directories written by the pinned release) is translation validation over a finite corpus",
        "design_ref": "5/C18",
    },
    "C19": {
        "title": "Malformed files and arguments produce errors, never panics or hangs",
        "modules": ["Props.C19"],
        "quick": {"profiles": [("args", 8, 40)], "special": ["hostile_dirs"]},
        "thorough": {"profiles": [("args", 16, 1600)], "special": ["hostile_dirs"]},
        "target": has_result("=> E:") ,
        "level_note": "search-argument outcomes proved on the model (every triple gives a documented error class or an exact result); "
                      "for damaged files the decoders are exercised, not modelled: the oracle is 'no panic, no hang, process survives'",
        "design_ref": "5/C19",
    },
    "C20": {
        "title": "A search result is a snapshot",
        "modules": ["Props.C20"],
        "quick": {"profiles": [("snapshot", 8, 40)]},
        "thorough": {"profiles": [("snapshot", 16, 2000)]},
        "target": has(("collect ",)),
        "design_ref": "5/C20",
    },
}

# theorem lists live next to the Lean sources so that they cannot drift apart silently
import json, os
_t = os.path.join(os.path.dirname(os.path.dirname(os.path.abspath(__file__))), "lean", "Props", "theorems.json")
if os.path.exists(_t):
    for pid, names in json.load(open(_t)).items():
        if pid in PROPS:
            PROPS[pid]["theorems"] = names
for p in PROPS.values():
    p.setdefault("theorems", [])
    if not p["theorems"]:
        p["modules"] = []
