"""per-property configuration of ./check"""

def has(prefixes):
    return lambda lines: any(l.startswith(prefixes) for l in lines)

PROPS = {
    "C01": {
        "modules": [], "theorems": [],
        "quick": {"profiles": [("crud", 8, 25)]},
        "thorough": {"profiles": [("crud", 16, 250)]},
        "target": has(("del ", "sdel ", "delall", "reopen")),
    },
    "C02": {
        "modules": [], "theorems": [],
        "quick": {"profiles": [("search", 8, 12)]},
        "thorough": {"profiles": [("search", 16, 120)]},
        "target": has(("and ", "or ", "collect ")),
    },
}
