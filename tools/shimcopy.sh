#!/bin/bash
# shimcopy.sh <dest>: copy /repo's working tree (non-test sources) to <dest> and redirect its
# file-system mutations and sleeps to the observation shim (see /verif/shim/zz_shim.go.txt).
set -e
dest="$1"
rm -rf "$dest"; mkdir -p "$dest"
cd /repo
for f in *.go go.mod go.sum; do
  case "$f" in *_test.go) continue;; esac
  cp "$f" "$dest/"
done
cp /verif/shim/zz_shim.go.txt "$dest/zz_shim.go"
cd "$dest"
for f in *.go; do
  [ "$f" = zz_shim.go ] && continue
  for r in 'os.Rename -> shimRename' 'os.Remove -> shimRemove' 'os.RemoveAll -> shimRemoveAll' \
           'os.MkdirAll -> shimMkdirAll' 'os.Mkdir -> shimMkdir' 'os.OpenFile -> shimOpenFile' \
           'os.Create -> shimCreate' 'os.WriteFile -> shimWriteFile' 'ioutil.WriteFile -> shimWriteFile' \
           'time.Sleep -> shimSleep'; do
    gofmt -r "$r" -w "$f"
  done
done
# imports that became unused after the rewrite are dropped (goimports is not available: do it by hand)
for f in *.go; do
  [ "$f" = zz_shim.go ] && continue
  for pkg in os time io/ioutil; do
    base=${pkg##*/}
    if grep -q "^\s*\"$pkg\"$" "$f" && ! grep -v "^\s*\"$pkg\"$" "$f" | grep -q "\b$base\."; then
      sed -i "\#^\s*\"$pkg\"\$#d" "$f"
    fi
  done
done
export GOFLAGS=-mod=mod GOPROXY=off GOSUMDB=off GOTOOLCHAIN=local
go build ./... 
