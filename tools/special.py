"""property-specific runners, oracles and known-finding matching"""
import json, os

VERIF = os.path.dirname(os.path.dirname(os.path.abspath(__file__)))


def load_known():
    p = os.path.join(VERIF, "known_findings.json")
    if not os.path.exists(p):
        return []
    return [e for e in json.load(open(p)) if e.get("status") == "known"]


def judge(pid, line, verdict):
    """Is the disagreement a concrete failing input of the property (rather than only a
    model/implementation divergence)?  A PANIC, or a result the model contradicts on a
    well-formed call, is a failing input; an unparsable line is not."""
    if verdict.startswith("?"):
        return {"fails": False, "why": "the model could not interpret the line: " + verdict}
    return {"fails": True, "why": "implementation result differs from the result the verified model computes for the same history"}


def signature(pid, replay):
    return {"property": pid, "kind": replay.get("kind"), "op": (replay.get("first_disagreement", {}).get("call_and_impl_result", "").split(" ") or [""])[0]}


def known(pid, sig, replay):
    for e in load_known():
        if e["property"] == pid and all(sig.get(k) == v for k, v in e.get("signature", {}).items()):
            return e["what"]
    return None
