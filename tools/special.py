"""property-specific runners, oracles and known-finding matching"""
import json, os

VERIF = os.path.dirname(os.path.dirname(os.path.abspath(__file__)))


def load_known():
    p = os.path.join(VERIF, "known_findings.json")
    if not os.path.exists(p):
        return []
    return [e for e in json.load(open(p)) if e.get("status") == "known"]


def judge(pid, line, verdict):
    """Is the disagreement a concrete failing input of the property (rather than only a
    model/implementation divergence)?  A PANIC, or a result the model contradicts on a
    well-formed call, is a failing input; an unparsable line is not."""
    if verdict.startswith("?"):
        return {"fails": False, "why": "the model could not interpret the line: " + verdict}
    return {"fails": True, "why": "implementation result differs from the result the verified model computes for the same history"}


def signature(pid, replay):
    return {"property": pid, "kind": replay.get("kind"), "op": (replay.get("first_disagreement", {}).get("call_and_impl_result", "").split(" ") or [""])[0]}


def known(pid, sig, replay):
    for e in load_known():
        if e["property"] == pid and all(sig.get(k) == v for k, v in e.get("signature", {}).items()):
            return e["what"]
    return None


# ---------------------------------------------------------------------------------------
# shimmed build: a scratch copy of /repo whose file-system calls go through an observation
# hook (tools/shimcopy.sh) — used for crash points (C05), storage faults (C06), scaled
# sleeps (C10)
# ---------------------------------------------------------------------------------------
import subprocess, hashlib, random
from concurrent.futures import ThreadPoolExecutor

LEAN = os.path.join(VERIF, "lean")
MODEL = os.path.join(LEAN, ".lake", "build", "bin", "sodmodel")
GOENV = dict(os.environ, GOFLAGS="-mod=mod", GOPROXY="off", GOSUMDB="off", GOTOOLCHAIN="local")


def sh(cmd, **kw):
    return subprocess.run(cmd, stdout=subprocess.PIPE, stderr=subprocess.STDOUT, text=True, **kw)


def shim_harness(run, race=False):
    key = "shim_race" if race else "shim"
    if getattr(run, key, None):
        return getattr(run, key)
    src = os.path.join(run.scratch, "sodshim")
    r = sh([os.path.join(VERIF, "tools", "shimcopy.sh"), src], env=GOENV)
    if r.returncode != 0:
        path = run.write_replay({"kind": "shim-build-failure", "detail": r.stdout[-3000:]})
        run.violations.append(("the shimmed copy of the working tree does not build", r.stdout[-300:], path, False))
        return None
    mod = os.path.join(run.scratch, "go.shim.mod")
    hdir = os.path.join(VERIF, "harness")
    open(mod, "w").write(open(os.path.join(hdir, "go.mod")).read().replace("=> /repo", "=> " + src))
    open(os.path.join(run.scratch, "go.shim.sum"), "w").write(open(os.path.join(hdir, "go.sum")).read())
    out = os.path.join(run.scratch, "harness-" + key)
    args = ["go", "build", "-tags", "shim", "-modfile=" + mod, "-o", out]
    if race:
        args.insert(2, "-race")
    r = sh(args + ["."], cwd=hdir, env=GOENV)
    if r.returncode != 0:
        path = run.write_replay({"kind": "shim-build-failure", "detail": r.stdout[-3000:]})
        run.violations.append(("shim harness does not build", r.stdout[-300:], path, False))
        return None
    setattr(run, key, out)
    return out


def model_verdicts(lines):
    m = subprocess.run([MODEL], input="\n".join(lines) + "\n", stdout=subprocess.PIPE, stderr=subprocess.PIPE, text=True)
    return m.stdout.splitlines()


def _result(lines, call):
    """result of the first line whose call is `call`"""
    for l in lines:
        if l.startswith(call + " => ") or l == call + " =>":
            return l.split(" => ", 1)[1] if " => " in l else ""
    return None


def crash_points(run):
    """C05: for every history and EVERY crash point between two directory mutations: kill the
    process there (real process, real directory), recover in a fresh process, compare the
    recovery with the model's prediction and judge it with the property's oracle."""
    h = shim_harness(run)
    if not h:
        return
    quick = run.tier == "quick"
    nhist = 24 if quick else 160
    base = os.path.join(run.scratch, "crash")
    r = sh([h, "-profile", "crash", "-seed", str(run.seed), "-n", str(nhist), "-out", base, "-root", base + ".db"])
    if r.returncode != 0:
        path = run.write_replay({"kind": "harness-crash", "profile": "crash", "output": r.stdout[-2000:]})
        run.violations.append(("process crash while executing histories", r.stdout[-300:], path, True))
        return
    trace = open(base + ".trace").read().splitlines()
    opslines = open(base + ".ops").read().splitlines()
    # full-run correspondence (includes the per-call file-operation sequences)
    run.analyse("crash", [(0, base, False, "", model_verdicts(trace), "")])
    # split the full trace per history, count mutations
    hists, cur = [], None
    for l in trace:
        if l.startswith("# history"):
            cur = []
            hists.append(cur)
        elif cur is not None:
            cur.append(l)
    jobs = []
    for hi, lines in enumerate(hists):
        nm = sum(len(l.split(" => ", 1)[1].split()) for l in lines if l.startswith("fsops => "))
        ks = list(range(1, nm + 1))
        if quick and len(ks) > 30:
            rnd = random.Random(run.seed * 7919 + hi)
            ks = sorted(rnd.sample(ks, 30))
        for k in ks:
            jobs.append((hi, k))
    stats = {"histories": len(hists), "crash_points": len(jobs), "detected": 0, "consistent_undetected": 0,
             "known": 0, "violations": 0, "by_call": {}}

    def one(job):
        hi, k = job
        tag = f"{base}-h{hi}-k{k}"
        open(tag + ".in", "w").write(opslines[hi] + "\n")
        st = tag + ".state"
        r1 = sh([h, "-replay", tag + ".in", "-crashat", str(k), "-keep", "-root", tag + ".db", "-state-out", st, "-out", tag + ".a"])
        a = open(tag + ".a.trace").read().splitlines() if os.path.exists(tag + ".a.trace") else []
        if r1.returncode != 77:
            return job, None, f"expected the process to stop at mutation {k}, exit={r1.returncode}: {r1.stdout[-300:]}", a, []
        r2 = sh([h, "-recover", "-root", tag + ".db", "-state-in", st, "-out", tag + ".b"], timeout=120)
        b = open(tag + ".b.trace").read().splitlines() if os.path.exists(tag + ".b.trace") else []
        b = [l for l in b if not l.startswith("#")]
        if r2.returncode != 0:
            return job, None, f"recovery process failed: exit={r2.returncode} {r2.stdout[-300:]}", a, b
        v = model_verdicts(a + b)
        subprocess.run(["rm", "-rf", tag + ".db"])
        return job, v, None, a, b

    with ThreadPoolExecutor(max_workers=16) as ex:
        results = list(ex.map(one, jobs))

    reported = 0
    for (hi, k), verdicts, err, a, b in results:
        crashline = next((l for l in a if l.startswith("crash at=")), "")
        call = crashline.split(" ")[2] if crashline else "?"
        stats["by_call"][call] = stats["by_call"].get(call, 0) + 1
        problems = []
        if err:
            problems.append(("infrastructure", err))
        else:
            first = _result(b, "count")
            cons = [l.split(" => ")[1] for l in b if l.startswith("consistent => ")]
            ctrl = [l.split(" => ")[1] for l in b if l.startswith("control => ")]
            rep = _result(b, "repair")
            detected = first == "E:corrupted"
            stats["detected"] += detected
            lsline = _result(b, "ls") or ""
            if first == "E:notfound" and lsline.startswith("[] schema=0"):
                # the crash fell inside the very first Create: no collection exists, nothing was
                # acknowledged; only agreement with the model is required
                stats["no_collection"] = stats.get("no_collection", 0) + 1
                bad = [(l, v) for l, v in zip(a + b, verdicts) if v != "="]
                if bad:
                    problems.append(("model-disagreement", f"{bad[0][0][:200]} | model: {bad[0][1][:200]}"))
                    first = "skip"
                else:
                    continue
            if first == "skip":
                pass
            elif not detected:
                if first is None or first.startswith("E:") or first == "PANIC":
                    problems.append(("unreadable", f"first access after the crash answers {first}"))
                elif cons and cons[0] != "true":
                    problems.append(("silent-divergence", "reopening reports no corruption but index and files disagree"))
                else:
                    stats["consistent_undetected"] += 1
            if first == "skip":
                pass
            elif rep not in ("ok",):
                problems.append(("repair-failed", f"Repair answers {rep}"))
            elif len(ctrl) >= 2 and ctrl[1] != "ok":
                problems.append(("control-after-repair", f"Control after Repair answers {ctrl[1]}"))
            elif len(cons) >= 2 and cons[1] != "true":
                problems.append(("stale-after-repair", "after Repair searches do not agree with file contents"))
            for l in b:
                if l.endswith("E:syntax") or l.endswith("PANIC") or l.endswith("BADJSON") or l.endswith("BADGZ"):
                    problems.append(("unreadable", l[:200]))
            bad = [(l, v) for l, v in zip(a + b, verdicts) if v != "="]
            if bad and not problems:
                problems.append(("model-disagreement", f"{bad[0][0][:200]} | model: {bad[0][1][:200]}"))
        if not problems:
            continue
        # signature of the recorded finding: an UPDATE interrupted after its object file was
        # replaced and before the schema was committed
        sig = crash_signature(a, crashline, hists[hi])
        kinds = sorted(set(p[0] for p in problems))
        replay = {"kind": "crash-point", "property": "C05", "history_ops": json.loads(opslines[hi]), "crash_at_mutation": k,
                  "interrupted_call": crashline, "signature": sig, "problems": problems,
                  "trace_until_crash": [l for l in a if not l.startswith("casemap")], "recovery": b,
                  "how_to_replay": "harness-shim -replay <ops> -crashat <k> -keep ; harness-shim -recover"}
        kf = None
        if set(kinds) <= {"silent-divergence", "stale-after-repair", "model-disagreement"} and sig.get("window") == "object-replaced/schema-not-committed":
            kf = known("C05", {"window": sig["window"], "call": "update"}, replay)
        if kf:
            stats["known"] += 1
            if kf not in run.known:
                run.known.append(kf)
            continue
        stats["violations"] += 1
        reported += 1
        if reported <= 3:
            path = run.write_replay(replay)
            run.violations.append((f"crash point {k} of history {hi}: " + ", ".join(kinds), problems[0][1], path,
                                   kinds != ["model-disagreement"] and kinds != ["infrastructure"]))
    run.cov["crash"] = stats
    run.cov["evaluations"] = run.cov.get("evaluations", 0) + len(jobs)
    for (hi, k), *_ in results:
        run.hashes.add(f"crash-{hi}-{k}")


def crash_signature(a, crashline, full):
    """which window of which kind of call the crash fell into, from the implementation's own
    file-operation log (objects already on disk before the call are updates)"""
    stored = set()
    done_calls = 0
    for l in a:
        if l.startswith("fsops => ") or l == "fsops =>":
            done_calls += 1
            for t in l.split("=>", 1)[1].split():
                if t.startswith("w:"):
                    stored.add(t[2:])
                elif t.startswith("r:"):
                    stored.discard(t[2:])
    fs_full = [l.split("=>", 1)[1].split() for l in full if l.startswith("fsops =>")]
    sig = {"call": crashline.split(" ")[2] if crashline else "?"}
    try:
        j = int(crashline.split(" ")[1].split("=")[1])
        toks = fs_full[done_calls][:j]
        # what the interrupted call had committed (up to its last schema write) counts as stored
        uncommitted = toks
        if "ws" in toks:
            last = len(toks) - 1 - toks[::-1].index("ws")
            for t in toks[:last]:
                if t.startswith("w:"):
                    stored.add(t[2:])
                elif t.startswith("r:"):
                    stored.discard(t[2:])
            uncommitted = toks[last + 1:]
        replaced = [t for t in uncommitted if t.startswith("w:") and t[2:] in stored]
        if replaced:
            sig["window"] = "object-replaced/schema-not-committed"
            sig["objects"] = replaced
        else:
            sig["window"] = "other"
        sig["done"] = toks
    except Exception as e:          # pragma: no cover
        sig["window"] = "unknown"
    return sig
