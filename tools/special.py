"""property-specific runners, oracles and known-finding matching"""
import json, os

VERIF = os.path.dirname(os.path.dirname(os.path.abspath(__file__)))


def load_known():
    p = os.path.join(VERIF, "known_findings.json")
    if not os.path.exists(p):
        return []
    return [e for e in json.load(open(p)) if e.get("status") == "known"]


def judge(pid, line, verdict):
    """Is the disagreement a concrete failing input of the property (rather than only a
    model/implementation divergence)?  A PANIC, or a result the model contradicts on a
    well-formed call, is a failing input; an unparsable line is not."""
    if verdict.startswith("?"):
        return {"fails": False, "why": "the model could not interpret the line: " + verdict}
    return {"fails": True, "why": "implementation result differs from the result the verified model computes for the same history"}


def signature(pid, replay):
    return {"property": pid, "kind": replay.get("kind"), "op": (replay.get("first_disagreement", {}).get("call_and_impl_result", "").split(" ") or [""])[0]}


def known(pid, sig, replay):
    for e in load_known():
        if e["property"] == pid and all(sig.get(k) == v for k, v in e.get("signature", {}).items()):
            return e["what"]
    return None


# ---------------------------------------------------------------------------------------
# shimmed build: a scratch copy of /repo whose file-system calls go through an observation
# hook (tools/shimcopy.sh) — used for crash points (C05), storage faults (C06), scaled
# sleeps (C10)
# ---------------------------------------------------------------------------------------
import subprocess, hashlib, random
from concurrent.futures import ThreadPoolExecutor

LEAN = os.path.join(VERIF, "lean")
MODEL = os.path.join(LEAN, ".lake", "build", "bin", "sodmodel")
GOENV = dict(os.environ, GOFLAGS="-mod=mod", GOPROXY="off", GOSUMDB="off", GOTOOLCHAIN="local")


def sh(cmd, **kw):
    return subprocess.run(cmd, stdout=subprocess.PIPE, stderr=subprocess.STDOUT, text=True, **kw)


def shim_harness(run, race=False):
    key = "shim_race" if race else "shim"
    if getattr(run, key, None):
        return getattr(run, key)
    src = os.path.join(run.scratch, "sodshim")
    r = sh([os.path.join(VERIF, "tools", "shimcopy.sh"), src], env=GOENV)
    if r.returncode != 0:
        path = run.write_replay({"kind": "shim-build-failure", "detail": r.stdout[-3000:]})
        run.violations.append(("the shimmed copy of the working tree does not build", r.stdout[-300:], path, False))
        return None
    mod = os.path.join(run.scratch, "go.shim.mod")
    hdir = os.path.join(VERIF, "harness")
    open(mod, "w").write(open(os.path.join(hdir, "go.mod")).read().replace("=> /repo", "=> " + src))
    open(os.path.join(run.scratch, "go.shim.sum"), "w").write(open(os.path.join(hdir, "go.sum")).read())
    out = os.path.join(run.scratch, "harness-" + key)
    args = ["go", "build", "-tags", "shim", "-modfile=" + mod, "-o", out]
    if race:
        args.insert(2, "-race")
    r = sh(args + ["."], cwd=hdir, env=GOENV)
    if r.returncode != 0:
        path = run.write_replay({"kind": "shim-build-failure", "detail": r.stdout[-3000:]})
        run.violations.append(("shim harness does not build", r.stdout[-300:], path, False))
        return None
    setattr(run, key, out)
    return out


def model_verdicts(lines):
    m = subprocess.run([MODEL], input="\n".join(lines) + "\n", stdout=subprocess.PIPE, stderr=subprocess.PIPE, text=True)
    return m.stdout.splitlines()


def explain_schedule(header, lines, max_inserts=8):
    """
    The background flusher polls in real time; the trace only says where the harness SLEPT
    (`tick N`: at least N polls).  A poll may also fall between two calls, and a flush may execute
    some calls after the poll that decided it.  When model and implementation disagree in a history
    with asynchronous writes, look for extra flusher events (`tick k` / `fflush` between two calls
    of the trace) under which the model reproduces the WHOLE observed history; any such schedule is
    one the property quantifies over, so the history is accepted.  (An early flush is always within
    the property; the explicit `tick N` of the trace still demands the flushes that are due.)
    Returns the list of inserted (position, k) or None when no schedule explains the trace.
    """
    import re
    timeout_ticks = None
    for l in lines:
        m = re.search(r"^create .* async=(\d+),(\d+)", l)
        if m:
            ms = int(m.group(2))
            if ms <= 2000:
                timeout_ticks = (ms + 99) // 100
    if not any(re.search(r"^create .* async=\d", l) for l in lines):
        return None
    cur, inserted = list(lines), []

    def first_bad(ls):
        v = model_verdicts([header] + ls)[1:]
        for i, x in enumerate(v[:len(ls)]):
            if x != "=":
                return i
        return None if len(v) >= len(ls) else len(v)
    i = first_bad(cur)
    while i is not None and len(inserted) < max_inserts:
        lo = max(0, i - 60)
        best = None
        for j in range(i, lo, -1):
            # a poll, the polls of a whole timeout, or a flush decided earlier (the flusher reads the
            # pending count under the read lock and gets the write lock only later: `fflush`)
            for ev in (["tick 1"] + ([f"tick {timeout_ticks}"] if timeout_ticks and timeout_ticks > 1 else []) + ["fflush"]):
                cand = cur[:j] + [f"{ev} => ok"] + cur[j:]
                i2 = first_bad(cand)
                if i2 is None:
                    best = (cand, j, ev, None)
                    break
                # keep the position after which the model follows the observation longest
                if i2 > i + 1 and (best is None or i2 > best[3]):
                    best = (cand, j, ev, i2)
            if best and best[3] is None:
                break
        if not best:
            return None
        cur, i = best[0], best[3]
        inserted.append((best[1], best[2]))
    return inserted if i is None else None


def _result(lines, call):
    """result of the first line whose call is `call`"""
    for l in lines:
        if l.startswith(call + " => ") or l == call + " =>":
            return l.split(" => ", 1)[1] if " => " in l else ""
    return None


def crash_points(run):
    """C05: for every history and EVERY crash point between two directory mutations: kill the
    process there (real process, real directory), recover in a fresh process, compare the
    recovery with the model's prediction and judge it with the property's oracle."""
    h = shim_harness(run)
    if not h:
        return
    quick = run.tier == "quick"
    nhist = 24 if quick else 480
    base = os.path.join(run.scratch, "crash")
    r = sh([h, "-profile", "crash", "-seed", str(run.seed), "-n", str(nhist), "-out", base, "-root", base + ".db"])
    if r.returncode != 0:
        path = run.write_replay({"kind": "harness-crash", "profile": "crash", "output": r.stdout[-2000:]})
        run.violations.append(("process crash while executing histories", r.stdout[-300:], path, True))
        return
    trace = open(base + ".trace").read().splitlines()
    opslines = open(base + ".ops").read().splitlines()
    # full-run correspondence (includes the per-call file-operation sequences)
    run.analyse("crash", [(0, base, False, "", model_verdicts(trace), "")])
    # split the full trace per history, count mutations
    hists, cur = [], None
    for l in trace:
        if l.startswith("# history"):
            cur = []
            hists.append(cur)
        elif cur is not None:
            cur.append(l)
    jobs = []
    for hi, lines in enumerate(hists):
        nm = sum(len(l.split(" => ", 1)[1].split()) for l in lines if l.startswith("fsops => "))
        ks = list(range(1, nm + 1))
        if quick and len(ks) > 30:
            rnd = random.Random(run.seed * 7919 + hi)
            ks = sorted(rnd.sample(ks, 30))
        for k in ks:
            jobs.append((hi, k))
        jobs.append((hi, -1))       # the process dies after its last call, without Close
    stats = {"histories": len(hists), "crash_points": len(jobs), "detected": 0, "consistent_undetected": 0,
             "known": 0, "violations": 0, "by_call": {}}

    def one(job):
        hi, k = job
        tag = f"{base}-h{hi}-k{k}"
        open(tag + ".in", "w").write(opslines[hi] + "\n")
        st = tag + ".state"
        r1 = sh([h, "-replay", tag + ".in", "-crashat", str(k), "-keep", "-root", tag + ".db", "-state-out", st, "-out", tag + ".a"])
        a = open(tag + ".a.trace").read().splitlines() if os.path.exists(tag + ".a.trace") else []
        if r1.returncode != 77:
            return job, None, f"expected the process to stop at mutation {k}, exit={r1.returncode}: {r1.stdout[-300:]}", a, []
        r2 = sh([h, "-recover", "-root", tag + ".db", "-state-in", st, "-out", tag + ".b"], timeout=120)
        b = open(tag + ".b.trace").read().splitlines() if os.path.exists(tag + ".b.trace") else []
        b = [l for l in b if not l.startswith("#")]
        if r2.returncode != 0:
            return job, None, f"recovery process failed: exit={r2.returncode} {r2.stdout[-300:]}", a, b
        v = model_verdicts(a + b)
        subprocess.run(["rm", "-rf", tag + ".db"])
        return job, v, None, a, b

    with ThreadPoolExecutor(max_workers=16) as ex:
        results = list(ex.map(one, jobs))

    reported = 0
    for (hi, k), verdicts, err, a, b in results:
        crashline = next((l for l in a if l.startswith("crash at=")), "")
        call = crashline.split(" ")[2] if crashline else "?"
        stats["by_call"][call] = stats["by_call"].get(call, 0) + 1
        problems = []
        if err:
            problems.append(("infrastructure", err))
        else:
            first = _result(b, "count")
            cons = [l.split(" => ")[1] for l in b if l.startswith("consistent => ")]
            ctrl = [l.split(" => ")[1] for l in b if l.startswith("control => ")]
            rep = _result(b, "repair")
            # second part of the recovery: rewrite every object, close, restart
            i2 = max((i for i, l in enumerate(b) if l.startswith("reopen")), default=0)
            if i2 > 0:
                second = b[i2:]
                f2 = _result(second, "count")
                c2 = [l.split(" => ")[1] for l in second if l.startswith("consistent => ")]
                if f2 is None or f2.startswith("E:") or (c2 and c2[0] != "true"):
                    problems.append(("after-recovery", f"after rewriting every object and a clean restart: first access {f2}, consistent {c2[:1]}"))
                for l in second:
                    if l.startswith(("get ", "disk ")) and (l.endswith(("E:syntax", "BADJSON", "BADGZ", "E:other")) ):
                        problems.append(("unreadable", l[:200]))
            detected = first == "E:corrupted"
            stats["detected"] += detected
            lsline = _result(b, "ls") or ""
            if first == "E:notfound" and lsline.startswith("[] schema=0"):
                # the crash fell inside the very first Create: no collection exists, nothing was
                # acknowledged; only agreement with the model is required
                stats["no_collection"] = stats.get("no_collection", 0) + 1
                bad = [(l, v) for l, v in zip(a + b, verdicts) if v != "="]
                if bad:
                    problems.append(("model-disagreement", f"{bad[0][0][:200]} | model: {bad[0][1][:200]}"))
                    first = "skip"
                else:
                    continue
            if first == "skip":
                pass
            elif not detected:
                if first is None or first.startswith("E:") or first == "PANIC":
                    problems.append(("unreadable", f"first access after the crash answers {first}"))
                elif cons and cons[0] != "true":
                    problems.append(("silent-divergence", "reopening reports no corruption but index and files disagree"))
                else:
                    stats["consistent_undetected"] += 1
            if first == "skip":
                pass
            elif rep not in ("ok",):
                problems.append(("repair-failed", f"Repair answers {rep}"))
            elif len(ctrl) >= 2 and ctrl[1] != "ok":
                problems.append(("control-after-repair", f"Control after Repair answers {ctrl[1]}"))
            elif len(cons) >= 2 and cons[1] != "true":
                problems.append(("stale-after-repair", "after Repair searches do not agree with file contents"))
            for l in b:
                if l.endswith("E:syntax") or l.endswith("PANIC") or l.endswith("BADJSON") or l.endswith("BADGZ"):
                    problems.append(("unreadable", l[:200]))
            bad = [(l, v) for l, v in zip(a + b, verdicts) if v != "="]
            # a flush / bulk deletion writes in Go map order: which objects made it before the crash is
            # unspecified, so the model cannot predict the directory; the oracle alone judges those
            unordered = call in ("close", "flushall", "flushallc", "delall", "sdel", "create")
            if bad and not problems and not unordered:
                problems.append(("model-disagreement", f"{bad[0][0][:200]} | model: {bad[0][1][:200]}"))
        if not problems:
            continue
        # signature of the recorded finding: an UPDATE interrupted after its object file was
        # replaced and before the schema was committed
        sig = crash_signature(a, crashline, hists[hi])
        kinds = sorted(set(p[0] for p in problems))
        replay = {"kind": "crash-point", "property": "C05", "history_ops": json.loads(opslines[hi]), "crash_at_mutation": k,
                  "interrupted_call": crashline, "signature": sig, "problems": problems,
                  "trace_until_crash": [l for l in a if not l.startswith("casemap")], "recovery": b,
                  "how_to_replay": "harness-shim -replay <ops> -crashat <k> -keep ; harness-shim -recover"}
        kf = None
        # the recorded finding: index entry and object file of an UPDATE are not replaced atomically.
        # It is recognised by its effect: every object whose index entry is stale was updated in the
        # history (or by the interrupted call), and nothing else is wrong.
        inter = crashline.split(" ", 2)[2] if crashline.count(" ") >= 2 else ""
        upd = updated_handles(a, inter, sig.get("done") or [])
        stale = stale_handles(b)
        sig["stale_objects"], sig["updated_objects"] = sorted(stale), sorted(upd)
        if stale and stale <= upd and set(kinds) <= {"silent-divergence", "stale-after-repair", "model-disagreement", "after-recovery", "repair-failed"}:
            kf = known("C05", {"root": "non-atomic-update"}, replay)
        elif kinds == ["repair-failed"] and rep == "E:unique" and upd:
            # Repair met the stale value of an updated object while indexing a new file that
            # legitimately took over that value
            kf = known("C05", {"root": "non-atomic-update"}, replay)
        if kf:
            stats["known"] += 1
            if kf not in run.known:
                run.known.append(kf)
            continue
        stats["violations"] += 1
        reported += 1
        if reported <= 3:
            path = run.write_replay(replay)
            run.violations.append((f"crash point {k} of history {hi}: " + ", ".join(kinds), problems[0][1], path,
                                   kinds != ["model-disagreement"] and kinds != ["infrastructure"]))
    run.cov["crash"] = stats
    run.cov["evaluations"] = run.cov.get("evaluations", 0) + len(jobs)
    for (hi, k), *_ in results:
        run.hashes.add(f"crash-{hi}-{k}")


def _mentions(call):
    if call.startswith("ins "):
        hd = call.split(" ")[1].split(":")[0]
        nw = call.split("new=")[-1].split(" ")[0] if "new=" in call else "0"
        return [hd if hd != "0" else nw]
    if call.startswith(("many ", "bulk ")):
        toks = [t[2:].split(":")[0] for t in call.split(" ") if t.startswith("o=")]
        news = (call.split("news=")[-1].split(" ")[0].split(",") if "news=" in call else [])
        return [t if t != "0" else (news[i] if i < len(news) else "0") for i, t in enumerate(toks)]
    return []


def updated_handles(lines, interrupted="", done=()):
    """handles of the objects that were UPDATED: their file was written while it already existed,
    or (asynchronous mode) a write of theirs was accepted while their file existed; `done` are
    the file operations the interrupted call had completed"""
    ondisk, upd = set(), set()
    accepted_n = {}
    last = None
    for l in lines:
        if l.startswith("fsops =>"):
            toks = l.split("=>", 1)[1].split()
            if last is not None:
                call, res = last
                accepted = res.endswith("ok") or (res.split(" ")[0].isdigit() and res.split(" ")[0] != "0" and call.startswith(("many", "bulk")))
                if accepted:
                    for hd in _mentions(call):
                        if hd in ondisk and ("w:" + hd) not in toks:
                            upd.add(hd)        # accepted, nothing written yet: a pending update
                        accepted_n[hd] = accepted_n.get(hd, 0) + 1
                        if accepted_n[hd] > 1:
                            upd.add(hd)        # second accepted write of the same object
            for t in toks:
                if t.startswith("w:"):
                    if t[2:] in ondisk:
                        upd.add(t[2:])
                    ondisk.add(t[2:])
                elif t.startswith("r:"):
                    ondisk.discard(t[2:])
            last = None
        elif " => " in l and not l.startswith(("casemap", "#")):
            last = tuple(l.split(" => ", 1))
    for t in done:
        if t.startswith("w:"):
            if t[2:] in ondisk:
                upd.add(t[2:])
            ondisk.add(t[2:])       # the same call may write the object again (chunks)
    for hd in _mentions(interrupted):
        if hd in ondisk or accepted_n.get(hd, 0) >= 1:
            upd.add(hd)
    upd.discard("0")
    return upd


def stale_handles(lines):
    out = set()
    for l in lines:
        if l.startswith("consistent => false"):
            rest = l[len("consistent => false"):].strip()
            out |= set(x for x in rest.split(",") if x)
    return out


def crash_signature(a, crashline, full):
    """which window of which kind of call the crash fell into, from the implementation's own
    file-operation log (objects already on disk before the call are updates)"""
    stored = set()
    done_calls = 0
    pending_upd, committed_with_pending = set(), False
    last_call = ""
    for l in a:
        if l.startswith("fsops => ") or l == "fsops =>":
            done_calls += 1
            toks = l.split("=>", 1)[1].split()
            # asynchronous mode: an accepted update of an object that is on disk writes nothing yet
            if last_call.endswith("ok"):
                hs = []
                if last_call.startswith("ins "):
                    hs = [last_call.split(" ")[1].split(":")[0]]
                elif last_call.startswith(("many ", "bulk ")):
                    hs = [t[2:].split(":")[0] for t in last_call.split(" ") if t.startswith("o=")]
                for hd in hs:
                    if hd in stored and ("w:" + hd) not in toks:
                        pending_upd.add(hd)
            for t in toks:
                if t.startswith("w:"):
                    stored.add(t[2:])
                    pending_upd.discard(t[2:])
                elif t.startswith("r:"):
                    stored.discard(t[2:])
                    pending_upd.discard(t[2:])
                elif t == "ws" and pending_upd:
                    committed_with_pending = True
            if last_call.startswith("del "):
                pending_upd.discard(last_call.split(" ")[1])
            if not pending_upd:
                committed_with_pending = False
        elif not l.startswith(("casemap", "#")):
            last_call = l
    fs_full = [l.split("=>", 1)[1].split() for l in full if l.startswith("fsops =>")]
    sig = {"call": crashline.split(" ")[2] if crashline else "?"}
    try:
        j = int(crashline.split(" ")[1].split("=")[1])
        toks = fs_full[done_calls][:j]
        # what the interrupted call had committed (up to its last schema write) counts as stored
        uncommitted = toks
        if "ws" in toks:
            last = len(toks) - 1 - toks[::-1].index("ws")
            for t in toks[:last]:
                if t.startswith("w:"):
                    stored.add(t[2:])
                elif t.startswith("r:"):
                    stored.discard(t[2:])
            uncommitted = toks[last + 1:]
        replaced = [t for t in uncommitted if t.startswith("w:") and t[2:] in stored]
        if replaced:
            sig["window"] = "object-replaced/schema-not-committed"
            sig["objects"] = replaced
        elif committed_with_pending:
            sig["window"] = "async: schema committed while an update is pending"
            sig["objects"] = sorted(pending_upd)
        else:
            sig["window"] = "other"
        sig["done"] = toks
    except Exception as e:          # pragma: no cover
        sig["window"] = "async: schema committed while an update is pending" if committed_with_pending else "unknown"
    return sig


# ---------------------------------------------------------------------------------------
# concurrency (C08, C09)
# ---------------------------------------------------------------------------------------
def race_harness(run):
    if getattr(run, "race_bin", None):
        return run.race_bin
    out = os.path.join(run.scratch, "harness-race")
    r = sh(["go", "build", "-race", "-o", out, "."], cwd=os.path.join(VERIF, "harness"), env=GOENV)
    if r.returncode != 0:
        path = run.write_replay({"kind": "harness-build-failure", "detail": r.stdout[-3000:]})
        run.violations.append(("race harness does not build", r.stdout[-300:], path, False))
        return None
    run.race_bin = out
    return out


def _conc_run(run, scenario, extra, what):
    h = race_harness(run)
    if not h:
        return None
    root = os.path.join(run.scratch, "conc-" + scenario)
    env = dict(os.environ, GORACE="halt_on_error=0 exitcode=66")
    try:
        r = subprocess.run([h, "-conc", scenario, "-seed", str(run.seed), "-root", root] + extra,
                           stdout=subprocess.PIPE, stderr=subprocess.STDOUT, text=True, env=env, timeout=900)
        out, code = r.stdout, r.returncode
    except subprocess.TimeoutExpired as e:
        out, code = (e.stdout or "") + "\nTIMEOUT", -1
    st = run.cov.setdefault("concurrency", {})
    st[scenario] = {"exit": code, "races": out.count("WARNING: DATA RACE"), "stalls": out.count("STALL"),
                    "panics": out.count("PANIC"), "wrong": out.count("WRONG"),
                    "summary": [l for l in out.splitlines() if l.startswith("progress ")]}
    return out, code


def conc_races(run):
    """C08: first access after Open from many goroutines, and a mixed reader/writer/flusher load,
    under the race detector"""
    for scenario, extra in (("first", ["-n", "40" if run.tier == "quick" else "400", "-out", "x"]),
                            ("progress", ["-seconds", "4" if run.tier == "quick" else "30", "-out", "x"])):
        res = _conc_run(run, scenario, extra, "race")
        if res is None:
            return
        out, code = res
        probs = []
        if "WARNING: DATA RACE" in out:
            probs.append("data race reported by the Go race detector")
        if "PANIC" in out or "fatal error" in out:
            probs.append("panic / fatal error under concurrent calls")
        if "WRONG" in out:
            probs.append("wrong result under concurrent calls")
        if code not in (0, 66, 5) and not probs:
            probs.append(f"process exit {code}")
        if probs:
            i = out.find("WARNING: DATA RACE")
            path = run.write_replay({"kind": "concurrency", "scenario": scenario, "problems": probs,
                                     "output": out[max(0, i):][:6000] if i >= 0 else out[-6000:],
                                     "how_to_replay": f"go build -race harness && harness -conc {scenario}"})
            run.violations.append((f"concurrency scenario {scenario}: " + "; ".join(probs), out[-300:], path, True))
        run.cov["evaluations"] = run.cov.get("evaluations", 0) + 1
        run.hashes.add("conc-" + scenario + "-a")
        run.hashes.add("conc-" + scenario + "-b")


def conc_progress(run):
    """C09: every goroutine keeps advancing while enumerating readers, writers and the flusher run"""
    res = _conc_run(run, "progress", ["-seconds", "5" if run.tier == "quick" else "40", "-out", "x"], "progress")
    if res is None:
        return
    out, code = res
    if "STALL" in out or code == 5 or "TIMEOUT" in out:
        stalled = [l for l in out.splitlines() if l.startswith("STALL")]
        path = run.write_replay({"kind": "no-progress", "stalled": stalled, "goroutine_dump": out[-8000:],
                                 "how_to_replay": "harness -conc progress"})
        run.violations.append(("calls stopped making progress (deadlock)", "; ".join(stalled)[:300], path, True))
    run.cov["evaluations"] = run.cov.get("evaluations", 0) + 2
    run.hashes.add("progress-sync")
    run.hashes.add("progress-async")
    run.samples.append(["goroutines: All | AssignAll | Search(unindexed).Collect | Search.And.Or.And.Collect | Count+Get+Exist+AssignIndex | "
                        "InsertOrUpdate | Delete | InsertOrUpdateMany | Search.Delete+Iterator, sync and async(flusher) variants"])


def _linearisations(ops, cap):
    """all total orders respecting real-time order (a before b if a.end < b.start)"""
    n = len(ops)
    before = [[ops[a]["end"] < ops[b]["start"] for b in range(n)] for a in range(n)]
    res = []

    def rec(done, order):
        if len(res) >= cap:
            return
        if len(order) == n:
            res.append(list(order))
            return
        for x in range(n):
            if x in done:
                continue
            if any(before[y][x] and y not in done for y in range(n)):
                continue
            done.add(x); order.append(x)
            rec(done, order)
            done.discard(x); order.pop()
    rec(set(), [])
    return res


def conc_linearizable(run):
    """C08: concurrent histories of the real package must have a linearisation the model accepts"""
    h = race_harness(run)
    if not h:
        return
    n = 60 if run.tier == "quick" else 2000
    out = os.path.join(run.scratch, "lin.json")
    r = sh([h, "-conc", "lin", "-seed", str(run.seed), "-n", str(n), "-root", os.path.join(run.scratch, "lin-db"), "-out", out],
           env=dict(os.environ, GORACE="halt_on_error=0 exitcode=66"), timeout=1800)
    if "STALL" in r.stdout or r.returncode == 5:
        path = run.write_replay({"kind": "no-progress", "scenario": "lin", "output": r.stdout[-6000:]})
        run.violations.append(("concurrent calls did not return (deadlock) while recording histories", r.stdout[-300:], path, True))
    if "WARNING: DATA RACE" in r.stdout:
        path = run.write_replay({"kind": "concurrency", "scenario": "lin", "output": r.stdout[:6000]})
        run.violations.append(("data race while recording concurrent histories", r.stdout[-300:], path, True))
    # calls made of two critical sections: a queued writer + reader between listing and deleting
    rounds = 12 if run.tier == "quick" else 150
    w = sh([h, "-conc", "window", "-seed", str(run.seed), "-n", str(rounds), "-root", os.path.join(run.scratch, "win-db"), "-out", "x"],
           env=dict(os.environ, GORACE="halt_on_error=0 exitcode=66"), timeout=1800)
    run.cov["window_rounds"] = rounds
    if "NOT-LINEARIZABLE" in w.stdout:
        msg = [l for l in w.stdout.splitlines() if "NOT-LINEARIZABLE" in l][0]
        path = run.write_replay({"kind": "not-linearizable", "scenario": "window", "history": msg,
                                 "how_to_replay": "harness(-race, shim copy) -conc window -n 200"})
        run.violations.append(("a concurrent history has no sequential explanation", msg[:300], path, True))
    stats = {"histories": 0, "candidate_orders": 0, "linearizable": 0, "not_linearizable": 0, "truncated": 0, "concurrent_ops": 0}
    if not os.path.exists(out):
        return
    for li, line in enumerate(open(out)):
        hst = json.loads(line)
        ops = hst["ops"]
        stats["histories"] += 1
        stats["concurrent_ops"] += len(ops)
        orders = _linearisations(ops, 3000)
        if len(orders) >= 3000:
            stats["truncated"] += 1
        stats["candidate_orders"] += len(orders)
        lines, spans = [], []
        for od in orders:
            t = hst["prefix"] + [ops[i]["line"] for i in od] + hst["suffix"]
            spans.append((len(lines), len(lines) + len(t)))
            lines += t
        v = model_verdicts(lines)
        ok = any(all(x == "=" for x in v[a:b]) for a, b in spans)
        run.hashes.add("lin-" + hashlib.sha1("|".join(o["line"] for o in ops).encode()).hexdigest())
        if ok:
            stats["linearizable"] += 1
            if len(run.samples) < 2:
                run.samples.append([f"g{o['g']}[{o['start']},{o['end']}] {o['line'][:90]}" for o in ops])
        else:
            stats["not_linearizable"] += 1
            if stats["truncated"] and len(orders) >= 3000:
                continue          # undecided: not all orders were tried
            # best candidate: the one with the fewest disagreements
            best = min(spans, key=lambda s: sum(x != "=" for x in v[s[0]:s[1]]))
            bad = [(lines[i], v[i]) for i in range(*best) if v[i] != "="]
            path = run.write_replay({"kind": "not-linearizable", "property": "C08", "history": hst,
                                     "orders_tried": len(orders), "closest_order_disagreements": bad[:10]})
            if stats["not_linearizable"] <= 3:
                run.violations.append((f"concurrent history {li} has no linearisation accepted by the model "
                                       f"({len(orders)} orders tried)", str(bad[:1])[:300], path, True))
    run.cov["linearizability"] = stats
    run.cov["evaluations"] = run.cov.get("evaluations", 0) + stats["histories"]


def case_tables(run):
    """C16: the laws Props/C16.lean assumes about strings.ToUpper/ToLower, over all code points"""
    r = sh([run.harness, "-casecheck"])
    try:
        res = json.loads(r.stdout.strip().splitlines()[-1])
    except Exception:
        res = {"code_points": 0, "violations": ["could not run: " + r.stdout[-200:]]}
    run.cov["case_laws"] = {"code_points_checked": res["code_points"], "violations": len(res["violations"])}
    if res["violations"]:
        path = run.write_replay({"kind": "case-law-violation", "violations": res["violations"][:50]})
        run.violations.append(("strings.ToUpper/ToLower do not satisfy the laws assumed by the theorems", str(res["violations"][:3]), path, True))


# ---------------------------------------------------------------------------------------
# C12: the same history under two configurations, implementation against implementation
# ---------------------------------------------------------------------------------------
def _flip(ops, rnd):
    """variant of a history: other cache/async/compression/extension/dir-name settings and the
    index flag of every non-unique field inverted"""
    out = json.loads(json.dumps(ops))
    first = True
    flipped = None
    alt_ext = rnd.choice([".obj", ""])      # one alternative extension per history
    for op in out:
        if op["op"] == "open":
            op["lower"] = not op.get("lower", False)
        if op["op"] == "create":
            if first:
                cons = {c["p"]: c["c"] for c in op.get("cons", [])}
                paths = ["A", "B", "F", "G", "S", "Tm", "I8", "U16", "Emb.Y", "Emb.Z", "P.X", "P.W", "P.Q.D"]
                new = []
                for p in paths:
                    c = cons.get(p, "")
                    if "u" in c:
                        new.append({"p": p, "c": c})
                        continue
                    rest = c.replace("i", "")
                    c2 = rest if "i" in c else rest + "i"
                    if c2:
                        new.append({"p": p, "c": c2})
                flipped = new
                first = False
            op["cons"] = flipped
            op["cache"] = not op.get("cache", False)
            op["gz"] = not op.get("gz", False)
            op["ext"] = ".json" if op.get("ext") != ".json" else alt_ext
            if op.get("athr", 0) > 0:
                op["athr"], op["ams"] = 0, 0
            else:
                op["athr"], op["ams"] = 1000, 3600 * 1000
    return out


def _norm_result(call, res):
    op = call.split(" ")[0]
    if op in ("collect", "all"):
        if "] " in res:
            objs, r = res.rsplit("] ", 1)
            if r != "ok":
                # a Collect that fails half way (stale search: an object was deleted since) returns the
                # prefix it had gathered; which prefix depends on the result ORDER, which an index may change
                return "partial | " + r
            return " ".join(sorted(objs.lstrip("[").split())) + " | " + r
    return res


def config_pairs(run):
    h = run.harness
    n = 150 if run.tier == "quick" else 2400
    base = os.path.join(run.scratch, "pairs")
    r = sh([h, "-profile", "pairs", "-seed", str(run.seed), "-n", str(n), "-out", base, "-root", base + ".db"])
    ops = [json.loads(l) for l in open(base + ".ops")]
    rnd = random.Random(run.seed)
    with open(base + "B.in", "w") as fh:
        for o in ops:
            fh.write(json.dumps(_flip(o, rnd)) + "\n")
    r2 = sh([h, "-replay", base + "B.in", "-out", base + "B", "-root", base + "B.db"])
    if r.returncode != 0 or r2.returncode != 0:
        path = run.write_replay({"kind": "harness-crash", "profile": "pairs", "output": (r.stdout + r2.stdout)[-2000:]})
        run.violations.append(("process crash while executing histories", (r.stdout + r2.stdout)[-300:], path, True))
        return

    def split(path):
        hs, cur = [], None
        for l in open(path).read().splitlines():
            if l.startswith("# history"):
                cur = []
                hs.append(cur)
            elif cur is not None and not l.startswith("casemap"):
                cur.append(l)
        return hs
    A, B = split(base + ".trace"), split(base + "B.trace")
    # both variants also have to agree with the model
    for tag, tr in (("A", base + ".trace"), ("B", base + "B.trace")):
        v = model_verdicts(open(tr).read().splitlines())
        bad = [(l, x) for l, x in zip(open(tr).read().splitlines(), v) if x != "="]
        if bad:
            path = run.write_replay({"kind": "correspondence-disagreement", "profile": "pairs" + tag, "first": bad[0]})
            run.violations.append(("model and implementation disagree (pairs " + tag + ")", f"{bad[0][0][:200]} | model: {bad[0][1][:150]}", path, True))
    stats = {"histories": len(A), "lines_compared": 0, "differences": 0}
    skip = ("create", "open", "ls", "disk", "simg", "fsops", "control", "aidx", "reopen", "close")
    for hi, (ta, tb) in enumerate(zip(A, B)):
        ia = [l for l in ta if not l.startswith(skip)]
        ib = [l for l in tb if not l.startswith(skip)]
        diff = None
        if len(ia) != len(ib):
            diff = ("different number of calls executed", str(len(ia)), str(len(ib)))
        else:
            for la, lb in zip(ia, ib):
                ca, ra = la.split(" => ", 1) if " => " in la else (la, "")
                cb, rb = lb.split(" => ", 1) if " => " in lb else (lb, "")
                stats["lines_compared"] += 1
                if ca.split(" ")[0] in ("search", "and", "or", "len") and (ra.endswith("ok") and rb.endswith("ok")):
                    pass
                if _norm_result(ca, ra) != _norm_result(cb, rb):
                    # the length of a failed search is unspecified
                    if ca.split(" ")[0] in ("search", "and", "or", "len") and ra.split(" ")[-1] == rb.split(" ")[-1] and ra.split(" ")[-1] != "ok":
                        continue
                    diff = (ca, ra, rb)
                    break
        run.hashes.add("pair-" + hashlib.sha1("\n".join(ia).encode()).hexdigest())
        if diff:
            stats["differences"] += 1
            if stats["differences"] <= 3:
                path = run.write_replay({"kind": "configuration-dependence", "property": "C12", "call": diff[0],
                                         "result_config_A": diff[1], "result_config_B": diff[2],
                                         "ops_A": ops[hi], "ops_B": _flip(ops[hi], rnd), "trace_A": ta[:400], "trace_B": tb[:400]})
                run.violations.append(("the same history answers differently under two configurations",
                                       f"{diff[0][:150]}: {diff[1][:120]} vs {diff[2][:120]}", path, True))
    run.cov["config_pairs"] = stats
    run.cov["evaluations"] = run.cov.get("evaluations", 0) + len(A)


def alias_check(run):
    """C14: isolation of stored values from caller memory, on random deep object shapes"""
    n = 80 if run.tier == "quick" else 1200
    try:
        r = subprocess.run([run.harness, "-alias", "-n", str(n), "-seed", str(run.seed), "-root", os.path.join(run.scratch, "alias"), "-out", "x"],
                           stdout=subprocess.PIPE, stderr=subprocess.PIPE, text=True, timeout=1200)
        rep = json.loads(r.stdout.strip().splitlines()[-1])
    except Exception as e:
        path = run.write_replay({"kind": "harness-crash", "scenario": "alias", "detail": str(e)[:2000]})
        run.violations.append(("the isolation scenario crashed or hung", str(e)[:300], path, True))
        return
    run.cov["alias"] = {"cases": rep["cases"], "configs": rep["configs"], "references_compared": rep["references_compared"],
                        "failures": len(rep["failures"] or [])}
    run.cov["evaluations"] = run.cov.get("evaluations", 0) + rep["cases"]
    for i in range(rep["cases"]):
        run.hashes.add(f"alias-{run.seed}-{i}")
    run.samples.append([rep["sample"][:600]])
    if rep["failures"]:
        path = run.write_replay({"kind": "aliasing", "property": "C14", "failures": rep["failures"], "seed": run.seed,
                                 "how_to_replay": f"harness -alias -n {n} -seed {run.seed}"})
        run.violations.append(("stored values are not isolated from caller memory", rep["failures"][0][:300], path, True))


# ---------------------------------------------------------------------------------------
# C18: golden corpus written by the pinned release; C19: malformed directories
# ---------------------------------------------------------------------------------------
def golden_corpus(run):
    """every directory of /verif/golden (written by the pinned release e481c06 under each of the
    32 configurations) is copied, opened by the CURRENT code, read back completely, written to,
    restarted and read back again; the model replays the pinned build's own trace followed by
    the new one"""
    gdir = os.path.join(VERIF, "golden")
    ks = sorted(int(f[2:]) for f in os.listdir(gdir) if f.startswith("db"))
    if run.tier == "quick":
        ks = [k for k in ks if (k + run.seed) % 2 == 0]      # 16 of the 32 configurations per quick run
    stats = {"directories": 0, "lines": 0, "disagreements": 0}

    def one(k):
        work = os.path.join(run.scratch, f"golden{k}")
        subprocess.run(["cp", "-r", os.path.join(gdir, f"db{k}"), work])
        out = os.path.join(run.scratch, f"goldenrun{k}")
        r = sh([run.harness, "-golden", "-root", work, "-state-in", os.path.join(gdir, f"state{k}.json"), "-seed", str(run.seed * 100 + k), "-out", out], timeout=300)
        old = [l for l in open(os.path.join(gdir, f"run{k}.trace")).read().splitlines() if not l.startswith("#")]
        new = [l for l in open(out + ".trace").read().splitlines() if not l.startswith("#")] if os.path.exists(out + ".trace") else []
        v = model_verdicts(old + new)
        subprocess.run(["rm", "-rf", work])
        return k, r.returncode, r.stdout[-500:], old, new, v
    with ThreadPoolExecutor(max_workers=8) as ex:
        results = list(ex.map(one, ks))
    for k, code, out, old, new, v in results:
        stats["directories"] += 1
        stats["lines"] += len(new)
        run.hashes.add(f"golden-{k}")
        bad = [(l, x) for l, x in zip(old + new, v) if x != "="]
        if code != 0 or bad or not new:
            stats["disagreements"] += len(bad)
            first = bad[0] if bad else ("process exit %d" % code, out)
            path = run.write_replay({"kind": "golden-corpus", "property": "C18", "directory": f"golden/db{k}", "exit": code,
                                     "first_disagreement": first, "all": bad[:20], "new_trace": new[:400],
                                     "how_to_replay": f"cp -r golden/db{k} W; harness -golden -root W -state-in golden/state{k}.json"})
            if len([x for x in run.violations if "golden" in x[0]]) < 3:
                run.violations.append((f"a directory written by the pinned release (golden/db{k}) is not read back identically",
                                       f"{str(first[0])[:200]} | model: {str(first[1])[:150]}", path, True))
    run.cov["golden"] = stats
    run.cov["evaluations"] = run.cov.get("evaluations", 0) + stats["directories"]
    run.samples.append([f"golden/db{ks[0]} .. golden/db{ks[-1]}: sweep, 8 further writes, close, reopen, sweep"])


def hostile_dirs(run):
    """C19: damaged schema / object files and stray directory entries"""
    args = ["-hostile", "-seed", str(run.seed), "-root", os.path.join(run.scratch, "hostile"), "-out", "x"]
    args += ["-n", "40", "-limit", "220"] if run.tier == "quick" else ["-n", "400"]
    try:
        r = subprocess.run([run.harness] + args, stdout=subprocess.PIPE, stderr=subprocess.PIPE, text=True, timeout=3000)
        rep = json.loads(r.stdout.strip().splitlines()[-1])
        code = r.returncode
    except Exception as e:
        path = run.write_replay({"kind": "harness-crash", "scenario": "hostile", "detail": str(e)[:3000]})
        run.violations.append(("the process crashed or hung on a damaged directory", str(e)[:300], path, True))
        return
    run.cov["hostile"] = {k: rep[k] for k in ("cases", "kinds", "first_access_outcomes", "calls_run")}
    run.cov["evaluations"] = run.cov.get("evaluations", 0) + rep["cases"]
    for i in range(rep["cases"]):
        run.hashes.add(f"hostile-{i}")
    run.samples.append(rep.get("sample_mutations") or ["(none)"])
    if rep["failures"] or code not in (0, 1):
        path = run.write_replay({"kind": "panic-on-malformed-input", "property": "C19", "failures": rep["failures"], "exit": code,
                                 "stderr": r.stderr[-3000:], "how_to_replay": "harness " + " ".join(args)})
        run.violations.append(("a call panicked or hung on a damaged directory", (rep["failures"] or [r.stderr[-300:]])[0][:300], path, True))


def storage_faults(run):
    """C06 (storage part): every single file operation of every history fails once with an I/O
    error; afterwards the handle must be unchanged, or self-consistent, or reported as corrupted
    by Control and restored by Repair; a restart must not see a silent divergence"""
    h = shim_harness(run)
    if not h:
        return
    quick = run.tier == "quick"
    nhist = 16 if quick else 360
    base = os.path.join(run.scratch, "iofault")
    r = sh([h, "-profile", "iofault", "-seed", str(run.seed), "-n", str(nhist), "-out", base, "-root", base + ".db"])
    trace = open(base + ".trace").read().splitlines()
    opslines = open(base + ".ops").read().splitlines()
    hists, cur = [], None
    for l in trace:
        if l.startswith("# history"):
            cur = []
            hists.append(cur)
        elif cur is not None:
            cur.append(l)
    jobs = []
    for hi, lines in enumerate(hists):
        nm = sum(len(l.split("=>", 1)[1].split()) for l in lines if l.startswith("fsops =>"))
        ks = list(range(1, nm + 1))
        if quick and len(ks) > 25:
            ks = sorted(random.Random(run.seed * 31 + hi).sample(ks, 25))
        jobs += [(hi, k) for k in ks]
    stats = {"histories": len(hists), "fault_points": len(jobs), "unchanged": 0, "self_consistent": 0, "reported_and_repaired": 0,
             "known": 0, "violations": 0, "by_call": {}}

    def one(job):
        hi, k = job
        tag = f"{base}-h{hi}-f{k}"
        open(tag + ".in", "w").write(opslines[hi] + "\n")
        r1 = sh([h, "-replay", tag + ".in", "-failat", str(k), "-root", tag + ".db", "-out", tag], timeout=300)
        a = open(tag + ".trace").read().splitlines() if os.path.exists(tag + ".trace") else []
        return job, r1.returncode, r1.stdout[-400:], a
    with ThreadPoolExecutor(max_workers=16) as ex:
        results = list(ex.map(one, jobs))
    reported = 0
    for (hi, k), code, out, a in results:
        run.hashes.add(f"fault-{hi}-{k}")
        idx = next((i for i, l in enumerate(a) if l.startswith("faultsame ")), None)
        if code != 0 or idx is None:
            if code != 0:
                path = run.write_replay({"kind": "harness-crash", "scenario": "iofault", "history_ops": json.loads(opslines[hi]), "fail_at": k, "output": out})
                run.violations.append((f"process crash after an injected I/O error (history {hi}, operation {k})", out[-200:], path, True))
            continue          # the fault point was not reached (history shorter after an earlier rejection)
        call = a[idx].split(" ")[2]
        stats["by_call"][call] = stats["by_call"].get(call, 0) + 1
        # the failing call itself: the line (and its fsops) just before
        callline = next((l for l in reversed(a[:idx]) if not l.startswith("fsops")), "")
        fsline = a[idx - 1] if a[idx - 1].startswith("fsops") else ""
        res = callline.split(" => ")[-1]
        same = a[idx].endswith("true")
        tail = a[idx + 1:]
        ctl = [l.split(" => ")[1] for l in tail if l.startswith("control => ")]
        cons = [l.split(" => ")[1] for l in tail if l.startswith("consistent => ")]
        rep = _result(tail, "repair")
        problems = []
        live_ok = ctl and ctl[0] == "ok" and cons and cons[0] == "true"
        repaired = ctl and ctl[0] != "ok" and rep == "ok" and len(ctl) > 1 and ctl[1] == "ok" and len(cons) > 1 and cons[1] == "true"
        if any(l.endswith("PANIC") for l in a):
            problems.append(("panic", next(l for l in a if l.endswith("PANIC"))[:200]))
        if call == "create" and cons and cons[0] == "E:notfound":
            stats["unchanged"] += 1           # the very first Create failed: no collection exists, nothing to diverge
            continue
        if same and live_ok:
            stats["unchanged"] += 1
        elif live_ok and not res.endswith("ok"):
            # the call answered an error but (part of) it is applied; index and files agree, so
            # nothing diverges, yet the state is not "the same as before": recorded finding
            stats["applied_despite_error"] = stats.get("applied_despite_error", 0) + 1
            kf = known("C06", {"effect": "applied-despite-error", "consistent": True}, {})
            if kf:
                if kf not in run.known:
                    run.known.append(kf)
            else:
                problems.append(("applied-despite-error", f"the failed {call} changed the observable state: {callline[:120]}"))
        elif live_ok:
            stats["self_consistent"] += 1
        elif repaired:
            stats["reported_and_repaired"] += 1
        else:
            problems.append(("silent-divergence" if ctl and ctl[0] == "ok" else "not-repaired",
                             f"after the failed {call}: unchanged={same} control={ctl[:2]} consistent={cons[:2]} repair={rep}"))
        # after a restart
        i2 = next((i for i, l in enumerate(tail) if l.startswith("reopen")), None)
        if i2 is not None:
            first = _result(tail[i2:], "count")
            c2 = [l.split(" => ")[1] for l in tail[i2:] if l.startswith("consistent => ")]
            if first != "E:corrupted" and not (c2 and c2[0] == "true") and first != "E:notfound":
                problems.append(("silent-divergence-after-restart", f"restart answers {first}, consistent={c2[:1]}"))
        if not problems:
            continue
        toks = fsline.split("=>", 1)[1].split() if fsline else []
        sig = {"call": call, "failed_op": next((t for t in toks if t.startswith("FAIL:")), "?"),
               "done_before": [t for t in toks if not t.startswith("FAIL:")]}
        kinds = sorted(set(p[0] for p in problems))
        replay = {"kind": "storage-fault", "property": "C06", "history_ops": json.loads(opslines[hi]), "fail_at_mutation": k,
                  "failing_call": callline, "file_operations_of_the_call": fsline, "signature": sig, "problems": problems,
                  "trace": [l for l in a if not l.startswith("casemap")][-40:], "how_to_replay": "harness-shim -replay <ops> -failat <k>"}
        # the recorded finding: an UPDATE whose object file was replaced when the schema commit failed
        upd = updated_handles(a[:idx])
        stale = stale_handles(tail)
        sig["stale_objects"], sig["updated_objects"] = sorted(stale), sorted(upd)
        if kinds == ["silent-divergence-after-restart"] and stale and stale <= upd:
            kf = known("C06", {"root": "non-atomic-update"}, replay)
            if kf:
                stats["known"] += 1
                if kf not in run.known:
                    run.known.append(kf)
                continue
        stats["violations"] += 1
        reported += 1
        if reported <= 3:
            path = run.write_replay(replay)
            run.violations.append((f"storage fault at file operation {k} of history {hi}: " + ", ".join(kinds), problems[0][1], path, True))
    run.cov["storage_faults"] = stats
    run.cov["evaluations"] = run.cov.get("evaluations", 0) + len(jobs)
