#!/usr/bin/env python3
"""writes MANIFEST.json from tools/props.py (one entry per claimed property)"""
import json, os, sys
sys.path.insert(0, os.path.dirname(os.path.abspath(__file__)))
from props import PROPS
VERIF = os.path.dirname(os.path.dirname(os.path.abspath(__file__)))
allp = [json.loads(l) for l in open(os.path.join(VERIF, "properties.jsonl"))]
checks, na = [], []
for p in allp:
    pid = p["id"]
    cfg = PROPS.get(pid)
    if not cfg or not cfg.get("claimed", True):
        na.append({"property_id": pid, "reason": (cfg or {}).get("na_reason", "machinery for this property is not built yet (see DESIGN.md section 5)")})
        continue
    proof = bool(cfg.get("theorems"))
    checks.append({
        "property_id": pid,
        "quick_cmd": f"./check {pid} --tier quick",
        "thorough_cmd": f"./check {pid} --tier thorough",
        "evidence_file": f"/verif/evidence/{pid}.json",
        "replay_cmd_template": f"./check {pid} --replay {{path}}",
        "engine": "lean4-model+correspondence",
        "level_claimed": {
            "category": "proof" if proof else "exploration",
            "text": cfg.get("level_text") or (
                "Lean 4 theorems about the executable model (all inputs/histories, kernel-checked, axioms audited every run) "
                "tied to the current source by a correspondence check that runs generated histories on the real package and on the compiled model"
                if proof else
                "correspondence (differential) check of the real package against the executable Lean model and property oracles; theorems for this property are not complete yet"),
            "design_ref": "DESIGN.md " + cfg.get("design_ref", "5"),
        },
        "level_note": cfg.get("level_note", "trusted: Lean kernel + listed axioms (propext, Classical.choice, Quot.sound); the Go harness, extractor and orchestrator; "
                              "the model is hand-written: what ties it to the code is differential testing, so behaviour outside the generated histories is not covered"),
        "technique": cfg.get("technique", "Lean 4 proof over a hand-written executable model + per-run correspondence check against /repo"),
    })
m = {
    "version": 1,
    "setup_cmd": "./setup.sh",
    "hooks": {"guard": "verif", "enable": "no hook lives in /repo: checks build a scratch copy of the working tree whose os.*/time.Sleep call sites are rewritten to an observation shim (tools/shimcopy.sh)",
              "baseline_off_cmd": "/verif/tools/repotest.sh", "source_commits": [], "add_only": True},
    "engines": [
        {"name": "lean-model", "path": "lean/", "serves_properties": [c["property_id"] for c in checks], "kind_free_text": "Lean 4 executable model, theorems, compiled trace driver"},
        {"name": "harness", "path": "harness/", "serves_properties": [c["property_id"] for c in checks], "kind_free_text": "Go harness driving the real package, history generators, trace writer"},
        {"name": "extract", "path": "extract/", "serves_properties": ["C08", "C09", "C18"], "kind_free_text": "go/ast+go/types fact extractor regenerating lean/Generated/*.lean"},
    ],
    "checks": checks,
    "not_applicable": na,
    "notes": "see DESIGN.md; known findings in known_findings.json",
}
json.dump(m, open(os.path.join(VERIF, "MANIFEST.json"), "w"), indent=1)
print(len(checks), "checks,", len(na), "not applicable")
