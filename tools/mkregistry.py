#!/usr/bin/env python3
"""lean/Props/theorems.json and lean/Props.lean from the theorem names in lean/Props/C*.lean"""
import json, re, glob, os
os.chdir(os.path.join(os.path.dirname(os.path.dirname(os.path.abspath(__file__))), "lean"))
reg = {}
for f in sorted(glob.glob("Props/C*.lean")):
    pid = f.split("/")[-1][:-5]
    names = re.findall(r"^theorem\s+([A-Za-z0-9_']+)", open(f).read(), flags=re.M)
    reg[pid] = ["Sod.Props." + n for n in names if n.startswith(pid)]
json.dump(reg, open("Props/theorems.json", "w"), indent=1)
open("Props.lean", "w").write("".join(f"import Props.{k}\n" for k in sorted(reg)))
print({k: len(v) for k, v in reg.items()})
