#!/bin/bash
# builds the framework from files on disk only (offline)
set -e
cd "$(dirname "$0")"
export GOFLAGS=-mod=mod GOPROXY=off GOSUMDB=off GOTOOLCHAIN=local
mkdir -p bin evidence
(cd extract && go build -o ../bin/extract .)
(cd /repo && /verif/bin/extract -repo /repo -out /verif/lean/Generated)
(cd harness && go build -o ../bin/harness .)
(cd lean && lake build sodmodel SodModel Proofs Props Props.Witness)
echo setup done
