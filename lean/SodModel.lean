import SodModel.Val
import SodModel.FieldIndex
import SodModel.ObjIndex
import SodModel.DB
import SodModel.Search
import SodModel.Trace
import SodModel.Driver
import SodModel.Lock
