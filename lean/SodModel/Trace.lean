/-
  Trace.lean — the line protocol between the Go harness and the model, canonical
  printing, and the per-operation comparison rules of the correspondence check.

  One line per call:   <op> <args…> => <implementation result>
  The driver runs the model on <op> <args…>, prints `=` when the model's result agrees
  with the implementation's under the operation's comparison rule, `! <model result>`
  otherwise (and `? <reason>` for a line it cannot parse: never a silent default).
-/
import SodModel.Search
namespace Sod

/-! ### lexical helpers -/

def hexVal (c : Char) : Option Nat :=
  if '0' ≤ c ∧ c ≤ '9' then some (c.toNat - '0'.toNat)
  else if 'a' ≤ c ∧ c ≤ 'f' then some (c.toNat - 'a'.toNat + 10)
  else if 'A' ≤ c ∧ c ≤ 'F' then some (c.toNat - 'A'.toNat + 10)
  else none

def unhexList : List Char → Option Bytes
  | [] => some []
  | [_] => none
  | a :: b :: rest => do
    let x ← hexVal a
    let y ← hexVal b
    let r ← unhexList rest
    pure ((x * 16 + y) :: r)

def unhex (s : String) : Option Bytes := unhexList s.toList

def hexDigit (n : Nat) : Char := if n < 10 then Char.ofNat (n + 48) else Char.ofNat (n - 10 + 97)

def hex (b : Bytes) : String :=
  String.ofList (b.flatMap (fun x => [hexDigit (x / 16), hexDigit (x % 16)]))

def bytesToString (b : Bytes) : String := String.ofList (b.map Char.ofNat)

def unhexStr (s : String) : Option String := (unhex s).map bytesToString

/-! ### values, leaves, objects -/

def Val.print : Val → String
  | .i64 v => s!"i{v}"
  | .u64 v => s!"u{v}"
  | .f64 k => s!"f{k}"
  | .str s => "s" ++ hex s

def Leaf.print : Leaf → String
  | .v x => x.print
  | .opaque s => "o" ++ s

def parseLeaf (t : String) : Option Leaf :=
  match t.toList with
  | 'i' :: r => (String.ofList r).toInt?.map (fun v => .v (.i64 v))
  | 'u' :: r => (String.ofList r).toNat?.map (fun v => .v (.u64 v))
  | 'f' :: r => (String.ofList r).toInt?.map (fun v => .v (.f64 v))
  | 's' :: r => (unhexList r).map (fun b => .v (.str b))
  | 'o' :: r => some (.opaque (String.ofList r))
  | _ => none

def Obj.print (o : Obj) : String :=
  s!"{o.uuid}:{o.shape}:" ++ ";".intercalate (o.vals.map Leaf.print)

def parseObj (t : String) : Option Obj :=
  match t.splitOn ":" with
  | [u, sh, vs] => do
    let u ← u.toNat?
    let ls ← (if vs.isEmpty then some [] else (vs.splitOn ";").mapM parseLeaf)
    pure { uuid := u, shape := sh, vals := ls }
  | _ => none

def Err.print : Err → String
  | .notFound => "notfound" | .unique => "unique" | .invalid => "invalid" | .wrongType => "wrongtype"
  | .corrupted => "corrupted" | .structChanged => "structchanged" | .unknownField => "unknownfield"
  | .unknownOp => "unknownop" | .cast => "cast" | .keyType => "keytype" | .pattern => "pattern"
  | .noObject => "noobject" | .extMismatch => "extmismatch" | .descModif => "descmodif"
  | .badSchema => "badschema" | .missingIndex => "missingindex" | .unindexed => "unindexed"
  | .syntax => "syntax" | .unexpectedN => "unexpectedn" | .other => "other"

def printRes (r : Res Unit) : String :=
  match r with
  | .ok () => "ok"
  | .err e => "E:" ++ e.print
  | .panic => "PANIC"

def printErrOpt : Option Err → String
  | none => "ok"
  | some e => "E:" ++ e.print

/-- objects sorted by uuid (canonical form of an unordered result) -/
def sortObjs (os : List Obj) : List Obj :=
  (os.toArray.qsort (fun a b => a.uuid < b.uuid)).toList

def printObjs (os : List Obj) : String := "[" ++ " ".intercalate (os.map Obj.print) ++ "]"

/-! ### descriptors and settings -/

def parseTag (s : String) : Option (Option Tag) :=
  match s with
  | "i64" => some (some .i64) | "u64" => some (some .u64) | "f64" => some (some .f64)
  | "str" => some (some .str) | "-" => some none | _ => none

def parseCons (s : String) : Cons :=
  { index := s.contains 'i', unique := s.contains 'u', upper := s.contains 'U', lower := s.contains 'L' }

def parseDesc (t : String) : Option FieldDesc :=
  match t.splitOn "|" with
  | [p, ty, c, k] => do
    let c ← parseTag c
    pure { path := p, type := ty, cast := c, cons := parseCons k }
  | _ => none

def parseBool (s : String) : Option Bool :=
  match s with
  | "1" | "true" => some true
  | "0" | "false" => some false
  | _ => none

/-- `key=value` arguments -/
def kv (args : List String) (k : String) : Option String :=
  args.findSome? (fun a => if (k ++ "=").isPrefixOf a then some ((a.drop (k.length + 1)).toString) else none)

end Sod
