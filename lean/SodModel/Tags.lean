/-
  Tags.lean — mirror of `fdFromType` (field_desc.go): the constraints a `sod:"…"` struct tag gives.
  Each comma-separated token sets its flag; `unique` implies `index`; unknown tokens are ignored.
-/
import SodModel.ObjIndex
namespace Sod

def Cons.addTag (c : Cons) (tv : String) : Cons :=
  match tv with
  | "index" => { c with index := true }
  | "unique" => { c with index := true, unique := true }
  | "lower" => { c with lower := true }
  | "upper" => { c with upper := true }
  | _ => c

/-- `fdFromType`: fold over the tokens, left to right -/
def Cons.ofTags (tags : List String) : Cons := tags.foldl Cons.addTag {}

def Cons.flags (c : Cons) : String :=
  (if c.index then "i" else "") ++ (if c.unique then "u" else "") ++ (if c.upper then "U" else "") ++ (if c.lower then "L" else "")

end Sod
