/-
  Search.lean — mirror of search.go, `DB.search`, `DB.searchAll`, `Schema.assignIndex`.

  A `Search` value owns its list of (value, oid) entries: it is a snapshot taken when the
  search is evaluated (C20).  Collecting resolves oids to uuids through the *current*
  index and reads the *current* objects.
-/
import SodModel.DB
namespace Sod

def maxUint : Nat := 18446744073709551615

structure Search where
  fields : FIdx := []
  limit : Nat := maxUint
  reverse : Bool := false
  err : Option Err := none
  /-- position of the field whose index order the entries follow (`none`: unordered scan) -/
  orderPos : Option Nat := none
  deriving Repr, Inhabited

def Search.failed (e : Err) : Search := { err := some e, limit := 0 }

/-- can `fieldByName` resolve the path on the live struct? (a leaf, or a struct-valued prefix) -/
def pathResolvable (live : List (String × String)) (p : String) : Bool :=
  live.any (fun q => q.1 == p || (p ++ ".").isPrefixOf q.1)

def descPos? (descs : List FieldDesc) (p : String) : Option (Nat × FieldDesc) :=
  let rec go (ds : List FieldDesc) (i : Nat) : Option (Nat × FieldDesc) :=
    match ds with
    | [] => none
    | d :: rest => if d.path == p then some (i, d) else go rest (i+1)
  go descs 0

/-- `Schema.prepare`: canonicalise the probe of a case-constrained field -/
def Env.prepare (E : Env) (descs : List FieldDesc) (field : String) (probe : Leaf) : Leaf :=
  match descPos? descs field with
  | some (_, d) => if d.cons.transformer then E.canonLeaf d.cons probe else probe
  | none => probe

/-- the scan of `searchAll`: evaluate the operator on each object read -/
def Coll.scan (c : Coll) (l : Loaded) (m : Matcher) (op : Op) (pos : Nat) (probe : Val) :
    List Nat → FIdx → Coll × FIdx × Option Err
  | [], acc => (c, acc, none)
  | u :: us, acc =>
    match c.get u with
    | (c, .ok o) =>
      match l.index.oidOf o.uuid with
      | none => (c, acc, some .corrupted)
      | some oid =>
        match o.field pos with
        | .v x => Coll.scan c l m op pos probe us (if Val.eval m op x probe then acc ++ [(x, oid)] else acc)
        | .opaque _ => (c, acc, some .keyType)
    | (c, .err e) => (c, acc, some e)   -- an object that cannot be read makes the search fail
    | (c, .panic) => (c, acc, some .other)

/-- `DB.search(o, field, operator, value, constrain)` -/
def Coll.search (E : Env) (c : Coll) (field : String) (op : Option Op) (probe : Leaf)
    (constrain : Option FIdx) : Coll × Search :=
  match c.schema with
  | (c, .ok l) =>
    let probe := E.prepare l.descs field probe
    if !pathResolvable c.live field then (c, Search.failed .unknownField) else
    match probe with
    | .opaque _ => (c, Search.failed .keyType)
    | .v pv =>
      match l.index.field? field with
      | some fi =>
        if fi.cast != pv.tag then (c, Search.failed .cast) else
        let idx := match constrain with
                   | some cs => fi.idx.constrain cs
                   | none => fi.idx
        match op with
        | none => (c, Search.failed .unknownOp)
        | some op =>
          let m := match pv with
                   | .str s => E.compile s
                   | _ => none
          match ObjIndex.searchOp m op idx pv with
          | .ok r => (c, { fields := r, orderPos := some fi.pos })
          | .err e => (c, Search.failed e)
          | .panic => (c, Search.failed .other)
      | none =>
        -- searchAll: validate field, probe type, operator and pattern before scanning
        match descPos? l.descs field with
        | none => (c, Search.failed .keyType)      -- resolvable but not a leaf: a structure
        | some (pos, d) =>
          match d.cast with
          | none => (c, Search.failed .keyType)
          | some t =>
            if t != pv.tag then (c, Search.failed .cast) else
            match op with
            | none => (c, Search.failed .unknownOp)
            | some op =>
              let m : Option Matcher := match op, pv with
                       | .re, .str s => E.compile s
                       | _, _ => some (fun _ => false)
              match m with
              | none => (c, Search.failed .pattern)
              | some m =>
                let us := match constrain with
                          | some cs => cs.filterMap (fun e => l.index.uuidOf e.2)   -- deleted objects are left out
                          | none => l.index.uuids
                match Coll.scan c l m op pos pv us [] with
                | (c, r, none) => (c, { fields := r, orderPos := none })
                | (c, _, some e) => (c, Search.failed e)
  | (c, .err e) => (c, Search.failed e)
  | (c, .panic) => (c, Search.failed .other)

/-- `Search.And` -/
def Coll.searchAnd (E : Env) (c : Coll) (s : Search) (field : String) (op : Option Op) (probe : Leaf) : Coll × Search :=
  if s.err.isSome then (c, s) else Coll.search E c field op probe (some s.fields)

/-- `Search.Or`: the new result first, then the old entries whose oid is not in it -/
def Coll.searchOr (E : Env) (c : Coll) (s : Search) (field : String) (op : Option Op) (probe : Leaf) : Coll × Search :=
  if s.err.isSome then (c, s) else
  let (c, n) := Coll.search E c field op probe none
  let extra := s.fields.filter (fun f => !(n.fields.any (fun g => g.2 == f.2)))
  (c, { n with fields := n.fields ++ extra, orderPos := if extra.isEmpty then n.orderPos else none })

/-- uuids of `Search.Iterator` (0 = the empty uuid of an oid that is gone) -/
def Search.uuids (s : Search) (l : Loaded) : List Nat :=
  s.fields.map (fun e => (l.index.uuidOf e.2).getD 0)

/-- the loop of `Search.collect` -/
def Coll.collectLoop (c : Coll) : List Nat → Nat → List Obj → Coll × Nat × List Obj × Option Err
  | [], lim, out => (c, lim, out, none)
  | u :: us, lim, out =>
    match c.get u with
    | (c, .ok o) => if lim > 0 then Coll.collectLoop c us (lim - 1) (out ++ [o]) else (c, lim, out, none)
    | (c, .err e) => (c, lim, out, some e)
    | (c, .panic) => (c, lim, out, some .other)

/-- `Search.Collect` -/
def Coll.collect (c : Coll) (s : Search) : Coll × Search × List Obj × Option Err :=
  match s.err with
  | some e => (c, s, [], some e)
  | none =>
    match c.schema with
    | (c, .ok l) =>
      let us := s.uuids l
      let us := if s.reverse then us.reverse else us
      match Coll.collectLoop c us s.limit [] with
      | (c, lim, out, e) => (c, { s with limit := lim }, out, e)
    | (c, .err e) => (c, s, [], some e)
    | (c, .panic) => (c, s, [], some .other)

/-- `Search.One` -/
def Coll.one (c : Coll) (s : Search) : Coll × Search × Res Obj :=
  match s.err with
  | some e => (c, s, .err e)
  | none =>
    if s.fields.isEmpty then (c, s, .err .noObject) else
    match Coll.collect c { s with limit := 1 } with
    | (c, s, _, some e) => (c, s, .err e)
    | (c, s, o :: _, none) => (c, s, .ok o)
    | (c, s, [], none) => (c, s, .panic)

/-- `Search.Expects` / `Search.ExpectsZeroOrN`: a search that holds another number of results
    becomes a failed search (an earlier error is kept) -/
def Search.expects (s : Search) (zeroOk : Bool) (n : Nat) : Search :=
  match s.err with
  | some _ => s
  | none =>
    let found := s.fields.length
    if found == n || (zeroOk && found == 0) then s else { s with err := some .unexpectedN }

/-- `Search.Delete` -/
def Coll.searchDelete (c : Coll) (s : Search) : Coll × Res Unit :=
  match s.err with
  | some e => (c, .err e)
  | none =>
    match c.schema with
    | (c, .ok l) => c.deleteList (s.uuids l)
    | (c, .err e) => (c, .err e)
    | (c, .panic) => (c, .panic)

/-- `DB.AssignIndex`: the values of a field index, in index order -/
def Coll.assignIndex (c : Coll) (field : String) : Coll × Res (List Val) :=
  match c.schema with
  | (c, .ok l) =>
    match l.index.field? field with
    | some fi => (c, .ok (fi.idx.map (·.1)))
    | none => (c, .err .unindexed)
  | (c, .err e) => (c, .err e)
  | (c, .panic) => (c, .panic)

end Sod
