/-
  CodecTest.lean — build-time regression tests of the JSON reader and of `Codec.checkSchema`
  (`#guard` evaluates; nothing here is a theorem).  The checker is trusted code of the
  correspondence: these tests pin that it accepts a faithful document and rejects each kind of
  difference.
-/
import SodModel.Codec
namespace Sod.CodecTest
open Sod Sod.Json Sod.Codec

def bytes (s : String) : Bytes := s.toUTF8.toList.map (·.toNat)

def img : SchemaImg :=
  { descs := [{ path := "A", type := "int64", cast := some .i64, cons := { index := true, unique := true } },
              { path := "F", type := "float64", cast := some .f64, cons := { index := true } },
              { path := "S", type := "string", cast := some .str, cons := { upper := true } }],
    settings := { ext := ".json", compress := false, cache := true, async := some { threshold := 3, timeout := 3 } },
    index := { next := 3, ids := [(0, 7), (2, 9)],
               fields := [{ name := "A", pos := 0, cast := .i64, cons := { index := true, unique := true },
                            idx := [(.i64 9007199254740993, 0), (.i64 (-5), 2)] },
                          { name := "F", pos := 1, cast := .f64, cons := { index := true },
                            idx := [(.f64 4591870180066957722, 2), (.f64 4591870180066957722, 0)] }] } }

def doc : String :=
  "{\"fields\":{\"A\":{\"path\":\"A\",\"type\":\"int64\",\"constraints\":{\"index\":true,\"unique\":true}}," ++
  "\"F\":{\"path\":\"F\",\"type\":\"float64\",\"constraints\":{\"index\":true}}," ++
  "\"S\":{\"path\":\"S\",\"type\":\"string\",\"constraints\":{\"upper\":true}}}," ++
  "\"extension\":\".json\",\"compress\":false,\"cache\":true," ++
  "\"async-writes\":{\"enable\":true,\"threshold\":3,\"timeout\":\"300ms\"}," ++
  "\"index\":{\"fields\":{\"A\":{\"name\":\"A\",\"cast\":\"int64\",\"constraints\":{\"index\":true,\"unique\":true},\"index\":[[9007199254740993,0],[-5,2]]}," ++
  "\"F\":{\"name\":\"F\",\"cast\":\"float64\",\"constraints\":{\"index\":true},\"index\":[[0.1,0],[0.1,2]]}}," ++
  "\"object-ids\":{\"0\":\"h7\",\"2\":\"h9\"}}}"

def verdict (d : String) : Bool :=
  match parse (bytes d) with
  | some j => (checkSchema img j).toBool
  | none => false

#guard verdict doc
-- the tie between the two equal floats is in the other order in the file: accepted (a set)
#guard verdict (doc.replace "[[0.1,0],[0.1,2]]" "[[0.1,2],[0.1,0]]")
-- object ids are internal names: a consistent renaming is the same index
#guard verdict ((doc.replace "[-5,2]" "[-5,5]").replace "[0.1,2]" "[0.1,5]" |>.replace "\"2\":\"h9\"" "\"5\":\"h9\"")
-- every kind of difference is rejected
#guard !verdict (doc.replace "9007199254740993" "9007199254740992")
#guard !verdict (doc.replace "[[0.1,0],[0.1,2]]" "[[0.10000000000000002,0],[0.1,2]]")
#guard !verdict (doc.replace "\"cast\":\"int64\"" "\"cast\":\"uint64\"")
#guard !verdict (doc.replace "\"timeout\":\"300ms\"" "\"timeout\":\"301ms\"")
#guard !verdict (doc.replace "\"threshold\":3" "\"threshold\":4")
#guard !verdict (doc.replace "\"cache\":true" "\"cache\":false")
#guard !verdict (doc.replace "\"h9\"" "\"h8\"")
#guard !verdict (doc.replace "[-5,2]" "[-5,0]")
#guard !verdict (doc.replace "\"upper\":true" "\"lower\":true")
#guard !verdict (doc.replace "\"compress\":false," "\"compress\":false,\"zzz\":1,")
#guard !verdict (doc.replace "\"object-ids\"" "\"objectids\"")
#guard !verdict (doc.replace ",[-5,2]" "")
#guard !verdict (doc ++ "x")
-- the reader: escapes, surrogate pairs, nesting
#guard (parse (bytes "\"a\\u00e9\\ud83d\\ude00\\n\"")).map (fun j => match j with | .str b => b | _ => []) == some [97, 195, 169, 240, 159, 152, 128, 10]
#guard (parse (bytes "[1, 2,]")).isNone
#guard (parse (bytes "{\"a\":1 \"b\":2}")).isNone
#guard (parse (bytes " [ ] ")).isSome
-- float literals against order keys
#guard (parseDec "5e-324").map (fun d => decIsKey d 1) == some true
#guard (parseDec "1.7976931348623157e+308").map (fun d => decIsKey d 0x7FEFFFFFFFFFFFFF) == some true
#guard (parseDec "-1.5").map (fun d => decIsKey d (-4609434218613702656)) == some true
#guard (parseDec "0.1").map (fun d => decIsKey d 4591870180066957721) == some false
#guard parseDurationNs "1h0m0s" == some 3600000000000

end Sod.CodecTest
