/-
  Clone.lean — mirror of `cloneValue` / `CloneObject` (object.go) on tagged value trees (C14).

  A Go value is a tree; the nodes that are REFERENCES (pointers, slices, maps) carry an identity
  tag: two values alias each other iff they contain a reference node with the same tag.
  Mutating memory through a reference is `mutate t f`: it rewrites what every node tagged `t`
  points to.  `clone` mirrors `cloneValue` kind by kind:
    pointer, slice, map   re-allocated (fresh tag), contents cloned recursively
    struct                exported fields cloned recursively, UNEXPORTED fields copied as they
                          are (the documented exception: they keep sharing)
    array                 elements cloned recursively (`fix: deep clone arrays`)
    nil reference         stays nil
    anything else         copied
-/
namespace Sod.Clone

inductive V
  | prim (n : Int)                              -- numbers, strings, bools, time …
  | nil                                         -- nil pointer / slice / map
  | ptr (tag : Nat) (v : V)
  | slice (tag : Nat) (vs : List V)
  | map (tag : Nat) (kvs : List (Int × V))
  | struct (fields : List (Bool × V))           -- (exported?, value)
  | arr (vs : List V)
  deriving Repr, Inhabited

mutual
/-- `clone n v = (v', n')`: the copy and the next unused tag (fresh tags are n, n+1, …) -/
def clone (n : Nat) : V → V × Nat
  | .prim x => (.prim x, n)
  | .nil => (.nil, n)
  | .ptr _ v => let (v', n') := clone (n + 1) v; (.ptr n v', n')
  | .slice _ vs => let (vs', n') := cloneList (n + 1) vs; (.slice n vs', n')
  | .map _ kvs => let (kvs', n') := cloneKVs (n + 1) kvs; (.map n kvs', n')
  | .struct fs => let (fs', n') := cloneFields n fs; (.struct fs', n')
  | .arr vs => let (vs', n') := cloneList n vs; (.arr vs', n')
def cloneList (n : Nat) : List V → List V × Nat
  | [] => ([], n)
  | v :: vs => let (v', n1) := clone n v; let (vs', n2) := cloneList n1 vs; (v' :: vs', n2)
def cloneKVs (n : Nat) : List (Int × V) → List (Int × V) × Nat
  | [] => ([], n)
  | (k, v) :: kvs => let (v', n1) := clone n v; let (kvs', n2) := cloneKVs n1 kvs; ((k, v') :: kvs', n2)
def cloneFields (n : Nat) : List (Bool × V) → List (Bool × V) × Nat
  | [] => ([], n)
  | (true, v) :: fs => let (v', n1) := clone n v; let (fs', n2) := cloneFields n1 fs; ((true, v') :: fs', n2)
  | (false, v) :: fs => let (fs', n2) := cloneFields n fs; ((false, v) :: fs', n2)
end

mutual
/-- forget identities: what `reflect.DeepEqual` / a JSON round trip sees -/
def strip : V → V
  | .prim x => .prim x
  | .nil => .nil
  | .ptr _ v => .ptr 0 (strip v)
  | .slice _ vs => .slice 0 (stripList vs)
  | .map _ kvs => .map 0 (stripKVs kvs)
  | .struct fs => .struct (stripFields fs)
  | .arr vs => .arr (stripList vs)
def stripList : List V → List V
  | [] => []
  | v :: vs => strip v :: stripList vs
def stripKVs : List (Int × V) → List (Int × V)
  | [] => []
  | (k, v) :: kvs => (k, strip v) :: stripKVs kvs
def stripFields : List (Bool × V) → List (Bool × V)
  | [] => []
  | (e, v) :: fs => (e, strip v) :: stripFields fs
end

mutual
/-- the tags reachable through EXPORTED fields only -/
def tagsExp : V → List Nat
  | .prim _ => []
  | .nil => []
  | .ptr t v => t :: tagsExp v
  | .slice t vs => t :: tagsExpList vs
  | .map t kvs => t :: tagsExpKVs kvs
  | .struct fs => tagsExpFields fs
  | .arr vs => tagsExpList vs
def tagsExpList : List V → List Nat
  | [] => []
  | v :: vs => tagsExp v ++ tagsExpList vs
def tagsExpKVs : List (Int × V) → List Nat
  | [] => []
  | (_, v) :: kvs => tagsExp v ++ tagsExpKVs kvs
def tagsExpFields : List (Bool × V) → List Nat
  | [] => []
  | (true, v) :: fs => tagsExp v ++ tagsExpFields fs
  | (false, _) :: fs => tagsExpFields fs
end

mutual
/-- every tag, unexported fields included -/
def tagsAll : V → List Nat
  | .prim _ => []
  | .nil => []
  | .ptr t v => t :: tagsAll v
  | .slice t vs => t :: tagsAllList vs
  | .map t kvs => t :: tagsAllKVs kvs
  | .struct fs => tagsAllFields fs
  | .arr vs => tagsAllList vs
def tagsAllList : List V → List Nat
  | [] => []
  | v :: vs => tagsAll v ++ tagsAllList vs
def tagsAllKVs : List (Int × V) → List Nat
  | [] => []
  | (_, v) :: kvs => tagsAll v ++ tagsAllKVs kvs
def tagsAllFields : List (Bool × V) → List Nat
  | [] => []
  | (_, v) :: fs => tagsAll v ++ tagsAllFields fs
end

mutual
/-- a write through the reference tagged `t`: the content of every node tagged `t` becomes `w`
    (for a pointer: the pointee; for a slice / map: its elements are replaced by `[w]`) -/
def mutate (t : Nat) (w : V) : V → V
  | .prim x => .prim x
  | .nil => .nil
  | .ptr t' v => if t' = t then .ptr t' w else .ptr t' (mutate t w v)
  | .slice t' vs => if t' = t then .slice t' [w] else .slice t' (mutateList t w vs)
  | .map t' kvs => if t' = t then .map t' [(0, w)] else .map t' (mutateKVs t w kvs)
  | .struct fs => .struct (mutateFields t w fs)
  | .arr vs => .arr (mutateList t w vs)
def mutateList (t : Nat) (w : V) : List V → List V
  | [] => []
  | v :: vs => mutate t w v :: mutateList t w vs
def mutateKVs (t : Nat) (w : V) : List (Int × V) → List (Int × V)
  | [] => []
  | (k, v) :: kvs => (k, mutate t w v) :: mutateKVs t w kvs
def mutateFields (t : Nat) (w : V) : List (Bool × V) → List (Bool × V)
  | [] => []
  | (e, v) :: fs => (e, mutate t w v) :: mutateFields t w fs
end

/-- the object cache: `put` stores a clone, `get` hands out a clone (objectMap.put / get) -/
structure Store where
  objs : List (Nat × V) := []
  next : Nat                                   -- next unused tag in the whole program

def Store.put (s : Store) (key : Nat) (v : V) : Store :=
  let (v', n') := clone s.next v
  { objs := (s.objs.filter (fun p => p.1 != key)) ++ [(key, v')], next := n' }

def Store.get (s : Store) (key : Nat) : Option V × Store :=
  match s.objs.find? (fun p => p.1 == key) with
  | some (_, v) => let (v', n') := clone s.next v; (some v', { s with next := n' })
  | none => (none, s)

/-- a caller write reaches the store only through tags the store holds -/
def Store.mutate (s : Store) (t : Nat) (w : V) : Store :=
  { s with objs := s.objs.map (fun p => (p.1, Sod.Clone.mutate t w p.2)) }

end Sod.Clone
