/-
  ObjIndex.lean — objects, field descriptors, and the mirror of object_index.go.

  An object of the model is its uuid (a handle number; 0 = "not yet identified"),
  an opaque `shape` token (nil-ness of pointers and whatever else the harness wants
  compared on read-back but the database never looks at) and the list of its leaf
  field values in descriptor order, already *resolved* the way `fieldByName`
  resolves them (a leaf behind a nil pointer reads as the zero value).
-/
import SodModel.FieldIndex
namespace Sod

structure Cons where
  index : Bool := false
  unique : Bool := false
  upper : Bool := false
  lower : Bool := false
  deriving DecidableEq, Repr, Inhabited

def Cons.indexed (c : Cons) : Bool := c.index || c.unique
def Cons.transformer (c : Cons) : Bool := c.upper || c.lower

/-- kind of a leaf field: one of the four index casts, or `none` for a field whose Go type
    cannot be indexed or searched (bool, slices, …: `newIndexedField` answers ErrUnknownKeyType) -/
structure FieldDesc where
  path : String
  type : String          -- Go type name as stored in schema.json ("int32", "time.Time", …)
  cast : Option Tag
  cons : Cons
  deriving DecidableEq, Repr, Inhabited

/-- leaf value: a searchable value or an opaque one -/
inductive Leaf
  | v (x : Val)
  | opaque (s : String)
  deriving DecidableEq, Repr, Inhabited

structure Obj where
  uuid : Nat
  shape : String
  vals : List Leaf
  deriving DecidableEq, Repr, Inhabited

def Obj.field (o : Obj) (pos : Nat) : Leaf := o.vals.getD pos (.opaque "?")

/-- one `fieldIndex` of the object index -/
structure FieldIdx where
  name : String
  pos : Nat              -- position of the field among the object's leaves (= `nameSplit` resolution)
  cast : Tag
  cons : Cons
  idx : FIdx
  deriving DecidableEq, Repr, Inhabited

/-- `objIndex`: `ids` is the `ObjectIds` map (oid ↦ uuid); `uuids` is its inverse and is
    recomputed, as the Go code does on load -/
structure ObjIndex where
  next : Nat
  ids : List (Nat × Nat)          -- (oid, uuid), insertion order
  fields : List FieldIdx
  deriving DecidableEq, Repr, Inhabited

/-- error classes observable through `errors.Is` -/
inductive Err
  | notFound | unique | invalid | wrongType | corrupted | structChanged | unknownField
  | unknownOp | cast | keyType | pattern | noObject | extMismatch | descModif | badSchema
  | missingIndex | unindexed | syntax | unexpectedN | other
  deriving DecidableEq, Repr, Inhabited

/-- outcome of a Go call: value, error class, or a panic -/
inductive Res (α : Type)
  | ok (a : α)
  | err (e : Err)
  | panic
  deriving Repr, DecidableEq

instance : Monad Res where
  pure := .ok
  bind x f := match x with
    | .ok a => f a
    | .err e => .err e
    | .panic => .panic

namespace ObjIndex

/-- `newIndex(fields)`: one empty field index per indexed/unique descriptor -/
def new (descs : List FieldDesc) : ObjIndex :=
  let rec go (ds : List FieldDesc) (pos : Nat) : List FieldIdx :=
    match ds with
    | [] => []
    | d :: rest =>
      match d.cast, d.cons.indexed with
      | some t, true => { name := d.path, pos := pos, cast := t, cons := d.cons, idx := [] } :: go rest (pos+1)
      | _, _ => go rest (pos+1)
  { next := 0, ids := [], fields := go descs 0 }

def oidOf (ix : ObjIndex) (uuid : Nat) : Option Nat :=
  (ix.ids.find? (fun p => p.2 == uuid)).map (·.1)

def uuidOf (ix : ObjIndex) (oid : Nat) : Option Nat :=
  (ix.ids.find? (fun p => p.1 == oid)).map (·.2)

def uuids (ix : ObjIndex) : List Nat := ix.ids.map (·.2)

def len (ix : ObjIndex) : Nat := ix.ids.length

/-- value of the indexed field of an object, as `searchField(fieldByName(o))` gives it -/
def fieldVal (fi : FieldIdx) (o : Obj) : Res Val :=
  match o.field fi.pos with
  | .v x => .ok x
  | .opaque _ => .err .keyType

/-- `satisfyAll` -/
def satisfyAll (ix : ObjIndex) (o : Obj) : Res Unit :=
  let known := ix.oidOf o.uuid
  let rec go : List FieldIdx → Res Unit
    | [] => .ok ()
    | fi :: rest =>
      match fieldVal fi o with
      | .ok v =>
        if fi.cons.unique && !(fi.idx.satisfyUnique known v) then .err .unique else go rest
      | .err e => .err e
      | .panic => .panic
  go ix.fields

/-- update every field index for a known object (`fi.Update(v, oid)`) -/
def updateFields (o : Obj) (oid : Nat) : List FieldIdx → Res (List FieldIdx)
  | [] => .ok []
  | fi :: rest =>
    match fieldVal fi o with
    | .ok v => do
      let rest' ← updateFields o oid rest
      pure ({ fi with idx := fi.idx.update v oid } :: rest')
    | .err e => .err e
    | .panic => .panic

/-- insert into every field index for a new object (`fi.Insert(v, in.i)`) -/
def insertFields (o : Obj) (oid : Nat) : List FieldIdx → Res (List FieldIdx)
  | [] => .ok []
  | fi :: rest =>
    match fieldVal fi o with
    | .ok v => do
      let rest' ← insertFields o oid rest
      pure ({ fi with idx := fi.idx.insert (v, oid) } :: rest')
    | .err e => .err e
    | .panic => .panic

/-- `objIndex.insertOrUpdate` -/
def insertOrUpdate (ix : ObjIndex) (o : Obj) : Res ObjIndex := do
  satisfyAll ix o
  match ix.oidOf o.uuid with
  | some oid =>
    let fs ← updateFields o oid ix.fields
    pure { ix with fields := fs }
  | none =>
    let fs ← insertFields o ix.next ix.fields
    pure { next := ix.next + 1, ids := ix.ids ++ [(ix.next, o.uuid)], fields := fs }

/-- delete one oid from every field index -/
def deleteFields (oid : Nat) (fs : List FieldIdx) : List FieldIdx :=
  fs.map (fun fi => { fi with idx := fi.idx.delete oid })

/-- `objIndex.deleteByUUID` -/
def deleteByUUID (ix : ObjIndex) (uuid : Nat) : ObjIndex :=
  match ix.oidOf uuid with
  | none => ix
  | some oid => { ix with fields := deleteFields oid ix.fields, ids := ix.ids.filter (fun p => p.1 != oid) }

def field? (ix : ObjIndex) (name : String) : Option FieldIdx :=
  ix.fields.find? (fun f => f.name == name)

/-- operator dispatch of `objIndex.search` on one (possibly constrained) field index -/
def searchOp (m : Option Matcher) (op : Op) (l : FIdx) (v : Val) : Res FIdx :=
  match op with
  | .ne => .ok (searchNe l v)
  | .eq => .ok (searchEq l v)
  | .gt => .ok (searchGt l v)
  | .ge => .ok (searchGe l v)
  | .lt => .ok (searchLt l v)
  | .le => .ok (searchLe l v)
  | .re => match v with
           | .str _ => match m with
                       | some f => .ok (searchRe f l)
                       | none => .err .pattern
           | _ => .ok (match l with
                       | [] => []
                       | (Val.str _, _) :: _ => []   -- would dereference a nil *Regexp; excluded by the cast check
                       | _ => [])

/-- `objIndex.control` -/
def control (ix : ObjIndex) : Bool :=
  ix.fields.all (fun fi => fi.idx.control && fi.idx.length == ix.len)

end ObjIndex
end Sod
