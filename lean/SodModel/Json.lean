/-
  Json.lean — an independent reader of the JSON text sod writes (`schema.json`).
  Bytes in, tree out; strings are kept as UTF-8 byte lists (escapes decoded), numbers as their
  literal text (the reader of a number decides, from the cast recorded next to it, how to read it).
  Nothing here is shared with the Go side: it is the "other tool" of property C18.
-/
import SodModel.Val
namespace Sod.Json

inductive J where
  | null
  | bool (b : Bool)
  | num (lit : String)
  | str (s : Bytes)
  | arr (l : List J)
  | obj (kv : List (Bytes × J))
  deriving Repr, Inhabited

def isWs (b : Nat) : Bool := b == 0x20 || b == 0x0A || b == 0x0D || b == 0x09

def skipWs : List Nat → List Nat
  | b :: r => if isWs b then skipWs r else b :: r
  | [] => []

def hexv (b : Nat) : Option Nat :=
  if 0x30 ≤ b ∧ b ≤ 0x39 then some (b - 0x30)
  else if 0x61 ≤ b ∧ b ≤ 0x66 then some (b - 0x61 + 10)
  else if 0x41 ≤ b ∧ b ≤ 0x46 then some (b - 0x41 + 10)
  else none

def hex4 : List Nat → Option (Nat × List Nat)
  | a :: b :: c :: d :: r => do
    let a ← hexv a; let b ← hexv b; let c ← hexv c; let d ← hexv d
    pure (((a * 16 + b) * 16 + c) * 16 + d, r)
  | _ => none

/-- UTF-8 encoding of a code point -/
def utf8 (c : Nat) : Bytes :=
  if c < 0x80 then [c]
  else if c < 0x800 then [0xC0 + c / 64, 0x80 + c % 64]
  else if c < 0x10000 then [0xE0 + c / 4096, 0x80 + (c / 64) % 64, 0x80 + c % 64]
  else [0xF0 + c / 262144, 0x80 + (c / 4096) % 64, 0x80 + (c / 64) % 64, 0x80 + c % 64]

/-- the body of a string, after the opening quote -/
def strBody : Nat → List Nat → Bytes → Option (Bytes × List Nat)
  | 0, _, _ => none
  | _, [], _ => none
  | fuel + 1, b :: r, acc =>
    if b == 0x22 then some (acc.reverse, r)
    else if b == 0x5C then
      match r with
      | 0x22 :: r => strBody fuel r (0x22 :: acc)
      | 0x5C :: r => strBody fuel r (0x5C :: acc)
      | 0x2F :: r => strBody fuel r (0x2F :: acc)
      | 0x62 :: r => strBody fuel r (0x08 :: acc)
      | 0x66 :: r => strBody fuel r (0x0C :: acc)
      | 0x6E :: r => strBody fuel r (0x0A :: acc)
      | 0x72 :: r => strBody fuel r (0x0D :: acc)
      | 0x74 :: r => strBody fuel r (0x09 :: acc)
      | 0x75 :: r =>
        match hex4 r with
        | some (u, r') =>
          if 0xD800 ≤ u ∧ u < 0xDC00 then
            match r' with
            | 0x5C :: 0x75 :: r'' =>
              match hex4 r'' with
              | some (l, r3) =>
                if 0xDC00 ≤ l ∧ l < 0xE000 then
                  strBody fuel r3 ((utf8 (0x10000 + (u - 0xD800) * 1024 + (l - 0xDC00))).reverse ++ acc)
                else none
              | none => none
            | _ => none
          else strBody fuel r' ((utf8 u).reverse ++ acc)
        | none => none
      | _ => none
    else if b < 0x20 then none
    else strBody fuel r (b :: acc)

def isNumByte (b : Nat) : Bool :=
  (0x30 ≤ b && b ≤ 0x39) || b == 0x2D || b == 0x2B || b == 0x2E || b == 0x65 || b == 0x45

def lit (w : String) (s : List Nat) : Option (List Nat) :=
  let wb := w.toUTF8.toList.map (·.toNat)
  if s.take wb.length == wb then some (s.drop wb.length) else none

mutual
  def value : Nat → List Nat → Option (J × List Nat)
    | 0, _ => none
    | fuel + 1, s =>
      match skipWs s with
      | [] => none
      | 0x22 :: r => (strBody (r.length + 1) r []).map (fun (b, r) => (J.str b, r))
      | 0x5B :: r =>
        match skipWs r with
        | 0x5D :: r => some (J.arr [], r)
        | r => (elems fuel r []).map (fun (l, r) => (J.arr l, r))
      | 0x7B :: r =>
        match skipWs r with
        | 0x7D :: r => some (J.obj [], r)
        | r => (members fuel r []).map (fun (l, r) => (J.obj l, r))
      | b :: r =>
        if b == 0x74 then (lit "true" (b :: r)).map (fun r => (J.bool true, r))
        else if b == 0x66 then (lit "false" (b :: r)).map (fun r => (J.bool false, r))
        else if b == 0x6E then (lit "null" (b :: r)).map (fun r => (J.null, r))
        else if isNumByte b then
          let n := (b :: r).takeWhile isNumByte
          some (J.num (String.ofList (n.map Char.ofNat)), (b :: r).dropWhile isNumByte)
        else none
  def elems : Nat → List Nat → List J → Option (List J × List Nat)
    | 0, _, _ => none
    | fuel + 1, s, acc =>
      match value fuel s with
      | none => none
      | some (v, r) =>
        match skipWs r with
        | 0x2C :: r => elems fuel r (v :: acc)
        | 0x5D :: r => some ((v :: acc).reverse, r)
        | _ => none
  def members : Nat → List Nat → List (Bytes × J) → Option (List (Bytes × J) × List Nat)
    | 0, _, _ => none
    | fuel + 1, s, acc =>
      match skipWs s with
      | 0x22 :: r =>
        match strBody (r.length + 1) r [] with
        | none => none
        | some (k, r) =>
          match skipWs r with
          | 0x3A :: r =>
            match value fuel r with
            | none => none
            | some (v, r) =>
              match skipWs r with
              | 0x2C :: r => members fuel r ((k, v) :: acc)
              | 0x7D :: r => some (((k, v) :: acc).reverse, r)
              | _ => none
          | _ => none
      | _ => none
end

/-- a whole document: one value, nothing but white space after it -/
def parse (s : Bytes) : Option J :=
  match value (2 * s.length + 2) s with
  | some (v, r) => if (skipWs r).isEmpty then some v else none
  | none => none

def J.get? (j : J) (k : String) : Option J :=
  match j with
  | .obj kv => (kv.find? (fun p => p.1 == k.toUTF8.toList.map (·.toNat))).map (·.2)
  | _ => none

def J.keys (j : J) : List Bytes :=
  match j with
  | .obj kv => kv.map (·.1)
  | _ => []

end Sod.Json
