/-
  FieldIndex.lean — mirror of field_index.go.

  A field index is the slice `Index []*indexedField`, kept in DESCENDING order of
  value ("by convention the smallest value is at the end").  An entry is
  (value, object id).  Loops of the Go code are structural recursions here and the
  `int` cursors that run down to -1 are shifted by one so that they live in `Nat`;
  apart from that the definitions follow the Go text line by line (same special
  cases, same pivot, same slice bounds).  `Proofs/FieldIndex*.lean` shows that on a
  descending list every search is the corresponding `filter`.
-/
import SodModel.Val
namespace Sod

abbrev Entry := Val × Nat
abbrev FIdx := List Entry

def Entry.dflt : Entry := (Val.i64 0, 0)

/-- `in.Index[i]` (total: the default is never read inside bounds) -/
@[inline] def FIdx.at (l : FIdx) (i : Nat) : Val := (l.getD i Entry.dflt).1

/-- mirror of `fieldIndex.insertionIndexRec` -/
def insRec (l : FIdx) (k : Val) (i j : Nat) : Nat :=
  if l.length = 0 then 0
  else if l.length = 1 then (if Val.lt (l.at 0) k then 0 else 1)
  else if j - i = 1 then (if Val.lt (l.at i) k then i else j)
  else if j ≤ i then i   -- not reachable from `insertionIndex` (Go would recurse forever)
  else
    let pivot := (j + 1 - i) / 2 + i
    if Val.lt (l.at pivot) k then insRec l k i pivot else insRec l k pivot j
termination_by j - i
decreasing_by all_goals omega

/-- `InsertionIndex`: first position whose element is less than `k` -/
def insertionIndex (l : FIdx) (k : Val) : Nat := insRec l k 0 l.length

/-- backwards scan of `rangeEqual`: lowest `i` such that `l[i..p)` all equal `k` -/
def eqRunBack (l : FIdx) (k : Val) : Nat → Nat
  | 0 => 0
  | p+1 => if Val.eq (l.at p) k then eqRunBack l k p else p+1

/-- `rangeEqual` as a half-open range `[lo, hi)` (Go returns the closed `[i, j]`, `hi = j+1`) -/
def rangeEqual (l : FIdx) (k : Val) : Nat × Nat :=
  let hi := insertionIndex l k
  (eqRunBack l k hi, hi)

def searchEq (l : FIdx) (k : Val) : FIdx :=
  let (lo, hi) := rangeEqual l k
  (l.take hi).drop lo

def searchNe (l : FIdx) (k : Val) : FIdx :=
  let (lo, hi) := rangeEqual l k
  l.take lo ++ l.drop hi

def searchGe (l : FIdx) (k : Val) : FIdx :=
  let i := insertionIndex l k
  if i = 0 then [] else l.take i

/-- the common backwards scan of `SearchGreater`/`SearchLessOrEqual`
    (`for i >= 0 { if Index[i].greater(value) {break}; i-- }`), cursor shifted by one -/
def gtScan (l : FIdx) (k : Val) : Nat → Nat
  | 0 => 0
  | c+1 => if Val.gt (l.at c) k then c+1 else gtScan l k c

def gtStart (l : FIdx) (k : Val) : Nat := min (insertionIndex l k + 1) l.length

def searchGt (l : FIdx) (k : Val) : FIdx := l.take (gtScan l k (gtStart l k))

def searchLt (l : FIdx) (k : Val) : FIdx :=
  let i := insertionIndex l k
  if i + 1 > l.length then [] else l.drop i

def searchLe (l : FIdx) (k : Val) : FIdx := l.drop (gtScan l k (gtStart l k))

/-- `SearchByRegex`: stops at the first non-string entry -/
def searchRe (m : Matcher) : FIdx → FIdx
  | [] => []
  | (Val.str s, o) :: rest => if m s then (Val.str s, o) :: searchRe m rest else searchRe m rest
  | _ :: _ => []

/-- `fieldIndex.insert` -/
def FIdx.insert (l : FIdx) (e : Entry) : FIdx :=
  let i := insertionIndex l e.1
  if i + 1 > l.length then l ++ [e] else l.take i ++ e :: l.drop i

/-- `objectIds[oid]` -/
def FIdx.byOid (l : FIdx) (oid : Nat) : Option Entry := l.find? (fun e => e.2 == oid)

/-- forward scan of `SearchKey` for the entry with the same oid inside `[i, hi)` -/
def keyScan (l : FIdx) (oid : Nat) (hi : Nat) : Nat → Nat → Option Nat
  | _, 0 => none
  | i, fuel+1 => if i < hi then (if (l.getD i Entry.dflt).2 == oid then some i else keyScan l oid hi (i+1) fuel) else none

/-- `SearchKey` (deepEqual = same oid and equal value) -/
def searchKey (l : FIdx) (e : Entry) : Option Nat :=
  let (lo, hi) := rangeEqual l e.1
  keyScan l e.2 hi lo (hi - lo)

/-- `fieldIndex.Delete`: an unknown oid is ignored; when bisection does not find the entry
    (index not ordered) it is looked for linearly -/
def FIdx.delete (l : FIdx) (oid : Nat) : FIdx :=
  match l.byOid oid with
  | none => l
  | some e => match searchKey l e with
    | some i => l.eraseIdx i
    | none => l.erase e

/-- `fieldIndex.Update` -/
def FIdx.update (l : FIdx) (v : Val) (oid : Nat) : FIdx := (l.delete oid).insert (v, oid)

/-- `fieldIndex.Constrain` -/
def FIdx.constrain (l : FIdx) (fields : FIdx) : FIdx :=
  fields.foldl (fun acc fi => match l.byOid fi.2 with
                              | some e => acc.insert e
                              | none => acc) []

/-- `fieldIndex.Control`: consecutive entries are equal or strictly decreasing -/
def FIdx.control : FIdx → Bool
  | [] => true
  | [_] => true
  | a :: b :: rest => (Val.eq a.1 b.1 || Val.lt b.1 a.1) && FIdx.control (b :: rest)

/-- `fieldIndex.Satisfy` for a unique index: `true` = constraint satisfied -/
def FIdx.satisfyUnique (l : FIdx) (known : Option Nat) (v : Val) : Bool :=
  match searchEq l v with
  | [] => true
  | [e] => match known with
           | some oid => e.2 == oid
           | none => false
  | _ => false

end Sod
