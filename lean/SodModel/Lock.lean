/-
  Lock.lean — the reader/writer-lock machine behind C08 and C09.

  Threads are finite lists of lock actions (the lock-relevant projection of an API call or
  of the flusher loop body).  A lock is (class rank, instance); `sync.RWMutex` is modelled
  permissively:
    * a write lock is granted only when nobody holds the lock,
    * a read lock MAY be granted whenever no writer holds it (`PStep`), and is GUARANTEED
      to be granted only when in addition no writer is waiting for it (`GStep`) — Go's
      writer preference lies between the two, so "every PStep-reachable state has a GStep"
      covers every admission policy.
  The lock classes of package sod and their ranks:
      0 DB.l   1 objectStore   2 objectMap   3 DB.sl
-/
namespace Sod.Lock

inductive Mode | R | W
  deriving DecidableEq, Repr, Inhabited

/-- (class rank, instance) -/
abbrev LockId := Nat × Nat

def rank (l : LockId) : Nat := l.1

inductive Act
  | acq (l : LockId) (m : Mode)
  | rel (l : LockId) (m : Mode)
  deriving DecidableEq, Repr, Inhabited

abbrev Held := List (LockId × Mode)

structure Thread where
  todo : List Act
  held : Held := []
  pend : Bool := false        -- announced as a waiting writer for its head action
  deriving Repr, DecidableEq

abbrev State := List Thread

/-- lock discipline of one thread: acquire only above every lock held (so never a lock
    already held, in any mode), release only what is held, finish holding nothing -/
def Disc : Held → List Act → Prop
  | held, [] => held = []
  | held, .acq l m :: rest => (∀ h ∈ held, rank h.1 < rank l) ∧ Disc ((l, m) :: held) rest
  | held, .rel l m :: rest => (l, m) ∈ held ∧ Disc (held.erase (l, m)) rest

/-- decidable version of `Disc` (used on the generated lock programs) -/
def discB : Held → List Act → Bool
  | held, [] => held.isEmpty
  | held, .acq l m :: rest => held.all (fun h => rank h.1 < rank l) && discB ((l, m) :: held) rest
  | held, .rel l m :: rest => held.contains (l, m) && discB (held.erase (l, m)) rest

def holds (t : Thread) (l : LockId) : Prop := ∃ m, (l, m) ∈ t.held
def holdsW (t : Thread) (l : LockId) : Prop := (l, Mode.W) ∈ t.held
def pendingOn (t : Thread) (l : LockId) : Prop := t.pend = true ∧ ∃ rest, t.todo = .acq l .W :: rest

/-- thread invariant: disciplined, and `pend` only while waiting for a write lock -/
structure TOK (t : Thread) : Prop where
  disc : Disc t.held t.todo
  pend : t.pend = true → ∃ l rest, t.todo = .acq l .W :: rest

/-- steps the scheduler is allowed to take (permissive reader admission) -/
inductive PStep : State → State → Prop
  | release (s : State) (i : Nat) (t : Thread) (l : LockId) (m : Mode) (rest : List Act) :
      s[i]? = some t → t.todo = .rel l m :: rest →
      PStep s (s.set i { todo := rest, held := t.held.erase (l, m), pend := false })
  | announce (s : State) (i : Nat) (t : Thread) (l : LockId) (rest : List Act) :
      s[i]? = some t → t.todo = .acq l .W :: rest → t.pend = false →
      PStep s (s.set i { t with pend := true })
  | grantW (s : State) (i : Nat) (t : Thread) (l : LockId) (rest : List Act) :
      s[i]? = some t → t.todo = .acq l .W :: rest →
      (∀ (j : Nat) (u : Thread), j ≠ i → s[j]? = some u → ¬ holds u l) →
      PStep s (s.set i { todo := rest, held := (l, .W) :: t.held, pend := false })
  | grantR (s : State) (i : Nat) (t : Thread) (l : LockId) (rest : List Act) :
      s[i]? = some t → t.todo = .acq l .R :: rest →
      (∀ (j : Nat) (u : Thread), j ≠ i → s[j]? = some u → ¬ holdsW u l) →
      PStep s (s.set i { todo := rest, held := (l, .R) :: t.held, pend := false })

/-- steps that are guaranteed to be enabled (no reader admission while a writer waits) -/
inductive GStep : State → State → Prop
  | release (s : State) (i : Nat) (t : Thread) (l : LockId) (m : Mode) (rest : List Act) :
      s[i]? = some t → t.todo = .rel l m :: rest →
      GStep s (s.set i { todo := rest, held := t.held.erase (l, m), pend := false })
  | announce (s : State) (i : Nat) (t : Thread) (l : LockId) (rest : List Act) :
      s[i]? = some t → t.todo = .acq l .W :: rest → t.pend = false →
      GStep s (s.set i { t with pend := true })
  | grantW (s : State) (i : Nat) (t : Thread) (l : LockId) (rest : List Act) :
      s[i]? = some t → t.todo = .acq l .W :: rest → t.pend = true →
      (∀ (j : Nat) (u : Thread), j ≠ i → s[j]? = some u → ¬ holds u l) →
      GStep s (s.set i { todo := rest, held := (l, .W) :: t.held, pend := false })
  | grantR (s : State) (i : Nat) (t : Thread) (l : LockId) (rest : List Act) :
      s[i]? = some t → t.todo = .acq l .R :: rest →
      (∀ (j : Nat) (u : Thread), j ≠ i → s[j]? = some u → ¬ holdsW u l) →
      (∀ (j : Nat) (u : Thread), s[j]? = some u → ¬ pendingOn u l) →
      GStep s (s.set i { todo := rest, held := (l, .R) :: t.held, pend := false })

/-- states reachable from an initial state by permitted steps -/
inductive Reach (s0 : State) : State → Prop
  | init : Reach s0 s0
  | step (s s' : State) : Reach s0 s → PStep s s' → Reach s0 s'

/-- an initial state: every thread is a disciplined program holding nothing -/
def Initial (s : State) : Prop := ∀ t ∈ s, t.held = [] ∧ t.pend = false ∧ Disc [] t.todo

/-- remaining work of a state (every step decreases it or sets a `pend` flag) -/
def work (s : State) : Nat := (s.map (fun t => 2 * t.todo.length + (if t.pend then 0 else 1))).sum

/-! ### facts extracted from the source (C09) -/

/-- what the extractor reports for one entry point or goroutine: every lock action that can
    occur in it together with the locks held just before, and the locks held when it ends -/
structure EntryFacts where
  name : String
  steps : List (Held × Act)
  finals : List Held
  deriving Repr

/-- one action respects the discipline in the state it is taken in -/
def stepOK : Held × Act → Bool
  | (held, .acq l _) => held.all (fun h => rank h.1 < rank l)
  | (held, .rel l m) => held.contains (l, m)

/-- the locks held after an action -/
def after (held : Held) : Act → Held
  | .acq l m => (l, m) :: held
  | .rel l m => held.erase (l, m)

/-- the (held, action) steps along a path, and the locks held at its end -/
def stepsOf : Held → List Act → List (Held × Act)
  | _, [] => []
  | held, a :: rest => (held, a) :: stepsOf (after held a) rest

def finalOf : Held → List Act → Held
  | held, [] => held
  | held, a :: rest => finalOf (after held a) rest

/-- a path is covered by the facts of an entry: all its steps and its final state were reported -/
def EntryFacts.covers (e : EntryFacts) (p : List Act) : Prop :=
  (∀ st ∈ stepsOf [] p, st ∈ e.steps) ∧ finalOf [] p ∈ e.finals

def EntryFacts.ok (e : EntryFacts) : Bool := e.steps.all stepOK && e.finals.all (fun h => h.isEmpty)

/-! ### data-race facts (C08) -/

/-- a read or write of a shared memory region, with the locks held at that point -/
structure Access where
  entry : Nat
  region : Nat
  write : Bool
  held : List (Nat × Mode)        -- (lock class, mode)
  deriving Repr, DecidableEq

/-- two accesses that may run in different threads are ordered by a common lock,
    held by both, in write mode by at least one of them -/
def protectedPair (a b : Access) : Bool :=
  a.held.any (fun x => b.held.any (fun y => x.1 == y.1 && (x.2 == Mode.W || y.2 == Mode.W)))

def conflicting (a b : Access) : Bool := a.region == b.region && (a.write || b.write)

/-- every conflicting pair of accesses (including an access against another instance of
    itself, in another thread) is protected -/
def covered (as : List Access) : Bool :=
  as.all (fun a => as.all (fun b => !conflicting a b || protectedPair a b))

end Sod.Lock
