/-
  Layout.lean — the naming rules of the on-disk layout (C18), on lists of characters.

    <root>/<pkg.Type or snake_case>/schema.json
    <root>/<…>/<uuid><extension>[.gz]        one per stored object
  Discovery (`uuidsFromDir` / `uuidExt`): the part of a directory entry's name before its
  first dot is taken as a uuid if it has the uuid shape; everything else is ignored.
-/
namespace Sod.Layout

abbrev Name := List Char

/-- `Schema.filenameFromUUID` -/
def fileName (ext : Name) (gz : Bool) (uuid : Name) : Name :=
  uuid ++ ext ++ (if gz then ".gz".toList else [])

/-- `uuidExt`: the part before the first dot (the whole name if there is none) -/
def uuidPart : Name → Name
  | [] => []
  | c :: cs => if c = '.' then [] else c :: uuidPart cs

def isHex (c : Char) : Bool := c.isDigit || ('a' ≤ c && c ≤ 'f') || ('A' ≤ c && c ≤ 'F')

/-- the shape `uuidRegexp` accepts: 8-4-4-4-12 hexadecimal digits, any case -/
def uuidShaped (n : Name) : Bool :=
  n.length == 36 &&
  (List.range 36).all (fun i =>
    let c := n.getD i ' '
    if i == 8 || i == 13 || i == 18 || i == 23 then c == '-' else isHex c)

/-- what discovery makes of a directory entry -/
def discover (name : Name) : Option Name :=
  let u := uuidPart name
  if uuidShaped u then some u else none

/-- `camelToSnake` (utils.go), byte-wise on ASCII -/
def camelToSnake (s : Name) : Name :=
  let rec go (prevLower : Bool) (out : Name) : Name → Name
    | [] => out
    | c :: rest =>
      let nextLower := match rest with
        | n :: _ => 'a' ≤ n && n ≤ 'z'
        | [] => false
      let isDigit := '0' ≤ c && c ≤ '9'
      if ('A' ≤ c && c ≤ 'Z') || isDigit then
        let out := if !out.isEmpty && (nextLower || prevLower) then out ++ ['_'] else out
        let out := if isDigit then out ++ [c] else out ++ [Char.ofNat (c.toNat - 'A'.toNat + 'a'.toNat)]
        go false out rest
      else go true (out ++ [c]) rest
  go false [] s

end Sod.Layout
