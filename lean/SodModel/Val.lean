/-
  Val.lean — the value domain of sod's indexes (mirror of indexed_field.go).

  Go normalises every indexable field value to one of
      int64 | uint64 | float64 | string          (time.Time ↦ UnixNano : int64)
  and compares two values through type assertions.  The model keeps the dynamic
  tag.  Representation choices (see DESIGN.md §3.1):
    * int64/uint64 are unbounded `Int`/`Nat` (range is a generator-side guard),
    * a non-NaN float64 is represented by its *order key* (an `Int` whose order
      is the order of the doubles; +0 and -0 share key 0),
    * a string is its list of bytes; Go compares strings bytewise.
-/
namespace Sod

abbrev Bytes := List Nat

inductive Tag | i64 | u64 | f64 | str
  deriving DecidableEq, Repr, Inhabited

def Tag.ord : Tag → Nat
  | .i64 => 0 | .u64 => 1 | .f64 => 2 | .str => 3

def Tag.name : Tag → String
  | .i64 => "int64" | .u64 => "uint64" | .f64 => "float64" | .str => "string"

inductive Val
  | i64 (v : Int)
  | u64 (v : Nat)
  | f64 (k : Int)
  | str (s : Bytes)
  deriving DecidableEq, Repr, Inhabited

namespace Val

def tag : Val → Tag
  | i64 _ => .i64 | u64 _ => .u64 | f64 _ => .f64 | str _ => .str

/-- zero value of a kind (what Go reads through a nil pointer) -/
def zero : Tag → Val
  | .i64 => i64 0 | .u64 => u64 0 | .f64 => f64 0 | .str => str []

/-- `a.less(b)` of indexed_field.go on equal tags.  On different tags the Go code
    panics (failed type assertion); the model orders by tag so that `lt` is a total
    strict order — `Homog` invariants guarantee the mixed case is never evaluated,
    and `cmpSafe` below is the guard the Go code relies on. -/
def lt : Val → Val → Bool
  | i64 a, i64 b => decide (a < b)
  | u64 a, u64 b => decide (a < b)
  | f64 a, f64 b => decide (a < b)
  | str a, str b => decide (a < b)
  | a, b => decide (a.tag.ord < b.tag.ord)

/-- `a.equal(b)` -/
def eq (a b : Val) : Bool := a == b

/-- `a.greater(b)` = !less && !equal -/
def gt (a b : Val) : Bool := !lt a b && !eq a b

/-- would the Go comparison panic? (tags differ) -/
def cmpSafe (a b : Val) : Bool := a.tag == b.tag

end Val

/-- search operators of `objIndex.search` / `indexedField.evaluate` -/
inductive Op | eq | ne | gt | ge | lt | le | re
  deriving DecidableEq, Repr, Inhabited

def Op.ofString? : String → Option Op
  | "=" => some .eq | "!=" => some .ne | ">" => some .gt | ">=" => some .ge
  | "<" => some .lt | "<=" => some .le | "~=" => some .re | _ => none

def Op.toString : Op → String
  | .eq => "=" | .ne => "!=" | .gt => ">" | .ge => ">=" | .lt => "<" | .le => "<=" | .re => "~="

/-- The regular-expression engine is not modelled: a matcher is an uninterpreted
    predicate supplied with the probe (`none` = pattern does not compile). -/
abbrev Matcher := Bytes → Bool

/-- `f.evaluate(op, other)` for the six comparison operators; `re` takes the matcher. -/
def Val.eval (m : Matcher) (op : Op) (f other : Val) : Bool :=
  match op with
  | .ne => !Val.eq f other
  | .eq => Val.eq f other
  | .gt => Val.gt f other
  | .ge => Val.gt f other || Val.eq f other
  | .lt => Val.lt f other
  | .le => Val.lt f other || Val.eq f other
  | .re => match f with
           | .str s => m s
           | _ => false

end Sod
