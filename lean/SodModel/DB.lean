/-
  DB.lean — one collection of a sod database as a sequential state machine
  (mirror of sod.go / schema.go, as they stand after the `fix:` commits).

  State = (directory, loaded schema, cache, pending async writes).  Every public call of
  the package is a function  `Coll → … → Coll × Res result`; every mutation of the directory
  goes through `Coll.fs`, which also appends to the file-operation log, so the log *is* the
  sequence of directory mutations (C05, C06, C17 are stated over it).
-/
import SodModel.ObjIndex
namespace Sod

/-! ### association lists keyed by uuid -/

abbrev OMap := List (Nat × Obj)

def OMap.get? (m : OMap) (u : Nat) : Option Obj := (m.find? (fun p => p.1 == u)).map (·.2)
def OMap.erase (m : OMap) (u : Nat) : OMap := m.filter (fun p => p.1 != u)
def OMap.put (m : OMap) (o : Obj) : OMap := m.erase o.uuid ++ [(o.uuid, o)]
def OMap.has (m : OMap) (u : Nat) : Bool := m.any (fun p => p.1 == u)
def OMap.keys (m : OMap) : List Nat := m.map (·.1)

/-! ### schema settings, schema image, directory -/

structure Async where
  threshold : Nat
  timeout : Nat          -- in flusher steps of 100 ms (rounded up)
  deriving DecidableEq, Repr, Inhabited

structure Settings where
  ext : String := ".json"
  compress : Bool := false
  cache : Bool := false
  async : Option Async := none
  deriving DecidableEq, Repr, Inhabited

def Settings.mustCache (s : Settings) : Bool := s.cache || s.async.isSome

/-- content of `schema.json` -/
structure SchemaImg where
  descs : List FieldDesc
  settings : Settings
  index : ObjIndex
  deriving DecidableEq, Repr, Inhabited

inductive FsOp
  | mkdir
  | writeObj (o : Obj)          -- create temp, write, rename over <uuid><ext>
  | rmObj (u : Nat)
  | writeSchema (img : SchemaImg)
  | rmSchema
  deriving DecidableEq, Repr

structure Disk where
  dir : Bool := false           -- collection directory exists
  files : OMap := []
  schema : Option SchemaImg := none
  deriving DecidableEq, Repr, Inhabited

def Disk.apply (d : Disk) : FsOp → Disk
  | .mkdir => { d with dir := true }
  | .writeObj o => { d with dir := true, files := d.files.put o }
  | .rmObj u => { d with files := d.files.erase u }
  | .writeSchema img => { d with dir := true, schema := some img }
  | .rmSchema => { d with schema := none }

def Disk.applyAll (d : Disk) (ops : List FsOp) : Disk := ops.foldl Disk.apply d

/-- the schema as cached in the handle (`db.schemas[stype(o)]`) -/
structure Loaded where
  descs : List FieldDesc
  settings : Settings
  index : ObjIndex
  flusher : Bool := false       -- routineStarted
  slept : Nat := 0
  deriving DecidableEq, Repr, Inhabited

def Loaded.img (l : Loaded) : SchemaImg := { descs := l.descs, settings := l.settings, index := l.index }

/-- what a (re)load computes from the stored index: `i` = max oid + 1 -/
def ObjIndex.reload (ix : ObjIndex) : ObjIndex :=
  { ix with next := (ix.ids.foldl (fun m p => max m p.1) 0) + 1 }

structure Coll where
  live : List (String × String)      -- (path, type) of the live Go struct: `FieldDescriptors(object)`
  disk : Disk := {}
  mem : Option Loaded := none
  cache : OMap := []
  pending : OMap := []
  log : List FsOp := []
  deriving Repr, Inhabited

/-- user hooks and library functions the model is parametric in -/
structure Env where
  up : Bytes → Bytes
  lo : Bytes → Bytes
  transform : Obj → Obj
  validate : Obj → Bool
  compile : Bytes → Option Matcher
  serialisable : Obj → Bool

def Coll.fs (c : Coll) (op : FsOp) : Coll :=
  match op, c.disk.dir with
  | .mkdir, true => c            -- `MkdirAll` on an existing directory changes nothing
  | _, _ => { c with disk := c.disk.apply op, log := c.log ++ [op] }

/-! ### case canonicalisation (constraints.go) -/

def Env.canonBytes (E : Env) (c : Cons) (s : Bytes) : Bytes :=
  let s := if c.upper then E.up s else s
  if c.lower then E.lo s else s

def Env.canonLeaf (E : Env) (c : Cons) : Leaf → Leaf
  | .v (.str s) => .v (.str (E.canonBytes c s))
  | x => x

def canonVals (E : Env) : List FieldDesc → List Leaf → List Leaf
  | d :: ds, x :: xs => E.canonLeaf d.cons x :: canonVals E ds xs
  | _, xs => xs

/-- `schema.transform(o)` -/
def Env.canon (E : Env) (descs : List FieldDesc) (o : Obj) : Obj :=
  { o with vals := canonVals E descs o.vals }

/-! ### schema access -/

def descsCompatFields (stored : List FieldDesc) (live : List (String × String)) : Bool :=
  stored.all (fun d => live.any (fun p => p.1 == d.path && p.2 == d.type)) &&
  live.all (fun p => stored.any (fun d => p.1 == d.path && p.2 == d.type))

/-- `Schema.control` on a loaded schema against the directory -/
def controlLoaded (live : List (String × String)) (d : Disk) (l : Loaded) : Res Unit :=
  if !descsCompatFields l.descs live then .err .structChanged
  else if !l.index.control then .err .corrupted
  else if d.files.keys.any (fun u => !(l.index.uuids.contains u)) then .err .corrupted
  else if l.index.uuids.any (fun u => !(d.files.has u)) then .err .corrupted
  else .ok ()

def startFlusher (l : Loaded) : Loaded :=
  if l.settings.async.isSome && !l.flusher then { l with flusher := true, slept := 0 } else l

/-- `db.schema(of)`: cached, or load + control.  A schema whose only problem is index
    corruption is cached *and* the error is returned. -/
def Coll.schema (c : Coll) : Coll × Res Loaded :=
  match c.mem with
  | some l =>
    let l' := startFlusher l
    ({ c with mem := some l' }, .ok l')
  | none =>
    match c.disk.schema with
    | none => (c, .err .notFound)
    | some img =>
      let l : Loaded := { descs := img.descs, settings := img.settings, index := img.index.reload }
      match controlLoaded c.live c.disk l with
      | .ok () => let l' := startFlusher l; ({ c with mem := some l' }, .ok l')
      | .err .corrupted => let l' := startFlusher l; ({ c with mem := some l' }, .err .corrupted)
      | .err e => (c, .err e)
      | .panic => (c, .panic)

def Coll.setMem (c : Coll) (l : Loaded) : Coll := { c with mem := some l }

/-- `db.commit(o)` given the loaded schema -/
def Coll.commit (c : Coll) (l : Loaded) : Coll := (c.fs .mkdir).fs (.writeSchema l.img)

/-! ### reads -/

/-- `db.get(in)` -/
def Coll.get (c : Coll) (u : Nat) : Coll × Res Obj :=
  match c.schema with
  | (c, .ok l) =>
    match (if l.settings.mustCache then c.cache.get? u else none) with
    | some o => (c, .ok o)
    | none =>
      match c.disk.files.get? u with
      | some o => ((if l.settings.mustCache then { c with cache := c.cache.put o } else c), .ok o)
      | none => (c, .err .notFound)
  | (c, .err e) => (c, .err e)
  | (c, .panic) => (c, .panic)

/-- `db.exist(o)` -/
def Coll.exist (c : Coll) (u : Nat) : Coll × Res Bool :=
  match c.schema with
  | (c, .ok l) => (c, .ok ((l.settings.async.isSome && c.pending.has u) || c.disk.files.has u))
  | (c, .err e) => (c, .err e)
  | (c, .panic) => (c, .panic)

/-- `db.Count` -/
def Coll.count (c : Coll) : Coll × Res Nat :=
  match c.schema with
  | (c, .ok l) => (c, .ok l.index.len)
  | (c, .err e) => (c, .err e)
  | (c, .panic) => (c, .panic)

/-- iterate `get` over a list of uuids, stopping at the first error (iterator.next loop);
    returns the objects read so far and the error, if any -/
def Coll.getMany (c : Coll) : List Nat → Coll × List Obj × Option Err
  | [] => (c, [], none)
  | u :: us =>
    match c.get u with
    | (c, .ok o) => let (c, os, e) := Coll.getMany c us; (c, o :: os, e)
    | (c, .err e) => (c, [], some e)
    | (c, .panic) => (c, [], some .other)

/-- `db.All` (order of the result is the Go map order: unspecified) -/
def Coll.all (c : Coll) : Coll × Res (List Obj) × List Obj :=
  match c.schema with
  | (c, .ok l) =>
    match c.getMany l.index.uuids with
    | (c, os, none) => (c, .ok os, os)
    | (c, os, some e) => (c, .err e, os)
  | (c, .err e) => (c, .err e, [])
  | (c, .panic) => (c, .panic, [])

/-! ### writes -/

/-- `db.insertOrUpdate(s, o, commit)`; `o` already carries its uuid.
    Order: serialisable → constraints → (file | pending) → index → cache → commit. -/
def Coll.insertCore (E : Env) (c : Coll) (l : Loaded) (o : Obj) (commit : Bool) : Coll × Res Loaded :=
  if !E.serialisable o then (c, .err .other) else
  match l.index.satisfyAll o with
  | .err e => (c, .err e)
  | .panic => (c, .panic)
  | .ok () =>
    let c := if l.settings.async.isSome then { c with pending := c.pending.put o }
             else (c.fs .mkdir).fs (.writeObj o)
    match l.index.insertOrUpdate o with
    | .err e => (c, .err e)
    | .panic => (c, .panic)
    | .ok ix =>
      let l := { l with index := ix }
      let c := c.setMem l
      let c := if l.settings.mustCache then { c with cache := c.cache.put o } else c
      let c := if !l.settings.async.isSome && commit then c.commit l else c
      (c, .ok l)

/-- `db.initialize(o)`: an object without identifier receives the one drawn by the uuid
    generator (`fresh`); an identified object keeps its own -/
def assignNew (o : Obj) (fresh : Nat) : Obj := if o.uuid == 0 then { o with uuid := fresh } else o

/-- `DB.InsertOrUpdate(o)`: Transform, case transforms, Validate, then (identifier,
    serialisation, constraints, file, index, cache, commit) -/
def Coll.insert (E : Env) (c : Coll) (o : Obj) (fresh : Nat) : Coll × Res Unit :=
  match c.schema with
  | (c, .ok l) =>
    let o := E.canon l.descs (E.transform o)
    if !E.validate o then (c, .err .invalid) else
    match Coll.insertCore E c l (assignNew o fresh) true with
    | (c, .ok _) => (c, .ok ())
    | (c, .err e) => (c, .err e)
    | (c, .panic) => (c, .panic)
  | (c, .err e) => (c, .err e)
  | (c, .panic) => (c, .panic)

/-- validation loop of `InsertOrUpdateMany` (objects already of the right type) -/
def manyValidate (E : Env) (l : Loaded) : ObjIndex → List Obj → Res (List Obj)
  | _, [] => .ok []
  | tmp, o :: os =>
    let o := E.canon l.descs (E.transform o)
    if !E.validate o then .err .invalid else
    if !E.serialisable o then .err .other else
    match tmp.insertOrUpdate o with
    | .err e => .err e
    | .panic => .panic
    | .ok tmp' =>
      match l.index.satisfyAll o with
      | .err e => .err e
      | .panic => .panic
      | .ok () =>
        match manyValidate E l tmp' os with
        | .ok os' => .ok (o :: os')
        | .err e => .err e
        | .panic => .panic

/-- insertion loop of `InsertOrUpdateMany` -/
def Coll.manyInsert (E : Env) (c : Coll) (l : Loaded) : List Obj → Nat → Coll × Loaded × Nat × Option Err
  | [], n => (c, l, n, none)
  | o :: os, n =>
    match Coll.insertCore E c l o false with
    | (c, .ok l') => Coll.manyInsert E c l' os (n+1)
    | (c, .err e) => (c, l, n, some e)
    | (c, .panic) => (c, l, n, some .other)

/-- `DB.InsertOrUpdateMany(objects...)`; `wrong` = some object has another Go type -/
def Coll.many (E : Env) (c : Coll) (os : List Obj) (wrongAt : Option (Nat × Bool) := none) : Coll × Nat × Res Unit :=
  if os.isEmpty then (c, 0, .ok ()) else
  -- the schema is the one of the first object: unknown if that one is of the other type
  if (wrongAt.map (·.1)) == some 0 then (c, 0, .err .notFound) else
  match c.schema with
  | (c, .ok l) =>
    let checked := match wrongAt with
      | none => manyValidate E l (ObjIndex.new l.descs) os
      | some (k, identified) => match manyValidate E l (ObjIndex.new l.descs) (os.take k) with
                  -- an unidentified object is initialised first, which needs its (unknown) schema
                  | .ok _ => if identified then .err .wrongType else .err .notFound
                  | r => r
    match checked with
    | .err e => (c, 0, .err e)
    | .panic => (c, 0, .panic)
    | .ok os' =>
      match Coll.manyInsert E c l os' 0 with
      | (c, l', n, e) =>
        let c := c.commit l'
        (c, n, match e with | none => .ok () | some e => .err e)
  | (c, .err e) => (c, 0, .err e)
  | (c, .panic) => (c, 0, .panic)

/-- split into chunks of `k` (InsertOrUpdateBulk); `k = 0` never fills a chunk -/
def chunks (k : Nat) (os : List Obj) : List (List Obj) :=
  if k = 0 then [os] else
  let rec go (fuel : Nat) (os : List Obj) : List (List Obj) :=
    match fuel with
    | 0 => [os]
    | fuel+1 => if os.length < k then [os] else os.take k :: go fuel (os.drop k)
  go os.length os

/-- `DB.InsertOrUpdateBulk` -/
def Coll.bulk (E : Env) (c : Coll) (os : List Obj) (k : Nat) : Coll × Nat × Res Unit :=
  let rec go (c : Coll) (n : Nat) : List (List Obj) → Coll × Nat × Res Unit
    | [] => (c, n, .ok ())
    | ch :: rest =>
      match Coll.many E c ch with
      | (c, m, .ok ()) => go c (n + m) rest
      | (c, m, r) => (c, n + m, r)
  go c 0 (chunks k os)

/-- private `db.delete(o)` given the loaded schema -/
def Coll.deleteCore (c : Coll) (l : Loaded) (u : Nat) : Coll × Res Loaded :=
  let c := if l.settings.mustCache then { c with cache := c.cache.erase u, pending := c.pending.erase u } else c
  let l := { l with index := l.index.deleteByUUID u }
  let c := c.setMem l
  let c := if c.disk.files.has u then c.fs (.rmObj u) else c
  (c, .ok l)

/-- `DB.Delete(o)` -/
def Coll.delete (c : Coll) (u : Nat) : Coll × Res Unit :=
  match c.schema with
  | (c, .ok l) =>
    match c.deleteCore l u with
    | (c, .ok l) => (c.commit l, .ok ())
    | (c, .err e) => (c.commit l, .err e)
    | (c, .panic) => (c, .panic)
  | (c, .err e) => (c, .err e)
  | (c, .panic) => (c, .panic)

/-- `DB.DeleteObjects(it)` over a fixed list of uuids -/
def Coll.deleteList (c : Coll) (us : List Nat) : Coll × Res Unit :=
  match c.schema with
  | (c, .ok l) =>
    let rec go (c : Coll) (l : Loaded) : List Nat → Coll × Loaded × Res Unit
      | [] => (c, l, .ok ())
      | u :: us =>
        -- `from.next()` reads the object first (fills the cache on success), then `db.delete`
        let c := (c.get u).1
        match c.deleteCore l u with
        | (c, .ok l) => go c l us
        | (c, .err e) => (c, l, .err e)
        | (c, .panic) => (c, l, .panic)
    match go c l us with
    | (c, l, r) => (c.commit l, r)
  | (c, .err e) => (c, .err e)
  | (c, .panic) => (c, .panic)

/-- `DB.DeleteAll(of)` -/
def Coll.deleteAll (c : Coll) : Coll × Res Unit :=
  match c.schema with
  | (c, .ok l) => c.deleteList l.index.uuids
  | (c, .err e) => (c, .err e)
  | (c, .panic) => (c, .panic)

/-! ### flushing, commit, close, the background flusher -/

/-- `db.flushAll(of)`: write every pending object -/
def Coll.flushAll (c : Coll) : Coll :=
  let c := c.pending.foldl (fun c p => (c.fs .mkdir).fs (.writeObj p.2)) c
  { c with pending := [] }

def Coll.flushOne (c : Coll) (u : Nat) : Coll :=
  match c.pending.get? u with
  | some o => { ((c.fs .mkdir).fs (.writeObj o)) with pending := c.pending.erase u }
  | none => c

/-- `DB.FlushAllAndCommit` / flusher body -/
def Coll.flushAllAndCommit (c : Coll) : Coll × Res Unit :=
  let c := c.flushAll
  match c.schema with
  | (c, .ok l) => (c.commit l, .ok ())
  | (c, .err e) => (c, .err e)
  | (c, .panic) => (c, .panic)

def Coll.commitCall (c : Coll) : Coll × Res Unit :=
  match c.schema with
  | (c, .ok l) => (c.commit l, .ok ())
  | (c, .err e) => (c, .err e)
  | (c, .panic) => (c, .panic)

/-- `DB.Close()`: flush everything, commit every cached schema -/
def Coll.close (c : Coll) : Coll × Res Unit :=
  let c := c.flushAll
  match c.mem with
  | some l => (c.commit l, .ok ())
  | none => (c, .ok ())

/-- a new handle on the same directory (the old one is abandoned) -/
def Coll.reopen (c : Coll) : Coll :=
  { c with mem := none, cache := [], pending := [] }

/-- one poll of the flusher goroutine (100 ms step) -/
def Coll.tick (c : Coll) : Coll :=
  match c.mem with
  | some l =>
    if !l.flusher then c else
    match l.settings.async with
    | none => c.setMem { l with slept := 0 }
    | some a =>
      if c.pending.length ≥ a.threshold || l.slept ≥ a.timeout then
        let c := c.flushAll
        (c.commit l).setMem { l with slept := 0 }
      else c.setMem { l with slept := l.slept + 1 }
  | none => c

/-! ### control, repair, create -/

/-- `DB.Control()` -/
def Coll.control (c : Coll) : Res Unit :=
  match c.mem with
  | some l => controlLoaded c.live c.disk l
  | none => .ok ()

/-- re-index the files that are not indexed (first loop of `Repair`) -/
def Coll.repairAdd (c : Coll) (l : Loaded) : List Nat → Coll × Loaded × Res Unit
  | [] => (c, l, .ok ())
  | u :: us =>
    if l.index.uuids.contains u then Coll.repairAdd c l us else
    match c.get u with
    | (c, .ok o) =>
      match l.index.insertOrUpdate o with
      | .ok ix => Coll.repairAdd c { l with index := ix } us
      | .err e => (c, l, .err e)
      | .panic => (c, l, .panic)
    | (c, .err e) => (c, l, .err e)
    | (c, .panic) => (c, l, .panic)

/-- drop index entries whose file is gone (second loop of `Repair`) -/
def repairDrop (d : Disk) (ix : ObjIndex) : List Nat → ObjIndex
  | [] => ix
  | u :: us => if d.files.has u then repairDrop d ix us else repairDrop d (ix.deleteByUUID u) us

/-- `DB.Repair(of)` -/
def Coll.repair (c : Coll) : Coll × Res Unit :=
  match c.schema with
  | (_, .err .corrupted) | (_, .ok _) =>
    let c := (c.schema).1
    match c.mem with
    | none => (c, .err .other)
    | some l =>
      -- an internally inconsistent index is rebuilt from scratch
      let l := if l.index.control then l else { l with index := { (ObjIndex.new l.descs) with next := l.index.next } }
      match Coll.repairAdd c l c.disk.files.keys with
      | (c, l, .ok ()) => (c.setMem { l with index := repairDrop c.disk l.index l.index.uuids }, .ok ())
      | (c, l, .err e) => (c.setMem l, .err e)
      | (c, _, .panic) => (c, .panic)
  | (c, .err e) => (c, .err e)
  | (c, .panic) => (c, .panic)

def descsEqual (a b : List FieldDesc) : Bool :=
  a.all (fun d => b.any (fun e => e.path == d.path)) && b.all (fun d => a.any (fun e => e.path == d.path)) &&
  a.all (fun d => b.all (fun e => e.path != d.path || (e.type == d.type && e.cons == d.cons)))

/-- `Schema.isCompatibleWith` result class -/
def compatErr (stored : Loaded) (ext : String) (descs : List FieldDesc) : Option Err :=
  if stored.settings.ext != ext then some .extMismatch
  else if !(stored.descs.all (fun d => descs.any (fun e => e.path == d.path))) then some .unknownField
  else if !(stored.descs.all (fun d => descs.all (fun e => e.path != d.path || (e.type == d.type && e.cons == d.cons)))) then some .descModif
  else if !(descs.all (fun d => stored.descs.any (fun e => e.path == d.path))) then some .unknownField
  else none

/-- `DB.Create(o, s)` -/
def Coll.create (c : Coll) (descs : List FieldDesc) (st : Settings) : Coll × Res Unit :=
  match c.schema with
  | (c, .ok l) =>
    match compatErr l st.ext descs with
    | some e => (c, .err e)
    | none =>
      -- switching settings: pending writes are flushed and the cache of the type dropped first
      let c := c.flushAll
      let c := { c with cache := [] }
      let l := { l with settings := { l.settings with cache := st.cache, async := st.async } }
      let l := startFlusher l
      let c := c.setMem l
      (c.commit l, .ok ())
  | (c, .err .notFound) =>
    let l : Loaded := { descs := descs, settings := st, index := ObjIndex.new descs }
    let c := c.fs .mkdir
    let c := if c.disk.schema.isNone then c.fs (.writeSchema l.img) else c
    match controlLoaded c.live c.disk l with
    | .ok () => (c.setMem l, .ok ())
    | .err e => (c, .err e)
    | .panic => (c, .panic)
  | (c, .err e) => (c, .err e)
  | (c, .panic) => (c, .panic)

end Sod
