/-
  Codec.lean — reading a real `schema.json` against the model's image of it.

  `checkSchema img j` decides whether the JSON document `j` (parsed by `Json.parse` from the very
  bytes sod wrote) IS the schema image `img` the model holds for the directory: same field
  descriptors, settings, object-id table, and — entry by entry, in order — the same field
  indexes.  Numbers are read from their literal text: integers must be the exact decimal, a
  float literal must be a decimal that rounds (to nearest, ties to even) to the stored double.
  Anything the document holds beyond that (an unknown key) is a difference too.
-/
import SodModel.Json
import SodModel.DB
namespace Sod.Codec
open Sod.Json

def sbytes (s : String) : Bytes := s.toList.map Char.toNat

def sortB (l : List Bytes) : List Bytes :=
  (l.toArray.qsort (fun a b => decide (a < b))).toList

/-! ### decimal literal against a double -/

structure Dec where
  neg : Bool
  mant : Nat
  exp : Int
  deriving Repr

def digitsVal (l : List Char) : Option Nat :=
  if l.isEmpty then none else
  l.foldl (fun acc c => acc.bind (fun a => if c.isDigit then some (a * 10 + (c.toNat - 48)) else none)) (some 0)

/-- `-?digits(.digits)?([eE][+-]?digits)?` -/
def parseDec (s : String) : Option Dec := do
  let cs := s.toList
  let (neg, cs) := match cs with
    | '-' :: r => (true, r)
    | r => (false, r)
  let ip := cs.takeWhile Char.isDigit
  let r := cs.dropWhile Char.isDigit
  let (fp, r) := match r with
    | '.' :: r' => (r'.takeWhile Char.isDigit, r'.dropWhile Char.isDigit)
    | _ => ([], r)
  if ip.isEmpty then none
  let m ← digitsVal (ip ++ fp)
  let e ← (match r with
    | [] => some (0 : Int)
    | c :: r' =>
      if c == 'e' || c == 'E' then
        match r' with
        | '-' :: d => (digitsVal d).map (fun n => -(n : Int))
        | '+' :: d => (digitsVal d).map (fun n => (n : Int))
        | d => (digitsVal d).map (fun n => (n : Int))
      else none)
  pure { neg := neg, mant := m, exp := e - fp.length }

/-- compare `A·2^a` with `m·10^x` -/
def cmpScaled (A : Nat) (a : Int) (m : Nat) (x : Int) : Ordering :=
  let l := A * 2 ^ a.toNat * 10 ^ (-x).toNat
  let r := m * 10 ^ x.toNat * 2 ^ (-a).toNat
  compare l r

/-- does the decimal literal denote (after correct rounding) the double with order key `k`?
    (`k` = the bit pattern for positive doubles, minus the pattern without the sign bit for
    negative ones, 0 for both zeros) -/
def decIsKey (d : Dec) (k : Int) : Bool :=
  if k == 0 then
    -- zero, or a literal so small that it rounds to zero: not produced by Go's encoder
    d.mant == 0
  else
    let bits : Nat := k.natAbs
    let e : Nat := bits / 2 ^ 52
    let m : Nat := bits % 2 ^ 52
    if e ≥ 2047 then false else          -- Inf / NaN have no JSON form
    let (M, E) : Nat × Int := if e == 0 then (m, -1074) else (2 ^ 52 + m, (e : Int) - 1075)
    let even := M % 2 == 0
    -- upper midpoint (2M+1)·2^(E-1); lower midpoint (2M-1)·2^(E-1), or (4M-1)·2^(E-2) just above a power of two
    let up := cmpScaled (2 * M + 1) (E - 1) d.mant d.exp
    let lo := if m == 0 && e > 1 then cmpScaled (4 * M - 1) (E - 2) d.mant d.exp
              else cmpScaled (2 * M - 1) (E - 1) d.mant d.exp
    (d.neg == decide (k < 0)) &&
    (up == .gt || (up == .eq && even)) && (lo == .lt || (lo == .eq && even))

/-! ### Go duration strings -/

def unitNs : List Char → Option (Nat × List Char)
  | 'n' :: 's' :: r => some (1, r)
  | 'u' :: 's' :: r => some (1000, r)
  | 'µ' :: 's' :: r => some (1000, r)
  | 'Â' :: 'µ' :: 's' :: r => some (1000, r)      -- the two UTF-8 bytes of µ read as Latin-1
  | 'm' :: 's' :: r => some (1000000, r)
  | 's' :: r => some (1000000000, r)
  | 'm' :: r => some (60000000000, r)
  | 'h' :: r => some (3600000000000, r)
  | _ => none

def durNs : Nat → List Char → Option Nat
  | 0, _ => none
  | _, [] => some 0
  | fuel + 1, cs => do
    let ip := cs.takeWhile Char.isDigit
    let r := cs.dropWhile Char.isDigit
    let (fp, r) := match r with
      | '.' :: r' => (r'.takeWhile Char.isDigit, r'.dropWhile Char.isDigit)
      | _ => ([], r)
    if ip.isEmpty && fp.isEmpty then none
    let m ← digitsVal (if (ip ++ fp).isEmpty then ['0'] else ip ++ fp)
    let (u, r) ← unitNs r
    let rest ← durNs fuel r
    pure (m * u / 10 ^ fp.length + rest)

def parseDurationNs (s : String) : Option Nat :=
  if s == "0s" then some 0 else durNs (s.length + 1) s.toList

/-! ### the comparison -/

def expect (b : Bool) (msg : String) : Except String Unit := if b then .ok () else .error msg

def getBool (j : J) (k : String) (dflt : Option Bool) : Except String Bool :=
  match j.get? k, dflt with
  | some (.bool b), _ => .ok b
  | none, some d => .ok d
  | _, _ => .error s!"{k}: not a boolean"

def getStr (j : J) (k : String) : Except String Bytes :=
  match j.get? k with
  | some (.str b) => .ok b
  | _ => .error s!"{k}: not a string"

def keysWithin (j : J) (allowed : List String) (what : String) : Except String Unit :=
  match j with
  | .obj kv =>
    match kv.find? (fun p => !(allowed.any (fun a => sbytes a == p.1))) with
    | some p => .error s!"{what}: unexpected key {String.ofList (p.1.map Char.ofNat)}"
    | none =>
      if (kv.map (·.1)).eraseDups.length == kv.length then .ok () else .error s!"{what}: duplicate key"
  | _ => .error s!"{what}: not an object"

def checkCons (j : Option J) (c : Cons) (what : String) : Except String Unit := do
  match j with
  | some j =>
    keysWithin j ["index", "unique", "upper", "lower"] (what ++ ".constraints")
    let i ← getBool j "index" (some false)
    let u ← getBool j "unique" (some false)
    let up ← getBool j "upper" (some false)
    let lo ← getBool j "lower" (some false)
    expect (i == c.index && u == c.unique && up == c.upper && lo == c.lower) s!"{what}: constraints differ"
  | none => .error s!"{what}: no constraints"

def valueIs (j : J) (v : Val) : Bool :=
  match j, v with
  | .num l, .i64 x => l == toString x
  | .num l, .u64 x => l == toString x
  | .num l, .f64 k => match parseDec l with
                      | some d => decIsKey d k
                      | none => false
  | .str b, .str s => b == s
  | _, _ => false

def Val.tag : Val → Tag
  | .i64 _ => .i64 | .u64 _ => .u64 | .f64 _ => .f64 | .str _ => .str

/-- one entry of a field index in the file: `[value, object-id]` -/
def entryOf (j : J) : Option (J × Nat) :=
  match j with
  | .arr [v, .num oid] => oid.toNat?.bind (fun o => if oid == toString o then some (v, o) else none)
  | _ => none

def sortN (l : List Nat) : List Nat := (l.toArray.qsort (· < ·)).toList

/-- entries compared in order; inside a run of EQUAL values the order is the insertion order,
    which is not observable (Repair inserts in directory order): runs are compared as sets.
    Object ids are internal names: both sides are translated to the uuid (handle) they stand for. -/
def checkEntries (name : String) (fileIds modelIds : List (Nat × Nat)) : Nat → Nat → List J → FIdx → Except String Unit
  | 0, _, _, _ => .error "fuel"
  | _, _, [], [] => .ok ()
  | _, i, [], _ :: _ => .error s!"index {name}: {i} entries in the file, more in the model"
  | _, i, _ :: _, [] => .error s!"index {name}: more than {i} entries in the file"
  | fuel + 1, i, js, (x, o) :: es =>
    let run := ((x, o) :: es).takeWhile (fun e => e.1 == x)
    let n := run.length
    let fj := js.take n
    match fj.mapM entryOf with
    | none => .error s!"index {name}: malformed entry near {i}"
    | some fe =>
      if fe.length != n then .error s!"index {name}: entry {i + fe.length} missing in the file"
      else if !(fe.all (fun e => valueIs e.1 x)) then .error s!"index {name}[{i}..]: value differs from {repr x}"
      else
        let fh := fe.map (fun e => (fileIds.find? (fun p => p.1 == e.2)).map (·.2))
        let mh := run.map (fun e => (modelIds.find? (fun p => p.1 == e.2)).map (·.2))
        if fh.any Option.isNone then .error s!"index {name}[{i}..]: object id without a uuid in the file"
        else if sortN (fh.filterMap id) != sortN (mh.filterMap id) || mh.any Option.isNone then
          .error s!"index {name}[{i}..]: objects {fh.filterMap id} in the file, {mh.filterMap id} in the model, for {repr x}"
        else checkEntries name fileIds modelIds fuel (i + n) (js.drop n) (((x, o) :: es).drop n)

def checkFieldIndex (fileIds modelIds : List (Nat × Nat)) (j : J) (fi : FieldIdx) : Except String Unit := do
  keysWithin j ["name", "cast", "constraints", "index"] ("index." ++ fi.name)
  let n ← getStr j "name"
  expect (n == sbytes fi.name) s!"index {fi.name}: name differs"
  let c ← getStr j "cast"
  expect (c == sbytes fi.cast.name) s!"index {fi.name}: cast differs"
  checkCons (j.get? "constraints") fi.cons ("index." ++ fi.name)
  match j.get? "index" with
  | some (.arr l) => checkEntries fi.name fileIds modelIds (fi.idx.length + l.length + 1) 0 l fi.idx
  | _ => .error s!"index {fi.name}: no entry list"

def natOf (b : Bytes) : Option Nat := (String.ofList (b.map Char.ofNat)).toNat?

/-- a handle written by the harness in place of a uuid: `h<N>` -/
def handleOf (b : Bytes) : Option Nat :=
  match b with
  | 0x68 :: r => natOf r
  | _ => none

/-- the object-id table of the file; it must name the same objects as the model's (the ids
    themselves are internal names, compared through what they stand for) -/
def checkIds (j : J) (ids : List (Nat × Nat)) : Except String (List (Nat × Nat)) :=
  match j with
  | .obj kv =>
    let got := kv.filterMap (fun p => match natOf p.1, p.2 with
                                      | some oid, .str h => (handleOf h).map (fun u => (oid, u))
                                      | _, _ => none)
    if got.length != kv.length then .error "object-ids: malformed entry"
    else if (got.map (·.1)).eraseDups.length != got.length || (got.map (·.2)).eraseDups.length != got.length then
      .error "object-ids: an id or a uuid occurs twice"
    else if sortN (got.map (·.2)) != sortN (ids.map (·.2)) then
      .error s!"object-ids: objects {sortN (got.map (·.2))} in the file, {sortN (ids.map (·.2))} in the model"
    else .ok got
  | _ => .error "object-ids: not an object"

def checkAsync (j : Option J) (a : Option Async) : Except String Unit :=
  match j, a with
  | none, none => .ok ()
  | some j, a => do
    keysWithin j ["enable", "threshold", "timeout"] "async-writes"
    let en ← getBool j "enable" none
    match a with
    | none => expect (!en) "async-writes: enabled in the file, off in the model"
    | some a =>
      expect en "async-writes: disabled in the file, on in the model"
      match j.get? "threshold", j.get? "timeout" with
      | some (.num t), some (.str d) =>
        expect (t == toString a.threshold) s!"async-writes: threshold {t}, expected {a.threshold}"
        match parseDurationNs (String.ofList (d.map Char.ofNat)) with
        | some ns => expect ((ns + 99999999) / 100000000 == a.timeout) s!"async-writes: timeout {ns} ns, expected {a.timeout} steps of 100 ms"
        | none => .error "async-writes: timeout is not a duration"
      | _, _ => .error "async-writes: threshold / timeout malformed"
  | none, some _ => .error "async-writes: absent from the file, on in the model"

def checkSchema (img : SchemaImg) (j : J) : Except String Unit := do
  keysWithin j ["fields", "extension", "compress", "cache", "async-writes", "index"] "schema"
  -- field descriptors
  let fj ← (match j.get? "fields" with
    | some f => .ok f
    | none => .error "no fields")
  expect (sortB fj.keys == sortB (img.descs.map (fun d => sbytes d.path))) "fields: set of paths differs"
  for d in img.descs do
    match fj.get? d.path with
    | some e =>
      keysWithin e ["path", "type", "constraints"] ("fields." ++ d.path)
      let p ← getStr e "path"
      let t ← getStr e "type"
      expect (p == sbytes d.path) s!"fields.{d.path}: path differs"
      expect (t == sbytes d.type) s!"fields.{d.path}: type differs"
      checkCons (e.get? "constraints") d.cons ("fields." ++ d.path)
    | none => .error s!"fields: {d.path} missing"
  -- settings
  let ext ← getStr j "extension"
  expect (ext == sbytes img.settings.ext) "extension differs"
  let cp ← getBool j "compress" none
  expect (cp == img.settings.compress) "compress differs"
  let ca ← getBool j "cache" none
  expect (ca == img.settings.cache) "cache differs"
  checkAsync (j.get? "async-writes") img.settings.async
  -- index
  let ij ← (match j.get? "index" with
    | some f => .ok f
    | none => .error "no index")
  keysWithin ij ["fields", "object-ids"] "index"
  let fileIds ← (match ij.get? "object-ids" with
    | some oj => checkIds oj img.index.ids
    | none => .error "index: no object-ids")
  let ifj ← (match ij.get? "fields" with
    | some f => .ok f
    | none => .error "index: no fields")
  expect (sortB ifj.keys == sortB (img.index.fields.map (fun f => sbytes f.name))) "index: set of indexed fields differs"
  for fi in img.index.fields do
    match ifj.get? fi.name with
    | some e => checkFieldIndex fileIds img.index.ids e fi
    | none => .error s!"index: {fi.name} missing"

end Sod.Codec
