/-
  Driver.lean — executes a harness trace on the model and compares line by line.
-/
import SodModel.Trace
import SodModel.Layout
import SodModel.Tags
import SodModel.Codec
namespace Sod

/-! ### the concrete environment of the harness type `T` -/

/-- case mapping on UTF-8 bytes for the harness alphabet: ASCII plus a few two-byte letters.
    Validated against Go's strings.ToUpper/ToLower by the `casemap` lines of every trace. -/
def upBytes : Bytes → Bytes
  | [] => []
  | 0xC3 :: b :: rest =>
    -- U+00E0..U+00FE (except U+00F7) ↦ U+00C0..U+00DE ; U+00FF ↦ U+0178 (C5 B8)
    if b = 0xBF then 0xC5 :: 0xB8 :: upBytes rest
    else if 0xA0 ≤ b ∧ b ≤ 0xBE ∧ b ≠ 0xB7 then 0xC3 :: (b - 0x20) :: upBytes rest
    else 0xC3 :: b :: upBytes rest
  | 0xC5 :: 0xBF :: rest => 0x53 :: upBytes rest          -- ſ (long s) ↦ S
  | 0xC7 :: 0x85 :: rest => 0xC7 :: 0x84 :: upBytes rest  -- ǅ ↦ Ǆ
  | 0xC7 :: 0x86 :: rest => 0xC7 :: 0x84 :: upBytes rest  -- ǆ ↦ Ǆ
  | 0xC4 :: 0xB1 :: rest => 0x49 :: upBytes rest          -- ı (dotless i) ↦ I
  | b :: rest => (if 0x61 ≤ b ∧ b ≤ 0x7A then b - 0x20 else b) :: upBytes rest

def loBytes : Bytes → Bytes
  | [] => []
  | 0xC3 :: b :: rest =>
    if 0x80 ≤ b ∧ b ≤ 0x9E ∧ b ≠ 0x97 then 0xC3 :: (b + 0x20) :: loBytes rest
    else 0xC3 :: b :: loBytes rest
  | 0xC5 :: 0xB8 :: rest => 0xC3 :: 0xBF :: loBytes rest  -- Ÿ ↦ ÿ
  | 0xC7 :: 0x84 :: rest => 0xC7 :: 0x86 :: loBytes rest  -- Ǆ ↦ ǆ
  | 0xC7 :: 0x85 :: rest => 0xC7 :: 0x86 :: loBytes rest  -- ǅ ↦ ǆ
  | 0xC4 :: 0xB0 :: rest => 0x69 :: loBytes rest          -- İ ↦ i  (Go: 'i', without the combining dot)
  | 0xE2 :: 0x84 :: 0xAA :: rest => 0x6B :: loBytes rest  -- Kelvin sign ↦ k
  | b :: rest => (if 0x41 ≤ b ∧ b ≤ 0x5A then b + 0x20 else b) :: loBytes rest

def posOf (live : List (String × String)) (p : String) : Nat :=
  (live.findIdx? (fun q => q.1 == p)).getD 9999

def setLeaf (vals : List Leaf) (i : Nat) (x : Leaf) : List Leaf := vals.set i x

def trimLeftSpaces : Bytes → Bytes
  | 0x20 :: rest => trimLeftSpaces rest
  | b => b

/-- `(*T).Transform`: `if I8 == 7 { A++ }; S = TrimLeft(S, " ")` -/
def hookTransform (live : List (String × String)) (o : Obj) : Obj :=
  let pA := posOf live "A"; let pI := posOf live "I8"; let pS := posOf live "S"
  let vals := match o.field pI, o.field pA with
    | .v (.i64 7), .v (.i64 a) =>
      -- Go's int64 `A++` wraps around
      setLeaf o.vals pA (.v (.i64 (if a + 1 > 9223372036854775807 then -9223372036854775808 else a + 1)))
    | _, _ => o.vals
  let vals := match vals.getD pS (.opaque "?") with
    | .v (.str s) => setLeaf vals pS (.v (.str (trimLeftSpaces s)))
    | _ => vals
  -- `if t.I8 == 2 { t.Emb.Z += "x" }`: a hook that writes a possibly case-constrained field
  let pZ := posOf live "Emb.Z"
  let vals := match o.field pI, vals.getD pZ (.opaque "?") with
    | .v (.i64 2), .v (.str z) => setLeaf vals pZ (.v (.str (z ++ [0x78])))
    | _, _ => vals
  { o with vals := vals }

/-- `(*T).Validate`: rejects `A == 13`, `S == "BAD"`, `P.W == "bad"` -/
def hookValidate (live : List (String × String)) (o : Obj) : Bool :=
  let pA := posOf live "A"; let pS := posOf live "S"; let pW := posOf live "P.W"
  !(o.field pA == .v (.i64 13)) && !(o.field pS == .v (.str [0x42, 0x41, 0x44])) &&
  !(o.field pW == .v (.str [0x62, 0x61, 0x64]))

def isPrefixB : Bytes → Bytes → Bool
  | [], _ => true
  | _ :: _, [] => false
  | a :: as, b :: bs => a == b && isPrefixB as bs

def isInfixB (p : Bytes) : Bytes → Bool
  | [] => p.isEmpty
  | b :: bs => isPrefixB p (b :: bs) || isInfixB p bs

def isLit (b : Nat) : Bool := (0x30 ≤ b && b ≤ 0x39) || (0x41 ≤ b && b ≤ 0x5A) || (0x61 ≤ b && b ≤ 0x7A) || b == 0x20 || b ≥ 0x80

/-- the regular-expression sub-language the generator uses: `lit`, `^lit`, `lit$`, `^lit$`
    over literal bytes; everything else does not compile (the generator only sends `(`-style
    broken patterns outside the sub-language). -/
def compileRx (p : Bytes) : Option Matcher :=
  let (anchL, p1) := match p with
    | 0x5E :: r => (true, r)
    | r => (false, r)
  let (anchR, body) := match p1.reverse with
    | 0x24 :: r => (true, r.reverse)
    | _ => (false, p1)
  if !body.all isLit then none else
  some (fun s =>
    match anchL, anchR with
    | true, true => s == body
    | true, false => isPrefixB body s
    | false, true => isPrefixB body.reverse s.reverse
    | false, false => isInfixB body s)

def isNaNLeaf : Leaf → Bool
  | .opaque "nan" => true
  | _ => false

def mkEnv (live : List (String × String)) (hooks : Bool) : Env :=
  { up := upBytes, lo := loBytes,
    transform := if hooks then hookTransform live else id,
    validate := if hooks then hookValidate live else fun _ => true,
    compile := compileRx,
    serialisable := fun o => !(o.vals.any isNaNLeaf) }

/-! ### driver state -/

structure DState where
  c : Coll := { live := [] }
  hooks : Bool := true
  searches : List (Nat × Search) := []
  /-- searches whose remaining behaviour depends on the unspecified order of an unordered
      result (a member became unreadable): only checked loosely from then on -/
  tainted : List Nat := []
  logMark : Nat := 0
  lower : Bool := false
  savedDescs : Option (List FieldDesc) := none
  /-- objects of which it is not known whether the implementation holds them in its cache: a Collect
      that stopped at an unreadable member of an UNORDERED result read (and cached) the members
      that came before it in an order the model cannot know -/
  cacheUnsure : List Nat := []
  deriving Inhabited

def DState.env (d : DState) : Env := mkEnv d.c.live d.hooks

def DState.getS (d : DState) (i : Nat) : Option Search := (d.searches.find? (fun p => p.1 == i)).map (·.2)
def DState.setS (d : DState) (i : Nat) (s : Search) : DState :=
  { d with searches := (d.searches.filter (fun p => p.1 != i)) ++ [(i, s)] }

/-- a scan over the stored objects (All, a search on an unindexed field) stopped at an object that
    cannot be read: it went through the uuid map in an order the model cannot know, reading — and,
    with the cache on, caching — an unknown part of the other objects -/
def DState.scanFailed (d : DState) (e : Option Err) : DState :=
  match e, d.c.mem with
  | some .notFound, some l | some .syntax, some l | some .other, some l =>
    if l.settings.mustCache then { d with cacheUnsure := l.index.uuids ++ d.cacheUnsure } else d
  | _, _ => d

/-- model reply and verdict for one line: `some txt` = canonical model result to be compared
    textually with the implementation's; verdict overrides when a rule-based comparison is used -/
structure Reply where
  txt : String
  agree : Option Bool := none       -- rule-based verdict (none: compare `txt` textually)

def resOf (r : Res Unit) : Reply := { txt := printRes r }

def parseOp (hexop : String) : Option (Option Op) :=
  (unhexStr hexop).map Op.ofString?

def parseNews (s : String) : Option (List Nat) :=
  if s.isEmpty then some [] else (s.splitOn ",").mapM String.toNat?

def zipNew : List Obj → List Nat → List Obj
  | o :: os, n :: ns => assignNew o n :: zipNew os ns
  | os, _ => os

def parseLive (s : String) : List (String × String) :=
  if s.isEmpty then [] else
  (s.splitOn ",").filterMap (fun t => match t.splitOn "|" with
    | [p, ty] => some (p, ty)
    | _ => none)

def parseSettings (args : List String) : Option Settings := do
  let ext ← (kv args "ext").bind unhexStr
  let compress ← (kv args "compress").bind parseBool
  let cache ← (kv args "cache").bind parseBool
  let a ← kv args "async"
  let async ← (if a == "-" then some none else
    match a.splitOn "," with
    | [t, k] => do
      let t ← t.toNat?
      let k ← k.toNat?
      pure (some ({ threshold := t, timeout := k } : Async))
    | _ => none)
  pure { ext := ext, compress := compress, cache := cache, async := async }

/-- tie-insensitive comparison of an ordered/limited result with the model's -/
def cmpCollect (orderPos : Option Nat) (key : Obj → Option Val) (model full impl : List Obj) : Bool :=
  impl.length == model.length &&
  (match orderPos with
   | some _ => impl.map key == model.map key
   | none => true) &&
  impl.all (fun o => full.contains o) &&
  (impl.map (·.uuid)).eraseDups.length == impl.length &&
  (model.length != full.length || sortObjs impl == sortObjs model)

/-- the key under which an object was CAPTURED by a search (a search is a snapshot: ties are judged
    on the captured keys, not on what the object holds by now) -/
def capturedKey (c : Coll) (s : Search) (o : Obj) : Option Val :=
  match c.schema with
  | (_, .ok l) => (l.index.oidOf o.uuid).bind (fun oid => (s.fields.byOid oid).map (·.1))
  | _ => none

/-- A stale ordered search (some member cannot be read any more): where the first unreadable member
    is met depends on the order INSIDE a run of equal keys, which is not specified (a refinement
    re-inserts the previous results in their order, and that order comes from a map when the
    previous search was a scan).  Returns the smallest and the largest 1-based position at which
    the first unreadable member can be met, and the captured keys of the members in result order. -/
def tieWindow (c : Coll) (s : Search) : Option (Nat × Nat × List Val) :=
  match c.schema with
  | (c, .ok l) =>
    let ms := s.fields.map (fun e => (e.1, (l.index.uuidOf e.2).getD 0))
    let ms := if s.reverse then ms.reverse else ms
    let rd := ms.map (fun m => match c.get m.2 with
                               | (_, .ok _) => true
                               | _ => false)
    match rd.idxOf? false with
    | none => none
    | some i0 =>
      let k := (ms.getD i0 (Val.i64 0, 0)).1
      let before := ((ms.take i0).reverse.takeWhile (fun m => m.1 == k)).length
      let after := ((ms.drop (i0 + 1)).takeWhile (fun m => m.1 == k)).length
      let gs := i0 - before
      let ge := i0 + after
      let u := (((rd.drop gs).take (ge - gs + 1)).filter (· == false)).length
      some (gs + 1, ge + 1 - (u - 1), ms.map (·.1))
  | _ => none

/-- is the implementation's outcome of a limited, ordered Collect one that SOME order inside the
    ties produces?  `n` objects and either success or the error `fe` -/
def altCollectOk (c : Coll) (s : Search) (fe : Option Err) (readable : List Obj) (io : List Obj) (r : String) : Bool :=
  match tieWindow c s, fe with
  | some (pmin, pmax, keys), some e =>
    let n := io.length
    io.all (fun o => readable.contains o) && (io.map (·.uuid)).eraseDups.length == n &&
    io.map (capturedKey c s) == (keys.take n).map some &&
    -- (`Search.Assign` assigns nothing when the search fails: an empty list with the error stands
    --  for any number of objects gathered before it)
    ((r == "E:" ++ e.print && ((pmin ≤ n + 1 && n + 1 ≤ pmax && n ≤ s.limit) || (n == 0 && pmin ≤ s.limit + 1))) ||
     (r == "ok" && n == s.limit && pmax > s.limit + 1))
  | _, _ => false

/-- the members of a search that can currently be read -/
def readableOf (c : Coll) (s : Search) : List Obj :=
  match c.schema with
  | (c, .ok l) => (s.uuids l).filterMap (fun u => match c.get u with
                                                  | (_, .ok o) => some o
                                                  | _ => none)
  | _ => []

/-- `Len()` and `Err()` of a search: the length of a failed search is not specified -/
def lenReply (s : Search) (impl : String) : Reply :=
  match s.err with
  | none => { txt := s!"{s.fields.length} ok" }
  | some e => { txt := s!"- E:{e.print}", agree := some (impl.endsWith (" E:" ++ e.print)) }

def printFsOp : FsOp → String
  | .mkdir => "mk"
  | .writeObj o => s!"w:{o.uuid}"
  | .rmObj u => s!"r:{u}"
  | .writeSchema _ => "ws"
  | .rmSchema => "rs"

/-- sort every maximal run of `w:`/`r:` tokens -/
def normRuns : List String → List String → List String
  | [], run => (run.toArray.qsort (· < ·)).toList
  | t :: ts, run =>
    if t.startsWith "w:" || t.startsWith "r:" then
      match run with
      | r :: _ => if (r.take 2).toString == (t.take 2).toString then normRuns ts (t :: run)
                  else (run.toArray.qsort (· < ·)).toList ++ normRuns ts [t]
      | [] => normRuns ts [t]
    else (run.toArray.qsort (· < ·)).toList ++ t :: normRuns ts []

def normFs (s : String) : List String := normRuns ((s.splitOn " ").filter (· != "")) []

def sortStrs (l : List String) : List String := (l.toArray.qsort (· < ·)).toList

/-- the oracle "index and files agree": every object read through `All` has, in every field
    index, the entry (its value, its oid); answers `true` or `false h1,h2,…` -/
def consistentOf (c : Coll) : Coll × String :=
  match c.schema with
  | (c, .ok l) =>
    match c.all with
    | (c, .ok os, _) =>
      let stale := os.filter (fun o =>
        match l.index.oidOf o.uuid with
        | none => true
        | some oid => l.index.fields.any (fun fi =>
            match o.field fi.pos with
            | .v x => !(fi.idx.any (fun e => e.2 == oid && e.1 == x))
            | .opaque _ => true))
      let sizeOK := l.index.fields.all (fun fi => fi.idx.length == os.length)
      if stale.isEmpty && sizeOK then (c, "true")
      else
        let hs := ((stale.map (·.uuid)).toArray.qsort (· < ·)).toList
        (c, ("false " ++ ",".intercalate (hs.map toString)).trimAscii.toString)
    | (c, _, _) => (c, "false")
  | (c, .err e) => (c, "E:" ++ e.print)
  | (c, .panic) => (c, "PANIC")

def parseObjs (ts : List String) : Option (List Obj) := ts.mapM parseObj

/-- strip the surrounding brackets of a printed list and parse its objects -/
def parseObjList (s : String) : Option (List Obj) :=
  if s.startsWith "[" && s.endsWith "]" then
    let inner := ((s.drop 1).dropEnd 1).toString
    if inner.isEmpty then some [] else parseObjs (inner.splitOn " ")
  else none

def runTicks (c : Coll) : Nat → Coll
  | 0 => c
  | n+1 => runTicks c.tick n

/-- execute one operation; `impl` is the implementation's result text -/
def DState.exec1 (d : DState) (op : String) (args : List String) (impl : String) : Option (DState × Reply) :=
  let E := d.env
  match op, args with
  | "open", _ => do
    let live := parseLive ((kv args "live").getD "")
    let hooks ← (kv args "hooks").bind parseBool
    let lower := ((kv args "lower").bind parseBool).getD false
    pure ({ c := { live := live }, hooks := hooks, searches := [], lower := lower }, { txt := "ok" })
  | "live", _ => do     -- the Go struct changed shape (same directory)
    let live := parseLive ((kv args "live").getD "")
    pure ({ d with c := { d.c.reopen with live := live }, searches := [] }, { txt := "ok" })
  | "casemap", [s, u, l, lu] => do
    let s ← unhex s
    pure (d, { txt := s!"{hex (upBytes s)} {hex (loBytes s)} {hex (loBytes (upBytes s))}",
               agree := some (hex (upBytes s) == u && hex (loBytes s) == l && hex (loBytes (upBytes s)) == lu) })
  | "tags", [_, tag] => do   -- struct-tag parsing (fdFromType)
    let tag ← unhexStr tag
    pure (d, { txt := "c" ++ (Cons.ofTags (tag.splitOn ",")).flags })
  | "create", _ => do
    let st ← parseSettings args
    let descs ← (args.filter (fun a => "d=".isPrefixOf a)).mapM (fun a => parseDesc ((a.drop 2).toString))
    let (c, r) := d.c.create descs st
    pure ({ d with c := c }, resOf r)
  | "ins", [o, nw] => do
    let o ← parseObj o
    let n ← (kv [nw] "new").bind String.toNat?
    let (c, r) := d.c.insert E o n
    pure ({ d with c := c }, resOf r)
  | "many", _ => do
    let wrong ← kv args "wrong"
    let wrongAt ← (if wrong == "-" then some none else
      match wrong.splitOn "," with
      | [k, u] => do
        let k ← k.toNat?
        let u ← parseBool u
        pure (some (k, u))
      | _ => none)
    let news ← (kv args "news").bind parseNews
    let os ← (args.filter (fun a => "o=".isPrefixOf a)).mapM (fun a => parseObj ((a.drop 2).toString))
    -- uuids are assigned before validation in the batch path
    let (c, n, r) := d.c.many E (zipNew os news) wrongAt
    pure ({ d with c := c }, { txt := s!"{n} {printRes r}" })
  | "bulk", _ => do
    let k ← (kv args "k").bind String.toNat?
    let news ← (kv args "news").bind parseNews
    let os ← (args.filter (fun a => "o=".isPrefixOf a)).mapM (fun a => parseObj ((a.drop 2).toString))
    let (c, n, r) := d.c.bulk E (zipNew os news) k
    pure ({ d with c := c }, { txt := s!"{n} {printRes r}" })
  | "del", [u] => do
    let u ← u.toNat?
    let (c, r) := d.c.delete u
    pure ({ d with c := c }, resOf r)
  | "delall", [] =>
    let (c, r) := d.c.deleteAll
    pure ({ d with c := c }, resOf r)
  | "get", [u] => do
    let u ← u.toNat?
    let (c, r) := d.c.get u
    let txt := match r with
      | .ok o => o.print
      | .err e => "E:" ++ e.print
      | .panic => "PANIC"
    -- an object whose file is gone may still be served from the cache: when it is not known
    -- whether the implementation had cached it (see `cacheUnsure`) both answers are possible,
    -- and the model adopts the one observed
    if txt != impl && d.cacheUnsure.contains u then
      match r, parseObj impl with
      | .err .notFound, some io =>
        if io.uuid == u then pure ({ d with c := { c with cache := c.cache.put io }, cacheUnsure := d.cacheUnsure.filter (· != u) }, { txt := txt, agree := some true })
        else pure ({ d with c := c }, { txt := txt })
      | .ok _, none =>
        if impl == "E:notfound" then pure ({ d with c := { c with cache := c.cache.erase u }, cacheUnsure := d.cacheUnsure.filter (· != u) }, { txt := txt, agree := some true })
        else pure ({ d with c := c }, { txt := txt })
      | _, _ => pure ({ d with c := c }, { txt := txt })
    else
    pure ({ d with c := c }, { txt := txt })
  | "exist", [u] => do
    let u ← u.toNat?
    let (c, r) := d.c.exist u
    pure ({ d with c := c }, { txt := match r with
      | .ok b => toString b
      | .err e => "E:" ++ e.print
      | .panic => "PANIC" })
  | "count", [] =>
    let (c, r) := d.c.count
    pure ({ d with c := c }, { txt := match r with
      | .ok n => toString n
      | .err e => "E:" ++ e.print
      | .panic => "PANIC" })
  | "all", [] =>
    let (c, r, os) := d.c.all
    let txt := match r with
      | .ok _ => printObjs (sortObjs os) ++ " ok"
      | .err e => "[] E:" ++ e.print       -- partial results before an error are not compared
      | .panic => "PANIC"
    pure (({ d with c := c }).scanFailed (match r with | .err e => some e | _ => none), { txt := txt })
  | "search", [sid, f, o, p] => do
    let sid ← sid.toNat?
    let f ← unhexStr f
    let o ← parseOp o
    let p ← parseLeaf p
    let (c, s) := Coll.search E d.c f o p none
    pure ((({ d with c := c }).scanFailed s.err).setS sid s, lenReply s impl)
  | "and", [sid, old, f, o, p] => do
    let sid ← sid.toNat?
    let old ← old.toNat?
    let s0 ← d.getS old
    let f ← unhexStr f
    let o ← parseOp o
    let p ← parseLeaf p
    let (c, s) := Coll.searchAnd E d.c s0 f o p
    pure ((({ d with c := c }).scanFailed s.err).setS sid s, lenReply s impl)
  | "or", [sid, old, f, o, p] => do
    let sid ← sid.toNat?
    let old ← old.toNat?
    let s0 ← d.getS old
    let f ← unhexStr f
    let o ← parseOp o
    let p ← parseLeaf p
    let (c, s) := Coll.searchOr E d.c s0 f o p
    pure ((({ d with c := c }).scanFailed s.err).setS sid s, lenReply s impl)
  | "len", [sid] => do
    let s ← (sid.toNat?).bind d.getS
    pure (d, lenReply s impl)
  | "limit", [sid, n] => do
    let sid ← sid.toNat?
    let s ← d.getS sid
    let n ← n.toNat?
    pure (d.setS sid { s with limit := n }, { txt := "ok" })
  | "reverse", [sid] => do
    let sid ← sid.toNat?
    let s ← d.getS sid
    pure (d.setS sid { s with reverse := true }, { txt := "ok" })
  | "collect", [sid] => do
    let sid ← sid.toNat?
    let s ← d.getS sid
    let (_, _, full, fe) := Coll.collect d.c { s with limit := maxUint }
    let readable := readableOf d.c s
    let (c, s', out, e) := Coll.collect d.c s
    let loose := d.tainted.contains sid || (s.orderPos.isNone && s.err.isNone && fe.isSome)
    let txt := printObjs out ++ " " ++ printErrOpt e
    -- implementation text: "[objs] R"; the verdict, and whether it needed another order inside a tie
    let (agree, alt) := match impl.splitOn "] " with
      | [objs, r] =>
        match parseObjList (objs ++ "]") with
        | some io =>
          if loose then
            (io.all (fun o => readable.contains o) && (io.map (·.uuid)).eraseDups.length == io.length &&
              (r == "ok" || some r == fe.map (fun e => "E:" ++ e.print)), false)
          else if r == printErrOpt e && (e.isSome || cmpCollect s.orderPos (capturedKey d.c s) out full io) then (true, false)
          else if s.orderPos.isSome && s.err.isNone && altCollectOk d.c s fe readable io r then (true, true)
          else (false, false)
        | none => (false, false)
      | _ => (false, false)
    let d' := ({ d with c := c, tainted := if loose || alt then sid :: d.tainted else d.tainted,
                        cacheUnsure := if loose || alt then readable.map Obj.uuid ++ d.cacheUnsure else d.cacheUnsure }).setS sid s'
    pure (d', { txt := txt, agree := some agree })
  | "expects", [sid, n] => do
    let sid ← sid.toNat?
    let n ← n.toNat?
    let s ← d.getS sid
    let s' := s.expects false n
    pure (d.setS sid s', { txt := printErrOpt s'.err })
  | "expects0", [sid, n] => do
    let sid ← sid.toNat?
    let n ← n.toNat?
    let s ← d.getS sid
    let s' := s.expects true n
    pure (d.setS sid s', { txt := printErrOpt s'.err })
  | "one", [sid] => do
    let sid ← sid.toNat?
    let s ← d.getS sid
    let (_, _, full, fe) := Coll.collect d.c { s with limit := maxUint }
    let readable := readableOf d.c s
    let loose := d.tainted.contains sid || (s.orderPos.isNone && s.err.isNone && fe.isSome)
    if loose then
      let (c, s', r) := Coll.one d.c s
      let d' := ({ d with c := c, tainted := sid :: d.tainted, cacheUnsure := readable.map Obj.uuid ++ d.cacheUnsure }).setS sid s'
      let agree := match parseObj impl with
        | some io => readable.contains io
        | none => some impl == fe.map (fun e => "E:" ++ e.print) || impl == "E:noobject"
      pure (d', { txt := (match r with | .ok o => o.print | .err e => "E:" ++ e.print | .panic => "PANIC"), agree := some agree })
    else
    let (c, s', r) := Coll.one d.c s
    let d' := ({ d with c := c }).setS sid s'
    -- another order inside a tie of a stale search may meet the unreadable member earlier or later
    let altOk : Bool := s.orderPos.isSome && s.err.isNone && !s.fields.isEmpty &&
      (match tieWindow d.c s, fe with
       | some (pmin, pmax, keys), some e =>
         (match parseObj impl with
          | some io => readable.contains io && some (capturedKey d.c s io) == keys.head?.map some && pmax > 2
          | none => impl == "E:" ++ e.print && pmin ≤ 2)
       | _, _ => false)
    let dAlt := { d' with tainted := sid :: d'.tainted, cacheUnsure := readable.map Obj.uuid ++ d'.cacheUnsure }
    match r with
    | .ok o =>
      let agree := match parseObj impl with
        | some io => full.contains io && (match s.orderPos with
                                          | some _ => capturedKey d.c s io == capturedKey d.c s o
                                          | none => true)
        | none => false
      if agree then pure (d', { txt := o.print, agree := some true })
      else pure (dAlt, { txt := o.print, agree := some altOk })
    | .err e =>
      if impl == "E:" ++ e.print then pure (d', { txt := "E:" ++ e.print })
      else pure (dAlt, { txt := "E:" ++ e.print, agree := some altOk })
    | .panic => pure (d', { txt := "PANIC" })
  | "sdel", [sid] => do
    let s ← (sid.toNat?).bind d.getS
    let (c, r) := Coll.searchDelete d.c s
    pure ({ d with c := c }, resOf r)
  | "aidx", [f] => do
    let f ← unhexStr f
    let (c, r) := Coll.assignIndex d.c f
    pure ({ d with c := c }, { txt := match r with
      | .ok vs => "[" ++ " ".intercalate (vs.map Val.print) ++ "] ok"
      | .err e => "[] E:" ++ e.print
      | .panic => "PANIC" })
  | "control", [] => pure (d, resOf d.c.control)
  | "repair", [] =>
    let (c, r) := d.c.repair
    pure ({ d with c := c }, resOf r)
  | "close", [] =>
    let (c, r) := d.c.close
    pure ({ d with c := c }, resOf r)
  | "reopen", [] => pure ({ d with c := d.c.reopen, searches := [], cacheUnsure := [] }, { txt := "ok" })
  | "commit", [] =>
    let (c, r) := d.c.commitCall
    pure ({ d with c := c }, resOf r)
  | "flushall", [] => pure ({ d with c := d.c.flushAll }, { txt := "ok" })
  | "flushallc", [] =>
    let (c, r) := d.c.flushAllAndCommit
    pure ({ d with c := c }, resOf r)
  | "flush", [u] => do
    let u ← u.toNat?
    pure ({ d with c := d.c.flushOne u }, { txt := "ok" })
  | "repairfiles", [] => pure (d, { txt := "same" })   -- Repair never touches an object file
  | "drop", [] =>
    -- `DB.Drop`: the whole directory is removed and nothing of the handle's state survives
    pure ({ d with c := { live := d.c.live }, searches := [], tainted := [], cacheUnsure := [], logMark := 0 }, { txt := "ok" })
  | "fflush", [] =>
    -- the flusher flushes although its condition does not hold NOW: it read the pending count
    -- under the read lock, found the threshold reached, and obtained the write lock only after
    -- other calls had changed the count.  Flushing early is always within the property.
    match d.c.mem with
    | some l =>
      if l.flusher && l.settings.async.isSome then
        let c := d.c.flushAll
        pure ({ d with c := (c.commit l).setMem { l with slept := 0 } }, { txt := "ok" })
      else pure (d, { txt := "ok" })
    | none => pure (d, { txt := "ok" })
  | "tick", [n] => do
    let n ← n.toNat?
    pure ({ d with c := runTicks d.c n }, { txt := "ok" })
  | "rmfile", [u] => do
    let u ← u.toNat?
    pure ({ d with c := { d.c with disk := d.c.disk.apply (.rmObj u) } }, { txt := "ok" })
  | "addfile", [o] => do
    let o ← parseObj o
    pure ({ d with c := { d.c with disk := d.c.disk.apply (.writeObj o) } }, { txt := "ok" })
  | "dropentry", [u, full] => do
    let u ← u.toNat?
    if full == "2" then
      -- one field index names the object twice: the entry after its own (before it when it is the
      -- last) gets its object id
      let schema := d.c.disk.schema.map (fun img =>
        match img.index.oidOf u with
        | none => img
        | some oid =>
          let names := (img.index.fields.map (·.name)).toArray.qsort (· < ·) |>.toList
          let firstName := names.head?
          let dup (fi : FieldIdx) : FieldIdx :=
            match fi.idx.findIdx? (fun e => e.2 == oid) with
            | none => fi
            | some i =>
              let j := if i + 1 < fi.idx.length then some (i + 1) else if i > 0 then some (i - 1) else none
              match j with
              | none => fi
              | some j => { fi with idx := fi.idx.mapIdx (fun k e => if k == j then (e.1, oid) else e) }
          let fields := img.index.fields.map (fun fi => if some fi.name == firstName then dup fi else fi)
          ({ img with index := { img.index with fields := fields } } : SchemaImg))
      pure ({ d with c := { d.c with disk := { d.c.disk with schema := schema } } }, { txt := "ok" })
    else
    let full ← parseBool full
    let schema := d.c.disk.schema.map (fun img =>
      match img.index.oidOf u with
      | none => img
      | some oid =>
        let dropFrom (fi : FieldIdx) : FieldIdx := { fi with idx := fi.idx.filter (fun e => e.2 != oid) }
        -- field indexes in name order (the harness edits the first one only when `full` is false)
        let names := (img.index.fields.map (·.name)).toArray.qsort (· < ·) |>.toList
        let firstName := names.head?
        let fields := img.index.fields.map (fun fi => if full || some fi.name == firstName then dropFrom fi else fi)
        let ids' := if full then img.index.ids.filter (fun p => p.1 != oid) else img.index.ids
        let ix' : ObjIndex := { next := img.index.next, ids := ids', fields := fields }
        ({ img with index := ix' } : SchemaImg))
    pure ({ d with c := { d.c with disk := { d.c.disk with schema := schema } } }, { txt := "ok" })
  | "reshape", [v] => do
    let v ← v.toNat?
    let edit (descs : List FieldDesc) : List FieldDesc :=
      match v with
      | 0 => descs.filter (fun x => x.path != "U16")
      | 1 => descs ++ [{ path := "Extra", type := "int", cast := some .i64, cons := {} }]
      | 2 => descs.map (fun x => if x.path == "B" then { x with type := "int" } else x)
      | _ => descs
    let setDescs (ds : List FieldDesc) : Coll :=
      { d.c with disk := { d.c.disk with schema := d.c.disk.schema.map (fun img => { img with descs := ds }) } }
    if v == 99 then
      match d.savedDescs with
      | some ds => pure ({ d with savedDescs := none, c := setDescs ds }, { txt := "ok" })
      | none => pure (d, { txt := "ok" })
    else
      match d.c.disk.schema with
      | some img => pure ({ d with savedDescs := d.savedDescs <|> some img.descs, c := setDescs (edit img.descs) }, { txt := "ok" })
      | none => pure (d, { txt := "ok" })
  | "dirname", [] =>
    -- the collection directory is named after the Go type, snake case when lower-case names are on
    let n := "main.T".toList
    let n := if d.lower then Layout.camelToSnake n else n
    pure (d, { txt := hex (n.map Char.toNat) })
  | "simg", [] =>
    -- the bytes of the real schema.json (uuids replaced by handles), read by the model's own
    -- JSON reader and compared with the image the model holds for the directory
    match d.c.disk.schema with
    | none => pure (d, { txt := "none" })
    | some img =>
      match (unhex impl).bind Json.parse with
      | none => pure (d, { txt := "model holds a schema image; the file is absent or not JSON", agree := some false })
      | some j =>
        match Codec.checkSchema img j with
        | .ok () => pure (d, { txt := "same", agree := some true })
        | .error m => pure (d, { txt := "schema.json differs from the model's image: " ++ m, agree := some false })
  | "fsops", [] =>
    let delta := d.c.log.drop d.logMark
    let txt := " ".intercalate (delta.map printFsOp)
    -- runs of object writes / removals come out in Go map order in flushes and bulk deletions:
    -- compared as sets, run by run
    pure ({ d with logMark := d.c.log.length }, { txt := txt, agree := some (normFs txt == normFs impl) })
  | "consistent", [] =>
    let (c, txt) := consistentOf d.c
    pure ({ d with c := c }, { txt := txt })
  | "rmschema", [] => pure ({ d with c := { d.c with disk := d.c.disk.apply .rmSchema } }, { txt := "ok" })
  | "ls", [] =>
    let us := (d.c.disk.files.keys.toArray.qsort (· < ·)).toList
    pure (d, { txt := s!"{us} schema={if d.c.disk.schema.isSome then 1 else 0}" })
  | "disk", [u] => do
    let u ← u.toNat?
    pure (d, { txt := match d.c.disk.files.get? u with
      | some o => o.print
      | none => "-" })
  | _, _ => none


/-- `AssignUnique` is `ExpectsZeroOrN(1)` followed by `AssignOne` -/
def DState.exec (d : DState) (op : String) (args : List String) (impl : String) : Option (DState × Reply) :=
  match op, args with
  | "uniq", [sid] =>
    match sid.toNat?.bind d.getS, sid.toNat? with
    | some s, some n => (d.setS n (s.expects true 1)).exec1 "one" args impl
    | _, _ => none
  | _, _ => d.exec1 op args impl

/-- process one trace line; returns the new state and the verdict line -/
def DState.line (d : DState) (line : String) : DState × String :=
  let line := line.trimAscii.toString
  if line.isEmpty || line.startsWith "#" then (d, "=") else
  if line.startsWith "crash at=" then
    -- the process died during a call, after `j` of its directory mutations
    match (line.drop 9).toString.splitOn " " with
    | j :: op :: args =>
      match j.toNat?, d.exec op args "" with
      | some j, some (d', _) =>
        let delta := (d'.c.log.drop d.c.log.length).take j
        let c : Coll := { d.c with disk := d.c.disk.applyAll delta, log := d.c.log ++ delta, mem := none, cache := [], pending := [] }
        ({ d with c := c, searches := [], logMark := c.log.length }, "=")
      | _, _ => (d, "? cannot parse crash line")
    | _ => (d, "? cannot parse crash line")
  else
  let line := if line.endsWith " =>" then line ++ " " else line     -- empty result
  match line.splitOn " => " with
  | [call, impl] =>
    match call.splitOn " " with
    | op :: args =>
      match d.exec op args impl with
      | some (d', r) =>
        -- a panic of the implementation is never accepted, whatever the model says
        let ok := !(impl.endsWith "PANIC") && match r.agree with
          | some b => b
          | none => r.txt == impl
        (d', if ok then "=" else "! " ++ r.txt)
      | none => (d, "? cannot parse: " ++ call)
    | [] => (d, "? empty call")
  | _ => (d, "? no result separator")

end Sod
