/-
  C15 — Validate and Transform hooks gate every insertion path.
  `E.transform` and `E.validate` are arbitrary functions: the theorems hold for every user hook.
-/
import Proofs.Batch
namespace Sod.Props
open Sod

/-- single insert: an object whose (transformed, case-canonicalised) value is invalid is
    answered `invalid` and changes nothing -/
theorem C15_invalid_invisible {E : Env} {c : Coll} {l : Loaded} (h : Sod.Inv c l) (o : Obj) (fresh : Nat)
    (hv : E.validate (E.canon l.descs (E.transform o)) = false) : Coll.insert E c o fresh = (c, Res.err Err.invalid) :=
  insert_invalid h o fresh hv

/-- single insert: what is stored is canon (transform o), and Validate accepted exactly that value -/
theorem C15_stored_is_transformed {E : Env} {c : Coll} {l : Loaded} (h : Inv' c l) (o : Obj) (fresh : Nat)
    (ht : Obj.Typed l.index (assignNew (E.canon l.descs (E.transform o)) fresh))
    (hr : (Coll.insert E c o fresh).snd = Res.ok ()) :
    ∃ l', Inv' (Coll.insert E c o fresh).fst l' ∧
      (Coll.insert E c o fresh).fst.view =
        updView c.view (assignNew (E.canon l.descs (E.transform o)) fresh).uuid (some (assignNew (E.canon l.descs (E.transform o)) fresh)) ∧
      E.validate (E.canon l.descs (E.transform o)) = true :=
  insert_accepted' h o fresh ht hr

/-- batch and chunked paths: every member that gets past validation IS canon (transform o), was
    accepted by Validate on that value, and that value is what the loop inserts -/
theorem C15_batch_order {E : Env} {l : Loaded} {tmp : ObjIndex} {os os' : List Obj}
    (h : manyValidate E l tmp os = Res.ok os') :
    os' = List.map (fun o => E.canon l.descs (E.transform o)) os ∧
      ∀ o ∈ os', E.validate o = true ∧ E.serialisable o = true ∧ l.index.satisfyAll o = Res.ok () :=
  manyValidate_spec h

end Sod.Props
