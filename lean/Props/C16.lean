/-
  C16 — upper/lower constraints canonicalise stored and searched values.
  The facts assumed about strings.ToUpper / strings.ToLower are the three laws of `CaseLaws`;
  they are validated exhaustively over all 1 112 064 code points by every run of the check
  (`harness -casecheck`) and belong to the trusted base.
-/
import Proofs.Canon
import Proofs.Tags
namespace Sod.Props
open Sod

/-- applying the constraint twice changes nothing (upper, lower, both, none) -/
theorem C16_canon_idem (E : Env) (L : CaseLaws E) (descs : List FieldDesc) (o : Obj) :
    E.canon descs (E.canon descs o) = E.canon descs o := canon_idem E L descs o

theorem C16_canonBytes_idem (E : Env) (L : CaseLaws E) (c : Cons) (s : Bytes) :
    E.canonBytes c (E.canonBytes c s) = E.canonBytes c s := canonBytes_idem E L c s

/-- what an accepted insert stores is canonical, at every constrained position, whatever case
    was supplied -/
theorem C16_stored_canonical {E : Env} (L : CaseLaws E) {c : Coll} {l : Loaded} (h : Inv' c l) (o : Obj) (fresh : Nat)
    (ht : Obj.Typed l.index (assignNew (E.canon l.descs (E.transform o)) fresh))
    (hr : (Coll.insert E c o fresh).snd = Res.ok ()) :
    ∃ o', (Coll.insert E c o fresh).fst.view o'.uuid = some o' ∧ E.canon l.descs o' = o' ∧
      ∀ (i : Nat) (hi : i < l.descs.length), o'.field i = E.canonLeaf l.descs[i].cons ((E.transform o).field i) :=
  let ⟨o', h1, _, h3, h4⟩ := stored_is_canonical L h o fresh ht hr
  ⟨o', h1, h3, h4⟩

/-- a search value for such a field is canonicalised the same way … -/
theorem C16_probe_canonical (E : Env) (descs : List FieldDesc) (field : String) (i : Nat) (d : FieldDesc) (s : Bytes)
    (h : descPos? descs field = some (i, d)) :
    E.prepare descs field (Leaf.v (Val.str s)) =
      Leaf.v (Val.str (if d.cons.transformer = true then E.canonBytes d.cons s else s)) :=
  prepare_canonical E descs field i d s h

/-- … so searches on it are case-insensitive whether or not it is indexed: two probes with the
    same canonical form give the SAME search, constrained or not -/
theorem C16_search_case_insensitive (E : Env) (c : Coll) (l : Loaded) (field : String) (op : Option Op) (s₁ s₂ : Bytes)
    (k : Option FIdx) (i : Nat) (d : FieldDesc) (hs : c.schema = (c, Res.ok l))
    (hd : descPos? l.descs field = some (i, d)) (ht : d.cons.transformer = true)
    (he : E.canonBytes d.cons s₁ = E.canonBytes d.cons s₂) :
    Coll.search E c field op (Leaf.v (Val.str s₁)) k = Coll.search E c field op (Leaf.v (Val.str s₂)) k :=
  search_case_insensitive E c l field op s₁ s₂ k i d hs hd ht he

/-- tag parsing: the constraints a struct tag gives are exactly "the token occurs" (`unique` also
    giving `index`), so a constraint is never lost or invented by the position of its token -/
theorem C16_tags_spec (tags : List String) :
    (Cons.ofTags tags).index = (tags.contains "index" || tags.contains "unique") ∧
    (Cons.ofTags tags).unique = tags.contains "unique" ∧
    (Cons.ofTags tags).upper = tags.contains "upper" ∧
    (Cons.ofTags tags).lower = tags.contains "lower" := ofTags_spec tags

theorem C16_tags_order_independent {a b : List String} (h : a.Perm b) : Cons.ofTags a = Cons.ofTags b :=
  ofTags_perm h

example : (Cons.ofTags ["lower", "unique"]).flags = "iuL" ∧ (Cons.ofTags ["unique", "lower"]).flags = "iuL" := by decide

end Sod.Props
