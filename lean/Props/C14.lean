/-
  C14 — Stored values are isolated from caller memory.

  Values are trees whose reference nodes (pointer, slice, map) carry identity tags
  (SodModel/Clone.lean); aliasing = a shared tag; a write through a reference is `mutate`.
  `clone` mirrors `cloneValue` kind by kind.  The correspondence (`harness -alias`) checks on
  random deep shapes that the real `reflect`-based code shows exactly the relation proved here:
  copies equal, references reachable through exported fields all fresh.
  Restriction, shown necessary by `C14_unexported_exception`: unexported fields that hold
  references keep sharing (documented in object.go).
-/
import Proofs.Clone
namespace Sod.Props
open Sod.Clone

/-- a copy equals the original up to identities (what a JSON round trip through the file gives) -/
theorem C14_clone_equal (n : Nat) (v : V) : strip (clone n v).1 = strip v := clone_strip n v

/-- every reference reachable through exported fields of a copy is new, and no two coincide -/
theorem C14_clone_fresh (n : Nat) (v : V) :
    (∀ t ∈ tagsExp (clone n v).1, n ≤ t ∧ t < (clone n v).2) ∧ (tagsExp (clone n v).1).Nodup :=
  ⟨clone_tags_fresh n v, clone_tags_nodup n v⟩

/-- mutating an object AFTER storing it (through any reference it contains) never changes what
    is stored -/
theorem C14_put_isolated (s : Store) (key : Nat) (v : V) (hu : tagsAll v = tagsExp v) (hv : ∀ t ∈ tagsAll v, t < s.next) :
    ∀ t ∈ tagsAll v, ∀ w, ((s.put key v).mutate t w).objs.find? (fun p => p.1 == key) =
      (s.put key v).objs.find? (fun p => p.1 == key) := put_isolated s key v hu hv

/-- mutating an object RETURNED by a read never changes what is stored -/
theorem C14_get_isolated (s : Store) (hf : s.Fresh) (key : Nat) (v' : V) (s' : Store) (hg : s.get key = (some v', s'))
    (hu : ∀ p ∈ s.objs, tagsAll p.2 = tagsExp p.2) :
    ∀ t ∈ tagsAll v', ∀ w, (s'.mutate t w).objs = s'.objs := (get_isolated s hf key v' s' hg hu).1

/-- two reads never share mutable memory -/
theorem C14_two_reads_disjoint (s : Store) (key : Nat) (a b : V) (s1 s2 : Store)
    (hu : ∀ p ∈ s.objs, tagsAll p.2 = tagsExp p.2) (h1 : s.get key = (some a, s1)) (h2 : s1.get key = (some b, s2)) :
    ∀ t ∈ tagsAll a, t ∉ tagsAll b := two_gets_disjoint s key a b s1 s2 hu h1 h2

/-- what a read returns equals what was stored -/
theorem C14_roundtrip (s : Store) (key : Nat) (v : V) : ((s.put key v).get key).1.map strip = some (strip v) :=
  put_get_roundtrip s key v

/-- the documented exception: a reference in an UNEXPORTED field stays shared by the copy -/
theorem C14_unexported_exception : ∃ v t, t ∈ tagsAll (clone 100 v).1 ∧ t ∈ tagsAll v ∧ t < 100 := unexported_shared

end Sod.Props
