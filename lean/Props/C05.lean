/-
  C05 — A crash at any point is detected or harmless, and Repair converges.

  Process-crash model: completed directory mutations persist in order, so the directory after
  a crash inside a call is `c.disk.applyAll (delta.take j)`, `delta` being the mutations the
  call performs (object and schema files are replaced atomically: temp file + rename).
  `Detected d`: reopening answers index corruption.  `Consistent d`: reopening answers ok and
  the stored index reflects the files.

  FULL STATEMENT (not provable: the code violates it, see `C05_update_counterexample`):
      for every synchronous call and every j, Detected ∨ Consistent.
  PROVED: new-object inserts, deletes, and updates that change no indexed value.
  KNOWN FINDING: an update that changes an indexed value, interrupted after its object file
  was replaced and before schema.json was committed (known_findings.json).
-/
import Proofs.Reopen
namespace Sod.Props
open Sod

def C05_full : Prop :=
  ∀ (E : Env) (c : Coll) (l : Loaded) (o : Obj) (fresh : Nat), Inv' c l → Synced c l → ShapeOk c l →
    l.settings.async = none → Obj.Typed l.index (storedObj E l o fresh) → (Coll.insert E c o fresh).snd = Res.ok () →
    ∃ delta, (Coll.insert E c o fresh).fst.log = c.log ++ delta ∧
      ∀ j, Detected c.live (c.disk.applyAll (delta.take j)) ∨ Consistent c.live (c.disk.applyAll (delta.take j))

/-- the file operations of an accepted synchronous insert: the object file, then schema.json -/
theorem C05_insert_ops {E : Env} {c : Coll} {l : Loaded} (h : Inv' c l) (hs : Synced c l) (ha : l.settings.async = none)
    (o : Obj) (fresh : Nat) (ht : Obj.Typed l.index (storedObj E l o fresh)) (hr : (Coll.insert E c o fresh).snd = Res.ok ()) :
    ∃ ix', l.index.insertOrUpdate (storedObj E l o fresh) = Res.ok ix' ∧
      (Coll.insert E c o fresh).fst.log = c.log ++ [FsOp.writeObj (storedObj E l o fresh), FsOp.writeSchema ({ l with index := ix' } : Loaded).img] :=
  let ⟨ix', a, b, _⟩ := insert_log h hs ha o fresh ht hr
  ⟨ix', a, b⟩

/-- inserting a NEW object: every crash point is detected or consistent -/
theorem C05_partial_insert_new {E : Env} {c : Coll} {l : Loaded} (h : Inv' c l) (hs : Synced c l) (hk : ShapeOk c l)
    (ha : l.settings.async = none) (o : Obj) (fresh : Nat) (ht : Obj.Typed l.index (storedObj E l o fresh))
    (hr : (Coll.insert E c o fresh).snd = Res.ok ()) (hnew : (storedObj E l o fresh).uuid ∉ l.index.uuids) :
    ∃ delta, (Coll.insert E c o fresh).fst.log = c.log ++ delta ∧
      ∀ j, Detected c.live (c.disk.applyAll (delta.take j)) ∨ Consistent c.live (c.disk.applyAll (delta.take j)) :=
  crash_insert_new_all h hs hk ha o fresh ht hr hnew

/-- deleting a stored object: every crash point is detected or consistent -/
theorem C05_partial_delete {c : Coll} {l : Loaded} (h : Inv' c l) (hs : Synced c l) (hk : ShapeOk c l) (u : Nat)
    (hu : u ∈ l.index.uuids) :
    ∃ delta, (c.delete u).fst.log = c.log ++ delta ∧
      ∀ j, Detected c.live (c.disk.applyAll (delta.take j)) ∨ Consistent c.live (c.disk.applyAll (delta.take j)) :=
  crash_delete_all h hs hk u hu

/-- updating without changing any indexed value: every crash point is consistent -/
theorem C05_partial_update_same_keys {E : Env} {c : Coll} {l : Loaded} (h : Inv' c l) (hs : Synced c l) (hk : ShapeOk c l)
    (ha : l.settings.async = none) (o : Obj) (fresh : Nat) (ht : Obj.Typed l.index (storedObj E l o fresh))
    (hr : (Coll.insert E c o fresh).snd = Res.ok ()) (hold : (storedObj E l o fresh).uuid ∈ l.index.uuids)
    (hsame : ∀ old, c.view (storedObj E l o fresh).uuid = some old → ∀ fi ∈ l.index.fields,
        (storedObj E l o fresh).field fi.pos = old.field fi.pos) :
    ∃ delta, (Coll.insert E c o fresh).fst.log = c.log ++ delta ∧ delta.length = 2 ∧
      Consistent c.live (c.disk.applyAll (delta.take 0)) ∧ Consistent c.live (c.disk.applyAll (delta.take 1)) ∧
      Consistent c.live (c.disk.applyAll (delta.take 2)) :=
  crash_update_partial h hs hk ha o fresh ht hr hold hsame

/-- THE KNOWN FINDING, as a theorem about the model (which mirrors the code): there is a
    reachable synced state and an accepted update whose crash point j = 1 is neither detected
    nor consistent — so `C05_full` is false -/
theorem C05_update_counterexample : ¬ C05_full := by
  intro hfull
  obtain ⟨E, c, l, o, fresh, h1, h2, h3, h4, h5, h6, _, delta, hd, hnd, hnc⟩ := crash_update_counterexample
  obtain ⟨delta', hd', hall⟩ := hfull E c l o fresh h1 h2 h3 h4 h5 h6
  have : delta' = delta := List.append_cancel_left (hd'.symm.trans hd)
  subst this
  rcases hall 1 with hdet | hcon
  · exact hnd hdet
  · exact hnc hcon

/-- Repair never touches the directory -/
theorem C05_repair_no_fs (c : Coll) : c.repair.fst.disk = c.disk ∧ c.repair.fst.log = c.log := repair_no_fs c

end Sod.Props
