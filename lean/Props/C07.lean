/-
  C07 — Batch insertion is all-or-nothing per batch and per chunk.
-/
import Proofs.Batch
namespace Sod.Props
open Sod

/-- InsertOrUpdateMany: either nothing changes and the count is 0, or every object is stored
    (later members override earlier ones with the same uuid) and the count is the batch size -/
theorem C07_many_atomic {E : Env} {c : Coll} {l : Loaded} (h : Inv' c l) (os : List Obj) (w : Option (Nat × Bool))
    (ht : ∀ o ∈ os, Obj.Typed l.index (vald E l.descs o)) (hs : SameShape (ObjIndex.new l.descs) l.index) :
    (∃ e, Coll.many E c os w = (c, 0, Res.err e)) ∨
      ∃ c' l', Coll.many E c os w = (c', os.length, Res.ok ()) ∧ Inv' c' l' ∧
        c'.view = List.foldl (fun v o => updView v o.uuid (some o)) c.view (validated E l.descs os) ∧
        l'.settings = l.settings ∧ l'.descs = l.descs ∧ SameShape l'.index l.index :=
  Sod.C07_many_atomic h os w ht hs

/-- once every member has been validated (against the temporary index of the batch and against
    the live index as it was before the batch), the insertion loop cannot be refused: no
    half-applied batch can come from a constraint -/
theorem C07_validated_cannot_fail {E : Env} {c : Coll} {l : Loaded} (h : Inv' c l) (os' : List Obj)
    (ht : ∀ o ∈ os', Obj.Typed l.index o) (hser : ∀ o ∈ os', E.serialisable o = true)
    (hsat : ∀ o ∈ os', l.index.satisfyAll o = Res.ok ()) (hni : NoIntra (UPos l.index) (fun _ => none) os') :
    ∃ c' l', Coll.manyInsert E c l os' 0 = (c', l', os'.length, none) ∧ Inv' c' l' ∧
      c'.view = List.foldl (fun v o => updView v o.uuid (some o)) c.view os' :=
  let ⟨c', l', h1, h2, h3, _⟩ := manyInsert_all_ok h os' ht hser hsat hni
  ⟨c', l', h1, h2, h3⟩

/-- InsertOrUpdateBulk applies whole chunks in arrival order, stops at the first failing chunk
    (which leaves the state untouched), and reports exactly the number of objects stored -/
theorem C07_bulk {E : Env} {c : Coll} {l : Loaded} (h : Inv' c l) (os : List Obj) (k : Nat)
    (ht : ∀ o ∈ os, Obj.Typed l.index (vald E l.descs o)) (hs : SameShape (ObjIndex.new l.descs) l.index) :
    ∃ done rest c' l' r, chunks k os = done ++ rest ∧ done.flatten ++ rest.flatten = os ∧
      Coll.bulk E c os k = (c', done.flatten.length, r) ∧ Inv' c' l' ∧
      c'.view = List.foldl (fun v o => updView v o.uuid (some o)) c.view (validated E l.descs done.flatten) ∧
      (rest = [] ∧ r = Res.ok () ∨ ∃ ch rest' e, rest = ch :: rest' ∧ r = Res.err e ∧ Coll.many E c' ch = (c', 0, Res.err e)) :=
  Sod.C07_bulk h os k ht hs

/-- the chunks partition the input in order; all but the last have the chunk size -/
theorem C07_chunks (k : Nat) (hk : 0 < k) (os : List Obj) :
    (chunks k os).flatten = os ∧
    ∃ init last, chunks k os = init ++ [last] ∧ (∀ ch ∈ init, ch.length = k) ∧ last.length < k :=
  ⟨chunks_concat k os, chunks_sizes k hk os⟩

end Sod.Props
