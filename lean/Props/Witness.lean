/-
  Witness.lean — NON-VACUITY of the property theorems C01 … C20.

  Concrete states are built by RUNNING THE MODEL (`Coll.create`, then `Coll.insert` …) and the
  hypotheses of the property theorems (`Inv'`, `Sod.Inv`, `Synced`, `ShapeOk`, `Sim`, `Obj.Typed`,
  `ObjIndex.WF`, `Reflects`, `Agree`, `PendNodup`, `PendNodupC`, `SameShape`, `NoIntra`, `CaseLaws`,
  `CallsTyped`, `Reach` (async runs), `Lock.Initial`, `Lock.Reach`, `Lin.Steps`, `Store.Fresh`, `Desc` …)
  are established for them by the project's own preservation theorems (`insert_sync_spec`,
  `insert_ok_of`, `insertCore_accept'`, `insertOrUpdate_of_ok`, `insert_eq_split`,
  `satisfyAll_unique_iff`, `new_wf`, `new_reflects`, `C17_switch_settings`, `put_fresh` …) starting
  from the freshly created collection; only small closed side conditions are left to `decide`/`rfl`.
  Then every property file C01 … C20 has its main theorems instantiated at these witnesses with all
  hypotheses discharged.

  Witness states
    c0 → c1 → c2 (→ c3)   synchronous, uncached: create, insert o1, insert o2 (insert o3); schemas l0 … l3
    ca0 → ca              asynchronous (threshold 2, timeout 3): create + first access, insert o1 (pending)
    cu0 → cu1 → cu2       as c2 but with the field S NOT indexed (for C12_index_independent)
    c2a                   c2 switched to asynchronous writes by a compatible `create` (C01_config_independent)
    cT, cR                c2 tampered (a file removed) / reopened with a changed Go struct (C11, C17)
    lk0 → lk1             lock machine: DB.AssignIndex ∥ DB.Commit, one granted step (C08, C09)
    progs, linFinal       two one-section calls and a complete interleaved run (C08_linearizable)
    st0, st1, rdVal …     clone store (C14)

  FINDINGS
    * `C13_limit` (FIXED): its hypothesis used to quantify over EVERY collection state (also a handle
      without schema, where every `get` fails) and was satisfiable only for `us = []` — see
      `old_C13_limit_hypothesis_only_nil`.  The theorem was restated under `Inv' c l`; it is
      instantiated below on the two objects of `c2`.
    * `C08_race_free` concludes `False`: its hypotheses are jointly contradictory BY DESIGN (that is the
      statement).  It is instantiated as a refutation of its last hypothesis, all the others holding.
    * observation (not a vacuity): the state returned by a first `create` with asynchronous settings has
      `flusher = false` and satisfies `Inv'` only after the next access (`Coll.schema` starts the flusher):
      `fresh_async_create_not_inv`.  The asynchronous witness therefore starts at `ca0` = create + first access.

  NOT INSTANTIATED (nothing to discharge: no hypotheses, or closed regenerated facts / pure logic):
    C02_or_mem, C05_update_counterexample, C08_accesses_covered, C08_one_section, C09_entries_ok,
    C09_pinned_release_deadlock, C13_and_sorted, C14_unexported_exception, C18_format_pinned,
    C20_uuids_of_entries, C11_control_iff (an unconditional iff; its companion C11_corrupted_iff is used).
-/
import Props
namespace Sod.Props.Witness
open Sod

/-! ## 1. descriptors, settings, environment -/

def dN : FieldDesc := { path := "N", type := "int64", cast := some .i64, cons := { index := true, unique := true } }
def dS : FieldDesc := { path := "S", type := "string", cast := some .str, cons := { index := true, upper := true } }
def dF : FieldDesc := { path := "F", type := "uint32", cast := some .u64, cons := {} }
def dB : FieldDesc := { path := "B", type := "bool", cast := none, cons := {} }

/-- four leaves: unique indexed int64, indexed upper-cased string, unindexed uint32, opaque bool -/
def descs2 : List FieldDesc := [dN, dS, dF, dB]
def live2 : List (String × String) := [("N", "int64"), ("S", "string"), ("F", "uint32"), ("B", "bool")]

/-- synchronous, uncached -/
def st2 : Settings := {}
/-- asynchronous: flush at 2 pending objects or after 3 polls -/
def sta : Settings := { async := some ⟨2, 3⟩ }

/-- ASCII upper / lower case on bytes -/
def upB (b : Nat) : Nat := if 97 ≤ b ∧ b ≤ 122 then b - 32 else b
def loB (b : Nat) : Nat := if 65 ≤ b ∧ b ≤ 90 then b + 32 else b

/-- a concrete environment: ASCII case mappings, a Validate hook that refuses the shape "bad",
    a serialiser that refuses the shape "chan", a pattern compiler that refuses the pattern "*"
    and otherwise matches by prefix -/
def E : Env :=
  { up := List.map upB
    lo := List.map loB
    transform := id
    validate := fun o => o.shape != "bad"
    compile := fun s => if s = [42] then none else some (fun b => s.isPrefixOf b)
    serialisable := fun o => o.shape != "chan" }

theorem upB_idem (b : Nat) : upB (upB b) = upB b := by
  unfold upB; repeat' split
  all_goals omega
theorem loB_idem (b : Nat) : loB (loB b) = loB b := by
  unfold loB; repeat' split
  all_goals omega
theorem loupB_idem (b : Nat) : loB (upB (loB (upB b))) = loB (upB b) := by
  unfold loB upB; repeat' split
  all_goals omega

/-- the three laws assumed about strings.ToUpper / strings.ToLower hold for the ASCII mappings -/
theorem caseLaws : CaseLaws E where
  up_idem s := by simp [E, List.map_map, Function.comp_def, upB_idem]
  lo_idem s := by simp [E, List.map_map, Function.comp_def, loB_idem]
  loup_idem s := by simp [E, List.map_map, Function.comp_def, loupB_idem]

/-! ## 2. generic helpers (decidable forms of `Typed` and of "no unique conflict") -/

def typedB (ix : ObjIndex) (o : Obj) : Bool :=
  ix.fields.all (fun fi => match o.field fi.pos with
                           | .v v => v.tag == fi.cast
                           | .opaque _ => false)

theorem typed_of_typedB {ix : ObjIndex} {o : Obj} (h : typedB ix o = true) : o.Typed ix := by
  intro fi hfi
  have := List.all_eq_true.mp h fi hfi
  match hf : o.field fi.pos with
  | .v v => rw [hf] at this; exact ⟨v, rfl, by simpa using this⟩
  | .opaque s => rw [hf] at this; cases this

/-- the unique-conflict condition of `C03_reject_iff`, as a Boolean -/
def conflictB (ix : ObjIndex) (o : Obj) : Bool :=
  ix.fields.any (fun fi => fi.cons.unique &&
    fi.idx.any (fun e => o.field fi.pos == .v e.1 && ix.uuidOf e.2 != some o.uuid))

theorem conflictB_iff (ix : ObjIndex) (o : Obj) :
    conflictB ix o = true ↔
      ∃ fi ∈ ix.fields, fi.cons.unique = true ∧ ∃ e ∈ fi.idx, o.field fi.pos = .v e.1 ∧ ix.uuidOf e.2 ≠ some o.uuid := by
  simp [conflictB, List.any_eq_true]

/-- no conflict ⇒ the constraint check answers ok (through the project's characterisation) -/
theorem satisfy_ok_of {ix : ObjIndex} {o : Obj} (h : ix.WF) (ht : o.Typed ix) (hn : conflictB ix o = false) :
    ix.satisfyAll o = .ok () := by
  rcases satisfyAll_cases h ht with h1 | h1
  · exact h1
  · have := (conflictB_iff ix o).mpr ((satisfyAll_unique_iff h ht).mp h1)
    rw [hn] at this; cases this

/-- the order-specified form of `FIdx.insert` (no bisection) -/
def insFast (l : FIdx) (e : Entry) : FIdx :=
  l.filter (fun x => !Val.lt x.1 e.1) ++ e :: l.filter (fun x => Val.lt x.1 e.1)

def insIxFast (ix : ObjIndex) (o : Obj) : ObjIndex :=
  { next := ix.next + 1, ids := ix.ids ++ [(ix.next, o.uuid)],
    fields := ix.fields.map (fun fi => { fi with idx := insFast fi.idx (valOf fi o, ix.next) }) }

theorem insIx_eq_fast {ix : ObjIndex} (h : ix.WF) (o : Obj) : insIx ix o = insIxFast ix o := by
  unfold insIx insIxFast
  congr 1
  apply List.map_congr_left
  intro fi hfi
  rw [insert_eq_split _ _ (h.fields fi hfi).desc]
  rfl

/-- the index after inserting a NEW object, computed without bisection -/
theorem insertOrUpdate_new {ix : ObjIndex} {o : Obj} (h : ix.WF) (ht : o.Typed ix) (hn : conflictB ix o = false)
    (hnew : ix.oidOf o.uuid = none) : ix.insertOrUpdate o = .ok (insIxFast ix o) := by
  rw [insertOrUpdate_of_ok ht.hasVal (satisfy_ok_of h ht hn), hnew, insIx_eq_fast h]


/-! ## 3. the synchronous collection: `create`, then two accepted inserts -/

/-- an empty directory and a new handle -/
def cE : Coll := { live := live2 }

/-- the schema `create` loads -/
def l0 : Loaded := { descs := descs2, settings := st2, index := ObjIndex.new descs2 }
/-- the state after `DB.Create` -/
def c0 : Coll := (cE.create descs2 st2).1

theorem create_ok : (cE.create descs2 st2).2 = .ok () := by decide

def c0lit : Coll :=
  { live := live2
    disk := { dir := true, files := [], schema := some l0.img }
    mem := some l0
    cache := []
    pending := []
    log := [.mkdir, .writeSchema l0.img] }

theorem c0_eq : c0 = c0lit := by rfl

theorem view0 : c0.view = fun _ => none := by rw [c0_eq]; rfl

/-- the freshly created collection satisfies the strengthened invariant -/
theorem inv0 : Inv' c0 l0 := by
  rw [c0_eq]
  have hv : c0lit.view = fun _ => none := rfl
  refine ⟨⟨rfl, new_wf descs2, by rw [hv]; exact new_reflects descs2, ?_, ?_, ?_, ?_, fun _ => rfl, ?_,
    OMap.Keyed.nil, OMap.Keyed.nil, OMap.Keyed.nil⟩, fun _ => rfl⟩
  · intro u; rw [hv]; show u ∈ [] ↔ _; simp
  · intro u o h; rw [hv] at h; cases h
  · intro u o h; cases h
  · intro u o h; cases h
  · intro h; cases h

theorem synced0 : Synced c0 l0 := by rw [c0_eq]; exact ⟨rfl, rfl, rfl⟩
theorem shape0 : ShapeOk c0 l0 := by rw [c0_eq]; unfold ShapeOk; decide

/-- the objects the caller supplies (lower / mixed case strings) … -/
def o1 : Obj := { uuid := 1, shape := "p", vals := [.v (.i64 10), .v (.str [97, 98]), .v (.u64 7), .opaque "true"] }
def o2 : Obj := { uuid := 2, shape := "q", vals := [.v (.i64 20), .v (.str [65, 98]), .v (.u64 3), .opaque "false"] }
/-- … an unidentified third one (its uuid will be the drawn one, 3) … -/
def o3 : Obj := { uuid := 0, shape := "r", vals := [.v (.i64 15), .v (.str [97, 97]), .v (.u64 7), .opaque "true"] }
/-- … and what is stored: "AB", "AB" (a tie on the non-unique field), "AA" -/
def o1s : Obj := { uuid := 1, shape := "p", vals := [.v (.i64 10), .v (.str [65, 66]), .v (.u64 7), .opaque "true"] }
def o2s : Obj := { uuid := 2, shape := "q", vals := [.v (.i64 20), .v (.str [65, 66]), .v (.u64 3), .opaque "false"] }
def o3s : Obj := { uuid := 3, shape := "r", vals := [.v (.i64 15), .v (.str [65, 65]), .v (.u64 7), .opaque "true"] }

def fN (idx : FIdx) : FieldIdx := { name := "N", pos := 0, cast := .i64, cons := dN.cons, idx := idx }
def fS (idx : FIdx) : FieldIdx := { name := "S", pos := 1, cast := .str, cons := dS.cons, idx := idx }

def ix0 : ObjIndex := { next := 0, ids := [], fields := [fN [], fS []] }
def ix1 : ObjIndex := { next := 1, ids := [(0, 1)], fields := [fN [(.i64 10, 0)], fS [(.str [65, 66], 0)]] }
/-- two entries per field index; the S index holds a tie, in insertion order -/
def ix2 : ObjIndex :=
  { next := 2, ids := [(0, 1), (1, 2)],
    fields := [fN [(.i64 20, 1), (.i64 10, 0)], fS [(.str [65, 66], 0), (.str [65, 66], 1)]] }
def ix3 : ObjIndex :=
  { next := 3, ids := [(0, 1), (1, 2), (2, 3)],
    fields := [fN [(.i64 20, 1), (.i64 15, 2), (.i64 10, 0)],
               fS [(.str [65, 66], 0), (.str [65, 66], 1), (.str [65, 65], 2)]] }

theorem new_eq : ObjIndex.new descs2 = ix0 := by decide

def l1 : Loaded := { l0 with index := ix1 }
def l2 : Loaded := { l0 with index := ix2 }
def l3 : Loaded := { l0 with index := ix3 }

def c1 : Coll := (Coll.insert E c0 o1 101).1
/-- THE synchronous witness state: created, two objects inserted -/
def c2 : Coll := (Coll.insert E c1 o2 102).1

theorem stored1 : storedObj E l0 o1 101 = o1s := by decide
theorem stored2 : storedObj E l1 o2 102 = o2s := by decide
theorem stored3 : storedObj E l2 o3 3 = o3s := by decide

/-- what one accepted synchronous insert of a new object establishes -/
def StepFacts (c : Coll) (l : Loaded) (o : Obj) (fresh : Nat) (os : Obj) (ix' : ObjIndex) : Prop :=
    (Coll.insert E c o fresh).2 = .ok () ∧
    Inv' (Coll.insert E c o fresh).1 { l with index := ix' } ∧
    Synced (Coll.insert E c o fresh).1 { l with index := ix' } ∧
    ShapeOk (Coll.insert E c o fresh).1 { l with index := ix' } ∧
    (Coll.insert E c o fresh).1.view = updView c.view os.uuid (some os) ∧
    (Coll.insert E c o fresh).1.log = c.log ++ [.writeObj os, .writeSchema ({ l with index := ix' } : Loaded).img] ∧
    (Coll.insert E c o fresh).1.live = c.live ∧
    l.index.insertOrUpdate os = .ok ix'

/-- everything the project's theorems give for one accepted synchronous insert of a new object,
    with the new index computed -/
theorem sync_step {c : Coll} {l : Loaded} (h : Inv' c l) (hs : Synced c l) (hk : ShapeOk c l)
    (ha : l.settings.async = none) (o : Obj) (fresh : Nat) {os : Obj} (hst : storedObj E l o fresh = os)
    (hval : E.validate (E.canon l.descs (E.transform o)) = true) (hser : E.serialisable os = true)
    (ht : typedB l.index os = true) (hn : conflictB l.index os = false) (hnew : l.index.oidOf os.uuid = none)
    {ix' : ObjIndex} (hix : insIxFast l.index os = ix') : StepFacts c l o fresh os ix' := by
  have ht' : (storedObj E l o fresh).Typed l.index := by rw [hst]; exact typed_of_typedB ht
  have hu : l.index.satisfyAll (storedObj E l o fresh) = .ok () := by
    rw [hst]; exact satisfy_ok_of h.wf (typed_of_typedB ht) hn
  have hr : (Coll.insert E c o fresh).2 = .ok () :=
    insert_ok_of h.toInv o fresh ht' hval (by rw [hst]; exact hser) hu
  obtain ⟨ix'', e1, e2, e3, e4, e5, _, e7⟩ := insert_sync_spec h hs.2.1 ha o fresh ht' hr
  rw [hst] at e1 e4 e5
  have hiou := insertOrUpdate_new h.wf (typed_of_typedB ht) hn hnew
  rw [hix] at hiou
  rw [hiou] at e1
  injection e1 with e1
  subst e1
  refine ⟨hr, e2, e3, ?_, e4, e5, e7, hiou⟩
  unfold ShapeOk; rw [e7]; exact hk

theorem step1 : StepFacts c0 l0 o1 101 o1s ix1 := sync_step inv0 synced0 shape0 rfl o1 101 stored1 (by decide) (by decide) (by decide) (by decide)
  (by decide) (ix' := ix1) (by decide)

theorem inv1 : Inv' c1 l1 := step1.2.1
theorem synced1 : Synced c1 l1 := step1.2.2.1
theorem shape1 : ShapeOk c1 l1 := step1.2.2.2.1

theorem step2 : StepFacts c1 l1 o2 102 o2s ix2 := sync_step inv1 synced1 shape1 rfl o2 102 stored2 (by decide) (by decide) (by decide) (by decide)
  (by decide) (ix' := ix2) (by decide)

/-- both inserts were accepted -/
theorem ins1_ok : (Coll.insert E c0 o1 101).2 = .ok () := step1.1
theorem ins2_ok : (Coll.insert E c1 o2 102).2 = .ok () := step2.1

/-! ### the named witness theorems for `c2` / `l2` -/

theorem inv2 : Inv' c2 l2 := step2.2.1
theorem inv2_weak : Sod.Inv c2 l2 := inv2.toInv
theorem synced2 : Synced c2 l2 := step2.2.2.1
theorem shape2 : ShapeOk c2 l2 := step2.2.2.2.1
theorem wf2 : ObjIndex.WF l2.index := inv2.wf
theorem reflects2 : Reflects l2.index c2.view := inv2.refl
theorem schema2 : c2.schema = (c2, .ok l2) := schema_of_inv inv2_weak
theorem mem2 : c2.mem = some l2 := inv2.mem
theorem pending2 : c2.pending = [] := synced2.2.2
theorem live2_eq : c2.live = live2 := by
  show (Coll.insert E c1 o2 102).1.live = _
  rw [step2.2.2.2.2.2.2.1]
  show (Coll.insert E c0 o1 101).1.live = _
  rw [step1.2.2.2.2.2.2.1, c0_eq]; rfl
theorem pendNodup2 : PendNodup c2 := PendNodup.of_nil pending2

/-- what `c2` denotes: exactly the two stored (canonicalised) objects -/
theorem view2 : c2.view = fun u => if u = 2 then some o2s else if u = 1 then some o1s else none := by
  have h2 := step2.2.2.2.2.1
  have h1 := step1.2.2.2.2.1
  show (Coll.insert E c1 o2 102).1.view = _
  rw [h2]
  show updView (Coll.insert E c0 o1 101).1.view _ _ = _
  rw [h1, view0]
  rfl

/-- the file-operation log of the whole run: mkdir, schema, then (object, schema) per insert -/
theorem log2 : c2.log = [.mkdir, .writeSchema l0.img, .writeObj o1s, .writeSchema l1.img, .writeObj o2s, .writeSchema l2.img] := by
  have h2 := step2.2.2.2.2.2.1
  have h1 := step1.2.2.2.2.2.1
  show (Coll.insert E c1 o2 102).1.log = _
  rw [h2]
  show (Coll.insert E c0 o1 101).1.log ++ _ = _
  rw [h1, c0_eq]; rfl

/-- the next object is well typed for the index of `c2` -/
theorem typed3 : Obj.Typed l2.index o3s := typed_of_typedB (by decide)
theorem typed3' : Obj.Typed l2.index (assignNew (E.canon l2.descs (E.transform o3)) 3) := by
  show Obj.Typed l2.index (storedObj E l2 o3 3); rw [stored3]; exact typed3

theorem step3 : StepFacts c2 l2 o3 3 o3s ix3 := sync_step inv2 synced2 shape2 rfl o3 3 stored3 (by decide) (by decide) (by decide) (by decide)
  (by decide) (ix' := ix3) (by decide)

def c3 : Coll := (Coll.insert E c2 o3 3).1
theorem ins3_ok : (Coll.insert E c2 o3 3).2 = .ok () := step3.1
theorem inv3 : Inv' c3 l3 := step3.2.1
/-- the index layer accepts the third object and gives the three-entry index -/
theorem iou3 : l2.index.insertOrUpdate o3s = .ok ix3 := step3.2.2.2.2.2.2.2

/-! ### the abstract (specification) side: `Sim` -/

def cfg2 : SpecCfg := { descs := descs2, uniquePos := [0] }
def s0 : Spec := { map := fun _ => none, dom := [] }
def s2 : Spec := { map := fun u => if u = 2 then some o2s else if u = 1 then some o1s else none, dom := [1, 2] }

theorem sim0 : Sim cfg2 c0 l0 s0 :=
  ⟨inv0, view0.symm, List.Perm.refl _, rfl, fun p => by rw [show l0.index.uniquePos = [0] from by decide]; exact Iff.rfl⟩

/-- the two-object collection simulates the two-element map -/
theorem sim2 : Sim cfg2 c2 l2 s2 :=
  ⟨inv2, view2.symm, List.Perm.refl _, rfl, fun p => by rw [show l2.index.uniquePos = [0] from by decide]; exact Iff.rfl⟩

/-! ## 4. the asynchronous collection: `create`, first access (starts the flusher), one pending insert -/

def la0 : Loaded := { descs := descs2, settings := sta, index := ObjIndex.new descs2, flusher := true }
/-- `DB.Create` with asynchronous writes, then the first access of the handle -/
def ca0 : Coll := ((cE.create descs2 sta).1.schema).1

def ca0lit : Coll :=
  { live := live2
    disk := { dir := true, files := [], schema := some ({ la0 with flusher := false } : Loaded).img }
    mem := some la0
    cache := []
    pending := []
    log := [.mkdir, .writeSchema ({ la0 with flusher := false } : Loaded).img] }

theorem ca0_eq : ca0 = ca0lit := by rfl

theorem inva0 : Inv' ca0 la0 := by
  rw [ca0_eq]
  have hv : ca0lit.view = fun _ => none := rfl
  refine ⟨⟨rfl, new_wf descs2, by rw [hv]; exact new_reflects descs2, ?_, ?_, ?_, ?_, fun _ => rfl, fun _ => rfl,
    OMap.Keyed.nil, OMap.Keyed.nil, OMap.Keyed.nil⟩, fun h => absurd h (by decide)⟩
  · intro u; rw [hv]; show u ∈ [] ↔ _; simp
  · intro u o h; rw [hv] at h; cases h
  · intro u o h; cases h
  · intro u o h; cases h

theorem shapea0 : ShapeOk ca0 la0 := by rw [ca0_eq]; unfold ShapeOk; decide

theorem insState_live (c : Coll) (l : Loaded) (o : Obj) (ix' : ObjIndex) (commit : Bool) :
    (insState c l o ix' commit).live = c.live := by
  simp only [insState, Coll.setMem]
  repeat' split
  all_goals simp

/-- observation: right after a first `create` with asynchronous settings the flusher is not started
    yet, so NO loaded schema makes `Inv'` hold; the first access (`Coll.schema`) repairs this -/
theorem fresh_async_create_not_inv : ¬ ∃ l, Inv' (cE.create descs2 sta).1 l := by
  rintro ⟨l, h⟩
  have hm : (cE.create descs2 sta).1.mem = some { la0 with flusher := false } := rfl
  have hl := Option.some.inj (h.mem.symm.trans hm)
  subst hl
  exact absurd (h.flusher rfl) (by decide)

/-- what one accepted insert of a new object establishes in ANY mode -/
theorem any_step {c : Coll} {l : Loaded} (h : Inv' c l)
    (o : Obj) (fresh : Nat) {os : Obj} (hst : storedObj E l o fresh = os)
    (hval : E.validate (E.canon l.descs (E.transform o)) = true) (hser : E.serialisable os = true)
    (ht : typedB l.index os = true) (hn : conflictB l.index os = false) (hnew : l.index.oidOf os.uuid = none)
    {ix' : ObjIndex} (hix : insIxFast l.index os = ix') :
    (Coll.insert E c o fresh).2 = .ok () ∧
    Inv' (Coll.insert E c o fresh).1 { l with index := ix' } ∧
    (Coll.insert E c o fresh).1.view = updView c.view os.uuid (some os) ∧
    (Coll.insert E c o fresh).1.live = c.live := by
  have ht' : (storedObj E l o fresh).Typed l.index := by rw [hst]; exact typed_of_typedB ht
  have hu : l.index.satisfyAll (storedObj E l o fresh) = .ok () := by
    rw [hst]; exact satisfy_ok_of h.wf (typed_of_typedB ht) hn
  have hser' : E.serialisable (storedObj E l o fresh) = true := by rw [hst]; exact hser
  have hr : (Coll.insert E c o fresh).2 = .ok () := insert_ok_of h.toInv o fresh ht' hval hser' hu
  have hix' : l.index.insertOrUpdate (storedObj E l o fresh) = .ok ix' := by
    rw [hst, insertOrUpdate_new h.wf (typed_of_typedB ht) hn hnew, hix]
  unfold storedObj at ht' hu hser' hix' hst
  have he := insertCore_eq (E := E) (c := c) true hser' hu hix'
  obtain ⟨c', l', g1, g2, g3, _⟩ := insertCore_accept' (E := E) true h ht' hser' hu
  rw [he] at g1
  injection g1 with g1a g1b
  injection g1b with g1b
  subst g1a; subst g1b
  have hi : Coll.insert E c o fresh = (insState c l (assignNew (E.canon l.descs (E.transform o)) fresh) ix' true, .ok ()) := by
    rw [insert_valid_eq h.toInv o fresh hval, he]
  rw [hi]
  refine ⟨rfl, g2, by rw [← hst]; exact g3, ?_⟩
  exact insState_live c l _ ix' true

def la1 : Loaded := { la0 with index := ix1 }
/-- THE asynchronous witness state: one accepted object, still pending -/
def ca : Coll := (Coll.insert E ca0 o1 101).1

theorem stepa : (Coll.insert E ca0 o1 101).2 = .ok () ∧ Inv' ca la1 ∧
    ca.view = updView ca0.view o1s.uuid (some o1s) ∧ ca.live = ca0.live :=
  any_step inva0 o1 101 (os := o1s) (by decide) (by decide) (by decide) (by decide) (by decide) (by decide)
    (ix' := ix1) (by decide)

theorem insa_ok : (Coll.insert E ca0 o1 101).2 = .ok () := stepa.1
theorem inva : Inv' ca la1 := stepa.2.1
theorem shapea : ShapeOk ca la1 := by unfold ShapeOk; rw [stepa.2.2.2]; exact shapea0
theorem pendNodup_a0 : PendNodup ca0 := PendNodup.of_nil (by rw [ca0_eq]; rfl)
theorem pendNodup_a : PendNodup ca := pendNodup_a0.insert E o1 101

/-- the accepted object is pending, and the directory has not been touched -/
theorem pending_a : ca.pending.get? 1 = some o1s :=
  async_insert_pending inva0 o1 101 (typed_of_typedB (by decide)) rfl insa_ok
theorem disk_a : ca.disk = ca0.disk :=
  (async_insert_no_write inva0 o1 101 (typed_of_typedB (by decide)) rfl).1

/-! ## 5. the property theorems instantiated at the witnesses -/

theorem view2_some {u : Nat} {o : Obj} (h : c2.view u = some o) : (u = 2 ∧ o = o2s) ∨ (u = 1 ∧ o = o1s) := by
  rw [view2] at h
  replace h : (if u = 2 then some o2s else if u = 1 then some o1s else none) = some o := h
  by_cases h2 : u = 2
  · rw [if_pos h2] at h; injection h with h; exact Or.inl ⟨h2, h.symm⟩
  · rw [if_neg h2] at h
    by_cases h1 : u = 1
    · rw [if_pos h1] at h; injection h with h; exact Or.inr ⟨h1, h.symm⟩
    · rw [if_neg h1] at h; cases h

theorem view2_zero : c2.view 0 = none := by rw [view2]; rfl

/-! ### C01 -/

/-- a call list with an accepted insert, reads, a delete, count and all -/
def calls3 : List Call := [.ins o3 3, .get 1, .exist 9, .del 2, .count, .all]

theorem callsTyped3 : CallsTyped E l2 calls3 := by
  rw [callsTyped_iff]
  intro o fresh hm
  simp only [calls3, List.mem_cons, List.mem_nil_iff, or_false, reduceCtorEq] at hm
  injection hm with h1 h2
  subst h1; subst h2
  exact typed3'

example : ∃ l' s' obsSpec, Spec.Run cfg2 E s2 calls3 s' obsSpec ∧
      ObsListEq (Coll.run E c2 calls3).snd obsSpec ∧ Sim cfg2 (Coll.run E c2 calls3).fst l' s' ∧ Stable l2 l' :=
  C01_refines sim2 callsTyped3

/-- the run that BUILT `c2`, seen from the created collection -/
example : ∃ l' s' obsSpec, Spec.Run cfg2 E s0 [.ins o1 101, .ins o2 102] s' obsSpec ∧
      ObsListEq (Coll.run E c0 [.ins o1 101, .ins o2 102]).snd obsSpec ∧
      Sim cfg2 (Coll.run E c0 [.ins o1 101, .ins o2 102]).fst l' s' ∧ Stable l0 l' :=
  C01_refines sim0 (by
    rw [callsTyped_iff]
    intro o fresh hm
    simp only [List.mem_cons, List.mem_nil_iff, or_false] at hm
    rcases hm with hm | hm <;> (injection hm with h1 h2; subst h1; subst h2) <;> exact typed_of_typedB (by decide))

example : ((iter 5 (fun c => (c.get 9).fst) c2).get 9).snd = Res.err Err.notFound :=
  C01_absent_always sim2 9 rfl 5

example : (Coll.step E (Coll.run E c2 [.get 1, .count, .exist 2]).fst (Call.get 9)).snd = Obs.obj (Res.err Err.notFound) :=
  C01_absent_after_reads sim2 9 rfl [.get 1, .count, .exist 2] (by decide)

example : Sim { descs := descs2, uniquePos := (ObjIndex.new descs2).uniquePos } (emptyColl descs2 sta)
    (emptyLoaded descs2 sta) { map := fun _ => none, dom := [] } := C01_initial descs2 sta

/-- the same abstract content under another configuration: `c2` switched to asynchronous writes -/
def c2a : Coll := (c2.create descs2 sta).fst
def l2a : Loaded := createLoaded l2 sta

theorem switch2 : (c2.create descs2 sta).snd = Res.ok () ∧ c2a.pending = [] ∧ c2a.cache = [] ∧ c2a.view = c2.view ∧ Inv' c2a l2a :=
  C17_switch_settings descs2 sta inv2 (by unfold PendNodupC; rw [pending2]; exact List.nodup_nil) (by decide)

theorem sim2a : Sim cfg2 c2a l2a s2 :=
  ⟨switch2.2.2.2.2, by rw [switch2.2.2.2.1]; exact view2.symm, List.Perm.refl _, rfl,
    fun p => by rw [show l2a.index.uniquePos = [0] from by decide]; exact Iff.rfl⟩

theorem callsTyped3a : CallsTyped E l2a calls3 :=
  fun k hk => (callsTyped3 k hk).congr rfl rfl

/-- the synchronous and the asynchronous collection answer the call list alike -/
example : ObsListEq (Coll.run E c2 calls3).snd (Coll.run E c2a calls3).snd :=
  C01_config_independent sim2 sim2a callsTyped3 callsTyped3a

/-! ### C02 / C13 (search on the collection) -/

theorem fieldS : l2.index.field? "S" = some (fS [(.str [65, 66], 0), (.str [65, 66], 1)]) := by decide
theorem fieldN : l2.index.field? "N" = some (fN [(.i64 20, 1), (.i64 10, 0)]) := by decide
theorem resolvable (f : String) (h : pathResolvable live2 f = true) : pathResolvable c2.live f = true := by
  rw [live2_eq]; exact h

/-- searching S = "ab" (lower case supplied, upper case stored): exactly the two tied objects -/
example : ∃ s, Coll.search E c2 "S" (some .eq) (Leaf.v (.str [97, 98])) none = (c2, s) ∧ s.err = none ∧
      (∀ e ∈ s.fields, ∃ u, l2.index.uuidOf e.snd = some u ∧ Matches c2 (fun _ => false) .eq 1 (.str [65, 66]) u) ∧
      (∀ u, Matches c2 (fun _ => false) .eq 1 (.str [65, 66]) u → ∃ e ∈ s.fields, l2.index.uuidOf e.snd = some u) ∧
      Desc s.fields ∧ (s.fields.map (·.snd)).Nodup :=
  C02_search_indexed inv2 fieldS (resolvable "S" (by decide)) (by decide) rfl (by decide)

theorem fieldF : l2.index.field? "F" = none := by decide

/-- every stored object has a value at the position of the unindexed field F -/
theorem hasF : ∀ u o, c2.view u = some o → ∃ x, o.field 2 = Leaf.v x := by
  intro u o h
  rcases view2_some h with ⟨_, rfl⟩ | ⟨_, rfl⟩
  · exact ⟨.u64 3, rfl⟩
  · exact ⟨.u64 7, rfl⟩

/-- scanning the unindexed field F ≥ 5 -/
example : ∃ c' s, Coll.search E c2 "F" (some .ge) (Leaf.v (.u64 5)) none = (c', s) ∧ s.err = none ∧
      c'.view = c2.view ∧ c'.disk = c2.disk ∧
      (∀ e ∈ s.fields, ∃ u, l2.index.uuidOf e.snd = some u ∧ Matches c2 (fun _ => false) .ge 2 (.u64 5) u) ∧
      (∀ u, Matches c2 (fun _ => false) .ge 2 (.u64 5) u → ∃ e ∈ s.fields, l2.index.uuidOf e.snd = some u) ∧
      (s.fields.map (·.snd)).Nodup :=
  C02_search_unindexed (d := dF) inv2 fieldF (resolvable "F" (by decide)) (by decide) (by decide) rfl (by decide) hasF

/-- an earlier result (both objects, in N order) -/
def sN : Search := { fields := [(.i64 20, 1), (.i64 10, 0)] }

example (u : Nat) : Denotes l2 (Coll.searchAnd E c2 sN "S" (some .le) (Leaf.v (.str [97, 98]))).snd.fields u ↔
      Denotes l2 sN.fields u ∧ Matches c2 (fun _ => false) .le 1 (.str [65, 66]) u :=
  C02_and_intersection inv2 fieldS (resolvable "S" (by decide)) (by decide) rfl (by decide) sN rfl (by decide) u

example : (Coll.searchOr E c2 sN "N" (some .gt) (Leaf.v (.i64 15))).fst = c2 ∧
    ((sN.fields.map (·.snd)).Nodup → ((Coll.searchOr E c2 sN "N" (some .gt) (Leaf.v (.i64 15))).snd.fields.map (·.snd)).Nodup) ∧
    ∀ u, Denotes l2 (Coll.searchOr E c2 sN "N" (some .gt) (Leaf.v (.i64 15))).snd.fields u ↔
      Matches c2 (fun _ => false) .gt 0 (.i64 15) u ∨ Denotes l2 sN.fields u :=
  C02_or_is_union inv2 fieldN (resolvable "N" (by decide)) (by decide) rfl (by decide) sN rfl

example : ∃ c' l', c2.searchDelete sN = (c', Res.ok ()) ∧ Inv' c' l' ∧
      c'.view = fun w => if w ∈ sN.uuids l2 then none else c2.view w :=
  C02_search_delete inv2 sN rfl

theorem memS : fS [(.str [65, 66], 0), (.str [65, 66], 1)] ∈ l2.index.fields := by decide
theorem memN : fN [(.i64 20, 1), (.i64 10, 0)] ∈ l2.index.fields := by decide

example : ∃ r, ObjIndex.searchOp none .ge (fN [(.i64 20, 1), (.i64 10, 0)]).idx (.i64 15) = .ok r ∧
      (∀ e : Entry, e ∈ r ↔ ∃ u o, (e.2, u) ∈ l2.index.ids ∧ c2.view u = some o ∧ o.field 0 = .v e.1 ∧
                                   Val.eval (fun _ => false) .ge e.1 (.i64 15) = true) ∧
      r.Sublist (fN [(.i64 20, 1), (.i64 10, 0)]).idx :=
  C02_collection_exact wf2 reflects2 memN .ge (by decide) none (.i64 15)

example : ∃ r, ObjIndex.searchOp (some fun b => [65].isPrefixOf b) .re (fS [(.str [65, 66], 0), (.str [65, 66], 1)]).idx (.str [65]) = .ok r ∧
      (∀ e : Entry, e ∈ r ↔ ∃ u o, (e.2, u) ∈ l2.index.ids ∧ c2.view u = some o ∧ o.field 1 = .v e.1 ∧
                                   Val.eval (fun b => [65].isPrefixOf b) .re e.1 (.str [65]) = true) ∧
      r.Sublist (fS [(.str [65, 66], 0), (.str [65, 66], 1)]).idx :=
  C02_pattern_exact wf2 reflects2 memS rfl (fun b => [65].isPrefixOf b) [65]

/-- the index list of the three-object collection is descending, with a tie -/
theorem descS3 : Desc [((.str [65, 66] : Val), 0), (.str [65, 66], 1), (.str [65, 65], 2)] := by unfold Desc; decide

example : ObjIndex.searchOp none .gt [((.str [65, 66] : Val), 0), (.str [65, 66], 1), (.str [65, 65], 2)] (.str [65, 65]) =
    .ok ([((.str [65, 66] : Val), 0), (.str [65, 66], 1), (.str [65, 65], 2)].filter
          (fun e => Val.eval (fun _ => false) .gt e.1 (.str [65, 65]))) :=
  C02_index_exact none .gt (by decide) _ _ descS3

example : (∀ e ∈ [((.str [65, 66] : Val), 0), (.str [65, 66], 1), (.str [65, 65], 2)].take
              (insertionIndex [((.str [65, 66] : Val), 0), (.str [65, 66], 1), (.str [65, 65], 2)] (.str [65, 66])),
            Val.lt e.1 (.str [65, 66]) = false) ∧
    (∀ e ∈ [((.str [65, 66] : Val), 0), (.str [65, 66], 1), (.str [65, 65], 2)].drop
              (insertionIndex [((.str [65, 66] : Val), 0), (.str [65, 66], 1), (.str [65, 65], 2)] (.str [65, 66])),
            Val.lt e.1 (.str [65, 66]) = true) :=
  C02_bisection _ _ descS3

example : Desc (FIdx.constrain [((.str [65, 66] : Val), 0), (.str [65, 66], 1), (.str [65, 65], 2)] sN.fields) ∧
    (FIdx.constrain [((.str [65, 66] : Val), 0), (.str [65, 66], 1), (.str [65, 65], 2)] sN.fields).Perm
      ([((.str [65, 66] : Val), 0), (.str [65, 66], 1), (.str [65, 65], 2)].filter (fun e => sN.fields.any (fun f => f.2 == e.2))) :=
  C02_and_constrain _ sN.fields (by decide) (by decide)

example : (Coll.searchOr E c2 sN "S" (some .eq) (Leaf.v (.str [97, 98]))).2.fields =
      (Coll.search E c2 "S" (some .eq) (Leaf.v (.str [97, 98])) none).2.fields ++
        sN.fields.filter (fun f => !((Coll.search E c2 "S" (some .eq) (Leaf.v (.str [97, 98])) none).2.fields.any (fun g => g.2 == f.2))) :=
  C02_or_union E c2 sN "S" (some .eq) _ rfl

example : (sN.expects true 3).err = some Err.unexpectedN := C02_expects_class sN true 3 rfl (by decide)

example : (sN.expects false 2).err = none ↔ (sN.fields.length = 2 ∨ (false = true ∧ sN.fields.length = 0)) :=
  C02_expects_iff sN false 2 rfl

/-! ### C03 -/

/-- a different object carrying the unique value N = 10 already stored for object 1 -/
def twin : Obj := { uuid := 9, shape := "t", vals := [.v (.i64 10), .v (.str [90]), .v (.u64 0), .opaque "true"] }
theorem twin_typed : twin.Typed l2.index := typed_of_typedB (by decide)

/-- rejected, by the right-hand side of `C03_reject_iff` -/
theorem twin_rejected : l2.index.insertOrUpdate twin = .err .unique :=
  (C03_reject_iff wf2 twin_typed).mpr ((conflictB_iff _ _).mp (by decide))

example : (fN [(.i64 20, 1), (.i64 10, 0)]).idx.Pairwise (fun a b => a.1 ≠ b.1) :=
  C03_unique_invariant wf2 memN rfl

example : ix3.WF := C03_preserved_by_insert wf2 typed3 iou3
example : (l2.index.deleteByUUID 1).WF := C03_preserved_by_delete wf2 1
example : l2.index.reload.WF := C03_preserved_by_reopen wf2
example : (∃ ix', l2.index.insertOrUpdate o3s = .ok ix') ∨ l2.index.insertOrUpdate o3s = .err .unique :=
  C03_accept_or_unique wf2 typed3
example : ∀ p ∈ l2.index.reload.ids, p.1 < l2.index.reload.next := C03_reload_next_above wf2

/-! ### C04 -/

example : ∃ l', c2.reopen.schema = ({ c2.reopen with mem := some l' }, Res.ok l') ∧ l'.index = l2.index.reload ∧
      l'.settings = l2.settings ∧ l'.descs = l2.descs ∧ Inv' { c2.reopen with mem := some l' } l' ∧
      ({ c2.reopen with mem := some l' } : Coll).view = c2.view :=
  C04_reopen inv2 synced2 shape2 rfl

example : ∃ l', Inv' (Coll.insert E c2 o3 3).fst l' ∧ Synced (Coll.insert E c2 o3 3).fst l' :=
  C04_sync_insert_commits inv2 synced2 rfl o3 3 typed3' ins3_ok

example : (c2.delete 1).snd = Res.ok () ∧ ∃ l', Inv' (c2.delete 1).fst l' ∧ Synced (c2.delete 1).fst l' :=
  C04_sync_delete_commits inv2 synced2 1

/-- any mode: the asynchronous collection with its pending object -/
example : (ca.close.fst.pending = [] ∧ ca.close.fst.disk.schema = some la1.img ∧ ca.close.snd = Res.ok ()) ∧
    ∃ l', Inv' { ca.close.fst.reopen with mem := some l' } l' ∧
      ({ ca.close.fst.reopen with mem := some l' } : Coll).view = ca.view :=
  C04_close_then_reopen inva pendNodup_a shapea

example : ∀ p ∈ l2.index.reload.ids, p.fst < l2.index.reload.next := C04_ids_not_reused wf2

-- the decimal reader: 0.1 = 0x3FB999999999999A is accepted for exactly that key, its neighbours
-- are rejected, and the hypotheses of C04_decimal_adjacent_excl_partial hold at that key
example : Codec.decIsKey ⟨false, 1, -1⟩ 4591870180066957722 = true := by decide
example : Codec.decIsKey ⟨false, 1, -1⟩ 4591870180066957723 = false := by decide
example : Codec.decIsKey ⟨false, 1, -1⟩ 4591870180066957721 = false := by decide
example : ¬ (Codec.decIsKey ⟨false, 1, -1⟩ 4591870180066957722 = true ∧
    Codec.decIsKey ⟨false, 1, -1⟩ (4591870180066957722 + 1) = true) :=
  C04_decimal_adjacent_excl _ _ (by decide) (by decide)
-- 1<<60 = 0x43B0000000000000 (key 1083·2^52), text "1152921504606846976"
example : Codec.decIsKey ⟨false, (2 ^ 52 + 4877398396442247168 % 2 ^ 52) * 2 ^ 8, 0⟩ ((4877398396442247168 : Nat) : Int) = true :=
  C04_decimal_exact_int_accepted 4877398396442247168 8 (by decide) (by decide)
example : (2 ^ 52 + 4877398396442247168 % 2 ^ 52) * 2 ^ 8 = 1152921504606846976 := by decide
example : Codec.digitsVal ("1152921504606846976".toList) = some 1152921504606846976 := by decide
example : Codec.digitsVal ("12a".toList) = none := by decide
-- 0.5 = 0x3FE0000000000000 (key 1022·2^52): e = 1022, k = 53, text 2^52·5^53 e-53
example : Codec.decIsKey ⟨false, (if 4602678819172646912 / 2 ^ 52 = 0 then 4602678819172646912 % 2 ^ 52
    else 2 ^ 52 + 4602678819172646912 % 2 ^ 52) * 5 ^ 53, -((53 : Nat) : Int)⟩ ((4602678819172646912 : Nat) : Int) = true :=
  C04_decimal_exact_frac_accepted 4602678819172646912 53 (by decide) (by decide) (by decide)
example : Codec.decIsKey ⟨false, 5, -1⟩ 4602678819172646912 = true := by decide
-- the hypotheses of C04_decimal_functional are met by a real pair (text 0.1, its key)
example : ∀ k', Codec.decIsKey ⟨false, 1, -1⟩ k' = true → (4591870180066957722 : Int) = k' :=
  fun k' h' => C04_decimal_functional _ _ k' (by decide) h'
example : Codec.valueIs (.num "1152921504606846976") (.i64 1152921504606846976) = true := by decide
example : ∀ w, Codec.Val.tag (.i64 7) = Codec.Val.tag w → Codec.valueIs (.num "7") w = true → Val.i64 7 = w :=
  fun w ht h' => C04_schema_value_exact (.num "7") _ w ht (by decide) h'
-- the hypothesis of C04_schema_entries_count is met by a concrete accepted entry list (evaluated,
-- a test: `checkEntries` goes through `Array.qsort`, which the kernel does not unfold)
#guard (match Codec.checkEntries "A" [(1, 10)] [(1, 10)] 5 0 [.arr [.num "7", .num "1"]] [(.i64 7, 1)] with | .ok () => true | _ => false)
#guard (match Codec.checkEntries "A" [(1, 10)] [(1, 10)] 5 0 [] [(.i64 7, 1)] with | .ok () => false | _ => true)
-- 1<<60 as text, end to end
example : Codec.valueIs (.num (String.ofList "1152921504606846976".toList)) (.f64 ((4877398396442247168 : Nat) : Int)) = true :=
  C04_schema_exact_int_text_accepted _ 4877398396442247168 8 (by decide) (by decide) (by decide) (by decide) (by decide)
-- hypotheses of C04_schema_constraints_exact / C04_schema_keys_closed are met (and can fail): evaluated, tests
#guard (match Codec.checkCons (some (.obj [(Codec.sbytes "index", .bool true), (Codec.sbytes "unique", .bool true)])) { index := true, unique := true } "f" with | .ok () => true | _ => false)
#guard (match Codec.checkCons (some (.obj [(Codec.sbytes "index", .bool true)])) { index := true, unique := true } "f" with | .ok () => false | _ => true)
#guard (match Codec.keysWithin (.obj [(Codec.sbytes "indexx", .bool true)]) ["index", "unique", "upper", "lower"] "f" with | .ok () => false | _ => true)
-- -0.1
example : Codec.decIsKey ⟨true, 1, -1⟩ (-4591870180066957722) = true := by decide

/-! ### C05 -/

theorem typed3s : Obj.Typed l2.index (storedObj E l2 o3 3) := by rw [stored3]; exact typed3

example : ∃ ix', l2.index.insertOrUpdate (storedObj E l2 o3 3) = Res.ok ix' ∧
      (Coll.insert E c2 o3 3).fst.log = c2.log ++ [FsOp.writeObj (storedObj E l2 o3 3), FsOp.writeSchema ({ l2 with index := ix' } : Loaded).img] :=
  C05_insert_ops inv2 synced2 rfl o3 3 typed3s ins3_ok

/-- a crash at any point of the third insert is detected or harmless -/
example : ∃ delta, (Coll.insert E c2 o3 3).fst.log = c2.log ++ delta ∧
      ∀ j, Detected c2.live (c2.disk.applyAll (delta.take j)) ∨ Consistent c2.live (c2.disk.applyAll (delta.take j)) :=
  C05_partial_insert_new inv2 synced2 shape2 rfl o3 3 typed3s ins3_ok (by rw [stored3]; decide)

example : ∃ delta, (c2.delete 1).fst.log = c2.log ++ delta ∧
      ∀ j, Detected c2.live (c2.disk.applyAll (delta.take j)) ∨ Consistent c2.live (c2.disk.applyAll (delta.take j)) :=
  C05_partial_delete inv2 synced2 shape2 1 (by decide)

/-- in any mode: validation, serialisation and the (Boolean) conflict check passed ⇒ accepted -/
theorem insert_ok {c : Coll} {l : Loaded} (h : Sod.Inv c l) (o : Obj) (fresh : Nat) {os : Obj}
    (hst : storedObj E l o fresh = os) (hval : E.validate (E.canon l.descs (E.transform o)) = true)
    (hser : E.serialisable os = true) (ht : typedB l.index os = true) (hn : conflictB l.index os = false) :
    (Coll.insert E c o fresh).2 = .ok () :=
  insert_ok_of h o fresh (by rw [hst]; exact typed_of_typedB ht) hval (by rw [hst]; exact hser)
    (by rw [hst]; exact satisfy_ok_of h.wf (typed_of_typedB ht) hn)

/-- … and a conflict on a unique field ⇒ refused with the uniqueness error, state unchanged -/
theorem insert_unique {c : Coll} {l : Loaded} (h : Sod.Inv c l) (o : Obj) (fresh : Nat) {os : Obj}
    (hst : storedObj E l o fresh = os) (hval : E.validate (E.canon l.descs (E.transform o)) = true)
    (hser : E.serialisable os = true) (ht : typedB l.index os = true) (hc : conflictB l.index os = true) :
    Coll.insert E c o fresh = (c, .err .unique) := by
  have ht' : (storedObj E l o fresh).Typed l.index := by rw [hst]; exact typed_of_typedB ht
  have hu : l.index.satisfyAll (storedObj E l o fresh) = .err .unique := by
    rw [hst]; exact (satisfyAll_unique_iff h.wf (typed_of_typedB ht)).mpr ((conflictB_iff _ _).mp hc)
  rw [← hst] at hser
  unfold storedObj at ht' hu hser
  rcases insert_cases h o fresh ht' with ⟨h1, _⟩ | ⟨_, h1, _⟩ | ⟨_, _, _, hi⟩ | ⟨_, _, h1, _⟩
  · rw [hval] at h1; cases h1
  · rw [hser] at h1; cases h1
  · exact hi
  · rw [hu] at h1; cases h1

/-- an UPDATE of object 1 that changes no indexed value (other case of S, other F, B and shape) -/
def o1u : Obj := { uuid := 1, shape := "p2", vals := [.v (.i64 10), .v (.str [97, 66]), .v (.u64 8), .opaque "false"] }
def o1us : Obj := { uuid := 1, shape := "p2", vals := [.v (.i64 10), .v (.str [65, 66]), .v (.u64 8), .opaque "false"] }
theorem stored1u : storedObj E l2 o1u 55 = o1us := by decide
theorem upd_ok : (Coll.insert E c2 o1u 55).2 = .ok () :=
  insert_ok inv2_weak o1u 55 stored1u (by decide) (by decide) (by decide) (by decide)

example : ∃ delta, (Coll.insert E c2 o1u 55).fst.log = c2.log ++ delta ∧ delta.length = 2 ∧
      Consistent c2.live (c2.disk.applyAll (delta.take 0)) ∧ Consistent c2.live (c2.disk.applyAll (delta.take 1)) ∧
      Consistent c2.live (c2.disk.applyAll (delta.take 2)) :=
  C05_partial_update_same_keys inv2 synced2 shape2 rfl o1u 55 (by rw [stored1u]; exact typed_of_typedB (by decide)) upd_ok
    (by rw [stored1u]; decide)
    (by
      rw [stored1u]
      intro old hold fi hfi
      rcases view2_some hold with ⟨h, _⟩ | ⟨_, rfl⟩
      · cases h
      · have : fi ∈ [fN [(.i64 20, 1), (.i64 10, 0)], fS [(.str [65, 66], 0), (.str [65, 66], 1)]] := hfi
        simp only [List.mem_cons, List.mem_nil_iff, or_false] at this
        rcases this with rfl | rfl <;> rfl)

example : (c2.repair.fst.disk = c2.disk ∧ c2.repair.fst.log = c2.log) := C05_repair_no_fs c2

/-! ### C06 -/

theorem stored_twin : storedObj E l2 twin 9 = twin := by decide
theorem twin_insert : Coll.insert E c2 twin 9 = (c2, .err .unique) :=
  insert_unique inv2_weak twin 9 stored_twin (by decide) (by decide) (by decide) (by decide)

/-- the rejected duplicate leaves the whole concrete state as it was -/
example : (Coll.insert E c2 twin 9).fst = c2 :=
  C06_insert_rejected_frame inv2_weak twin 9 (by show Obj.Typed l2.index (storedObj E l2 twin 9); rw [stored_twin]; exact twin_typed)
    .unique (by rw [twin_insert])

/-- an object the Validate hook refuses, and a fourth good object -/
def bad : Obj := { uuid := 7, shape := "bad", vals := [.v (.i64 30), .v (.str [120]), .v (.u64 0), .opaque "true"] }
def o4 : Obj := { uuid := 4, shape := "s", vals := [.v (.i64 25), .v (.str [122, 122]), .v (.u64 1), .opaque "false"] }
def o4s : Obj := { uuid := 4, shape := "s", vals := [.v (.i64 25), .v (.str [90, 90]), .v (.u64 1), .opaque "false"] }

theorem sameShape2 : SameShape (ObjIndex.new l2.descs) l2.index := by unfold SameShape; decide

theorem batch_typed : ∀ o ∈ [bad, o4], Obj.Typed l2.index (vald E l2.descs o) := by
  intro o ho
  simp only [List.mem_cons, List.mem_nil_iff, or_false] at ho
  rcases ho with rfl | rfl <;> exact typed_of_typedB (by decide)

theorem batch_refused : Coll.many E c2 [bad, o4] none = (c2, 0, .err .invalid) :=
  many_checked_err inv2_weak [bad, o4] none .invalid (by simp) (by simp) (by decide)

example : Coll.many E c2 [bad, o4] none = (c2, 0, Res.err .invalid) :=
  C06_many_rejected_frame inv2 [bad, o4] none batch_typed sameShape2 .invalid (by rw [batch_refused])

example : (E.serialisable o3s = false → Coll.insertCore E c2 l2 o3s true = (c2, Res.err Err.other)) ∧
    (E.serialisable twin = true → l2.index.satisfyAll twin = Res.err Err.unique →
       Coll.insertCore E c2 l2 twin true = (c2, Res.err Err.unique)) :=
  ⟨(C06_reject_classes true).1, (C06_reject_classes true).2⟩

/-! ### C07 -/

theorem batch34_typed : ∀ o ∈ [o3, o4], Obj.Typed l2.index (vald E l2.descs o) := by
  intro o ho
  simp only [List.mem_cons, List.mem_nil_iff, or_false] at ho
  rcases ho with rfl | rfl <;> exact typed_of_typedB (by decide)

example : (∃ e, Coll.many E c2 [o3, o4] none = (c2, 0, Res.err e)) ∨
      ∃ c' l', Coll.many E c2 [o3, o4] none = (c', [o3, o4].length, Res.ok ()) ∧ Inv' c' l' ∧
        c'.view = List.foldl (fun v o => updView v o.uuid (some o)) c2.view (validated E l2.descs [o3, o4]) ∧
        l'.settings = l2.settings ∧ l'.descs = l2.descs ∧ SameShape l'.index l2.index :=
  C07_many_atomic inv2 [o3, o4] none batch34_typed sameShape2

theorem upos2 {p : Nat} (h : UPos l2.index p) : p = 0 := by
  obtain ⟨fi, hfi, hp, hu⟩ := h
  have : fi ∈ [fN [(.i64 20, 1), (.i64 10, 0)], fS [(.str [65, 66], 0), (.str [65, 66], 1)]] := hfi
  simp only [List.mem_cons, List.mem_nil_iff, or_false] at this
  rcases this with rfl | rfl
  · exact hp.symm
  · cases hu

/-- the validated batch [o3s, o4s] cannot be refused by the insertion loop -/
example : ∃ c' l', Coll.manyInsert E c2 l2 [o3s, o4s] 0 = (c', l', [o3s, o4s].length, none) ∧ Inv' c' l' ∧
      c'.view = List.foldl (fun v o => updView v o.uuid (some o)) c2.view [o3s, o4s] :=
  C07_validated_cannot_fail inv2 [o3s, o4s]
    (by intro o ho
        simp only [List.mem_cons, List.mem_nil_iff, or_false] at ho
        rcases ho with rfl | rfl <;> exact typed_of_typedB (by decide))
    (by intro o ho
        simp only [List.mem_cons, List.mem_nil_iff, or_false] at ho
        rcases ho with rfl | rfl <;> decide)
    (by intro o ho
        simp only [List.mem_cons, List.mem_nil_iff, or_false] at ho
        rcases ho with rfl | rfl <;> exact satisfy_ok_of wf2 (typed_of_typedB (by decide)) (by decide))
    (by
      refine ⟨fun p _ u o' hu _ => (by cases hu), ?_, trivial⟩
      intro p hp u o' hu hf
      have hp0 := upos2 hp
      subst hp0
      unfold updView at hu
      by_cases h3 : u = o3s.uuid
      · rw [if_pos h3] at hu
        injection hu with hu
        subst hu
        exact absurd hf (by decide)
      · rw [if_neg h3] at hu; cases hu)

example : ∃ done rest c' l' r, chunks 2 [o3, o4, bad] = done ++ rest ∧ done.flatten ++ rest.flatten = [o3, o4, bad] ∧
      Coll.bulk E c2 [o3, o4, bad] 2 = (c', done.flatten.length, r) ∧ Inv' c' l' ∧
      c'.view = List.foldl (fun v o => updView v o.uuid (some o)) c2.view (validated E l2.descs done.flatten) ∧
      (rest = [] ∧ r = Res.ok () ∨ ∃ ch rest' e, rest = ch :: rest' ∧ r = Res.err e ∧ Coll.many E c' ch = (c', 0, Res.err e)) :=
  C07_bulk inv2 [o3, o4, bad] 2
    (by intro o ho
        simp only [List.mem_cons, List.mem_nil_iff, or_false] at ho
        rcases ho with rfl | rfl | rfl <;> exact typed_of_typedB (by decide))
    sameShape2

example : (chunks 2 [o3, o4, bad]).flatten = [o3, o4, bad] ∧
    ∃ init last, chunks 2 [o3, o4, bad] = init ++ [last] ∧ (∀ ch ∈ init, ch.length = 2) ∧ last.length < 2 :=
  C07_chunks 2 (by decide) [o3, o4, bad]

/-! ### C08 / C09 : the lock machine -/

section Locks
open Sod.Lock

/-- two concurrent calls, with the lock paths the extractor reports for them:
    thread 0 = `DB.AssignIndex` (reader of DB.l, then DB.sl), thread 1 = `DB.Commit` (writer of DB.l, then DB.sl) -/
def pathAssignIndex : List Act := [.acq (0, 0) .R, .acq (3, 0) .W, .rel (3, 0) .W, .rel (0, 0) .R]
def pathCommit : List Act := [.acq (0, 0) .W, .acq (3, 0) .W, .rel (3, 0) .W, .rel (0, 0) .W]
def thA : Thread := { todo := pathAssignIndex }
def thC : Thread := { todo := pathCommit }
def lk0 : State := [thA, thC]

theorem covers_A : (Generated.Locks.entries[2]'(by decide)).covers pathAssignIndex := by
  unfold EntryFacts.covers; decide
theorem covers_C : (Generated.Locks.entries[4]'(by decide)).covers pathCommit := by
  unfold EntryFacts.covers; decide

/-- the two running calls form an `Initial` state (through the regenerated discipline facts) -/
theorem lk0_initial : Initial lk0 :=
  C09_entries_initial lk0 (by
    intro t ht
    simp only [lk0, List.mem_cons, List.mem_nil_iff, or_false] at ht
    rcases ht with rfl | rfl
    · exact ⟨rfl, rfl, _, List.getElem_mem _, covers_A⟩
    · exact ⟨rfl, rfl, _, List.getElem_mem _, covers_C⟩)

theorem lk0_get {j : Nat} {u : Thread} (h : lk0[j]? = some u) : (j = 0 ∧ u = thA) ∨ (j = 1 ∧ u = thC) := by
  match j, h with
  | 0, h => exact Or.inl ⟨rfl, (Option.some.inj h).symm⟩
  | 1, h => exact Or.inr ⟨rfl, (Option.some.inj h).symm⟩
  | j + 2, h => simp [lk0] at h

/-- the writer has been granted DB.l -/
def thC1 : Thread := { todo := [.acq (3, 0) .W, .rel (3, 0) .W, .rel (0, 0) .W], held := [((0, 0), .W)], pend := false }
def lk1 : State := [thA, thC1]

theorem lk0_step : PStep lk0 lk1 :=
  PStep.grantW lk0 1 thC (0, 0) _ rfl rfl (by
    intro j u hj hu
    rcases lk0_get hu with ⟨_, rfl⟩ | ⟨h1, _⟩
    · rintro ⟨m, hm⟩; cases hm
    · exact absurd h1 hj)

theorem lk1_reach : Lock.Reach lk0 lk1 := Lock.Reach.step lk0 lk1 Lock.Reach.init lk0_step

/-- in the reached state the writer excludes the reader from DB.l -/
example : ¬ holds thA (0, 0) :=
  C08_mutex lk0_initial lk1_reach 1 0 thC1 thA (0, 0) (by decide) rfl rfl (by unfold holdsW; decide)

/-- the writer is inside an access "write DB.schemas under DB.l(W)"; no other thread can be inside the
    conflicting access "read DB.schemas under DB.l(R), DB.sl(W)" (all hypotheses of `C08_race_free`
    but the last are satisfied; the theorem refutes the last one) -/
example : ¬ (∀ c m, (c, m) ∈ ([(0, Mode.R), (3, Mode.W)] : List (Nat × Mode)) → ((c, (fun _ => 0) c), m) ∈ thA.held) :=
  fun hub =>
    C08_race_free lk0_initial lk1_reach
      { entry := 0, region := 0, write := true, held := [(0, .W)] }
      { entry := 0, region := 0, write := false, held := [(0, .R), (3, .W)] }
      (by decide) (by decide) (by decide) 1 0 thC1 thA (by decide) rfl rfl (fun _ => 0)
      (by intro c m h
          simp only [List.mem_cons, List.mem_nil_iff, or_false, Prod.mk.injEq] at h
          obtain ⟨rfl, rfl⟩ := h
          decide)
      hub

/-- some guaranteed step exists in the reached state -/
example : ∃ s', GStep lk1 s' :=
  C09_no_deadlock lk0_initial lk1_reach ⟨thA, by decide, by decide⟩

example : ∃ s', GStar lk1 s' ∧ ∀ t ∈ s', t.todo = [] :=
  C09_all_return lk1 (tok_reach lk0_initial lk1_reach)

example : Disc [] pathCommit := C09_paths_disciplined _ (List.getElem_mem _) _ covers_C

end Locks

/-! ### C08 : linearizability of one-section calls -/

section Linearize
open Sod.Lin

/-- shared state, local state and result are numbers; a writer "add 5" and a reader "get" -/
def addCall : Lin.Call Nat Nat Nat :=
  { mode := .w, init := 0, steps := [.read (fun σ _ => σ + 5), .write (fun _ l => l)], result := fun l => l }
def getCall : Lin.Call Nat Nat Nat :=
  { mode := .r, init := 0, steps := [.read (fun σ _ => σ)], result := fun l => l }
def progs : List (List (Lin.Call Nat Nat Nat)) := [[addCall], [getCall]]

theorem progs_wf : ∀ p ∈ progs, ∀ c ∈ p, c.WF := by
  intro p hp c hc
  simp only [progs, List.mem_cons, List.mem_nil_iff, or_false] at hp
  rcases hp with rfl | rfl <;> simp only [List.mem_cons, List.mem_nil_iff, or_false] at hc <;> subst hc
  · intro h; cases h
  · intro _ m hm
    simp only [getCall, List.mem_cons, List.mem_nil_iff, or_false] at hm
    exact ⟨_, hm⟩

def linFinal : Lin.State Nat Nat Nat :=
  { σ := 6
    threads := [{ todo := [], cur := none, pc := 1 }, { todo := [], cur := none, pc := 1 }]
    hist := [.acq (0, 0), .rel (0, 0) 6, .acq (1, 0), .rel (1, 0) 6] }

theorem grant_of_idle {ts : List (Lin.Thread Nat Nat Nat)} (h : ∀ t ∈ ts, t.cur = none) (i : Nat) (m : Lin.Mode) :
    grantable ts i m := by
  intro j t _ hj
  have := h t (List.mem_of_getElem? hj)
  cases m <;> simp [inside, insideW, this]

/-- a complete run: the writer runs its whole section, then the reader -/
theorem lin_run : Lin.Steps (Lin.initial 1 progs) linFinal := by
  have s1 := Lin.Step.acquire (Lin.initial 1 progs) 0 _ addCall [] rfl rfl rfl
    (grant_of_idle (by intro t ht; simp [Lin.initial, progs] at ht; rcases ht with rfl | rfl <;> rfl) _ _)
  have s2 := Lin.Step.micro _ 0 _ addCall 0 _ _ rfl rfl |> Lin.Steps.tail (Lin.Steps.tail (Lin.Steps.refl _) s1)
  have s3 := Lin.Step.micro _ 0 _ addCall _ _ _ rfl rfl |> Lin.Steps.tail s2
  have s4 := Lin.Step.release _ 0 _ addCall _ rfl rfl |> Lin.Steps.tail s3
  have s5 := Lin.Step.acquire _ 1 _ getCall [] rfl rfl rfl
    (grant_of_idle (by intro t ht; simp [Lin.initial, progs] at ht; rcases ht with rfl | rfl <;> rfl) _ _) |> Lin.Steps.tail s4
  have s6 := Lin.Step.micro _ 1 _ getCall 0 _ _ rfl rfl |> Lin.Steps.tail s5
  have s7 := Lin.Step.release _ 1 _ getCall _ rfl rfl |> Lin.Steps.tail s6
  exact s7

theorem lin_finished : Lin.finished linFinal := by
  intro t ht
  simp only [linFinal, List.mem_cons, List.mem_nil_iff, or_false] at ht
  rcases ht with rfl | rfl <;> exact ⟨rfl, rfl⟩

example : (Lin.runSeq progs (Lin.acqOrder linFinal.hist) 1).1 = linFinal.σ ∧
    (∀ id res, Lin.Event.rel id res ∈ linFinal.hist → (id, res) ∈ (Lin.runSeq progs (Lin.acqOrder linFinal.hist) 1).2) ∧
    (Lin.acqOrder linFinal.hist).Nodup :=
  let h := C08_linearizable 1 progs progs_wf linFinal lin_run lin_finished
  ⟨h.1, h.2.1, h.2.2.1⟩

example : ∀ id ∈ Lin.acqOrder linFinal.hist, ∃ res, Lin.Event.rel id res ∈ linFinal.hist :=
  C08_all_returned 1 progs progs_wf linFinal lin_run lin_finished

end Linearize

/-! ### C10 -/

theorem typed_a0 : Obj.Typed la0.index (assignNew (E.canon la0.descs (E.transform o1)) 101) :=
  typed_of_typedB (by decide)

/-- a run of the asynchronous collection: one insert, then one poll of the flusher -/
theorem reach_a : Sod.Reach ca0 ca.tick :=
  Sod.Reach.step (l := la1) .tick (Sod.Reach.step (l := la0) (.insert E o1 101) Sod.Reach.refl inva0.mem typed_a0) inva.mem trivial

example : ∃ l, Inv' ca.tick l ∧ l.settings.async = some ⟨2, 3⟩ ∧ l.flusher = true ∧
      (ca.tick.pending.length ≥ 2 → Flushed ca.tick.view l.img ca.tick.tick) ∧
      Flushed ca.tick.view l.img (ticks (3 + 1) ca.tick) ∧
      Flushed ca.tick.view l.img ca.tick.close.fst ∧
      ∀ u, (ca.tick.delete u).fst.pending.get? u = none ∧ (ca.tick.delete u).fst.disk.files.get? u = none :=
  C10_every_run inva0 pendNodup_a0 rfl reach_a

example : ((Coll.insert E ca0 o1 101).fst.get (assignNew (E.canon la0.descs (E.transform o1)) 101).uuid).snd =
        Res.ok (assignNew (E.canon la0.descs (E.transform o1)) 101) ∧
    ((Coll.insert E ca0 o1 101).fst.exist (assignNew (E.canon la0.descs (E.transform o1)) 101).uuid).snd = Res.ok true :=
  C10_visible inva0 o1 101 typed_a0 insa_ok

example : (ca.flushAll.pending = [] ∧ ∀ u, ca.flushAll.disk.files.get? u = ca.view u) ∧
    (ca.flushAllAndCommit.fst.pending = [] ∧ ca.flushAllAndCommit.fst.disk.schema = some la1.img ∧
      ∀ u, ca.flushAllAndCommit.fst.disk.files.get? u = ca.view u) :=
  C10_flush_complete inva pendNodup_a

/-- the pending object 1, deleted before any flush, never reaches the directory -/
example : (ticks 4 (ca.delete 1).fst).disk.files.get? 1 = none ∧
    (ticks 4 (ca.delete 1).fst).flushAll.disk.files.get? 1 = none ∧
    (ticks 4 (ca.delete 1).fst).close.fst.disk.files.get? 1 = none ∧
    (ticks 4 (ca.delete 1).fst).flushAllAndCommit.fst.disk.files.get? 1 = none :=
  C10_deleted_never_written inva pendNodup_a 1 4

example : ∀ op ∈ List.drop ca.log.length ca.flushAll.log, ∀ o, op = FsOp.writeObj o → ca.pending.get? o.uuid = some o :=
  fun op hop o ho => C10_flusher_writes_only_pending inva.keyedP pendNodup_a op hop o ho

example : la0.flusher = true :=
  C10_flusher_started (c := (cE.create descs2 sta).1) (l := la0) rfl rfl

/-! ### C11 -/

example : controlLoaded c2.live c2.disk l2 = Res.ok () := C11_no_false_positive inv2 pending2 shape2

theorem files2_view (u : Nat) : c2.disk.files.get? u = c2.view u := (view_nopend pending2 u).symm

theorem agree2 : Agree l2.index c2.disk.files :=
  Agree.of_reflects (by
    have : (fun u => c2.disk.files.get? u) = c2.view := funext files2_view
    rw [this]; exact reflects2)

example : (c2.repair.snd = Res.ok () ∧ ∃ l', c2.repair.fst.mem = some l' ∧ l'.index.WF ∧
        (∀ u, u ∈ l'.index.uuids ↔ c2.disk.files.has u = true) ∧ (Reflects l'.index fun u => c2.disk.files.get? u) ∧
        (ShapeOk c2 l2 → c2.repair.fst.control = Res.ok ())) ∨
    c2.repair.snd = Res.err Err.unique :=
  C11_repair_converges (l := l2) (by rw [schema2]; exact mem2) wf2 agree2
    (fun u o h => (inv2.typed u o (by rw [← files2_view]; exact h)).1)
    inv2.keyedF
    (fun u o h => by rw [inv2.cacheOff rfl] at h; cases h)

/-- tampering: the file of object 1 is removed behind the handle's back -/
def cT : Coll := { c2 with disk := { c2.disk with files := c2.disk.files.erase 1 } }

/-- … Control answers CORRUPTION (object 1 is indexed, its file is gone) -/
example : controlLoaded cT.live cT.disk l2 = Res.err Err.corrupted :=
  (C11_corrupted_iff cT.live cT.disk l2).mpr ⟨shape2, fun h => by
    have := h.2.2 1 (by decide)
    have hh : cT.disk.files.has 1 = (c2.disk.files.erase 1).has 1 := rfl
    rw [hh, OMap.has_erase] at this
    simp at this⟩

/-- … and Repair converges on the tampered directory -/
example : (cT.repair.snd = Res.ok () ∧ ∃ l', cT.repair.fst.mem = some l' ∧ l'.index.WF ∧
        (∀ u, u ∈ l'.index.uuids ↔ cT.disk.files.has u = true) ∧ (Reflects l'.index fun u => cT.disk.files.get? u) ∧
        (ShapeOk cT l2 → cT.repair.fst.control = Res.ok ())) ∨
    cT.repair.snd = Res.err Err.unique :=
  have hget : ∀ u o, cT.disk.files.get? u = some o → c2.view u = some o := by
    intro u o h
    have hh : cT.disk.files.get? u = (c2.disk.files.erase 1).get? u := rfl
    rw [hh, OMap.get?_erase] at h
    by_cases h1 : u = 1
    · rw [if_pos h1] at h; cases h
    · rw [if_neg h1, files2_view] at h; exact h
  C11_repair_converges (c := cT) (l := l2)
    (by
      have hm : cT.mem = some l2 := mem2
      rw [schema_of_mem hm (startFlusher_sync rfl)]; exact hm)
    wf2
    ⟨c2.view, reflects2, fun u _ o h => hget u o h⟩
    (fun u o h => (inv2.typed u o (hget u o h)).1)
    (OMap.Keyed.erase inv2.keyedF 1)
    (fun u o h => by
      have hc : cT.cache = [] := inv2.cacheOff rfl
      rw [hc] at h; cases h)

example : c2.repair.fst.disk = c2.disk ∧ c2.repair.fst.log = c2.log := C11_repair_no_fs c2

/-! ### C12 -/

/-- the building calls are typed for the empty collection -/
theorem build_typed : CallsTyped E (emptyLoaded descs2 st2) [.ins o1 101, .ins o2 102, .get 1, .count, .all] := by
  rw [callsTyped_iff]
  intro o fresh hm
  simp only [List.mem_cons, List.mem_nil_iff, or_false, reduceCtorEq] at hm
  rcases hm with hm | hm <;> (injection hm with h1 h2; subst h1; subst h2) <;> exact typed_of_typedB (by decide)

/-- synchronous/uncached and asynchronous collections answer the same -/
example : ObsListEq (Coll.run E (emptyColl descs2 st2) [.ins o1 101, .ins o2 102, .get 1, .count, .all]).snd
    (Coll.run E (emptyColl descs2 sta) [.ins o1 101, .ins o2 102, .get 1, .count, .all]).snd :=
  C12_config_independent descs2 st2 sta _ build_typed

example : c2.exist 1 = (c2, Res.ok (c2.view 1).isSome) := C12_exist inv2_weak 1
/-- also for the object whose asynchronous write is still pending -/
example : ca.exist 1 = (ca, Res.ok (ca.view 1).isSome) := C12_exist inva.toInv 1

/-! #### the same objects in a collection where S is NOT indexed -/

def dSu : FieldDesc := { path := "S", type := "string", cast := some .str, cons := { upper := true } }
def descsU : List FieldDesc := [dN, dSu, dF, dB]
def lu0 : Loaded := { descs := descsU, settings := st2, index := ObjIndex.new descsU }
def cu0 : Coll := (cE.create descsU st2).1
def cu0lit : Coll :=
  { live := live2
    disk := { dir := true, files := [], schema := some lu0.img }
    mem := some lu0
    cache := []
    pending := []
    log := [.mkdir, .writeSchema lu0.img] }
theorem cu0_eq : cu0 = cu0lit := by rfl

theorem invu0 : Inv' cu0 lu0 := by
  rw [cu0_eq]
  have hv : cu0lit.view = fun _ => none := rfl
  refine ⟨⟨rfl, new_wf descsU, by rw [hv]; exact new_reflects descsU, ?_, ?_, ?_, ?_, fun _ => rfl, ?_,
    OMap.Keyed.nil, OMap.Keyed.nil, OMap.Keyed.nil⟩, fun _ => rfl⟩
  · intro u; rw [hv]; show u ∈ [] ↔ _; simp
  · intro u o h; rw [hv] at h; cases h
  · intro u o h; cases h
  · intro u o h; cases h
  · intro h; cases h
theorem syncedu0 : Synced cu0 lu0 := by rw [cu0_eq]; exact ⟨rfl, rfl, rfl⟩
theorem shapeu0 : ShapeOk cu0 lu0 := by rw [cu0_eq]; unfold ShapeOk; decide

def ixu1 : ObjIndex := { next := 1, ids := [(0, 1)], fields := [fN [(.i64 10, 0)]] }
def ixu2 : ObjIndex := { next := 2, ids := [(0, 1), (1, 2)], fields := [fN [(.i64 20, 1), (.i64 10, 0)]] }
def lu1 : Loaded := { lu0 with index := ixu1 }
def lu2 : Loaded := { lu0 with index := ixu2 }
def cu1 : Coll := (Coll.insert E cu0 o1 101).1
def cu2 : Coll := (Coll.insert E cu1 o2 102).1

theorem stepu1 : StepFacts cu0 lu0 o1 101 o1s ixu1 :=
  sync_step invu0 syncedu0 shapeu0 rfl o1 101 (by decide) (by decide) (by decide) (by decide) (by decide)
    (by decide) (by decide)
theorem stepu2 : StepFacts cu1 lu1 o2 102 o2s ixu2 :=
  sync_step stepu1.2.1 stepu1.2.2.1 stepu1.2.2.2.1 rfl o2 102 (by decide) (by decide) (by decide) (by decide) (by decide)
    (by decide) (by decide)

theorem invu2 : Inv' cu2 lu2 := stepu2.2.1
theorem viewu2 : cu2.view = c2.view := by
  rw [view2]
  show (Coll.insert E cu1 o2 102).1.view = _
  rw [stepu2.2.2.2.2.1]
  show updView (Coll.insert E cu0 o1 101).1.view _ _ = _
  rw [stepu1.2.2.2.2.1]
  have : cu0.view = fun _ => none := by rw [cu0_eq]; rfl
  rw [this]; rfl
theorem liveu2 : cu2.live = live2 := by
  show (Coll.insert E cu1 o2 102).1.live = _
  rw [stepu2.2.2.2.2.2.2.1]
  show (Coll.insert E cu0 o1 101).1.live = _
  rw [stepu1.2.2.2.2.2.2.1, cu0_eq]; rfl

/-- S ≤ "ab": the indexed collection (bisection) and the unindexed one (scan) denote the same set -/
example (u : Nat) :
    Denotes l2 (Coll.search E c2 "S" (some .le) (Leaf.v (.str [97, 98])) none).snd.fields u ↔
      Denotes lu2 (Coll.search E cu2 "S" (some .le) (Leaf.v (.str [97, 98])) none).snd.fields u :=
  C12_index_independent (d := dSu) (pv := .str [65, 66]) inv2 invu2 viewu2.symm fieldS (by decide) (resolvable "S" (by decide))
    (by rw [liveu2]; decide) (by decide) (by decide) rfl (by decide) rfl rfl (by decide) u

/-! ### C13 -/

theorem sN_resolves : ∀ e ∈ sN.fields, ∃ u, l2.index.uuidOf e.snd = some u := by
  intro e he
  simp only [sN, List.mem_cons, List.mem_nil_iff, or_false] at he
  rcases he with rfl | rfl
  · exact ⟨2, by decide⟩
  · exact ⟨1, by decide⟩

example : (c2.collect sN).snd.snd.fst =
        List.filterMap c2.view (List.take sN.limit (if sN.reverse = true then (sN.uuids l2).reverse else sN.uuids l2)) ∧
    (c2.collect sN).snd.snd.snd = none ∧
    (c2.collect sN).snd.snd.fst.length = min sN.limit sN.fields.length :=
  C13_collect inv2 sN rfl sN_resolves

example : ((c2.one sN).snd.snd = Res.err Err.noObject ↔ sN.fields = []) := C13_one inv2 sN rfl

example : c2.assignIndex "S" = (c2, Res.ok ((fS [(.str [65, 66], 0), (.str [65, 66], 1)]).idx.map (·.fst))) ∧
    List.Pairwise (fun a b => a.lt b = false) ((fS [(.str [65, 66], 0), (.str [65, 66], 1)]).idx.map (·.fst)) ∧
    ((fS [(.str [65, 66], 0), (.str [65, 66], 1)]).idx.map (·.fst)).length = l2.index.uuids.length ∧
    (∀ u o, c2.view u = some o → ∃ x ∈ (fS [(.str [65, 66], 0), (.str [65, 66], 1)]).idx.map (·.fst), o.field 1 = Leaf.v x) :=
  C13_assignIndex_coll inv2 fieldS

example : Desc (fS [(.str [65, 66], 0), (.str [65, 66], 1)]).idx ∧
    ((fS [(.str [65, 66], 0), (.str [65, 66], 1)]).idx.map (·.2)).Perm (l2.index.ids.map (·.1)) :=
  C13_assignIndex wf2 memS

example : ∃ r, ObjIndex.searchOp none .le [((.str [65, 66] : Val), 0), (.str [65, 66], 1), (.str [65, 65], 2)] (.str [65, 66]) = .ok r ∧
    r.Sublist [((.str [65, 66] : Val), 0), (.str [65, 66], 1), (.str [65, 65], 2)] ∧ Desc r :=
  C13_result_sorted none .le (by decide) _ _ descS3

example : Desc (FIdx.insert [((.str [65, 66] : Val), 0), (.str [65, 66], 1), (.str [65, 65], 2)] (.str [65, 66], 7)) ∧
    FIdx.insert [((.str [65, 66] : Val), 0), (.str [65, 66], 1), (.str [65, 65], 2)] (.str [65, 66], 7) =
      [((.str [65, 66] : Val), 0), (.str [65, 66], 1), (.str [65, 65], 2)].filter (fun x => !Val.lt x.1 (.str [65, 66])) ++
        (.str [65, 66], 7) :: [((.str [65, 66] : Val), 0), (.str [65, 66], 1), (.str [65, 65], 2)].filter (fun x => Val.lt x.1 (.str [65, 66])) :=
  C13_insert_sorted _ _ descS3

example : ([((.str [65, 66] : Val), 0), (.str [65, 66], 1), (.str [65, 65], 2)] : FIdx).reverse.Pairwise
    (fun a b => Val.lt b.1 a.1 = false) := C13_reverse _ descS3

/-- HISTORY: an earlier `C13_limit` quantified its readability hypothesis over EVERY collection
    state (including a handle without schema, on which every `get` fails); that hypothesis holds only
    of the empty list, as shown here, so the theorem said nothing about a non-empty iteration.  It
    was restated over `Inv' c l` and the members of `c.view`; the instance below is non-trivial. -/
theorem old_C13_limit_hypothesis_only_nil (us : List Nat)
    (hall : ∀ c' : Coll, ∀ u ∈ us, ∃ o, (c'.get u).2 = .ok o) : us = [] := by
  cases us with
  | nil => rfl
  | cons u us =>
    obtain ⟨o, ho⟩ := hall { live := [] } u (List.mem_cons_self)
    have : (({ live := [] } : Coll).get u).2 = .err .notFound := rfl
    rw [this] at ho; cases ho

/-- `C13_limit` on the two stored objects of `c2`, limit 1: exactly the first one, no error -/
example : (Coll.collectLoop c2 [2, 1] 1 []).2.2.1 = [] ++ ([2, 1].take 1).filterMap c2.view ∧
    (Coll.collectLoop c2 [2, 1] 1 []).2.2.1.length = ([] : List Obj).length + min 1 ([2, 1] : List Nat).length ∧
    (Coll.collectLoop c2 [2, 1] 1 []).2.2.2 = none ∧
    (Coll.collectLoop c2 [2, 1] 1 []).2.1 = 1 - ([2, 1] : List Nat).length :=
  C13_limit inv2 [2, 1] 1 [] (by
    intro u hu
    rw [view2]
    simp only [List.mem_cons, List.mem_nil_iff, or_false] at hu
    rcases hu with rfl | rfl <;> simp)

/-! ### C14 : the clone model -/

section CloneW
open Sod.Clone

/-- a struct with two exported reference fields: a pointer (tag 3) and a slice (tag 4) holding a pointer (tag 5) -/
def val : V := .struct [(true, .ptr 3 (.prim 5)), (true, .slice 4 [.ptr 5 (.prim 1)]), (true, .prim 9)]
def st0 : Store := { objs := [], next := 10 }
/-- the store after `put 1 val` -/
def st1 : Store := st0.put 1 val

theorem val_unexpFree : tagsAll val = tagsExp val := by rfl
theorem val_tags : tagsAll val = [3, 4, 5] := by rfl

example : strip (clone 10 val).1 = strip val := C14_clone_equal 10 val
example : (∀ t ∈ tagsExp (clone 10 val).1, 10 ≤ t ∧ t < (clone 10 val).2) ∧ (tagsExp (clone 10 val).1).Nodup :=
  C14_clone_fresh 10 val

/-- writes through the caller's references 3, 4, 5 after the put do not reach the store -/
example : ∀ t ∈ tagsAll val, ∀ w, ((st0.put 1 val).mutate t w).objs.find? (fun p => p.1 == 1) =
      (st0.put 1 val).objs.find? (fun p => p.1 == 1) :=
  C14_put_isolated st0 1 val val_unexpFree (by rw [val_tags]; decide)

theorem st1_fresh : st1.Fresh := put_fresh st0 (fun p hp => by cases hp) 1 val val_unexpFree
theorem st1_unexp : ∀ p ∈ st1.objs, tagsAll p.2 = tagsExp p.2 :=
  put_unexpFree st0 (fun p hp => by cases hp) 1 val val_unexpFree

/-- a read of the stored object hands out a copy with the fresh tags 13, 14, 15 -/
def rdVal : V := .struct [(true, .ptr 13 (.prim 5)), (true, .slice 14 [.ptr 15 (.prim 1)]), (true, .prim 9)]
def st2' : Store := { st1 with next := 16 }
theorem rd1_eq : st1.get 1 = (some rdVal, st2') := by rfl
/-- … and a second read one with the tags 16, 17, 18 -/
def rdVal' : V := .struct [(true, .ptr 16 (.prim 5)), (true, .slice 17 [.ptr 18 (.prim 1)]), (true, .prim 9)]
theorem rd2_eq : st2'.get 1 = (some rdVal', { st1 with next := 19 }) := by rfl

/-- writing through any reference of the copy read leaves the store alone -/
example : ∀ t ∈ tagsAll rdVal, ∀ w, (st2'.mutate t w).objs = st2'.objs :=
  C14_get_isolated st1 st1_fresh 1 rdVal st2' rd1_eq st1_unexp

/-- two successive reads hand out disjoint memory -/
example : ∀ t ∈ tagsAll rdVal, t ∉ tagsAll rdVal' :=
  C14_two_reads_disjoint st1 1 rdVal rdVal' st2' _ st1_unexp rd1_eq rd2_eq

example : ((st0.put 1 val).get 1).1.map strip = some (strip val) := C14_roundtrip st0 1 val

end CloneW

/-! ### C15 -/

/-- the Validate hook refuses the shape "bad": answered `invalid`, nothing changes -/
example : Coll.insert E c2 bad 7 = (c2, Res.err Err.invalid) :=
  C15_invalid_invisible inv2_weak bad 7 (by decide)

example : ∃ l', Inv' (Coll.insert E c2 o3 3).fst l' ∧
      (Coll.insert E c2 o3 3).fst.view =
        updView c2.view (assignNew (E.canon l2.descs (E.transform o3)) 3).uuid (some (assignNew (E.canon l2.descs (E.transform o3)) 3)) ∧
      E.validate (E.canon l2.descs (E.transform o3)) = true :=
  C15_stored_is_transformed inv2 o3 3 typed3' ins3_ok

/-- the validation loop of a one-object batch, evaluated through the index theorems -/
theorem validate_o4 : manyValidate E l2 (ObjIndex.new l2.descs) [o4] = .ok [o4s] := by
  have hv : vald E l2.descs o4 = o4s := by decide
  have h1 : (ObjIndex.new l2.descs).insertOrUpdate o4s = .ok (insIxFast (ObjIndex.new l2.descs) o4s) :=
    insertOrUpdate_new (new_wf _) (typed_of_typedB (by decide)) (by decide) (by decide)
  have h2 : l2.index.satisfyAll o4s = .ok () := satisfy_ok_of wf2 (typed_of_typedB (by decide)) (by decide)
  rw [manyValidate_cons, hv, h1, h2]
  rfl

example : [o4s] = List.map (fun o => E.canon l2.descs (E.transform o)) [o4] ∧
      ∀ o ∈ [o4s], E.validate o = true ∧ E.serialisable o = true ∧ l2.index.satisfyAll o = Res.ok () :=
  C15_batch_order validate_o4

/-! ### C16 -/

example : E.canon descs2 (E.canon descs2 o1) = E.canon descs2 o1 := C16_canon_idem E caseLaws descs2 o1
example : E.canonBytes dS.cons (E.canonBytes dS.cons [97, 66, 33]) = E.canonBytes dS.cons [97, 66, 33] :=
  C16_canonBytes_idem E caseLaws dS.cons [97, 66, 33]

example : ∃ o', (Coll.insert E c2 o3 3).fst.view o'.uuid = some o' ∧ E.canon l2.descs o' = o' ∧
      ∀ (i : Nat) (hi : i < l2.descs.length), o'.field i = E.canonLeaf l2.descs[i].cons ((E.transform o3).field i) :=
  C16_stored_canonical caseLaws inv2 o3 3 typed3' ins3_ok

example : E.prepare descs2 "S" (Leaf.v (Val.str [97, 98])) =
      Leaf.v (Val.str (if dS.cons.transformer = true then E.canonBytes dS.cons [97, 98] else [97, 98])) :=
  C16_probe_canonical E descs2 "S" 1 dS [97, 98] (by decide)

/-- "ab" and "Ab" give the same search on the upper-cased field -/
example : Coll.search E c2 "S" (some .eq) (Leaf.v (Val.str [97, 98])) none =
    Coll.search E c2 "S" (some .eq) (Leaf.v (Val.str [65, 98])) none :=
  C16_search_case_insensitive E c2 l2 "S" (some .eq) [97, 98] [65, 98] none 1 dS schema2 (by decide) rfl (by decide)

example : (Cons.ofTags ["upper", "index"]).index = (["upper", "index"].contains "index" || ["upper", "index"].contains "unique") ∧
    (Cons.ofTags ["upper", "index"]).unique = ["upper", "index"].contains "unique" ∧
    (Cons.ofTags ["upper", "index"]).upper = ["upper", "index"].contains "upper" ∧
    (Cons.ofTags ["upper", "index"]).lower = ["upper", "index"].contains "lower" := C16_tags_spec _

example : Cons.ofTags ["upper", "index"] = Cons.ofTags ["index", "upper"] :=
  C16_tags_order_independent (List.Perm.swap _ _ _)

/-! ### C17 -/

/-- a new handle whose Go struct changed the type of N -/
def cR : Coll := { c2.reopen with live := [("N", "int32"), ("S", "string"), ("F", "uint32"), ("B", "bool")] }

example : (∀ u, cR.get u = (cR, Res.err Err.structChanged)) ∧ cR.count = (cR, Res.err Err.structChanged) ∧
    (∀ (E : Env) (o : Obj) (fresh : Nat), Coll.insert E cR o fresh = (cR, Res.err Err.structChanged)) ∧
    (∀ u, cR.delete u = (cR, Res.err Err.structChanged)) ∧
    (∀ (E : Env) (os : List Obj) (w : Option (Nat × Bool)), (Coll.many E cR os w).fst = cR) ∧
    (∀ descs st, cR.create descs st = (cR, Res.err Err.structChanged)) ∧ cR.repair = (cR, Res.err Err.structChanged) ∧
    (∀ (E : Env) f op p k, Coll.search E cR f op p k = (cR, Search.failed Err.structChanged)) :=
  C17_refused_frame (c := cR) (img := l2.img) rfl synced2.1 (by decide)

example : c2.create [dN, dS, dF] st2 = (c2, Res.err Err.unknownField) :=
  C17_create_refused [dN, dS, dF] st2 .unknownField schema2 (by decide)

example : compatErr l2 ".json" descs2 = none ↔
      l2.settings.ext = ".json" ∧ (∀ d ∈ l2.descs, ∃ e ∈ descs2, e.path = d.path) ∧ (∀ d ∈ descs2, ∃ e ∈ l2.descs, e.path = d.path) ∧
        ∀ d ∈ l2.descs, ∀ e ∈ descs2, e.path = d.path → e.type = d.type ∧ e.cons = d.cons :=
  C17_compatible_iff l2 ".json" descs2

/-- switching the synchronous collection to asynchronous writes -/
example : (c2.create descs2 sta).snd = Res.ok () ∧ (c2.create descs2 sta).fst.pending = [] ∧ (c2.create descs2 sta).fst.cache = [] ∧
      (c2.create descs2 sta).fst.view = c2.view ∧ Inv' (c2.create descs2 sta).fst (createLoaded l2 sta) :=
  C17_switch_settings descs2 sta inv2 (by unfold PendNodupC; rw [pending2]; exact List.nodup_nil) (by decide)

/-- switching the asynchronous collection (one object pending) to synchronous: nothing is lost -/
example : (ca.create descs2 st2).snd = Res.ok () ∧ (ca.create descs2 st2).fst.pending = [] ∧ (ca.create descs2 st2).fst.cache = [] ∧
      (ca.create descs2 st2).fst.view = ca.view ∧ Inv' (ca.create descs2 st2).fst (createLoaded la1 st2) :=
  C17_switch_settings descs2 st2 inva pendNodup_a (by decide)

example : descsCompatFields descs2 live2 = true ↔
      (∀ d ∈ descs2, (d.path, d.type) ∈ live2) ∧ ∀ p ∈ live2, ∃ d ∈ descs2, d.path = p.fst ∧ d.type = p.snd :=
  C17_guard_iff descs2 live2

/-! ### C18 -/

example (u : Nat) : c2.disk.files.has u = true ↔ u ∈ l2.index.uuids := C18_one_file_per_object inv2 pending2 u
example (u : Nat) : c2.disk.files.get? u = c2.view u := C18_file_is_object inv2 pending2 u

def uuidName : Layout.Name := "0a1B2c3D-4e5F-6071-8293-a4b5c6d7e8f9".toList

example : Layout.discover (Layout.fileName ".json".toList true uuidName) = some uuidName :=
  C18_discover_own_file ".json".toList true uuidName (by decide) ⟨_, rfl⟩

def uuidName' : Layout.Name := "FFFFFFFF-4e5F-6071-8293-a4b5c6d7e8f9".toList
example (h : Layout.fileName ".json".toList false uuidName = Layout.fileName ".json".toList false uuidName') : uuidName = uuidName' :=
  C18_discover_injective ".json".toList false uuidName uuidName' (by decide) (by decide) ⟨_, rfl⟩ h

example : Layout.discover ('.' :: "x.tmp".toList) = none ∧ Layout.discover "schema.json".toList = none :=
  C18_tmp_ignored _

/-! ### C19 -/

example (e : Err) (h : (Coll.search E c2 "S" (some .re) (Leaf.v (.str [42])) none).snd.err = some e) :
    e = Err.unknownField ∨ e = Err.keyType ∨ e = Err.cast ∨ e = Err.unknownOp ∨ e = Err.pattern ∨
    e = Err.corrupted ∨ e = Err.notFound ∨ e = Err.structChanged :=
  C19_error_classes E c2 "S" (some .re) _ none e h

/-- a string probe on the int64 field N (indexed), and on the uint32 field F (scanned): cast error -/
example : (∀ fi, l2.index.field? "N" = some fi → Val.tag (.str [49]) ≠ fi.cast →
        (Coll.search E c2 "N" (some .eq) (Leaf.v (.str [49])) none).snd.err = some Err.cast) ∧
    (∀ pos d t, l2.index.field? "N" = none → descPos? l2.descs "N" = some (pos, d) → d.cast = some t → t ≠ Val.tag (.str [49]) →
        (Coll.search E c2 "N" (some .eq) (Leaf.v (.str [49])) none).snd.err = some Err.cast) :=
  C19_mistyped_probe E inv2 (resolvable "N" (by decide)) (by decide) (some .eq) none

example : (Coll.search E c2 "N" (some .eq) (Leaf.v (.str [49])) none).snd.err = some Err.cast :=
  (C19_mistyped_probe E inv2 (resolvable "N" (by decide)) (pv := .str [49]) (by decide) (some .eq) none).1 _ fieldN (by decide)

example : (Coll.search E c2 "F" (some .eq) (Leaf.v (.str [49])) none).snd.err = some Err.cast :=
  (C19_mistyped_probe E inv2 (resolvable "F" (by decide)) (pv := .str [49]) (by decide) (some .eq) none).2 2 dF .u64
    fieldF (by decide) rfl (by decide)

/-- the pattern "*" does not compile: a pattern error, on the indexed and on the scanned path -/
example : (Coll.search E c2 "S" (some Op.re) (Leaf.v (.str [42])) none).snd.err = some Err.pattern :=
  C19_invalid_pattern E inv2 (resolvable "S" (by decide)) (s := [42]) (by decide) (by decide)
    (Or.inl ⟨_, fieldS, rfl⟩) none

example : (Coll.search E cu2 "S" (some Op.re) (Leaf.v (.str [42])) none).snd.err = some Err.pattern :=
  C19_invalid_pattern E invu2 (by rw [liveu2]; decide) (s := [42]) (by decide) (by decide)
    (Or.inr ⟨by decide, 1, dSu, by decide, rfl⟩) none

example : c2.collect (Search.failed .cast) = (c2, Search.failed .cast, [], some .cast) ∧
    ((c2.one (Search.failed .cast)).snd.snd = Res.err .cast ∧ (c2.one (Search.failed .cast)).fst = c2) ∧
    c2.searchDelete (Search.failed .cast) = (c2, Res.err .cast) :=
  C19_failed_calls c2 (Search.failed .cast) .cast rfl

example : (Coll.search E c2 "N" (some .eq) (Leaf.v (.str [49])) none).snd.fields = [] :=
  C19_failed_no_entries E c2 "N" (some .eq) _ none (by
    rw [(C19_mistyped_probe E inv2 (resolvable "N" (by decide)) (pv := .str [49]) (by decide) (some .eq) none).1 _ fieldN (by decide)]
    exact fun h => by cases h)

example : ∃ e, (Coll.search E c2 "S" none (Leaf.v (.str [65])) none).snd = Search.failed e :=
  C19_unknown_operator E c2 "S" _ none

/-! ### C20 -/

example : (∀ o ∈ (c2.collect sN).snd.snd.fst, ∃ e ∈ sN.fields, ∃ u, l2.index.uuidOf e.snd = some u ∧ c2.view u = some o ∧ o.uuid = u) ∧
    ((sN.fields.map (·.snd)).Nodup → ((c2.collect sN).snd.snd.fst.map (·.uuid)).Nodup) :=
  C20_snapshot inv2 view2_zero sN

/-- a STALE search value (taken on `c2`) collected on `c3`, after the third insert: still a snapshot -/
example : (∀ o ∈ (c3.collect sN).snd.snd.fst, ∃ e ∈ sN.fields, ∃ u, l3.index.uuidOf e.snd = some u ∧ c3.view u = some o ∧ o.uuid = u) ∧
    ((sN.fields.map (·.snd)).Nodup → ((c3.collect sN).snd.snd.fst.map (·.uuid)).Nodup) :=
  C20_snapshot inv3 (by
    show (Coll.insert E c2 o3 3).1.view 0 = none
    rw [step3.2.2.2.2.1, view2]; rfl) sN

example : ix3.oidOf 1 = some 0 := C20_oid_stable_insert wf2 iou3 (by decide)
example : l2.index.uuidOf 1 = some 2 := C20_oid_never_reassigned wf2 iou3 (u := 2) (oid := 1) (by decide) (by decide)
example : l2.index.next ≤ ix3.next := C20_next_monotone iou3
example : (l2.index.deleteByUUID 1).next = l2.index.next := C20_delete_keeps_counter _ _
example : (Coll.collect c2 sN).2.1.fields = sN.fields := C20_collect_keeps_entries c2 sN

/-! ## 6. axioms -/

#print axioms inv2
#print axioms sim2
#print axioms inva
#print axioms invu2
#print axioms lin_run
#print axioms old_C13_limit_hypothesis_only_nil

end Sod.Props.Witness
