/-
  C12 — Observable behaviour does not depend on storage configuration or indexing.
-/
import Proofs.Refine
import Proofs.SearchColl
namespace Sod.Props
open Sod

/-- configuration: two collections with any two `Settings` (cache, compression, asynchronous
    writes, extension) started empty answer every call list alike — the abstract specification
    they both refine has no configuration -/
theorem C12_config_independent {E : Env} (descs : List FieldDesc) (st₁ st₂ : Settings) (calls : List Call)
    (ht : CallsTyped E (emptyLoaded descs st₁) calls) :
    ObsListEq (Coll.run E (emptyColl descs st₁) calls).snd (Coll.run E (emptyColl descs st₂) calls).snd :=
  C01_config_independent_init descs st₁ st₂ calls ht

/-- indexing: for the same stored objects, a comparison on a field denotes the same SET of
    objects whether the field is indexed (bisection on the index) or not (scan of every
    object); an index changes speed and order only -/
theorem C12_index_independent {E : Env} {c₁ c₂ : Coll} {l₁ l₂ : Loaded} {field : String} {fi : FieldIdx} {op : Op}
    {probe : Leaf} {pv : Val} {pos : Nat} {d : FieldDesc}
    (h₁ : Inv' c₁ l₁) (h₂ : Inv' c₂ l₂) (hv : c₁.view = c₂.view)
    (hi : l₁.index.field? field = some fi) (hn : l₂.index.field? field = none)
    (r₁ : pathResolvable c₁.live field = true) (r₂ : pathResolvable c₂.live field = true)
    (p₁ : E.prepare l₁.descs field probe = Leaf.v pv) (p₂ : E.prepare l₂.descs field probe = Leaf.v pv)
    (ht : pv.tag = fi.cast) (hd : descPos? l₂.descs field = some (pos, d)) (hc : d.cast = some pv.tag)
    (hp : fi.pos = pos) (hop : op ≠ Op.re) (u : Nat) :
    Denotes l₁ (Coll.search E c₁ field (some op) probe none).snd.fields u ↔
      Denotes l₂ (Coll.search E c₂ field (some op) probe none).snd.fields u :=
  index_independent_set h₁ h₂ hv hi hn r₁ r₂ p₁ p₂ ht hd hc hp hop u

/-- membership (Exist) agrees with the abstract content in every configuration, in particular
    for an object whose asynchronous write is still pending -/
theorem C12_exist {c : Coll} {l : Loaded} (h : Sod.Inv c l) (u : Nat) : c.exist u = (c, Res.ok (c.view u).isSome) :=
  exist_spec h u

end Sod.Props
