/-
  C17 — Schema guard: incompatible structure or settings are refused without damage.
-/
import Proofs.Canon
namespace Sod.Props
open Sod

/-- the structure guard compares the stored (path, type) pairs with those of the live struct,
    both ways -/
theorem C17_guard_iff (stored : List FieldDesc) (live : List (String × String)) :
    descsCompatFields stored live = true ↔
      (∀ d ∈ stored, (d.path, d.type) ∈ live) ∧ ∀ p ∈ live, ∃ d ∈ stored, d.path = p.fst ∧ d.type = p.snd :=
  compat_fields_iff stored live

/-- if the stored structure differs from the Go struct, EVERY call on a new handle answers
    `structChanged` and returns the state it was given: no file is touched -/
theorem C17_refused_frame {c : Coll} {img : SchemaImg} (hm : c.mem = none) (hs : c.disk.schema = some img)
    (hc : descsCompatFields img.descs c.live = false) :
    (∀ u, c.get u = (c, Res.err Err.structChanged)) ∧ c.count = (c, Res.err Err.structChanged) ∧
    (∀ (E : Env) (o : Obj) (fresh : Nat), Coll.insert E c o fresh = (c, Res.err Err.structChanged)) ∧
    (∀ u, c.delete u = (c, Res.err Err.structChanged)) ∧
    (∀ (E : Env) (os : List Obj) (w : Option (Nat × Bool)), (Coll.many E c os w).fst = c) ∧
    (∀ descs st, c.create descs st = (c, Res.err Err.structChanged)) ∧ c.repair = (c, Res.err Err.structChanged) ∧
    (∀ (E : Env) f op p k, Coll.search E c f op p k = (c, Search.failed Err.structChanged)) :=
  let h := every_call_refused hm hs hc
  ⟨h.1, h.2.2.1, h.2.2.2.2.1, h.2.2.2.2.2.1, h.2.2.2.2.2.2.2.2.1, h.2.2.2.2.2.2.2.2.2.2.2.1, h.2.2.2.2.2.2.2.2.2.2.2.2.1, h.2.2.2.2.2.2.2.2.2.2.2.2.2⟩

/-- re-creating with a different extension or different constraints is refused, nothing changes -/
theorem C17_create_refused {c : Coll} {l : Loaded} (descs : List FieldDesc) (st : Settings) (e : Err)
    (hs : c.schema = (c, Res.ok l)) (hc : compatErr l st.ext descs = some e) : c.create descs st = (c, Res.err e) :=
  create_incompatible_frame descs st e hs hc

theorem C17_compatible_iff (l : Loaded) (ext : String) (descs : List FieldDesc) :
    compatErr l ext descs = none ↔
      l.settings.ext = ext ∧ (∀ d ∈ l.descs, ∃ e ∈ descs, e.path = d.path) ∧ (∀ d ∈ descs, ∃ e ∈ l.descs, e.path = d.path) ∧
        ∀ d ∈ l.descs, ∀ e ∈ descs, e.path = d.path → e.type = d.type ∧ e.cons = d.cons :=
  compatErr_none_iff l ext descs

/-- Create with a compatible schema may switch cache and async settings at any time: nothing
    pending is lost, nothing stale stays cached, the collection denotes the same objects and is
    a consistent state of the new configuration -/
theorem C17_switch_settings {c : Coll} {l : Loaded} (descs : List FieldDesc) (st : Settings) (h : Inv' c l)
    (hp : PendNodupC c) (hc : compatErr l st.ext descs = none) :
    (c.create descs st).snd = Res.ok () ∧ (c.create descs st).fst.pending = [] ∧ (c.create descs st).fst.cache = [] ∧
      (c.create descs st).fst.view = c.view ∧ Inv' (c.create descs st).fst (createLoaded l st) :=
  let ⟨a, b, c', d⟩ := create_idempotent_view descs st h hp hc
  ⟨a, b, c', d, (create_idempotent_inv descs st h hp hc).1⟩

end Sod.Props
