/-
  C10 — Async writes: visible at once, flushed by threshold/timeout, complete at Close.

  The flusher body runs under the write lock, so "all relative timings" of the flusher versus
  foreground calls are all interleavings of `tick` (one 100 ms poll) with the other calls:
  `Reach` below.  Wall-clock behaviour (sleep granularity, scheduler latency) is observed by
  the correspondence profile `async`, not proved.
-/
import Proofs.Async
namespace Sod.Props
open Sod

/-- an accepted write is immediately visible to Get and Exist on the handle — whatever the
    configuration -/
theorem C10_visible {E : Env} {c : Coll} {l : Loaded} (h : Inv' c l) (o : Obj) (fresh : Nat)
    (ht : Obj.Typed l.index (assignNew (E.canon l.descs (E.transform o)) fresh))
    (hr : (Coll.insert E c o fresh).snd = Res.ok ()) :
    ((Coll.insert E c o fresh).fst.get (assignNew (E.canon l.descs (E.transform o)) fresh).uuid).snd =
        Res.ok (assignNew (E.canon l.descs (E.transform o)) fresh) ∧
    ((Coll.insert E c o fresh).fst.exist (assignNew (E.canon l.descs (E.transform o)) fresh).uuid).snd = Res.ok true :=
  async_visible h o fresh ht hr

/-- in EVERY state reachable by any interleaving of inserts, deletes, reads, explicit flushes
    and flusher polls of an asynchronous collection: one poll flushes everything once the
    threshold is reached; `timeout + 1` polls flush everything regardless; Close flushes
    everything and commits the schema; a delete leaves the object neither pending nor on disk.
    `Flushed v img c'` = nothing pending, files = v, schema.json = img. -/
theorem C10_every_run {c0 c : Coll} {l0 : Loaded} {a : Async} (h : Inv' c0 l0) (hp : PendNodup c0)
    (ha : l0.settings.async = some a) (hr : Reach c0 c) :
    ∃ l, Inv' c l ∧ l.settings.async = some a ∧ l.flusher = true ∧
      (c.pending.length ≥ a.threshold → Flushed c.view l.img c.tick) ∧
      Flushed c.view l.img (ticks (a.timeout + 1) c) ∧
      Flushed c.view l.img c.close.fst ∧
      ∀ u, (c.delete u).fst.pending.get? u = none ∧ (c.delete u).fst.disk.files.get? u = none :=
  let ⟨l, h1, _, h3, h4, h5, h6, h7, h8⟩ := c10_every_run h hp ha hr
  ⟨l, h1, h3, h4, h5, h6, h7, h8⟩

/-- FlushAll / FlushAllAndCommit return only after everything accepted is on disk (and, for the
    latter, the schema committed) -/
theorem C10_flush_complete {c : Coll} {l : Loaded} (h : Inv' c l) (hp : PendNodup c) :
    (c.flushAll.pending = [] ∧ ∀ u, c.flushAll.disk.files.get? u = c.view u) ∧
    (c.flushAllAndCommit.fst.pending = [] ∧ c.flushAllAndCommit.fst.disk.schema = some l.img ∧
      ∀ u, c.flushAllAndCommit.fst.disk.files.get? u = c.view u) :=
  ⟨⟨(flushAll_complete h hp).1, (flushAll_complete h hp).2.1⟩,
   ⟨(flushAllAndCommit_complete h hp).1, (flushAllAndCommit_complete h hp).2.2.1, (flushAllAndCommit_complete h hp).2.2.2.2⟩⟩

/-- an object deleted while its write was pending never appears on disk afterwards: not after
    any number of polls, nor after FlushAll, Close or FlushAllAndCommit -/
theorem C10_deleted_never_written {c : Coll} {l : Loaded} (h : Inv' c l) (hp : PendNodup c) (u n : Nat) :
    (ticks n (c.delete u).fst).disk.files.get? u = none ∧
    (ticks n (c.delete u).fst).flushAll.disk.files.get? u = none ∧
    (ticks n (c.delete u).fst).close.fst.disk.files.get? u = none ∧
    (ticks n (c.delete u).fst).flushAllAndCommit.fst.disk.files.get? u = none :=
  delete_pending_never_on_disk h hp u n

/-- the flusher only ever writes what is pending -/
theorem C10_flusher_writes_only_pending {c : Coll} (hk : c.pending.Keyed) (hp : PendNodup c) (op : FsOp)
    (hop : op ∈ List.drop c.log.length c.flushAll.log) (o : Obj) (ho : op = FsOp.writeObj o) :
    c.pending.get? o.uuid = some o := flush_writes_only_pending hk hp op hop o ho

/-- the flusher is started by the first access (cached or just loaded schema) -/
theorem C10_flusher_started {c : Coll} {l : Loaded} (h : c.schema.snd = Res.ok l) (ha : l.settings.async.isSome = true) :
    l.flusher = true := flusher_started h ha

end Sod.Props
