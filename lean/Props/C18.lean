/-
  C18 — On-disk layout is stable and readable by other tools and versions.

  Naming rules and the layout invariant are proved on the model; the format constants are
  REGENERATED from /repo's source by the extractor on every run and compared here with the table
  of the pinned release.  The golden corpus (directories written by the pinned release under
  all 32 configurations, reopened by the current code on every run) is the translation-validation
  part of the check (tools/special.py: golden_corpus).
-/
import Proofs.Layout
import Generated.Format
namespace Sod.Props
open Sod Sod.Layout

/-- every object file is discovered under its own uuid, for every extension beginning with a
    dot, compressed or not -/
theorem C18_discover_own_file (ext : Name) (gz : Bool) (u : Name) (hu : uuidShaped u = true) (he : ∃ e, ext = '.' :: e) :
    discover (fileName ext gz u) = some u := discover_own_file ext gz u hu he

/-- two objects never share a file name -/
theorem C18_discover_injective (ext : Name) (gz : Bool) (u v : Name) (hu : uuidShaped u = true) (hv : uuidShaped v = true)
    (he : ∃ e, ext = '.' :: e) (h : fileName ext gz u = fileName ext gz v) : u = v :=
  discover_injective ext gz u v hu hv he h

/-- temporary files (".<name>.tmp") and schema.json are never taken for objects -/
theorem C18_tmp_ignored (rest : Name) : discover ('.' :: rest) = none ∧ discover "schema.json".toList = none :=
  ⟨discover_dot_prefixed rest, discover_schema⟩

/-- with nothing pending the collection directory holds exactly one file per stored object … -/
theorem C18_one_file_per_object {c : Coll} {l : Loaded} (h : Inv' c l) (hp : c.pending = []) (u : Nat) :
    c.disk.files.has u = true ↔ u ∈ l.index.uuids := one_file_per_object h hp u

/-- … whose content is the object -/
theorem C18_file_is_object {c : Coll} {l : Loaded} (h : Inv' c l) (hp : c.pending = []) (u : Nat) :
    c.disk.files.get? u = c.view u := file_content_is_object h hp u

/-- REGENERATED on every run: the persistent-format constants of the current source are those
    of the pinned release -/
theorem C18_format_pinned :
    Generated.Format.schemaFilename = "schema.json" ∧ Generated.Format.defaultExtension = ".json" ∧
    Generated.Format.compressedExtension = ".gz" ∧
    Generated.Format.uuidRegexp = "(?i:^[A-F0-9]{8}-[A-F0-9]{4}-[A-F0-9]{4}-[A-F0-9]{4}-[A-F0-9]{12}$)" ∧
    Generated.Format.jsonTags = [
      ("Constraints", "Index", "index,omitempty", "bool"), ("Constraints", "Lower", "lower,omitempty", "bool"),
      ("Constraints", "Unique", "unique,omitempty", "bool"), ("Constraints", "Upper", "upper,omitempty", "bool"),
      ("FieldDescriptor", "Constraints", "constraints", "Constraints"), ("FieldDescriptor", "Path", "path", "string"),
      ("FieldDescriptor", "Type", "type", "string"),
      ("Schema", "AsyncWrites", "async-writes,omitempty", "*Async"), ("Schema", "Cache", "cache", "bool"),
      ("Schema", "Compress", "compress", "bool"), ("Schema", "Extension", "extension", "string"),
      ("Schema", "Fields", "fields", "FieldDescMap"), ("Schema", "ObjectIndex", "index", "*objIndex"),
      ("fieldIndex", "Cast", "cast", "string"), ("fieldIndex", "Constraints", "constraints", "Constraints"),
      ("fieldIndex", "Index", "index", "[]*indexedField"), ("fieldIndex", "Name", "name", "string"),
      ("jsonAsync", "Enable", "enable", "bool"), ("jsonAsync", "Threshold", "threshold", "int"),
      ("jsonAsync", "Timeout", "timeout", "string"),
      ("jsonObjIndex", "Fields", "fields", "map[string]*fieldIndex"), ("jsonObjIndex", "ObjectIds", "object-ids", "map[uint64]string")] ∧
    Generated.Format.casts = [
      "float32,float64=>\"float64\"", "int,int16,int32,int64,int8,time.Time=>\"int64\"", "string=>d.Type",
      "uint,uint16,uint32,uint64,uint8=>\"uint64\""] := by decide

end Sod.Props
