/-
  C13 — Result order, Reverse, Limit, One and AssignIndex follow the index order.
-/
import Props.C02
import Proofs.SearchColl
namespace Sod.Props
open Sod

/-- the result of a comparison on an indexed field is a sub-list of the (descending) field
    index: it comes out in non-increasing order of the field -/
theorem C13_result_sorted (m : Option Matcher) (op : Op) (hop : op ≠ .re) (l : FIdx) (k : Val) (h : Desc l) :
    ∃ r, ObjIndex.searchOp m op l k = .ok r ∧ r.Sublist l ∧ Desc r :=
  ⟨_, C02_index_exact m op hop l k h, List.filter_sublist, filter_desc l _ h⟩

/-- an And refinement ending on an indexed field re-inserts the surviving entries by
    bisection: whatever order the previous result had, the refined index is descending in the
    NEW field -/
theorem C13_and_sorted (l prev : FIdx) : Desc (l.constrain prev) := constrain_desc l prev

/-- inserting keeps the index descending, and an entry with an equal value goes after the
    existing ones (the order among ties is insertion order) -/
theorem C13_insert_sorted (l : FIdx) (e : Entry) (h : Desc l) :
    Desc (l.insert e) ∧
    l.insert e = l.filter (fun x => !Val.lt x.1 e.1) ++ e :: l.filter (fun x => Val.lt x.1 e.1) :=
  ⟨insert_desc l e h, insert_eq_split l e h⟩

/-- Reverse yields non-decreasing order: the reverse of a descending list is ascending -/
theorem C13_reverse (r : FIdx) (h : Desc r) : r.reverse.Pairwise (fun a b => Val.lt b.1 a.1 = false) := by
  rw [List.pairwise_reverse]; exact h

/-- Limit: the collection loop appends at most `limit` objects, in iteration order:
    with every object readable, exactly the first `min limit n` -/
theorem C13_limit (c : Coll) (us : List Nat) (lim : Nat) (out : List Obj)
    (hall : ∀ c' : Coll, ∀ u ∈ us, ∃ o, (c'.get u).2 = .ok o) :
    (Coll.collectLoop c us lim out).2.2.1.length = out.length + min lim us.length := by
  induction us generalizing c lim out with
  | nil => simp [Coll.collectLoop]
  | cons u us ih =>
    obtain ⟨o, ho⟩ := hall c u (by simp)
    unfold Coll.collectLoop
    match hg : c.get u with
    | (c1, .ok o1) =>
      simp only
      by_cases hl : lim > 0
      · simp only [hl, if_true]
        rw [ih c1 (lim - 1) (out ++ [o1]) (fun c' u' hu' => hall c' u' (by simp [hu']))]
        simp only [List.length_append, List.length_cons, List.length_nil]
        omega
      · simp only [hl, if_false]
        have : lim = 0 := by omega
        simp [this]
    | (c1, .err e) => rw [hg] at ho; cases ho
    | (c1, .panic) => rw [hg] at ho; cases ho

/-- AssignIndex returns the values of the field index, in index order, one per indexed object -/
theorem C13_assignIndex {ix : ObjIndex} (h : ix.WF) {fi : FieldIdx} (hfi : fi ∈ ix.fields) :
    Desc fi.idx ∧ (fi.idx.map (·.2)).Perm (ix.ids.map (·.1)) :=
  ⟨(h.fields fi hfi).desc, (h.fields fi hfi).oids⟩

/-- non-vacuity -/
example : ObjIndex.searchOp none .le [(Val.u64 9, 1), (Val.u64 4, 2), (Val.u64 4, 5), (Val.u64 0, 3)] (Val.u64 4) =
    .ok [(Val.u64 4, 2), (Val.u64 4, 5), (Val.u64 0, 3)] := by
  rw [C02_index_exact none .le (by decide) _ _ (by unfold Desc; decide)]; decide

/-! ### on a collection -/

/-- Collect returns, in the chosen order, the first min(limit, matches) objects (their current
    content), and Limit is consumed by what was returned -/
theorem C13_collect {c : Coll} {l : Loaded} (h : Inv' c l) (s : Search) (he : s.err = none)
    (hall : ∀ e ∈ s.fields, ∃ u, l.index.uuidOf e.snd = some u) :
    (c.collect s).snd.snd.fst =
        List.filterMap c.view (List.take s.limit (if s.reverse = true then (s.uuids l).reverse else s.uuids l)) ∧
    (c.collect s).snd.snd.snd = none ∧
    (c.collect s).snd.snd.fst.length = min s.limit s.fields.length := by
  obtain ⟨c', h1, _⟩ := collect_spec h s he hall
  exact ⟨by rw [h1], by rw [h1], collect_length h s he hall⟩

/-- One answers the no-object error iff the result is empty; otherwise the first element of
    the chosen order -/
theorem C13_one {c : Coll} {l : Loaded} (h : Inv' c l) (s : Search) (he : s.err = none) :
    ((c.one s).snd.snd = Res.err Err.noObject ↔ s.fields = []) := (one_spec h s he).1

/-- AssignIndex: the field value of every stored object, once each, non-increasing -/
theorem C13_assignIndex_coll {c : Coll} {l : Loaded} {field : String} {fi : FieldIdx} (h : Inv' c l)
    (hi : l.index.field? field = some fi) :
    c.assignIndex field = (c, Res.ok (fi.idx.map (·.fst))) ∧
    List.Pairwise (fun a b => a.lt b = false) (fi.idx.map (·.fst)) ∧
    (fi.idx.map (·.fst)).length = l.index.uuids.length ∧
    (∀ u o, c.view u = some o → ∃ x ∈ fi.idx.map (·.fst), o.field fi.pos = Leaf.v x) :=
  let ⟨a, _, b, d, _, e⟩ := assignIndex_spec h hi
  ⟨a, b, d, e⟩

end Sod.Props
