/-
  C13 — Result order, Reverse, Limit, One and AssignIndex follow the index order.
-/
import Props.C02
import Proofs.SearchColl
namespace Sod.Props
open Sod

/-- the result of a comparison on an indexed field is a sub-list of the (descending) field
    index: it comes out in non-increasing order of the field -/
theorem C13_result_sorted (m : Option Matcher) (op : Op) (hop : op ≠ .re) (l : FIdx) (k : Val) (h : Desc l) :
    ∃ r, ObjIndex.searchOp m op l k = .ok r ∧ r.Sublist l ∧ Desc r :=
  ⟨_, C02_index_exact m op hop l k h, List.filter_sublist, filter_desc l _ h⟩

/-- an And refinement ending on an indexed field re-inserts the surviving entries by
    bisection: whatever order the previous result had, the refined index is descending in the
    NEW field -/
theorem C13_and_sorted (l prev : FIdx) : Desc (l.constrain prev) := constrain_desc l prev

/-- inserting keeps the index descending, and an entry with an equal value goes after the
    existing ones (the order among ties is insertion order) -/
theorem C13_insert_sorted (l : FIdx) (e : Entry) (h : Desc l) :
    Desc (l.insert e) ∧
    l.insert e = l.filter (fun x => !Val.lt x.1 e.1) ++ e :: l.filter (fun x => Val.lt x.1 e.1) :=
  ⟨insert_desc l e h, insert_eq_split l e h⟩

/-- Reverse yields non-decreasing order: the reverse of a descending list is ascending -/
theorem C13_reverse (r : FIdx) (h : Desc r) : r.reverse.Pairwise (fun a b => Val.lt b.1 a.1 = false) := by
  rw [List.pairwise_reverse]; exact h

/-- Limit: on a consistent collection, when every member can be read, the collection loop appends
    exactly the first `min limit n` objects of the iteration order (their current content) and
    reports no error; the limit is consumed by what was returned.
    (An earlier version quantified its readability hypothesis over EVERY collection state, which
    only the empty list satisfies: found by the non-vacuity witnesses, Props/Witness.lean.) -/
theorem C13_limit {c : Coll} {l : Loaded} (h : Inv' c l) (us : List Nat) (lim : Nat) (out : List Obj)
    (hall : ∀ u ∈ us, (c.view u).isSome) :
    (Coll.collectLoop c us lim out).2.2.1 = out ++ (us.take lim).filterMap c.view ∧
    (Coll.collectLoop c us lim out).2.2.1.length = out.length + min lim us.length ∧
    (Coll.collectLoop c us lim out).2.2.2 = none ∧
    (Coll.collectLoop c us lim out).2.1 = lim - us.length := by
  obtain ⟨c', hc, _, _, _⟩ := collectLoop_spec (l := l) us (c := c) lim out h
  have hr : readablePrefix c us = us.length := readablePrefix_all hall
  rw [hc, hr]
  have hlen : ((us.take lim).filterMap c.view).length = min lim us.length := by
    have : ∀ (ws : List Nat), (∀ u ∈ ws, (c.view u).isSome) → (ws.filterMap c.view).length = ws.length := by
      intro ws
      induction ws with
      | nil => intro _; rfl
      | cons w ws ih =>
        intro hw
        have hw1 := hw w (by simp)
        cases hv : c.view w with
        | none => rw [hv] at hw1; cases hw1
        | some o =>
          rw [List.filterMap_cons, hv]
          simp only [List.length_cons]
          rw [ih (fun u hu => hw u (List.mem_cons_of_mem _ hu))]
    rw [this _ (fun u hu => hall u (List.mem_of_mem_take hu)), List.length_take]
  have ht : us.take (min lim us.length) = us.take lim := by
    by_cases hl : lim ≤ us.length
    · rw [Nat.min_eq_left hl]
    · rw [Nat.min_eq_right (by omega), List.take_of_length_le (Nat.le_refl _), List.take_of_length_le (by omega)]
  refine ⟨?_, ?_, ?_, rfl⟩
  · show out ++ (us.take (min lim us.length)).filterMap c.view = out ++ (us.take lim).filterMap c.view
    rw [ht]
  · show (out ++ (us.take (min lim us.length)).filterMap c.view).length = _
    rw [ht, List.length_append, hlen]
  · show (if us.length = us.length ∨ lim < us.length then none else some Err.notFound) = none
    simp

/-- AssignIndex returns the values of the field index, in index order, one per indexed object -/
theorem C13_assignIndex {ix : ObjIndex} (h : ix.WF) {fi : FieldIdx} (hfi : fi ∈ ix.fields) :
    Desc fi.idx ∧ (fi.idx.map (·.2)).Perm (ix.ids.map (·.1)) :=
  ⟨(h.fields fi hfi).desc, (h.fields fi hfi).oids⟩

/-- non-vacuity -/
example : ObjIndex.searchOp none .le [(Val.u64 9, 1), (Val.u64 4, 2), (Val.u64 4, 5), (Val.u64 0, 3)] (Val.u64 4) =
    .ok [(Val.u64 4, 2), (Val.u64 4, 5), (Val.u64 0, 3)] := by
  rw [C02_index_exact none .le (by decide) _ _ (by unfold Desc; decide)]; decide

/-! ### on a collection -/

/-- Collect returns, in the chosen order, the first min(limit, matches) objects (their current
    content), and Limit is consumed by what was returned -/
theorem C13_collect {c : Coll} {l : Loaded} (h : Inv' c l) (s : Search) (he : s.err = none)
    (hall : ∀ e ∈ s.fields, ∃ u, l.index.uuidOf e.snd = some u) :
    (c.collect s).snd.snd.fst =
        List.filterMap c.view (List.take s.limit (if s.reverse = true then (s.uuids l).reverse else s.uuids l)) ∧
    (c.collect s).snd.snd.snd = none ∧
    (c.collect s).snd.snd.fst.length = min s.limit s.fields.length := by
  obtain ⟨c', h1, _⟩ := collect_spec h s he hall
  exact ⟨by rw [h1], by rw [h1], collect_length h s he hall⟩

/-- One answers the no-object error iff the result is empty; otherwise the first element of
    the chosen order -/
theorem C13_one {c : Coll} {l : Loaded} (h : Inv' c l) (s : Search) (he : s.err = none) :
    ((c.one s).snd.snd = Res.err Err.noObject ↔ s.fields = []) := (one_spec h s he).1

/-- AssignIndex: the field value of every stored object, once each, non-increasing -/
theorem C13_assignIndex_coll {c : Coll} {l : Loaded} {field : String} {fi : FieldIdx} (h : Inv' c l)
    (hi : l.index.field? field = some fi) :
    c.assignIndex field = (c, Res.ok (fi.idx.map (·.fst))) ∧
    List.Pairwise (fun a b => a.lt b = false) (fi.idx.map (·.fst)) ∧
    (fi.idx.map (·.fst)).length = l.index.uuids.length ∧
    (∀ u o, c.view u = some o → ∃ x ∈ fi.idx.map (·.fst), o.field fi.pos = Leaf.v x) :=
  let ⟨a, _, b, d, _, e⟩ := assignIndex_spec h hi
  ⟨a, b, d, e⟩

end Sod.Props
