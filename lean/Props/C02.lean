/-
  C02 — Search returns exactly the matching objects, for every operator and field.
  Property theorems only; the lemmas are in Proofs/FieldIndex.lean and Proofs/ObjIndex.lean.
-/
import Proofs.SearchColl
import Proofs.Expects
namespace Sod.Props
open Sod

/-- Index layer, all six comparison operators at once: on a descending field index the
    mirror of the Go search code (bisection + slice windows) returns exactly, and in index
    order, the entries whose value satisfies the comparison. -/
theorem C02_index_exact (m : Option Matcher) (op : Op) (hop : op ≠ .re) (l : FIdx) (k : Val) (h : Desc l) :
    ObjIndex.searchOp m op l k = .ok (l.filter (fun e => Val.eval (fun _ => false) op e.1 k)) := by
  cases op with
  | eq => simp [ObjIndex.searchOp, Val.eval, searchEq_filter l k h]
  | ne => simp [ObjIndex.searchOp, Val.eval, searchNe_filter l k h]
  | gt => simp [ObjIndex.searchOp, Val.eval, searchGt_filter l k h]
  | ge => simp [ObjIndex.searchOp, Val.eval, searchGe_filter l k h]
  | lt => simp [ObjIndex.searchOp, Val.eval, searchLt_filter l k h]
  | le => simp [ObjIndex.searchOp, Val.eval, searchLe_filter l k h]
  | re => exact absurd rfl hop

/-- The bisection itself: the insertion index splits a descending index into the entries not
    less than the probe and the entries less than it (every length, every probe). -/
theorem C02_bisection (l : FIdx) (k : Val) (h : Desc l) :
    (∀ e ∈ l.take (insertionIndex l k), Val.lt e.1 k = false) ∧
    (∀ e ∈ l.drop (insertionIndex l k), Val.lt e.1 k = true) :=
  insertionIndex_take_drop l k h

/-- Collection layer: if the index is well formed and reflects the stored objects, a search on an
    indexed field denotes all and only the stored objects whose field satisfies the comparison. -/
theorem C02_collection_exact {ix : ObjIndex} {objs : Nat → Option Obj} (h : ix.WF) (hrf : Reflects ix objs)
    {fi : FieldIdx} (hfi : fi ∈ ix.fields) (op : Op) (hop : op ≠ .re) (m : Option Matcher) (v : Val) :
    ∃ r, ObjIndex.searchOp m op fi.idx v = .ok r ∧
      (∀ e : Entry, e ∈ r ↔ ∃ u o, (e.2, u) ∈ ix.ids ∧ objs u = some o ∧ o.field fi.pos = .v e.1 ∧
                                   Val.eval (fun _ => false) op e.1 v = true) ∧
      r.Sublist fi.idx :=
  searchOp_exact h hrf hfi op hop m v

/-- the same for the pattern operator, for any compiled matcher -/
theorem C02_pattern_exact {ix : ObjIndex} {objs : Nat → Option Obj} (h : ix.WF) (hrf : Reflects ix objs)
    {fi : FieldIdx} (hfi : fi ∈ ix.fields) (hc : fi.cast = Tag.str) (f : Matcher) (s : Bytes) :
    ∃ r, ObjIndex.searchOp (some f) .re fi.idx (.str s) = .ok r ∧
      (∀ e : Entry, e ∈ r ↔ ∃ u o, (e.2, u) ∈ ix.ids ∧ objs u = some o ∧ o.field fi.pos = .v e.1 ∧
                                   Val.eval f .re e.1 (.str s) = true) ∧
      r.Sublist fi.idx :=
  searchOp_re_exact h hrf hfi hc f s

/-- And on an indexed field: the refined index holds exactly the entries of the field index
    whose object is in the previous result (then the operator theorem applies to it, since it
    is descending again). -/
theorem C02_and_constrain (l prev : FIdx) (hn : (l.map (·.2)).Nodup) (hp : (prev.map (·.2)).Nodup) :
    Desc (l.constrain prev) ∧
    (l.constrain prev).Perm (l.filter (fun e => prev.any (fun f => f.2 == e.2))) :=
  ⟨constrain_desc l prev, constrain_perm l prev hn hp⟩

/-- Or: the result is the new matches followed by the old entries whose object is not among
    them — the duplicate-free union, by object id. -/
theorem C02_or_union (E : Env) (c : Coll) (s : Search) (field : String) (op : Option Op) (probe : Leaf)
    (hs : s.err = none) :
    (Coll.searchOr E c s field op probe).2.fields =
      (Coll.search E c field op probe none).2.fields ++
        s.fields.filter (fun f => !((Coll.search E c field op probe none).2.fields.any (fun g => g.2 == f.2))) := by
  simp [Coll.searchOr, hs]

theorem C02_or_mem (n s : FIdx) (e : Entry) :
    e ∈ n ++ s.filter (fun f => !(n.any (fun g => g.2 == f.2))) ↔
      e ∈ n ∨ (e ∈ s ∧ ∀ g ∈ n, g.2 ≠ e.2) := by
  simp only [List.mem_append, List.mem_filter, Bool.not_eq_true', List.any_eq_false, beq_iff_eq]

/-- non-vacuity: a descending index with ties, and a probe between two values -/
example : Desc [(Val.i64 5, 1), (Val.i64 3, 2), (Val.i64 3, 4), (Val.i64 1, 3)] := by unfold Desc; decide
example : ObjIndex.searchOp none .ge [(Val.i64 5, 1), (Val.i64 3, 2), (Val.i64 3, 4), (Val.i64 1, 3)] (Val.i64 2)
    = .ok [(Val.i64 5, 1), (Val.i64 3, 2), (Val.i64 3, 4)] := by
  rw [C02_index_exact none .ge (by decide) _ _ (by unfold Desc; decide)]; decide

/-! ### the whole path `DB.Search` / `Search.And` / `Search.Or` / `Search.Delete` on a collection

`Matches c m op pos v u`: the object stored under `u` has a leaf at `pos` satisfying `op v`.
`Denotes l fs u`: some entry of the result designates `u`. -/

/-- indexed field: exactly the matching objects, each once, in non-increasing order; the
    collection is unchanged -/
theorem C02_search_indexed {E : Env} {c : Coll} {l : Loaded} {field : String} {fi : FieldIdx} {op : Op} {probe : Leaf} {pv : Val}
    (h : Inv' c l) (hi : l.index.field? field = some fi) (hr : pathResolvable c.live field = true)
    (hp : E.prepare l.descs field probe = Leaf.v pv) (ht : pv.tag = fi.cast) (hop : op ≠ Op.re) :
    ∃ s, Coll.search E c field (some op) probe none = (c, s) ∧ s.err = none ∧
      (∀ e ∈ s.fields, ∃ u, l.index.uuidOf e.snd = some u ∧ Matches c (fun _ => false) op fi.pos pv u) ∧
      (∀ u, Matches c (fun _ => false) op fi.pos pv u → ∃ e ∈ s.fields, l.index.uuidOf e.snd = some u) ∧
      Desc s.fields ∧ (s.fields.map (·.snd)).Nodup :=
  let ⟨s, h1, h2, _, h4, h5, h6, h7⟩ := search_indexed_exact h hi hr hp ht hop
  ⟨s, h1, h2, h4, h5, h6, h7⟩

/-- unindexed field: the scan returns exactly the matching objects, each once; what the
    collection denotes and its directory are unchanged -/
theorem C02_search_unindexed {E : Env} {c : Coll} {l : Loaded} {field : String} {op : Op} {probe : Leaf} {pv : Val}
    {pos : Nat} {d : FieldDesc} (h : Inv' c l) (hi : l.index.field? field = none)
    (hr : pathResolvable c.live field = true) (hp : E.prepare l.descs field probe = Leaf.v pv)
    (hd : descPos? l.descs field = some (pos, d)) (hc : d.cast = some pv.tag) (hop : op ≠ Op.re)
    (hty : ∀ u o, c.view u = some o → ∃ x, o.field pos = Leaf.v x) :
    ∃ c' s, Coll.search E c field (some op) probe none = (c', s) ∧ s.err = none ∧ c'.view = c.view ∧ c'.disk = c.disk ∧
      (∀ e ∈ s.fields, ∃ u, l.index.uuidOf e.snd = some u ∧ Matches c (fun _ => false) op pos pv u) ∧
      (∀ u, Matches c (fun _ => false) op pos pv u → ∃ e ∈ s.fields, l.index.uuidOf e.snd = some u) ∧
      (s.fields.map (·.snd)).Nodup :=
  let ⟨c', s, h1, h2, _, h4, h5, h6, h7, h8, _⟩ := search_unindexed_exact h hi hr hp hd hc hop hty
  ⟨c', s, h1, h2, h4, h5, h6, h7, h8⟩

/-- And narrows to the intersection, Or widens to the duplicate-free union -/
theorem C02_and_intersection {E : Env} {c : Coll} {l : Loaded} {field : String} {fi : FieldIdx} {op : Op} {probe : Leaf} {pv : Val}
    (h : Inv' c l) (hi : l.index.field? field = some fi) (hr : pathResolvable c.live field = true)
    (hp : E.prepare l.descs field probe = Leaf.v pv) (ht : pv.tag = fi.cast) (hop : op ≠ Op.re)
    (s0 : Search) (he : s0.err = none) (hn : (s0.fields.map (·.snd)).Nodup) (u : Nat) :
    Denotes l (Coll.searchAnd E c s0 field (some op) probe).snd.fields u ↔
      Denotes l s0.fields u ∧ Matches c (fun _ => false) op fi.pos pv u :=
  and_indexed_matches h hi hr hp ht hop s0 he hn u

theorem C02_or_is_union {E : Env} {c : Coll} {l : Loaded} {field : String} {fi : FieldIdx} {op : Op} {probe : Leaf} {pv : Val}
    (h : Inv' c l) (hi : l.index.field? field = some fi) (hr : pathResolvable c.live field = true)
    (hp : E.prepare l.descs field probe = Leaf.v pv) (ht : pv.tag = fi.cast) (hop : op ≠ Op.re)
    (s0 : Search) (he : s0.err = none) :
    (Coll.searchOr E c s0 field (some op) probe).fst = c ∧
    ((s0.fields.map (·.snd)).Nodup → ((Coll.searchOr E c s0 field (some op) probe).snd.fields.map (·.snd)).Nodup) ∧
    ∀ u, Denotes l (Coll.searchOr E c s0 field (some op) probe).snd.fields u ↔
      Matches c (fun _ => false) op fi.pos pv u ∨ Denotes l s0.fields u :=
  let ⟨a, _, b, d⟩ := or_indexed_matches h hi hr hp ht hop s0 he
  ⟨a, b, d⟩

/-- deleting through a search removes exactly the designated objects -/
theorem C02_search_delete {c : Coll} {l : Loaded} (h : Inv' c l) (s : Search) (he : s.err = none) :
    ∃ c' l', c.searchDelete s = (c', Res.ok ()) ∧ Inv' c' l' ∧
      c'.view = fun w => if w ∈ s.uuids l then none else c.view w :=
  let ⟨c', l', a, b, d, _⟩ := searchDelete_spec h s he
  ⟨c', l', a, b, d⟩

/-- `Expects(n)` / `ExpectsZeroOrN(n)` keep the members of a search, keep an earlier failure, and
    turn the search into a failed one (class: unexpected number of results) exactly when it holds
    another number of results -/
theorem C02_expects_members (s : Search) (z : Bool) (n : Nat) : (s.expects z n).fields = s.fields :=
  expects_fields s z n

theorem C02_expects_iff (s : Search) (z : Bool) (n : Nat) (h : s.err = none) :
    (s.expects z n).err = none ↔ (s.fields.length = n ∨ (z = true ∧ s.fields.length = 0)) :=
  expects_ok_iff s z n h

theorem C02_expects_class (s : Search) (z : Bool) (n : Nat) (h : s.err = none)
    (hn : ¬ (s.fields.length = n ∨ (z = true ∧ s.fields.length = 0))) :
    (s.expects z n).err = some Err.unexpectedN := expects_err_class s z n h hn

end Sod.Props
