/-
  C08 — Concurrent calls are linearizable and free of data races (lock-protocol part).
-/
import Proofs.Lock
import Generated.Locks
import Proofs.Linearize
namespace Sod.Props
open Sod.Lock

/-- a write holder excludes every other holder, in every reachable state of every schedule -/
theorem C08_mutex {s0 s : State} (h0 : Initial s0) (r : Reach s0 s) :
    ∀ (i j : Nat) (t u : Thread) (l : LockId), i ≠ j → s[i]? = some t → s[j]? = some u → holdsW t l → ¬ holds u l :=
  Sod.Lock.C08_mutex h0 r

/-- REGENERATED on every run: every pair of conflicting accesses to shared index, schema, cache
    or pending-store memory found in the current source holds a common lock, one of them in
    write mode -/
theorem C08_accesses_covered : covered Generated.Locks.accesses = true := by decide

/-- therefore two threads of a reachable state are never inside conflicting accesses at once -/
theorem C08_race_free {s0 s : State} (h0 : Initial s0) (r : Reach s0 s)
    (a b : Access) (ha : a ∈ Generated.Locks.accesses) (hb : b ∈ Generated.Locks.accesses)
    (hcf : conflicting a b = true)
    (i j : Nat) (t u : Thread) (hij : i ≠ j) (hi : s[i]? = some t) (hj : s[j]? = some u)
    (inst : Nat → Nat)
    (hta : ∀ c m, (c, m) ∈ a.held → ((c, inst c), m) ∈ t.held)
    (hub : ∀ c m, (c, m) ∈ b.held → ((c, inst c), m) ∈ u.held) : False :=
  Sod.Lock.C08_race_free h0 r Generated.Locks.accesses C08_accesses_covered a b ha hb hcf i j t u hij hi hj inst hta hub

/-- calls which are, by their contract, a SEQUENCE of critical sections: the chunked insert applies
    one `InsertOrUpdateMany` per chunk (C07), the flusher is a loop of polls -/
def composite : List String := ["DB.InsertOrUpdateBulk", "go:DB.startAsyncWritesRoutine"]

/-- REGENERATED on every run: every other exported call, on every path, takes the handle lock at
    most once — it is ONE critical section (so `C08_linearizable` applies to it) -/
theorem C08_one_section :
    Generated.Locks.sections.all (fun p => p.2 ≤ 1 || composite.contains p.1) = true := by decide

/-- calls that run as one critical section of a readers/writer lock are linearizable: every
    interleaving of their micro-steps gives every call the result, and the shared state the final
    value, of running the calls one at a time in lock-acquisition order, which contains every call
    once and respects program order and real-time order -/
theorem C08_linearizable {S L R : Type} (σ0 : S) (ps : List (List (Lin.Call S L R)))
    (hwf : ∀ p ∈ ps, ∀ c ∈ p, c.WF) (s : Lin.State S L R)
    (hrun : Lin.Steps (Lin.initial σ0 ps) s) (hfin : Lin.finished s) :
    let order := Lin.acqOrder s.hist
    (Lin.runSeq ps order σ0).1 = s.σ ∧
    (∀ id res, Lin.Event.rel id res ∈ s.hist → (id, res) ∈ (Lin.runSeq ps order σ0).2) ∧
    order.Nodup ∧
    (∀ (i k : Nat), (∃ c, Lin.callOf ps (i, k) = some c) ↔ (i, k) ∈ order) ∧
    (∀ (i k k' : Nat), k < k' → (i, k') ∈ order →
       ∃ a b : Nat, order[a]? = some (i, k) ∧ order[b]? = some (i, k') ∧ a < b) ∧
    (∀ (c d : Lin.CallId) (pr pa : Nat), Lin.posOf s.hist (Lin.isRel c) = some pr →
       Lin.posOf s.hist (Lin.isAcq d) = some pa → pr < pa →
       ∃ a b : Nat, order[a]? = some c ∧ order[b]? = some d ∧ a < b) :=
  Lin.linearizable σ0 ps hwf s hrun hfin

theorem C08_all_returned {S L R : Type} (σ0 : S) (ps : List (List (Lin.Call S L R)))
    (hwf : ∀ p ∈ ps, ∀ c ∈ p, c.WF) (s : Lin.State S L R)
    (hrun : Lin.Steps (Lin.initial σ0 ps) s) (hfin : Lin.finished s) :
    ∀ id ∈ Lin.acqOrder s.hist, ∃ res, Lin.Event.rel id res ∈ s.hist :=
  Lin.linearizable_all_returned σ0 ps hwf s hrun hfin

end Sod.Props
