/-
  C08 — Concurrent calls are linearizable and free of data races (lock-protocol part).
-/
import Proofs.Lock
import Generated.Locks
namespace Sod.Props
open Sod.Lock

/-- a write holder excludes every other holder, in every reachable state of every schedule -/
theorem C08_mutex {s0 s : State} (h0 : Initial s0) (r : Reach s0 s) :
    ∀ (i j : Nat) (t u : Thread) (l : LockId), i ≠ j → s[i]? = some t → s[j]? = some u → holdsW t l → ¬ holds u l :=
  Sod.Lock.C08_mutex h0 r

/-- REGENERATED on every run: every pair of conflicting accesses to shared index, schema, cache
    or pending-store memory found in the current source holds a common lock, one of them in
    write mode -/
theorem C08_accesses_covered : covered Generated.Locks.accesses = true := by decide

/-- therefore two threads of a reachable state are never inside conflicting accesses at once -/
theorem C08_race_free {s0 s : State} (h0 : Initial s0) (r : Reach s0 s)
    (a b : Access) (ha : a ∈ Generated.Locks.accesses) (hb : b ∈ Generated.Locks.accesses)
    (hcf : conflicting a b = true)
    (i j : Nat) (t u : Thread) (hij : i ≠ j) (hi : s[i]? = some t) (hj : s[j]? = some u)
    (inst : Nat → Nat)
    (hta : ∀ c m, (c, m) ∈ a.held → ((c, inst c), m) ∈ t.held)
    (hub : ∀ c m, (c, m) ∈ b.held → ((c, inst c), m) ∈ u.held) : False :=
  Sod.Lock.C08_race_free h0 r Generated.Locks.accesses C08_accesses_covered a b ha hb hcf i j t u hij hi hj inst hta hub

end Sod.Props
