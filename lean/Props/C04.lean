/-
  C04 — Close and reopen preserves objects, indexes and constraints exactly.

  `Synced c l`: schema.json is the image of the loaded schema and nothing is pending.
  `ShapeOk c l`: the Go struct still has the stored shape.  The numeric round trip of index
  values through schema.json (exact decimal text, `fix: reload index values exactly`) is part
  of the codec, tied by the `reopen` correspondence profile (values ≥ 2^53, nanosecond
  timestamps); in the model the image holds the values themselves.
-/
import Proofs.Reopen
import Proofs.Codec
namespace Sod.Props
open Sod

/-- synchronous mode: every completed accepted write has committed (so abandoning the handle
    after any completed call loses nothing) -/
theorem C04_sync_insert_commits {E : Env} {c : Coll} {l : Loaded} (h : Inv' c l) (hs : Synced c l)
    (ha : l.settings.async = none) (o : Obj) (fresh : Nat)
    (ht : Obj.Typed l.index (assignNew (E.canon l.descs (E.transform o)) fresh))
    (hr : (Coll.insert E c o fresh).snd = Res.ok ()) :
    ∃ l', Inv' (Coll.insert E c o fresh).fst l' ∧ Synced (Coll.insert E c o fresh).fst l' :=
  insert_synced h hs ha o fresh ht hr

theorem C04_sync_delete_commits {c : Coll} {l : Loaded} (h : Inv' c l) (hs : Synced c l) (u : Nat) :
    (c.delete u).snd = Res.ok () ∧ ∃ l', Inv' (c.delete u).fst l' ∧ Synced (c.delete u).fst l' :=
  delete_synced h hs u

/-- a new handle on a synced directory loads without error, holds the same index (with the id
    counter recomputed above every id in use), the same settings and descriptors, satisfies the
    invariant again — so C01, C02, C03, C13 apply to it — and denotes the same objects -/
theorem C04_reopen {c : Coll} {l : Loaded} (h : Inv' c l) (hs : Synced c l) (hk : ShapeOk c l)
    (ha : l.settings.async = none) :
    ∃ l', c.reopen.schema = ({ c.reopen with mem := some l' }, Res.ok l') ∧ l'.index = l.index.reload ∧
      l'.settings = l.settings ∧ l'.descs = l.descs ∧ Inv' { c.reopen with mem := some l' } l' ∧
      ({ c.reopen with mem := some l' } : Coll).view = c.view :=
  reopen_spec h hs hk ha

/-- any mode: Close leaves nothing pending and schema.json committed, and close + reopen +
    first access denotes the same objects -/
theorem C04_close_then_reopen {c : Coll} {l : Loaded} (h : Inv' c l) (hn : c.pending.keys.Nodup) (hk : ShapeOk c l) :
    (c.close.fst.pending = [] ∧ c.close.fst.disk.schema = some l.img ∧ c.close.snd = Res.ok ()) ∧
    ∃ l', Inv' { c.close.fst.reopen with mem := some l' } l' ∧
      ({ c.close.fst.reopen with mem := some l' } : Coll).view = c.view :=
  ⟨close_synced h, let ⟨l', _, b, d⟩ := close_reopen_view h hn hk; ⟨l', b, d⟩⟩

/-- after a restart ids are still never reused -/
theorem C04_ids_not_reused {ix : ObjIndex} (h : ix.WF) : ∀ p ∈ ix.reload.ids, p.fst < ix.reload.next :=
  reload_next_fresh h

/-! ### the decimal reader of the schema codec (the oracle that decides, in the `reopen` and
    `simg` correspondence, whether the number text in schema.json denotes the indexed double) -/

/-- no number text is accepted for an infinity or a NaN key -/
theorem C04_decimal_nonfinite (d : Codec.Dec) (k : Int) (hk : k.natAbs / 2 ^ 52 ≥ 2047) :
    Codec.decIsKey d k = false :=
  Codec.decIsKey_nonfinite d k hk

/-- an accepted text has the sign of the key, and key 0 is denoted exactly by a zero mantissa -/
theorem C04_decimal_sign (d : Codec.Dec) (k : Int) (h0 : k ≠ 0) (h : Codec.decIsKey d k = true) :
    d.neg = decide (k < 0) :=
  Codec.decIsKey_sign d k h0 h

theorem C04_decimal_zero (d : Codec.Dec) : Codec.decIsKey d 0 = (d.mant == 0) :=
  Codec.decIsKey_zero d

/-- the oracle is exact to the last bit: one text never denotes two adjacent order keys `k`, `k+1`
    — for every literal and every pair of finite keys (negative, ±0, subnormal, normal, across
    binade boundaries) — so an index value reloaded one ulp off (the defect repaired by
    `fix: reload index values exactly`) cannot pass the comparison.  The upper rounding boundary
    of a double is the lower boundary of its successor and only one of the two significands is even. -/
theorem C04_decimal_adjacent_excl (d : Codec.Dec) (k : Int)
    (hk : k.natAbs / 2 ^ 52 < 2047) (hk1 : (k + 1).natAbs / 2 ^ 52 < 2047) :
    ¬ (Codec.decIsKey d k = true ∧ Codec.decIsKey d (k + 1) = true) :=
  Codec.decIsKey_adjacent_excl_all d k hk hk1

/-- a text with a zero mantissa denotes no positive key -/
theorem C04_decimal_zero_mant (d : Codec.Dec) (n : Nat) (hn : 0 < n) (hd : d.mant = 0) :
    Codec.decIsKey d (n : Int) = false :=
  Codec.decIsKey_zero_mant_pos d n hn hd

/-- the oracle raises no false alarm on the large integers of the C04 defect: every double `≥ 2^52`
    (an integer `M·2^t`; `1<<60`, nanosecond timestamps stored as float, …) is accepted with its
    exact integer text -/
theorem C04_decimal_exact_int_accepted (n t : Nat) (ht : n / 2 ^ 52 = 1075 + t) (hf : n / 2 ^ 52 < 2047) :
    Codec.decIsKey ⟨false, (2 ^ 52 + n % 2 ^ 52) * 2 ^ t, 0⟩ (n : Int) = true :=
  Codec.decIsKey_exact_int n t ht hf

/-- the digit reader under the number texts is positional, and rejects anything but digits -/
theorem C04_decimal_digits_positional (l : List Char) (c : Char) (hl : l ≠ []) (hc : c.isDigit = true) :
    Codec.digitsVal (l ++ [c]) = (Codec.digitsVal l).map (fun a => a * 10 + (c.toNat - 48)) :=
  Codec.digitsVal_snoc l c hl hc

theorem C04_decimal_digits_reject (l r : List Char) (c : Char) (hc : c.isDigit = false) :
    Codec.digitsVal (l ++ c :: r) = none :=
  Codec.digitsVal_nondigit l r c hc

/-- … and on everything below 2^52: every positive finite double with a negative binary exponent
    (all subnormals, all normals `< 2^52`) is accepted with the exact decimal expansion of its
    binary value `M·2^(-k) = M·5^k·10^(-k)` -/
theorem C04_decimal_exact_frac_accepted (n k : Nat) (hn : 0 < n) (he : n / 2 ^ 52 < 1075)
    (hk : (if n / 2 ^ 52 = 0 then 1074 else 1075 - n / 2 ^ 52) = k) :
    Codec.decIsKey ⟨false, (if n / 2 ^ 52 = 0 then n % 2 ^ 52 else 2 ^ 52 + n % 2 ^ 52) * 5 ^ k, -(k : Int)⟩
      (n : Int) = true :=
  Codec.decIsKey_exact_frac n k hn he hk

/-- the oracle is satisfiable at every finite key of either sign (the exact value is accepted):
    a correct encoder can always pass it, it never demands the impossible -/
theorem C04_decimal_satisfiable (k : Int) (hk : k.natAbs / 2 ^ 52 < 2047) :
    ∃ d : Codec.Dec, Codec.decIsKey d k = true :=
  Codec.decIsKey_satisfiable k hk

/-- THE DECIMAL ORACLE IS A PARTIAL FUNCTION from number texts to order keys: one text denotes at
    most one key, for every text and every two keys, no side condition (infinities and NaNs are
    never denoted).  With `C04_decimal_satisfiable` (onto the finite keys): a reloaded index value
    passes the comparison iff it is the double the text denotes, so any inexact reload is caught
    whatever the distance — the upper rounding boundaries are strictly increasing in the key
    (`upC_succ`) and each lower boundary is the predecessor's upper one (`loC_succ`). -/
theorem C04_decimal_functional (d : Codec.Dec) (k k' : Int)
    (h : Codec.decIsKey d k = true) (h' : Codec.decIsKey d k' = true) : k = k' :=
  Codec.decIsKey_functional' d k k' h h'

/-- THE ENTRY COMPARISON OF `simg` IS EXACT: within one cast (the type of the index), a JSON value
    read from schema.json stands for at most one model value — integers by injectivity of the
    decimal rendering (`Int.repr_injective`, `Nat.repr_injective`), floats by
    `C04_decimal_functional`, strings by byte equality.  So `Codec.checkEntries` cannot accept a
    file whose entry differs from the model's in value. -/
theorem C04_schema_value_exact (j : Json.J) (v w : Val) (ht : Codec.Val.tag v = Codec.Val.tag w)
    (h : Codec.valueIs j v = true) (h' : Codec.valueIs j w = true) : v = w :=
  Codec.valueIs_functional j v w ht h h'

/-- … and a JSON string never stands for a number nor a JSON number for a string -/
theorem C04_schema_value_kind (j : Json.J) (v : Val) (h : Codec.valueIs j v = true) :
    (∃ b, j = .str b ∧ ∃ s, v = .str s) ∨ (∃ l, j = .num l ∧ ∀ s, v ≠ .str s) :=
  Codec.valueIs_kind j v h

/-- an entry list of schema.json accepted by the comparison has exactly as many entries as the
    model's index of that field (no entry dropped or added by a write/reload can pass) -/
theorem C04_schema_entries_count (name : String) (fi mi : List (Nat × Nat)) (fuel i : Nat)
    (js : List Json.J) (es : FIdx) (h : Codec.checkEntries name fi mi fuel i js es = .ok ()) :
    js.length = es.length :=
  Codec.checkEntries_length name fi mi fuel i js es h

/-- end to end through the reader (`parseDec` → `decIsKey` → `valueIs`): for a double `≥ 2^52`, a
    plain digit string whose value is the double's exact integer value is accepted as that double -/
theorem C04_schema_exact_int_text_accepted (cs : List Char) (n t : Nat) (hne : cs ≠ [])
    (hd : ∀ c ∈ cs, c.isDigit = true) (hv : Codec.digitsVal cs = some ((2 ^ 52 + n % 2 ^ 52) * 2 ^ t))
    (ht : n / 2 ^ 52 = 1075 + t) (hf : n / 2 ^ 52 < 2047) :
    Codec.valueIs (.num (String.ofList cs)) (.f64 (n : Int)) = true :=
  Codec.valueIs_exact_int_text cs n t hne hd hv ht hf

/-- the comparison of schema.json is closed on keys: an accepted JSON object has only the expected
    keys (a stray or misspelt key is a difference, never ignored) -/
theorem C04_schema_keys_closed (j : Json.J) (allowed : List String) (what : String)
    (h : Codec.keysWithin j allowed what = .ok ()) :
    ∃ kv, j = .obj kv ∧ ∀ p ∈ kv, ∃ a ∈ allowed, Codec.sbytes a = p.1 :=
  Codec.keysWithin_ok j allowed what h

/-- accepted constraints are the model's constraints flag by flag (an absent flag reads false), so a
    reopened schema whose file lost or gained `unique`/`index`/`upper`/`lower` cannot pass -/
theorem C04_schema_constraints_exact (j : Json.J) (c : Cons) (what : String)
    (h : Codec.checkCons (some j) c what = .ok ()) :
    Codec.getBool j "index" (some false) = .ok c.index ∧ Codec.getBool j "unique" (some false) = .ok c.unique ∧
    Codec.getBool j "upper" (some false) = .ok c.upper ∧ Codec.getBool j "lower" (some false) = .ok c.lower :=
  Codec.checkCons_ok j c what h

/-- accepted async settings are the model's: on/off agree, and when on the threshold text is the
    model's threshold and the timeout string is a Go duration of the model's number of 100 ms steps -/
theorem C04_schema_async_exact (j : Option Json.J) (a : Option Async) (h : Codec.checkAsync j a = .ok ()) :
    (a = none → ∀ jj, j = some jj → Codec.getBool jj "enable" none = .ok false) ∧
    (∀ aa, a = some aa → ∃ jj, j = some jj ∧ Codec.getBool jj "enable" none = .ok true ∧
      ∃ t d ns, jj.get? "threshold" = some (.num t) ∧ jj.get? "timeout" = some (.str d) ∧
        t = toString aa.threshold ∧ Codec.parseDurationNs (String.ofList (d.map Char.ofNat)) = some ns ∧
        (ns + 99999999) / 100000000 = aa.timeout) :=
  Codec.checkAsync_ok j a h

/-- an accepted field index of schema.json carries the model's name, cast, constraints and number
    of entries -/
theorem C04_schema_field_index_exact (fileIds modelIds : List (Nat × Nat)) (j : Json.J) (fi : FieldIdx)
    (h : Codec.checkFieldIndex fileIds modelIds j fi = .ok ()) :
    Codec.getStr j "name" = .ok (Codec.sbytes fi.name) ∧ Codec.getStr j "cast" = .ok (Codec.sbytes fi.cast.name) ∧
    (∃ cj, j.get? "constraints" = some cj ∧
      Codec.getBool cj "index" (some false) = .ok fi.cons.index ∧ Codec.getBool cj "unique" (some false) = .ok fi.cons.unique ∧
      Codec.getBool cj "upper" (some false) = .ok fi.cons.upper ∧ Codec.getBool cj "lower" (some false) = .ok fi.cons.lower) ∧
    ∃ l, j.get? "index" = some (.arr l) ∧ l.length = fi.idx.length :=
  Codec.checkFieldIndex_ok fileIds modelIds j fi h

/-- ENTRY BY ENTRY: in an accepted entry list every file entry, paired with the model entry at the
    same position, is a well-formed `[value, id]` pair whose value stands for the model's value —
    with `C04_schema_value_exact` and `C04_schema_entries_count`: the sequence of values of an
    accepted index in schema.json IS the model's sequence of values (order included) -/
theorem C04_schema_entries_exact (name : String) (fi mi : List (Nat × Nat)) (fuel i : Nat)
    (js : List Json.J) (es : FIdx) (h : Codec.checkEntries name fi mi fuel i js es = .ok ()) :
    ∀ p ∈ js.zip es, ∃ v o, Codec.entryOf p.1 = some (v, o) ∧ Codec.valueIs v p.2.1 = true :=
  Codec.checkEntries_values name fi mi fuel i js es h

/-- an accepted object-id table of schema.json is an object whose every member is
    `"<oid>": "h<uuid-handle>"`, and the comparison returns exactly one pair per member (no member
    is skipped; that the uuid sets agree goes through `Array.qsort` and is executable only) -/
theorem C04_schema_ids_wellformed (j : Json.J) (ids got : List (Nat × Nat)) (h : Codec.checkIds j ids = .ok got) :
    ∃ kv, j = .obj kv ∧ got.length = kv.length ∧
      ∀ p ∈ got, ∃ q ∈ kv, Codec.natOf q.1 = some p.1 ∧ ∃ b, q.2 = .str b ∧ Codec.handleOf b = some p.2 :=
  Codec.checkIds_ok j ids got h

end Sod.Props
