/-
  C04 — Close and reopen preserves objects, indexes and constraints exactly.

  `Synced c l`: schema.json is the image of the loaded schema and nothing is pending.
  `ShapeOk c l`: the Go struct still has the stored shape.  The numeric round trip of index
  values through schema.json (exact decimal text, `fix: reload index values exactly`) is part
  of the codec, tied by the `reopen` correspondence profile (values ≥ 2^53, nanosecond
  timestamps); in the model the image holds the values themselves.
-/
import Proofs.Reopen
namespace Sod.Props
open Sod

/-- synchronous mode: every completed accepted write has committed (so abandoning the handle
    after any completed call loses nothing) -/
theorem C04_sync_insert_commits {E : Env} {c : Coll} {l : Loaded} (h : Inv' c l) (hs : Synced c l)
    (ha : l.settings.async = none) (o : Obj) (fresh : Nat)
    (ht : Obj.Typed l.index (assignNew (E.canon l.descs (E.transform o)) fresh))
    (hr : (Coll.insert E c o fresh).snd = Res.ok ()) :
    ∃ l', Inv' (Coll.insert E c o fresh).fst l' ∧ Synced (Coll.insert E c o fresh).fst l' :=
  insert_synced h hs ha o fresh ht hr

theorem C04_sync_delete_commits {c : Coll} {l : Loaded} (h : Inv' c l) (hs : Synced c l) (u : Nat) :
    (c.delete u).snd = Res.ok () ∧ ∃ l', Inv' (c.delete u).fst l' ∧ Synced (c.delete u).fst l' :=
  delete_synced h hs u

/-- a new handle on a synced directory loads without error, holds the same index (with the id
    counter recomputed above every id in use), the same settings and descriptors, satisfies the
    invariant again — so C01, C02, C03, C13 apply to it — and denotes the same objects -/
theorem C04_reopen {c : Coll} {l : Loaded} (h : Inv' c l) (hs : Synced c l) (hk : ShapeOk c l)
    (ha : l.settings.async = none) :
    ∃ l', c.reopen.schema = ({ c.reopen with mem := some l' }, Res.ok l') ∧ l'.index = l.index.reload ∧
      l'.settings = l.settings ∧ l'.descs = l.descs ∧ Inv' { c.reopen with mem := some l' } l' ∧
      ({ c.reopen with mem := some l' } : Coll).view = c.view :=
  reopen_spec h hs hk ha

/-- any mode: Close leaves nothing pending and schema.json committed, and close + reopen +
    first access denotes the same objects -/
theorem C04_close_then_reopen {c : Coll} {l : Loaded} (h : Inv' c l) (hn : c.pending.keys.Nodup) (hk : ShapeOk c l) :
    (c.close.fst.pending = [] ∧ c.close.fst.disk.schema = some l.img ∧ c.close.snd = Res.ok ()) ∧
    ∃ l', Inv' { c.close.fst.reopen with mem := some l' } l' ∧
      ({ c.close.fst.reopen with mem := some l' } : Coll).view = c.view :=
  ⟨close_synced h, let ⟨l', _, b, d⟩ := close_reopen_view h hn hk; ⟨l', b, d⟩⟩

/-- after a restart ids are still never reused -/
theorem C04_ids_not_reused {ix : ObjIndex} (h : ix.WF) : ∀ p ∈ ix.reload.ids, p.fst < ix.reload.next :=
  reload_next_fresh h

end Sod.Props
