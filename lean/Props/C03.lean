/-
  C03 — Uniqueness constraints are never violated and never over-enforced.
-/
import Proofs.ObjIndex
namespace Sod.Props
open Sod

/-- never violated: in every well-formed index a unique field holds pairwise distinct values,
    and well-formedness is preserved by every accepted insert/update and by every delete -/
theorem C03_unique_invariant {ix : ObjIndex} (h : ix.WF) {fi : FieldIdx} (hfi : fi ∈ ix.fields)
    (hu : fi.cons.unique = true) : fi.idx.Pairwise (fun a b => a.1 ≠ b.1) :=
  (h.fields fi hfi).uniq hu

theorem C03_preserved_by_insert {ix ix' : ObjIndex} {o : Obj} (h : ix.WF) (ht : o.Typed ix)
    (hr : ix.insertOrUpdate o = .ok ix') : ix'.WF := insertOrUpdate_wf h ht hr

theorem C03_preserved_by_delete {ix : ObjIndex} (h : ix.WF) (u : Nat) : (ix.deleteByUUID u).WF :=
  deleteByUUID_wf h u

theorem C03_preserved_by_reopen {ix : ObjIndex} (h : ix.WF) : ix.reload.WF := reload_wf h

/-- never over-enforced, never under-enforced: a single insert or update is rejected with the
    uniqueness error if and only if a DIFFERENT stored object already holds the value in a
    unique field (re-saving an object with its own value is therefore accepted, and a value
    released by a delete or an update is immediately reusable) -/
theorem C03_reject_iff {ix : ObjIndex} {o : Obj} (h : ix.WF) (ht : o.Typed ix) :
    ix.insertOrUpdate o = .err .unique ↔
      ∃ fi ∈ ix.fields, fi.cons.unique = true ∧
        ∃ e ∈ fi.idx, o.field fi.pos = .v e.1 ∧ ix.uuidOf e.2 ≠ some o.uuid :=
  insertOrUpdate_unique_iff h ht

/-- and there is no other way to be refused -/
theorem C03_accept_or_unique {ix : ObjIndex} {o : Obj} (h : ix.WF) (ht : o.Typed ix) :
    (∃ ix', ix.insertOrUpdate o = .ok ix') ∨ ix.insertOrUpdate o = .err .unique :=
  insertOrUpdate_total h ht

/-- after a reload (close/reopen) the object-id counter lies above every id in use, so ids —
    and with them released unique values — are never confused with those of another object -/
theorem C03_reload_next_above {ix : ObjIndex} (h : ix.WF) : ∀ p ∈ ix.reload.ids, p.1 < ix.reload.next :=
  (reload_wf h).ltNext

/-- non-vacuity: a one-field unique index holding "a" for object 1 rejects a second object with
    "a" and accepts it with "b" -/
def demoIx : ObjIndex :=
  { next := 1, ids := [(0, 1)],
    fields := [{ name := "S", pos := 0, cast := .str, cons := { index := true, unique := true }, idx := [(.str [97], 0)] }] }
theorem demoIx_wf : demoIx.WF where
  oidNodup := by decide
  uuidNodup := by decide
  ltNext := by decide
  fields := by
    intro fi hfi
    simp only [demoIx, List.mem_singleton] at hfi
    subst hfi
    exact ⟨by unfold Desc; decide, by decide, by decide, by intro _; decide⟩

def twin : Obj := { uuid := 2, shape := "", vals := [.v (.str [97])] }
theorem twin_typed : twin.Typed demoIx := by
  intro fi hfi
  simp only [demoIx, List.mem_singleton] at hfi
  subst hfi
  exact ⟨.str [97], rfl, rfl⟩

/-- the hypotheses of `C03_reject_iff` are satisfiable and its right-hand side holds: rejected -/
example : demoIx.insertOrUpdate twin = .err .unique :=
  (C03_reject_iff demoIx_wf twin_typed).mpr
    ⟨_, List.mem_singleton.mpr rfl, rfl, (.str [97], 0), by decide, rfl, by decide⟩

end Sod.Props
