/-
  C19 — Malformed files and arguments produce errors, never panics or hangs.

  Proved on the model: the search-argument part (every triple field / operator / value gives an
  error of a closed list of classes or an evaluated result; a failed search denotes no object
  and every later call on it fails with its error, touching nothing).  For damaged files the
  decoders are exercised by the `hostile_dirs` runner (every node of schema.json nulled,
  retyped, dropped, duplicated …), not modelled: oracle = no panic, no hang.
-/
import Proofs.Layout
namespace Sod.Props
open Sod

/-- whatever the state and the arguments, a search that fails does so with one of eight classes -/
theorem C19_error_classes (E : Env) (c : Coll) (field : String) (op : Option Op) (probe : Leaf) (k : Option FIdx) (e : Err)
    (h : (Coll.search E c field op probe k).snd.err = some e) :
    e = Err.unknownField ∨ e = Err.keyType ∨ e = Err.cast ∨ e = Err.unknownOp ∨ e = Err.pattern ∨
    e = Err.corrupted ∨ e = Err.notFound ∨ e = Err.structChanged := search_err_closed E c field op probe k e h

/-- a query that could not be evaluated denotes no object … -/
theorem C19_failed_no_entries (E : Env) (c : Coll) (field : String) (op : Option Op) (probe : Leaf) (k : Option FIdx)
    (h : (Coll.search E c field op probe k).snd.err ≠ none) : (Coll.search E c field op probe k).snd.fields = [] :=
  search_failed_no_entries E c field op probe k h

/-- … and Collect, One, Delete on it return its error without touching the collection -/
theorem C19_failed_calls (c : Coll) (s : Search) (e : Err) (h : s.err = some e) :
    c.collect s = (c, s, [], some e) ∧ ((c.one s).snd.snd = Res.err e ∧ (c.one s).fst = c) ∧ c.searchDelete s = (c, Res.err e) :=
  ⟨failed_collect c s e h, failed_one c s e h, failed_searchDelete c s e h⟩

/-- an operator outside the seven known ones is refused in every state: field indexed or not,
    collection empty or not -/
theorem C19_unknown_operator (E : Env) (c : Coll) (field : String) (probe : Leaf) (k : Option FIdx) :
    ∃ e, (Coll.search E c field none probe k).snd = Search.failed e := unknown_operator_any E c field probe k

/-- a mistyped value is refused with the cast error on both paths, whatever the collection holds -/
theorem C19_mistyped_probe (E : Env) {c : Coll} {l : Loaded} (h : Inv' c l) {field : String}
    (hr : pathResolvable c.live field = true) {probe : Leaf} {pv : Val} (hp : E.prepare l.descs field probe = Leaf.v pv)
    (op : Option Op) (k : Option FIdx) :
    (∀ fi, l.index.field? field = some fi → pv.tag ≠ fi.cast → (Coll.search E c field op probe k).snd.err = some Err.cast) ∧
    (∀ pos d t, l.index.field? field = none → descPos? l.descs field = some (pos, d) → d.cast = some t → t ≠ pv.tag →
        (Coll.search E c field op probe k).snd.err = some Err.cast) :=
  ⟨fun _ hi ht => mistyped_probe_indexed E h hi hr hp ht op k,
   fun _ _ _ hi hd hc ht => mistyped_probe_unindexed E h hi hr hd hc hp ht op k⟩

/-- an invalid pattern is an error on both paths (never a silently empty result) -/
theorem C19_invalid_pattern (E : Env) {c : Coll} {l : Loaded} (h : Inv' c l) {field : String}
    (hr : pathResolvable c.live field = true) {probe : Leaf} {s : Bytes}
    (hp : E.prepare l.descs field probe = Leaf.v (Val.str s)) (hc : E.compile s = none)
    (hk : (∃ fi, l.index.field? field = some fi ∧ fi.cast = Tag.str) ∨
          (l.index.field? field = none ∧ ∃ pos d, descPos? l.descs field = some (pos, d) ∧ d.cast = some Tag.str))
    (k : Option FIdx) : (Coll.search E c field (some Op.re) probe k).snd.err = some Err.pattern :=
  invalid_pattern E h hr hp hc hk k

end Sod.Props
