/-
  C11 — Control detects every index/file divergence and Repair restores agreement.
-/
import Proofs.Reopen
namespace Sod.Props
open Sod

/-- Control (and the first load) answers ok if and only if the structure is unchanged, the
    index is internally consistent (ordered field indexes, one entry per object) and the set of
    indexed identifiers equals the set of object files — both inclusions -/
theorem C11_control_iff (live : List (String × String)) (d : Disk) (l : Loaded) :
    controlLoaded live d l = Res.ok () ↔
      descsCompatFields l.descs live = true ∧ l.index.control = true ∧
      (∀ u ∈ d.files.keys, u ∈ l.index.uuids) ∧ (∀ u ∈ l.index.uuids, d.files.has u = true) :=
  controlLoaded_iff live d l

/-- and otherwise, the structure being unchanged, it answers CORRUPTION (no other class) -/
theorem C11_corrupted_iff (live : List (String × String)) (d : Disk) (l : Loaded) :
    controlLoaded live d l = Res.err Err.corrupted ↔
      descsCompatFields l.descs live = true ∧
      ¬ (l.index.control = true ∧ (∀ u ∈ d.files.keys, u ∈ l.index.uuids) ∧ (∀ u ∈ l.index.uuids, d.files.has u = true)) :=
  controlLoaded_corrupted_iff live d l

/-- no false positive: a collection in a state reachable without tampering, nothing pending,
    passes Control in every configuration -/
theorem C11_no_false_positive {c : Coll} {l : Loaded} (h : Inv' c l) (hp : c.pending = []) (hk : ShapeOk c l) :
    controlLoaded c.live c.disk l = Res.ok () := control_ok_of_inv h hp hk

/-- Repair modifies and deletes no file -/
theorem C11_repair_no_fs (c : Coll) : c.repair.fst.disk = c.disk ∧ c.repair.fst.log = c.log := repair_no_fs c

/-- Repair converges: from a well-formed index that agrees with the files on the identifiers
    they share (files may have been removed, files may have been added), unless two unindexed
    files violate uniqueness between them, Repair answers ok and afterwards the indexed
    identifiers are exactly the files, the index reflects the actual file contents, and
    Control answers ok -/
theorem C11_repair_converges {c : Coll} {l : Loaded} (hm : c.schema.fst.mem = some l) (hw : l.index.WF)
    (hag : Agree l.index c.disk.files) (hty : ∀ u o, c.disk.files.get? u = some o → Obj.Typed l.index o)
    (hk : c.disk.files.Keyed) (hc : ∀ u o, c.cache.get? u = some o → c.disk.files.get? u = some o) :
    (c.repair.snd = Res.ok () ∧ ∃ l', c.repair.fst.mem = some l' ∧ l'.index.WF ∧
        (∀ u, u ∈ l'.index.uuids ↔ c.disk.files.has u = true) ∧ (Reflects l'.index fun u => c.disk.files.get? u) ∧
        (ShapeOk c l → c.repair.fst.control = Res.ok ())) ∨
    c.repair.snd = Res.err Err.unique := by
  rcases repair_converges hm hw hag hty hk hc with ⟨a, l', b, d, e, f, _, _, _, g⟩ | h
  · exact Or.inl ⟨a, l', b, d, e, f, g⟩
  · exact Or.inr h

end Sod.Props
