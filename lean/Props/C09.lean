/-
  C09 — No API call can block forever.

  Machine-level theorems (every schedule, any number of threads) over the lock programs of the
  package, plus the REGENERATED obligation that every lock path extracted from /repo's current
  source is disciplined (acquires in rank order DB.l < objectStore < objectMap < DB.sl, never a
  lock it already holds, releases what it holds, ends holding nothing).
-/
import Proofs.Lock
import Generated.Locks
namespace Sod.Props
open Sod.Lock

/-- disciplined threads never deadlock: whenever a thread is unfinished some step is guaranteed -/
theorem C09_no_deadlock {s0 s : State} (h0 : Initial s0) (r : Reach s0 s) (hun : ∃ t ∈ s, t.todo ≠ []) :
    ∃ s', GStep s s' := Sod.Lock.C09_no_deadlock h0 r hun

/-- and every execution of guaranteed steps can be continued to the point where every call
    has returned -/
theorem C09_all_return (s : State) (hok : ∀ t ∈ s, TOK t) :
    ∃ s', GStar s s' ∧ ∀ t ∈ s', t.todo = [] := Sod.Lock.C09_all_return s hok

/-- REGENERATED on every run: in every exported entry point and goroutine of the current
    source, every lock action respects the discipline in the state it is taken in, and every
    call ends holding nothing -/
theorem C09_entries_ok : Generated.Locks.entries.all EntryFacts.ok = true := by decide

/-- hence every path the extractor covers is disciplined … -/
theorem C09_paths_disciplined (e : EntryFacts) (he : e ∈ Generated.Locks.entries) (p : List Act)
    (hc : e.covers p) : Disc [] p := by
  have := C09_entries_ok
  rw [List.all_eq_true] at this
  exact disc_of_covered e (this e he) p hc

/-- … and any set of concurrently running calls is an `Initial` state of the machine, to which
    `C09_no_deadlock` and `C09_all_return` apply -/
theorem C09_entries_initial (s : State)
    (h : ∀ t ∈ s, t.held = [] ∧ t.pend = false ∧ ∃ e ∈ Generated.Locks.entries, e.covers t.todo) : Initial s := by
  intro t ht
  obtain ⟨h1, h2, e, he, hp⟩ := h t ht
  exact ⟨h1, h2, C09_paths_disciplined e he _ hp⟩

/-- the pinned release's `All → Iterator` (read lock taken twice with a writer queued) is a
    state of this machine with no guaranteed step: the theorem's hypothesis is what matters -/
theorem C09_pinned_release_deadlock : ¬ ∃ s', GStep stuck s' := stuck_is_deadlocked

end Sod.Props
