/-
  C01 — Reads reflect exactly the accepted writes (CRUD refinement of a map).

  The abstract specification is `Spec` of Proofs/Refine.lean: a finite map uuid ⇀ object with
  nine rules (`Spec.Step`): insert = invalid | unserialisable | unique conflict with ANOTHER
  stored object | store; delete; get = lookup or not-found; exist; count; all.  It has no
  configuration.  `Sim` ties a concrete collection (any cache / async setting) to a spec state.
-/
import Proofs.Refine
namespace Sod.Props
open Sod

/-- every finite sequence of calls on the model produces, call by call, the observations of
    the abstract map, and the simulation holds again at the end (so it can be continued) -/
theorem C01_refines {cfg : SpecCfg} {E : Env} {calls : List Call} {c : Coll} {l : Loaded} {s : Spec}
    (h : Sim cfg c l s) (ht : CallsTyped E l calls) :
    ∃ l' s' obsSpec, Spec.Run cfg E s calls s' obsSpec ∧
      ObsListEq (Coll.run E c calls).snd obsSpec ∧ Sim cfg (Coll.run E c calls).fst l' s' ∧ Stable l l' :=
  Sod.C01_refines h ht

/-- the hypotheses are satisfiable: the empty collection, under EVERY settings value, simulates
    the empty map -/
theorem C01_initial (descs : List FieldDesc) (st : Settings) :
    Sim { descs := descs, uniquePos := (ObjIndex.new descs).uniquePos } (emptyColl descs st) (emptyLoaded descs st)
      { map := fun _ => none, dom := [] } := sim_init descs st

/-- an identifier that is not stored is answered not-found EVERY time it is tried … -/
theorem C01_absent_always {cfg : SpecCfg} {c : Coll} {l : Loaded} {s : Spec} (h : Sim cfg c l s)
    (u : Nat) (hu : s.map u = none) (n : Nat) :
    ((iter n (fun c => (c.get u).fst) c).get u).snd = Res.err Err.notFound :=
  Sod.C01_absent_always h u hu n

/-- … also after any number of other reads in between -/
theorem C01_absent_after_reads {cfg : SpecCfg} {E : Env} {c : Coll} {l : Loaded} {s : Spec} (h : Sim cfg c l s)
    (u : Nat) (hu : s.map u = none) (reads : List Call) (hr : ∀ k ∈ reads, k.isRead = true) :
    (Coll.step E (Coll.run E c reads).fst (Call.get u)).snd = Obs.obj (Res.err Err.notFound) :=
  Sod.C01_absent_after_reads h u hu reads hr

/-- two collections with different settings but the same abstract content answer every call
    list alike (the cache and asynchronous writes are unobservable) -/
theorem C01_config_independent {cfg : SpecCfg} {E : Env} {calls : List Call} {c₁ c₂ : Coll} {l₁ l₂ : Loaded} {s : Spec}
    (h₁ : Sim cfg c₁ l₁ s) (h₂ : Sim cfg c₂ l₂ s) (t₁ : CallsTyped E l₁ calls) (t₂ : CallsTyped E l₂ calls) :
    ObsListEq (Coll.run E c₁ calls).snd (Coll.run E c₂ calls).snd :=
  (Sod.C01_config_independent h₁ h₂ t₁ t₂).1

end Sod.Props
