/-
  C06 — A rejected or failed write leaves no trace.
  The frame theorems give equality of the WHOLE concrete state (index, cache, pending store,
  directory, file-operation log), which is stronger than equal observations and is what makes
  "including cached reads" immediate.
-/
import Proofs.Batch
namespace Sod.Props
open Sod

/-- a single InsertOrUpdate that returns ANY error returns the state it was given -/
theorem C06_insert_rejected_frame {E : Env} {c : Coll} {l : Loaded} (h : Sod.Inv c l) (o : Obj) (fresh : Nat)
    (ht : Obj.Typed l.index (assignNew (E.canon l.descs (E.transform o)) fresh)) (e : Err)
    (hr : (Coll.insert E c o fresh).snd = Res.err e) : (Coll.insert E c o fresh).fst = c :=
  insert_rejected_frame h o fresh ht e hr

/-- the same for a batch: an error answer means state unchanged and count 0 -/
theorem C06_many_rejected_frame {E : Env} {c : Coll} {l : Loaded} (h : Inv' c l) (os : List Obj) (w : Option (Nat × Bool))
    (ht : ∀ o ∈ os, Obj.Typed l.index (vald E l.descs o)) (hs : SameShape (ObjIndex.new l.descs) l.index)
    (e : Err) (hr : (Coll.many E c os w).snd.snd = Res.err e) : Coll.many E c os w = (c, 0, Res.err e) :=
  C07_many_err_frame h os w ht hs e hr

/-- the rejection classes are exactly: invalid (Validate), unserialisable value, uniqueness -/
theorem C06_reject_classes {E : Env} {c : Coll} {l : Loaded} {o : Obj} (commit : Bool) :
    (E.serialisable o = false → Coll.insertCore E c l o commit = (c, Res.err Err.other)) ∧
    (E.serialisable o = true → l.index.satisfyAll o = Res.err Err.unique →
       Coll.insertCore E c l o commit = (c, Res.err Err.unique)) :=
  ⟨insertCore_reject_serial commit, insertCore_reject_unique commit⟩

end Sod.Props
