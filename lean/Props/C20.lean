/-
  C20 — A search result is a snapshot of the matches at evaluation time.

  In the model a `Search` owns its list of (value, object id) entries (the Go code copies the
  window of the index it found: `fix: search results no longer alias the live index`, and the
  correspondence profile `snapshot` checks that the implementation behaves like this model).
  What remains to be proved is that object ids keep designating the same object through every
  later write of the handle.
-/
import Proofs.SearchColl
namespace Sod.Props
open Sod

/-- an accepted insert or update never changes the id of an already stored object -/
theorem C20_oid_stable_insert {ix ix' : ObjIndex} {o : Obj} (h : ix.WF) (hr : ix.insertOrUpdate o = .ok ix')
    {u oid : Nat} (hu : ix.oidOf u = some oid) : ix'.oidOf u = some oid :=
  insertOrUpdate_oidOf_stable h hr hu

/-- an id that existed before a write still designates the same object after it, or nothing:
    never another object (ids are never reused within a handle) -/
theorem C20_oid_never_reassigned {ix ix' : ObjIndex} {o : Obj} (h : ix.WF) (hr : ix.insertOrUpdate o = .ok ix')
    {u oid : Nat} (hu : ix'.uuidOf oid = some u) (hlt : oid < ix.next) : ix.uuidOf oid = some u :=
  insertOrUpdate_uuidOf_stable h hr hu hlt

/-- the counter only grows, and a delete leaves it alone: a deleted object's id is never
    given to a later object -/
theorem C20_next_monotone {ix ix' : ObjIndex} {o : Obj} (hr : ix.insertOrUpdate o = .ok ix') : ix.next ≤ ix'.next :=
  insertOrUpdate_next_mono hr

theorem C20_delete_keeps_counter (ix : ObjIndex) (u : Nat) : (ix.deleteByUUID u).next = ix.next :=
  deleteByUUID_next ix u

/-- collecting does not change the entries a search owns (only its remaining limit) -/
theorem C20_collect_keeps_entries (c : Coll) (s : Search) : (Coll.collect c s).2.1.fields = s.fields := by
  unfold Coll.collect
  split
  · rfl
  · split <;> simp

/-- the identifiers a collection resolves are exactly those of the owned entries, in order -/
theorem C20_uuids_of_entries (s : Search) (l : Loaded) :
    s.uuids l = s.fields.map (fun e => (l.index.uuidOf e.2).getD 0) := rfl

/-- THE SNAPSHOT THEOREM.  For ANY search value (evaluated at any earlier time, with any
    writes since): every object Collect returns is the current content of the object designated
    by one of the entries the search owns — never another object — and, the owned entries
    having distinct ids, no object is returned twice.  An entry whose object was deleted
    resolves to the empty identifier, which is never stored (`c.view 0 = none`): collection
    stops there with an error. -/
theorem C20_snapshot {c : Coll} {l : Loaded} (h : Inv' c l) (h0 : c.view 0 = none) (s : Search) :
    (∀ o ∈ (c.collect s).snd.snd.fst, ∃ e ∈ s.fields, ∃ u, l.index.uuidOf e.snd = some u ∧ c.view u = some o ∧ o.uuid = u) ∧
    ((s.fields.map (·.snd)).Nodup → ((c.collect s).snd.snd.fst.map (·.uuid)).Nodup) :=
  collect_only_members h h0 s

end Sod.Props
