import SodModel.Driver
open Sod

partial def loop (h : IO.FS.Stream) (out : IO.FS.Stream) (d : DState) (n bad : Nat) : IO (Nat × Nat) := do
  let line ← h.getLine
  if line.isEmpty then return (n, bad)
  let (d', v) := d.line line
  out.putStrLn v
  loop h out d' (n+1) (if v == "=" then bad else bad+1)

def main : IO UInt32 := do
  let stdin ← IO.getStdin
  let stdout ← IO.getStdout
  let (n, bad) ← loop stdin stdout {} 0 0
  (← IO.getStderr).putStrLn s!"lines={n} disagreements={bad}"
  return (if bad == 0 then 0 else 3)
