import Proofs.ValOrder
import Proofs.FieldIndex
import Proofs.Lock
import Proofs.ObjIndex
import Proofs.Inv
import Proofs.Crud
