/-
  Linearize.lean — calls that run as ONE critical section of a readers/writer lock are
  linearizable: every interleaving of their micro-steps gives each call the result, and the
  shared state the final value, of running the calls one at a time in the order in which they
  acquired the lock — an order that respects program order and real-time precedence.

  Self-contained (core Lean only).  The shared state `S`, the thread-local state `L` and the
  result type `R` are arbitrary.
-/
namespace Sod.Lin

inductive Mode | r | w
  deriving DecidableEq, Repr

/-- a micro-step of a call: it reads the shared state into the local state, or (writers only)
    updates the shared state from the local state -/
inductive Micro (S L : Type) where
  | read (f : S → L → L)
  | write (g : S → L → S)

structure Call (S L R : Type) where
  mode : Mode
  init : L
  steps : List (Micro S L)
  result : L → R

/-- a reader never writes -/
def Call.WF {S L R : Type} (c : Call S L R) : Prop :=
  c.mode = Mode.r → ∀ m ∈ c.steps, ∃ f, m = Micro.read f

def Micro.run {S L : Type} : Micro S L → S × L → S × L
  | .read f, (σ, l) => (σ, f σ l)
  | .write g, (σ, l) => (g σ l, l)

def runSteps {S L : Type} (ms : List (Micro S L)) (p : S × L) : S × L := ms.foldl (fun p m => m.run p) p

/-- the call executed atomically -/
def Call.atomic {S L R : Type} (c : Call S L R) (σ : S) : S × R :=
  let p := runSteps c.steps (σ, c.init)
  (p.1, c.result p.2)

/-- a thread: the calls it still has to make, and, when it is inside one, what remains of it -/
structure Thread (S L R : Type) where
  todo : List (Call S L R)
  /-- inside a call: the call, its local state, its remaining micro-steps -/
  cur : Option (Call S L R × L × List (Micro S L))
  /-- number of calls completed (index of the current / next call in the thread's program) -/
  pc : Nat

/-- identity of a call: (thread index, index in that thread's program) -/
abbrev CallId := Nat × Nat

inductive Event (R : Type) where
  | acq (c : CallId)
  | rel (c : CallId) (res : R)

structure State (S L R : Type) where
  σ : S
  threads : List (Thread S L R)
  /-- history, oldest first -/
  hist : List (Event R)

def inside {S L R : Type} (t : Thread S L R) : Bool := t.cur.isSome
def insideW {S L R : Type} (t : Thread S L R) : Bool :=
  match t.cur with
  | some (c, _, _) => c.mode == Mode.w
  | none => false

/-- the lock can be granted in mode `m` to thread `i` -/
def grantable {S L R : Type} (ts : List (Thread S L R)) (i : Nat) (m : Mode) : Prop :=
  ∀ j t, j ≠ i → ts[j]? = some t → (match m with
                                     | Mode.w => inside t = false
                                     | Mode.r => insideW t = false)

inductive Step {S L R : Type} : State S L R → State S L R → Prop where
  /-- thread `i` acquires the lock for its next call -/
  | acquire (s : State S L R) (i : Nat) (t : Thread S L R) (c : Call S L R) (rest : List (Call S L R)) :
      s.threads[i]? = some t → t.cur = none → t.todo = c :: rest → grantable s.threads i c.mode →
      Step s { s with threads := s.threads.set i { t with todo := rest, cur := some (c, c.init, c.steps) },
                      hist := s.hist ++ [Event.acq (i, t.pc)] }
  /-- thread `i` performs the next micro-step of its call -/
  | micro (s : State S L R) (i : Nat) (t : Thread S L R) (c : Call S L R) (l : L) (m : Micro S L) (ms : List (Micro S L)) :
      s.threads[i]? = some t → t.cur = some (c, l, m :: ms) →
      Step s { s with σ := (m.run (s.σ, l)).1,
                      threads := s.threads.set i { t with cur := some (c, (m.run (s.σ, l)).2, ms) } }
  /-- thread `i` finishes its call and releases the lock -/
  | release (s : State S L R) (i : Nat) (t : Thread S L R) (c : Call S L R) (l : L) :
      s.threads[i]? = some t → t.cur = some (c, l, []) →
      Step s { s with threads := s.threads.set i { t with cur := none, pc := t.pc + 1 },
                      hist := s.hist ++ [Event.rel (i, t.pc) (c.result l)] }

inductive Steps {S L R : Type} : State S L R → State S L R → Prop where
  | refl (s : State S L R) : Steps s s
  | tail {s s' s'' : State S L R} : Steps s s' → Step s' s'' → Steps s s''

/-- initial state: programs `ps`, nobody inside, empty history -/
def initial {S L R : Type} (σ0 : S) (ps : List (List (Call S L R))) : State S L R :=
  { σ := σ0, threads := ps.map (fun p => { todo := p, cur := none, pc := 0 }), hist := [] }

def finished {S L R : Type} (s : State S L R) : Prop := ∀ t ∈ s.threads, t.todo = [] ∧ t.cur = none

/-- the call with identity `(i, k)` in the programs -/
def callOf {S L R : Type} (ps : List (List (Call S L R))) (id : CallId) : Option (Call S L R) :=
  (ps[id.1]?).bind (fun p => p[id.2]?)

/-- the calls in acquisition order -/
def acqOrder {R : Type} (h : List (Event R)) : List CallId :=
  h.filterMap (fun e => match e with
                        | Event.acq c => some c
                        | Event.rel _ _ => none)

/-- sequential execution of the calls `ids`, one at a time: final shared state and the results -/
def runSeq {S L R : Type} (ps : List (List (Call S L R))) : List CallId → S → S × List (CallId × R)
  | [], σ => (σ, [])
  | id :: ids, σ =>
    match callOf ps id with
    | none => runSeq ps ids σ
    | some c =>
      let (σ', r) := c.atomic σ
      let (σ'', rs) := runSeq ps ids σ'
      (σ'', (id, r) :: rs)

/-- position of an event in the history -/
def posOf {R : Type} (h : List (Event R)) (p : Event R → Bool) : Option Nat := h.findIdx? p

def isAcq {R : Type} (c : CallId) : Event R → Bool
  | Event.acq c' => c' == c
  | _ => false
def isRel {R : Type} (c : CallId) : Event R → Bool
  | Event.rel c' _ => c' == c
  | _ => false

/-! ## Helper lemmas -/

section Helpers
variable {S L R : Type}

/-! ### lists -/

theorem get_set_self {α : Type} {ts : List α} {i : Nat} {t t' : α} (hi : ts[i]? = some t) :
    (ts.set i t')[i]? = some t' := by
  have : i < ts.length := by
    rcases List.getElem?_eq_some_iff.1 hi with ⟨h, _⟩; exact h
  simp [this]

theorem get_set_ne {α : Type} {ts : List α} {i j : Nat} {t' : α} (h : j ≠ i) :
    (ts.set i t')[j]? = ts[j]? := by
  have : i ≠ j := fun e => h e.symm
  simp [this]

theorem get_set_cases {α : Type} {ts : List α} {i j : Nat} {t t' x : α} (hi : ts[i]? = some t)
    (h : (ts.set i t')[j]? = some x) : (i = j ∧ x = t') ∨ (j ≠ i ∧ ts[j]? = some x) := by
  by_cases hji : j = i
  · subst hji
    rw [get_set_self hi] at h
    left; exact ⟨rfl, (Option.some.inj h).symm⟩
  · right; rw [get_set_ne hji] at h; exact ⟨hji, h⟩

theorem drop_eq_cons {α : Type} {p : List α} {n : Nat} {c : α} {rest : List α}
    (h : p.drop n = c :: rest) : p[n]? = some c ∧ p.drop (n + 1) = rest := by
  constructor
  · have := List.getElem?_drop (xs := p) (i := n) (j := 0)
    rw [h] at this; simpa using this.symm
  · have := List.drop_drop (i := 1) (j := n) (l := p)
    rw [h] at this; simpa using this.symm

theorem getElem?_snoc_of_some {α : Type} {l : List α} {a : Nat} {x y : α} (h : l[a]? = some x) :
    (l ++ [y])[a]? = some x ∧ a < l.length := by
  have hlt : a < l.length := by
    rcases List.getElem?_eq_some_iff.1 h with ⟨h, _⟩; exact h
  exact ⟨by rw [List.getElem?_append_left hlt]; exact h, hlt⟩

theorem getElem?_some_lt {α : Type} {l : List α} {a : Nat} {x : α} (h : l[a]? = some x) :
    a < l.length := by
  rcases List.getElem?_eq_some_iff.1 h with ⟨h, _⟩; exact h

theorem getElem?_snoc_last {α : Type} (l : List α) (y : α) : (l ++ [y])[l.length]? = some y := by
  simp

/-! ### acquisition order -/

theorem mem_acqOrder {h : List (Event R)} {id : CallId} : id ∈ acqOrder h ↔ Event.acq id ∈ h := by
  unfold acqOrder
  rw [List.mem_filterMap]
  constructor
  · rintro ⟨e, he, h⟩
    cases e with
    | acq c => simp at h; subst h; exact he
    | rel c r => simp at h
  · intro h
    exact ⟨_, h, rfl⟩

theorem acqOrder_snoc_acq (h : List (Event R)) (id : CallId) :
    acqOrder (h ++ [Event.acq id]) = acqOrder h ++ [id] := by
  simp [acqOrder, List.filterMap_append]

theorem acqOrder_snoc_rel (h : List (Event R)) (id : CallId) (r : R) :
    acqOrder (h ++ [Event.rel id r]) = acqOrder h := by
  simp [acqOrder, List.filterMap_append]

/-! ### positions -/

theorem posOf_lt {h : List (Event R)} {p : Event R → Bool} {n : Nat} (hp : posOf h p = some n) :
    n < h.length := by
  unfold posOf at hp
  rcases List.findIdx?_eq_some_iff_getElem.1 hp with ⟨h, _⟩; exact h

theorem posOf_mem {h : List (Event R)} {p : Event R → Bool} {n : Nat} (hp : posOf h p = some n) :
    ∃ e ∈ h, p e = true := by
  unfold posOf at hp
  rcases List.findIdx?_eq_some_iff_getElem.1 hp with ⟨h', hpe, _⟩
  exact ⟨_, List.getElem_mem h', hpe⟩

theorem posOf_snoc {h : List (Event R)} {e : Event R} {p : Event R → Bool} {n : Nat}
    (hp : posOf (h ++ [e]) p = some n) :
    posOf h p = some n ∨ (posOf h p = none ∧ p e = true ∧ n = h.length) := by
  unfold posOf at hp ⊢
  rw [List.findIdx?_append] at hp
  cases hh : List.findIdx? p h with
  | some m => rw [hh] at hp; left; simpa using hp
  | none =>
    rw [hh] at hp
    right
    by_cases hpe : p e = true
    · simp [List.findIdx?_cons, hpe] at hp
      exact ⟨rfl, hpe, hp.symm⟩
    · simp [List.findIdx?_cons, hpe] at hp

theorem isRel_true {c : CallId} {e : Event R} (h : isRel c e = true) : ∃ res, e = Event.rel c res := by
  cases e with
  | acq c' => simp [isRel] at h
  | rel c' r => simp [isRel] at h; subst h; exact ⟨r, rfl⟩

theorem isAcq_true {c : CallId} {e : Event R} (h : isAcq c e = true) : e = Event.acq c := by
  cases e with
  | acq c' => simp [isAcq] at h; subst h; rfl
  | rel c' r => simp [isAcq] at h

/-! ### sequential runs -/

theorem runSeq_snoc (ps : List (List (Call S L R))) (o : List CallId) (id : CallId) (σ : S) :
    runSeq ps (o ++ [id]) σ =
      match callOf ps id with
      | none => runSeq ps o σ
      | some c => ((c.atomic (runSeq ps o σ).1).1,
                   (runSeq ps o σ).2 ++ [(id, (c.atomic (runSeq ps o σ).1).2)]) := by
  induction o generalizing σ with
  | nil =>
    cases hc : callOf ps id with
    | none => simp [runSeq, hc]
    | some c => simp [runSeq, hc]
  | cons x o ih =>
    cases hx : callOf ps x with
    | none =>
      simp only [List.cons_append, runSeq, hx]
      exact ih σ
    | some cx =>
      simp only [List.cons_append, runSeq, hx]
      rw [ih]
      cases hc : callOf ps id with
      | none => rfl
      | some c => simp

theorem runSeq_snoc_some {ps : List (List (Call S L R))} {o : List CallId} {id : CallId} {σ : S}
    {c : Call S L R} (hc : callOf ps id = some c) :
    (runSeq ps (o ++ [id]) σ).1 = (c.atomic (runSeq ps o σ).1).1 ∧
    (runSeq ps (o ++ [id]) σ).2 = (runSeq ps o σ).2 ++ [(id, (c.atomic (runSeq ps o σ).1).2)] := by
  rw [runSeq_snoc, hc]; exact ⟨rfl, rfl⟩

theorem runSteps_cons (m : Micro S L) (ms : List (Micro S L)) (p : S × L) :
    runSteps (m :: ms) p = runSteps ms (m.run p) := rfl

theorem runSteps_nil (p : S × L) : runSteps ([] : List (Micro S L)) p = p := rfl

/-- read-only micro-steps leave the shared state unchanged -/
theorem runSteps_reads (ms : List (Micro S L)) (h : ∀ m ∈ ms, ∃ f, m = Micro.read f) (p : S × L) :
    (runSteps ms p).1 = p.1 := by
  induction ms generalizing p with
  | nil => rfl
  | cons m ms ih =>
    rw [runSteps_cons, ih (fun m' hm' => h m' (List.mem_cons_of_mem _ hm'))]
    rcases h m (List.mem_cons_self) with ⟨f, rfl⟩
    rfl

/-- a well-formed reader, run atomically, leaves the shared state unchanged -/
theorem atomic_reader {c : Call S L R} (hwf : c.WF) (hr : c.mode = Mode.r) (σ : S) :
    (c.atomic σ).1 = σ := by
  unfold Call.atomic
  exact runSteps_reads c.steps (hwf hr) (σ, c.init)

theorem mode_cases (m : Mode) : m = Mode.r ∨ m = Mode.w := by cases m <;> simp

/-! ### inside / insideW -/

theorem inside_cur {t : Thread S L R} {x} (h : t.cur = some x) : inside t = true := by
  simp [inside, h]

theorem inside_none {t : Thread S L R} (h : t.cur = none) : inside t = false := by
  simp [inside, h]

theorem insideW_none {t : Thread S L R} (h : t.cur = none) : insideW t = false := by
  simp [insideW, h]

theorem insideW_cur {t : Thread S L R} {c l ms} (h : t.cur = some (c, l, ms)) :
    insideW t = (c.mode == Mode.w) := by
  simp [insideW, h]

theorem insideW_cur_w {t : Thread S L R} {c l ms} (h : t.cur = some (c, l, ms)) (hw : c.mode = Mode.w) :
    insideW t = true := by
  simp [insideW, h, hw]

theorem insideW_cur_r {t : Thread S L R} {c l ms} (h : t.cur = some (c, l, ms)) (hr : c.mode = Mode.r) :
    insideW t = false := by
  simp [insideW, h, hr]

theorem insideW_inside {t : Thread S L R} (h : insideW t = true) : inside t = true := by
  cases hc : t.cur with
  | none => simp [insideW, hc] at h
  | some x => exact inside_cur hc

theorem insideW_elim {t : Thread S L R} (h : insideW t = true) :
    ∃ c l ms, t.cur = some (c, l, ms) ∧ c.mode = Mode.w := by
  cases hc : t.cur with
  | none => simp [insideW, hc] at h
  | some x =>
    obtain ⟨c, l, ms⟩ := x
    refine ⟨c, l, ms, rfl, ?_⟩
    rcases mode_cases c.mode with hm | hm
    · simp [insideW, hc, hm] at h
    · exact hm

end Helpers
/-! ## The invariant -/

section Invariant
variable {S L R : Type}

/-- Invariant of every reachable state (`σseq` below is the shared state after the sequential
    execution of all calls acquired so far, in acquisition order). -/
structure Inv (σ0 : S) (ps : List (List (Call S L R))) (s : State S L R) : Prop where
  len : s.threads.length = ps.length
  /-- thread bookkeeping -/
  book : ∀ (i : Nat) (t : Thread S L R), s.threads[i]? = some t → ∃ p : List (Call S L R), ps[i]? = some p ∧
    (t.cur = none → t.todo = p.drop t.pc ∧ t.pc ≤ p.length) ∧
    (∀ (c : Call S L R) (l : L) (ms : List (Micro S L)), t.cur = some (c, l, ms) → p[t.pc]? = some c ∧ t.todo = p.drop (t.pc + 1) ∧
        (c.mode = Mode.r → ∀ m ∈ ms, ∃ f, m = Micro.read f))
  /-- the acquired calls of thread `i` are `0 .. pc-1`, plus `pc` when it is inside -/
  memO : ∀ i k, (i, k) ∈ acqOrder s.hist ↔
    ∃ t : Thread S L R, s.threads[i]? = some t ∧ (k < t.pc ∨ (k = t.pc ∧ t.cur.isSome = true))
  /-- the released calls of thread `i` are `0 .. pc-1` -/
  relLt : ∀ i k res, Event.rel (i, k) res ∈ s.hist → ∃ t : Thread S L R, s.threads[i]? = some t ∧ k < t.pc
  ltRel : ∀ (i : Nat) (t : Thread S L R) (k : Nat), s.threads[i]? = some t → k < t.pc → ∃ res, Event.rel (i, k) res ∈ s.hist
  /-- lock exclusion: a writer inside excludes everybody else -/
  excl : ∀ (i j : Nat) (ti tj : Thread S L R), i ≠ j → s.threads[i]? = some ti → s.threads[j]? = some tj →
    insideW ti = true → inside tj = false
  /-- no writer inside: the shared state is the sequential one -/
  sigR : (∀ (j : Nat) (t : Thread S L R), s.threads[j]? = some t → insideW t = false) →
    s.σ = (runSeq ps (acqOrder s.hist) σ0).1
  /-- a writer inside: finishing it yields the sequential shared state -/
  sigW : ∀ (i : Nat) (t : Thread S L R) (c : Call S L R) (l : L) (ms : List (Micro S L)), s.threads[i]? = some t → t.cur = some (c, l, ms) → c.mode = Mode.w →
    (runSteps ms (s.σ, l)).1 = (runSeq ps (acqOrder s.hist) σ0).1
  /-- the result a call inside is going to return is the sequential one -/
  pred : ∀ (i : Nat) (t : Thread S L R) (c : Call S L R) (l : L) (ms : List (Micro S L)), s.threads[i]? = some t → t.cur = some (c, l, ms) →
    ((i, t.pc), c.result (runSteps ms (s.σ, l)).2) ∈ (runSeq ps (acqOrder s.hist) σ0).2
  resOk : ∀ id res, Event.rel id res ∈ s.hist → (id, res) ∈ (runSeq ps (acqOrder s.hist) σ0).2
  nodup : (acqOrder s.hist).Nodup
  po : ∀ i k k', k < k' → (i, k') ∈ acqOrder s.hist →
    ∃ a b : Nat, (acqOrder s.hist)[a]? = some (i, k) ∧ (acqOrder s.hist)[b]? = some (i, k') ∧ a < b
  rt : ∀ (c d : CallId) (pr pa : Nat), posOf s.hist (isRel c) = some pr →
    posOf s.hist (isAcq d) = some pa → pr < pa →
    ∃ a b : Nat, (acqOrder s.hist)[a]? = some c ∧ (acqOrder s.hist)[b]? = some d ∧ a < b

theorem initial_thread {σ0 : S} {ps : List (List (Call S L R))} {i : Nat} {t : Thread S L R}
    (h : (initial σ0 ps).threads[i]? = some t) :
    ∃ p, ps[i]? = some p ∧ t = { todo := p, cur := none, pc := 0 } := by
  simp only [initial, List.getElem?_map] at h
  cases hp : ps[i]? with
  | none => rw [hp] at h; cases h
  | some p => rw [hp] at h; exact ⟨p, rfl, (Option.some.inj h).symm⟩

theorem inv_initial (σ0 : S) (ps : List (List (Call S L R))) : Inv σ0 ps (initial σ0 ps) where
  len := by simp [initial]
  book := by
    intro i t h
    obtain ⟨p, hp, rfl⟩ := initial_thread h
    exact ⟨p, hp, fun _ => ⟨rfl, Nat.zero_le _⟩, fun c l ms h => by cases h⟩
  memO := by
    intro i k
    constructor
    · intro h; simp [initial, acqOrder] at h
    · rintro ⟨t, ht, h⟩
      obtain ⟨p, hp, rfl⟩ := initial_thread ht
      simp at h
  relLt := by intro i k res h; simp [initial] at h
  ltRel := by
    intro i t k ht h
    obtain ⟨p, hp, rfl⟩ := initial_thread ht
    simp at h
  excl := by
    intro i j ti tj _ hi _ hW
    obtain ⟨p, hp, rfl⟩ := initial_thread hi
    simp [insideW] at hW
  sigR := by intro _; rfl
  sigW := by
    intro i t c l ms ht hc
    obtain ⟨p, hp, rfl⟩ := initial_thread ht
    cases hc
  pred := by
    intro i t c l ms ht hc
    obtain ⟨p, hp, rfl⟩ := initial_thread ht
    cases hc
  resOk := by intro id res h; simp [initial] at h
  nodup := by simp [initial, acqOrder]
  po := by intro i k k' _ h; simp [initial, acqOrder] at h
  rt := by intro c d pr pa h; simp [initial, posOf] at h

theorem inv_acquire {σ0 : S} {ps : List (List (Call S L R))} (hwf : ∀ p ∈ ps, ∀ c ∈ p, c.WF)
    {s : State S L R} (I : Inv σ0 ps s) {i : Nat} {t : Thread S L R} {c : Call S L R}
    {rest : List (Call S L R)}
    (hi : s.threads[i]? = some t) (hcur : t.cur = none) (htodo : t.todo = c :: rest)
    (hg : grantable s.threads i c.mode) :
    Inv σ0 ps { s with threads := s.threads.set i { t with todo := rest, cur := some (c, c.init, c.steps) },
                       hist := s.hist ++ [Event.acq (i, t.pc)] } := by
  obtain ⟨p, hp, hnone, _⟩ := I.book i t hi
  obtain ⟨htd, hle⟩ := hnone hcur
  rw [htodo] at htd
  obtain ⟨hpc, hrest⟩ := drop_eq_cons htd.symm
  have hcall : callOf ps (i, t.pc) = some c := by simp [callOf, hp, hpc]
  have hcwf : c.WF := hwf p (List.mem_of_getElem? hp) c (List.mem_of_getElem? hpc)
  have hnoW : ∀ (j : Nat) (tj : Thread S L R), s.threads[j]? = some tj → insideW tj = false := by
    intro j tj hj
    by_cases hji : j = i
    · subst hji; rw [hi] at hj; cases hj; exact insideW_none hcur
    · have := hg j tj hji hj
      rcases mode_cases c.mode with hm | hm
      · rw [hm] at this; exact this
      · rw [hm] at this
        cases hw : insideW tj with
        | false => rfl
        | true => rw [insideW_inside hw] at this; cases this
  have hσ : s.σ = (runSeq ps (acqOrder s.hist) σ0).1 := I.sigR hnoW
  have hnotin : (i, t.pc) ∉ acqOrder s.hist := by
    intro hmem
    obtain ⟨t2, ht2, h⟩ := (I.memO i t.pc).1 hmem
    rw [hi] at ht2; cases ht2
    rcases h with h | ⟨_, h⟩
    · omega
    · simp [hcur] at h
  obtain ⟨hseq1, hseq2⟩ := runSeq_snoc_some (ps := ps) (o := acqOrder s.hist) (σ := σ0) hcall
  exact {
    len := by simp [I.len]
    book := by
      intro j tj hj
      dsimp only at hj
      rcases get_set_cases hi hj with ⟨rfl, rfl⟩ | ⟨hne, hj'⟩
      · refine ⟨p, hp, ?_, ?_⟩
        · intro h; simp at h
        · intro c' l' ms' h
          simp only [Option.some.injEq, Prod.mk.injEq] at h
          obtain ⟨rfl, rfl, rfl⟩ := h
          exact ⟨hpc, hrest.symm, fun hr => hcwf hr⟩
      · exact I.book j tj hj'
    memO := by
      intro j k
      dsimp only
      rw [acqOrder_snoc_acq, List.mem_append, List.mem_singleton]
      by_cases hji : j = i
      · subst hji
        rw [get_set_self hi]
        constructor
        · rintro (h | h)
          · obtain ⟨t2, ht2, h⟩ := (I.memO j k).1 h
            rw [hi] at ht2; cases ht2
            refine ⟨_, rfl, ?_⟩
            rcases h with h | ⟨_, h⟩
            · left; exact h
            · simp [hcur] at h
          · simp only [Prod.mk.injEq] at h
            exact ⟨_, rfl, Or.inr ⟨h.2, rfl⟩⟩
        · rintro ⟨t2, ht2, h⟩
          cases ht2
          rcases h with h | ⟨h, _⟩
          · left; exact (I.memO j k).2 ⟨t, hi, Or.inl h⟩
          · right; rw [h]
      · rw [get_set_ne hji, ← I.memO j k]
        constructor
        · rintro (h | h)
          · exact h
          · simp only [Prod.mk.injEq] at h; exact absurd h.1 hji
        · exact Or.inl
    relLt := by
      intro j k res hmem
      dsimp only at hmem ⊢
      rw [List.mem_append, List.mem_singleton] at hmem
      rcases hmem with hmem | hmem
      · obtain ⟨t2, ht2, hlt⟩ := I.relLt j k res hmem
        by_cases hji : j = i
        · subst hji; rw [hi] at ht2; cases ht2
          exact ⟨_, get_set_self hi, hlt⟩
        · exact ⟨t2, by rw [get_set_ne hji]; exact ht2, hlt⟩
      · cases hmem
    ltRel := by
      intro j tj k hj hlt
      dsimp only at hj ⊢
      have : ∃ res, Event.rel (j, k) res ∈ s.hist := by
        rcases get_set_cases hi hj with ⟨rfl, rfl⟩ | ⟨hne, hj'⟩
        · exact I.ltRel i t k hi hlt
        · exact I.ltRel j tj k hj' hlt
      obtain ⟨res, h⟩ := this
      exact ⟨res, List.mem_append_left _ h⟩
    excl := by
      intro a b ta tb hab ha hb hW
      dsimp only at ha hb
      rcases get_set_cases hi ha with ⟨rfl, rfl⟩ | ⟨hna, ha'⟩
      · rcases get_set_cases hi hb with ⟨rfl, rfl⟩ | ⟨hnb, hb'⟩
        · exact absurd rfl hab
        · have hm : c.mode = Mode.w := by
            rcases mode_cases c.mode with hm | hm
            · simp [insideW, hm] at hW
            · exact hm
          have := hg b tb hnb hb'
          rw [hm] at this; exact this
      · rcases get_set_cases hi hb with ⟨rfl, rfl⟩ | ⟨hnb, hb'⟩
        · rw [hnoW a ta ha'] at hW; cases hW
        · exact I.excl a b ta tb hab ha' hb' hW
    sigR := by
      intro hall
      dsimp only at hall ⊢
      rw [acqOrder_snoc_acq, hseq1]
      have hm : c.mode = Mode.r := by
        have := hall i _ (get_set_self hi)
        rcases mode_cases c.mode with hm | hm
        · exact hm
        · simp [insideW, hm] at this
      rw [atomic_reader hcwf hm]; exact hσ
    sigW := by
      intro j tj cj l ms hj hc hw
      dsimp only at hj ⊢
      rw [acqOrder_snoc_acq, hseq1]
      rcases get_set_cases hi hj with ⟨rfl, rfl⟩ | ⟨hne, hj'⟩
      · simp only [Option.some.injEq, Prod.mk.injEq] at hc
        obtain ⟨rfl, rfl, rfl⟩ := hc
        rw [← hσ]; rfl
      · have := hnoW j tj hj'
        rw [insideW_cur_w hc hw] at this; cases this
    pred := by
      intro j tj cj l ms hj hc
      dsimp only at hj ⊢
      rw [acqOrder_snoc_acq, hseq2]
      rcases get_set_cases hi hj with ⟨rfl, rfl⟩ | ⟨hne, hj'⟩
      · simp only [Option.some.injEq, Prod.mk.injEq] at hc
        obtain ⟨rfl, rfl, rfl⟩ := hc
        apply List.mem_append_right
        rw [← hσ]
        exact List.mem_singleton.2 rfl
      · exact List.mem_append_left _ (I.pred j tj cj l ms hj' hc)
    resOk := by
      intro id res hmem
      dsimp only at hmem ⊢
      rw [acqOrder_snoc_acq, hseq2]
      rw [List.mem_append, List.mem_singleton] at hmem
      rcases hmem with hmem | hmem
      · exact List.mem_append_left _ (I.resOk id res hmem)
      · cases hmem
    nodup := by
      dsimp only
      rw [acqOrder_snoc_acq, List.nodup_append]
      refine ⟨I.nodup, by simp, ?_⟩
      intro a ha b hb
      rw [List.mem_singleton] at hb
      subst hb
      intro e; subst e; exact hnotin ha
    po := by
      intro j k k' hlt hmem
      dsimp only at hmem ⊢
      rw [acqOrder_snoc_acq] at hmem ⊢
      rw [List.mem_append, List.mem_singleton] at hmem
      rcases hmem with hmem | hmem
      · obtain ⟨a, b, ha, hb, hab⟩ := I.po j k k' hlt hmem
        exact ⟨a, b, (getElem?_snoc_of_some ha).1, (getElem?_snoc_of_some hb).1, hab⟩
      · simp only [Prod.mk.injEq] at hmem
        obtain ⟨rfl, rfl⟩ := hmem
        have : (j, k) ∈ acqOrder s.hist := (I.memO j k).2 ⟨t, hi, Or.inl hlt⟩
        obtain ⟨a, ha⟩ := List.mem_iff_getElem?.1 this
        exact ⟨a, _, (getElem?_snoc_of_some ha).1, getElem?_snoc_last _ _, getElem?_some_lt ha⟩
    rt := by
      intro c' d pr pa hpr hpa hlt
      dsimp only at hpr hpa ⊢
      rw [acqOrder_snoc_acq]
      rcases posOf_snoc hpr with hpr' | ⟨_, he, _⟩
      · rcases posOf_snoc hpa with hpa' | ⟨_, he, hpa'⟩
        · obtain ⟨a, b, ha, hb, hab⟩ := I.rt c' d pr pa hpr' hpa' hlt
          exact ⟨a, b, (getElem?_snoc_of_some ha).1, (getElem?_snoc_of_some hb).1, hab⟩
        · have hd := isAcq_true he
          cases hd
          obtain ⟨e, hemem, hep⟩ := posOf_mem hpr'
          obtain ⟨res, rfl⟩ := isRel_true hep
          obtain ⟨ci, ck⟩ := c'
          obtain ⟨t2, ht2, hlt2⟩ := I.relLt ci ck res hemem
          have : (ci, ck) ∈ acqOrder s.hist := (I.memO ci ck).2 ⟨t2, ht2, Or.inl hlt2⟩
          obtain ⟨a, ha⟩ := List.mem_iff_getElem?.1 this
          exact ⟨a, _, (getElem?_snoc_of_some ha).1, getElem?_snoc_last _ _, getElem?_some_lt ha⟩
      · simp [isRel] at he }

theorem inv_micro {σ0 : S} {ps : List (List (Call S L R))}
    {s : State S L R} (I : Inv σ0 ps s) {i : Nat} {t : Thread S L R} {c : Call S L R} {l : L}
    {m : Micro S L} {ms : List (Micro S L)}
    (hi : s.threads[i]? = some t) (hcur : t.cur = some (c, l, m :: ms)) :
    Inv σ0 ps { s with σ := (m.run (s.σ, l)).1,
                       threads := s.threads.set i { t with cur := some (c, (m.run (s.σ, l)).2, ms) } } := by
  obtain ⟨p, hp, _, hsome⟩ := I.book i t hi
  obtain ⟨hpc, htd, hreads⟩ := hsome c l (m :: ms) hcur
  have hW' : insideW ({ t with cur := some (c, (m.run (s.σ, l)).2, ms) } : Thread S L R) = insideW t := by
    rw [insideW_cur hcur]; rfl
  have hI' : inside ({ t with cur := some (c, (m.run (s.σ, l)).2, ms) } : Thread S L R) = inside t := by
    rw [inside_cur hcur]; rfl
  have hothers : ∀ (j : Nat) (tj : Thread S L R), j ≠ i → s.threads[j]? = some tj →
      inside tj = true → c.mode = Mode.r := by
    intro j tj hne hj hin
    rcases mode_cases c.mode with hm | hm
    · exact hm
    · have := I.excl i j t tj (fun e => hne e.symm) hi hj (insideW_cur_w hcur hm)
      rw [hin] at this; cases this
  have hσr : c.mode = Mode.r → (m.run (s.σ, l)).1 = s.σ := by
    intro hr
    obtain ⟨f, rfl⟩ := hreads hr m List.mem_cons_self
    rfl
  exact {
    len := by simp [I.len]
    book := by
      intro j tj hj
      dsimp only at hj
      rcases get_set_cases hi hj with ⟨rfl, rfl⟩ | ⟨hne, hj'⟩
      · refine ⟨p, hp, ?_, ?_⟩
        · intro h; simp at h
        · intro c' l' ms' h
          simp only [Option.some.injEq, Prod.mk.injEq] at h
          obtain ⟨rfl, rfl, rfl⟩ := h
          exact ⟨hpc, htd, fun hr m' hm' => hreads hr m' (List.mem_cons_of_mem _ hm')⟩
      · exact I.book j tj hj'
    memO := by
      intro j k
      dsimp only
      rw [I.memO j k]
      by_cases hji : j = i
      · subst hji
        rw [get_set_self hi, hi]
        constructor
        · rintro ⟨t2, ht2, h⟩
          cases ht2
          exact ⟨_, rfl, by simpa [hcur] using h⟩
        · rintro ⟨t2, ht2, h⟩
          cases ht2
          exact ⟨_, rfl, by simpa [hcur] using h⟩
      · rw [get_set_ne hji]
    relLt := by
      intro j k res hmem
      dsimp only at hmem ⊢
      obtain ⟨t2, ht2, hlt⟩ := I.relLt j k res hmem
      by_cases hji : j = i
      · subst hji; rw [hi] at ht2; cases ht2
        exact ⟨_, get_set_self hi, hlt⟩
      · exact ⟨t2, by rw [get_set_ne hji]; exact ht2, hlt⟩
    ltRel := by
      intro j tj k hj hlt
      dsimp only at hj ⊢
      rcases get_set_cases hi hj with ⟨rfl, rfl⟩ | ⟨hne, hj'⟩
      · exact I.ltRel i t k hi hlt
      · exact I.ltRel j tj k hj' hlt
    excl := by
      intro a b ta tb hab ha hb hW
      dsimp only at ha hb
      rcases get_set_cases hi ha with ⟨rfl, rfl⟩ | ⟨hna, ha'⟩
      · rcases get_set_cases hi hb with ⟨rfl, rfl⟩ | ⟨hnb, hb'⟩
        · exact absurd rfl hab
        · rw [hW'] at hW
          exact I.excl i b t tb hab hi hb' hW
      · rcases get_set_cases hi hb with ⟨rfl, rfl⟩ | ⟨hnb, hb'⟩
        · rw [hI']; exact I.excl a i ta t hab ha' hi hW
        · exact I.excl a b ta tb hab ha' hb' hW
    sigR := by
      intro hall
      dsimp only at hall ⊢
      have hall' : ∀ (j : Nat) (tj : Thread S L R), s.threads[j]? = some tj → insideW tj = false := by
        intro j tj hj
        by_cases hji : j = i
        · subst hji; rw [hi] at hj; cases hj
          rw [← hW']; exact hall j _ (get_set_self hi)
        · exact hall j tj (by rw [get_set_ne hji]; exact hj)
      have hm : c.mode = Mode.r := by
        rcases mode_cases c.mode with hm | hm
        · exact hm
        · have := hall' i t hi
          rw [insideW_cur_w hcur hm] at this; cases this
      rw [hσr hm]; exact I.sigR hall'
    sigW := by
      intro j tj cj l' ms' hj hc hw
      dsimp only at hj ⊢
      rcases get_set_cases hi hj with ⟨rfl, rfl⟩ | ⟨hne, hj'⟩
      · simp only [Option.some.injEq, Prod.mk.injEq] at hc
        obtain ⟨rfl, rfl, rfl⟩ := hc
        have := I.sigW i t c l (m :: ms) hi hcur hw
        rw [runSteps_cons] at this; exact this
      · have := I.excl j i tj t hne hj' hi (insideW_cur_w hc hw)
        rw [inside_cur hcur] at this; cases this
    pred := by
      intro j tj cj l' ms' hj hc
      dsimp only at hj ⊢
      rcases get_set_cases hi hj with ⟨rfl, rfl⟩ | ⟨hne, hj'⟩
      · simp only [Option.some.injEq, Prod.mk.injEq] at hc
        obtain ⟨rfl, rfl, rfl⟩ := hc
        have := I.pred i t c l (m :: ms) hi hcur
        rw [runSteps_cons] at this; exact this
      · rw [hσr (hothers j tj hne hj' (inside_cur hc))]
        exact I.pred j tj cj l' ms' hj' hc
    resOk := I.resOk
    nodup := I.nodup
    po := I.po
    rt := I.rt }

theorem inv_release {σ0 : S} {ps : List (List (Call S L R))}
    {s : State S L R} (I : Inv σ0 ps s) {i : Nat} {t : Thread S L R} {c : Call S L R} {l : L}
    (hi : s.threads[i]? = some t) (hcur : t.cur = some (c, l, [])) :
    Inv σ0 ps { s with threads := s.threads.set i { t with cur := none, pc := t.pc + 1 },
                       hist := s.hist ++ [Event.rel (i, t.pc) (c.result l)] } := by
  obtain ⟨p, hp, _, hsome⟩ := I.book i t hi
  obtain ⟨hpc, htd, _⟩ := hsome c l [] hcur
  have hpclt : t.pc < p.length := getElem?_some_lt hpc
  exact {
    len := by simp [I.len]
    book := by
      intro j tj hj
      dsimp only at hj
      rcases get_set_cases hi hj with ⟨rfl, rfl⟩ | ⟨hne, hj'⟩
      · refine ⟨p, hp, ?_, ?_⟩
        · intro _; exact ⟨htd, hpclt⟩
        · intro c' l' ms' h; simp at h
      · exact I.book j tj hj'
    memO := by
      intro j k
      dsimp only
      rw [acqOrder_snoc_rel, I.memO j k]
      by_cases hji : j = i
      · subst hji
        rw [get_set_self hi, hi]
        constructor
        · rintro ⟨t2, ht2, h⟩
          cases ht2
          refine ⟨_, rfl, Or.inl ?_⟩
          show k < t.pc + 1
          omega
        · rintro ⟨t2, ht2, h⟩
          cases ht2
          refine ⟨_, rfl, ?_⟩
          rcases h with h | ⟨_, h⟩
          · have h : k < t.pc + 1 := h
            simp only [hcur, Option.isSome_some, and_true]
            omega
          · simp at h
      · rw [get_set_ne hji]
    relLt := by
      intro j k res hmem
      dsimp only at hmem ⊢
      rw [List.mem_append, List.mem_singleton] at hmem
      rcases hmem with hmem | hmem
      · obtain ⟨t2, ht2, hlt⟩ := I.relLt j k res hmem
        by_cases hji : j = i
        · subst hji; rw [hi] at ht2; cases ht2
          exact ⟨_, get_set_self hi, Nat.lt_succ_of_lt hlt⟩
        · exact ⟨t2, by rw [get_set_ne hji]; exact ht2, hlt⟩
      · cases hmem
        exact ⟨_, get_set_self hi, Nat.lt_succ_self _⟩
    ltRel := by
      intro j tj k hj hlt
      dsimp only at hj ⊢
      rcases get_set_cases hi hj with ⟨rfl, rfl⟩ | ⟨hne, hj'⟩
      · have hlt : k < t.pc + 1 := hlt
        by_cases hk : k < t.pc
        · obtain ⟨res, h⟩ := I.ltRel i t k hi hk
          exact ⟨res, List.mem_append_left _ h⟩
        · have : k = t.pc := by omega
          subst this
          exact ⟨c.result l, List.mem_append_right _ (List.mem_singleton.2 rfl)⟩
      · obtain ⟨res, h⟩ := I.ltRel j tj k hj' hlt
        exact ⟨res, List.mem_append_left _ h⟩
    excl := by
      intro a b ta tb hab ha hb hW
      dsimp only at ha hb
      rcases get_set_cases hi ha with ⟨rfl, rfl⟩ | ⟨hna, ha'⟩
      · simp [insideW] at hW
      · rcases get_set_cases hi hb with ⟨rfl, rfl⟩ | ⟨hnb, hb'⟩
        · rfl
        · exact I.excl a b ta tb hab ha' hb' hW
    sigR := by
      intro hall
      dsimp only at hall ⊢
      rw [acqOrder_snoc_rel]
      rcases mode_cases c.mode with hm | hm
      · apply I.sigR
        intro j tj hj
        by_cases hji : j = i
        · subst hji; rw [hi] at hj; cases hj
          exact insideW_cur_r hcur hm
        · exact hall j tj (by rw [get_set_ne hji]; exact hj)
      · exact I.sigW i t c l [] hi hcur hm
    sigW := by
      intro j tj cj l' ms' hj hc hw
      dsimp only at hj ⊢
      rw [acqOrder_snoc_rel]
      rcases get_set_cases hi hj with ⟨rfl, rfl⟩ | ⟨hne, hj'⟩
      · cases hc
      · exact I.sigW j tj cj l' ms' hj' hc hw
    pred := by
      intro j tj cj l' ms' hj hc
      dsimp only at hj ⊢
      rw [acqOrder_snoc_rel]
      rcases get_set_cases hi hj with ⟨rfl, rfl⟩ | ⟨hne, hj'⟩
      · cases hc
      · exact I.pred j tj cj l' ms' hj' hc
    resOk := by
      intro id res hmem
      dsimp only at hmem ⊢
      rw [acqOrder_snoc_rel]
      rw [List.mem_append, List.mem_singleton] at hmem
      rcases hmem with hmem | hmem
      · exact I.resOk id res hmem
      · cases hmem
        exact I.pred i t c l [] hi hcur
    nodup := by dsimp only; rw [acqOrder_snoc_rel]; exact I.nodup
    po := by dsimp only; rw [acqOrder_snoc_rel]; exact I.po
    rt := by
      intro c' d pr pa hpr hpa hlt
      dsimp only at hpr hpa ⊢
      rw [acqOrder_snoc_rel]
      rcases posOf_snoc hpa with hpa' | ⟨_, he, _⟩
      · rcases posOf_snoc hpr with hpr' | ⟨_, _, hpr'⟩
        · exact I.rt c' d pr pa hpr' hpa' hlt
        · have := posOf_lt hpa'
          omega
      · simp [isAcq] at he }

theorem inv_step {σ0 : S} {ps : List (List (Call S L R))} (hwf : ∀ p ∈ ps, ∀ c ∈ p, c.WF)
    {s s' : State S L R} (I : Inv σ0 ps s) (st : Step s s') : Inv σ0 ps s' := by
  cases st with
  | acquire i t c rest hi hcur htodo hg => exact inv_acquire hwf I hi hcur htodo hg
  | micro i t c l m ms hi hcur => exact inv_micro I hi hcur
  | release i t c l hi hcur => exact inv_release I hi hcur

theorem inv_steps {σ0 : S} {ps : List (List (Call S L R))} (hwf : ∀ p ∈ ps, ∀ c ∈ p, c.WF)
    {s0 s : State S L R} (h : Steps s0 s) (I0 : Inv σ0 ps s0) : Inv σ0 ps s := by
  induction h with
  | refl => exact I0
  | tail _ st ih => exact inv_step hwf ih st

theorem inv_reachable {σ0 : S} {ps : List (List (Call S L R))} (hwf : ∀ p ∈ ps, ∀ c ∈ p, c.WF)
    {s : State S L R} (h : Steps (initial σ0 ps) s) : Inv σ0 ps s :=
  inv_steps hwf h (inv_initial σ0 ps)

end Invariant
/-- MAIN THEOREM.  For well-formed calls, every complete interleaved execution is equivalent to the
    sequential execution of the same calls in lock-acquisition order: same final shared state, and
    every call returned exactly the result the sequential execution gives it.  That order contains
    every call exactly once, respects each thread's program order, and respects real-time
    precedence (a call released before another was acquired comes first). -/
theorem linearizable {S L R : Type} (σ0 : S) (ps : List (List (Call S L R)))
    (hwf : ∀ p ∈ ps, ∀ c ∈ p, c.WF) (s : State S L R)
    (hrun : Steps (initial σ0 ps) s) (hfin : finished s) :
    let order := acqOrder s.hist
    -- same final state, same results
    (runSeq ps order σ0).1 = s.σ ∧
    (∀ id res, Event.rel id res ∈ s.hist → (id, res) ∈ (runSeq ps order σ0).2) ∧
    -- every call of every program exactly once
    order.Nodup ∧
    (∀ (i k : Nat), (∃ c, callOf ps (i, k) = some c) ↔ (i, k) ∈ order) ∧
    -- program order and real-time order
    (∀ (i k k' : Nat), k < k' → (i, k') ∈ order →
       ∃ a b : Nat, order[a]? = some (i, k) ∧ order[b]? = some (i, k') ∧ a < b) ∧
    (∀ (c d : CallId) (pr pa : Nat), posOf s.hist (isRel c) = some pr → posOf s.hist (isAcq d) = some pa → pr < pa →
       ∃ a b : Nat, order[a]? = some c ∧ order[b]? = some d ∧ a < b) := by
  intro order
  have I := inv_reachable hwf hrun
  have hnone : ∀ (i : Nat) (t : Thread S L R), s.threads[i]? = some t → t.todo = [] ∧ t.cur = none :=
    fun i t h => hfin t (List.mem_of_getElem? h)
  refine ⟨?_, I.resOk, I.nodup, ?_, I.po, I.rt⟩
  · exact (I.sigR (fun j t h => insideW_none (hnone j t h).2)).symm
  · intro i k
    constructor
    · rintro ⟨c, hc⟩
      unfold callOf at hc
      cases hp : ps[i]? with
      | none => simp [hp] at hc
      | some p =>
        simp [hp] at hc
        have hi : i < s.threads.length := by rw [I.len]; exact getElem?_some_lt hp
        obtain ⟨t, ht⟩ : ∃ t, s.threads[i]? = some t := ⟨s.threads[i], List.getElem?_eq_getElem hi⟩
        obtain ⟨p', hp', hn, _⟩ := I.book i t ht
        rw [hp] at hp'; cases hp'
        obtain ⟨htodo, hcur⟩ := hnone i t ht
        obtain ⟨hd, _⟩ := hn hcur
        rw [htodo] at hd
        have hlen : p.length ≤ t.pc := by
          have := congrArg List.length hd
          simp at this; omega
        have hk : k < p.length := getElem?_some_lt hc
        exact (I.memO i k).2 ⟨t, ht, Or.inl (by omega)⟩
    · intro hmem
      obtain ⟨t, ht, h⟩ := (I.memO i k).1 hmem
      obtain ⟨htodo, hcur⟩ := hnone i t ht
      obtain ⟨p, hp, hn, _⟩ := I.book i t ht
      obtain ⟨_, hle⟩ := hn hcur
      have hk : k < p.length := by
        rcases h with h | ⟨_, h⟩
        · omega
        · simp [hcur] at h
      exact ⟨p[k], by simp [callOf, hp, hk]⟩

/-- In a complete execution every acquired call has returned. -/
theorem linearizable_all_returned {S L R : Type} (σ0 : S) (ps : List (List (Call S L R)))
    (hwf : ∀ p ∈ ps, ∀ c ∈ p, c.WF) (s : State S L R)
    (hrun : Steps (initial σ0 ps) s) (hfin : finished s) :
    ∀ id ∈ acqOrder s.hist, ∃ res, Event.rel id res ∈ s.hist := by
  have I := inv_reachable hwf hrun
  intro ⟨i, k⟩ hmem
  obtain ⟨t, ht, h⟩ := (I.memO i k).1 hmem
  have hcur := (hfin t (List.mem_of_getElem? ht)).2
  rcases h with h | ⟨_, h⟩
  · exact I.ltRel i t k ht h
  · simp [hcur] at h

/-! ## Non-vacuity: a concrete complete run

  Two threads over a shared `Nat`.  Thread 0 makes one writer call that increments the state
  (read σ into the local, write local+1), thread 1 makes one reader call that reads σ. -/
namespace Example

def wcall : Call Nat Nat Nat :=
  { mode := Mode.w, init := 0,
    steps := [Micro.read (fun σ _ => σ), Micro.write (fun _ l => l + 1)], result := fun l => l }

def rcall : Call Nat Nat Nat :=
  { mode := Mode.r, init := 0, steps := [Micro.read (fun σ _ => σ)], result := fun l => l }

def progs : List (List (Call Nat Nat Nat)) := [[wcall], [rcall]]

/-- thread 1, untouched while thread 0 runs -/
def idle1 : Thread Nat Nat Nat := { todo := [rcall], cur := none, pc := 0 }
/-- thread 0, once it is done -/
def done0 : Thread Nat Nat Nat := { todo := [], cur := none, pc := 1 }

def s1 : State Nat Nat Nat :=
  { σ := 0, hist := [Event.acq (0, 0)],
    threads := [{ todo := [], cur := some (wcall, 0, wcall.steps), pc := 0 }, idle1] }
def s2 : State Nat Nat Nat :=
  { σ := 0, hist := [Event.acq (0, 0)],
    threads := [{ todo := [], cur := some (wcall, 0, [Micro.write (fun _ l => l + 1)]), pc := 0 }, idle1] }
def s3 : State Nat Nat Nat :=
  { σ := 1, hist := [Event.acq (0, 0)],
    threads := [{ todo := [], cur := some (wcall, 0, []), pc := 0 }, idle1] }
def s4 : State Nat Nat Nat :=
  { σ := 1, hist := [Event.acq (0, 0), Event.rel (0, 0) 0], threads := [done0, idle1] }
def s5 : State Nat Nat Nat :=
  { σ := 1, hist := [Event.acq (0, 0), Event.rel (0, 0) 0, Event.acq (1, 0)],
    threads := [done0, { todo := [], cur := some (rcall, 0, rcall.steps), pc := 0 }] }
def s6 : State Nat Nat Nat :=
  { σ := 1, hist := [Event.acq (0, 0), Event.rel (0, 0) 0, Event.acq (1, 0)],
    threads := [done0, { todo := [], cur := some (rcall, 1, []), pc := 0 }] }
def s7 : State Nat Nat Nat :=
  { σ := 1, hist := [Event.acq (0, 0), Event.rel (0, 0) 0, Event.acq (1, 0), Event.rel (1, 0) 1],
    threads := [done0, { todo := [], cur := none, pc := 1 }] }

/-- when nobody is inside, the lock can be granted in any mode -/
theorem grant_of_all_out {S L R : Type} {ts : List (Thread S L R)} (i : Nat) (m : Mode)
    (h : ∀ t ∈ ts, t.cur = none) : grantable ts i m := by
  intro j t _ hj
  have := h t (List.mem_of_getElem? hj)
  cases m <;> simp [inside, insideW, this]

theorem step01 : Step (initial 0 progs) s1 :=
  Step.acquire (initial 0 progs) 0 { todo := [wcall], cur := none, pc := 0 } wcall [] rfl rfl rfl
    (grant_of_all_out _ _ (by simp [initial, progs]))
theorem step12 : Step s1 s2 :=
  Step.micro s1 0 { todo := [], cur := some (wcall, 0, wcall.steps), pc := 0 } wcall 0
    (Micro.read (fun σ _ => σ)) [Micro.write (fun _ l => l + 1)] rfl rfl
theorem step23 : Step s2 s3 :=
  Step.micro s2 0 { todo := [], cur := some (wcall, 0, [Micro.write (fun _ l => l + 1)]), pc := 0 } wcall 0
    (Micro.write (fun _ l => l + 1)) [] rfl rfl
theorem step34 : Step s3 s4 :=
  Step.release s3 0 { todo := [], cur := some (wcall, 0, []), pc := 0 } wcall 0 rfl rfl
theorem step45 : Step s4 s5 :=
  Step.acquire s4 1 idle1 rcall [] rfl rfl rfl
    (grant_of_all_out _ _ (by simp [s4, done0, idle1]))
theorem step56 : Step s5 s6 :=
  Step.micro s5 1 { todo := [], cur := some (rcall, 0, rcall.steps), pc := 0 } rcall 0
    (Micro.read (fun σ _ => σ)) [] rfl rfl
theorem step67 : Step s6 s7 :=
  Step.release s6 1 { todo := [], cur := some (rcall, 1, []), pc := 0 } rcall 1 rfl rfl

theorem run : Steps (initial 0 progs) s7 :=
  Steps.tail (Steps.tail (Steps.tail (Steps.tail (Steps.tail (Steps.tail (Steps.tail
    (Steps.refl _) step01) step12) step23) step34) step45) step56) step67

theorem fin7 : finished s7 := by
  intro t ht
  simp [s7, done0] at ht
  rcases ht with rfl | rfl <;> exact ⟨rfl, rfl⟩

/-- the hypotheses of `linearizable` are satisfiable: a complete run exists -/
example : ∃ s, Steps (initial 0 progs) s ∧ finished s := ⟨s7, run, fin7⟩

theorem progs_wf : ∀ p ∈ progs, ∀ c ∈ p, c.WF := by
  intro p hp c hc
  simp [progs] at hp
  rcases hp with rfl | rfl
  · simp at hc; subst hc; intro h; cases h
  · simp at hc; subst hc; intro _ m hm
    simp [rcall] at hm; exact ⟨_, hm⟩

/-- and the theorem applies to it: the sequential run in acquisition order ends in state 1 -/
example : (runSeq progs (acqOrder s7.hist) 0).1 = 1 :=
  (linearizable 0 progs progs_wf s7 run fin7).1

end Example

end Sod.Lin

#print axioms Sod.Lin.linearizable
#print axioms Sod.Lin.linearizable_all_returned
