/-
  Proofs/Lock.lean — proofs about the reader/writer-lock machine of `SodModel/Lock.lean`.

    C09  disciplined threads never deadlock (`no_deadlock`, `C09_no_deadlock`) and every
         call returns (`gstep_work`, `C09_all_return`);
    C08  a write holder excludes every other holder (`C08_mutex`), covered access sets are
         protected pairwise (`covered_sound`), hence no data race (`C08_race_free`);
    a concrete deadlocked state outside the discipline (`stuck_is_deadlocked`).
-/
import SodModel.Lock

namespace Sod.Lock

/-! ### 1. `discB` decides `Disc` -/

theorem discB_iff (held : Held) (as : List Act) : discB held as = true ↔ Disc held as := by
  induction as generalizing held with
  | nil => simp [discB, Disc, List.isEmpty_iff]
  | cons a rest ih =>
    cases a with
    | acq l m => simp [discB, Disc, ih]
    | rel l m => simp [discB, Disc, ih]

/-! ### 2./3. the thread invariant `TOK` -/

theorem tok_initial {s : State} (h : Initial s) : ∀ t ∈ s, TOK t := by
  intro t ht
  obtain ⟨hh, hp, hd⟩ := h t ht
  refine ⟨?_, ?_⟩
  · rw [hh]; exact hd
  · intro h'; rw [hp] at h'; cases h'

theorem tok_set {s : State} {i : Nat} {t' : Thread} (h : ∀ t ∈ s, TOK t) (h' : TOK t') :
    ∀ t ∈ s.set i t', TOK t := by
  intro t ht
  rcases List.mem_or_eq_of_mem_set ht with h1 | h1
  · exact h t h1
  · exact h1 ▸ h'

theorem disc_rel {held : Held} {l : LockId} {m : Mode} {rest : List Act}
    (d : Disc held (.rel l m :: rest)) : Disc (held.erase (l, m)) rest := d.2

theorem disc_acq {held : Held} {l : LockId} {m : Mode} {rest : List Act}
    (d : Disc held (.acq l m :: rest)) : Disc ((l, m) :: held) rest := d.2

theorem disc_acq_lt {held : Held} {l : LockId} {m : Mode} {rest : List Act}
    (d : Disc held (.acq l m :: rest)) : ∀ h ∈ held, rank h.1 < rank l := d.1

theorem tok_step {s s' : State} (h : ∀ t ∈ s, TOK t) (st : PStep s s') : ∀ t ∈ s', TOK t := by
  cases st with
  | release i t l m rest hi ht =>
    have d := (h t (List.mem_of_getElem? hi)).disc
    rw [ht] at d
    exact tok_set h ⟨disc_rel d, by intro h'; cases h'⟩
  | announce i t l rest hi ht hp =>
    have d := (h t (List.mem_of_getElem? hi)).disc
    exact tok_set h ⟨d, fun _ => ⟨l, rest, ht⟩⟩
  | grantW i t l rest hi ht hg =>
    have d := (h t (List.mem_of_getElem? hi)).disc
    rw [ht] at d
    exact tok_set h ⟨disc_acq d, by intro h'; cases h'⟩
  | grantR i t l rest hi ht hg =>
    have d := (h t (List.mem_of_getElem? hi)).disc
    rw [ht] at d
    exact tok_set h ⟨disc_acq d, by intro h'; cases h'⟩

theorem tok_reach {s0 s : State} (h0 : Initial s0) (r : Reach s0 s) : ∀ t ∈ s, TOK t := by
  induction r with
  | init => exact tok_initial h0
  | step s s' _ st ih => exact tok_step ih st

/-- guaranteed steps are permitted -/
theorem gstep_pstep {s s' : State} (g : GStep s s') : PStep s s' := by
  cases g with
  | release i t l m rest hi ht => exact PStep.release s i t l m rest hi ht
  | announce i t l rest hi ht hp => exact PStep.announce s i t l rest hi ht hp
  | grantW i t l rest hi ht hp hg => exact PStep.grantW s i t l rest hi ht hg
  | grantR i t l rest hi ht hg _ => exact PStep.grantR s i t l rest hi ht hg

theorem tok_gstep {s s' : State} (h : ∀ t ∈ s, TOK t) (g : GStep s s') : ∀ t ∈ s', TOK t :=
  tok_step h (gstep_pstep g)

/-! ### 4. C09: no deadlock -/

/-- the lock a thread is waiting for -/
def want (t : Thread) : Option LockId :=
  match t.todo with
  | .acq l _ :: _ => some l
  | _ => none

theorem want_acq {t : Thread} {l : LockId} {m : Mode} {rest : List Act}
    (h : t.todo = .acq l m :: rest) : want t = some l := by
  simp [want, h]

theorem held_nonempty_unfinished {t : Thread} (h : TOK t) (hh : t.held ≠ []) : t.todo ≠ [] := by
  intro h0
  have := h.disc
  rw [h0] at this
  exact hh this

theorem held_lt_want {t : Thread} (h : TOK t) {l : LockId} {m : Mode} {rest : List Act}
    (ht : t.todo = .acq l m :: rest) {x : LockId} (hx : holds t x) : rank x < rank l := by
  have := h.disc
  rw [ht] at this
  obtain ⟨m', hm'⟩ := hx
  exact disc_acq_lt this (x, m') hm'

theorem exists_max_by {α : Type} (f : α → Nat) :
    ∀ (ws : List α), ws ≠ [] → ∃ x ∈ ws, ∀ y ∈ ws, f y ≤ f x
  | [], h => absurd rfl h
  | a :: rest, _ => by
    by_cases hr : rest = []
    · subst hr; exact ⟨a, by simp, by simp⟩
    · obtain ⟨n, hn, hle⟩ := exists_max_by f rest hr
      by_cases han : f a ≤ f n
      · refine ⟨n, List.mem_cons_of_mem _ hn, ?_⟩
        intro y hy
        rcases List.mem_cons.mp hy with h | h
        · subst h; exact han
        · exact hle y h
      · refine ⟨a, by simp, ?_⟩
        intro y hy
        rcases List.mem_cons.mp hy with h | h
        · subst h; exact Nat.le_refl _
        · have := hle y h; omega

/-- THE MAIN THEOREM (C09): disciplined threads never deadlock. -/
theorem no_deadlock (s : State) (hok : ∀ t ∈ s, TOK t) (hun : ∃ t ∈ s, t.todo ≠ []) :
    ∃ s', GStep s s' := by
  classical
  by_cases h1 : ∃ (i : Nat) (t : Thread), s[i]? = some t ∧
      ((∃ l m rest, t.todo = .rel l m :: rest) ∨
       (∃ l rest, t.todo = .acq l .W :: rest ∧ t.pend = false))
  · obtain ⟨i, t, hi, h | h⟩ := h1
    · obtain ⟨l, m, rest, ht⟩ := h
      exact ⟨_, GStep.release s i t l m rest hi ht⟩
    · obtain ⟨l, rest, ht, hp⟩ := h
      exact ⟨_, GStep.announce s i t l rest hi ht hp⟩
  · -- every unfinished thread waits for a lock; waiting writers have announced
    have hwait : ∀ (i : Nat) (t : Thread), s[i]? = some t → t.todo ≠ [] →
        ∃ l m rest, t.todo = .acq l m :: rest ∧ (m = .W → t.pend = true) := by
      intro i t hi hne
      match htd : t.todo with
      | [] => exact absurd htd hne
      | .rel l m :: rest => exact absurd ⟨i, t, hi, Or.inl ⟨l, m, rest, htd⟩⟩ h1
      | .acq l .R :: rest => exact ⟨l, .R, rest, rfl, by intro h; cases h⟩
      | .acq l .W :: rest =>
        refine ⟨l, .W, rest, rfl, fun _ => ?_⟩
        cases hp : t.pend
        · exact absurd ⟨i, t, hi, Or.inr ⟨l, rest, htd, hp⟩⟩ h1
        · rfl
    have hex : ∃ l, ∃ (i : Nat) (t : Thread), s[i]? = some t ∧ want t = some l := by
      obtain ⟨t, hts, hne⟩ := hun
      obtain ⟨i, hi, hget⟩ := List.mem_iff_getElem.mp hts
      have hi' : s[i]? = some t := by rw [List.getElem?_eq_getElem hi, hget]
      obtain ⟨l, m, rest, ht, _⟩ := hwait i t hi' hne
      exact ⟨l, i, t, hi', want_acq ht⟩
    -- a wanted lock of maximal rank
    have hmax : ∃ l, (∃ (i : Nat) (t : Thread), s[i]? = some t ∧ want t = some l) ∧
        ∀ l', (∃ (i : Nat) (t : Thread), s[i]? = some t ∧ want t = some l') →
          rank l' ≤ rank l := by
      have hmem : ∀ l, (∃ (i : Nat) (t : Thread), s[i]? = some t ∧ want t = some l) ↔
          l ∈ s.filterMap want := by
        intro l
        constructor
        · rintro ⟨i, t, hi, hw⟩
          exact List.mem_filterMap.mpr ⟨t, List.mem_of_getElem? hi, hw⟩
        · intro h
          obtain ⟨t, hts, hw⟩ := List.mem_filterMap.mp h
          obtain ⟨i, hi, hget⟩ := List.mem_iff_getElem.mp hts
          exact ⟨i, t, by rw [List.getElem?_eq_getElem hi, hget], hw⟩
      have hne : s.filterMap want ≠ [] := by
        obtain ⟨l, hl⟩ := hex
        exact List.ne_nil_of_mem ((hmem l).mp hl)
      obtain ⟨l, hl, hle⟩ := exists_max_by rank (s.filterMap want) hne
      exact ⟨l, (hmem l).mpr hl, fun l' h' => hle l' ((hmem l').mp h')⟩
    obtain ⟨n, ⟨i0, t0, hi0, hw0⟩, hle⟩ := hmax
    -- nobody holds it
    have hnohold : ∀ (j : Nat) (u : Thread), s[j]? = some u → ¬ holds u n := by
      intro j u hj hh
      have huok := hok u (List.mem_of_getElem? hj)
      have hne : u.held ≠ [] := by
        obtain ⟨m, hm⟩ := hh
        exact List.ne_nil_of_mem hm
      obtain ⟨l, m, rest, hu, _⟩ := hwait j u hj (held_nonempty_unfinished huok hne)
      have hlt := held_lt_want huok hu hh
      have := hle l ⟨j, u, hj, want_acq hu⟩
      omega
    by_cases hpw : ∃ (j : Nat) (u : Thread), s[j]? = some u ∧ pendingOn u n
    · obtain ⟨j, u, hj, hp, rest, hu⟩ := hpw
      exact ⟨_, GStep.grantW s j u n rest hj hu hp (fun k v _ hk => hnohold k v hk)⟩
    · have hne0 : t0.todo ≠ [] := by
        intro h
        simp [want, h] at hw0
      obtain ⟨l, m, rest, ht0, hpend⟩ := hwait i0 t0 hi0 hne0
      have hl : l = n := by
        have := want_acq ht0
        rw [hw0] at this
        exact (Option.some.inj this).symm
      subst hl
      cases m with
      | W => exact absurd ⟨i0, t0, hi0, hpend rfl, rest, ht0⟩ hpw
      | R =>
        refine ⟨_, GStep.grantR s i0 t0 l rest hi0 ht0 ?_ ?_⟩
        · intro j u _ hj hw
          exact hnohold j u hj ⟨.W, hw⟩
        · intro j u hj hp
          exact hpw ⟨j, u, hj, hp⟩

theorem C09_no_deadlock {s0 s : State} (h0 : Initial s0) (r : Reach s0 s)
    (hun : ∃ t ∈ s, t.todo ≠ []) : ∃ s', GStep s s' :=
  no_deadlock s (tok_reach h0 r) hun

/-! ### 5. C09: every call returns -/

/-- weight of one thread in `work` -/
def tw (t : Thread) : Nat := 2 * t.todo.length + (if t.pend then 0 else 1)

theorem work_eq (s : State) : work s = (s.map tw).sum := rfl

theorem sum_set_lt (f : Thread → Nat) :
    ∀ (s : State) (i : Nat) (t t' : Thread), s[i]? = some t → f t' < f t →
      ((s.set i t').map f).sum < (s.map f).sum
  | [], i, t, t', h, _ => by simp at h
  | a :: s, 0, t, t', h, hf => by
    simp at h
    subst h
    simp only [List.set_cons_zero, List.map_cons, List.sum_cons]
    omega
  | a :: s, i + 1, t, t', h, hf => by
    simp at h
    have := sum_set_lt f s i t t' h hf
    simp only [List.set_cons_succ, List.map_cons, List.sum_cons]
    omega

theorem gstep_work {s s' : State} (g : GStep s s') : work s' < work s := by
  rw [work_eq, work_eq]
  cases g with
  | release i t l m rest hi ht =>
    apply sum_set_lt tw s i t _ hi
    simp only [tw, ht, List.length_cons, Bool.false_eq_true, if_false]
    split <;> omega
  | announce i t l rest hi ht hp =>
    apply sum_set_lt tw s i t _ hi
    simp [tw, hp]
  | grantW i t l rest hi ht hp hg =>
    apply sum_set_lt tw s i t _ hi
    simp only [tw, ht, List.length_cons, Bool.false_eq_true, if_false]
    split <;> omega
  | grantR i t l rest hi ht hg hq =>
    apply sum_set_lt tw s i t _ hi
    simp only [tw, ht, List.length_cons, Bool.false_eq_true, if_false]
    split <;> omega

/-- reflexive-transitive closure of `GStep` -/
inductive GStar : State → State → Prop
  | refl (s : State) : GStar s s
  | tail {s s' s'' : State} : GStar s s' → GStep s' s'' → GStar s s''

theorem GStar.head {s s' s'' : State} (g : GStep s s') (r : GStar s' s'') : GStar s s'' := by
  induction r with
  | refl => exact GStar.tail (GStar.refl s) g
  | tail _ g' ih => exact GStar.tail ih g'

theorem all_return_aux : ∀ (n : Nat) (s : State), work s = n → (∀ t ∈ s, TOK t) →
    ∃ s', GStar s s' ∧ ∀ t ∈ s', t.todo = [] := by
  intro n
  induction n using Nat.strongRecOn with
  | _ n ih =>
    intro s hw hok
    classical
    by_cases hun : ∃ t ∈ s, t.todo ≠ []
    · obtain ⟨s1, g⟩ := no_deadlock s hok hun
      have hlt := gstep_work g
      obtain ⟨s', hr, hfin⟩ := ih (work s1) (by omega) s1 rfl (tok_gstep hok g)
      exact ⟨s', GStar.head g hr, hfin⟩
    · refine ⟨s, GStar.refl s, ?_⟩
      intro t ht
      apply Classical.byContradiction
      intro hne
      exact hun ⟨t, ht, hne⟩

/-- C09 progress: from any disciplined state, guaranteed steps lead to a state in which every
    thread has finished; together with `gstep_work` (executions of guaranteed steps are finite)
    and `no_deadlock` (they end only when all threads are finished), every call returns. -/
theorem C09_all_return (s : State) (hok : ∀ t ∈ s, TOK t) :
    ∃ s', GStar s s' ∧ ∀ t ∈ s', t.todo = [] :=
  all_return_aux (work s) s rfl hok

/-- every maximal execution of guaranteed steps ends with all threads finished -/
theorem gstar_tok {s s' : State} (hok : ∀ t ∈ s, TOK t) (r : GStar s s') : ∀ t ∈ s', TOK t := by
  induction r with
  | refl => exact hok
  | tail _ g ih => exact tok_gstep ih g

theorem C09_maximal_finished {s s' : State} (hok : ∀ t ∈ s, TOK t) (r : GStar s s')
    (hmax : ¬ ∃ s'', GStep s' s'') : ∀ t ∈ s', t.todo = [] := by
  classical
  intro t ht
  apply Classical.byContradiction
  intro hne
  exact hmax (no_deadlock s' (gstar_tok hok r) ⟨t, ht, hne⟩)

/-! ### 6. C08: mutual exclusion and race freedom -/

/-- a write holder excludes every other holder -/
def Mutex (s : State) : Prop :=
  ∀ (i j : Nat) (t u : Thread) (l : LockId), i ≠ j → s[i]? = some t → s[j]? = some u →
    holdsW t l → ¬ holds u l

theorem getElem?_set_cases {s : State} {i k : Nat} {t' v : Thread}
    (h : (s.set i t')[k]? = some v) : (k = i ∧ v = t') ∨ (k ≠ i ∧ s[k]? = some v) := by
  by_cases hk : i = k
  · subst hk
    left
    rw [List.getElem?_set] at h
    simp only [if_true] at h
    split at h
    · exact ⟨rfl, (Option.some.inj h).symm⟩
    · cases h
  · right
    rw [List.getElem?_set_ne hk] at h
    exact ⟨fun e => hk e.symm, h⟩

theorem mutex_set {s : State} {i : Nat} {t t' : Thread} (hm : Mutex s) (hi : s[i]? = some t)
    (hA : ∀ l, holdsW t' l → holdsW t l ∨ (∀ j u, j ≠ i → s[j]? = some u → ¬ holds u l))
    (hB : ∀ l, holds t' l → holds t l ∨ (∀ j u, j ≠ i → s[j]? = some u → ¬ holdsW u l)) :
    Mutex (s.set i t') := by
  intro a b ta ub l hab ha hb hw hh
  rcases getElem?_set_cases ha with ⟨ea, eta⟩ | ⟨na, ha'⟩
  · rcases getElem?_set_cases hb with ⟨eb, _⟩ | ⟨nb, hb'⟩
    · exact hab (ea.trans eb.symm)
    · subst eta
      rcases hA l hw with h | h
      · exact hm i b t ub l (fun e => nb e.symm) hi hb' h hh
      · exact h b ub nb hb' hh
  · rcases getElem?_set_cases hb with ⟨eb, etb⟩ | ⟨nb, hb'⟩
    · subst etb
      rcases hB l hh with h | h
      · exact hm a i ta t l na ha' hi hw h
      · exact h a ta na ha' hw
    · exact hm a b ta ub l hab ha' hb' hw hh

theorem mutex_step {s s' : State} (hm : Mutex s) (st : PStep s s') : Mutex s' := by
  cases st with
  | release i t l m rest hi ht =>
    apply mutex_set hm hi
    · intro l' h; exact Or.inl (List.mem_of_mem_erase h)
    · intro l' h
      obtain ⟨m', h⟩ := h
      exact Or.inl ⟨m', List.mem_of_mem_erase h⟩
  | announce i t l rest hi ht hp =>
    apply mutex_set hm hi
    · intro l' h; exact Or.inl h
    · intro l' h; exact Or.inl h
  | grantW i t l rest hi ht hg =>
    apply mutex_set hm hi
    · intro l' h
      rcases List.mem_cons.mp h with e | h
      · have e' : l' = l := congrArg Prod.fst e
        subst e'
        exact Or.inr hg
      · exact Or.inl h
    · intro l' h
      obtain ⟨m', h⟩ := h
      rcases List.mem_cons.mp h with e | h
      · have e' : l' = l := congrArg Prod.fst e
        subst e'
        exact Or.inr (fun j u nj hj hw => hg j u nj hj ⟨.W, hw⟩)
      · exact Or.inl ⟨m', h⟩
  | grantR i t l rest hi ht hg =>
    apply mutex_set hm hi
    · intro l' h
      rcases List.mem_cons.mp h with e | h
      · have e' : Mode.W = Mode.R := congrArg Prod.snd e
        cases e'
      · exact Or.inl h
    · intro l' h
      obtain ⟨m', h⟩ := h
      rcases List.mem_cons.mp h with e | h
      · have e' : l' = l := congrArg Prod.fst e
        subst e'
        exact Or.inr hg
      · exact Or.inl ⟨m', h⟩

theorem mutex_initial {s : State} (h : Initial s) : Mutex s := by
  intro i j t u l _ hi _ hw _
  have := (h t (List.mem_of_getElem? hi)).1
  unfold holdsW at hw
  rw [this] at hw
  cases hw

/-- C08 mutual exclusion: in every reachable state a write holder excludes every other holder. -/
theorem C08_mutex {s0 s : State} (h0 : Initial s0) (r : Reach s0 s) :
    ∀ (i j : Nat) (t u : Thread) (l : LockId), i ≠ j → s[i]? = some t → s[j]? = some u →
      holdsW t l → ¬ holds u l := by
  have : Mutex s := by
    induction r with
    | init => exact mutex_initial h0
    | step s s' _ st ih => exact mutex_step ih st
  exact this

theorem protectedPair_sound {a b : Access} (h : protectedPair a b = true) :
    ∃ c ma mb, (c, ma) ∈ a.held ∧ (c, mb) ∈ b.held ∧ (ma = Mode.W ∨ mb = Mode.W) := by
  unfold protectedPair at h
  obtain ⟨x, hx, h⟩ := List.any_eq_true.mp h
  obtain ⟨y, hy, h⟩ := List.any_eq_true.mp h
  simp only [Bool.and_eq_true, Bool.or_eq_true, beq_iff_eq] at h
  obtain ⟨hc, hm⟩ := h
  obtain ⟨c, ma⟩ := x
  obtain ⟨c', mb⟩ := y
  simp only at hc hm
  subst hc
  exact ⟨c, ma, mb, hx, hy, hm⟩

theorem covered_sound (as : List Access) (hc : covered as = true) (a b : Access)
    (ha : a ∈ as) (hb : b ∈ as) (hcf : conflicting a b = true) :
    ∃ c ma mb, (c, ma) ∈ a.held ∧ (c, mb) ∈ b.held ∧ (ma = Mode.W ∨ mb = Mode.W) := by
  unfold covered at hc
  have h1 := List.all_eq_true.mp hc a ha
  have h2 := List.all_eq_true.mp h1 b hb
  rw [hcf] at h2
  simp only [Bool.not_true, Bool.false_or] at h2
  exact protectedPair_sound h2

/-- C08 race freedom: two threads of a reachable state cannot be inside conflicting covered
    accesses (on the same object, i.e. the same lock instances) at once. -/
theorem C08_race_free {s0 s : State} (h0 : Initial s0) (r : Reach s0 s) (as : List Access)
    (hc : covered as = true) (a b : Access) (ha : a ∈ as) (hb : b ∈ as)
    (hcf : conflicting a b = true)
    (i j : Nat) (t u : Thread) (hij : i ≠ j) (hi : s[i]? = some t) (hj : s[j]? = some u)
    (inst : Nat → Nat)
    (hta : ∀ c m, (c, m) ∈ a.held → ((c, inst c), m) ∈ t.held)
    (hub : ∀ c m, (c, m) ∈ b.held → ((c, inst c), m) ∈ u.held) : False := by
  obtain ⟨c, ma, mb, hca, hcb, hm⟩ := covered_sound as hc a b ha hb hcf
  have h1 := hta c ma hca
  have h2 := hub c mb hcb
  rcases hm with e | e
  · subst e
    exact C08_mutex h0 r i j t u (c, inst c) hij hi hj h1 ⟨mb, h2⟩
  · subst e
    exact C08_mutex h0 r j i u t (c, inst c) (fun e => hij e.symm) hj hi h2 ⟨ma, h1⟩

/-! ### 7. the hypotheses matter: a deadlocked state outside the discipline -/

/-- the pinned release's `All` → `Iterator`: a reader re-acquires the read lock it already
    holds while a writer is queued -/
def stuck : State :=
  [ { todo := [.acq (0,0) .R, .rel (0,0) .R, .rel (0,0) .R], held := [((0,0), .R)], pend := false },
    { todo := [.acq (0,0) .W, .rel (0,0) .W], held := [], pend := true } ]

theorem stuck_get {i : Nat} {t : Thread} (h : stuck[i]? = some t) :
    (i = 0 ∧ t = { todo := [.acq (0,0) .R, .rel (0,0) .R, .rel (0,0) .R],
                   held := [((0,0), .R)], pend := false }) ∨
    (i = 1 ∧ t = { todo := [.acq (0,0) .W, .rel (0,0) .W], held := [], pend := true }) := by
  match i, h with
  | 0, h => left; exact ⟨rfl, (Option.some.inj h).symm⟩
  | 1, h => right; exact ⟨rfl, (Option.some.inj h).symm⟩
  | i + 2, h => simp [stuck] at h

theorem stuck_is_deadlocked : ¬ ∃ s', GStep stuck s' := by
  rintro ⟨s', g⟩
  generalize hs : stuck = s at g
  cases g with
  | release i t l m rest hi ht =>
    subst hs
    rcases stuck_get hi with ⟨_, rfl⟩ | ⟨_, rfl⟩ <;> simp at ht
  | announce i t l rest hi ht hp =>
    subst hs
    rcases stuck_get hi with ⟨_, rfl⟩ | ⟨_, rfl⟩
    · simp at ht
    · simp at hp
  | grantW i t l rest hi ht hp hg =>
    subst hs
    rcases stuck_get hi with ⟨_, rfl⟩ | ⟨rfl, rfl⟩
    · simp at hp
    · simp only [List.cons.injEq, Act.acq.injEq, and_true] at ht
      obtain ⟨rfl, _⟩ := ht
      exact hg 0 _ (by decide) rfl ⟨.R, by simp⟩
  | grantR i t l rest hi ht hg hq =>
    subst hs
    rcases stuck_get hi with ⟨rfl, rfl⟩ | ⟨_, rfl⟩
    · simp only [List.cons.injEq, Act.acq.injEq, and_true] at ht
      obtain ⟨rfl, _⟩ := ht
      exact hq 1 _ rfl ⟨rfl, _, rfl⟩
    · simp at ht

/-- the reader of `stuck` violates the discipline (re-acquires a lock it holds) -/
example : ¬ Disc [((0,0), Mode.R)] [.acq (0,0) .R, .rel (0,0) .R, .rel (0,0) .R] := by
  simp [Disc, rank]

/-- the other hypothesis matters too: the writer's `pend` is consistent, the reader is not `TOK` -/
example : ¬ ∀ t ∈ stuck, TOK t := by
  intro h
  have := (h _ (List.mem_cons_self)).disc
  simp [Disc, rank] at this

/-- non-vacuity: a concrete initial state (a reader of DB.l taking DB.sl, and a writer
    descending DB.l → objectStore → objectMap) -/
def demo : State :=
  [ { todo := [.acq (0,0) .R, .acq (3,0) .W, .rel (3,0) .W, .rel (0,0) .R] },
    { todo := [.acq (0,0) .W, .acq (1,0) .W, .acq (2,0) .W,
               .rel (2,0) .W, .rel (1,0) .W, .rel (0,0) .W] } ]

theorem demo_initial : Initial demo := by
  intro t ht
  simp only [demo, List.mem_cons, List.not_mem_nil, or_false] at ht
  rcases ht with rfl | rfl
  · exact ⟨rfl, rfl, (discB_iff _ _).mp (by decide)⟩
  · exact ⟨rfl, rfl, (discB_iff _ _).mp (by decide)⟩

/-- hence `demo` can always run to completion -/
example : ∃ s', GStar demo s' ∧ ∀ t ∈ s', t.todo = [] :=
  C09_all_return demo (tok_initial demo_initial)

end Sod.Lock

/-! ### from extracted step facts to the discipline of whole paths -/
namespace Sod.Lock

theorem disc_of_steps (held : Held) (p : List Act)
    (hs : ∀ st ∈ stepsOf held p, stepOK st = true) (hf : finalOf held p = []) : Disc held p := by
  induction p generalizing held with
  | nil => simpa [Disc, finalOf] using hf
  | cons a rest ih =>
    have h0 := hs (held, a) (by simp [stepsOf])
    have hrest : ∀ st ∈ stepsOf (after held a) rest, stepOK st = true :=
      fun st hst => hs st (by simp [stepsOf, hst])
    have hfin : finalOf (after held a) rest = [] := by simpa [finalOf] using hf
    cases a with
    | acq l m =>
      refine ⟨?_, ih _ hrest hfin⟩
      simpa [stepOK, List.all_eq_true] using h0
    | rel l m =>
      refine ⟨?_, ih _ hrest hfin⟩
      simpa [stepOK] using h0

/-- every path covered by the facts of an `ok` entry is disciplined -/
theorem disc_of_covered (e : EntryFacts) (he : e.ok = true) (p : List Act) (hc : e.covers p) : Disc [] p := by
  unfold EntryFacts.ok at he
  rw [Bool.and_eq_true, List.all_eq_true, List.all_eq_true] at he
  refine disc_of_steps [] p (fun st hst => he.1 st (hc.1 st hst)) ?_
  have := he.2 _ hc.2
  simpa using this

end Sod.Lock
