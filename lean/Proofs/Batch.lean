/-
  Batch.lean — `InsertOrUpdateMany` / `InsertOrUpdateBulk` (C07, with the batch parts of C06 and C15).

  * a batch refused by the validation phase leaves the state untouched and reports 0 (`many_rejected_frame`);
  * validation inserts/validates exactly `canon (transform o)` (`manyValidate_spec`) and guarantees that
    the validated objects do not conflict with each other (`manyValidate_no_intra_conflict`);
  * after validation the insertion loop cannot be refused (`manyInsert_all_ok`), hence a batch is
    all-or-nothing (`C07_many_atomic`);
  * `InsertOrUpdateBulk` applies whole chunks in order and stops at the first refused chunk (`C07_bulk`);
    the chunks partition the input (`chunks_concat`, `chunks_sizes`).

  Hypothesis added to the sketch: `SameShape (ObjIndex.new l.descs) l.index` — the temporary index of
  the validation phase and the live index have the same field positions / casts / constraints.  `Inv`
  does not tie `l.index` to `l.descs`, so this cannot be derived; it is preserved by every insert.

  The pairwise reading of "no intra-batch conflict" (two validated objects with different uuids differ
  on every unique field) is FALSE when a uuid is repeated in the batch: see `Counter7`.  The correct
  general statement is `NoIntra` (each member is conflict-free w.r.t. the LATEST value of every other
  uuid validated before it); the pairwise form holds under `Nodup` of the uuids
  (`manyValidate_pairwise`) and always implies `NoIntra` (`noIntra_of_pairwise`).
-/
import Proofs.Crud
namespace Sod

/-! ### 0. field shapes -/

/-- two indexes have the same fields (name, position, cast, constraints), whatever their content -/
def SameShape (a b : ObjIndex) : Prop :=
  a.fields.map (fun f => (f.name, f.pos, f.cast, f.cons)) = b.fields.map (fun f => (f.name, f.pos, f.cast, f.cons))

theorem SameShape.refl (a : ObjIndex) : SameShape a a := rfl
theorem SameShape.symm {a b : ObjIndex} (h : SameShape a b) : SameShape b a := Eq.symm h
theorem SameShape.trans {a b c : ObjIndex} (h : SameShape a b) (h' : SameShape b c) : SameShape a c :=
  Eq.trans h h'

theorem SameShape.mem {a b : ObjIndex} (h : SameShape a b) {fi : FieldIdx} (hfi : fi ∈ a.fields) :
    ∃ fj ∈ b.fields, fj.pos = fi.pos ∧ fj.cast = fi.cast ∧ fj.cons = fi.cons := by
  have hm : (fi.name, fi.pos, fi.cast, fi.cons) ∈ a.fields.map (fun f => (f.name, f.pos, f.cast, f.cons)) :=
    List.mem_map.mpr ⟨fi, hfi, rfl⟩
  unfold SameShape at h
  rw [h] at hm
  obtain ⟨fj, hfj, he⟩ := List.mem_map.mp hm
  simp only [Prod.mk.injEq] at he
  exact ⟨fj, hfj, he.2.1, he.2.2.1, he.2.2.2⟩

theorem SameShape.typed {a b : ObjIndex} (h : SameShape a b) {o : Obj} (ht : o.Typed a) : o.Typed b := by
  apply typed_of_fields _ ht
  intro fi' hfi'
  obtain ⟨fi, hfi, hp, hc, _⟩ := h.symm.mem hfi'
  exact ⟨fi, hfi, hp.symm, hc.symm⟩

theorem insertOrUpdate_shape {ix ix' : ObjIndex} {o : Obj} (hr : ix.insertOrUpdate o = .ok ix') :
    SameShape ix' ix := by
  obtain ⟨_, _, hc⟩ := insertOrUpdate_inv hr
  rcases hc with ⟨oid, _, rfl⟩ | ⟨_, rfl⟩
  · simp [SameShape, updIx, List.map_map, Function.comp_def]
  · simp [SameShape, insIx, List.map_map, Function.comp_def]

/-- `p` is the position of a unique field of the index -/
def UPos (ix : ObjIndex) (p : Nat) : Prop := ∃ fi ∈ ix.fields, fi.pos = p ∧ fi.cons.unique = true

theorem SameShape.upos {a b : ObjIndex} (h : SameShape a b) (p : Nat) : UPos a p ↔ UPos b p := by
  constructor
  · rintro ⟨fi, hfi, hp, hq⟩
    obtain ⟨fj, hfj, h1, _, h3⟩ := h.mem hfi
    exact ⟨fj, hfj, h1.trans hp, by rw [h3]; exact hq⟩
  · rintro ⟨fi, hfi, hp, hq⟩
    obtain ⟨fj, hfj, h1, _, h3⟩ := h.symm.mem hfi
    exact ⟨fj, hfj, h1.trans hp, by rw [h3]; exact hq⟩

/-! ### 1. what `satisfyAll` means on an index that reflects a store -/

/-- `o` does not collide, on a unique field, with an object of the store having another uuid -/
def Free (U : Nat → Prop) (objs : Nat → Option Obj) (o : Obj) : Prop :=
  ∀ p, U p → ∀ u o', objs u = some o' → o'.field p = o.field p → u = o.uuid

theorem satisfyAll_ok_iff {ix : ObjIndex} {objs : Nat → Option Obj} {o : Obj} {U : Nat → Prop}
    (hU : ∀ p, U p ↔ UPos ix p) (hw : ix.WF) (hrf : Reflects ix objs)
    (hd : ∀ u, u ∈ ix.uuids ↔ (objs u).isSome) (ht : o.Typed ix) :
    ix.satisfyAll o = .ok () ↔ Free U objs o := by
  constructor
  · intro hok p hp u o' hu hf
    obtain ⟨fi, hfi, rfl, hq⟩ := (hU p).mp hp
    apply Classical.byContradiction
    intro hne
    have hmem : u ∈ ix.uuids := (hd u).mpr (by rw [hu]; rfl)
    obtain ⟨oid, ho⟩ := oidOf_isSome_iff.mpr hmem
    have hid := oidOf_mem ho
    obtain ⟨v, hv, _⟩ := ht fi hfi
    have he : ((v, oid) : Entry) ∈ fi.idx := (hrf.2 fi hfi (v, oid)).mpr ⟨u, o', hid, hu, by rw [hf, hv]⟩
    have : ix.satisfyAll o = .err .unique :=
      (satisfyAll_unique_iff hw ht).mpr ⟨fi, hfi, hq, (v, oid), he, hv, by
        rw [uuidOf_of_mem hw.oidNodup hid]
        intro h; exact hne (Option.some.inj h)⟩
    rw [hok] at this
    cases this
  · intro hfree
    rcases satisfyAll_cases hw ht with h | h
    · exact h
    · obtain ⟨fi, hfi, hq, e, he, hf, hne⟩ := (satisfyAll_unique_iff hw ht).mp h
      obtain ⟨u, o', h1, h2, h3⟩ := (hrf.2 fi hfi e).mp he
      have := hfree fi.pos ((hU _).mpr ⟨fi, hfi, rfl, hq⟩) u o' h2 (by rw [h3, hf])
      rw [uuidOf_of_mem hw.oidNodup h1, this] at hne
      exact absurd rfl hne

/-- the index half of an invariant, for any index/store pair, after an accepted insert -/
theorem ixinv_insert {ix ix' : ObjIndex} {objs : Nat → Option Obj} {o : Obj}
    (hw : ix.WF) (hrf : Reflects ix objs) (hd : ∀ u, u ∈ ix.uuids ↔ (objs u).isSome)
    (ht : o.Typed ix) (hr : ix.insertOrUpdate o = .ok ix') :
    ix'.WF ∧ Reflects ix' (updView objs o.uuid (some o)) ∧
    (∀ u, u ∈ ix'.uuids ↔ (updView objs o.uuid (some o) u).isSome) := by
  refine ⟨insertOrUpdate_wf hw ht hr, insertOrUpdate_reflects hw ht hrf hr, ?_⟩
  intro u
  rw [insertOrUpdate_uuids hr, updView_apply]
  by_cases hu : u = o.uuid
  · rw [if_pos hu]
    simp only [Option.isSome_some, iff_true]
    split
    · rw [hu]; assumption
    · rw [hu]; simp
  · rw [if_neg hu, ← hd u]
    split
    · exact Iff.rfl
    · simp [hu]

/-- a store `T` laid over a store `v0` -/
def over (T v0 : Nat → Option Obj) : Nat → Option Obj :=
  fun u => match T u with | some o => some o | none => v0 u

theorem over_none (v0 : Nat → Option Obj) : over (fun _ => none) v0 = v0 := rfl

theorem updView_over (T v0 : Nat → Option Obj) (k : Nat) (o : Obj) :
    updView (over T v0) k (some o) = over (updView T k (some o)) v0 := by
  funext w
  unfold updView over
  by_cases h : w = k
  · simp [h]
  · simp [h]

theorem free_over {U : Nat → Prop} {T v0 : Nat → Option Obj} {o : Obj}
    (h1 : Free U T o) (h2 : Free U v0 o) : Free U (over T v0) o := by
  intro p hp u o' hu hf
  unfold over at hu
  cases hT : T u with
  | some a => rw [hT] at hu; exact h1 p hp u o' (by rw [hT]; exact hu) hf
  | none => rw [hT] at hu; exact h2 p hp u o' hu hf

/-- each member of the batch is conflict-free w.r.t. the latest value of every other uuid that
    precedes it in the batch (`T` = what precedes) -/
def NoIntra (U : Nat → Prop) : (Nat → Option Obj) → List Obj → Prop
  | _, [] => True
  | T, o :: os => Free U T o ∧ NoIntra U (updView T o.uuid (some o)) os

/-! ### 2. the validation loop -/

/-- what `InsertOrUpdateMany` validates and inserts for the input `o` -/
def vald (E : Env) (descs : List FieldDesc) (o : Obj) : Obj := E.canon descs (E.transform o)

theorem manyValidate_cons (E : Env) (l : Loaded) (tmp : ObjIndex) (o : Obj) (os : List Obj) :
    manyValidate E l tmp (o :: os) =
      if !E.validate (vald E l.descs o) then .err .invalid else
      if !E.serialisable (vald E l.descs o) then .err .other else
      match tmp.insertOrUpdate (vald E l.descs o) with
      | .err e => .err e
      | .panic => .panic
      | .ok tmp' =>
        match l.index.satisfyAll (vald E l.descs o) with
        | .err e => .err e
        | .panic => .panic
        | .ok () =>
          match manyValidate E l tmp' os with
          | .ok os' => .ok (vald E l.descs o :: os')
          | .err e => .err e
          | .panic => .panic := by
  rw [manyValidate]; rfl

theorem manyValidate_cons_ok {E : Env} {l : Loaded} {tmp : ObjIndex} {o : Obj} {os r : List Obj}
    (h : manyValidate E l tmp (o :: os) = .ok r) :
    ∃ tmp' r', r = vald E l.descs o :: r' ∧ E.validate (vald E l.descs o) = true ∧
      E.serialisable (vald E l.descs o) = true ∧ tmp.insertOrUpdate (vald E l.descs o) = .ok tmp' ∧
      l.index.satisfyAll (vald E l.descs o) = .ok () ∧ manyValidate E l tmp' os = .ok r' := by
  rw [manyValidate_cons] at h
  cases hv : E.validate (vald E l.descs o) with
  | false => simp [hv] at h
  | true =>
    cases hs : E.serialisable (vald E l.descs o) with
    | false => simp [hv, hs] at h
    | true =>
      simp only [hv, hs, Bool.not_true, Bool.false_eq_true, if_false] at h
      cases hi : tmp.insertOrUpdate (vald E l.descs o) with
      | err e => rw [hi] at h; cases h
      | panic => rw [hi] at h; cases h
      | ok tmp' =>
        rw [hi] at h
        simp only at h
        cases hu : l.index.satisfyAll (vald E l.descs o) with
        | err e => rw [hu] at h; cases h
        | panic => rw [hu] at h; cases h
        | ok u =>
          cases u
          rw [hu] at h
          simp only at h
          cases hm : manyValidate E l tmp' os with
          | err e => rw [hm] at h; cases h
          | panic => rw [hm] at h; cases h
          | ok r' =>
            rw [hm] at h
            simp only at h
            injection h with h
            exact ⟨tmp', r', h.symm, rfl, rfl, rfl, rfl, hm⟩

/-- C15 for batches: what is validated (and later inserted) is `canon (transform o)`, `Validate` is
    consulted on exactly that value, and it is checked against the live index as it is before the batch -/
theorem manyValidate_spec {E : Env} {l : Loaded} {tmp : ObjIndex} {os os' : List Obj}
    (h : manyValidate E l tmp os = .ok os') :
    os' = os.map (fun o => E.canon l.descs (E.transform o)) ∧
    (∀ o ∈ os', E.validate o = true ∧ E.serialisable o = true ∧ l.index.satisfyAll o = .ok ()) := by
  induction os generalizing tmp os' with
  | nil =>
    rw [manyValidate] at h
    injection h with h
    subst h
    exact ⟨rfl, fun o ho => by cases ho⟩
  | cons o os ih =>
    obtain ⟨tmp', r', rfl, hv, hs, _, hu, hm⟩ := manyValidate_cons_ok h
    obtain ⟨h1, h2⟩ := ih hm
    refine ⟨by rw [h1]; rfl, ?_⟩
    intro x hx
    rcases List.mem_cons.mp hx with rfl | hx
    · exact ⟨hv, hs, hu⟩
    · exact h2 x hx

/-- typed inputs never make the validation loop panic -/
theorem manyValidate_ne_panic {E : Env} {l : Loaded} (hl : l.index.WF) :
    ∀ (os : List Obj) (tmp : ObjIndex), tmp.WF →
      (∀ o ∈ os, (vald E l.descs o).Typed tmp ∧ (vald E l.descs o).Typed l.index) →
      manyValidate E l tmp os ≠ .panic := by
  intro os
  induction os with
  | nil => intro tmp _ _ h; rw [manyValidate] at h; cases h
  | cons o os ih =>
    intro tmp hw ht h
    obtain ⟨ht1, ht2⟩ := ht o List.mem_cons_self
    rw [manyValidate_cons] at h
    cases hv : E.validate (vald E l.descs o) with
    | false => simp [hv] at h
    | true =>
      cases hs : E.serialisable (vald E l.descs o) with
      | false => simp [hv, hs] at h
      | true =>
        simp only [hv, hs, Bool.not_true, Bool.false_eq_true, if_false] at h
        rcases insertOrUpdate_total hw ht1 with ⟨tmp', hi⟩ | hi
        · rw [hi] at h
          simp only at h
          rcases satisfyAll_cases hl ht2 with hu | hu
          · rw [hu] at h
            simp only at h
            have := ih tmp' (insertOrUpdate_wf hw ht1 hi)
              (fun x hx => ⟨insertOrUpdate_typed hi (ht x (List.mem_cons_of_mem _ hx)).1,
                (ht x (List.mem_cons_of_mem _ hx)).2⟩)
            cases hm : manyValidate E l tmp' os with
            | ok r => rw [hm] at h; cases h
            | err e => rw [hm] at h; cases h
            | panic => exact this hm
          · rw [hu] at h; cases h
        · rw [hi] at h; cases h

/-- the "temporary index" part of validation: the validated objects do not conflict with each other -/
theorem manyValidate_no_intra_conflict {E : Env} {l : Loaded} {U : Nat → Prop} :
    ∀ (os : List Obj) (tmp : ObjIndex) (T : Nat → Option Obj) (os' : List Obj),
      (∀ p, U p ↔ UPos tmp p) → tmp.WF → Reflects tmp T → (∀ u, u ∈ tmp.uuids ↔ (T u).isSome) →
      (∀ o ∈ os, (vald E l.descs o).Typed tmp) →
      manyValidate E l tmp os = .ok os' → NoIntra U T os' := by
  intro os
  induction os with
  | nil =>
    intro tmp T os' _ _ _ _ _ h
    rw [manyValidate] at h
    injection h with h
    subst h
    trivial
  | cons o os ih =>
    intro tmp T os' hU hw hrf hd ht h
    obtain ⟨tmp', r', rfl, _, _, hi, _, hm⟩ := manyValidate_cons_ok h
    have hto := ht o List.mem_cons_self
    obtain ⟨hsat, _, _⟩ := insertOrUpdate_inv hi
    obtain ⟨hw', hrf', hd'⟩ := ixinv_insert hw hrf hd hto hi
    refine ⟨(satisfyAll_ok_iff hU hw hrf hd hto).mp hsat, ?_⟩
    apply ih tmp' _ r' _ hw' hrf' hd' _ hm
    · intro p
      rw [hU p]
      exact ((insertOrUpdate_shape hi).upos p).symm
    · intro x hx
      exact insertOrUpdate_typed hi (ht x (List.mem_cons_of_mem _ hx))

/-! ### 3. `Coll.many` in terms of its validation phase; frame on rejection -/

/-- the `checked` value computed inside `Coll.many` -/
def manyChecked (E : Env) (l : Loaded) (os : List Obj) (w : Option (Nat × Bool)) : Res (List Obj) :=
  match w with
  | none => manyValidate E l (ObjIndex.new l.descs) os
  | some (k, identified) =>
    match manyValidate E l (ObjIndex.new l.descs) (os.take k) with
    | .ok _ => if identified then .err .wrongType else .err .notFound
    | r => r

theorem many_eq {E : Env} {c : Coll} {l : Loaded} (h : Inv c l) (os : List Obj) (w : Option (Nat × Bool)) :
    c.many E os w =
      if os.isEmpty then (c, 0, .ok ()) else
      if (w.map (·.1)) == some 0 then (c, 0, .err .notFound) else
      match manyChecked E l os w with
      | .err e => (c, 0, .err e)
      | .panic => (c, 0, .panic)
      | .ok os' =>
        match Coll.manyInsert E c l os' 0 with
        | (c', l', n, e) => (c'.commit l', n, match e with | none => .ok () | some e => .err e) := by
  unfold Coll.many
  rw [schema_of_inv h]
  rfl

/-- a batch refused by validation: state untouched, count 0 -/
theorem many_checked_err {E : Env} {c : Coll} {l : Loaded} (h : Inv c l) (os : List Obj)
    (w : Option (Nat × Bool)) (e : Err) (hne : os ≠ []) (hw : w.map (·.1) ≠ some 0)
    (hc : manyChecked E l os w = .err e) : c.many E os w = (c, 0, .err e) := by
  rw [many_eq h]
  have h1 : os.isEmpty = false := by cases os with | nil => exact absurd rfl hne | cons _ _ => rfl
  have h2 : ((w.map (·.1)) == some 0) = false := by simpa using hw
  simp only [h1, h2, hc, Bool.false_eq_true, if_false]

/-- `manyChecked … = .err e → c.many E os w = (c, 0, .err e)` is false for the empty batch (which is
    accepted before anything is looked at), hence `hne` above; and when the first object is the foreign
    one (`hw`) the answer is `notFound` whatever `checked` would be. -/
theorem many_checked_err_counterexample :
    ∃ (E : Env) (c : Coll) (l : Loaded) (w : Option (Nat × Bool)) (e : Err), Inv c l ∧
      manyChecked E l [] w = .err e ∧ c.many E [] w ≠ (c, 0, .err e) := by
  refine ⟨Counter.E0, Counter.c0, Counter.l0, some (1, true), .wrongType, Counter.inv0, rfl, ?_⟩
  intro h
  have h2 : (Counter.c0.many Counter.E0 [] (some (1, true))).2.2 = .err .wrongType := by rw [h]
  cases h2

set_option linter.unusedVariables false in
/-- C06/C07: a batch whose error comes from the validation phase leaves no trace and reports 0 -/
theorem many_rejected_frame {E : Env} {c : Coll} {l : Loaded} (h : Inv' c l) (os : List Obj)
    (w : Option (Nat × Bool)) (e : Err) (hr : (c.many E os w).2.2 = Res.err e)
    (hv : w.map (·.1) = some 0 ∨ ∃ e', manyChecked E l os w = .err e') :
    (c.many E os w).1 = c ∧ (c.many E os w).2.1 = 0 := by
  rw [many_eq h.toInv]
  cases h1 : os.isEmpty with
  | true => simp
  | false =>
    simp only [Bool.false_eq_true, if_false]
    rcases hv with hv | ⟨e', hv⟩
    · simp [hv]
    · split
      · exact ⟨rfl, rfl⟩
      · rw [hv]; exact ⟨rfl, rfl⟩

/-- an accepted `checked` can only come from a batch without foreign object -/
theorem manyChecked_ok {E : Env} {l : Loaded} {os os' : List Obj} {w : Option (Nat × Bool)}
    (h : manyChecked E l os w = .ok os') : manyValidate E l (ObjIndex.new l.descs) os = .ok os' := by
  unfold manyChecked at h
  cases w with
  | none => exact h
  | some p =>
    obtain ⟨k, b⟩ := p
    simp only at h
    cases hm : manyValidate E l (ObjIndex.new l.descs) (os.take k) with
    | ok r => rw [hm] at h; cases b <;> simp at h
    | err e => rw [hm] at h; cases h
    | panic => rw [hm] at h; cases h

theorem manyChecked_ne_panic {E : Env} {l : Loaded} (hl : l.index.WF) (os : List Obj) (w : Option (Nat × Bool))
    (ht : ∀ o ∈ os, (vald E l.descs o).Typed (ObjIndex.new l.descs) ∧ (vald E l.descs o).Typed l.index) :
    manyChecked E l os w ≠ .panic := by
  unfold manyChecked
  cases w with
  | none => exact manyValidate_ne_panic hl os _ (new_wf _) ht
  | some p =>
    obtain ⟨k, b⟩ := p
    simp only
    have := manyValidate_ne_panic (E := E) hl (os.take k) _ (new_wf l.descs)
      (fun o ho => ht o (List.mem_of_mem_take ho))
    cases hm : manyValidate E l (ObjIndex.new l.descs) (os.take k) with
    | ok r => cases b <;> simp
    | err e => simp
    | panic => exact absurd hm this

/-! ### 4. the insertion loop cannot be refused after validation -/

theorem foldl_upd_over (os : List Obj) (T v0 : Nat → Option Obj) :
    os.foldl (fun v o => updView v o.uuid (some o)) (over T v0) =
      over (os.foldl (fun v o => updView v o.uuid (some o)) T) v0 := by
  induction os generalizing T with
  | nil => rfl
  | cons o os ih => rw [List.foldl_cons, List.foldl_cons, updView_over, ih]

/-- loop invariant of the insertion phase.  `v0` is the store as it was before the batch, `T` the
    latest values written by the members already inserted: the current store is `T` over `v0`.  A
    remaining member is conflict-free w.r.t. `v0` (validation against the live index before the
    batch) and w.r.t. `T` (validation against the temporary index), hence w.r.t. the current store. -/
theorem manyInsert_core {E : Env} (U : Nat → Prop) (v0 : Nat → Option Obj) :
    ∀ (os' : List Obj) (T : Nat → Option Obj) (c : Coll) (l : Loaded) (n : Nat),
      Inv' c l → (∀ p, U p ↔ UPos l.index p) → c.view = over T v0 →
      (∀ o ∈ os', o.Typed l.index ∧ E.serialisable o = true ∧ Free U v0 o) →
      NoIntra U T os' →
      ∃ c' l', Coll.manyInsert E c l os' n = (c', l', n + os'.length, none) ∧ Inv' c' l' ∧
        c'.view = os'.foldl (fun v o => updView v o.uuid (some o)) c.view ∧
        l'.settings = l.settings ∧ l'.descs = l.descs ∧ SameShape l'.index l.index := by
  intro os'
  induction os' with
  | nil =>
    intro T c l n h _ _ _ _
    exact ⟨c, l, rfl, h, rfl, rfl, rfl, SameShape.refl _⟩
  | cons o os ih =>
    intro T c l n h hU hview hall hni
    obtain ⟨hfT, hrest⟩ := hni
    obtain ⟨hto, hso, hf0⟩ := hall o List.mem_cons_self
    have hfree : Free U c.view o := by rw [hview]; exact free_over hfT hf0
    have hu : l.index.satisfyAll o = .ok () := (satisfyAll_ok_iff hU h.wf h.refl h.dom hto).mpr hfree
    obtain ⟨ix', hr⟩ : ∃ ix', l.index.insertOrUpdate o = .ok ix' := ⟨_, insertOrUpdate_of_ok hto.hasVal hu⟩
    have heq := insertCore_eq (E := E) (c := c) false hso hu hr
    obtain ⟨c1, l1, h1, hi1, hv1, _, _⟩ := insertCore_accept' (E := E) false h hto hso hu
    obtain ⟨_, hl⟩ := Prod.mk.inj (heq.symm.trans h1)
    have hl1 : l1 = { l with index := ix' } := (Res.ok.inj hl).symm
    subst hl1
    have hsh : SameShape ix' l.index := insertOrUpdate_shape hr
    obtain ⟨c', l', e1, e2, e3, e4, e5, e6⟩ := ih (updView T o.uuid (some o)) c1 { l with index := ix' } (n + 1) hi1
      (fun p => by rw [hU p]; exact (hsh.upos p).symm)
      (by rw [hv1, hview, updView_over])
      (fun x hx => by
        obtain ⟨a, b, d⟩ := hall x (List.mem_cons_of_mem _ hx)
        exact ⟨insertOrUpdate_typed hr a, b, d⟩)
      hrest
    refine ⟨c', l', ?_, e2, ?_, e4, e5, e6.trans hsh⟩
    · rw [Coll.manyInsert, h1]
      simp only
      rw [e1, List.length_cons]
      congr 3
      omega
    · rw [e3, hv1, List.foldl_cons]

/-- Statement 3.  Hypotheses on the validated batch `os'`: typed, serialisable, accepted by the live
    index as it is before the batch, and `NoIntra` (what `manyValidate_no_intra_conflict` gives for the
    temporary index, whose unique positions are those of the live index by `SameShape`).  Repeated
    uuids are allowed; "uuids nonzero" is not needed (the model's `insertCore` never looks at it). -/
theorem manyInsert_all_ok {E : Env} {c : Coll} {l : Loaded} (h : Inv' c l) (os' : List Obj)
    (ht : ∀ o ∈ os', o.Typed l.index) (hs : ∀ o ∈ os', E.serialisable o = true)
    (hlive : ∀ o ∈ os', l.index.satisfyAll o = .ok ())
    (hintra : NoIntra (UPos l.index) (fun _ => none) os') :
    ∃ c' l', Coll.manyInsert E c l os' 0 = (c', l', os'.length, none) ∧ Inv' c' l' ∧
      c'.view = os'.foldl (fun v o => updView v o.uuid (some o)) c.view ∧
      l'.settings = l.settings ∧ l'.descs = l.descs ∧ SameShape l'.index l.index := by
  have := manyInsert_core (E := E) (UPos l.index) c.view os' (fun _ => none) c l 0 h (fun _ => Iff.rfl)
    (over_none _).symm
    (fun o ho => ⟨ht o ho, hs o ho,
      (satisfyAll_ok_iff (fun _ => Iff.rfl) h.wf h.refl h.dom (ht o ho)).mp (hlive o ho)⟩) hintra
  rwa [Nat.zero_add] at this

/-! #### the pairwise reading of "no intra-batch conflict" -/

/-- two members with different uuids differ on every unique field -/
def PairFree (U : Nat → Prop) (a b : Obj) : Prop := a.uuid ≠ b.uuid → ∀ p, U p → a.field p ≠ b.field p

theorem noIntra_of_pairwise {U : Nat → Prop} : ∀ (os : List Obj) (T : Nat → Option Obj),
    (∀ u a, T u = some a → a.uuid = u ∧ ∀ b ∈ os, PairFree U a b) → os.Pairwise (PairFree U) →
    NoIntra U T os := by
  intro os
  induction os with
  | nil => intro _ _ _; trivial
  | cons o os ih =>
    intro T hT hp
    obtain ⟨hhead, htail⟩ := List.pairwise_cons.mp hp
    refine ⟨?_, ih _ ?_ htail⟩
    · intro p hp u a hu hf
      apply Classical.byContradiction
      intro hne
      obtain ⟨h1, h2⟩ := hT u a hu
      exact h2 o List.mem_cons_self (by rw [h1]; exact hne) p hp hf
    · intro u a hu
      rw [updView_apply] at hu
      by_cases hk : u = o.uuid
      · rw [if_pos hk] at hu
        injection hu with hu
        subst hu
        exact ⟨hk.symm, hhead⟩
      · rw [if_neg hk] at hu
        obtain ⟨h1, h2⟩ := hT u a hu
        exact ⟨h1, fun b hb => h2 b (List.mem_cons_of_mem _ hb)⟩

theorem noIntra_mem {U : Nat → Prop} : ∀ (os : List Obj) (T : Nat → Option Obj) (u : Nat) (a : Obj),
    NoIntra U T os → T u = some a → u ∉ os.map (·.uuid) → ∀ b ∈ os, ∀ p, U p → a.field p ≠ b.field p := by
  intro os
  induction os with
  | nil => intro _ _ _ _ _ _ b hb; cases hb
  | cons o os ih =>
    intro T u a hni hu hnot b hb p hp hf
    obtain ⟨h1, h2⟩ := hni
    rw [List.map_cons, List.mem_cons, not_or] at hnot
    rcases List.mem_cons.mp hb with rfl | hb
    · exact hnot.1 (h1 p hp u a hu hf)
    · exact ih (updView T o.uuid (some o)) u a h2 (by rw [updView_apply, if_neg hnot.1]; exact hu) hnot.2 b hb p hp hf

/-- without repeated uuid, `NoIntra` is the pairwise statement -/
theorem pairwise_of_noIntra {U : Nat → Prop} : ∀ (os : List Obj) (T : Nat → Option Obj),
    NoIntra U T os → (os.map (·.uuid)).Nodup → os.Pairwise (fun a b => ∀ p, U p → a.field p ≠ b.field p) := by
  intro os
  induction os with
  | nil => intro _ _ _; exact List.Pairwise.nil
  | cons o os ih =>
    intro T hni hnd
    obtain ⟨_, h2⟩ := hni
    rw [List.map_cons, List.nodup_cons] at hnd
    refine List.pairwise_cons.mpr ⟨?_, ih _ h2 hnd.2⟩
    intro b hb p hp
    exact noIntra_mem os _ o.uuid o h2 (by rw [updView_apply, if_pos rfl]) hnd.1 b hb p hp

/-- Statement 2, pairwise form, under `Nodup` (false without it: `Counter7`) -/
theorem manyValidate_pairwise {E : Env} {l : Loaded} {os os' : List Obj}
    (ht : ∀ o ∈ os, (vald E l.descs o).Typed (ObjIndex.new l.descs))
    (h : manyValidate E l (ObjIndex.new l.descs) os = .ok os') (hnd : (os'.map (·.uuid)).Nodup) :
    os'.Pairwise (fun a b => ∀ p, UPos (ObjIndex.new l.descs) p → a.field p ≠ b.field p) :=
  pairwise_of_noIntra os' _
    (manyValidate_no_intra_conflict os _ (fun _ => none) os' (fun _ => Iff.rfl) (new_wf _) (new_reflects _)
      (fun u => by simp [ObjIndex.uuids, ObjIndex.new]) ht h) hnd

/-- Statement 3 with the pairwise hypothesis of the sketch -/
theorem manyInsert_all_ok_of_pairwise {E : Env} {c : Coll} {l : Loaded} (h : Inv' c l) (os' : List Obj)
    (ht : ∀ o ∈ os', o.Typed l.index) (hs : ∀ o ∈ os', E.serialisable o = true)
    (hlive : ∀ o ∈ os', l.index.satisfyAll o = .ok ())
    (hpair : os'.Pairwise (PairFree (UPos l.index))) :
    ∃ c' l', Coll.manyInsert E c l os' 0 = (c', l', os'.length, none) ∧ Inv' c' l' ∧
      c'.view = os'.foldl (fun v o => updView v o.uuid (some o)) c.view ∧
      l'.settings = l.settings ∧ l'.descs = l.descs ∧ SameShape l'.index l.index :=
  manyInsert_all_ok h os' ht hs hlive
    (noIntra_of_pairwise os' _ (fun u a hu => by cases hu) hpair)

/-! ### 5. a batch is all-or-nothing -/

/-- the validated batch: `canon (transform o)` for every input -/
def validated (E : Env) (descs : List FieldDesc) (os : List Obj) : List Obj := os.map (vald E descs)

/-- validation accepted the batch: the insertion phase applies it entirely -/
theorem many_validated {E : Env} {c : Coll} {l : Loaded} (h : Inv' c l) (os os' : List Obj)
    (ht : ∀ o ∈ os, (vald E l.descs o).Typed l.index)
    (hsh : SameShape (ObjIndex.new l.descs) l.index)
    (hm : manyValidate E l (ObjIndex.new l.descs) os = .ok os') :
    os' = validated E l.descs os ∧
    ∃ c' l', Coll.manyInsert E c l os' 0 = (c', l', os.length, none) ∧ Inv' c' l' ∧
      c'.view = os'.foldl (fun v o => updView v o.uuid (some o)) c.view ∧
      l'.settings = l.settings ∧ l'.descs = l.descs ∧ SameShape l'.index l.index := by
  obtain ⟨hos', hval⟩ := manyValidate_spec hm
  have hmem : ∀ x ∈ os', ∃ o ∈ os, x = vald E l.descs o := by
    intro x hx
    rw [hos'] at hx
    obtain ⟨o, ho, rfl⟩ := List.mem_map.mp hx
    exact ⟨o, ho, rfl⟩
  have hni : NoIntra (UPos l.index) (fun _ => none) os' :=
    manyValidate_no_intra_conflict os _ (fun _ => none) os' (fun p => (hsh.upos p).symm) (new_wf _)
      (new_reflects _) (fun u => by simp [ObjIndex.uuids, ObjIndex.new])
      (fun o ho => hsh.symm.typed (ht o ho)) hm
  have hlen : os'.length = os.length := by rw [hos', List.length_map]
  have := manyInsert_all_ok (E := E) h os'
    (fun x hx => by obtain ⟨o, ho, rfl⟩ := hmem x hx; exact ht o ho)
    (fun x hx => (hval x hx).2.1) (fun x hx => (hval x hx).2.2) hni
  rw [hlen] at this
  exact ⟨hos', this⟩

/-- C07 for `InsertOrUpdateMany`: either nothing is applied (state unchanged, count 0, an error), or
    every object is (count = size of the batch, no error), the state being the fold of the validated
    objects over the previous one. -/
theorem C07_many_atomic {E : Env} {c : Coll} {l : Loaded} (h : Inv' c l) (os : List Obj)
    (w : Option (Nat × Bool)) (ht : ∀ o ∈ os, (vald E l.descs o).Typed l.index)
    (hsh : SameShape (ObjIndex.new l.descs) l.index) :
    (∃ e, c.many E os w = (c, 0, .err e)) ∨
    (∃ c' l', c.many E os w = (c', os.length, .ok ()) ∧ Inv' c' l' ∧
      c'.view = (validated E l.descs os).foldl (fun v o => updView v o.uuid (some o)) c.view ∧
      l'.settings = l.settings ∧ l'.descs = l.descs ∧ SameShape l'.index l.index) := by
  rw [many_eq h.toInv]
  cases os with
  | nil => exact Or.inr ⟨c, l, rfl, h, rfl, rfl, rfl, SameShape.refl _⟩
  | cons o0 os0 =>
    simp only [List.isEmpty_cons, Bool.false_eq_true, if_false]
    split
    · exact Or.inl ⟨_, rfl⟩
    · cases hc : manyChecked E l (o0 :: os0) w with
      | err e => exact Or.inl ⟨e, rfl⟩
      | panic =>
        exact absurd hc (manyChecked_ne_panic h.wf _ w (fun o ho => ⟨hsh.symm.typed (ht o ho), ht o ho⟩))
      | ok os' =>
        obtain ⟨hos', c1, l1, e1, e2, e3, e4, e5, e6⟩ := many_validated h (o0 :: os0) os' ht hsh (manyChecked_ok hc)
        right
        refine ⟨c1.commit l1, l1, ?_, ?_, ?_, e4, e5, e6⟩
        · simp only [e1]
        · exact e2.congr (commit_mem _ _) (commit_files _ _) (commit_pending _ _) (commit_cache _ _)
        · rw [view_congr (commit_pending _ _) (commit_files _ _), e3, hos']

/-- corollary: whenever `InsertOrUpdateMany` answers an error, nothing was applied -/
theorem C07_many_err_frame {E : Env} {c : Coll} {l : Loaded} (h : Inv' c l) (os : List Obj)
    (w : Option (Nat × Bool)) (ht : ∀ o ∈ os, (vald E l.descs o).Typed l.index)
    (hsh : SameShape (ObjIndex.new l.descs) l.index) (e : Err) (hr : (c.many E os w).2.2 = .err e) :
    c.many E os w = (c, 0, .err e) := by
  rcases C07_many_atomic (E := E) h os w ht hsh with ⟨e', he⟩ | ⟨c', l', he, _⟩
  · rw [he] at hr ⊢
    injection hr with hr
    rw [hr]
  · rw [he] at hr; cases hr

/-! ### 6. chunks -/

theorem chunks_go_concat (k : Nat) : ∀ (fuel : Nat) (os : List Obj), (chunks.go k fuel os).flatten = os := by
  intro fuel
  induction fuel with
  | zero => intro os; simp [chunks.go]
  | succ f ih =>
    intro os
    rw [chunks.go]
    split
    · simp
    · rw [List.flatten_cons, ih, List.take_append_drop]

/-- the chunks partition the input, in order -/
theorem chunks_concat (k : Nat) (os : List Obj) : (chunks k os).flatten = os := by
  unfold chunks
  split
  · simp
  · exact chunks_go_concat k _ os

theorem chunks_go_sizes (k : Nat) (hk : 0 < k) : ∀ (fuel : Nat) (os : List Obj), os.length ≤ fuel →
    ∃ init last, chunks.go k fuel os = init ++ [last] ∧ (∀ ch ∈ init, ch.length = k) ∧ last.length < k := by
  intro fuel
  induction fuel with
  | zero =>
    intro os hl
    refine ⟨[], os, by simp [chunks.go], (fun ch hch => by cases hch), by omega⟩
  | succ f ih =>
    intro os hl
    rw [chunks.go]
    split
    · rename_i hlt
      exact ⟨[], os, rfl, (fun ch hch => by cases hch), hlt⟩
    · rename_i hge
      obtain ⟨init, last, h1, h2, h3⟩ := ih (os.drop k) (by rw [List.length_drop]; omega)
      refine ⟨os.take k :: init, last, by rw [h1]; rfl, ?_, h3⟩
      intro ch hch
      rcases List.mem_cons.mp hch with rfl | hch
      · rw [List.length_take]; omega
      · exact h2 ch hch

/-- every chunk but the last has `k` elements; the last one (always there, possibly empty) has fewer -/
theorem chunks_sizes (k : Nat) (hk : 0 < k) (os : List Obj) :
    ∃ init last, chunks k os = init ++ [last] ∧ (∀ ch ∈ init, ch.length = k) ∧ last.length < k := by
  unfold chunks
  rw [if_neg (by omega)]
  exact chunks_go_sizes k hk _ os (Nat.le_refl _)

/-- `k = 0`: a single chunk (the Go loop never fills one) -/
theorem chunks_zero (os : List Obj) : chunks 0 os = [os] := by
  unfold chunks; simp

/-! ### 7. `InsertOrUpdateBulk` -/

/-- chunks in order, whole chunks only, stop at the first chunk that is not accepted -/
def bulkSpec (E : Env) : Coll → List (List Obj) → Coll × Nat × Res Unit
  | c, [] => (c, 0, .ok ())
  | c, ch :: rest =>
    match Coll.many E c ch with
    | (c', m, .ok ()) => ((bulkSpec E c' rest).1, m + (bulkSpec E c' rest).2.1, (bulkSpec E c' rest).2.2)
    | (c', m, r) => (c', m, r)

theorem bulk_go_eq (E : Env) : ∀ (chs : List (List Obj)) (c : Coll) (n : Nat),
    Coll.bulk.go E c n chs = ((bulkSpec E c chs).1, n + (bulkSpec E c chs).2.1, (bulkSpec E c chs).2.2) := by
  intro chs
  induction chs with
  | nil => intro c n; rfl
  | cons ch rest ih =>
    intro c n
    rw [Coll.bulk.go, bulkSpec]
    rcases hm : Coll.many E c ch with ⟨c', m, r⟩
    cases r with
    | ok u => cases u; simp only [ih, Nat.add_assoc]
    | err e => rfl
    | panic => rfl

theorem bulk_eq_bulkSpec (E : Env) (c : Coll) (os : List Obj) (k : Nat) :
    Coll.bulk E c os k = bulkSpec E c (chunks k os) := by
  unfold Coll.bulk
  rw [bulk_go_eq]
  simp

/-- C07 over a list of chunks: a prefix `done` of the chunks is applied entirely, the count is its
    total size, and either every chunk was applied, or the first chunk after `done` is refused as a
    whole (state unchanged by it) and its error is the answer. -/
theorem bulkSpec_atomic {E : Env} : ∀ (chs : List (List Obj)) (c : Coll) (l : Loaded), Inv' c l →
    SameShape (ObjIndex.new l.descs) l.index →
    (∀ ch ∈ chs, ∀ o ∈ ch, (vald E l.descs o).Typed l.index) →
    ∃ (done rest : List (List Obj)) (c' : Coll) (l' : Loaded) (r : Res Unit),
      chs = done ++ rest ∧ bulkSpec E c chs = (c', done.flatten.length, r) ∧ Inv' c' l' ∧
      c'.view = (validated E l.descs done.flatten).foldl (fun v o => updView v o.uuid (some o)) c.view ∧
      ((rest = [] ∧ r = .ok ()) ∨
       (∃ ch rest' e, rest = ch :: rest' ∧ r = .err e ∧ Coll.many E c' ch = (c', 0, .err e))) := by
  intro chs
  induction chs with
  | nil =>
    intro c l h _ _
    exact ⟨[], [], c, l, .ok (), rfl, rfl, h, rfl, Or.inl ⟨rfl, rfl⟩⟩
  | cons ch chs ih =>
    intro c l h hsh ht
    rcases C07_many_atomic (E := E) h ch none (ht ch List.mem_cons_self) hsh with ⟨e, he⟩ | ⟨c1, l1, he, hi1, hv1, _, hd1, hs1⟩
    · refine ⟨[], ch :: chs, c, l, .err e, rfl, ?_, h, rfl, Or.inr ⟨ch, chs, e, rfl, rfl, he⟩⟩
      rw [bulkSpec, he]
      rfl
    · have hsh1 : SameShape (ObjIndex.new l1.descs) l1.index := by
        rw [hd1]; exact hsh.trans hs1.symm
      obtain ⟨done, rest, c', l', r, g1, g2, g3, g4, g5⟩ := ih c1 l1 hi1 hsh1
        (fun ch' hch' o ho => by
          rw [hd1]; exact hs1.symm.typed (ht ch' (List.mem_cons_of_mem _ hch') o ho))
      refine ⟨ch :: done, rest, c', l', r, by rw [g1]; rfl, ?_, g3, ?_, g5⟩
      · rw [bulkSpec, he]
        simp only [g2, List.flatten_cons, List.length_append]
      · rw [g4, hv1, hd1]
        simp only [validated, List.flatten_cons, List.map_append, List.foldl_append]

/-- C07 for `InsertOrUpdateBulk` -/
theorem C07_bulk {E : Env} {c : Coll} {l : Loaded} (h : Inv' c l) (os : List Obj) (k : Nat)
    (ht : ∀ o ∈ os, (vald E l.descs o).Typed l.index)
    (hsh : SameShape (ObjIndex.new l.descs) l.index) :
    ∃ (done rest : List (List Obj)) (c' : Coll) (l' : Loaded) (r : Res Unit),
      chunks k os = done ++ rest ∧ done.flatten ++ rest.flatten = os ∧
      Coll.bulk E c os k = (c', done.flatten.length, r) ∧ Inv' c' l' ∧
      c'.view = (validated E l.descs done.flatten).foldl (fun v o => updView v o.uuid (some o)) c.view ∧
      ((rest = [] ∧ r = .ok ()) ∨
       (∃ ch rest' e, rest = ch :: rest' ∧ r = .err e ∧ Coll.many E c' ch = (c', 0, .err e))) := by
  obtain ⟨done, rest, c', l', r, g1, g2, g3, g4, g5⟩ := bulkSpec_atomic (E := E) (chunks k os) c l h hsh
    (fun ch hch o ho => ht o (by
      rw [← chunks_concat k os]
      exact List.mem_flatten.mpr ⟨ch, hch, ho⟩))
  refine ⟨done, rest, c', l', r, g1, ?_, by rw [bulk_eq_bulkSpec]; exact g2, g3, g4, g5⟩
  rw [← List.flatten_append, ← g1, chunks_concat]

/-! ### 8. why the pairwise form of "no intra-batch conflict" needs `Nodup`

  One unique string field.  Batch `[a, a', b]`: `a` and `a'` are the same object (uuid 1) with values
  "\x01" then "\x02"; `b` (uuid 2) has value "\x01".  When `b` is validated the temporary index holds
  the LATEST value of uuid 1 ("\x02"), so `b` is accepted — yet `a` and `b` have different uuids and the
  same value on the unique field.  (The batch is nevertheless applied entirely, and legitimately so:
  when `b` is inserted the live index also holds "\x02" for uuid 1.  This is what `NoIntra` captures.) -/

namespace Counter7

def descs : List FieldDesc := [{ path := "F", type := "string", cast := some .str, cons := { unique := true } }]
def l0 : Loaded := { descs := descs, settings := {}, index := ObjIndex.new descs }
def E0 : Env := { up := id, lo := id, transform := id, validate := fun _ => true, compile := fun _ => none,
                  serialisable := fun _ => true }
def a  : Obj := { uuid := 1, shape := "", vals := [.v (.str [1])] }
def a' : Obj := { uuid := 1, shape := "", vals := [.v (.str [2])] }
def b  : Obj := { uuid := 2, shape := "", vals := [.v (.str [1])] }

theorem accepted : manyValidate E0 l0 (ObjIndex.new l0.descs) [a, a', b] = .ok [a, a', b] := by decide +kernel

theorem fields_eq : (ObjIndex.new l0.descs).fields =
    [{ name := "F", pos := 0, cast := .str, cons := { unique := true }, idx := [] }] := rfl

theorem typed : ∀ o ∈ [a, a', b], (vald E0 l0.descs o).Typed (ObjIndex.new l0.descs) := by
  intro o ho fi hfi
  rw [fields_eq, List.mem_singleton] at hfi
  subst hfi
  simp only [List.mem_cons, List.not_mem_nil, or_false] at ho
  rcases ho with rfl | rfl | rfl
  · exact ⟨.str [1], rfl, rfl⟩
  · exact ⟨.str [2], rfl, rfl⟩
  · exact ⟨.str [1], rfl, rfl⟩

end Counter7

open Counter7 in
/-- the pairwise statement of the sketch is false when a uuid is repeated in the batch -/
theorem manyValidate_pairwise_counterexample :
    ∃ (E : Env) (l : Loaded) (os os' : List Obj),
      (∀ o ∈ os, (vald E l.descs o).Typed (ObjIndex.new l.descs)) ∧
      SameShape (ObjIndex.new l.descs) l.index ∧
      manyValidate E l (ObjIndex.new l.descs) os = .ok os' ∧
      ¬ os'.Pairwise (PairFree (UPos (ObjIndex.new l.descs))) := by
  refine ⟨E0, l0, [a, a', b], [a, a', b], typed, rfl, accepted, ?_⟩
  intro hp
  have h := (List.pairwise_cons.mp hp).1 b (by simp) (by decide) 0
    ⟨_, by rw [fields_eq]; exact List.mem_singleton.mpr rfl, rfl, rfl⟩
  exact h rfl

end Sod
