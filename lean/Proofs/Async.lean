/-
  Async.lean — property C10: asynchronous writes.

  "Visible at once, flushed by threshold/timeout, complete at Close; an object deleted while
  pending never appears on disk."  The flusher body runs under the write lock, so "all relative
  timings" are all interleavings of `Coll.tick` with the other calls: every theorem about `tick`
  below holds in *any* state satisfying the invariant.

  `Inv'` alone is NOT enough for the flush: it does not forbid two pending entries under the same
  uuid (`get?` reads the first, the flush leaves the last on disk), see
  `flushAll_view_counterexample`.  The pending store is only ever built by `put`/`erase`, which keep
  its keys distinct: this is the extra, explicitly named hypothesis `PendNodup`, shown to be
  preserved by every call that touches the pending store (§ 2).
-/
import Proofs.Crud
namespace Sod

/-! ### 1. association lists: distinct keys, folding `put` -/

namespace OMap

theorem keys_cons (p : Nat × Obj) (t : OMap) : OMap.keys (p :: t) = p.1 :: OMap.keys t := rfl

theorem mem_keys {m : OMap} {u : Nat} : u ∈ m.keys ↔ ∃ p ∈ m, p.1 = u := by
  unfold OMap.keys
  simp [List.mem_map]

theorem get?_of_not_mem_keys {m : OMap} {u : Nat} (h : u ∉ m.keys) : m.get? u = none := by
  rw [get?_eq_none_iff]
  intro p hp e
  exact h (mem_keys.mpr ⟨p, hp, e⟩)

theorem keys_erase_sublist (m : OMap) (u : Nat) : (m.erase u).keys.Sublist m.keys := by
  unfold OMap.erase OMap.keys
  exact List.Sublist.map _ List.filter_sublist

theorem not_mem_keys_erase (m : OMap) (u : Nat) : u ∉ (m.erase u).keys := by
  intro h
  obtain ⟨p, hp, e⟩ := mem_keys.mp h
  unfold OMap.erase at hp
  have := (List.mem_filter.mp hp).2
  simp [e] at this

theorem nodup_erase {m : OMap} (h : m.keys.Nodup) (u : Nat) : (m.erase u).keys.Nodup :=
  h.sublist (keys_erase_sublist m u)

theorem nodup_put {m : OMap} (h : m.keys.Nodup) (o : Obj) : (m.put o).keys.Nodup := by
  have hk : (m.put o).keys = (m.erase o.uuid).keys ++ [o.uuid] := by
    unfold OMap.put OMap.keys
    rw [List.map_append]; rfl
  rw [hk, List.nodup_append]
  refine ⟨nodup_erase h _, by simp, ?_⟩
  intro a ha b hb
  rw [List.mem_singleton] at hb
  subst hb
  intro e
  subst e
  exact not_mem_keys_erase m _ ha

/-- with distinct keys every entry is the one `get?` finds -/
theorem get?_of_mem {m : OMap} (h : m.keys.Nodup) {p : Nat × Obj} (hp : p ∈ m) : m.get? p.1 = some p.2 := by
  induction m with
  | nil => cases hp
  | cons q t ih =>
    rw [keys_cons, List.nodup_cons] at h
    rw [get?_cons]
    rcases List.mem_cons.mp hp with e | hp'
    · subst e; rw [if_pos rfl]
    · have : q.1 ≠ p.1 := fun e => h.1 (mem_keys.mpr ⟨p, hp', e.symm⟩)
      rw [if_neg this]
      exact ih h.2 hp'

theorem mem_of_get? {m : OMap} {u : Nat} {o : Obj} (h : m.get? u = some o) : (u, o) ∈ m := by
  induction m with
  | nil => cases h
  | cons q t ih =>
    rw [get?_cons] at h
    by_cases hq : q.1 = u
    · rw [if_pos hq] at h
      injection h with h
      have : q = (u, o) := Prod.ext hq h
      rw [this]; exact List.mem_cons_self
    · rw [if_neg hq] at h
      exact List.mem_cons_of_mem _ (ih h)

/-- write every entry of `ps` into `f`, in order (what `flushAll` does to the files) -/
def putAll (f : OMap) (ps : OMap) : OMap := ps.foldl (fun f p => f.put p.2) f

theorem putAll_nil (f : OMap) : putAll f [] = f := rfl
theorem putAll_cons (f : OMap) (p : Nat × Obj) (t : OMap) : putAll f (p :: t) = putAll (f.put p.2) t := rfl

theorem Keyed.putAll {f : OMap} (h : f.Keyed) (ps : OMap) : (putAll f ps).Keyed := by
  induction ps generalizing f with
  | nil => exact h
  | cons p t ih => rw [putAll_cons]; exact ih (h.put p.2)

/-- the fold lemma: with distinct, proper keys, writing `ps` over `f` reads as "`ps`, else `f`" -/
theorem get?_putAll {ps : OMap} (hk : ps.Keyed) (hn : ps.keys.Nodup) (f : OMap) (u : Nat) :
    (putAll f ps).get? u = match ps.get? u with | some o => some o | none => f.get? u := by
  induction ps generalizing f with
  | nil => rfl
  | cons p t ih =>
    rw [keys_cons, List.nodup_cons] at hn
    have hkt : OMap.Keyed t := fun q hq => hk q (List.mem_cons_of_mem _ hq)
    have hp : p.2.uuid = p.1 := hk p List.mem_cons_self
    rw [putAll_cons, ih hkt hn.2, get?_cons]
    by_cases hu : p.1 = u
    · rw [if_pos hu, get?_of_not_mem_keys (hu ▸ hn.1)]
      simp only
      rw [← hu, ← hp, get?_put_self]
    · rw [if_neg hu]
      cases OMap.get? t u with
      | some o => rfl
      | none =>
        simp only
        exact get?_put_other f p.2 (fun e => hu (by rw [← hp, e]))

end OMap

/-! ### 2. the pending store has distinct keys -/

/-- the pending store holds at most one entry per uuid.  True of every state the package can
    reach (`pending` starts empty and is only changed by `put`, `erase` and the flush), but not a
    consequence of `Inv'`. -/
def PendNodup (c : Coll) : Prop := c.pending.keys.Nodup

theorem PendNodup.of_nil {c : Coll} (h : c.pending = []) : PendNodup c := by
  unfold PendNodup; rw [h]; exact List.nodup_nil

theorem PendNodup.congr {c c' : Coll} (h : PendNodup c) (hp : c'.pending = c.pending) : PendNodup c' := by
  unfold PendNodup; rw [hp]; exact h

theorem PendNodup.put {c c' : Coll} (h : PendNodup c) {o : Obj} (hp : c'.pending = c.pending.put o) :
    PendNodup c' := by
  unfold PendNodup; rw [hp]; exact OMap.nodup_put h o

theorem PendNodup.erase {c c' : Coll} (h : PendNodup c) {u : Nat} (hp : c'.pending = c.pending.erase u) :
    PendNodup c' := by
  unfold PendNodup; rw [hp]; exact OMap.nodup_erase h u

/-- every pending entry is what the handle reads for its uuid -/
theorem pending_get?_of_mem {c : Coll} (hn : PendNodup c) {p : Nat × Obj} (hp : p ∈ c.pending) :
    c.pending.get? p.1 = some p.2 := OMap.get?_of_mem hn hp

@[simp] theorem schema_pending (c : Coll) : (c.schema).1.pending = c.pending := by
  unfold Coll.schema
  split
  · rfl
  · split
    · rfl
    · dsimp only
      split <;> rfl

theorem insState_pending (c : Coll) (l : Loaded) (o : Obj) (ix' : ObjIndex) (commit : Bool) :
    (insState c l o ix' commit).pending = if l.settings.async.isSome then c.pending.put o else c.pending := by
  cases ha : l.settings.async.isSome <;> cases commit <;> cases hmc : l.settings.mustCache <;>
    simp [insState, ha, hmc]

theorem insertCore_pending (E : Env) (c : Coll) (l : Loaded) (o : Obj) (commit : Bool) :
    (Coll.insertCore E c l o commit).1.pending = c.pending ∨
    (Coll.insertCore E c l o commit).1.pending = c.pending.put o := by
  cases hs : E.serialisable o with
  | false => left; rw [insertCore_reject_serial commit hs]
  | true =>
    cases hu : l.index.satisfyAll o with
    | err e => left; unfold Coll.insertCore; simp [hs, hu]
    | panic => left; unfold Coll.insertCore; simp [hs, hu]
    | ok x =>
      cases hr : l.index.insertOrUpdate o with
      | ok ix' =>
        rw [insertCore_eq commit hs hu hr]
        simp only [insState_pending]
        split
        · exact Or.inr rfl
        · exact Or.inl rfl
      | err e =>
        unfold Coll.insertCore
        simp only [hs, hu, hr]
        cases ha : l.settings.async.isSome <;> simp
      | panic =>
        unfold Coll.insertCore
        simp only [hs, hu, hr]
        cases ha : l.settings.async.isSome <;> simp

theorem deleteCore_pending (c : Coll) (l : Loaded) (u : Nat) :
    (c.deleteCore l u).1.pending = c.pending ∨ (c.deleteCore l u).1.pending = c.pending.erase u := by
  unfold Coll.deleteCore
  cases hmc : l.settings.mustCache
  · left; simp only [Bool.false_eq_true, if_false]; split <;> simp
  · right; simp only [if_true]; split <;> simp

theorem PendNodup.insertCore {E : Env} {c : Coll} (h : PendNodup c) (l : Loaded) (o : Obj) (commit : Bool) :
    PendNodup (Coll.insertCore E c l o commit).1 := by
  rcases insertCore_pending E c l o commit with hp | hp
  · exact h.congr hp
  · exact h.put hp

theorem PendNodup.deleteCore {c : Coll} (h : PendNodup c) (l : Loaded) (u : Nat) :
    PendNodup (c.deleteCore l u).1 := by
  rcases deleteCore_pending c l u with hp | hp
  · exact h.congr hp
  · exact h.erase hp

theorem PendNodup.schema {c : Coll} (h : PendNodup c) : PendNodup (c.schema).1 := h.congr (schema_pending c)

/-- `InsertOrUpdate` keeps the keys of the pending store distinct (no other hypothesis) -/
theorem PendNodup.insert {c : Coll} (h : PendNodup c) (E : Env) (o : Obj) (fresh : Nat) :
    PendNodup (c.insert E o fresh).1 := by
  have hs := h.schema
  unfold Coll.insert
  split
  · rename_i c1 l heq
    rw [heq] at hs
    simp only at hs
    dsimp only
    split
    · exact hs
    · have := hs.insertCore (E := E) l (assignNew (E.canon l.descs (E.transform o)) fresh) true
      split <;> rename_i heq2 <;> rw [heq2] at this <;> exact this
  · rename_i heq; rw [heq] at hs; exact hs
  · rename_i heq; rw [heq] at hs; exact hs

/-- `Delete` keeps the keys of the pending store distinct (no other hypothesis) -/
theorem PendNodup.delete {c : Coll} (h : PendNodup c) (u : Nat) : PendNodup (c.delete u).1 := by
  have hs := h.schema
  unfold Coll.delete
  split
  · rename_i c1 l heq
    rw [heq] at hs
    simp only at hs
    have := hs.deleteCore l u
    split <;> rename_i heq2 <;> rw [heq2] at this
    · exact PendNodup.congr this (commit_pending _ _)
    · exact PendNodup.congr this (commit_pending _ _)
    · exact this
  · rename_i heq; rw [heq] at hs; exact hs
  · rename_i heq; rw [heq] at hs; exact hs

theorem PendNodup.get {c : Coll} {l : Loaded} (h : PendNodup c) (hi : Inv' c l) (u : Nat) : PendNodup (c.get u).1 :=
  h.congr (get_spec' hi u).2.2.2.2.2

/-! ### 3. `flushAll` -/

/-- the loop of `flushAll` over an arbitrary list of entries -/
def flushFold (c : Coll) (ps : OMap) : Coll := ps.foldl (fun c p => (c.fs .mkdir).fs (.writeObj p.2)) c

theorem flushFold_nil (c : Coll) : flushFold c [] = c := rfl
theorem flushFold_cons (c : Coll) (p : Nat × Obj) (t : OMap) :
    flushFold c (p :: t) = flushFold ((c.fs .mkdir).fs (.writeObj p.2)) t := rfl

theorem flushAll_eq (c : Coll) : c.flushAll = { flushFold c c.pending with pending := [] } := rfl

@[simp] theorem flushFold_mem (c : Coll) (ps : OMap) : (flushFold c ps).mem = c.mem := by
  induction ps generalizing c with
  | nil => rfl
  | cons p t ih => rw [flushFold_cons, ih]; simp
@[simp] theorem flushFold_cache (c : Coll) (ps : OMap) : (flushFold c ps).cache = c.cache := by
  induction ps generalizing c with
  | nil => rfl
  | cons p t ih => rw [flushFold_cons, ih]; simp
@[simp] theorem flushFold_live (c : Coll) (ps : OMap) : (flushFold c ps).live = c.live := by
  induction ps generalizing c with
  | nil => rfl
  | cons p t ih => rw [flushFold_cons, ih]; simp
@[simp] theorem flushFold_pending (c : Coll) (ps : OMap) : (flushFold c ps).pending = c.pending := by
  induction ps generalizing c with
  | nil => rfl
  | cons p t ih => rw [flushFold_cons, ih]; simp

/-- the files after the loop: every entry written over the old files, in order -/
theorem flushFold_files (c : Coll) (ps : OMap) : (flushFold c ps).disk.files = OMap.putAll c.disk.files ps := by
  induction ps generalizing c with
  | nil => rfl
  | cons p t ih => rw [flushFold_cons, ih, OMap.putAll_cons]; simp

@[simp] theorem fs_mkdir_schema (c : Coll) : (c.fs .mkdir).disk.schema = c.disk.schema := by
  unfold Coll.fs; split <;> rfl
@[simp] theorem fs_writeObj_schema (c : Coll) (o : Obj) : (c.fs (.writeObj o)).disk.schema = c.disk.schema := rfl
@[simp] theorem fs_writeSchema_schema (c : Coll) (i : SchemaImg) : (c.fs (.writeSchema i)).disk.schema = some i := rfl

@[simp] theorem flushFold_schema (c : Coll) (ps : OMap) : (flushFold c ps).disk.schema = c.disk.schema := by
  induction ps generalizing c with
  | nil => rfl
  | cons p t ih => rw [flushFold_cons, ih]; simp

/-- the schema file after a commit -/
@[simp] theorem commit_schema (c : Coll) (l : Loaded) : (c.commit l).disk.schema = some l.img := rfl

@[simp] theorem flushAll_mem (c : Coll) : c.flushAll.mem = c.mem := by rw [flushAll_eq]; simp
@[simp] theorem flushAll_cache (c : Coll) : c.flushAll.cache = c.cache := by rw [flushAll_eq]; simp
@[simp] theorem flushAll_live (c : Coll) : c.flushAll.live = c.live := by rw [flushAll_eq]; simp
@[simp] theorem flushAll_schema (c : Coll) : c.flushAll.disk.schema = c.disk.schema := by rw [flushAll_eq]; simp

/-- after `flushAll` nothing is pending -/
@[simp] theorem flushAll_pending (c : Coll) : c.flushAll.pending = [] := rfl

theorem flushAll_files_eq (c : Coll) : c.flushAll.disk.files = OMap.putAll c.disk.files c.pending := by
  rw [flushAll_eq]; exact flushFold_files c c.pending

/-- the files after a flush are exactly the abstract content before it -/
theorem flushAll_files_view {c : Coll} {l : Loaded} (h : Inv' c l) (hn : PendNodup c) (u : Nat) :
    c.flushAll.disk.files.get? u = c.view u := by
  rw [flushAll_files_eq, OMap.get?_putAll h.keyedP hn, view_eq]
  cases OMap.get? c.pending u <;> rfl

/-- flushing does not change what the collection denotes -/
theorem flushAll_view {c : Coll} {l : Loaded} (h : Inv' c l) (hn : PendNodup c) : c.flushAll.view = c.view := by
  funext u
  rw [view_nopend (flushAll_pending c), flushAll_files_view h hn]

/-- flushing keeps the invariant (same loaded schema) -/
theorem flushAll_inv {c : Coll} {l : Loaded} (h : Inv' c l) (hn : PendNodup c) : Inv' c.flushAll l := by
  have hv := flushAll_view h hn
  refine ⟨⟨by rw [flushAll_mem]; exact h.mem, h.wf, by rw [hv]; exact h.refl, by rw [hv]; exact h.dom,
    by rw [hv]; exact h.typed, by rw [hv, flushAll_cache]; exact h.cacheOk, ?_, fun _ => rfl, h.flusher, ?_,
    OMap.Keyed.nil, by rw [flushAll_cache]; exact h.keyedC⟩, by rw [flushAll_cache]; exact h.cacheOff⟩
  · intro u o hg; cases hg
  · rw [flushAll_files_eq]; exact h.keyedF.putAll _

theorem flushAll_pendNodup (c : Coll) : PendNodup c.flushAll := PendNodup.of_nil rfl

/-- everything accepted is on disk after a flush -/
theorem flushAll_files {c : Coll} {l : Loaded} (h : Inv' c l) (hn : PendNodup c) (u : Nat) (o : Obj)
    (hp : c.pending.get? u = some o) : c.flushAll.disk.files.get? u = some o := by
  rw [flushAll_files_view h hn, view_eq, hp]

/-- `FlushAll`: nothing is pending any more and the directory holds the whole collection (pending or
    not); the schema is not necessarily committed -/
theorem flushAll_complete {c : Coll} {l : Loaded} (h : Inv' c l) (hn : PendNodup c) :
    c.flushAll.pending = [] ∧ (∀ u, c.flushAll.disk.files.get? u = c.view u) ∧
    (∀ u o, c.view u = some o → c.flushAll.disk.files.get? u = some o) :=
  ⟨rfl, flushAll_files_view h hn, fun u o hv => by rw [flushAll_files_view h hn, hv]⟩

/-- a second flush changes neither the files nor the log -/
theorem flushAll_idem (c : Coll) (hp : c.pending = []) : c.flushAll = c := by
  rw [flushAll_eq, hp, flushFold_nil]
  cases c
  simp only at hp
  subst hp
  rfl

/-! ### 4. the background flusher -/

/-- the invariant does not look at the flusher's sleep counter -/
theorem Inv'.setSlept {c c' : Coll} {l : Loaded} (h : Inv' c l) (s : Nat)
    (hm : c'.mem = some { l with slept := s }) (hf : c'.disk.files = c.disk.files)
    (hp : c'.pending = c.pending) (hc : c'.cache = c.cache) : Inv' c' { l with slept := s } := by
  have hv : c'.view = c.view := view_congr hp hf
  exact ⟨⟨hm, h.wf, by rw [hv]; exact h.refl, by rw [hv]; exact h.dom,
    by rw [hv]; exact h.typed, by rw [hv, hc]; exact h.cacheOk, by rw [hp, hc]; exact h.pendCached,
    by rw [hp]; exact h.syncNoPend, h.flusher, by rw [hf]; exact h.keyedF, by rw [hp]; exact h.keyedP,
    by rw [hc]; exact h.keyedC⟩, by rw [hc]; exact h.cacheOff⟩

/-- the four ways one poll of the flusher can go -/
theorem tick_cases {c : Coll} {l : Loaded} (hm : c.mem = some l) :
    (l.flusher = false ∧ c.tick = c) ∨
    (l.flusher = true ∧ l.settings.async = none ∧ c.tick = c.setMem { l with slept := 0 }) ∨
    (∃ a, l.flusher = true ∧ l.settings.async = some a ∧ (c.pending.length ≥ a.threshold ∨ l.slept ≥ a.timeout) ∧
      c.tick = (c.flushAll.commit l).setMem { l with slept := 0 }) ∨
    (∃ a, l.flusher = true ∧ l.settings.async = some a ∧ c.pending.length < a.threshold ∧ l.slept < a.timeout ∧
      c.tick = c.setMem { l with slept := l.slept + 1 }) := by
  unfold Coll.tick
  rw [hm]
  simp only
  cases hf : l.flusher with
  | false => exact Or.inl ⟨rfl, by simp⟩
  | true =>
    simp only [Bool.not_true, Bool.false_eq_true, if_false]
    cases ha : l.settings.async with
    | none => exact Or.inr (Or.inl ⟨by trivial, by trivial, rfl⟩)
    | some a =>
      simp only
      by_cases hc : c.pending.length ≥ a.threshold ∨ l.slept ≥ a.timeout
      · refine Or.inr (Or.inr (Or.inl ⟨a, by trivial, by trivial, hc, ?_⟩))
        rw [if_pos (by simpa using hc)]
      · refine Or.inr (Or.inr (Or.inr ⟨a, by trivial, by trivial, by omega, by omega, ?_⟩))
        rw [if_neg (by simpa using hc)]

/-- one poll, in any state: the invariant is kept (the loaded schema changes in its sleep counter
    only), the keys of the pending store stay distinct, the abstract content does not change -/
theorem tick_spec {c : Coll} {l : Loaded} (h : Inv' c l) (hn : PendNodup c) :
    ∃ s, Inv' c.tick { l with slept := s } ∧ PendNodup c.tick ∧ c.tick.view = c.view := by
  rcases tick_cases h.mem with ⟨_, ht⟩ | ⟨_, _, ht⟩ | ⟨a, _, _, _, ht⟩ | ⟨a, _, _, _, _, ht⟩
  · rw [ht]; exact ⟨l.slept, h, hn, rfl⟩
  · rw [ht]; exact ⟨0, h.setSlept 0 rfl rfl rfl rfl, hn, rfl⟩
  · rw [ht]
    refine ⟨0, (flushAll_inv h hn).setSlept 0 rfl (by simp) (by simp) (by simp), PendNodup.of_nil (by simp), ?_⟩
    rw [← flushAll_view h hn]
    exact view_congr (by simp) (by simp)
  · rw [ht]; exact ⟨l.slept + 1, h.setSlept _ rfl rfl rfl rfl, hn, rfl⟩

/-- any poll of the flusher, in any state, keeps the invariant and the abstract content -/
theorem tick_inv {c : Coll} {l : Loaded} (h : Inv' c l) (hn : PendNodup c) :
    ∃ l', Inv' c.tick l' ∧ c.tick.view = c.view ∧ l'.settings = l.settings := by
  obtain ⟨s, h1, _, h3⟩ := tick_spec h hn
  exact ⟨_, h1, h3, rfl⟩

theorem PendNodup.tick {c : Coll} {l : Loaded} (hn : PendNodup c) (h : Inv' c l) : PendNodup c.tick :=
  (tick_spec h hn).choose_spec.2.1

/-- "flushed": nothing pending, the files are exactly the content `v`, the schema file is `img` -/
structure Flushed (v : Nat → Option Obj) (img : SchemaImg) (c : Coll) : Prop where
  pending : c.pending = []
  files : ∀ u, c.disk.files.get? u = v u
  schema : c.disk.schema = some img

/-- a poll that flushes leaves the collection flushed -/
theorem tick_flush {c : Coll} {l : Loaded} (h : Inv' c l) (hn : PendNodup c)
    (ht : c.tick = (c.flushAll.commit l).setMem { l with slept := 0 }) : Flushed c.view l.img c.tick := by
  rw [ht]
  refine ⟨by simp, ?_, by simp⟩
  intro u
  rw [setMem_disk, commit_files, flushAll_files_view h hn]

/-- threshold reached: the very next poll writes everything pending and commits the schema.
    (`l.flusher = true` is not needed as a hypothesis: it is `Inv.flusher`.) -/
theorem tick_threshold {c : Coll} {l : Loaded} {a : Async} (h : Inv' c l) (hn : PendNodup c)
    (ha : l.settings.async = some a) (hth : c.pending.length ≥ a.threshold) :
    c.tick.pending = [] ∧ (∀ u o, c.pending.get? u = some o → c.tick.disk.files.get? u = some o) ∧
    c.tick.disk.schema = some l.img ∧ (∀ u, c.tick.disk.files.get? u = c.view u) := by
  have hfl : l.flusher = true := h.flusher (by rw [ha]; rfl)
  rcases tick_cases h.mem with ⟨hf, _⟩ | ⟨_, hno, _⟩ | ⟨a', _, _, _, ht⟩ | ⟨a', _, ha', hlt, _⟩
  · rw [hfl] at hf; cases hf
  · rw [ha] at hno; cases hno
  · have hF := tick_flush h hn ht
    refine ⟨hF.pending, ?_, hF.schema, hF.files⟩
    intro u o hp
    rw [hF.files, view_eq, hp]
  · rw [ha] at ha'; injection ha' with ha'; subst ha'; omega

/-- timeout reached: the very next poll writes everything pending and commits the schema -/
theorem tick_timeout {c : Coll} {l : Loaded} {a : Async} (h : Inv' c l) (hn : PendNodup c)
    (ha : l.settings.async = some a) (hto : l.slept ≥ a.timeout) : Flushed c.view l.img c.tick := by
  have hfl : l.flusher = true := h.flusher (by rw [ha]; rfl)
  rcases tick_cases h.mem with ⟨hf, _⟩ | ⟨_, hno, _⟩ | ⟨a', _, _, _, ht⟩ | ⟨a', _, ha', _, hlt, _⟩
  · rw [hfl] at hf; cases hf
  · rw [ha] at hno; cases hno
  · exact tick_flush h hn ht
  · rw [ha] at ha'; injection ha' with ha'; subst ha'; omega

/-- a flushed collection stays flushed under a poll (nothing is inserted in between) -/
theorem tick_flushed {c : Coll} {l : Loaded} {v : Nat → Option Obj} (h : Inv' c l) (hF : Flushed v l.img c) :
    ∃ s, Inv' c.tick { l with slept := s } ∧ Flushed v l.img c.tick := by
  have hn : PendNodup c := PendNodup.of_nil hF.pending
  obtain ⟨s, h1, _, _⟩ := tick_spec h hn
  refine ⟨s, h1, ?_⟩
  rcases tick_cases h.mem with ⟨_, ht⟩ | ⟨_, _, ht⟩ | ⟨a, _, _, _, ht⟩ | ⟨a, _, _, _, _, ht⟩
  · rw [ht]; exact hF
  · rw [ht]; exact ⟨hF.pending, hF.files, hF.schema⟩
  · have hv : c.view = v := by
      funext u; rw [view_nopend hF.pending, hF.files]
    rw [← hv]
    exact tick_flush h hn ht
  · rw [ht]; exact ⟨hF.pending, hF.files, hF.schema⟩

/-- `n` consecutive polls of the flusher, nothing else happening in between -/
def ticks : Nat → Coll → Coll
  | 0, c => c
  | n+1, c => ticks n c.tick

theorem ticks_flushed {v : Nat → Option Obj} (n : Nat) {c : Coll} {l : Loaded} (h : Inv' c l)
    (hF : Flushed v l.img c) : Flushed v l.img (ticks n c) := by
  induction n generalizing c l with
  | zero => exact hF
  | succ n ih =>
    obtain ⟨s, h1, h2⟩ := tick_flushed h hF
    have := ih h1 h2
    exact this

/-- `n` polls keep the invariant and the abstract content -/
theorem ticks_spec (n : Nat) {c : Coll} {l : Loaded} (h : Inv' c l) (hn : PendNodup c) :
    ∃ s, Inv' (ticks n c) { l with slept := s } ∧ PendNodup (ticks n c) ∧ (ticks n c).view = c.view := by
  induction n generalizing c l with
  | zero => exact ⟨l.slept, h, hn, rfl⟩
  | succ n ih =>
    obtain ⟨s, h1, h2, h3⟩ := tick_spec h hn
    obtain ⟨s', i1, i2, i3⟩ := ih h1 h2
    exact ⟨s', i1, i2, i3.trans h3⟩

/-- general form: `n + 1` polls flush as soon as `timeout ≤ slept + n` -/
theorem ticks_timeout_aux {a : Async} (n : Nat) {c : Coll} {l : Loaded} (h : Inv' c l) (hn : PendNodup c)
    (ha : l.settings.async = some a) (hto : a.timeout ≤ l.slept + n) :
    Flushed c.view l.img (ticks (n + 1) c) := by
  induction n generalizing c l with
  | zero => exact tick_timeout h hn ha (by omega)
  | succ n ih =>
    have hfl : l.flusher = true := h.flusher (by rw [ha]; rfl)
    show Flushed c.view l.img (ticks (n + 1) c.tick)
    rcases tick_cases h.mem with ⟨hf, _⟩ | ⟨_, hno, _⟩ | ⟨a', _, _, _, ht⟩ | ⟨a', _, ha', _, hlt, ht⟩
    · rw [hfl] at hf; cases hf
    · rw [ha] at hno; cases hno
    · have hF := tick_flush h hn ht
      obtain ⟨s, h1, _, _⟩ := tick_spec h hn
      have := ticks_flushed (n + 1) h1 hF
      exact this
    · have h1 : Inv' c.tick { l with slept := l.slept + 1 } := by
        rw [ht]; exact h.setSlept _ rfl rfl rfl rfl
      have h2 : PendNodup c.tick := by rw [ht]; exact hn
      have h3 : c.tick.view = c.view := by rw [ht]; rfl
      have := ih h1 h2 ha (by show a.timeout ≤ l.slept + 1 + n; omega)
      rw [h3] at this
      exact this

/-- timeout: after `timeout + 1` consecutive polls — whatever the sleep counter was, however few
    objects are pending — nothing is pending, the directory holds the whole collection and the
    schema is committed -/
theorem ticks_timeout {c : Coll} {l : Loaded} {a : Async} (h : Inv' c l) (hn : PendNodup c)
    (ha : l.settings.async = some a) :
    (ticks (a.timeout + 1) c).pending = [] ∧
    (∀ u o, c.pending.get? u = some o → (ticks (a.timeout + 1) c).disk.files.get? u = some o) ∧
    (ticks (a.timeout + 1) c).disk.schema = some l.img ∧
    (∀ u, (ticks (a.timeout + 1) c).disk.files.get? u = c.view u) := by
  have hF := ticks_timeout_aux a.timeout h hn ha (by omega)
  refine ⟨hF.pending, ?_, hF.schema, hF.files⟩
  intro u o hp
  rw [hF.files, view_eq, hp]

/-- … and it stays so for any larger number of polls; `timeout + 1 - slept` polls already suffice -/
theorem ticks_timeout_ge {c : Coll} {l : Loaded} {a : Async} (h : Inv' c l) (hn : PendNodup c)
    (ha : l.settings.async = some a) (n : Nat) (hge : n + l.slept ≥ a.timeout + 1) (hpos : n ≥ 1) :
    Flushed c.view l.img (ticks n c) := by
  obtain ⟨m, rfl⟩ : ∃ m, n = m + 1 := ⟨n - 1, by omega⟩
  exact ticks_timeout_aux m h hn ha (by omega)

/-- the flusher is started by the first access to the schema of an asynchronous collection:
    whenever `db.schema` answers, the flusher flag of an async schema is set -/
theorem flusher_started {c : Coll} {l : Loaded} (hs : (c.schema).2 = .ok l)
    (ha : l.settings.async.isSome = true) : l.flusher = true := by
  have key : ∀ l0 : Loaded, (startFlusher l0).settings.async.isSome = true → (startFlusher l0).flusher = true := by
    intro l0
    unfold startFlusher
    cases h1 : l0.settings.async.isSome <;> cases h2 : l0.flusher <;> simp [h1, h2]
  unfold Coll.schema at hs
  split at hs
  · injection hs with hs; subst hs; exact key _ ha
  · split at hs
    · cases hs
    · dsimp only at hs
      split at hs
      · injection hs with hs; subst hs; exact key _ ha
      · cases hs
      · cases hs
      · cases hs

/-- the handle's cached schema after that access is the one returned (so it carries the flag too) -/
theorem flusher_started_mem {c : Coll} {l : Loaded} (hs : (c.schema).2 = .ok l) : (c.schema).1.mem = some l := by
  unfold Coll.schema at hs ⊢
  cases hm : c.mem with
  | some l0 =>
    simp only [hm] at hs ⊢
    injection hs with hs
    rw [hs]
  | none =>
    simp only [hm] at hs ⊢
    cases hd : c.disk.schema with
    | none => simp only [hd] at hs; cases hs
    | some img =>
      simp only [hd] at hs ⊢
      split at hs
      · injection hs with hs
        simp only [hs]
      · cases hs
      · cases hs
      · cases hs

/-! ### 5. visibility -/

/-- an accepted write is visible at once to every read on the handle, synchronous or not -/
theorem async_visible {E : Env} {c : Coll} {l : Loaded} (h : Inv' c l) (o : Obj) (fresh : Nat)
    (ht : (assignNew (E.canon l.descs (E.transform o)) fresh).Typed l.index)
    (hr : (c.insert E o fresh).2 = Res.ok ()) :
    let o' := assignNew (E.canon l.descs (E.transform o)) fresh
    let c' := (c.insert E o fresh).1
    (c'.get o'.uuid).2 = Res.ok o' ∧ (c'.exist o'.uuid).2 = Res.ok true := by
  intro o' c'
  obtain ⟨l', h1, h2, _⟩ := insert_accepted' h o fresh ht hr
  have hv : c'.view o'.uuid = some o' := by
    show (c.insert E o fresh).1.view o'.uuid = some o'
    rw [h2, updView_apply, if_pos rfl]
  constructor
  · rw [(get_spec' h1 o'.uuid).1, hv]
  · rw [exist_spec h1.toInv o'.uuid, hv]; rfl

/-- … although, in asynchronous mode, the accepted insert has not touched the directory -/
theorem async_insert_no_write {E : Env} {c : Coll} {l : Loaded} (h : Inv' c l) (o : Obj) (fresh : Nat)
    (ht : (assignNew (E.canon l.descs (E.transform o)) fresh).Typed l.index)
    (ha : l.settings.async.isSome = true) :
    (c.insert E o fresh).1.disk = c.disk ∧ (c.insert E o fresh).1.log = c.log := by
  rcases insert_cases h.toInv o fresh ht with ⟨_, hi⟩ | ⟨_, _, hi⟩ | ⟨_, _, _, hi⟩ | ⟨_, hs, hu, hi⟩
  · rw [hi]; exact ⟨rfl, rfl⟩
  · rw [hi]; exact ⟨rfl, rfl⟩
  · rw [hi]; exact ⟨rfl, rfl⟩
  · rw [hi, insertCore_eq true hs hu (insertOrUpdate_of_ok ht.hasVal hu)]
    have hmc := mustCache_of_async ha
    constructor <;> simp [insState, ha, hmc]

/-- … and is pending -/
theorem async_insert_pending {E : Env} {c : Coll} {l : Loaded} (h : Inv' c l) (o : Obj) (fresh : Nat)
    (ht : (assignNew (E.canon l.descs (E.transform o)) fresh).Typed l.index)
    (ha : l.settings.async.isSome = true) (hr : (c.insert E o fresh).2 = Res.ok ()) :
    (c.insert E o fresh).1.pending.get? (assignNew (E.canon l.descs (E.transform o)) fresh).uuid =
      some (assignNew (E.canon l.descs (E.transform o)) fresh) := by
  rcases insert_cases h.toInv o fresh ht with ⟨_, hi⟩ | ⟨_, _, hi⟩ | ⟨_, _, _, hi⟩ | ⟨_, hs, hu, hi⟩
  · rw [hi] at hr; cases hr
  · rw [hi] at hr; cases hr
  · rw [hi] at hr; cases hr
  · rw [hi, insertCore_eq true hs hu (insertOrUpdate_of_ok ht.hasVal hu)]
    simp only [insState_pending, ha, if_true]
    exact OMap.get?_put_self _ _

/-! ### 6. Close, FlushAllAndCommit -/

theorem close_eq {c : Coll} {l : Loaded} (h : Inv' c l) : c.close = (c.flushAll.commit l, Res.ok ()) := by
  simp only [Coll.close, flushAll_mem, h.mem]

theorem flushAllAndCommit_eq {c : Coll} {l : Loaded} (h : Inv' c l) (hn : PendNodup c) :
    c.flushAllAndCommit = (c.flushAll.commit l, Res.ok ()) := by
  simp only [Coll.flushAllAndCommit, schema_of_inv (flushAll_inv h hn).toInv]

theorem flushAll_commit_flushed {c : Coll} {l : Loaded} (h : Inv' c l) (hn : PendNodup c) :
    Flushed c.view l.img (c.flushAll.commit l) :=
  ⟨by simp, fun u => by rw [commit_files, flushAll_files_view h hn], by simp⟩

theorem flushAll_commit_inv {c : Coll} {l : Loaded} (h : Inv' c l) (hn : PendNodup c) :
    Inv' (c.flushAll.commit l) l ∧ (c.flushAll.commit l).view = c.view := by
  refine ⟨(flushAll_inv h hn).congr (by simp) (by simp) (by simp) (by simp), ?_⟩
  rw [← flushAll_view h hn]
  exact view_congr (by simp) (by simp)

/-- `Close` is complete: it succeeds, nothing stays pending, every object of the collection is in
    the directory and the schema is committed -/
theorem close_complete {c : Coll} {l : Loaded} (h : Inv' c l) (hn : PendNodup c) :
    (c.close).1.pending = [] ∧
    (∀ u o, c.view u = some o → (c.close).1.disk.files.get? u = some o) ∧
    (c.close).1.disk.schema = some l.img ∧
    (c.close).2 = Res.ok () ∧ (∀ u, (c.close).1.disk.files.get? u = c.view u) := by
  rw [close_eq h]
  have hF := flushAll_commit_flushed h hn
  exact ⟨hF.pending, fun u o hv => by rw [hF.files, hv], hF.schema, rfl, hF.files⟩

theorem close_inv {c : Coll} {l : Loaded} (h : Inv' c l) (hn : PendNodup c) :
    Inv' (c.close).1 l ∧ (c.close).1.view = c.view ∧ PendNodup (c.close).1 := by
  rw [close_eq h]
  exact ⟨(flushAll_commit_inv h hn).1, (flushAll_commit_inv h hn).2, PendNodup.of_nil (by simp)⟩

/-- `FlushAllAndCommit` (also the body of the flusher) is complete in the same sense -/
theorem flushAllAndCommit_complete {c : Coll} {l : Loaded} (h : Inv' c l) (hn : PendNodup c) :
    (c.flushAllAndCommit).1.pending = [] ∧
    (∀ u o, c.view u = some o → (c.flushAllAndCommit).1.disk.files.get? u = some o) ∧
    (c.flushAllAndCommit).1.disk.schema = some l.img ∧
    (c.flushAllAndCommit).2 = Res.ok () ∧ (∀ u, (c.flushAllAndCommit).1.disk.files.get? u = c.view u) := by
  rw [flushAllAndCommit_eq h hn]
  have hF := flushAll_commit_flushed h hn
  exact ⟨hF.pending, fun u o hv => by rw [hF.files, hv], hF.schema, rfl, hF.files⟩

theorem flushAllAndCommit_inv {c : Coll} {l : Loaded} (h : Inv' c l) (hn : PendNodup c) :
    Inv' (c.flushAllAndCommit).1 l ∧ (c.flushAllAndCommit).1.view = c.view ∧ PendNodup (c.flushAllAndCommit).1 := by
  rw [flushAllAndCommit_eq h hn]
  exact ⟨(flushAll_commit_inv h hn).1, (flushAll_commit_inv h hn).2, PendNodup.of_nil (by simp)⟩

/-- an object accepted in asynchronous mode — hence only pending — is in its file after `Close` -/
theorem close_writes_accepted {c : Coll} {l : Loaded} (h : Inv' c l) (hn : PendNodup c) (u : Nat) (o : Obj)
    (hp : c.pending.get? u = some o) : (c.close).1.disk.files.get? u = some o :=
  (close_complete h hn).2.1 u o (by rw [view_eq, hp])

/-! ### 7. deleted while pending -/

theorem files_none_of_view_none {c : Coll} {u : Nat} (h : c.view u = none) :
    c.pending.get? u = none ∧ c.disk.files.get? u = none := by
  rw [view_eq] at h
  cases hp : c.pending.get? u with
  | some o => rw [hp] at h; cases h
  | none => rw [hp] at h; exact ⟨rfl, h⟩

/-- `Delete` removes the object from the pending store as well as from the directory -/
theorem delete_pending_gone {c : Coll} {l : Loaded} (h : Inv' c l) (u : Nat) :
    (c.delete u).1.pending.get? u = none ∧ (c.delete u).1.disk.files.get? u = none := by
  obtain ⟨l', _, _, hv⟩ := delete_spec' h u
  apply files_none_of_view_none
  rw [hv, updView_apply, if_pos rfl]

/-- … so that no later flush — by the flusher after any number of polls, by `FlushAll`, by
    `Close` — brings it back to the directory -/
theorem delete_pending_never_on_disk {c : Coll} {l : Loaded} (h : Inv' c l) (hn : PendNodup c) (u : Nat) (n : Nat) :
    (ticks n (c.delete u).1).disk.files.get? u = none ∧
    (ticks n (c.delete u).1).flushAll.disk.files.get? u = none ∧
    ((ticks n (c.delete u).1).close).1.disk.files.get? u = none ∧
    ((ticks n (c.delete u).1).flushAllAndCommit).1.disk.files.get? u = none := by
  obtain ⟨l', _, h1, hv⟩ := delete_spec' h u
  have hn1 : PendNodup (c.delete u).1 := hn.delete u
  obtain ⟨s, h2, hn2, hv2⟩ := ticks_spec n h1 hn1
  have hnone : (ticks n (c.delete u).1).view u = none := by
    rw [hv2, hv, updView_apply, if_pos rfl]
  refine ⟨(files_none_of_view_none hnone).2, ?_, ?_, ?_⟩
  · rw [flushAll_files_view h2 hn2, hnone]
  · rw [(close_complete h2 hn2).2.2.2.2, hnone]
  · rw [(flushAllAndCommit_complete h2 hn2).2.2.2.2, hnone]

/-! the same over the log of directory operations: a flush writes the pending objects and nothing else -/

theorem fs_log (c : Coll) (op : FsOp) : ∃ ops, (c.fs op).log = c.log ++ ops ∧ ∀ x ∈ ops, x = op := by
  unfold Coll.fs
  split
  · exact ⟨[], by simp, by simp⟩
  · exact ⟨[_], rfl, by simp⟩

theorem fs_writeObj_log (c : Coll) (o : Obj) : (c.fs (.writeObj o)).log = c.log ++ [.writeObj o] := rfl

/-- the operations of the flush loop: one `writeObj` per entry, in order (and possibly a `mkdir`) -/
theorem flushFold_log (c : Coll) (ps : OMap) :
    ∃ ops, (flushFold c ps).log = c.log ++ ops ∧
      ops.filter (fun x => x != FsOp.mkdir) = ps.map (fun p => FsOp.writeObj p.2) := by
  induction ps generalizing c with
  | nil => exact ⟨[], by simp [flushFold_nil], rfl⟩
  | cons p t ih =>
    obtain ⟨ops1, h1, h1'⟩ := fs_log c .mkdir
    obtain ⟨ops2, h2, h2'⟩ := ih ((c.fs .mkdir).fs (.writeObj p.2))
    refine ⟨ops1 ++ [.writeObj p.2] ++ ops2, ?_, ?_⟩
    · rw [flushFold_cons, h2, fs_writeObj_log, h1]
      simp [List.append_assoc]
    · have : ops1.filter (fun x => x != FsOp.mkdir) = [] := by
        rw [List.filter_eq_nil_iff]
        intro x hx
        rw [h1' x hx]; simp
      rw [List.filter_append, List.filter_append, this, h2']
      simp

/-- what `flushAll` appends to the log: exactly the pending objects -/
theorem flushAll_log {c : Coll} (hk : c.pending.Keyed) (hn : PendNodup c) :
    ∃ ops, c.flushAll.log = c.log ++ ops ∧
      (∀ o, FsOp.writeObj o ∈ ops ↔ c.pending.get? o.uuid = some o) ∧
      (∀ x ∈ ops, x = FsOp.mkdir ∨ ∃ o, x = FsOp.writeObj o) := by
  obtain ⟨ops, h1, h2⟩ := flushFold_log c c.pending
  have hmem : ∀ x, x ≠ FsOp.mkdir → (x ∈ ops ↔ ∃ p ∈ c.pending, x = FsOp.writeObj p.2) := by
    intro x hx
    have : x ∈ ops ↔ x ∈ ops.filter (fun x => x != FsOp.mkdir) := by
      rw [List.mem_filter]; simp [hx]
    rw [this, h2, List.mem_map]
    constructor
    · rintro ⟨p, hp, e⟩; exact ⟨p, hp, e.symm⟩
    · rintro ⟨p, hp, e⟩; exact ⟨p, hp, e.symm⟩
  refine ⟨ops, h1, ?_, ?_⟩
  · intro o
    rw [hmem _ (by intro e; cases e)]
    constructor
    · rintro ⟨p, hp, e⟩
      injection e with e
      have := pending_get?_of_mem hn hp
      rw [← hk p hp, ← e] at this
      rw [this, e]
    · intro hg
      exact ⟨(o.uuid, o), OMap.mem_of_get? hg, rfl⟩
  · intro x hx
    by_cases hm : x = FsOp.mkdir
    · exact Or.inl hm
    · obtain ⟨p, _, e⟩ := (hmem x hm).mp hx
      exact Or.inr ⟨p.2, e⟩

theorem commit_log (c : Coll) (l : Loaded) :
    ∃ ops, (c.commit l).log = c.log ++ ops ∧ ∀ x ∈ ops, x = FsOp.mkdir ∨ x = FsOp.writeSchema l.img := by
  obtain ⟨ops1, h1, h1'⟩ := fs_log c .mkdir
  obtain ⟨ops2, h2, h2'⟩ := fs_log (c.fs .mkdir) (.writeSchema l.img)
  refine ⟨ops1 ++ ops2, ?_, ?_⟩
  · unfold Coll.commit; rw [h2, h1, List.append_assoc]
  · intro x hx
    rcases List.mem_append.mp hx with hx | hx
    · exact Or.inl (h1' x hx)
    · exact Or.inr (h2' x hx)

/-- every `writeObj o` appended to the log by `flushAll` is that of an object pending (under its own
    uuid, with this very value) in the state it started from -/
theorem flush_writes_only_pending {c : Coll} (hk : c.pending.Keyed) (hn : PendNodup c) :
    ∀ op ∈ c.flushAll.log.drop c.log.length, ∀ o, op = FsOp.writeObj o → c.pending.get? o.uuid = some o := by
  obtain ⟨ops, h1, h2, _⟩ := flushAll_log hk hn
  rw [h1, List.drop_left]
  intro op hop o e
  subst e
  exact (h2 o).mp hop

/-- what `flushAll` followed by `commit` appends to the log -/
theorem flushAll_commit_log {c : Coll} (hk : c.pending.Keyed) (hn : PendNodup c) (l : Loaded) :
    ∃ ops, (c.flushAll.commit l).log = c.log ++ ops ∧
      (∀ o, FsOp.writeObj o ∈ ops ↔ c.pending.get? o.uuid = some o) := by
  obtain ⟨ops1, h1, h2, _⟩ := flushAll_log hk hn
  obtain ⟨ops2, h3, h4⟩ := commit_log c.flushAll l
  refine ⟨ops1 ++ ops2, by rw [h3, h1, List.append_assoc], ?_⟩
  intro o
  rw [List.mem_append, ← h2 o]
  constructor
  · rintro (hx | hx)
    · exact hx
    · rcases h4 _ hx with e | e <;> cases e
  · exact Or.inl

/-- the same for one poll of the flusher, in any state -/
theorem tick_writes_only_pending {c : Coll} {l : Loaded} (h : Inv' c l) (hn : PendNodup c) :
    ∀ op ∈ c.tick.log.drop c.log.length, ∀ o, op = FsOp.writeObj o → c.pending.get? o.uuid = some o := by
  rcases tick_cases h.mem with ⟨_, ht⟩ | ⟨_, _, ht⟩ | ⟨a, _, _, _, ht⟩ | ⟨a, _, _, _, _, ht⟩
  · rw [ht]; simp
  · rw [ht]; simp
  · obtain ⟨ops, h1, h2⟩ := flushAll_commit_log h.keyedP hn l
    rw [ht, setMem_log, h1, List.drop_left]
    intro op hop o e
    subst e
    exact (h2 o).mp hop
  · rw [ht]; simp

/-- … and for `Close` -/
theorem close_writes_only_pending {c : Coll} {l : Loaded} (h : Inv' c l) (hn : PendNodup c) :
    ∀ op ∈ (c.close).1.log.drop c.log.length, ∀ o, op = FsOp.writeObj o → c.pending.get? o.uuid = some o := by
  obtain ⟨ops, h1, h2⟩ := flushAll_commit_log h.keyedP hn l
  rw [close_eq h]
  simp only
  rw [h1, List.drop_left]
  intro op hop o e
  subst e
  exact (h2 o).mp hop

/-- in particular: once `u` is deleted, no flush of the resulting state writes an object `u` -/
theorem delete_then_flush_no_write {c : Coll} {l : Loaded} (h : Inv' c l) (hn : PendNodup c) (u : Nat) :
    ∀ o, o.uuid = u →
      FsOp.writeObj o ∉ (c.delete u).1.flushAll.log.drop (c.delete u).1.log.length ∧
      FsOp.writeObj o ∉ (c.delete u).1.tick.log.drop (c.delete u).1.log.length ∧
      FsOp.writeObj o ∉ ((c.delete u).1.close).1.log.drop (c.delete u).1.log.length := by
  intro o hou
  obtain ⟨l', _, h1, _⟩ := delete_spec' h u
  have hn1 : PendNodup (c.delete u).1 := hn.delete u
  have hg : (c.delete u).1.pending.get? o.uuid = none := by rw [hou]; exact (delete_pending_gone h u).1
  refine ⟨?_, ?_, ?_⟩
  · intro hm
    have := flush_writes_only_pending h1.keyedP hn1 _ hm o rfl
    rw [hg] at this; cases this
  · intro hm
    have := tick_writes_only_pending h1 hn1 _ hm o rfl
    rw [hg] at this; cases this
  · intro hm
    have := close_writes_only_pending h1 hn1 _ hm o rfl
    rw [hg] at this; cases this

/-! ### 8. why `Inv'` alone is not enough for the flush

  Asynchronous collection whose pending store holds two entries under uuid 5 (`o5` first, then
  `o5'`).  `Inv'` holds: every clause of it reads the pending store through `get?`, which sees the
  first entry only.  The flush writes both in order, so the file ends up holding `o5'`: the abstract
  content changes (5 ↦ `o5` before, 5 ↦ `o5'` after) and the pending value `o5` is not on disk.
  No sequence of calls builds such a store (`put` erases the uuid first): `PendNodup` excludes it. -/

namespace AsyncCounter
open Counter

def l1 : Loaded :=
  { descs := [], settings := { async := some { threshold := 10, timeout := 10 } },
    index := { next := 1, ids := [(0, 5)], fields := [] }, flusher := true }
def c1 : Coll := { live := [], mem := some l1, cache := [(5, o5)], pending := [(5, o5), (5, o5')] }

theorem view1 (u : Nat) : c1.view u = if 5 = u then some o5 else none := by
  rw [view_eq]
  show (match OMap.get? [(5, o5), (5, o5')] u with | some o => some o | none => OMap.get? [] u) = _
  rw [OMap.get?_cons, OMap.get?_cons, OMap.get?_nil]
  by_cases hu : 5 = u <;> simp [hu]

theorem inv1 : Inv' c1 l1 := by
  refine ⟨⟨rfl, ⟨by decide, by decide, by decide, (fun fi hfi => by cases hfi)⟩, ⟨?_, (fun fi hfi => by cases hfi)⟩,
    ?_, ?_, ?_, ?_, (fun hs => by cases hs), fun _ => rfl, OMap.Keyed.nil, ?_, ?_⟩, (fun hs => by cases hs)⟩
  · intro p hp
    have : p = (0, 5) := by simpa [l1] using hp
    subst this
    exact ⟨o5, rfl, rfl⟩
  · intro u
    rw [view1]
    show u ∈ [5] ↔ _
    by_cases hu : 5 = u
    · simp [hu.symm]
    · have : u ≠ 5 := fun e => hu e.symm
      simp [hu, this]
  · intro u o hv
    rw [view1] at hv
    by_cases hu : 5 = u
    · rw [if_pos hu] at hv
      injection hv with hv
      subst hv
      exact ⟨(fun fi hfi => by cases hfi), hu⟩
    · rw [if_neg hu] at hv; cases hv
  · intro u o hg
    rw [view1]
    change OMap.get? [(5, o5)] u = some o at hg
    rw [OMap.get?_cons, OMap.get?_nil] at hg
    exact hg
  · intro u o hg
    change OMap.get? [(5, o5), (5, o5')] u = some o at hg
    show OMap.get? [(5, o5)] u = some o
    rw [OMap.get?_cons, OMap.get?_cons, OMap.get?_nil] at hg
    rw [OMap.get?_cons, OMap.get?_nil]
    by_cases hu : 5 = u
    · simpa [hu] using hg
    · simp [hu] at hg
  · intro p hp
    have : p = (5, o5) ∨ p = (5, o5') := by simpa [c1] using hp
    rcases this with e | e <;> subst e <;> rfl
  · intro p hp
    have : p = (5, o5) := by simpa [c1] using hp
    subst this; rfl

end AsyncCounter

open Counter AsyncCounter in
/-- `flushAll_view`, `flushAll_files` (hence `tick_threshold`, `close_complete`, …) are false over
    `Inv'` alone: the hypothesis `PendNodup` cannot be dropped -/
theorem flushAll_view_counterexample :
    ∃ (c : Coll) (l : Loaded), Inv' c l ∧ ¬ PendNodup c ∧ c.flushAll.view ≠ c.view ∧
      (∃ u o, c.pending.get? u = some o ∧ c.flushAll.disk.files.get? u ≠ some o) ∧
      (∃ u o, c.pending.get? u = some o ∧ (c.close).1.disk.files.get? u ≠ some o) := by
  refine ⟨c1, l1, inv1, (by show ¬ ([5, 5] : List Nat).Nodup; decide), ?_, ⟨5, o5, rfl, ?_⟩, ⟨5, o5, rfl, ?_⟩⟩
  · intro hv
    have h1 : c1.flushAll.view 5 = some o5' := rfl
    have h2 : c1.view 5 = some o5 := rfl
    rw [hv, h2] at h1
    exact absurd h1 (by decide)
  · have h1 : c1.flushAll.disk.files.get? 5 = some o5' := rfl
    rw [h1]; decide
  · have h1 : (c1.close).1.disk.files.get? 5 = some o5' := rfl
    rw [h1]; decide

/-! ### 9. all interleavings

  The flusher body runs under the write lock: a run of the collection is a sequence of calls with
  polls of the flusher anywhere in between.  The invariant and `PendNodup` survive every such run,
  so the theorems above (stated for *any* state satisfying them) hold at every point of every run. -/

/-- the calls on one collection, the poll of the flusher being one of them -/
inductive ACall
  | insert (E : Env) (o : Obj) (fresh : Nat)
  | delete (u : Nat)
  | get (u : Nat)
  | exist (u : Nat)
  | flushAll
  | flushAllAndCommit
  | tick

def Coll.call (c : Coll) : ACall → Coll
  | .insert E o fresh => (c.insert E o fresh).1
  | .delete u => (c.delete u).1
  | .get u => (c.get u).1
  | .exist u => (c.exist u).1
  | .flushAll => c.flushAll
  | .flushAllAndCommit => (c.flushAllAndCommit).1
  | .tick => c.tick

/-- Go's type system: an inserted object has a value of the right kind for every indexed field -/
def ACall.ok (l : Loaded) : ACall → Prop
  | .insert E o fresh => (assignNew (E.canon l.descs (E.transform o)) fresh).Typed l.index
  | _ => True

theorem insert_inv_settings {E : Env} {c : Coll} {l : Loaded} (h : Inv' c l) (o : Obj) (fresh : Nat)
    (ht : (assignNew (E.canon l.descs (E.transform o)) fresh).Typed l.index) :
    ∃ l', Inv' (c.insert E o fresh).1 l' ∧ l'.settings = l.settings := by
  rcases insert_cases h.toInv o fresh ht with ⟨_, hi⟩ | ⟨_, _, hi⟩ | ⟨_, _, _, hi⟩ | ⟨_, hs, hu, hi⟩
  · rw [hi]; exact ⟨l, h, rfl⟩
  · rw [hi]; exact ⟨l, h, rfl⟩
  · rw [hi]; exact ⟨l, h, rfl⟩
  · obtain ⟨c', l', h1, h2, _, h4, _⟩ := insertCore_accept' (E := E) true h ht hs hu
    rw [hi, h1]
    exact ⟨l', h2, h4⟩

theorem delete_inv_settings {c : Coll} {l : Loaded} (h : Inv' c l) (u : Nat) :
    ∃ l', Inv' (c.delete u).1 l' ∧ l'.settings = l.settings := by
  obtain ⟨l', _, h1, _⟩ := delete_spec' h u
  have hm := h1.mem
  rw [delete_eq h.toInv u] at hm
  simp only [delState_mem] at hm
  injection hm with hm
  exact ⟨l', h1, by rw [← hm]⟩

/-- every call, the poll included, keeps `Inv'`, `PendNodup` and the settings -/
theorem call_inv {c : Coll} {l : Loaded} (h : Inv' c l) (hn : PendNodup c) (k : ACall) (hk : k.ok l) :
    ∃ l', Inv' (c.call k) l' ∧ PendNodup (c.call k) ∧ l'.settings = l.settings := by
  cases k with
  | insert E o fresh =>
    obtain ⟨l', h1, h2⟩ := insert_inv_settings h o fresh hk
    exact ⟨l', h1, hn.insert E o fresh, h2⟩
  | delete u =>
    obtain ⟨l', h1, h2⟩ := delete_inv_settings h u
    exact ⟨l', h1, hn.delete u, h2⟩
  | get u => exact ⟨l, (get_spec' h u).2.1, hn.get h u, rfl⟩
  | exist u =>
    show ∃ l', Inv' (c.exist u).1 l' ∧ PendNodup (c.exist u).1 ∧ _
    rw [exist_spec h.toInv u]
    exact ⟨l, h, hn, rfl⟩
  | flushAll => exact ⟨l, flushAll_inv h hn, flushAll_pendNodup c, rfl⟩
  | flushAllAndCommit =>
    exact ⟨l, (flushAllAndCommit_inv h hn).1, (flushAllAndCommit_inv h hn).2.2, rfl⟩
  | tick =>
    obtain ⟨s, h1, h2, _⟩ := tick_spec h hn
    exact ⟨_, h1, h2, rfl⟩

/-- the states of the runs starting in `c0` -/
inductive Reach (c0 : Coll) : Coll → Prop
  | refl : Reach c0 c0
  | step {c : Coll} {l : Loaded} (k : ACall) : Reach c0 c → c.mem = some l → k.ok l → Reach c0 (c.call k)

theorem reach_inv {c0 c : Coll} {l0 : Loaded} (h0 : Inv' c0 l0) (hn0 : PendNodup c0) (hr : Reach c0 c) :
    ∃ l, Inv' c l ∧ PendNodup c ∧ l.settings = l0.settings := by
  induction hr with
  | refl => exact ⟨l0, h0, hn0, rfl⟩
  | step k _ hm hk ih =>
    obtain ⟨l1, h1, hn1, hs1⟩ := ih
    have : l1 = _ := Option.some.inj (h1.mem.symm.trans hm)
    subst this
    obtain ⟨l2, h2, hn2, hs2⟩ := call_inv h1 hn1 k hk
    exact ⟨l2, h2, hn2, hs2.trans hs1⟩

theorem tick_threshold_flushed {c : Coll} {l : Loaded} {a : Async} (h : Inv' c l) (hn : PendNodup c)
    (ha : l.settings.async = some a) (hth : c.pending.length ≥ a.threshold) : Flushed c.view l.img c.tick :=
  let t := tick_threshold h hn ha hth
  ⟨t.1, t.2.2.2, t.2.2.1⟩

/-- C10 at every point of every run of an asynchronous collection, whatever the interleaving of
    calls and polls that led there: the next poll flushes if the threshold is reached; `timeout + 1`
    polls flush in any case; `Close` flushes; "flushes" = nothing pending, the directory holds
    exactly the content the handle shows, the schema is committed -/
theorem c10_every_run {c0 c : Coll} {l0 : Loaded} {a : Async} (h0 : Inv' c0 l0) (hn0 : PendNodup c0)
    (ha : l0.settings.async = some a) (hr : Reach c0 c) :
    ∃ l, Inv' c l ∧ PendNodup c ∧ l.settings.async = some a ∧ l.flusher = true ∧
      (c.pending.length ≥ a.threshold → Flushed c.view l.img c.tick) ∧
      Flushed c.view l.img (ticks (a.timeout + 1) c) ∧
      Flushed c.view l.img (c.close).1 ∧
      (∀ u, (c.delete u).1.pending.get? u = none ∧ (c.delete u).1.disk.files.get? u = none) := by
  obtain ⟨l, h, hn, hs⟩ := reach_inv h0 hn0 hr
  have ha' : l.settings.async = some a := by rw [hs]; exact ha
  refine ⟨l, h, hn, ha', h.flusher (by rw [ha']; rfl), tick_threshold_flushed h hn ha',
    ticks_timeout_aux a.timeout h hn ha' (by omega), ?_, delete_pending_gone h⟩
  rw [close_eq h]
  exact flushAll_commit_flushed h hn

end Sod
