import SodModel.Search
namespace Sod

theorem expects_fields (s : Search) (z : Bool) (n : Nat) : (s.expects z n).fields = s.fields := by
  unfold Search.expects
  split
  · rfl
  · simp only
    split <;> rfl

theorem expects_failed (s : Search) (z : Bool) (n : Nat) (e : Err) (h : s.err = some e) :
    s.expects z n = s := by
  unfold Search.expects
  rw [h]

theorem expects_ok_iff (s : Search) (z : Bool) (n : Nat) (h : s.err = none) :
    (s.expects z n).err = none ↔ (s.fields.length = n ∨ (z = true ∧ s.fields.length = 0)) := by
  unfold Search.expects
  rw [h]
  simp only
  split
  · rename_i hc
    simp only [h, true_iff]
    simp only [Bool.or_eq_true, beq_iff_eq, Bool.and_eq_true] at hc
    exact hc
  · rename_i hc
    simp only [Bool.or_eq_true, beq_iff_eq, Bool.and_eq_true] at hc
    simp only [reduceCtorEq, false_iff]
    exact hc

theorem expects_err_class (s : Search) (z : Bool) (n : Nat) (h : s.err = none)
    (hn : ¬ (s.fields.length = n ∨ (z = true ∧ s.fields.length = 0))) :
    (s.expects z n).err = some Err.unexpectedN := by
  unfold Search.expects
  rw [h]
  simp only
  split
  · rename_i hc
    simp only [Bool.or_eq_true, beq_iff_eq, Bool.and_eq_true] at hc
    exact absurd hc hn
  · rfl

end Sod
