/-
  SearchColl.lean — collection-level theorems about searching (`Coll.search`, `searchAnd`,
  `searchOr`, `collect`, `one`, `searchDelete`, `assignIndex`).

    C02  a search returns exactly the matching objects, on an indexed field and on an
         unindexed one                         (`search_indexed_exact`, `search_unindexed_exact`)
    C12  an index changes speed and order only (`index_independent`)
    C13  order and limit                       (`collect_spec`, `one_spec`, `assignIndex_spec`)
    C20  a search result is a snapshot         (`collect_only_members`)
-/
import Proofs.Crud
namespace Sod

/-- stored objects (by uuid) whose leaf at position `pos` satisfies `op` against `v` -/
def Matches (c : Coll) (m : Matcher) (op : Op) (pos : Nat) (v : Val) (u : Nat) : Prop :=
  ∃ o x, c.view u = some o ∧ o.field pos = .v x ∧ Val.eval m op x v = true

/-- the uuid an entry of a search result designates through the (current) index -/
def Denotes (l : Loaded) (fs : FIdx) (u : Nat) : Prop := ∃ e ∈ fs, l.index.uuidOf e.2 = some u

/-! ### preliminaries -/

theorem field?_mem {ix : ObjIndex} {field : String} {fi : FieldIdx} (h : ix.field? field = some fi) :
    fi ∈ ix.fields :=
  List.mem_of_find?_eq_some h

/-- `Schema.prepare` maps a value to a value of the same kind -/
theorem prepare_v (E : Env) (descs : List FieldDesc) (field : String) (pv : Val) :
    ∃ pv', E.prepare descs field (.v pv) = .v pv' ∧ pv'.tag = pv.tag := by
  unfold Env.prepare
  split
  · split
    · cases pv <;> exact ⟨_, rfl, rfl⟩
    · exact ⟨pv, rfl, rfl⟩
  · exact ⟨pv, rfl, rfl⟩

/-- a field without case constraint: the probe is not altered -/
theorem prepare_id (E : Env) (descs : List FieldDesc) (field : String) (probe : Leaf)
    (h : ∀ pos d, descPos? descs field = some (pos, d) → d.cons.transformer = false) :
    E.prepare descs field probe = probe := by
  unfold Env.prepare
  split
  · next pos d hd => rw [h pos d hd]; rfl
  · rfl

/-- on a descending index every comparison is the corresponding filter -/
theorem searchOp_filter (m : Option Matcher) (op : Op) (hop : op ≠ .re) (l : FIdx) (k : Val) (h : Desc l) :
    ObjIndex.searchOp m op l k = .ok (l.filter (fun e => Val.eval (fun _ => false) op e.1 k)) := by
  cases op with
  | eq => simp [ObjIndex.searchOp, Val.eval, searchEq_filter l k h]
  | ne => simp [ObjIndex.searchOp, Val.eval, searchNe_filter l k h]
  | gt => simp [ObjIndex.searchOp, Val.eval, searchGt_filter l k h]
  | ge => simp [ObjIndex.searchOp, Val.eval, searchGe_filter l k h]
  | lt => simp [ObjIndex.searchOp, Val.eval, searchLt_filter l k h]
  | le => simp [ObjIndex.searchOp, Val.eval, searchLe_filter l k h]
  | re => exact absurd rfl hop

/-- the id table of a consistent handle: an oid designates `u` iff `u` is stored under that oid -/
theorem uuidOf_view {c : Coll} {l : Loaded} (h : Inv c l) {oid u : Nat} (hu : l.index.uuidOf oid = some u) :
    ∃ o, c.view u = some o ∧ o.uuid = u := by
  obtain ⟨o, h1, h2⟩ := h.refl.1 _ (uuidOf_mem hu)
  exact ⟨o, h1, h2⟩

theorem view_oid {c : Coll} {l : Loaded} (h : Inv c l) {u : Nat} {o : Obj} (hv : c.view u = some o) :
    ∃ oid, l.index.oidOf u = some oid ∧ l.index.uuidOf oid = some u := by
  have hm : u ∈ l.index.uuids := (h.dom u).mpr (by rw [hv]; rfl)
  obtain ⟨oid, ho⟩ := oidOf_isSome_iff.mpr hm
  exact ⟨oid, ho, (oidOf_iff_uuidOf h.wf u oid).mp ho⟩

/-! ### A. the indexed path -/

/-- the entries a comparison on an indexed field returns: the field index filtered by the operator -/
theorem search_indexed_eq {E : Env} {c : Coll} {l : Loaded} {field : String} {fi : FieldIdx} {op : Op}
    {probe : Leaf} {pv : Val} (h : Inv' c l) (hfi : l.index.field? field = some fi)
    (hres : pathResolvable c.live field = true) (hprep : E.prepare l.descs field probe = .v pv)
    (htag : pv.tag = fi.cast) (hop : op ≠ .re) :
    Coll.search E c field (some op) probe none =
      (c, { fields := fi.idx.filter (fun e => Val.eval (fun _ => false) op e.1 pv), orderPos := some fi.pos }) := by
  have hd : Desc fi.idx := (h.wf.fields fi (field?_mem hfi)).desc
  unfold Coll.search
  rw [schema_of_inv h.toInv]
  simp only [hprep, hres, hfi, htag, Bool.not_true, Bool.false_eq_true, if_false, bne_self_eq_false,
    searchOp_filter _ op hop _ pv hd]

/-- C02 / C13 on an indexed field: the collection is unchanged; the result designates exactly the
    matching objects, each once, in non-increasing order of the field -/
theorem search_indexed_exact {E : Env} {c : Coll} {l : Loaded} {field : String} {fi : FieldIdx} {op : Op}
    {probe : Leaf} {pv : Val} (h : Inv' c l) (hfi : l.index.field? field = some fi)
    (hres : pathResolvable c.live field = true) (hprep : E.prepare l.descs field probe = .v pv)
    (htag : pv.tag = fi.cast) (hop : op ≠ .re) :
    ∃ s, Coll.search E c field (some op) probe none = (c, s) ∧ s.err = none ∧ s.orderPos = some fi.pos ∧
      (∀ e ∈ s.fields, ∃ u, l.index.uuidOf e.2 = some u ∧ Matches c (fun _ => false) op fi.pos pv u) ∧
      (∀ u, Matches c (fun _ => false) op fi.pos pv u → ∃ e ∈ s.fields, l.index.uuidOf e.2 = some u) ∧
      Desc s.fields ∧ (s.fields.map (·.2)).Nodup := by
  have hmem := field?_mem hfi
  have hw := h.wf.fields fi hmem
  refine ⟨_, search_indexed_eq h hfi hres hprep htag hop, rfl, rfl, ?_, ?_, ?_, ?_⟩
  · intro e he
    obtain ⟨u, o, h1, h2, h3, h4⟩ := (mem_filter_reflects h.refl hmem _ e).mp he
    exact ⟨u, uuidOf_of_mem h.wf.oidNodup h1, o, e.1, h2, h3, h4⟩
  · rintro u ⟨o, x, h1, h2, h3⟩
    obtain ⟨oid, ho, hu⟩ := view_oid h.toInv h1
    exact ⟨(x, oid), (mem_filter_reflects h.refl hmem _ (x, oid)).mpr ⟨u, o, oidOf_mem ho, h1, h2, h3⟩, hu⟩
  · exact filter_desc _ _ hw.desc
  · exact (hw.nodup h.wf.oidNodup).sublist (List.filter_sublist.map _)

/-- the pattern operator on an indexed string field, for a pattern that compiles to `f` -/
theorem search_indexed_re_exact {E : Env} {c : Coll} {l : Loaded} {field : String} {fi : FieldIdx}
    {probe : Leaf} {ps : Bytes} {f : Matcher} (h : Inv' c l) (hfi : l.index.field? field = some fi)
    (hres : pathResolvable c.live field = true) (hprep : E.prepare l.descs field probe = .v (.str ps))
    (htag : fi.cast = Tag.str) (hcomp : E.compile ps = some f) :
    ∃ s, Coll.search E c field (some .re) probe none = (c, s) ∧ s.err = none ∧ s.orderPos = some fi.pos ∧
      (∀ e ∈ s.fields, ∃ u, l.index.uuidOf e.2 = some u ∧ Matches c f .re fi.pos (.str ps) u) ∧
      (∀ u, Matches c f .re fi.pos (.str ps) u → ∃ e ∈ s.fields, l.index.uuidOf e.2 = some u) ∧
      Desc s.fields ∧ (s.fields.map (·.2)).Nodup := by
  have hmem := field?_mem hfi
  have hw := h.wf.fields fi hmem
  obtain ⟨r, hr, hex, hsub⟩ := searchOp_re_exact h.wf h.refl hmem htag f ps
  refine ⟨{ fields := r, orderPos := some fi.pos }, ?_, rfl, rfl, ?_, ?_, ?_, ?_⟩
  · unfold Coll.search
    rw [schema_of_inv h.toInv]
    simp only [hprep, hres, hfi, htag, Val.tag, Bool.not_true, Bool.false_eq_true, if_false, bne_self_eq_false,
      hcomp, hr]
  · intro e he
    obtain ⟨u, o, h1, h2, h3, h4⟩ := (hex e).mp he
    exact ⟨u, uuidOf_of_mem h.wf.oidNodup h1, o, e.1, h2, h3, h4⟩
  · rintro u ⟨o, x, h1, h2, h3⟩
    obtain ⟨oid, ho, hu⟩ := view_oid h.toInv h1
    exact ⟨(x, oid), (hex (x, oid)).mpr ⟨u, o, oidOf_mem ho, h1, h2, h3⟩, hu⟩
  · exact sublist_desc hw.desc hsub
  · exact (hw.nodup h.wf.oidNodup).sublist (hsub.map _)

/-! ### B. the unindexed path -/

/-- the entry the scan of `searchAll` produces for the object stored under `u` -/
def scanEntry (c : Coll) (l : Loaded) (m : Matcher) (op : Op) (pos : Nat) (pv : Val) (u : Nat) : Option Entry :=
  match c.view u with
  | some o =>
    match o.field pos, l.index.oidOf u with
    | .v x, some oid => if Val.eval m op x pv then some (x, oid) else none
    | _, _ => none
  | none => none

theorem scanEntry_congr {c c' : Coll} (hv : c'.view = c.view) (l : Loaded) (m : Matcher) (op : Op) (pos : Nat)
    (pv : Val) : scanEntry c' l m op pos pv = scanEntry c l m op pos pv := by
  funext u
  unfold scanEntry
  rw [hv]

/-- the scan over stored uuids: one entry per matching object, in the order of the uuid list; nothing
    but the cache changes -/
theorem scan_spec {l : Loaded} (m : Matcher) (op : Op) (pos : Nat) (pv : Val) :
    ∀ (us : List Nat) {c : Coll} (acc : FIdx), Inv' c l →
      (∀ u o, c.view u = some o → ∃ x, o.field pos = .v x) → (∀ u ∈ us, (c.view u).isSome) →
      ∃ c', Coll.scan c l m op pos pv us acc = (c', acc ++ us.filterMap (scanEntry c l m op pos pv), none) ∧
        Inv' c' l ∧ c'.view = c.view ∧ c'.disk = c.disk := by
  intro us
  induction us with
  | nil => intro c acc h _ _; exact ⟨c, by simp [Coll.scan], h, rfl, rfl⟩
  | cons u us ih =>
    intro c acc h htyp hus
    obtain ⟨h1, h2, h3, h4, _, _⟩ := get_spec' h u
    have hu := hus u List.mem_cons_self
    cases hv : c.view u with
    | none => rw [hv] at hu; cases hu
    | some o =>
      rw [hv] at h1
      have hg : c.get u = ((c.get u).1, Res.ok o) := Prod.ext rfl h1
      obtain ⟨x, hx⟩ := htyp u o hv
      obtain ⟨oid, ho, _⟩ := view_oid h.toInv hv
      have hou : o.uuid = u := (h.typed u o hv).2
      obtain ⟨c', i1, i2, i3, i4⟩ := ih (c := (c.get u).1)
        (if Val.eval m op x pv then acc ++ [(x, oid)] else acc) h2 (by rw [h3]; exact htyp)
        (fun w hw => by rw [h3]; exact hus w (List.mem_cons_of_mem _ hw))
      refine ⟨c', ?_, i2, i3.trans h3, i4.trans h4⟩
      rw [Coll.scan, hg]
      simp only [hou, ho, hx, i1, scanEntry_congr h3, List.filterMap_cons]
      have he : scanEntry c l m op pos pv u = if Val.eval m op x pv then some (x, oid) else none := by
        unfold scanEntry; rw [hv]; simp only [hx, ho]
      rw [he]
      cases Val.eval m op x pv <;> simp

/-- every entry of a scan designates a matching object -/
theorem scanEntry_sound {c : Coll} {l : Loaded} (h : Inv c l) {m : Matcher} {op : Op} {pos : Nat} {pv : Val}
    {u : Nat} {e : Entry} (he : scanEntry c l m op pos pv u = some e) :
    l.index.uuidOf e.2 = some u ∧ l.index.oidOf u = some e.2 ∧
      ∃ o, c.view u = some o ∧ o.field pos = .v e.1 ∧ Val.eval m op e.1 pv = true := by
  unfold scanEntry at he
  cases hv : c.view u with
  | none => rw [hv] at he; cases he
  | some o =>
    rw [hv] at he
    simp only at he
    cases hx : o.field pos with
    | «opaque» s => rw [hx] at he; cases he
    | v x =>
      cases ho : l.index.oidOf u with
      | none => rw [hx, ho] at he; cases he
      | some oid =>
        rw [hx, ho] at he
        simp only at he
        cases hev : Val.eval m op x pv with
        | false => rw [hev] at he; cases he
        | true =>
          rw [hev] at he
          simp only [if_true] at he
          injection he with he
          subst he
          exact ⟨(oidOf_iff_uuidOf h.wf u oid).mp ho, rfl, o, rfl, hx, hev⟩

/-- every matching object has its entry in a scan -/
theorem scanEntry_complete {c : Coll} {l : Loaded} (h : Inv c l) {m : Matcher} {op : Op} {pos : Nat} {pv : Val}
    {u : Nat} (hm : Matches c m op pos pv u) :
    ∃ e, scanEntry c l m op pos pv u = some e ∧ l.index.uuidOf e.2 = some u := by
  obtain ⟨o, x, h1, h2, h3⟩ := hm
  obtain ⟨oid, ho, hu⟩ := view_oid h h1
  refine ⟨(x, oid), ?_, hu⟩
  unfold scanEntry
  rw [h1]
  simp only [h2, ho, h3, if_true]

theorem scan_nodup {c : Coll} {l : Loaded} (h : Inv c l) (m : Matcher) (op : Op) (pos : Nat) (pv : Val)
    {us : List Nat} (hn : us.Nodup) : ((us.filterMap (scanEntry c l m op pos pv)).map (·.2)).Nodup := by
  rw [List.map_filterMap]
  apply nodup_filterMap_of_inj _ _ _ hn
  intro a b oid ha hb
  rw [Option.map_eq_some_iff] at ha hb
  obtain ⟨ea, ha1, ha2⟩ := ha
  obtain ⟨eb, hb1, hb2⟩ := hb
  have h1 := (scanEntry_sound h ha1).1
  have h2 := (scanEntry_sound h hb1).1
  rw [ha2] at h1
  rw [hb2, h1] at h2
  exact Option.some.inj h2

/-- the result of a comparison on an unindexed field: one entry per matching object, in the order
    of the id table -/
theorem search_unindexed_eq {E : Env} {c : Coll} {l : Loaded} {field : String} {op : Op} {probe : Leaf}
    {pv : Val} {pos : Nat} {d : FieldDesc} (h : Inv' c l) (hnone : l.index.field? field = none)
    (hres : pathResolvable c.live field = true) (hprep : E.prepare l.descs field probe = .v pv)
    (hdp : descPos? l.descs field = some (pos, d)) (hcast : d.cast = some pv.tag) (hop : op ≠ .re)
    (htyp : ∀ u o, c.view u = some o → ∃ x, o.field pos = .v x) :
    ∃ c', Coll.search E c field (some op) probe none =
        (c', { fields := l.index.uuids.filterMap (scanEntry c l (fun _ => false) op pos pv), orderPos := none }) ∧
      Inv' c' l ∧ c'.view = c.view ∧ c'.disk = c.disk := by
  obtain ⟨c', h1, h2, h3, h4⟩ := scan_spec (l := l) (fun _ => false) op pos pv l.index.uuids [] h htyp
    (fun u hu => (h.dom u).mp hu)
  refine ⟨c', ?_, h2, h3, h4⟩
  unfold Coll.search
  rw [schema_of_inv h.toInv]
  cases op with
  | re => exact absurd rfl hop
  | _ =>
    simp only [hprep, hres, hnone, hdp, hcast, Bool.not_true, Bool.false_eq_true, if_false, bne_self_eq_false, h1,
      List.nil_append]

/-- C02 on an unindexed field: only the cache may change; the result designates exactly the matching
    objects, each once -/
theorem search_unindexed_exact {E : Env} {c : Coll} {l : Loaded} {field : String} {op : Op} {probe : Leaf}
    {pv : Val} {pos : Nat} {d : FieldDesc} (h : Inv' c l) (hnone : l.index.field? field = none)
    (hres : pathResolvable c.live field = true) (hprep : E.prepare l.descs field probe = .v pv)
    (hdp : descPos? l.descs field = some (pos, d)) (hcast : d.cast = some pv.tag) (hop : op ≠ .re)
    (htyp : ∀ u o, c.view u = some o → ∃ x, o.field pos = .v x) :
    ∃ c' s, Coll.search E c field (some op) probe none = (c', s) ∧ s.err = none ∧ Inv' c' l ∧
      c'.view = c.view ∧ c'.disk = c.disk ∧
      (∀ e ∈ s.fields, ∃ u, l.index.uuidOf e.2 = some u ∧ Matches c (fun _ => false) op pos pv u) ∧
      (∀ u, Matches c (fun _ => false) op pos pv u → ∃ e ∈ s.fields, l.index.uuidOf e.2 = some u) ∧
      (s.fields.map (·.2)).Nodup ∧ s.orderPos = none := by
  obtain ⟨c', h1, h2, h3, h4⟩ := search_unindexed_eq h hnone hres hprep hdp hcast hop htyp
  refine ⟨c', _, h1, rfl, h2, h3, h4, ?_, ?_, scan_nodup h.toInv _ _ _ _ h.wf.uuidNodup, rfl⟩
  · intro e he
    obtain ⟨u, _, hu⟩ := List.mem_filterMap.mp he
    obtain ⟨a, _, o, b1, b2, b3⟩ := scanEntry_sound h.toInv hu
    exact ⟨u, a, o, e.1, b1, b2, b3⟩
  · intro u hm
    obtain ⟨e, he, hu⟩ := scanEntry_complete (l := l) h.toInv hm
    obtain ⟨o, _, hv, _⟩ := hm
    exact ⟨e, List.mem_filterMap.mpr ⟨u, (h.dom u).mpr (by rw [hv]; rfl), he⟩, hu⟩

/-- the pattern operator on an unindexed string field, for a pattern that compiles to `f` -/
theorem search_unindexed_re_exact {E : Env} {c : Coll} {l : Loaded} {field : String} {probe : Leaf}
    {ps : Bytes} {f : Matcher} {pos : Nat} {d : FieldDesc} (h : Inv' c l) (hnone : l.index.field? field = none)
    (hres : pathResolvable c.live field = true) (hprep : E.prepare l.descs field probe = .v (.str ps))
    (hdp : descPos? l.descs field = some (pos, d)) (hcast : d.cast = some Tag.str)
    (hcomp : E.compile ps = some f) (htyp : ∀ u o, c.view u = some o → ∃ x, o.field pos = .v x) :
    ∃ c' s, Coll.search E c field (some .re) probe none = (c', s) ∧ s.err = none ∧ Inv' c' l ∧
      c'.view = c.view ∧ c'.disk = c.disk ∧
      (∀ e ∈ s.fields, ∃ u, l.index.uuidOf e.2 = some u ∧ Matches c f .re pos (.str ps) u) ∧
      (∀ u, Matches c f .re pos (.str ps) u → ∃ e ∈ s.fields, l.index.uuidOf e.2 = some u) ∧
      (s.fields.map (·.2)).Nodup ∧ s.orderPos = none := by
  obtain ⟨c', h1, h2, h3, h4⟩ := scan_spec (l := l) f .re pos (.str ps) l.index.uuids [] h htyp
    (fun u hu => (h.dom u).mp hu)
  refine ⟨c', { fields := l.index.uuids.filterMap (scanEntry c l f .re pos (.str ps)), orderPos := none }, ?_, rfl,
    h2, h3, h4, ?_, ?_, scan_nodup h.toInv _ _ _ _ h.wf.uuidNodup, rfl⟩
  · unfold Coll.search
    rw [schema_of_inv h.toInv]
    simp only [hprep, hres, hnone, hdp, hcast, Val.tag, Bool.not_true, Bool.false_eq_true, if_false,
      bne_self_eq_false, hcomp, h1, List.nil_append]
  · intro e he
    obtain ⟨u, _, hu⟩ := List.mem_filterMap.mp he
    obtain ⟨a, _, o, b1, b2, b3⟩ := scanEntry_sound h.toInv hu
    exact ⟨u, a, o, e.1, b1, b2, b3⟩
  · intro u hm
    obtain ⟨e, he, hu⟩ := scanEntry_complete (l := l) h.toInv hm
    obtain ⟨o, _, hv, _⟩ := hm
    exact ⟨e, List.mem_filterMap.mpr ⟨u, (h.dom u).mpr (by rw [hv]; rfl), he⟩, hu⟩

/-- C12: an index changes speed and order only.  Two handles holding the same objects, the field
    indexed in one and not in the other (`hpos`: both schemas place the field at the same leaf):
    both searches succeed and designate the same set of objects, namely the matching ones -/
theorem index_independent {E : Env} {c₁ c₂ : Coll} {l₁ l₂ : Loaded} {field : String} {fi : FieldIdx} {op : Op}
    {probe : Leaf} {pv : Val} {pos : Nat} {d : FieldDesc} (h₁ : Inv' c₁ l₁) (h₂ : Inv' c₂ l₂)
    (hview : c₁.view = c₂.view)
    (hfi : l₁.index.field? field = some fi) (hnone : l₂.index.field? field = none)
    (hres₁ : pathResolvable c₁.live field = true) (hres₂ : pathResolvable c₂.live field = true)
    (hprep₁ : E.prepare l₁.descs field probe = .v pv) (hprep₂ : E.prepare l₂.descs field probe = .v pv)
    (htag : pv.tag = fi.cast) (hdp : descPos? l₂.descs field = some (pos, d)) (hcast : d.cast = some pv.tag)
    (hpos : fi.pos = pos) (hop : op ≠ .re) :
    (Coll.search E c₁ field (some op) probe none).2.err = none ∧
    (Coll.search E c₂ field (some op) probe none).2.err = none ∧
    ∀ u, (Denotes l₁ (Coll.search E c₁ field (some op) probe none).2.fields u ↔
            Matches c₁ (fun _ => false) op pos pv u) ∧
         (Denotes l₂ (Coll.search E c₂ field (some op) probe none).2.fields u ↔
            Matches c₁ (fun _ => false) op pos pv u) := by
  have htyp : ∀ u o, c₂.view u = some o → ∃ x, o.field pos = .v x := by
    intro u o hv
    rw [← hview] at hv
    obtain ⟨x, hx, _⟩ := (h₁.typed u o hv).1 fi (field?_mem hfi)
    exact ⟨x, hpos ▸ hx⟩
  obtain ⟨s₁, e1, a1, _, a3, a4, _⟩ := search_indexed_exact h₁ hfi hres₁ hprep₁ htag hop
  obtain ⟨c₂', s₂, e2, b1, _, _, _, b3, b4, _⟩ := search_unindexed_exact h₂ hnone hres₂ hprep₂ hdp hcast hop htyp
  have hmm : ∀ u, Matches c₂ (fun _ => false) op pos pv u ↔ Matches c₁ (fun _ => false) op pos pv u := by
    intro u; unfold Matches; rw [hview]
  rw [e1, e2]
  refine ⟨a1, b1, fun u => ⟨⟨?_, ?_⟩, ⟨?_, ?_⟩⟩⟩
  · rintro ⟨e, he, hu⟩
    obtain ⟨u', hu', hm⟩ := a3 e he
    rw [hu] at hu'
    rw [hpos] at hm
    exact Option.some.inj hu' ▸ hm
  · intro hm
    rw [← hpos] at hm
    exact a4 u hm
  · rintro ⟨e, he, hu⟩
    obtain ⟨u', hu', hm⟩ := b3 e he
    rw [hu] at hu'
    exact (hmm u).mp (Option.some.inj hu' ▸ hm)
  · intro hm
    exact b4 u ((hmm u).mpr hm)

/-- the two results designate the same objects -/
theorem index_independent_set {E : Env} {c₁ c₂ : Coll} {l₁ l₂ : Loaded} {field : String} {fi : FieldIdx} {op : Op}
    {probe : Leaf} {pv : Val} {pos : Nat} {d : FieldDesc} (h₁ : Inv' c₁ l₁) (h₂ : Inv' c₂ l₂)
    (hview : c₁.view = c₂.view)
    (hfi : l₁.index.field? field = some fi) (hnone : l₂.index.field? field = none)
    (hres₁ : pathResolvable c₁.live field = true) (hres₂ : pathResolvable c₂.live field = true)
    (hprep₁ : E.prepare l₁.descs field probe = .v pv) (hprep₂ : E.prepare l₂.descs field probe = .v pv)
    (htag : pv.tag = fi.cast) (hdp : descPos? l₂.descs field = some (pos, d)) (hcast : d.cast = some pv.tag)
    (hpos : fi.pos = pos) (hop : op ≠ .re) (u : Nat) :
    Denotes l₁ (Coll.search E c₁ field (some op) probe none).2.fields u ↔
      Denotes l₂ (Coll.search E c₂ field (some op) probe none).2.fields u := by
  obtain ⟨_, _, hh⟩ := index_independent h₁ h₂ hview hfi hnone hres₁ hres₂ hprep₁ hprep₂ htag hdp hcast hpos hop
  exact (hh u).1.trans (hh u).2.symm

/-! ### D. collecting (C13, C20) -/

/-- number of leading identifiers of the list that are stored -/
def readablePrefix (c : Coll) (us : List Nat) : Nat := (us.takeWhile (fun u => (c.view u).isSome)).length

theorem readablePrefix_congr {c c' : Coll} (hv : c'.view = c.view) (us : List Nat) :
    readablePrefix c' us = readablePrefix c us := by
  unfold readablePrefix; rw [hv]

theorem readablePrefix_nil (c : Coll) : readablePrefix c [] = 0 := rfl

theorem readablePrefix_cons_none {c : Coll} {u : Nat} (us : List Nat) (hv : c.view u = none) :
    readablePrefix c (u :: us) = 0 := by
  unfold readablePrefix; rw [List.takeWhile_cons]; simp [hv]

theorem readablePrefix_cons_some {c : Coll} {u : Nat} {o : Obj} (us : List Nat) (hv : c.view u = some o) :
    readablePrefix c (u :: us) = readablePrefix c us + 1 := by
  unfold readablePrefix; rw [List.takeWhile_cons]; simp [hv]

theorem readablePrefix_le (c : Coll) (us : List Nat) : readablePrefix c us ≤ us.length := by
  unfold readablePrefix
  exact (List.takeWhile_sublist _).length_le

theorem readablePrefix_all {c : Coll} {us : List Nat} (h : ∀ u ∈ us, (c.view u).isSome) :
    readablePrefix c us = us.length := by
  induction us with
  | nil => rfl
  | cons u us ih =>
    cases hv : c.view u with
    | none => have := h u List.mem_cons_self; rw [hv] at this; cases this
    | some o =>
      rw [readablePrefix_cons_some us hv, ih (fun w hw => h w (List.mem_cons_of_mem _ hw))]
      rfl

/-- the exact behaviour of the loop of `Search.collect` on a consistent handle.  With `k` the number
    of leading identifiers that are stored: it appends the first `min lim k` objects (their CURRENT
    content), consumes as much of the limit, and fails with `notFound` iff it runs into an identifier
    that is not stored before having read one object beyond the limit. -/
theorem collectLoop_spec {l : Loaded} : ∀ (us : List Nat) {c : Coll} (lim : Nat) (out : List Obj), Inv' c l →
    ∃ c', Coll.collectLoop c us lim out =
        (c', lim - readablePrefix c us, out ++ (us.take (min lim (readablePrefix c us))).filterMap c.view,
          if readablePrefix c us = us.length ∨ lim < readablePrefix c us then none else some Err.notFound) ∧
      Inv' c' l ∧ c'.view = c.view ∧ c'.disk = c.disk := by
  intro us
  induction us with
  | nil => intro c lim out h; exact ⟨c, by simp [Coll.collectLoop, readablePrefix_nil], h, rfl, rfl⟩
  | cons u us ih =>
    intro c lim out h
    obtain ⟨h1, h2, h3, h4, _, _⟩ := get_spec' h u
    cases hv : c.view u with
    | none =>
      rw [hv] at h1
      have hg : c.get u = ((c.get u).1, Res.err Err.notFound) := Prod.ext rfl h1
      refine ⟨(c.get u).1, ?_, h2, h3, h4⟩
      rw [Coll.collectLoop, hg]
      simp [readablePrefix_cons_none us hv]
    | some o =>
      rw [hv] at h1
      have hg : c.get u = ((c.get u).1, Res.ok o) := Prod.ext rfl h1
      have hk := readablePrefix_cons_some us hv
      have hle := readablePrefix_le c us
      by_cases hl : lim > 0
      · obtain ⟨c', i1, i2, i3, i4⟩ := ih (c := (c.get u).1) (lim - 1) (out ++ [o]) h2
        refine ⟨c', ?_, i2, i3.trans h3, i4.trans h4⟩
        rw [Coll.collectLoop, hg]
        simp only [hl, if_true, i1, readablePrefix_congr h3, h3, hk]
        have hmin : min lim (readablePrefix c us + 1) = min (lim - 1) (readablePrefix c us) + 1 := by omega
        have hc : (readablePrefix c us + 1 = (u :: us).length ∨ lim < readablePrefix c us + 1) ↔
            (readablePrefix c us = us.length ∨ lim - 1 < readablePrefix c us) := by
          simp only [List.length_cons]; omega
        rw [hmin, List.take_succ_cons, List.filterMap_cons, hv]
        simp only [hc, List.append_assoc, List.singleton_append]
        congr 2
        omega
      · refine ⟨(c.get u).1, ?_, h2, h3, h4⟩
        have hl0 : lim = 0 := by omega
        rw [Coll.collectLoop, hg]
        subst hl0
        simp [hk]

/-- the identifiers `Search.collect` iterates over, in iteration order -/
def Search.order (s : Search) (l : Loaded) : List Nat := if s.reverse then (s.uuids l).reverse else s.uuids l

theorem Search.mem_order {s : Search} {l : Loaded} {u : Nat} : u ∈ s.order l ↔ u ∈ s.uuids l := by
  unfold Search.order; split <;> simp

theorem Search.order_length (s : Search) (l : Loaded) : (s.order l).length = s.fields.length := by
  unfold Search.order Search.uuids; split <;> simp

/-- `Search.Collect` on a consistent handle, in full -/
theorem collect_eq {c : Coll} {l : Loaded} (h : Inv' c l) (s : Search) (hs : s.err = none) :
    ∃ c', Coll.collect c s =
        (c', { s with limit := s.limit - readablePrefix c (s.order l) },
          ((s.order l).take (min s.limit (readablePrefix c (s.order l)))).filterMap c.view,
          if readablePrefix c (s.order l) = (s.order l).length ∨ s.limit < readablePrefix c (s.order l) then none
          else some Err.notFound) ∧
      Inv' c' l ∧ c'.view = c.view ∧ c'.disk = c.disk := by
  obtain ⟨c', h1, h2, h3, h4⟩ := collectLoop_spec (l := l) (s.order l) s.limit [] h
  refine ⟨c', ?_, h2, h3, h4⟩
  unfold Coll.collect
  split
  · next e he => rw [hs] at he; cases he
  · rw [schema_of_inv h.toInv]
    unfold Search.order at h1 ⊢
    simp only [h1, List.nil_append]

/-- an entry whose oid is still in the id table designates a stored object -/
theorem resolvable_readable {c : Coll} {l : Loaded} (h : Inv c l) {s : Search}
    (hall : ∀ e ∈ s.fields, ∃ u, l.index.uuidOf e.2 = some u) : ∀ u ∈ s.order l, (c.view u).isSome := by
  intro u hu
  rw [Search.mem_order] at hu
  obtain ⟨e, he, rfl⟩ := List.mem_map.mp hu
  obtain ⟨w, hw⟩ := hall e he
  obtain ⟨o, ho, _⟩ := uuidOf_view h hw
  rw [hw, Option.getD_some, ho]; rfl

/-- C13 / C20: with every entry still designating an object, `Collect` returns no error, the CURRENT
    content of the designated objects in the order of the entries (reversed on demand), at most
    `limit` of them, and the limit that remains -/
theorem collect_spec {c : Coll} {l : Loaded} (h : Inv' c l) (s : Search) (hs : s.err = none)
    (hall : ∀ e ∈ s.fields, ∃ u, l.index.uuidOf e.2 = some u) :
    ∃ c', Coll.collect c s =
        (c', { s with limit := s.limit - s.fields.length },
          ((if s.reverse then (s.uuids l).reverse else s.uuids l).take s.limit).filterMap c.view, none) ∧
      Inv' c' l ∧ c'.view = c.view ∧ c'.disk = c.disk := by
  obtain ⟨c', h1, h2, h3, h4⟩ := collect_eq h s hs
  refine ⟨c', ?_, h2, h3, h4⟩
  have hk := readablePrefix_all (resolvable_readable h.toInv hall)
  rw [h1, hk, Search.order_length]
  have ht : List.take (min s.limit s.fields.length) (s.order l) = List.take s.limit (s.order l) := by
    rw [← Search.order_length s l, List.take_eq_take_iff]; omega
  rw [ht]
  simp [Search.order]

theorem length_filterMap_all {α β : Type} (f : α → Option β) :
    ∀ (us : List α), (∀ u ∈ us, (f u).isSome) → (us.filterMap f).length = us.length := by
  intro us
  induction us with
  | nil => intro _; rfl
  | cons u us ih =>
    intro h
    have hu := h u List.mem_cons_self
    cases hf : f u with
    | none => rw [hf] at hu; cases hu
    | some b =>
      rw [List.filterMap_cons, hf]
      simp only [List.length_cons]
      rw [ih (fun w hw => h w (List.mem_cons_of_mem _ hw))]

/-- the number of objects `Collect` returns -/
theorem collect_length {c : Coll} {l : Loaded} (h : Inv' c l) (s : Search) (hs : s.err = none)
    (hall : ∀ e ∈ s.fields, ∃ u, l.index.uuidOf e.2 = some u) :
    (Coll.collect c s).2.2.1.length = min s.limit s.fields.length := by
  obtain ⟨c', h1, _⟩ := collect_eq h s hs
  have hr := resolvable_readable h.toInv hall
  have hk := readablePrefix_all hr
  rw [h1, hk]
  show (List.filterMap c.view _).length = _
  rw [length_filterMap_all _ _ (fun u hu => hr u (List.mem_of_mem_take hu)), List.length_take,
    Search.order_length]
  omega

/-! #### C20: whatever happened since the search was evaluated -/

/-- a resolved identifier that is stored comes from an oid that is still in the id table
    (uuid 0, the resolution of a vanished oid, is never stored) -/
theorem getD_readable {c : Coll} {l : Loaded} (h0 : c.view 0 = none) {oid : Nat}
    (hr : (c.view ((l.index.uuidOf oid).getD 0)).isSome) :
    l.index.uuidOf oid = some ((l.index.uuidOf oid).getD 0) := by
  cases hu : l.index.uuidOf oid with
  | none => rw [hu, Option.getD_none, h0] at hr; cases hr
  | some u => rfl

theorem filterMap_view_uuid {c : Coll} {l : Loaded} (h : Inv c l) (us : List Nat) :
    (us.filterMap c.view).map (·.uuid) = us.filter (fun u => (c.view u).isSome) := by
  induction us with
  | nil => rfl
  | cons u us ih =>
    rw [List.filterMap_cons, List.filter_cons]
    cases hv : c.view u with
    | none => simpa using ih
    | some o => simp [ih, (h.typed u o hv).2]

/-- distinct oids resolve to distinct stored identifiers -/
theorem uuids_filter_nodup {c : Coll} {l : Loaded} (h : Inv c l) (h0 : c.view 0 = none) (fs : FIdx)
    (hn : (fs.map (·.2)).Nodup) :
    ((fs.map (fun e => (l.index.uuidOf e.2).getD 0)).filter (fun u => (c.view u).isSome)).Nodup := by
  induction fs with
  | nil => exact List.nodup_nil
  | cons e t ih =>
    rw [List.map_cons, List.nodup_cons] at hn
    rw [List.map_cons, List.filter_cons]
    split
    · next hr =>
      rw [List.nodup_cons]
      refine ⟨?_, ih hn.2⟩
      intro hm
      obtain ⟨hm1, hm2⟩ := List.mem_filter.mp hm
      obtain ⟨e', he', heq⟩ := List.mem_map.mp hm1
      have h1 := uuidOf_mem (getD_readable h0 hr)
      have hr' : (c.view ((l.index.uuidOf e'.2).getD 0)).isSome := by rw [heq]; exact hr
      have h2 := uuidOf_mem (getD_readable h0 hr')
      rw [heq] at h2
      have := ids_oid_eq h.wf h1 h2
      exact hn.1 (this ▸ List.mem_map_of_mem he')
    · exact ih hn.2

theorem order_filter_nodup {c : Coll} {l : Loaded} (h : Inv c l) (h0 : c.view 0 = none) (s : Search)
    (hn : (s.fields.map (·.2)).Nodup) : ((s.order l).filter (fun u => (c.view u).isSome)).Nodup := by
  have := uuids_filter_nodup h h0 s.fields hn
  unfold Search.order Search.uuids
  split
  · rw [List.filter_reverse, (List.reverse_perm _).nodup_iff]; exact this
  · exact this

/-- C20: for ANY search value (evaluated earlier, whatever was written since), every object `Collect`
    returns is the current content of an object designated by an entry the search owns — an entry
    whose oid is gone resolves to identifier 0, which is not stored: never to another object — and no
    object is returned twice -/
theorem collect_only_members {c : Coll} {l : Loaded} (h : Inv' c l) (h0 : c.view 0 = none) (s : Search) :
    (∀ o ∈ (Coll.collect c s).2.2.1,
        ∃ e ∈ s.fields, ∃ u, l.index.uuidOf e.2 = some u ∧ c.view u = some o ∧ o.uuid = u) ∧
    ((s.fields.map (·.2)).Nodup → ((Coll.collect c s).2.2.1.map (·.uuid)).Nodup) := by
  cases hs : s.err with
  | some e =>
    have : (Coll.collect c s).2.2.1 = [] := by
      unfold Coll.collect
      split
      · rfl
      · next he => rw [hs] at he; cases he
    rw [this]
    exact ⟨fun o ho => absurd ho List.not_mem_nil, fun _ => List.nodup_nil⟩
  | none =>
    obtain ⟨c', h1, _⟩ := collect_eq h s hs
    rw [h1]
    constructor
    · intro o ho
      obtain ⟨u, hu, hv⟩ := List.mem_filterMap.mp ho
      have hu' := Search.mem_order.mp (List.mem_of_mem_take hu)
      obtain ⟨e, he, rfl⟩ := List.mem_map.mp hu'
      have hr : (c.view ((l.index.uuidOf e.2).getD 0)).isSome := by rw [hv]; rfl
      exact ⟨e, he, _, getD_readable h0 hr, hv, (h.typed _ o hv).2⟩
    · intro hn
      show ((List.filterMap c.view _).map (·.uuid)).Nodup
      rw [filterMap_view_uuid h.toInv]
      exact (order_filter_nodup h.toInv h0 s hn).sublist ((List.take_sublist _ _).filter _)

theorem readablePrefix_lt {c : Coll} {us : List Nat} (hex : ∃ u ∈ us, c.view u = none) :
    readablePrefix c us < us.length := by
  induction us with
  | nil => obtain ⟨u, hu, _⟩ := hex; cases hu
  | cons w us ih =>
    cases hv : c.view w with
    | none => rw [readablePrefix_cons_none us hv]; simp
    | some o =>
      rw [readablePrefix_cons_some us hv, List.length_cons]
      obtain ⟨u, hu, hn⟩ := hex
      rcases List.mem_cons.mp hu with rfl | hu
      · rw [hv] at hn; cases hn
      · exact Nat.succ_lt_succ (ih ⟨u, hu, hn⟩)

/-- … and the caller is told: when an entry's oid has vanished (and the limit does not stop the
    iteration before), `Collect` fails with `notFound` -/
theorem collect_gone_error {c : Coll} {l : Loaded} (h : Inv' c l) (h0 : c.view 0 = none) (s : Search)
    (hs : s.err = none) (hgone : ∃ e ∈ s.fields, l.index.uuidOf e.2 = none) (hlim : s.fields.length ≤ s.limit) :
    (Coll.collect c s).2.2.2 = some Err.notFound := by
  obtain ⟨c', h1, _⟩ := collect_eq h s hs
  obtain ⟨e, he, hu⟩ := hgone
  have hlt : readablePrefix c (s.order l) < (s.order l).length := by
    apply readablePrefix_lt
    refine ⟨0, Search.mem_order.mpr (List.mem_map.mpr ⟨e, he, by rw [hu]; rfl⟩), h0⟩
  rw [h1]
  have hl := Search.order_length s l
  show (if _ then none else some Err.notFound) = _
  rw [if_neg]
  omega

/-! ### C. refinements: `And`, `Or` -/

/-- the entries `And` on an indexed field returns: the field index constrained to the previous
    result, filtered by the operator -/
theorem and_indexed_eq {E : Env} {c : Coll} {l : Loaded} {field : String} {fi : FieldIdx} {op : Op}
    {probe : Leaf} {pv : Val} (h : Inv' c l) (hfi : l.index.field? field = some fi)
    (hres : pathResolvable c.live field = true) (hprep : E.prepare l.descs field probe = .v pv)
    (htag : pv.tag = fi.cast) (hop : op ≠ .re) (s0 : Search) (hs0 : s0.err = none) :
    Coll.searchAnd E c s0 field (some op) probe =
      (c, { fields := (fi.idx.constrain s0.fields).filter (fun e => Val.eval (fun _ => false) op e.1 pv),
            orderPos := some fi.pos }) := by
  unfold Coll.searchAnd Coll.search
  rw [schema_of_inv h.toInv]
  simp only [hs0, Option.isSome_none, hprep, hres, hfi, htag, Bool.not_true, Bool.false_eq_true, if_false,
    bne_self_eq_false, searchOp_filter _ op hop _ pv (constrain_desc fi.idx s0.fields)]

/-- C02 / C13 for `And` on an indexed field: the result holds exactly the entries of the field index
    whose oid occurs in the previous result and whose value satisfies the operator, each once, in
    non-increasing order of the NEW field -/
theorem and_indexed_exact {E : Env} {c : Coll} {l : Loaded} {field : String} {fi : FieldIdx} {op : Op}
    {probe : Leaf} {pv : Val} (h : Inv' c l) (hfi : l.index.field? field = some fi)
    (hres : pathResolvable c.live field = true) (hprep : E.prepare l.descs field probe = .v pv)
    (htag : pv.tag = fi.cast) (hop : op ≠ .re) (s0 : Search) (hs0 : s0.err = none)
    (hn0 : (s0.fields.map (·.2)).Nodup) :
    ∃ s, Coll.searchAnd E c s0 field (some op) probe = (c, s) ∧ s.err = none ∧ s.orderPos = some fi.pos ∧
      s.fields.Perm (fi.idx.filter (fun e => s0.fields.any (fun f => f.2 == e.2) &&
                                              Val.eval (fun _ => false) op e.1 pv)) ∧
      (∀ e, e ∈ s.fields ↔ e ∈ fi.idx ∧ (∃ f ∈ s0.fields, f.2 = e.2) ∧
                            Val.eval (fun _ => false) op e.1 pv = true) ∧
      Desc s.fields ∧ (s.fields.map (·.2)).Nodup := by
  have hw := h.wf.fields fi (field?_mem hfi)
  have hnd := hw.nodup h.wf.oidNodup
  have hp : ((fi.idx.constrain s0.fields).filter (fun e => Val.eval (fun _ => false) op e.1 pv)).Perm
      (fi.idx.filter (fun e => s0.fields.any (fun f => f.2 == e.2) && Val.eval (fun _ => false) op e.1 pv)) := by
    have := (constrain_perm fi.idx s0.fields hnd hn0).filter (fun e => Val.eval (fun _ => false) op e.1 pv)
    rw [List.filter_filter] at this
    refine this.trans (List.Perm.of_eq ?_)
    apply List.filter_congr
    intro e _
    rw [Bool.and_comm]
  refine ⟨_, and_indexed_eq h hfi hres hprep htag hop s0 hs0, rfl, rfl, hp, ?_, ?_, ?_⟩
  · intro e
    rw [hp.mem_iff, List.mem_filter, Bool.and_eq_true, List.any_eq_true]
    constructor
    · rintro ⟨h1, ⟨f, hf, hfe⟩, h3⟩
      exact ⟨h1, ⟨f, hf, by simpa using hfe⟩, h3⟩
    · rintro ⟨h1, ⟨f, hf, hfe⟩, h3⟩
      exact ⟨h1, ⟨f, hf, by simpa using hfe⟩, h3⟩
  · exact filter_desc _ _ (constrain_desc fi.idx s0.fields)
  · exact (hp.map (·.2)).nodup_iff.mpr (hnd.sublist (List.filter_sublist.map _))

/-- `And` is the intersection: the refined result designates exactly the objects of the previous
    result that satisfy the new comparison -/
theorem and_indexed_matches {E : Env} {c : Coll} {l : Loaded} {field : String} {fi : FieldIdx} {op : Op}
    {probe : Leaf} {pv : Val} (h : Inv' c l) (hfi : l.index.field? field = some fi)
    (hres : pathResolvable c.live field = true) (hprep : E.prepare l.descs field probe = .v pv)
    (htag : pv.tag = fi.cast) (hop : op ≠ .re) (s0 : Search) (hs0 : s0.err = none)
    (hn0 : (s0.fields.map (·.2)).Nodup) (u : Nat) :
    Denotes l (Coll.searchAnd E c s0 field (some op) probe).2.fields u ↔
      Denotes l s0.fields u ∧ Matches c (fun _ => false) op fi.pos pv u := by
  have hmem := field?_mem hfi
  obtain ⟨s, e1, _, _, _, hm, _⟩ := and_indexed_exact h hfi hres hprep htag hop s0 hs0 hn0
  rw [e1]
  constructor
  · rintro ⟨e, he, hu⟩
    obtain ⟨h1, ⟨f, hf, hfe⟩, h3⟩ := (hm e).mp he
    obtain ⟨u', o, a1, a2, a3⟩ := (h.refl.2 fi hmem e).mp h1
    have : u' = u := ids_uuid_eq h.wf a1 (uuidOf_mem hu)
    subst this
    exact ⟨⟨f, hf, by rw [hfe]; exact hu⟩, o, e.1, a2, a3, h3⟩
  · rintro ⟨⟨f, hf, hu⟩, o, x, b1, b2, b3⟩
    refine ⟨(x, f.2), (hm (x, f.2)).mpr ⟨?_, ⟨f, hf, rfl⟩, b3⟩, hu⟩
    exact (h.refl.2 fi hmem (x, f.2)).mpr ⟨u, o, uuidOf_mem hu, b1, b2⟩

/-- `Or`: the new result first, then the old entries whose oid is not in it — the duplicate-free
    union by oid -/
theorem or_union (E : Env) (c : Coll) (s0 : Search) (field : String) (op : Option Op) (probe : Leaf)
    (hs0 : s0.err = none) :
    (Coll.searchOr E c s0 field op probe).1 = (Coll.search E c field op probe none).1 ∧
    (Coll.searchOr E c s0 field op probe).2.err = (Coll.search E c field op probe none).2.err ∧
    (∀ e, e ∈ (Coll.searchOr E c s0 field op probe).2.fields ↔
        e ∈ (Coll.search E c field op probe none).2.fields ∨
        (e ∈ s0.fields ∧ ∀ g ∈ (Coll.search E c field op probe none).2.fields, g.2 ≠ e.2)) ∧
    (((Coll.search E c field op probe none).2.fields.map (·.2)).Nodup → (s0.fields.map (·.2)).Nodup →
        ((Coll.searchOr E c s0 field op probe).2.fields.map (·.2)).Nodup) := by
  have hf : (Coll.searchOr E c s0 field op probe).2.fields =
      (Coll.search E c field op probe none).2.fields ++
        s0.fields.filter (fun f => !((Coll.search E c field op probe none).2.fields.any (fun g => g.2 == f.2))) := by
    simp [Coll.searchOr, hs0]
  refine ⟨by simp [Coll.searchOr, hs0], by simp [Coll.searchOr, hs0], ?_, ?_⟩
  · intro e
    rw [hf]
    simp only [List.mem_append, List.mem_filter, Bool.not_eq_true', List.any_eq_false, beq_iff_eq]
  · intro h1 h2
    rw [hf, List.map_append, List.nodup_append]
    refine ⟨h1, h2.sublist (List.filter_sublist.map _), ?_⟩
    intro a ha b hb hab
    obtain ⟨g, hg, rfl⟩ := List.mem_map.mp ha
    obtain ⟨f, hf', rfl⟩ := List.mem_map.mp hb
    obtain ⟨_, hf2⟩ := List.mem_filter.mp hf'
    simp only [Bool.not_eq_true', List.any_eq_false, beq_iff_eq] at hf2
    exact hf2 g hg hab

/-- `Or` with an indexed comparison is the union: the result designates the matching objects and the
    objects of the previous result -/
theorem or_indexed_matches {E : Env} {c : Coll} {l : Loaded} {field : String} {fi : FieldIdx} {op : Op}
    {probe : Leaf} {pv : Val} (h : Inv' c l) (hfi : l.index.field? field = some fi)
    (hres : pathResolvable c.live field = true) (hprep : E.prepare l.descs field probe = .v pv)
    (htag : pv.tag = fi.cast) (hop : op ≠ .re) (s0 : Search) (hs0 : s0.err = none) :
    (Coll.searchOr E c s0 field (some op) probe).1 = c ∧
    (Coll.searchOr E c s0 field (some op) probe).2.err = none ∧
    ((s0.fields.map (·.2)).Nodup → ((Coll.searchOr E c s0 field (some op) probe).2.fields.map (·.2)).Nodup) ∧
    ∀ u, Denotes l (Coll.searchOr E c s0 field (some op) probe).2.fields u ↔
      Matches c (fun _ => false) op fi.pos pv u ∨ Denotes l s0.fields u := by
  obtain ⟨o1, o2, o3, o4⟩ := or_union E c s0 field (some op) probe hs0
  obtain ⟨n, e1, a1, _, a3, a4, _, a6⟩ := search_indexed_exact h hfi hres hprep htag hop
  rw [e1] at o1 o2 o3 o4
  refine ⟨o1, o2.trans a1, o4 a6, ?_⟩
  intro u
  constructor
  · rintro ⟨e, he, hu⟩
    rcases (o3 e).mp he with he | ⟨he, _⟩
    · obtain ⟨u', hu', hm⟩ := a3 e he
      rw [hu] at hu'
      exact Or.inl (Option.some.inj hu' ▸ hm)
    · exact Or.inr ⟨e, he, hu⟩
  · rintro (hm | ⟨f, hf, hu⟩)
    · obtain ⟨e, he, hu⟩ := a4 u hm
      exact ⟨e, (o3 e).mpr (Or.inl he), hu⟩
    · by_cases hex : ∃ g ∈ n.fields, g.2 = f.2
      · obtain ⟨g, hg, hgf⟩ := hex
        exact ⟨g, (o3 g).mpr (Or.inl hg), by rw [hgf]; exact hu⟩
      · exact ⟨f, (o3 f).mpr (Or.inr ⟨hf, fun g hg hgf => hex ⟨g, hg, hgf⟩⟩), hu⟩

/-! ### `AssignIndex` (C13) -/

/-- `AssignIndex` returns the values of the field index: in non-increasing order, one per stored
    object (the value of its field) -/
theorem assignIndex_spec {c : Coll} {l : Loaded} {field : String} {fi : FieldIdx} (h : Inv' c l)
    (hfi : l.index.field? field = some fi) :
    Coll.assignIndex c field = (c, .ok (fi.idx.map (·.1))) ∧ Desc fi.idx ∧
    (fi.idx.map (·.1)).Pairwise (fun a b => Val.lt a b = false) ∧
    (fi.idx.map (·.1)).length = l.index.uuids.length ∧
    (∀ x ∈ fi.idx.map (·.1), ∃ u o, c.view u = some o ∧ o.field fi.pos = .v x) ∧
    (∀ u o, c.view u = some o → ∃ x ∈ fi.idx.map (·.1), o.field fi.pos = .v x) := by
  have hmem := field?_mem hfi
  have hw := h.wf.fields fi hmem
  refine ⟨?_, hw.desc, ?_, ?_, ?_, ?_⟩
  · unfold Coll.assignIndex
    rw [schema_of_inv h.toInv]
    simp only [hfi]
  · rw [List.pairwise_map]; exact hw.desc
  · have := hw.oids.length_eq
    simpa [ObjIndex.uuids] using this
  · intro x hx
    obtain ⟨e, he, rfl⟩ := List.mem_map.mp hx
    obtain ⟨u, o, _, a2, a3⟩ := (h.refl.2 fi hmem e).mp he
    exact ⟨u, o, a2, a3⟩
  · intro u o hv
    obtain ⟨x, hx, _⟩ := (h.typed u o hv).1 fi hmem
    obtain ⟨oid, ho, _⟩ := view_oid h.toInv hv
    exact ⟨x, List.mem_map.mpr ⟨(x, oid), (h.refl.2 fi hmem (x, oid)).mpr ⟨u, o, oidOf_mem ho, hv, hx⟩, rfl⟩, hx⟩

/-! ### `One` (C13) -/

theorem one_empty (c : Coll) (s : Search) (hs : s.err = none) (he : s.fields = []) :
    Coll.one c s = (c, s, .err .noObject) := by
  unfold Coll.one
  split
  · next e h => rw [hs] at h; cases h
  · simp [he]

/-- `One` on a non-empty result is `Collect` with limit 1 -/
theorem one_eq_collect (c : Coll) (s : Search) (hs : s.err = none) (hne : s.fields ≠ []) :
    Coll.one c s =
      match Coll.collect c { s with limit := 1 } with
      | (c, s, _, some e) => (c, s, .err e)
      | (c, s, o :: _, none) => (c, s, .ok o)
      | (c, s, [], none) => (c, s, .panic) := by
  unfold Coll.one
  split
  · next e h => rw [hs] at h; cases h
  · have : s.fields.isEmpty = false := by
      cases hf : s.fields with
      | nil => exact absurd hf hne
      | cons _ _ => rfl
    simp only [this, Bool.false_eq_true, if_false]
    rfl

/-- what `One` does on a non-empty result: the first identifier in iteration order is read; when it
    is stored, its current content is returned unless the lookahead of the loop (one object beyond
    the limit) runs into an identifier that is not stored -/
theorem one_nonempty {c : Coll} {l : Loaded} (h : Inv' c l) (s : Search) (hs : s.err = none)
    (hne : s.fields ≠ []) :
    ∃ c' u rest, s.order l = u :: rest ∧ Inv' c' l ∧ c'.view = c.view ∧ c'.disk = c.disk ∧
      ((c.view u = none ∧ Coll.one c s = (c', { s with limit := 1 }, .err .notFound)) ∨
       (∃ o, c.view u = some o ∧
          ((Coll.collect c { s with limit := 1 } = (c', { s with limit := 0 }, [o], none) ∧
              Coll.one c s = (c', { s with limit := 0 }, .ok o)) ∨
           (Coll.one c s = (c', { s with limit := 0 }, .err .notFound) ∧
              ∃ w ∈ rest, c.view w = none)))) := by
  obtain ⟨c', h1, h2, h3, h4⟩ := collect_eq h { s with limit := 1 } hs
  have ho : Search.order { s with limit := 1 } l = s.order l := rfl
  rw [ho] at h1
  cases hord : s.order l with
  | nil =>
    have := Search.order_length s l
    rw [hord] at this
    exact absurd (List.eq_nil_of_length_eq_zero this.symm) hne
  | cons u rest =>
    refine ⟨c', u, rest, rfl, h2, h3, h4, ?_⟩
    rw [one_eq_collect c s hs hne, h1, hord]
    cases hv : c.view u with
    | none =>
      left
      refine ⟨rfl, ?_⟩
      rw [readablePrefix_cons_none rest hv]
      simp
    | some o =>
      right
      refine ⟨o, rfl, ?_⟩
      rw [readablePrefix_cons_some rest hv]
      have hm : min 1 (readablePrefix c rest + 1) = 1 := by omega
      have hl : 1 - (readablePrefix c rest + 1) = 0 := by omega
      rw [hm, hl, List.take_succ_cons, List.take_zero, List.filterMap_cons, hv]
      by_cases hk : readablePrefix c rest + 1 = (u :: rest).length ∨ 1 < readablePrefix c rest + 1
      · left
        rw [if_pos hk]
        exact ⟨rfl, rfl⟩
      · right
        rw [if_neg hk]
        refine ⟨rfl, ?_⟩
        have hk0 : readablePrefix c rest = 0 := by omega
        have hlen : rest ≠ [] := by
          intro hr; subst hr; simp [readablePrefix_nil] at hk
        cases rest with
        | nil => exact absurd rfl hlen
        | cons w rest' =>
          refine ⟨w, List.mem_cons_self, ?_⟩
          cases hw : c.view w with
          | none => rfl
          | some ow => rw [readablePrefix_cons_some rest' hw] at hk0; omega

/-- C13 for `One`: `noObject` exactly on an empty result; otherwise (every entry still designating an
    object) the first element `Collect` would return with limit 1, i.e. the current content of the
    object designated by the first entry in iteration order -/
theorem one_spec {c : Coll} {l : Loaded} (h : Inv' c l) (s : Search) (hs : s.err = none) :
    ((Coll.one c s).2.2 = .err .noObject ↔ s.fields = []) ∧
    (s.fields ≠ [] → (∀ e ∈ s.fields, ∃ u, l.index.uuidOf e.2 = some u) →
      ∃ c' u o, (s.order l).head? = some u ∧ c.view u = some o ∧
        Coll.collect c { s with limit := 1 } = (c', { s with limit := 0 }, [o], none) ∧
        Coll.one c s = (c', { s with limit := 0 }, .ok o) ∧
        Inv' c' l ∧ c'.view = c.view ∧ c'.disk = c.disk) := by
  constructor
  · constructor
    · intro hr
      apply Classical.byContradiction
      intro hne
      obtain ⟨c', u, rest, _, _, _, _, hc⟩ := one_nonempty h s hs hne
      rcases hc with ⟨_, e1⟩ | ⟨o, _, ⟨_, e1⟩ | ⟨e1, _⟩⟩ <;> rw [e1] at hr <;> cases hr
    · intro he
      rw [one_empty c s hs he]
  · intro hne hall
    obtain ⟨c', u, rest, hord, i1, i2, i3, hc⟩ := one_nonempty h s hs hne
    have hr := resolvable_readable h.toInv hall
    rw [hord] at hr
    rcases hc with ⟨hv, _⟩ | ⟨o, hv, ⟨e1, e2⟩ | ⟨_, w, hw, hwn⟩⟩
    · have := hr u List.mem_cons_self
      rw [hv] at this; cases this
    · exact ⟨c', u, o, by rw [hord]; rfl, hv, e1, e2, i1, i2, i3⟩
    · have := hr w (List.mem_cons_of_mem _ hw)
      rw [hwn] at this; cases this

/-! ### E. `Search.Delete` -/

/-- the private delete (no commit) on a consistent handle: `u` leaves the view, nothing else moves -/
theorem deleteCore_spec {c : Coll} {l : Loaded} (h : Inv' c l) (u : Nat) :
    ∃ c', c.deleteCore l u = (c', .ok { l with index := l.index.deleteByUUID u }) ∧
      Inv' c' { l with index := l.index.deleteByUUID u } ∧ c'.view = updView c.view u none := by
  have hds : delState c l u = (c.deleteCore l u).1.commit { l with index := l.index.deleteByUUID u } := rfl
  have hm : (c.deleteCore l u).1.mem = some { l with index := l.index.deleteByUUID u } := by
    have := delState_mem c l u
    rwa [hds, commit_mem] at this
  have hp : (c.deleteCore l u).1.pending = c.pending.erase u := by
    have := delState_pending c l u
    rw [hds, commit_pending] at this
    rw [this]
    cases hmc : l.settings.mustCache with
    | true => rfl
    | false => rw [h.syncNoPend (mustCache_false hmc).2]; rfl
  have hc : (c.deleteCore l u).1.cache = c.cache.erase u := by
    have := delState_cache c l u
    rw [hds, commit_cache] at this
    rw [this]
    cases hmc : l.settings.mustCache with
    | true => rfl
    | false => rw [h.cacheOff hmc]; rfl
  have hf : (c.deleteCore l u).1.disk.files = c.disk.files.erase u := by
    have := delState_files c l u
    rwa [hds, commit_files] at this
  obtain ⟨h1, h2⟩ := inv_delete h.toInv u hm hp hf hc
  refine ⟨(c.deleteCore l u).1, rfl, ⟨h1, ?_⟩, h2⟩
  intro hmc
  change l.settings.mustCache = false at hmc
  rw [hc, h.cacheOff hmc]; rfl

/-- the loop of `DeleteObjects`: every identifier of the list leaves the view (an identifier that is
    not stored, such as 0, is harmless) -/
theorem deleteList_go_spec : ∀ (us : List Nat) {c : Coll} {l : Loaded}, Inv' c l →
    ∃ c' l', Coll.deleteList.go c l us = (c', l', .ok ()) ∧ Inv' c' l' ∧
      c'.view = (fun w => if w ∈ us then none else c.view w) ∧
      l'.descs = l.descs ∧ l'.settings = l.settings := by
  intro us
  induction us with
  | nil => intro c l h; exact ⟨c, l, rfl, h, by funext w; simp, rfl, rfl⟩
  | cons u us ih =>
    intro c l h
    obtain ⟨_, g2, g3, _⟩ := get_spec' h u
    obtain ⟨c2, d1, d2, d3⟩ := deleteCore_spec g2 u
    obtain ⟨c', l', i1, i2, i3, i4, i5⟩ := ih d2
    refine ⟨c', l', ?_, i2, ?_, i4, i5⟩
    · rw [Coll.deleteList.go]
      simp only [d1, i1]
    · rw [i3, d3, g3]
      funext w
      rw [updView_apply]
      by_cases hw : w = u
      · simp [hw]
      · by_cases hw' : w ∈ us <;> simp [hw, hw']

theorem deleteList_spec {c : Coll} {l : Loaded} (h : Inv' c l) (us : List Nat) :
    ∃ c' l', c.deleteList us = (c', .ok ()) ∧ Inv' c' l' ∧
      c'.view = (fun w => if w ∈ us then none else c.view w) ∧
      l'.descs = l.descs ∧ l'.settings = l.settings := by
  obtain ⟨c', l', i1, i2, i3, i4, i5⟩ := deleteList_go_spec us h
  refine ⟨c'.commit l', l', ?_, ?_, ?_, i4, i5⟩
  · unfold Coll.deleteList
    rw [schema_of_inv h.toInv]
    simp only [i1]
  · exact i2.congr (commit_mem _ _) (commit_files _ _) (commit_pending _ _) (commit_cache _ _)
  · rw [← i3]
    exact view_congr (commit_pending _ _) (commit_files _ _)

/-- `Search.Delete` deletes exactly the designated objects: the view loses every identifier the
    entries resolve to and nothing else; the call succeeds and the handle stays consistent -/
theorem searchDelete_spec {c : Coll} {l : Loaded} (h : Inv' c l) (s : Search) (hs : s.err = none) :
    ∃ c' l', Coll.searchDelete c s = (c', .ok ()) ∧ Inv' c' l' ∧
      c'.view = (fun w => if w ∈ s.uuids l then none else c.view w) ∧
      l'.descs = l.descs ∧ l'.settings = l.settings := by
  obtain ⟨c', l', i1, i2, i3, i4, i5⟩ := deleteList_spec h (s.uuids l)
  refine ⟨c', l', ?_, i2, i3, i4, i5⟩
  unfold Coll.searchDelete
  split
  · next e he => rw [hs] at he; cases he
  · rw [schema_of_inv h.toInv]
    exact i1

/-- in terms of the entries: the objects designated by an entry are gone, every other identifier
    is untouched (`h0`: an entry whose oid has vanished resolves to identifier 0, which is not stored) -/
theorem searchDelete_view {c : Coll} {l : Loaded} (h : Inv' c l) (h0 : c.view 0 = none) (s : Search)
    (hs : s.err = none) (w : Nat) :
    (Denotes l s.fields w → (Coll.searchDelete c s).1.view w = none) ∧
    (¬ Denotes l s.fields w → (Coll.searchDelete c s).1.view w = c.view w) := by
  obtain ⟨c', l', i1, _, i3, _⟩ := searchDelete_spec h s hs
  rw [i1, i3]
  constructor
  · rintro ⟨e, he, hu⟩
    have hm : w ∈ s.uuids l := List.mem_map.mpr ⟨e, he, by rw [hu]; rfl⟩
    simp only [hm, if_true]
  · intro hd
    by_cases hm : w ∈ s.uuids l
    · simp only [hm, if_true]
      obtain ⟨e, he, hw⟩ := List.mem_map.mp hm
      cases hu : l.index.uuidOf e.2 with
      | some u =>
        rw [hu, Option.getD_some] at hw
        exact absurd ⟨e, he, hw ▸ hu⟩ hd
      | none =>
        rw [hu, Option.getD_none] at hw
        rw [← hw, h0]
    · simp only [hm, if_false]

/-! ### why `collect_only_members` needs `c.view 0 = none`, and non-vacuity

  A consistent handle holding ONE object, stored under identifier 0 (oid 0), field `A` indexed and
  field `B` not.  A search value owning an entry whose oid (99) is not in the id table resolves it to
  identifier 0 and `Collect` returns the object stored there, which no entry of the search designates:
  without the hypothesis `c.view 0 = none` the statement of `collect_only_members` is false.  (The
  uuid generator never draws the empty uuid, so the hypothesis holds of every reachable state.) -/

namespace SearchCounter

def obj0 : Obj := { uuid := 0, shape := "", vals := [.v (.i64 7), .v (.str [1])] }
def fiA : FieldIdx := { name := "A", pos := 0, cast := .i64, cons := { index := true }, idx := [(.i64 7, 0)] }
def l1 : Loaded :=
  { descs := [{ path := "A", type := "int64", cast := some .i64, cons := { index := true } },
              { path := "B", type := "string", cast := some .str, cons := {} }],
    settings := {}, index := { next := 1, ids := [(0, 0)], fields := [fiA] } }
def c1 : Coll :=
  { live := [("A", "int64"), ("B", "string")], disk := { dir := true, files := [(0, obj0)] }, mem := some l1 }
def E1 : Env := { up := id, lo := id, transform := id, validate := fun _ => true, compile := fun _ => none,
                  serialisable := fun _ => true }
/-- a search value whose only entry has an oid that is not (or no longer) in the id table -/
def stale : Search := { fields := [(.i64 7, 99)] }

theorem view1 (u : Nat) : c1.view u = if 0 = u then some obj0 else none := by
  rw [view_eq]
  show (match OMap.get? [] u with | some o => some o | none => OMap.get? [(0, obj0)] u) = _
  rw [OMap.get?_nil, OMap.get?_cons, OMap.get?_nil]

theorem view1_some {u : Nat} {o : Obj} (hv : c1.view u = some o) : u = 0 ∧ o = obj0 := by
  rw [view1] at hv
  by_cases hu : 0 = u
  · rw [if_pos hu] at hv
    exact ⟨hu.symm, (Option.some.inj hv).symm⟩
  · rw [if_neg hu] at hv; cases hv

theorem inv1 : Inv' c1 l1 := by
  have hfA : ∀ fi ∈ l1.index.fields, fi = fiA := fun fi hfi => by simpa [l1] using hfi
  refine ⟨⟨rfl, ⟨by decide, by decide, by decide, ?_⟩, ⟨?_, ?_⟩, ?_, ?_, (fun u o hg => by cases hg),
    (fun u o hp => by cases hp), fun _ => rfl, (fun hs => by cases hs), ?_, OMap.Keyed.nil, OMap.Keyed.nil⟩,
    fun _ => rfl⟩
  · intro fi hfi
    rw [hfA fi hfi]
    refine ⟨by unfold Desc; decide, List.Perm.refl _, ?_, fun hq => by cases hq⟩
    intro e he
    have : e = (.i64 7, 0) := by simpa [fiA] using he
    rw [this]; rfl
  · intro p hp
    have : p = (0, 0) := by simpa [l1] using hp
    subst this
    exact ⟨obj0, rfl, rfl⟩
  · intro fi hfi e
    rw [hfA fi hfi]
    constructor
    · intro he
      have : e = (.i64 7, 0) := by simpa [fiA] using he
      subst this
      exact ⟨0, obj0, by decide, rfl, rfl⟩
    · rintro ⟨u, o, h1, h2, h3⟩
      obtain ⟨rfl, rfl⟩ := view1_some h2
      have h4 : e.2 = 0 := by simpa [l1] using h1
      have h5 : e.1 = .i64 7 := by
        have : Leaf.v (Val.i64 7) = Leaf.v e.1 := h3
        injection this with this
        exact this.symm
      obtain ⟨a, b⟩ := e
      simp only at h4 h5
      subst h4 h5
      exact List.mem_cons_self
  · intro u
    rw [view1]
    show u ∈ [0] ↔ _
    by_cases hu : 0 = u
    · simp [hu.symm]
    · have : u ≠ 0 := fun e => hu e.symm
      simp [hu, this]
  · intro u o hv
    obtain ⟨rfl, rfl⟩ := view1_some hv
    refine ⟨?_, rfl⟩
    intro fi hfi
    rw [hfA fi hfi]
    exact ⟨.i64 7, rfl, rfl⟩
  · intro p hp
    have : p = (0, obj0) := by simpa [c1] using hp
    subst this; rfl

end SearchCounter

open SearchCounter in
/-- `collect_only_members` without `c.view 0 = none` is false -/
theorem collect_only_members_counterexample :
    ∃ (c : Coll) (l : Loaded) (s : Search), Inv' c l ∧ s.err = none ∧
      ¬ ∀ o ∈ (Coll.collect c s).2.2.1, ∃ e ∈ s.fields, ∃ u, l.index.uuidOf e.2 = some u ∧ c.view u = some o := by
  refine ⟨c1, l1, stale, inv1, rfl, ?_⟩
  intro hall
  have hc : (Coll.collect c1 stale).2.2.1 = [obj0] := by decide
  obtain ⟨e, he, u, hu, _⟩ := hall obj0 (by rw [hc]; exact List.mem_cons_self)
  have : e = (.i64 7, 99) := by simpa [stale] using he
  subst this
  cases hu

open SearchCounter in
/-- non-vacuity of A: the hypotheses of `search_indexed_exact` hold of a concrete handle -/
example : ∃ s, Coll.search E1 c1 "A" (some .ge) (.v (.i64 3)) none = (c1, s) ∧ s.fields = [(.i64 7, 0)] :=
  ⟨_, search_indexed_eq (E := E1) (fi := fiA) (pv := .i64 3) inv1 rfl (by decide) rfl rfl (by decide), by decide⟩

open SearchCounter in
/-- non-vacuity of B: the hypotheses of `search_unindexed_exact` hold of a concrete handle -/
example : ∃ c' s, Coll.search E1 c1 "B" (some .eq) (.v (.str [1])) none = (c', s) ∧ s.err = none ∧
    ∀ u, Matches c1 (fun _ => false) .eq 1 (.str [1]) u → ∃ e ∈ s.fields, l1.index.uuidOf e.2 = some u := by
  obtain ⟨c', s, h1, h2, _, _, _, _, h3, _⟩ :=
    search_unindexed_exact (E := E1) (op := .eq) (probe := .v (.str [1])) (pv := .str [1]) (pos := 1)
      (d := { path := "B", type := "string", cast := some .str, cons := {} }) (field := "B")
      inv1 (by decide) (by decide) rfl rfl rfl (by decide)
      (fun u o hv => by obtain ⟨_, rfl⟩ := view1_some hv; exact ⟨.str [1], rfl⟩)
  exact ⟨c', s, h1, h2, h3⟩

end Sod
