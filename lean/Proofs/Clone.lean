/-
  Clone.lean — C14 "stored values are isolated from caller memory".

  `clone` (mirror of `cloneValue`) returns a value that is equal to the original up to identities
  (`clone_strip`), all of whose references reachable through exported fields are newly allocated
  (`clone_tags_fresh`) and pairwise distinct (`clone_tags_nodup`).  A write through a reference a
  value does not hold leaves it unchanged (`mutate_of_not_mem`).  Hence, for objects without
  references in unexported fields (`UnexpFree`): caller writes after `put` do not reach the store
  (`put_isolated`), writes through a value returned by `get` do not reach the store
  (`get_isolated`), two `get`s share nothing (`two_gets_disjoint`), and `get` returns what was `put`
  up to identities (`get_value`, `put_get_roundtrip`).  The restriction is necessary:
  `unexported_shared`, `put_not_isolated_unexported`.
-/
import SodModel.Clone
namespace Sod.Clone

/-! ## unfolding lemmas for `clone` in projection form -/

@[simp] theorem clone_prim (n : Nat) (x : Int) : clone n (.prim x) = (.prim x, n) := by rw [clone]
@[simp] theorem clone_nil (n : Nat) : clone n .nil = (.nil, n) := by rw [clone]
theorem clone_ptr (n t : Nat) (v : V) :
    clone n (.ptr t v) = (.ptr n (clone (n + 1) v).1, (clone (n + 1) v).2) := by rw [clone]
theorem clone_slice (n t : Nat) (vs : List V) :
    clone n (.slice t vs) = (.slice n (cloneList (n + 1) vs).1, (cloneList (n + 1) vs).2) := by rw [clone]
theorem clone_map (n t : Nat) (kvs : List (Int × V)) :
    clone n (.map t kvs) = (.map n (cloneKVs (n + 1) kvs).1, (cloneKVs (n + 1) kvs).2) := by rw [clone]
theorem clone_struct (n : Nat) (fs : List (Bool × V)) :
    clone n (.struct fs) = (.struct (cloneFields n fs).1, (cloneFields n fs).2) := by rw [clone]
theorem clone_arr (n : Nat) (vs : List V) :
    clone n (.arr vs) = (.arr (cloneList n vs).1, (cloneList n vs).2) := by rw [clone]
@[simp] theorem cloneList_nil (n : Nat) : cloneList n [] = ([], n) := by rw [cloneList]
theorem cloneList_cons (n : Nat) (v : V) (vs : List V) :
    cloneList n (v :: vs) =
      ((clone n v).1 :: (cloneList (clone n v).2 vs).1, (cloneList (clone n v).2 vs).2) := by
  rw [cloneList]
@[simp] theorem cloneKVs_nil (n : Nat) : cloneKVs n [] = ([], n) := by rw [cloneKVs]
theorem cloneKVs_cons (n : Nat) (k : Int) (v : V) (kvs : List (Int × V)) :
    cloneKVs n ((k, v) :: kvs) =
      ((k, (clone n v).1) :: (cloneKVs (clone n v).2 kvs).1, (cloneKVs (clone n v).2 kvs).2) := by
  rw [cloneKVs]
@[simp] theorem cloneFields_nil (n : Nat) : cloneFields n [] = ([], n) := by rw [cloneFields]
theorem cloneFields_true (n : Nat) (v : V) (fs : List (Bool × V)) :
    cloneFields n ((true, v) :: fs) =
      ((true, (clone n v).1) :: (cloneFields (clone n v).2 fs).1, (cloneFields (clone n v).2 fs).2) := by
  rw [cloneFields]
theorem cloneFields_false (n : Nat) (v : V) (fs : List (Bool × V)) :
    cloneFields n ((false, v) :: fs) = ((false, v) :: (cloneFields n fs).1, (cloneFields n fs).2) := by
  rw [cloneFields]

mutual
theorem clone_strip (n : Nat) : (v : V) → strip (clone n v).1 = strip v
  | .prim x => by simp
  | .nil => by simp
  | .ptr t v => by simp only [clone_ptr, strip, clone_strip (n + 1) v]
  | .slice t vs => by simp only [clone_slice, strip, cloneList_strip (n + 1) vs]
  | .map t kvs => by simp only [clone_map, strip, cloneKVs_strip (n + 1) kvs]
  | .struct fs => by simp only [clone_struct, strip, cloneFields_strip n fs]
  | .arr vs => by simp only [clone_arr, strip, cloneList_strip n vs]
theorem cloneList_strip (n : Nat) : (vs : List V) → stripList (cloneList n vs).1 = stripList vs
  | [] => by simp
  | v :: vs => by simp only [cloneList_cons, stripList, clone_strip n v, cloneList_strip _ vs]
theorem cloneKVs_strip (n : Nat) : (kvs : List (Int × V)) → stripKVs (cloneKVs n kvs).1 = stripKVs kvs
  | [] => by simp
  | (k, v) :: kvs => by simp only [cloneKVs_cons, stripKVs, clone_strip n v, cloneKVs_strip _ kvs]
theorem cloneFields_strip (n : Nat) :
    (fs : List (Bool × V)) → stripFields (cloneFields n fs).1 = stripFields fs
  | [] => by simp
  | (true, v) :: fs => by simp only [cloneFields_true, stripFields, clone_strip n v, cloneFields_strip _ fs]
  | (false, v) :: fs => by simp only [cloneFields_false, stripFields, cloneFields_strip _ fs]
end

/-! ## 2. the copy's exported references are new and pairwise distinct -/

mutual
theorem clone_next_ge (n : Nat) : (v : V) → n ≤ (clone n v).2
  | .prim x => by simp
  | .nil => by simp
  | .ptr t v => by have := clone_next_ge (n + 1) v; simp only [clone_ptr]; omega
  | .slice t vs => by have := cloneList_next_ge (n + 1) vs; simp only [clone_slice]; omega
  | .map t kvs => by have := cloneKVs_next_ge (n + 1) kvs; simp only [clone_map]; omega
  | .struct fs => by have := cloneFields_next_ge n fs; simp only [clone_struct]; omega
  | .arr vs => by have := cloneList_next_ge n vs; simp only [clone_arr]; omega
theorem cloneList_next_ge (n : Nat) : (vs : List V) → n ≤ (cloneList n vs).2
  | [] => by simp
  | v :: vs => by
    have := clone_next_ge n v; have := cloneList_next_ge (clone n v).2 vs
    simp only [cloneList_cons]; omega
theorem cloneKVs_next_ge (n : Nat) : (kvs : List (Int × V)) → n ≤ (cloneKVs n kvs).2
  | [] => by simp
  | (k, v) :: kvs => by
    have := clone_next_ge n v; have := cloneKVs_next_ge (clone n v).2 kvs
    simp only [cloneKVs_cons]; omega
theorem cloneFields_next_ge (n : Nat) : (fs : List (Bool × V)) → n ≤ (cloneFields n fs).2
  | [] => by simp
  | (true, v) :: fs => by
    have := clone_next_ge n v; have := cloneFields_next_ge (clone n v).2 fs
    simp only [cloneFields_true]; omega
  | (false, v) :: fs => by
    have := cloneFields_next_ge n fs
    simp only [cloneFields_false]; omega
end

mutual
theorem clone_tags_fresh (n : Nat) : (v : V) → ∀ t ∈ tagsExp (clone n v).1, n ≤ t ∧ t < (clone n v).2
  | .prim x => by simp [tagsExp]
  | .nil => by simp [tagsExp]
  | .ptr t v => by
    have ih := clone_tags_fresh (n + 1) v; have := clone_next_ge (n + 1) v
    simp only [clone_ptr, tagsExp, List.mem_cons]
    rintro t (rfl | h)
    · omega
    · have := ih t h; omega
  | .slice t vs => by
    have ih := cloneList_tags_fresh (n + 1) vs; have := cloneList_next_ge (n + 1) vs
    simp only [clone_slice, tagsExp, List.mem_cons]
    rintro t (rfl | h)
    · omega
    · have := ih t h; omega
  | .map t kvs => by
    have ih := cloneKVs_tags_fresh (n + 1) kvs; have := cloneKVs_next_ge (n + 1) kvs
    simp only [clone_map, tagsExp, List.mem_cons]
    rintro t (rfl | h)
    · omega
    · have := ih t h; omega
  | .struct fs => by simpa only [clone_struct, tagsExp] using cloneFields_tags_fresh n fs
  | .arr vs => by simpa only [clone_arr, tagsExp] using cloneList_tags_fresh n vs
theorem cloneList_tags_fresh (n : Nat) :
    (vs : List V) → ∀ t ∈ tagsExpList (cloneList n vs).1, n ≤ t ∧ t < (cloneList n vs).2
  | [] => by simp [tagsExpList]
  | v :: vs => by
    have ih1 := clone_tags_fresh n v; have ih2 := cloneList_tags_fresh (clone n v).2 vs
    have := clone_next_ge n v; have := cloneList_next_ge (clone n v).2 vs
    simp only [cloneList_cons, tagsExpList, List.mem_append]
    rintro t (h | h)
    · have := ih1 t h; omega
    · have := ih2 t h; omega
theorem cloneKVs_tags_fresh (n : Nat) :
    (kvs : List (Int × V)) → ∀ t ∈ tagsExpKVs (cloneKVs n kvs).1, n ≤ t ∧ t < (cloneKVs n kvs).2
  | [] => by simp [tagsExpKVs]
  | (k, v) :: kvs => by
    have ih1 := clone_tags_fresh n v; have ih2 := cloneKVs_tags_fresh (clone n v).2 kvs
    have := clone_next_ge n v; have := cloneKVs_next_ge (clone n v).2 kvs
    simp only [cloneKVs_cons, tagsExpKVs, List.mem_append]
    rintro t (h | h)
    · have := ih1 t h; omega
    · have := ih2 t h; omega
theorem cloneFields_tags_fresh (n : Nat) :
    (fs : List (Bool × V)) → ∀ t ∈ tagsExpFields (cloneFields n fs).1, n ≤ t ∧ t < (cloneFields n fs).2
  | [] => by simp [tagsExpFields]
  | (true, v) :: fs => by
    have ih1 := clone_tags_fresh n v; have ih2 := cloneFields_tags_fresh (clone n v).2 fs
    have := clone_next_ge n v; have := cloneFields_next_ge (clone n v).2 fs
    simp only [cloneFields_true, tagsExpFields, List.mem_append]
    rintro t (h | h)
    · have := ih1 t h; omega
    · have := ih2 t h; omega
  | (false, v) :: fs => by
    simpa only [cloneFields_false, tagsExpFields] using cloneFields_tags_fresh n fs
end

/-- two consecutive allocations never overlap -/
private theorem nodup_append_of_ranges {l₁ l₂ : List Nat} {a b c : Nat}
    (h₁ : l₁.Nodup) (h₂ : l₂.Nodup) (r₁ : ∀ t ∈ l₁, a ≤ t ∧ t < b) (r₂ : ∀ t ∈ l₂, b ≤ t ∧ t < c) :
    (l₁ ++ l₂).Nodup := by
  rw [List.nodup_append]
  refine ⟨h₁, h₂, fun x hx y hy => ?_⟩
  have := r₁ x hx; have := r₂ y hy; omega

private theorem nodup_cons_of_range {l : List Nat} {n c : Nat}
    (h : l.Nodup) (r : ∀ t ∈ l, n + 1 ≤ t ∧ t < c) : (n :: l).Nodup := by
  rw [List.nodup_cons]
  refine ⟨fun hm => ?_, h⟩
  have := r n hm; omega

mutual
theorem clone_tags_nodup (n : Nat) : (v : V) → (tagsExp (clone n v).1).Nodup
  | .prim x => by simp [tagsExp]
  | .nil => by simp [tagsExp]
  | .ptr t v => by
    simp only [clone_ptr, tagsExp]
    exact nodup_cons_of_range (clone_tags_nodup (n + 1) v) (clone_tags_fresh (n + 1) v)
  | .slice t vs => by
    simp only [clone_slice, tagsExp]
    exact nodup_cons_of_range (cloneList_tags_nodup (n + 1) vs) (cloneList_tags_fresh (n + 1) vs)
  | .map t kvs => by
    simp only [clone_map, tagsExp]
    exact nodup_cons_of_range (cloneKVs_tags_nodup (n + 1) kvs) (cloneKVs_tags_fresh (n + 1) kvs)
  | .struct fs => by simpa only [clone_struct, tagsExp] using cloneFields_tags_nodup n fs
  | .arr vs => by simpa only [clone_arr, tagsExp] using cloneList_tags_nodup n vs
theorem cloneList_tags_nodup (n : Nat) : (vs : List V) → (tagsExpList (cloneList n vs).1).Nodup
  | [] => by simp [tagsExpList]
  | v :: vs => by
    simp only [cloneList_cons, tagsExpList]
    exact nodup_append_of_ranges (clone_tags_nodup n v) (cloneList_tags_nodup _ vs)
      (clone_tags_fresh n v) (cloneList_tags_fresh _ vs)
theorem cloneKVs_tags_nodup (n : Nat) : (kvs : List (Int × V)) → (tagsExpKVs (cloneKVs n kvs).1).Nodup
  | [] => by simp [tagsExpKVs]
  | (k, v) :: kvs => by
    simp only [cloneKVs_cons, tagsExpKVs]
    exact nodup_append_of_ranges (clone_tags_nodup n v) (cloneKVs_tags_nodup _ kvs)
      (clone_tags_fresh n v) (cloneKVs_tags_fresh _ kvs)
theorem cloneFields_tags_nodup (n : Nat) :
    (fs : List (Bool × V)) → (tagsExpFields (cloneFields n fs).1).Nodup
  | [] => by simp [tagsExpFields]
  | (true, v) :: fs => by
    simp only [cloneFields_true, tagsExpFields]
    exact nodup_append_of_ranges (clone_tags_nodup n v) (cloneFields_tags_nodup _ fs)
      (clone_tags_fresh n v) (cloneFields_tags_fresh _ fs)
  | (false, v) :: fs => by
    simpa only [cloneFields_false, tagsExpFields] using cloneFields_tags_nodup n fs
end

/-! ## 3. a write through a reference the value does not hold leaves it unchanged -/

mutual
theorem mutate_of_not_mem (t : Nat) (w : V) : (v : V) → t ∉ tagsAll v → mutate t w v = v
  | .prim x, _ => by simp [mutate]
  | .nil, _ => by simp [mutate]
  | .ptr t' v, h => by
    simp only [tagsAll, List.mem_cons, not_or] at h
    have h1 : ¬ t' = t := fun e => h.1 e.symm
    simp only [mutate, if_neg h1, mutate_of_not_mem t w v h.2]
  | .slice t' vs, h => by
    simp only [tagsAll, List.mem_cons, not_or] at h
    have h1 : ¬ t' = t := fun e => h.1 e.symm
    simp only [mutate, if_neg h1, mutateList_of_not_mem t w vs h.2]
  | .map t' kvs, h => by
    simp only [tagsAll, List.mem_cons, not_or] at h
    have h1 : ¬ t' = t := fun e => h.1 e.symm
    simp only [mutate, if_neg h1, mutateKVs_of_not_mem t w kvs h.2]
  | .struct fs, h => by
    simp only [tagsAll] at h
    simp only [mutate, mutateFields_of_not_mem t w fs h]
  | .arr vs, h => by
    simp only [tagsAll] at h
    simp only [mutate, mutateList_of_not_mem t w vs h]
theorem mutateList_of_not_mem (t : Nat) (w : V) :
    (vs : List V) → t ∉ tagsAllList vs → mutateList t w vs = vs
  | [], _ => by simp [mutateList]
  | v :: vs, h => by
    simp only [tagsAllList, List.mem_append, not_or] at h
    simp only [mutateList, mutate_of_not_mem t w v h.1, mutateList_of_not_mem t w vs h.2]
theorem mutateKVs_of_not_mem (t : Nat) (w : V) :
    (kvs : List (Int × V)) → t ∉ tagsAllKVs kvs → mutateKVs t w kvs = kvs
  | [], _ => by simp [mutateKVs]
  | (k, v) :: kvs, h => by
    simp only [tagsAllKVs, List.mem_append, not_or] at h
    simp only [mutateKVs, mutate_of_not_mem t w v h.1, mutateKVs_of_not_mem t w kvs h.2]
theorem mutateFields_of_not_mem (t : Nat) (w : V) :
    (fs : List (Bool × V)) → t ∉ tagsAllFields fs → mutateFields t w fs = fs
  | [], _ => by simp [mutateFields]
  | (e, v) :: fs, h => by
    simp only [tagsAllFields, List.mem_append, not_or] at h
    simp only [mutateFields, mutate_of_not_mem t w v h.1, mutateFields_of_not_mem t w fs h.2]
end

/-- no unexported field of `v` holds a reference -/
def UnexpFree (v : V) : Prop := tagsAll v = tagsExp v

theorem mutate_of_not_mem_exp (t : Nat) (w v : V) (hu : tagsAll v = tagsExp v) (h : t ∉ tagsExp v) :
    mutate t w v = v :=
  mutate_of_not_mem t w v (hu ▸ h)

/-! `tagsExp` is a sub-enumeration of `tagsAll`, so the equation `tagsAll = tagsExp` splits along
    every constructor -/

mutual
theorem tagsExp_length_le : (v : V) → (tagsExp v).length ≤ (tagsAll v).length
  | .prim x => by simp [tagsExp, tagsAll]
  | .nil => by simp [tagsExp, tagsAll]
  | .ptr t v => by have := tagsExp_length_le v; simp only [tagsExp, tagsAll, List.length_cons]; omega
  | .slice t vs => by
    have := tagsExpList_length_le vs; simp only [tagsExp, tagsAll, List.length_cons]; omega
  | .map t kvs => by
    have := tagsExpKVs_length_le kvs; simp only [tagsExp, tagsAll, List.length_cons]; omega
  | .struct fs => by simpa only [tagsExp, tagsAll] using tagsExpFields_length_le fs
  | .arr vs => by simpa only [tagsExp, tagsAll] using tagsExpList_length_le vs
theorem tagsExpList_length_le : (vs : List V) → (tagsExpList vs).length ≤ (tagsAllList vs).length
  | [] => by simp [tagsExpList, tagsAllList]
  | v :: vs => by
    have := tagsExp_length_le v; have := tagsExpList_length_le vs
    simp only [tagsExpList, tagsAllList, List.length_append]; omega
theorem tagsExpKVs_length_le :
    (kvs : List (Int × V)) → (tagsExpKVs kvs).length ≤ (tagsAllKVs kvs).length
  | [] => by simp [tagsExpKVs, tagsAllKVs]
  | (k, v) :: kvs => by
    have := tagsExp_length_le v; have := tagsExpKVs_length_le kvs
    simp only [tagsExpKVs, tagsAllKVs, List.length_append]; omega
theorem tagsExpFields_length_le :
    (fs : List (Bool × V)) → (tagsExpFields fs).length ≤ (tagsAllFields fs).length
  | [] => by simp [tagsExpFields, tagsAllFields]
  | (true, v) :: fs => by
    have := tagsExp_length_le v; have := tagsExpFields_length_le fs
    simp only [tagsExpFields, tagsAllFields, List.length_append]; omega
  | (false, v) :: fs => by
    have := tagsExpFields_length_le fs
    simp only [tagsExpFields, tagsAllFields, List.length_append]; omega
end

private theorem append_split {a₁ b₁ a₂ b₂ : List Nat} (h : a₁ ++ b₁ = a₂ ++ b₂)
    (ha : a₂.length ≤ a₁.length) (hb : b₂.length ≤ b₁.length) : a₁ = a₂ ∧ b₁ = b₂ := by
  have hl := congrArg List.length h
  simp only [List.length_append] at hl
  exact List.append_inj h (by omega)

private theorem append_eq_right {a b c : List Nat} (h : a ++ b = c) (hc : c.length ≤ b.length) :
    a = [] ∧ b = c := by
  have hl := congrArg List.length h
  simp only [List.length_append] at hl
  have : a = [] := List.eq_nil_of_length_eq_zero (by omega)
  subst this
  exact ⟨rfl, by simpa using h⟩

mutual
theorem clone_unexpFree (n : Nat) :
    (v : V) → tagsAll v = tagsExp v → tagsAll (clone n v).1 = tagsExp (clone n v).1
  | .prim x, _ => by simp [tagsExp, tagsAll]
  | .nil, _ => by simp [tagsExp, tagsAll]
  | .ptr t v, h => by
    simp only [tagsAll, tagsExp, List.cons.injEq, true_and] at h
    simp only [clone_ptr, tagsAll, tagsExp, clone_unexpFree (n + 1) v h]
  | .slice t vs, h => by
    simp only [tagsAll, tagsExp, List.cons.injEq, true_and] at h
    simp only [clone_slice, tagsAll, tagsExp, cloneList_unexpFree (n + 1) vs h]
  | .map t kvs, h => by
    simp only [tagsAll, tagsExp, List.cons.injEq, true_and] at h
    simp only [clone_map, tagsAll, tagsExp, cloneKVs_unexpFree (n + 1) kvs h]
  | .struct fs, h => by
    simp only [tagsAll, tagsExp] at h
    simp only [clone_struct, tagsAll, tagsExp, cloneFields_unexpFree n fs h]
  | .arr vs, h => by
    simp only [tagsAll, tagsExp] at h
    simp only [clone_arr, tagsAll, tagsExp, cloneList_unexpFree n vs h]
theorem cloneList_unexpFree (n : Nat) :
    (vs : List V) → tagsAllList vs = tagsExpList vs →
      tagsAllList (cloneList n vs).1 = tagsExpList (cloneList n vs).1
  | [], _ => by simp [tagsExpList, tagsAllList]
  | v :: vs, h => by
    simp only [tagsAllList, tagsExpList] at h
    have ⟨h1, h2⟩ := append_split h (tagsExp_length_le v) (tagsExpList_length_le vs)
    simp only [cloneList_cons, tagsAllList, tagsExpList, clone_unexpFree n v h1,
      cloneList_unexpFree _ vs h2]
theorem cloneKVs_unexpFree (n : Nat) :
    (kvs : List (Int × V)) → tagsAllKVs kvs = tagsExpKVs kvs →
      tagsAllKVs (cloneKVs n kvs).1 = tagsExpKVs (cloneKVs n kvs).1
  | [], _ => by simp [tagsExpKVs, tagsAllKVs]
  | (k, v) :: kvs, h => by
    simp only [tagsAllKVs, tagsExpKVs] at h
    have ⟨h1, h2⟩ := append_split h (tagsExp_length_le v) (tagsExpKVs_length_le kvs)
    simp only [cloneKVs_cons, tagsAllKVs, tagsExpKVs, clone_unexpFree n v h1,
      cloneKVs_unexpFree _ kvs h2]
theorem cloneFields_unexpFree (n : Nat) :
    (fs : List (Bool × V)) → tagsAllFields fs = tagsExpFields fs →
      tagsAllFields (cloneFields n fs).1 = tagsExpFields (cloneFields n fs).1
  | [], _ => by simp [tagsExpFields, tagsAllFields]
  | (true, v) :: fs, h => by
    simp only [tagsAllFields, tagsExpFields] at h
    have ⟨h1, h2⟩ := append_split h (tagsExp_length_le v) (tagsExpFields_length_le fs)
    simp only [cloneFields_true, tagsAllFields, tagsExpFields, clone_unexpFree n v h1,
      cloneFields_unexpFree _ fs h2]
  | (false, v) :: fs, h => by
    simp only [tagsAllFields, tagsExpFields] at h
    have ⟨h1, h2⟩ := append_eq_right h (tagsExpFields_length_le fs)
    simp only [cloneFields_false, tagsAllFields, tagsExpFields, h1, List.nil_append,
      cloneFields_unexpFree n fs h2]
end

/-- all references of the copy of an `UnexpFree` value are new -/
theorem clone_tagsAll_fresh (n : Nat) (v : V) (hu : tagsAll v = tagsExp v) :
    ∀ t ∈ tagsAll (clone n v).1, n ≤ t ∧ t < (clone n v).2 := by
  rw [clone_unexpFree n v hu]; exact clone_tags_fresh n v

/-! ## 4. the cache -/

/-- the store's references are below the allocation counter -/
def Store.Fresh (s : Store) : Prop := ∀ p ∈ s.objs, ∀ t ∈ tagsAll p.2, t < s.next

/-- no stored object holds a reference in an unexported field -/
def Store.UnexpFree (s : Store) : Prop := ∀ p ∈ s.objs, tagsAll p.2 = tagsExp p.2

theorem Store.put_eq (s : Store) (key : Nat) (v : V) :
    s.put key v =
      { objs := s.objs.filter (fun p => p.1 != key) ++ [(key, (clone s.next v).1)],
        next := (clone s.next v).2 } := by
  rw [Store.put]

theorem Store.get_eq (s : Store) (key : Nat) :
    s.get key =
      match s.objs.find? (fun p => p.1 == key) with
      | some p => (some (clone s.next p.2).1, { s with next := (clone s.next p.2).2 })
      | none => (none, s) := by
  rw [Store.get]
  cases s.objs.find? (fun p => p.1 == key) <;> rfl

/-- what is stored under `key` right after `put` -/
theorem find_put (s : Store) (key : Nat) (v : V) :
    (s.put key v).objs.find? (fun p => p.1 == key) = some (key, (clone s.next v).1) := by
  have hn : (s.objs.filter (fun p => p.1 != key)).find? (fun p => p.1 == key) = none := by
    rw [List.find?_eq_none]
    intro x hx
    simp only [List.mem_filter] at hx
    simpa using hx.2
  simp [Store.put_eq, List.find?_append, hn]

theorem find_mutate (s : Store) (t : Nat) (w : V) (key : Nat) :
    (s.mutate t w).objs.find? (fun p => p.1 == key) =
      (s.objs.find? (fun p => p.1 == key)).map (fun p => (p.1, mutate t w p.2)) := by
  simp only [Store.mutate, List.find?_map]
  rfl

/-- the shape of a successful `get` -/
theorem get_some (s : Store) (key : Nat) (v' : V) (s' : Store) (hg : s.get key = (some v', s')) :
    ∃ v, s.objs.find? (fun p => p.1 == key) = some (key, v) ∧ (key, v) ∈ s.objs ∧
      v' = (clone s.next v).1 ∧ s' = { s with next := (clone s.next v).2 } := by
  rw [Store.get_eq] at hg
  cases hf : s.objs.find? (fun p => p.1 == key) with
  | none => rw [hf] at hg; simp at hg
  | some p =>
    rw [hf] at hg
    simp only [Prod.mk.injEq, Option.some.injEq] at hg
    have hk : p.1 = key := by simpa using List.find?_some hf
    have hm := List.mem_of_find?_eq_some hf
    obtain ⟨k, v⟩ := p
    simp only at hk; subst hk
    exact ⟨v, rfl, hm, hg.1.symm, hg.2.symm⟩

/-- (a) caller writes after `put` cannot change what is stored under the key -/
theorem put_isolated (s : Store) (key : Nat) (v : V) (hu : tagsAll v = tagsExp v)
    (hv : ∀ t ∈ tagsAll v, t < s.next) :
    ∀ t ∈ tagsAll v, ∀ w,
      ((s.put key v).mutate t w).objs.find? (fun p => p.1 == key) =
        (s.put key v).objs.find? (fun p => p.1 == key) := by
  intro t ht w
  rw [find_mutate, find_put]
  simp only [Option.map_some]
  rw [mutate_of_not_mem]
  intro hm
  have := clone_tagsAll_fresh s.next v hu t hm
  have := hv t ht
  omega

/-- (a'), whole store: if moreover the caller's object is not itself built from store memory, no
    stored object at all changes -/
theorem put_isolated_all (s : Store) (key : Nat) (v : V) (hu : tagsAll v = tagsExp v)
    (hd : ∀ t ∈ tagsAll v, ∀ p ∈ s.objs, t ∉ tagsAll p.2) (hv : ∀ t ∈ tagsAll v, t < s.next) :
    ∀ t ∈ tagsAll v, ∀ w, ((s.put key v).mutate t w).objs = (s.put key v).objs := by
  intro t ht w
  simp only [Store.mutate]
  conv => rhs; rw [← List.map_id (s.put key v).objs]
  apply List.map_congr_left
  intro p hp
  simp only [Store.put_eq, List.mem_append, List.mem_filter, List.mem_singleton] at hp
  rcases hp with hp | rfl
  · rw [mutate_of_not_mem t w p.2 (hd t ht p hp.1)]; rfl
  · simp only [id]
    rw [mutate_of_not_mem]
    intro hm
    have := clone_tagsAll_fresh s.next v hu t hm
    have := hv t ht
    omega

theorem put_fresh (s : Store) (hf : s.Fresh) (key : Nat) (v : V) (hu : tagsAll v = tagsExp v) :
    (s.put key v).Fresh := by
  intro p hp t ht
  have hge := clone_next_ge s.next v
  simp only [Store.put_eq, List.mem_append, List.mem_filter, List.mem_singleton] at hp ⊢
  rcases hp with hp | rfl
  · have := hf p hp.1 t ht; omega
  · exact (clone_tagsAll_fresh s.next v hu t ht).2

theorem put_unexpFree (s : Store) (hs : s.UnexpFree) (key : Nat) (v : V)
    (hu : tagsAll v = tagsExp v) : (s.put key v).UnexpFree := by
  intro p hp
  simp only [Store.put_eq, List.mem_append, List.mem_filter, List.mem_singleton] at hp
  rcases hp with hp | rfl
  · exact hs p hp.1
  · exact clone_unexpFree s.next v hu

/-- (b) writes through a value handed out by `get` cannot change anything stored; the value's
    references are exactly the ones allocated by this `get`; the invariants are kept -/
theorem get_isolated (s : Store) (hf : s.Fresh) (key : Nat) (v' : V) (s' : Store)
    (hg : s.get key = (some v', s')) (hu : ∀ p ∈ s.objs, tagsAll p.2 = tagsExp p.2) :
    (∀ t ∈ tagsAll v', ∀ w, (s'.mutate t w).objs = s'.objs) ∧
    (∀ t ∈ tagsAll v', s.next ≤ t ∧ t < s'.next) ∧
    s'.objs = s.objs ∧ s'.Fresh := by
  obtain ⟨v, _, hm, rfl, rfl⟩ := get_some s key v' s' hg
  have hr := clone_tagsAll_fresh s.next v (hu _ hm)
  have hge := clone_next_ge s.next v
  refine ⟨fun t ht w => ?_, hr, rfl, fun p hp t ht => ?_⟩
  · simp only [Store.mutate]
    conv => rhs; rw [← List.map_id s.objs]
    apply List.map_congr_left
    intro p hp
    rw [mutate_of_not_mem]; · rfl
    intro hc
    have := hf p hp t hc
    have := hr t ht
    omega
  · have := hf p hp t ht
    show t < (clone s.next v).2
    omega

/-- (c) two successive `get`s hand out values that share no reference -/
theorem two_gets_disjoint (s : Store) (key : Nat) (a b : V) (s1 s2 : Store)
    (hu : ∀ p ∈ s.objs, tagsAll p.2 = tagsExp p.2)
    (h1 : s.get key = (some a, s1)) (h2 : s1.get key = (some b, s2)) :
    ∀ t ∈ tagsAll a, t ∉ tagsAll b := by
  obtain ⟨v, _, hm, rfl, rfl⟩ := get_some s key a s1 h1
  obtain ⟨v2, _, hm2, rfl, rfl⟩ := get_some _ key b s2 h2
  intro t ha hb
  have := clone_tagsAll_fresh s.next v (hu _ hm) t ha
  have := clone_tagsAll_fresh _ v2 (hu _ hm2) t hb
  simp only at this
  omega

/-- (d1) what `get` returns equals what is stored, up to identities -/
theorem get_value (s : Store) (key : Nat) (v' : V) (s' : Store) (hg : s.get key = (some v', s')) :
    ∃ v, s.objs.find? (fun p => p.1 == key) = some (key, v) ∧ strip v' = strip v := by
  obtain ⟨v, hf, _, rfl, rfl⟩ := get_some s key v' s' hg
  exact ⟨v, hf, clone_strip _ v⟩

/-- (d2) what `get` returns equals what was `put`, up to identities -/
theorem put_get_roundtrip (s : Store) (key : Nat) (v : V) :
    ((s.put key v).get key).1.map strip = some (strip v) := by
  rw [Store.get_eq, find_put]
  simp only [Option.map_some, clone_strip]

/-! ## 5. the documented exception: unexported fields keep sharing -/

theorem unexported_shared : ∃ v t, t ∈ tagsAll (clone 100 v).1 ∧ t ∈ tagsAll v ∧ t < 100 :=
  ⟨.struct [(false, .ptr 7 (.prim 1))], 7, by
    simp [clone_struct, cloneFields_false, tagsAll, tagsAllFields]⟩

/-- … and the restriction to `UnexpFree` in `put_isolated` is necessary: a caller write through such
    a reference does change the stored object -/
theorem put_not_isolated_unexported :
    ∃ (s : Store) (key : Nat) (v : V) (t : Nat) (w : V),
      (∀ t ∈ tagsAll v, t < s.next) ∧ t ∈ tagsAll v ∧
      ((s.put key v).mutate t w).objs.find? (fun p => p.1 == key) ≠
        (s.put key v).objs.find? (fun p => p.1 == key) := by
  refine ⟨{ next := 100 }, 0, .struct [(false, .ptr 7 (.prim 1))], 7, .prim 2, ?_, ?_, ?_⟩
  · simp [tagsAll, tagsAllFields]
  · simp [tagsAll, tagsAllFields]
  · rw [find_mutate, find_put]
    simp [clone_struct, cloneFields_false, mutate, mutateFields]

end Sod.Clone
