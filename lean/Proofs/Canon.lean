/-
  Canon.lean — case canonicalisation (C16) and the schema guard (C17).

  Part 1 (C16).  `upper`/`lower` constraints canonicalise what is stored and what is searched,
  and canonicalising twice changes nothing.  The case mappings `E.up`/`E.lo` are parameters of
  the model; the three facts about Go's `strings.ToUpper`/`strings.ToLower` that the proofs need
  are bundled in `CaseLaws` (validated exhaustively over all code points outside Lean).

  Part 2 (C17).  A handle whose live struct does not match the stored descriptors refuses every
  call with `structChanged` and returns the state *unchanged* (no file touched, nothing logged);
  `Create` with incompatible descriptors/extension is refused the same way; `Create` with
  compatible ones (a switch of cache/async settings) flushes and keeps the denoted objects.
-/
import Proofs.Crud
import SodModel.Search
namespace Sod

/-! ## Part 1 — C16 -/

/-- the assumed facts about the two case mappings -/
structure CaseLaws (E : Env) : Prop where
  up_idem   : ∀ s, E.up (E.up s) = E.up s
  lo_idem   : ∀ s, E.lo (E.lo s) = E.lo s
  loup_idem : ∀ s, E.lo (E.up (E.lo (E.up s))) = E.lo (E.up s)

/-! ### bytes, leaves, value lists, objects -/

theorem canonBytes_idem (E : Env) (L : CaseLaws E) (c : Cons) (s : Bytes) :
    E.canonBytes c (E.canonBytes c s) = E.canonBytes c s := by
  unfold Env.canonBytes
  cases hu : c.upper <;> cases hl : c.lower <;> simp [L.up_idem, L.lo_idem, L.loup_idem]

/-- the three laws are exactly what idempotence of `canonBytes` needs: nothing weaker will do -/
theorem caseLaws_of_canonBytes_idem (E : Env)
    (h : ∀ (c : Cons) (s : Bytes), E.canonBytes c (E.canonBytes c s) = E.canonBytes c s) : CaseLaws E := by
  refine ⟨fun s => ?_, fun s => ?_, fun s => ?_⟩
  · exact h { upper := true } s
  · exact h { lower := true } s
  · exact h { upper := true, lower := true } s

theorem canonBytes_of_not_transformer (E : Env) (c : Cons) (h : c.transformer = false) (s : Bytes) :
    E.canonBytes c s = s := by
  unfold Cons.transformer at h
  rw [Bool.or_eq_false_iff] at h
  unfold Env.canonBytes
  simp [h.1, h.2]

theorem canonLeaf_str (E : Env) (c : Cons) (s : Bytes) :
    E.canonLeaf c (.v (.str s)) = .v (.str (E.canonBytes c s)) := rfl

/-- leaves that are not strings are not touched -/
theorem canonLeaf_nonstr (E : Env) (c : Cons) (x : Leaf) (h : ∀ s, x ≠ .v (.str s)) : E.canonLeaf c x = x := by
  unfold Env.canonLeaf
  split
  · exact absurd rfl (h _)
  · rfl

theorem canonLeaf_of_not_transformer (E : Env) (c : Cons) (h : c.transformer = false) (x : Leaf) :
    E.canonLeaf c x = x := by
  unfold Env.canonLeaf
  split
  · rw [canonBytes_of_not_transformer E c h]
  · rfl

theorem canonLeaf_idem (E : Env) (L : CaseLaws E) (c : Cons) (x : Leaf) :
    E.canonLeaf c (E.canonLeaf c x) = E.canonLeaf c x := by
  by_cases h : ∃ s, x = .v (.str s)
  · obtain ⟨s, rfl⟩ := h
    rw [canonLeaf_str, canonLeaf_str, canonBytes_idem E L]
  · have h' : ∀ s, x ≠ .v (.str s) := fun s e => h ⟨s, e⟩
    rw [canonLeaf_nonstr E c x h', canonLeaf_nonstr E c x h']

theorem canonVals_nil_left (E : Env) (xs : List Leaf) : canonVals E [] xs = xs := by
  unfold canonVals; rfl

theorem canonVals_nil_right (E : Env) (ds : List FieldDesc) : canonVals E ds [] = [] := by
  unfold canonVals; cases ds <;> rfl

theorem canonVals_cons (E : Env) (d : FieldDesc) (ds : List FieldDesc) (x : Leaf) (xs : List Leaf) :
    canonVals E (d :: ds) (x :: xs) = E.canonLeaf d.cons x :: canonVals E ds xs := by
  rw [canonVals]

theorem canonVals_idem (E : Env) (L : CaseLaws E) (descs : List FieldDesc) (xs : List Leaf) :
    canonVals E descs (canonVals E descs xs) = canonVals E descs xs := by
  induction descs generalizing xs with
  | nil => rw [canonVals_nil_left]
  | cons d ds ih =>
    cases xs with
    | nil => rw [canonVals_nil_right, canonVals_nil_right]
    | cons x xs => rw [canonVals_cons, canonVals_cons, canonLeaf_idem E L, ih]

theorem canonVals_length (E : Env) (descs : List FieldDesc) (xs : List Leaf) :
    (canonVals E descs xs).length = xs.length := by
  induction descs generalizing xs with
  | nil => rw [canonVals_nil_left]
  | cons d ds ih =>
    cases xs with
    | nil => rw [canonVals_nil_right]
    | cons x xs => rw [canonVals_cons, List.length_cons, List.length_cons, ih]

/-- position by position: inside the descriptors the leaf is canonicalised with the constraints of
    its own descriptor; beyond them it is unchanged -/
theorem canonVals_getElem? (E : Env) (descs : List FieldDesc) (xs : List Leaf) (i : Nat) :
    (canonVals E descs xs)[i]? =
      match descs[i]? with
      | some d => xs[i]?.map (E.canonLeaf d.cons)
      | none => xs[i]? := by
  induction descs generalizing xs i with
  | nil => rw [canonVals_nil_left]; rfl
  | cons d ds ih =>
    cases xs with
    | nil =>
      rw [canonVals_nil_right]
      cases (d :: ds)[i]? <;> rfl
    | cons x xs =>
      rw [canonVals_cons]
      cases i with
      | zero => rfl
      | succ i =>
        simp only [List.getElem?_cons_succ]
        exact ih xs i

theorem canon_idem (E : Env) (L : CaseLaws E) (descs : List FieldDesc) (o : Obj) :
    E.canon descs (E.canon descs o) = E.canon descs o := by
  unfold Env.canon
  simp only [canonVals_idem E L]

/-- canonicalisation touches neither the identifier nor the shape -/
theorem canon_uuid (E : Env) (descs : List FieldDesc) (o : Obj) :
    (E.canon descs o).uuid = o.uuid ∧ (E.canon descs o).shape = o.shape := ⟨rfl, rfl⟩

theorem canon_vals (E : Env) (descs : List FieldDesc) (o : Obj) :
    (E.canon descs o).vals = canonVals E descs o.vals := rfl

/-- the leaf at a described position (also when the object has fewer leaves: both sides then read
    the default leaf, which is opaque) -/
theorem canon_field (E : Env) (descs : List FieldDesc) (o : Obj) (i : Nat) (hi : i < descs.length) :
    (E.canon descs o).field i = E.canonLeaf (descs[i]).cons (o.field i) := by
  unfold Obj.field
  rw [List.getD_eq_getElem?_getD, List.getD_eq_getElem?_getD, canon_vals, canonVals_getElem?,
    List.getElem?_eq_getElem hi]
  cases o.vals[i]? <;> rfl

/-- … and at a position without descriptor -/
theorem canon_field_beyond (E : Env) (descs : List FieldDesc) (o : Obj) (i : Nat) (hi : descs.length ≤ i) :
    (E.canon descs o).field i = o.field i := by
  unfold Obj.field
  rw [List.getD_eq_getElem?_getD, List.getD_eq_getElem?_getD, canon_vals, canonVals_getElem?,
    List.getElem?_eq_none hi]

/-- the same two facts on the list of leaves -/
theorem canon_getElem? (E : Env) (descs : List FieldDesc) (o : Obj) (i : Nat) :
    (E.canon descs o).vals[i]? =
      match descs[i]? with
      | some d => o.vals[i]?.map (E.canonLeaf d.cons)
      | none => o.vals[i]? := canonVals_getElem? E descs o.vals i

/-! ### what is stored is canonical -/

theorem assignNew_vals (o : Obj) (fresh : Nat) : (assignNew o fresh).vals = o.vals := by
  unfold assignNew; split <;> rfl

theorem assignNew_shape (o : Obj) (fresh : Nat) : (assignNew o fresh).shape = o.shape := by
  unfold assignNew; split <;> rfl

/-- drawing an identifier commutes with canonicalisation -/
theorem canon_assignNew (E : Env) (descs : List FieldDesc) (o : Obj) (fresh : Nat) :
    E.canon descs (assignNew o fresh) = assignNew (E.canon descs o) fresh := by
  unfold assignNew
  show E.canon descs (if (o.uuid == 0) = true then _ else _) = if (o.uuid == 0) = true then _ else _
  split <;> rfl

/-- the object that `InsertOrUpdate` stores -/
def storedOf (E : Env) (l : Loaded) (o : Obj) (fresh : Nat) : Obj :=
  assignNew (E.canon l.descs (E.transform o)) fresh

theorem storedOf_canonical (E : Env) (L : CaseLaws E) (l : Loaded) (o : Obj) (fresh : Nat) :
    E.canon l.descs (storedOf E l o fresh) = storedOf E l o fresh := by
  unfold storedOf
  rw [canon_assignNew, canon_idem E L]

/-- C16, stored half: after an accepted `InsertOrUpdate` the collection denotes, under the
    identifier of the object, a value that canonicalisation leaves alone -/
theorem stored_is_canonical {E : Env} (L : CaseLaws E) {c : Coll} {l : Loaded} (h : Inv' c l) (o : Obj) (fresh : Nat)
    (ht : (assignNew (E.canon l.descs (E.transform o)) fresh).Typed l.index)
    (hr : (c.insert E o fresh).2 = Res.ok ()) :
    ∃ o', (c.insert E o fresh).1.view o'.uuid = some o' ∧ o' = storedOf E l o fresh ∧
      E.canon l.descs o' = o' ∧
      (∀ i (hi : i < l.descs.length), o'.field i = E.canonLeaf (l.descs[i]).cons ((E.transform o).field i)) := by
  obtain ⟨l', _, hv, _⟩ := insert_accepted' h o fresh ht hr
  refine ⟨storedOf E l o fresh, ?_, rfl, storedOf_canonical E L l o fresh, ?_⟩
  · rw [hv, updView_apply]
    exact if_pos rfl
  · intro i hi
    rw [← canon_field E l.descs (E.transform o) i hi]
    unfold storedOf Obj.field
    rw [assignNew_vals]

/-- every denoted object is canonical -/
def AllCanon (E : Env) (c : Coll) (l : Loaded) : Prop := ∀ u o, c.view u = some o → E.canon l.descs o = o

/-- … is kept by `InsertOrUpdate`, accepted or not -/
theorem insert_keeps_allCanon {E : Env} (L : CaseLaws E) {c : Coll} {l : Loaded} (h : Inv' c l) (o : Obj) (fresh : Nat)
    (ht : (assignNew (E.canon l.descs (E.transform o)) fresh).Typed l.index)
    (hc : AllCanon E c l) : AllCanon E (c.insert E o fresh).1 l := by
  rcases insert_cases h.toInv o fresh ht with ⟨_, hi⟩ | ⟨_, _, hi⟩ | ⟨_, _, _, hi⟩ | ⟨_, _, _, hi⟩
  · rw [hi]; exact hc
  · rw [hi]; exact hc
  · rw [hi]; exact hc
  · have hr : (c.insert E o fresh).2 = Res.ok () := by rw [hi]
    obtain ⟨l', _, hv, _⟩ := insert_accepted' h o fresh ht hr
    intro u o' hu
    rw [hv, updView_apply] at hu
    by_cases hw : u = (assignNew (E.canon l.descs (E.transform o)) fresh).uuid
    · rw [if_pos hw] at hu
      injection hu with hu
      rw [← hu]
      exact storedOf_canonical E L l o fresh
    · rw [if_neg hw] at hu
      exact hc u o' hu

/-! ### what is searched is canonical -/

theorem descPos?_go_spec (p : String) (ds : List FieldDesc) (k i : Nat) (d : FieldDesc)
    (h : descPos?.go p ds k = some (i, d)) : k ≤ i ∧ ds[i - k]? = some d ∧ d.path = p := by
  induction ds generalizing k with
  | nil => simp [descPos?.go] at h
  | cons e rest ih =>
    unfold descPos?.go at h
    by_cases he : (e.path == p) = true
    · rw [if_pos he] at h
      injection h with h
      injection h with h1 h2
      subst h1; subst h2
      refine ⟨Nat.le_refl _, by simp, by simpa using he⟩
    · rw [if_neg he] at h
      obtain ⟨h1, h2, h3⟩ := ih (k+1) h
      refine ⟨by omega, ?_, h3⟩
      have : i - k = (i - (k+1)) + 1 := by omega
      rw [this, List.getElem?_cons_succ]
      exact h2

/-- `descPos?` answers the position of a descriptor with that path -/
theorem descPos?_spec {descs : List FieldDesc} {p : String} {i : Nat} {d : FieldDesc}
    (h : descPos? descs p = some (i, d)) : descs[i]? = some d ∧ d.path = p := by
  obtain ⟨_, h2, h3⟩ := descPos?_go_spec p descs 0 i d h
  exact ⟨by simpa using h2, h3⟩

theorem prepare_none (E : Env) (descs : List FieldDesc) (field : String) (probe : Leaf)
    (hp : descPos? descs field = none) : E.prepare descs field probe = probe := by
  unfold Env.prepare; rw [hp]

theorem prepare_some (E : Env) (descs : List FieldDesc) (field : String) (i : Nat) (d : FieldDesc) (probe : Leaf)
    (hp : descPos? descs field = some (i, d)) :
    E.prepare descs field probe = if d.cons.transformer then E.canonLeaf d.cons probe else probe := by
  unfold Env.prepare; rw [hp]

/-- on a described field the probe is canonicalised with the constraints of that field, whether it
    has a case constraint or not (without one, `canonLeaf` is the identity) -/
theorem prepare_eq_canonLeaf (E : Env) (descs : List FieldDesc) (field : String) (i : Nat) (d : FieldDesc)
    (probe : Leaf) (hp : descPos? descs field = some (i, d)) :
    E.prepare descs field probe = E.canonLeaf d.cons probe := by
  rw [prepare_some E descs field i d probe hp]
  cases ht : d.cons.transformer with
  | true => rfl
  | false => simp only [Bool.false_eq_true, if_false]; rw [canonLeaf_of_not_transformer E d.cons ht]

/-- C16, searched half: a string probe of a described field -/
theorem prepare_canonical (E : Env) (descs : List FieldDesc) (field : String) (i : Nat) (d : FieldDesc) (s : Bytes)
    (hp : descPos? descs field = some (i, d)) :
    E.prepare descs field (.v (.str s)) = .v (.str (if d.cons.transformer then E.canonBytes d.cons s else s)) := by
  rw [prepare_some E descs field i d _ hp]
  split <;> rfl

/-- probes that are not strings are unchanged, whatever the field -/
theorem prepare_nonstr (E : Env) (descs : List FieldDesc) (field : String) (probe : Leaf)
    (h : ∀ s, probe ≠ .v (.str s)) : E.prepare descs field probe = probe := by
  unfold Env.prepare
  split
  · split
    · exact canonLeaf_nonstr E _ probe h
    · rfl
  · rfl

/-- two probes with the same canonical form are prepared to the same value -/
theorem prepare_eq_of_canon_eq (E : Env) (descs : List FieldDesc) (field : String) (i : Nat) (d : FieldDesc)
    (s₁ s₂ : Bytes) (hp : descPos? descs field = some (i, d)) (ht : d.cons.transformer = true)
    (he : E.canonBytes d.cons s₁ = E.canonBytes d.cons s₂) :
    E.prepare descs field (.v (.str s₁)) = E.prepare descs field (.v (.str s₂)) := by
  rw [prepare_canonical E descs field i d s₁ hp, prepare_canonical E descs field i d s₂ hp, ht]
  simp only [if_true, he]

/-- preparing a prepared probe changes nothing -/
theorem prepare_idem (E : Env) (L : CaseLaws E) (descs : List FieldDesc) (field : String) (probe : Leaf) :
    E.prepare descs field (E.prepare descs field probe) = E.prepare descs field probe := by
  cases hp : descPos? descs field with
  | none => rw [prepare_none E descs field _ hp]
  | some q =>
    obtain ⟨i, d⟩ := q
    rw [prepare_eq_canonLeaf E descs field i d _ hp, prepare_eq_canonLeaf E descs field i d _ hp,
      canonLeaf_idem E L]

/-- stored and searched values meet: the stored leaf of a described field is what `prepare` makes of
    a probe carrying the raw value of that field -/
theorem canon_field_eq_prepare (E : Env) (descs : List FieldDesc) (field : String) (i : Nat) (d : FieldDesc)
    (o : Obj) (hp : descPos? descs field = some (i, d)) :
    (E.canon descs o).field i = E.prepare descs field (o.field i) := by
  obtain ⟨hd, _⟩ := descPos?_spec hp
  have hi : i < descs.length := by
    rcases Nat.lt_or_ge i descs.length with h | h
    · exact h
    · rw [List.getElem?_eq_none h] at hd; cases hd
  rw [canon_field E descs o i hi, prepare_eq_canonLeaf E descs field i d _ hp]
  rw [List.getElem?_eq_getElem hi] at hd
  injection hd with hd
  rw [hd]

/-- the probe enters `DB.search` only through `prepare` -/
theorem search_congr_prepare (E : Env) (c : Coll) (l : Loaded) (field : String) (op : Option Op) (p₁ p₂ : Leaf)
    (k : Option FIdx) (hs : c.schema = (c, .ok l)) (he : E.prepare l.descs field p₁ = E.prepare l.descs field p₂) :
    Coll.search E c field op p₁ k = Coll.search E c field op p₂ k := by
  unfold Coll.search
  rw [hs]
  simp only [he]

/-- C16: on a case-constrained field, probes with the same canonical form give the same search —
    same state, same entries, same error — indexed field or not, any operator, constrained or not -/
theorem search_case_insensitive (E : Env) (c : Coll) (l : Loaded) (field : String) (op : Option Op)
    (s₁ s₂ : Bytes) (k : Option FIdx) (i : Nat) (d : FieldDesc)
    (hs : c.schema = (c, .ok l)) (hp : descPos? l.descs field = some (i, d)) (ht : d.cons.transformer = true)
    (he : E.canonBytes d.cons s₁ = E.canonBytes d.cons s₂) :
    Coll.search E c field op (.v (.str s₁)) k = Coll.search E c field op (.v (.str s₂)) k :=
  search_congr_prepare E c l field op _ _ k hs (prepare_eq_of_canon_eq E l.descs field i d s₁ s₂ hp ht he)

/-- in particular a probe and its canonical form are interchangeable -/
theorem search_canonical_probe (E : Env) (L : CaseLaws E) (c : Coll) (l : Loaded) (field : String) (op : Option Op)
    (s : Bytes) (k : Option FIdx) (i : Nat) (d : FieldDesc)
    (hs : c.schema = (c, .ok l)) (hp : descPos? l.descs field = some (i, d)) (ht : d.cons.transformer = true) :
    Coll.search E c field op (.v (.str (E.canonBytes d.cons s))) k = Coll.search E c field op (.v (.str s)) k :=
  search_case_insensitive E c l field op _ _ k i d hs hp ht (canonBytes_idem E L d.cons s)

/-! ## Part 2 — C17 -/

/-! ### the structure check -/

theorem compat_fields_iff (stored : List FieldDesc) (live : List (String × String)) :
    descsCompatFields stored live = true ↔
      (∀ d ∈ stored, (d.path, d.type) ∈ live) ∧ (∀ p ∈ live, ∃ d ∈ stored, d.path = p.1 ∧ d.type = p.2) := by
  unfold descsCompatFields
  simp only [Bool.and_eq_true, List.all_eq_true, List.any_eq_true, beq_iff_eq]
  constructor
  · rintro ⟨h1, h2⟩
    refine ⟨fun d hd => ?_, fun p hp => ?_⟩
    · obtain ⟨p, hp, e1, e2⟩ := h1 d hd
      have : p = (d.path, d.type) := Prod.ext e1 e2
      rw [← this]; exact hp
    · obtain ⟨d, hd, e1, e2⟩ := h2 p hp
      exact ⟨d, hd, e1.symm, e2.symm⟩
  · rintro ⟨h1, h2⟩
    refine ⟨fun d hd => ⟨(d.path, d.type), h1 d hd, rfl, rfl⟩, fun p hp => ?_⟩
    obtain ⟨d, hd, e1, e2⟩ := h2 p hp
    exact ⟨d, hd, e1.symm, e2.symm⟩

/-- so the check fails exactly when a stored field is gone/retyped or the live struct has a field
    (or a type) the stored schema does not know -/
theorem compat_fields_false_iff (stored : List FieldDesc) (live : List (String × String)) :
    descsCompatFields stored live = false ↔
      (∃ d ∈ stored, (d.path, d.type) ∉ live) ∨ (∃ p ∈ live, ∀ d ∈ stored, ¬ (d.path = p.1 ∧ d.type = p.2)) := by
  rw [← Bool.not_eq_true, compat_fields_iff]
  constructor
  · intro h
    by_cases h1 : ∀ d ∈ stored, (d.path, d.type) ∈ live
    · right
      apply Classical.byContradiction
      intro hn
      apply h
      refine ⟨h1, fun p hp => ?_⟩
      apply Classical.byContradiction
      intro hn'
      exact hn ⟨p, hp, fun d hd hh => hn' ⟨d, hd, hh⟩⟩
    · left
      apply Classical.byContradiction
      intro hn
      exact h1 (fun d hd => Classical.byContradiction (fun hh => hn ⟨d, hd, hh⟩))
  · rintro (⟨d, hd, hn⟩ | ⟨p, hp, hn⟩) ⟨h1, h2⟩
    · exact hn (h1 d hd)
    · obtain ⟨d, hd, hh⟩ := h2 p hp
      exact hn d hd hh

theorem controlLoaded_changed {live : List (String × String)} {d : Disk} {l : Loaded}
    (h : descsCompatFields l.descs live = false) : controlLoaded live d l = .err .structChanged := by
  unfold controlLoaded
  simp [h]

/-- C17: loading a schema whose descriptors do not match the live struct is refused, and the handle
    is returned UNCHANGED (nothing cached, no file touched, nothing logged) -/
theorem load_refused_if_changed {c : Coll} {img : SchemaImg} (hm : c.mem = none) (hd : c.disk.schema = some img)
    (hc : descsCompatFields img.descs c.live = false) : c.schema = (c, .err .structChanged) := by
  unfold Coll.schema
  rw [hm, hd]
  simp only
  rw [controlLoaded_changed (l := { descs := img.descs, settings := img.settings, index := img.index.reload }) hc]

/-! ### every public call is refused, state unchanged

  Each lemma takes the refusal of `c.schema` itself (`load_refused_if_changed` provides it), so that
  the equations say: same `Coll` — hence same `disk`, same `log`, same cache, same pending. -/

section Refused
variable {c : Coll} (h : c.schema = (c, .err .structChanged))
include h

theorem refused_get (u : Nat) : c.get u = (c, .err .structChanged) := by
  unfold Coll.get; rw [h]

theorem refused_exist (u : Nat) : c.exist u = (c, .err .structChanged) := by
  unfold Coll.exist; rw [h]

theorem refused_count : c.count = (c, .err .structChanged) := by
  unfold Coll.count; rw [h]

theorem refused_all : c.all = (c, .err .structChanged, []) := by
  unfold Coll.all; rw [h]

theorem refused_insert (E : Env) (o : Obj) (fresh : Nat) : c.insert E o fresh = (c, .err .structChanged) := by
  unfold Coll.insert; rw [h]

theorem refused_delete (u : Nat) : c.delete u = (c, .err .structChanged) := by
  unfold Coll.delete; rw [h]

theorem refused_deleteList (us : List Nat) : c.deleteList us = (c, .err .structChanged) := by
  unfold Coll.deleteList; rw [h]

theorem refused_deleteAll : c.deleteAll = (c, .err .structChanged) := by
  unfold Coll.deleteAll; rw [h]

/-- `InsertOrUpdateMany`: the state is unchanged whatever the arguments … -/
theorem refused_many_state (E : Env) (os : List Obj) (w : Option (Nat × Bool)) : (c.many E os w).1 = c := by
  unfold Coll.many
  split
  · rfl
  · split
    · rfl
    · rw [h]

/-- … and the error is `structChanged` unless the FIRST object is of another Go type (then the
    schema is not even looked up and the answer is `notFound`) -/
theorem refused_many (E : Env) (os : List Obj) (w : Option (Nat × Bool)) (hos : os ≠ [])
    (hw : w.map (·.1) ≠ some 0) : c.many E os w = (c, 0, .err .structChanged) := by
  unfold Coll.many
  have h1 : os.isEmpty = false := by cases os with | nil => exact absurd rfl hos | cons _ _ => rfl
  have h2 : (w.map (·.1) == some 0) = false := by simpa using hw
  rw [h1, h2]
  simp only [Bool.false_eq_true, if_false]
  rw [h]

theorem refused_bulk_state (E : Env) (os : List Obj) (k : Nat) : (c.bulk E os k).1 = c := by
  unfold Coll.bulk
  generalize chunks k os = chs
  generalize (0 : Nat) = n
  induction chs generalizing n with
  | nil => rfl
  | cons ch rest ih =>
    unfold Coll.bulk.go
    have hs := refused_many_state h E ch none
    split
    · rename_i c' m heq
      have : c' = c := by rw [← hs, heq]
      subst this
      exact ih (n + m)
    · rename_i c' m r _ heq
      have : c' = c := by rw [← hs, heq]
      exact this

theorem refused_commit : c.commitCall = (c, .err .structChanged) := by
  unfold Coll.commitCall; rw [h]

theorem refused_create (descs : List FieldDesc) (st : Settings) : c.create descs st = (c, .err .structChanged) := by
  unfold Coll.create; rw [h]

theorem refused_repair : c.repair = (c, .err .structChanged) := by
  unfold Coll.repair; rw [h]

theorem refused_search (E : Env) (f : String) (op : Option Op) (p : Leaf) (k : Option FIdx) :
    Coll.search E c f op p k = (c, Search.failed .structChanged) := by
  unfold Coll.search; rw [h]

theorem refused_search_err (E : Env) (f : String) (op : Option Op) (p : Leaf) (k : Option FIdx) :
    (Coll.search E c f op p k).1 = c ∧ (Coll.search E c f op p k).2.err = some .structChanged ∧
    (Coll.search E c f op p k).2.fields = [] := by
  rw [refused_search h]; exact ⟨rfl, rfl, rfl⟩

theorem refused_assignIndex (f : String) : c.assignIndex f = (c, .err .structChanged) := by
  unfold Coll.assignIndex; rw [h]

theorem refused_collect (s : Search) (hs : s.err = none) : c.collect s = (c, s, [], some .structChanged) := by
  unfold Coll.collect; rw [hs]; simp only; rw [h]

theorem refused_searchDelete (s : Search) (hs : s.err = none) : c.searchDelete s = (c, .err .structChanged) := by
  unfold Coll.searchDelete; rw [hs]; simp only; rw [h]

end Refused

theorem flushAll_nopend {c : Coll} (hp : c.pending = []) : c.flushAll = c := by
  unfold Coll.flushAll
  rw [hp]
  simp only [List.foldl_nil]
  rw [← hp]

theorem refused_flushAllAndCommit {c : Coll} (h : c.schema = (c, .err .structChanged)) (hp : c.pending = []) :
    c.flushAllAndCommit = (c, .err .structChanged) := by
  unfold Coll.flushAllAndCommit
  simp only [flushAll_nopend hp]
  rw [h]

/-- C17, all calls at once -/
theorem every_call_refused {c : Coll} {img : SchemaImg} (hm : c.mem = none) (hd : c.disk.schema = some img)
    (hc : descsCompatFields img.descs c.live = false) :
    (∀ u, c.get u = (c, .err .structChanged)) ∧
    (∀ u, c.exist u = (c, .err .structChanged)) ∧
    c.count = (c, .err .structChanged) ∧
    c.all = (c, .err .structChanged, []) ∧
    (∀ E o fresh, c.insert E o fresh = (c, .err .structChanged)) ∧
    (∀ u, c.delete u = (c, .err .structChanged)) ∧
    c.deleteAll = (c, .err .structChanged) ∧
    (∀ E os w, os ≠ [] → w.map (·.1) ≠ some 0 → c.many E os w = (c, 0, .err .structChanged)) ∧
    (∀ E os w, (c.many E os w).1 = c) ∧
    c.commitCall = (c, .err .structChanged) ∧
    (c.pending = [] → c.flushAllAndCommit = (c, .err .structChanged)) ∧
    (∀ descs st, c.create descs st = (c, .err .structChanged)) ∧
    c.repair = (c, .err .structChanged) ∧
    (∀ E f op p k, Coll.search E c f op p k = (c, Search.failed .structChanged)) := by
  have h := load_refused_if_changed hm hd hc
  exact ⟨refused_get h, refused_exist h, refused_count h, refused_all h, refused_insert h, refused_delete h,
    refused_deleteAll h, fun E os w => refused_many h E os w, refused_many_state h, refused_commit h,
    refused_flushAllAndCommit h, refused_create h, refused_repair h, refused_search h⟩

/-- in particular: no file operation, the directory is what it was -/
theorem every_call_refused_disk_log {c : Coll} {img : SchemaImg} (hm : c.mem = none) (hd : c.disk.schema = some img)
    (hc : descsCompatFields img.descs c.live = false) (E : Env) (o : Obj) (fresh u : Nat) :
    (c.insert E o fresh).1.disk = c.disk ∧ (c.insert E o fresh).1.log = c.log ∧
    (c.delete u).1.disk = c.disk ∧ (c.delete u).1.log = c.log ∧
    c.deleteAll.1.disk = c.disk ∧ c.deleteAll.1.log = c.log ∧
    c.repair.1.disk = c.disk ∧ c.repair.1.log = c.log := by
  have h := load_refused_if_changed hm hd hc
  rw [refused_insert h, refused_delete h, refused_deleteAll h, refused_repair h]
  exact ⟨rfl, rfl, rfl, rfl, rfl, rfl, rfl, rfl⟩

/-! ### `Create` on a loaded collection -/

/-- an incompatible `Create` is refused with the class `isCompatibleWith` computes; state unchanged -/
theorem create_incompatible_frame {c : Coll} {l : Loaded} (descs : List FieldDesc) (st : Settings) (e : Err)
    (hs : c.schema = (c, .ok l)) (hc : compatErr l st.ext descs = some e) : c.create descs st = (c, .err e) := by
  unfold Coll.create
  rw [hs]
  simp only [hc]

theorem compatErr_none_iff (l : Loaded) (ext : String) (descs : List FieldDesc) :
    compatErr l ext descs = none ↔
      l.settings.ext = ext ∧
      (∀ d ∈ l.descs, ∃ e ∈ descs, e.path = d.path) ∧
      (∀ d ∈ descs, ∃ e ∈ l.descs, e.path = d.path) ∧
      (∀ d ∈ l.descs, ∀ e ∈ descs, e.path = d.path → e.type = d.type ∧ e.cons = d.cons) := by
  unfold compatErr
  have hA : (l.descs.all (fun d => descs.any (fun e => e.path == d.path))) = true ↔
      ∀ d ∈ l.descs, ∃ e ∈ descs, e.path = d.path := by
    simp only [List.all_eq_true, List.any_eq_true, beq_iff_eq]
  have hB : (descs.all (fun d => l.descs.any (fun e => e.path == d.path))) = true ↔
      ∀ d ∈ descs, ∃ e ∈ l.descs, e.path = d.path := by
    simp only [List.all_eq_true, List.any_eq_true, beq_iff_eq]
  have hC : (l.descs.all (fun d => descs.all (fun e => e.path != d.path || (e.type == d.type && e.cons == d.cons)))) = true ↔
      ∀ d ∈ l.descs, ∀ e ∈ descs, e.path = d.path → e.type = d.type ∧ e.cons = d.cons := by
    simp only [List.all_eq_true, Bool.or_eq_true, Bool.and_eq_true, beq_iff_eq, bne_iff_ne]
    constructor
    · intro hh d hd e he hp
      rcases hh d hd e he with h1 | h1
      · exact absurd hp h1
      · exact h1
    · intro hh d hd e he
      by_cases hp : e.path = d.path
      · exact Or.inr (hh d hd e he hp)
      · exact Or.inl hp
  rw [← hA, ← hB, ← hC]
  by_cases h0 : l.settings.ext = ext
  · cases h1 : l.descs.all (fun d => descs.any (fun e => e.path == d.path)) <;>
    cases h2 : l.descs.all (fun d => descs.all (fun e => e.path != d.path || (e.type == d.type && e.cons == d.cons))) <;>
    cases h3 : descs.all (fun d => l.descs.any (fun e => e.path == d.path)) <;>
    simp [h0]
  · have : (l.settings.ext != ext) = true := by simpa using h0
    simp [this, h0]

/-- the error classes, in the order `isCompatibleWith` reports them -/
theorem compatErr_cases (l : Loaded) (ext : String) (descs : List FieldDesc) :
    compatErr l ext descs = none ∨ compatErr l ext descs = some .extMismatch ∨
    compatErr l ext descs = some .unknownField ∨ compatErr l ext descs = some .descModif := by
  unfold compatErr
  split
  · exact Or.inr (Or.inl rfl)
  · split
    · exact Or.inr (Or.inr (Or.inl rfl))
    · split
      · exact Or.inr (Or.inr (Or.inr rfl))
      · split
        · exact Or.inr (Or.inr (Or.inl rfl))
        · exact Or.inl rfl

/-! ### a compatible `Create` (switch of cache/async settings) keeps the objects -/

/-- the fold of `flushAll` only changes the directory (and the log); its files are the puts, in order -/
theorem flushFold_proj (ps : OMap) (c : Coll) :
    (ps.foldl (fun c p => (c.fs .mkdir).fs (.writeObj p.2)) c).mem = c.mem ∧
    (ps.foldl (fun c p => (c.fs .mkdir).fs (.writeObj p.2)) c).cache = c.cache ∧
    (ps.foldl (fun c p => (c.fs .mkdir).fs (.writeObj p.2)) c).pending = c.pending ∧
    (ps.foldl (fun c p => (c.fs .mkdir).fs (.writeObj p.2)) c).live = c.live ∧
    (ps.foldl (fun c p => (c.fs .mkdir).fs (.writeObj p.2)) c).disk.files =
      ps.foldl (fun f p => f.put p.2) c.disk.files := by
  induction ps generalizing c with
  | nil => exact ⟨rfl, rfl, rfl, rfl, rfl⟩
  | cons p t ih =>
    simp only [List.foldl_cons]
    obtain ⟨h1, h2, h3, h4, h5⟩ := ih ((c.fs .mkdir).fs (.writeObj p.2))
    refine ⟨h1.trans (by simp), h2.trans (by simp), h3.trans (by simp), h4.trans (by simp), ?_⟩
    rw [h5]; simp

/-- writing the entries of a keyed association list without duplicate keys, in order, over a file map:
    each key of the list reads its entry, the other keys are untouched -/
theorem foldl_put_get? (ps : OMap) (hk : ps.Keyed) (hn : (ps.map (·.1)).Nodup) (files : OMap) (u : Nat) :
    (ps.foldl (fun f p => f.put p.2) files).get? u =
      match ps.get? u with
      | some o => some o
      | none => files.get? u := by
  induction ps generalizing files with
  | nil => rfl
  | cons p t ih =>
    rw [List.map_cons, List.nodup_cons] at hn
    have hkt : OMap.Keyed t := fun q hq => hk q (List.mem_cons_of_mem _ hq)
    have hp : p.2.uuid = p.1 := hk p List.mem_cons_self
    rw [List.foldl_cons, ih hkt hn.2, OMap.get?_cons, OMap.get?_put, hp]
    by_cases hu : p.1 = u
    · have ht : OMap.get? t u = none := by
        rw [OMap.get?_eq_none_iff]
        intro q hq he
        exact hn.1 (by rw [hu, ← he]; exact List.mem_map_of_mem hq)
      rw [ht, if_pos hu, if_pos hu.symm]
    · have hu' : ¬ u = p.1 := fun e => hu e.symm
      rw [if_neg hu, if_neg hu']

theorem flushAll_pending (c : Coll) : c.flushAll.pending = [] := rfl
theorem flushAll_mem (c : Coll) : c.flushAll.mem = c.mem := (flushFold_proj c.pending c).1
theorem flushAll_cache (c : Coll) : c.flushAll.cache = c.cache := (flushFold_proj c.pending c).2.1
theorem flushAll_live (c : Coll) : c.flushAll.live = c.live := (flushFold_proj c.pending c).2.2.2.1
theorem flushAllC_files (c : Coll) :
    c.flushAll.disk.files = c.pending.foldl (fun f p => f.put p.2) c.disk.files := (flushFold_proj c.pending c).2.2.2.2

/-- no two pending entries under the same identifier (true of every state the model builds, since
    `put` erases first; not part of `Inv`) -/
def PendNodupC (c : Coll) : Prop := (c.pending.map (·.1)).Nodup

theorem keys_nodup_erase {m : OMap} (h : (m.map (·.1)).Nodup) (u : Nat) : ((m.erase u).map (·.1)).Nodup := by
  unfold OMap.erase
  exact List.Nodup.sublist (List.Sublist.map _ List.filter_sublist) h

theorem keys_nodup_put {m : OMap} (h : (m.map (·.1)).Nodup) (o : Obj) : ((m.put o).map (·.1)).Nodup := by
  unfold OMap.put
  rw [List.map_append, List.nodup_append]
  refine ⟨keys_nodup_erase h o.uuid, by simp, ?_⟩
  intro a ha b hb hab
  have hb' : b = o.uuid := by simpa using hb
  obtain ⟨q, hq, rfl⟩ := List.mem_map.mp ha
  unfold OMap.erase at hq
  have := (List.mem_filter.mp hq).2
  rw [hab, hb'] at this
  simp at this

/-- the two ways the model changes the pending store keep `PendNodupC` (and the empty store has it) -/
theorem pendNodup_steps (c : Coll) (hn : PendNodupC c) (o : Obj) (u : Nat) :
    PendNodupC { c with pending := c.pending.put o } ∧ PendNodupC { c with pending := c.pending.erase u } ∧
    PendNodupC { c with pending := [] } :=
  ⟨keys_nodup_put hn o, keys_nodup_erase hn u, List.nodup_nil⟩

/-- `flushAll` keeps the denoted objects: the files afterwards hold every pending object, and the
    objects that were not pending are untouched -/
theorem flushAll_files_get? {c : Coll} (hk : c.pending.Keyed) (hn : PendNodupC c) (u : Nat) :
    c.flushAll.disk.files.get? u = c.view u := by
  rw [flushAllC_files, foldl_put_get? c.pending hk hn, view_eq]
  cases c.pending.get? u <;> rfl

theorem flushAllC_view {c : Coll} (hk : c.pending.Keyed) (hn : PendNodupC c) : c.flushAll.view = c.view := by
  funext u
  rw [view_nopend (flushAll_pending c), flushAll_files_get? hk hn]

/-- without `PendNodupC` this is false, even on keyed pending stores: the view reads the FIRST entry
    of an identifier, the flush leaves the LAST one in the file -/
theorem flushAllC_view_counterexample :
    ∃ c : Coll, c.pending.Keyed ∧ c.flushAll.view ≠ c.view := by
  refine ⟨{ live := [], pending := [(5, ⟨5, "a", []⟩), (5, ⟨5, "b", []⟩)] }, ?_, ?_⟩
  · intro p hp
    simp only [List.mem_cons, List.not_mem_nil, or_false] at hp
    rcases hp with rfl | rfl <;> rfl
  · intro he
    have h5 := congrFun he 5
    have h1 : (({ live := [], pending := [(5, ⟨5, "a", []⟩), (5, ⟨5, "b", []⟩)] } : Coll).flushAll.view 5)
        = some ⟨5, "b", []⟩ := rfl
    have h2 : (({ live := [], pending := [(5, ⟨5, "a", []⟩), (5, ⟨5, "b", []⟩)] } : Coll).view 5)
        = some ⟨5, "a", []⟩ := rfl
    rw [h1, h2] at h5
    exact absurd h5 (by decide)

/-- the schema a compatible `Create` leaves in the handle -/
def createLoaded (l : Loaded) (st : Settings) : Loaded :=
  startFlusher { l with settings := { l.settings with cache := st.cache, async := st.async } }

/-- the state a compatible `Create` builds -/
def createState (c : Coll) (l : Loaded) (st : Settings) : Coll :=
  (({ c.flushAll with cache := [] } : Coll).setMem (createLoaded l st)).commit (createLoaded l st)

theorem create_compatible_eq {c : Coll} {l : Loaded} (descs : List FieldDesc) (st : Settings)
    (hs : c.schema = (c, .ok l)) (hc : compatErr l st.ext descs = none) :
    c.create descs st = (createState c l st, .ok ()) := by
  unfold Coll.create
  rw [hs]
  simp only [hc]
  rfl

theorem createLoaded_proj (l : Loaded) (st : Settings) :
    (createLoaded l st).descs = l.descs ∧ (createLoaded l st).index = l.index ∧
    (createLoaded l st).settings.ext = l.settings.ext ∧ (createLoaded l st).settings.compress = l.settings.compress ∧
    (createLoaded l st).settings.cache = st.cache ∧ (createLoaded l st).settings.async = st.async := by
  unfold createLoaded startFlusher
  split <;> exact ⟨rfl, rfl, rfl, rfl, rfl, rfl⟩

theorem createLoaded_flusher (l : Loaded) (st : Settings) (h : (createLoaded l st).settings.async.isSome = true) :
    (createLoaded l st).flusher = true := by
  have ha := (createLoaded_proj l st).2.2.2.2.2
  rw [ha] at h
  unfold createLoaded startFlusher
  simp only [h, Bool.true_and]
  cases hf : l.flusher <;> simp

theorem createState_proj (c : Coll) (l : Loaded) (st : Settings) :
    (createState c l st).pending = [] ∧ (createState c l st).cache = [] ∧
    (createState c l st).mem = some (createLoaded l st) ∧
    (createState c l st).disk.files = c.flushAll.disk.files ∧ (createState c l st).live = c.live := by
  unfold createState
  refine ⟨by simp [flushAll_pending], by simp, by simp, by simp, ?_⟩
  simp [Coll.commit, Coll.setMem, flushAll_live]

/-- C17: `Create` with compatible descriptors on a loaded collection succeeds, leaves nothing pending and
    nothing cached, and the collection denotes the same objects — switching cache/async settings loses
    nothing -/
theorem create_idempotent_view {c : Coll} {l : Loaded} (descs : List FieldDesc) (st : Settings)
    (h : Inv' c l) (hn : PendNodupC c) (hc : compatErr l st.ext descs = none) :
    (c.create descs st).2 = .ok () ∧ (c.create descs st).1.pending = [] ∧ (c.create descs st).1.cache = [] ∧
    (c.create descs st).1.view = c.view := by
  rw [create_compatible_eq descs st (schema_of_inv h.toInv) hc]
  obtain ⟨h1, h2, _, h4, _⟩ := createState_proj c l st
  refine ⟨rfl, h1, h2, ?_⟩
  funext u
  show (createState c l st).view u = c.view u
  rw [view_nopend h1, h4, flushAll_files_get? h.keyedP hn]

/-! `PendNodupC` cannot be dropped from `create_idempotent_view`: `Inv'` does not exclude two pending
  entries under one identifier.  Asynchronous collection with object 5 pending twice (values `a`
  then `b`); it denotes `a`; a compatible `Create` flushes `a` then `b` and ends denoting `b`. -/

namespace CanonCounter

def a5 : Obj := { uuid := 5, shape := "a", vals := [] }
def b5 : Obj := { uuid := 5, shape := "b", vals := [] }
def l1 : Loaded := { descs := [], settings := { async := some ⟨10, 10⟩ },
                     index := { next := 1, ids := [(0, 5)], fields := [] }, flusher := true }
def c1 : Coll := { live := [], disk := { dir := true }, mem := some l1, cache := [(5, a5)],
                   pending := [(5, a5), (5, b5)] }

theorem view1 (u : Nat) : c1.view u = if 5 = u then some a5 else none := by
  rw [view_eq]
  show (match OMap.get? [(5, a5), (5, b5)] u with | some o => some o | none => OMap.get? [] u) = _
  rw [OMap.get?_cons, OMap.get?_cons, OMap.get?_nil]
  by_cases hu : 5 = u
  · simp [hu]
  · simp [hu]

theorem inv1 : Inv' c1 l1 := by
  refine ⟨⟨rfl, ⟨by decide, by decide, by decide, (fun fi hfi => by cases hfi)⟩, ⟨?_, (fun fi hfi => by cases hfi)⟩,
    ?_, ?_, ?_, ?_, (fun hs => by cases hs), (fun _ => rfl), OMap.Keyed.nil, ?_, ?_⟩, fun hmc => by cases hmc⟩
  · intro p hp
    have : p = (0, 5) := by simpa [l1] using hp
    subst this
    exact ⟨a5, rfl, rfl⟩
  · intro u
    rw [view1]
    show u ∈ [5] ↔ _
    by_cases hu : 5 = u
    · simp [hu.symm]
    · have : u ≠ 5 := fun e => hu e.symm
      simp [hu, this]
  · intro u o hv
    rw [view1] at hv
    by_cases hu : 5 = u
    · rw [if_pos hu] at hv
      injection hv with hv
      subst hv
      exact ⟨(fun fi hfi => by cases hfi), hu⟩
    · rw [if_neg hu] at hv; cases hv
  · intro u o hg
    rw [view1]
    change OMap.get? [(5, a5)] u = some o at hg
    rw [OMap.get?_cons, OMap.get?_nil] at hg
    exact hg
  · intro u o hg
    change OMap.get? [(5, a5), (5, b5)] u = some o at hg
    show OMap.get? [(5, a5)] u = some o
    rw [OMap.get?_cons, OMap.get?_cons, OMap.get?_nil] at hg
    rw [OMap.get?_cons, OMap.get?_nil]
    by_cases hu : 5 = u
    · simp only [if_pos hu] at hg ⊢; exact hg
    · simp only [if_neg hu] at hg; cases hg
  · intro p hp
    have : p = (5, a5) ∨ p = (5, b5) := by simpa [c1] using hp
    rcases this with rfl | rfl <;> rfl
  · intro p hp
    have : p = (5, a5) := by simpa [c1] using hp
    subst this; rfl

end CanonCounter

open CanonCounter in
theorem create_idempotent_view_counterexample :
    ∃ (c : Coll) (l : Loaded) (descs : List FieldDesc) (st : Settings), Inv' c l ∧
      compatErr l st.ext descs = none ∧ (c.create descs st).2 = .ok () ∧ (c.create descs st).1.view ≠ c.view := by
  refine ⟨c1, l1, [], {}, inv1, rfl, rfl, ?_⟩
  intro he
  have h5 := congrFun he 5
  have h1 : (c1.create [] {}).1.view 5 = some b5 := rfl
  have h2 : c1.view 5 = some a5 := rfl
  rw [h1, h2] at h5
  exact absurd h5 (by decide)

theorem keyed_foldl_put (ps : OMap) (files : OMap) (hf : files.Keyed) :
    (ps.foldl (fun f p => f.put p.2) files).Keyed := by
  induction ps generalizing files with
  | nil => exact hf
  | cons p t ih => exact ih _ (hf.put p.2)

/-- … and the handle is consistent again, under the new settings -/
theorem create_idempotent_inv {c : Coll} {l : Loaded} (descs : List FieldDesc) (st : Settings)
    (h : Inv' c l) (hn : PendNodupC c) (hc : compatErr l st.ext descs = none) :
    Inv' (c.create descs st).1 (createLoaded l st) ∧ PendNodupC (c.create descs st).1 := by
  have hv := (create_idempotent_view descs st h hn hc).2.2.2
  rw [create_compatible_eq descs st (schema_of_inv h.toInv) hc] at hv ⊢
  change (createState c l st).view = c.view at hv
  obtain ⟨h1, h2, h3, h4, _⟩ := createState_proj c l st
  obtain ⟨p1, p2, _⟩ := createLoaded_proj l st
  show Inv' (createState c l st) (createLoaded l st) ∧ PendNodupC (createState c l st)
  refine ⟨⟨⟨h3, by rw [p2]; exact h.wf, by rw [p2, hv]; exact h.refl, by rw [p2, hv]; exact h.dom, ?_, ?_, ?_,
    fun _ => h1, createLoaded_flusher l st, ?_, by rw [h1]; exact OMap.Keyed.nil, by rw [h2]; exact OMap.Keyed.nil⟩,
    fun _ => h2⟩, ?_⟩
  · intro u o hu
    rw [hv] at hu
    obtain ⟨t1, t2⟩ := h.typed u o hu
    refine ⟨?_, t2⟩
    unfold Obj.Typed at t1 ⊢
    rw [p2]; exact t1
  · intro u o hg; rw [h2] at hg; cases hg
  · intro u o hg; rw [h1] at hg; cases hg
  · rw [h4, flushAllC_files]; exact keyed_foldl_put _ _ h.keyedF
  · unfold PendNodupC; rw [h1]; exact List.nodup_nil

end Sod
