/-
  Inv.lean — the abstraction function and the main invariant of a loaded collection.

  `view c` is what the collection denotes: uuid ↦ object, the pending (not yet flushed)
  value taking precedence over the file.  `Inv c l` ties the loaded schema `l` (index,
  settings), the cache and the pending store to that view.  The refinement theorems
  (Proofs/Crud.lean, Props/C01.lean …) show that every call preserves `Inv` and answers
  as the abstract map `view` says.
-/
import SodModel.Search
import Proofs.ObjIndex
namespace Sod

/-- the abstract content of the collection -/
def Coll.view (c : Coll) (u : Nat) : Option Obj :=
  match c.pending.get? u with
  | some o => some o
  | none => c.disk.files.get? u

/-- every entry of an object map is stored under its own uuid -/
def OMap.Keyed (m : OMap) : Prop := ∀ p ∈ m, p.2.uuid = p.1

structure Inv (c : Coll) (l : Loaded) : Prop where
  mem        : c.mem = some l
  wf         : l.index.WF
  refl       : Reflects l.index c.view
  dom        : ∀ u, u ∈ l.index.uuids ↔ (c.view u).isSome
  typed      : ∀ u o, c.view u = some o → o.Typed l.index ∧ o.uuid = u
  cacheOk    : ∀ u o, c.cache.get? u = some o → c.view u = some o
  pendCached : ∀ u o, c.pending.get? u = some o → c.cache.get? u = some o
  syncNoPend : l.settings.async = none → c.pending = []
  flusher    : l.settings.async.isSome = true → l.flusher = true
  keyedF     : c.disk.files.Keyed
  keyedP     : c.pending.Keyed
  keyedC     : c.cache.Keyed

/-- pointwise update of a view -/
def updView (v : Nat → Option Obj) (u : Nat) (x : Option Obj) : Nat → Option Obj :=
  fun w => if w = u then x else v w

end Sod
