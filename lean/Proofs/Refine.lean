/-
  Refine.lean — C01: the CRUD calls of a collection refine a finite map.

  The abstract specification (`Spec`, `Spec.Step`) is a map  uuid ↦ object  together with the list
  of stored identifiers.  It has no configuration at all: no cache, no pending store, no files, no
  index.  `step_refines` shows that one call on the concrete model (`Coll.step`) is matched by one
  step of the specification with the same observation, and that the simulation relation `Sim` is
  kept; `C01_refines` lifts this to every finite sequence of calls.  Since the specification is
  deterministic (`Spec.Step.det`), two collections with different settings but the same abstract
  content answer every call sequence alike (`C01_config_independent`).
-/
import Proofs.Crud
namespace Sod

/-! ### 1. calls, observations, the concrete step -/

inductive Call
  | ins (o : Obj) (fresh : Nat)      -- InsertOrUpdate; `fresh` = identifier drawn for an unidentified object
  | del (u : Nat)                    -- Delete
  | get (u : Nat)                    -- Get / GetByUUID
  | exist (u : Nat)                  -- Exist
  | count                            -- Count
  | all                              -- All / AssignAll (as a set)

inductive Obs
  | unit (r : Res Unit)
  | obj (r : Res Obj)
  | bool (r : Res Bool)
  | nat (r : Res Nat)
  | objs (r : Res (List Obj))        -- compared up to permutation, see `ObsEq`

/-- one public call on the concrete model -/
def Coll.step (E : Env) (c : Coll) : Call → Coll × Obs
  | .ins o fresh => ((c.insert E o fresh).1, .unit (c.insert E o fresh).2)
  | .del u => ((c.delete u).1, .unit (c.delete u).2)
  | .get u => ((c.get u).1, .obj (c.get u).2)
  | .exist u => ((c.exist u).1, .bool (c.exist u).2)
  | .count => (c.count.1, .nat c.count.2)
  | .all => (c.all.1, .objs c.all.2.1)

/-- a finite sequence of calls: final state and the list of observations -/
def Coll.run (E : Env) (c : Coll) : List Call → Coll × List Obs
  | [] => (c, [])
  | k :: ks => ((Coll.run E (c.step E k).1 ks).1, (c.step E k).2 :: (Coll.run E (c.step E k).1 ks).2)

/-- equality of observations; the result of `All` is a set (Go map order) -/
inductive ObsEq : Obs → Obs → Prop
  | refl (a : Obs) : ObsEq a a
  | perm {a b : List Obj} : a.Perm b → ObsEq (.objs (.ok a)) (.objs (.ok b))

/-- pointwise `ObsEq` -/
inductive ObsListEq : List Obs → List Obs → Prop
  | nil : ObsListEq [] []
  | cons {a b : Obs} {as bs : List Obs} : ObsEq a b → ObsListEq as bs → ObsListEq (a :: as) (b :: bs)

theorem ObsEq.symm {a b : Obs} (h : ObsEq a b) : ObsEq b a := by
  cases h with
  | refl => exact .refl _
  | perm p => exact .perm p.symm

theorem ObsEq.trans {a b c : Obs} (h1 : ObsEq a b) (h2 : ObsEq b c) : ObsEq a c := by
  cases h1 with
  | refl => exact h2
  | perm p =>
    cases h2 with
    | refl => exact .perm p
    | perm q => exact .perm (p.trans q)

theorem ObsListEq.symm {a b : List Obs} (h : ObsListEq a b) : ObsListEq b a := by
  induction h with
  | nil => exact .nil
  | cons h _ ih => exact .cons h.symm ih

theorem ObsListEq.trans {a b c : List Obs} (h1 : ObsListEq a b) (h2 : ObsListEq b c) : ObsListEq a c := by
  induction h1 generalizing c with
  | nil => exact h2
  | cons h _ ih =>
    cases h2 with
    | cons h' t => exact .cons (h.trans h') (ih t)

/-! ### 2. the abstract specification -/

structure SpecCfg where
  descs : List FieldDesc                 -- for canonicalisation
  uniquePos : List Nat                   -- positions of the leaves carrying a unique constraint

/-- abstract state: the map and the stored identifiers (in order of first insertion, no duplicates) -/
structure Spec where
  map : Nat → Option Obj
  dom : List Nat

/-- a different stored object already holds the value of `o` in a unique field -/
def Spec.conflict (cfg : SpecCfg) (s : Nat → Option Obj) (dom : List Nat) (o : Obj) : Prop :=
  ∃ p ∈ cfg.uniquePos, ∃ u ∈ dom, u ≠ o.uuid ∧ ∃ o', s u = some o' ∧ o'.field p = o.field p

/-- the object as it reaches the store: user transform, then case canonicalisation -/
def Spec.incoming (cfg : SpecCfg) (E : Env) (o : Obj) : Obj := E.canon cfg.descs (E.transform o)

def Spec.put (s : Spec) (o : Obj) : Spec :=
  { map := updView s.map o.uuid (some o), dom := if o.uuid ∈ s.dom then s.dom else s.dom ++ [o.uuid] }

def Spec.remove (s : Spec) (u : Nat) : Spec :=
  { map := updView s.map u none, dom := s.dom.filter (· != u) }

inductive Spec.Step (cfg : SpecCfg) (E : Env) : Spec → Call → Spec → Obs → Prop
  | insInvalid (s : Spec) (o : Obj) (fresh : Nat) :
      E.validate (Spec.incoming cfg E o) = false →
      Step cfg E s (.ins o fresh) s (.unit (.err .invalid))
  | insUnserial (s : Spec) (o : Obj) (fresh : Nat) :
      E.validate (Spec.incoming cfg E o) = true →
      E.serialisable (assignNew (Spec.incoming cfg E o) fresh) = false →
      Step cfg E s (.ins o fresh) s (.unit (.err .other))
  | insConflict (s : Spec) (o : Obj) (fresh : Nat) :
      E.validate (Spec.incoming cfg E o) = true →
      E.serialisable (assignNew (Spec.incoming cfg E o) fresh) = true →
      Spec.conflict cfg s.map s.dom (assignNew (Spec.incoming cfg E o) fresh) →
      Step cfg E s (.ins o fresh) s (.unit (.err .unique))
  | insOk (s : Spec) (o : Obj) (fresh : Nat) :
      E.validate (Spec.incoming cfg E o) = true →
      E.serialisable (assignNew (Spec.incoming cfg E o) fresh) = true →
      ¬ Spec.conflict cfg s.map s.dom (assignNew (Spec.incoming cfg E o) fresh) →
      Step cfg E s (.ins o fresh) (s.put (assignNew (Spec.incoming cfg E o) fresh)) (.unit (.ok ()))
  | del (s : Spec) (u : Nat) : Step cfg E s (.del u) (s.remove u) (.unit (.ok ()))
  | get (s : Spec) (u : Nat) :
      Step cfg E s (.get u) s (.obj (match s.map u with | some o => .ok o | none => .err .notFound))
  | exist (s : Spec) (u : Nat) : Step cfg E s (.exist u) s (.bool (.ok (s.map u).isSome))
  | count (s : Spec) : Step cfg E s .count s (.nat (.ok s.dom.length))
  | all (s : Spec) (os : List Obj) : os.Perm (s.dom.filterMap s.map) → Step cfg E s .all s (.objs (.ok os))

inductive Spec.Run (cfg : SpecCfg) (E : Env) : Spec → List Call → Spec → List Obs → Prop
  | nil (s : Spec) : Run cfg E s [] s []
  | cons {s s1 s2 : Spec} {k : Call} {ks : List Call} {ob : Obs} {obs : List Obs} :
      Spec.Step cfg E s k s1 ob → Run cfg E s1 ks s2 obs → Run cfg E s (k :: ks) s2 (ob :: obs)

/-- the specification is deterministic: same next state, same observation (up to the order of `All`) -/
theorem Spec.Step.det {cfg : SpecCfg} {E : Env} {s s1 s2 : Spec} {k : Call} {o1 o2 : Obs}
    (h1 : Spec.Step cfg E s k s1 o1) (h2 : Spec.Step cfg E s k s2 o2) : s1 = s2 ∧ ObsEq o1 o2 := by
  cases h1 <;> cases h2 <;> first
    | exact ⟨rfl, .refl _⟩
    | (rename_i _ p _ q; exact ⟨rfl, .perm (p.trans q.symm)⟩)
    | (simp_all; done)
    | contradiction

theorem Spec.Run.det {cfg : SpecCfg} {E : Env} {s s1 s2 : Spec} {ks : List Call} {o1 o2 : List Obs}
    (h1 : Spec.Run cfg E s ks s1 o1) (h2 : Spec.Run cfg E s ks s2 o2) : s1 = s2 ∧ ObsListEq o1 o2 := by
  induction h1 generalizing s2 o2 with
  | nil => cases h2; exact ⟨rfl, .nil⟩
  | cons st _ ih =>
    cases h2 with
    | cons st' r' =>
      obtain ⟨e, ho⟩ := st.det st'
      subst e
      obtain ⟨e', ho'⟩ := ih r'
      exact ⟨e', .cons ho ho'⟩

/-! ### 3. what never changes in the object index: position, cast and constraints of its fields -/

def ObjIndex.sig (ix : ObjIndex) : List (Nat × Tag × Cons) := ix.fields.map (fun fi => (fi.pos, fi.cast, fi.cons))

/-- positions of the leaves carrying a unique constraint -/
def ObjIndex.uniquePos (ix : ObjIndex) : List Nat := (ix.fields.filter (·.cons.unique)).map (·.pos)

theorem uniquePos_eq_sig (ix : ObjIndex) :
    ix.uniquePos = (ix.sig.filter (fun t => t.2.2.unique)).map (·.1) := by
  unfold ObjIndex.uniquePos ObjIndex.sig
  rw [List.filter_map, List.map_map]
  rfl

theorem mem_uniquePos {ix : ObjIndex} {p : Nat} :
    p ∈ ix.uniquePos ↔ ∃ fi ∈ ix.fields, fi.cons.unique = true ∧ fi.pos = p := by
  unfold ObjIndex.uniquePos
  simp only [List.mem_map, List.mem_filter]
  constructor
  · rintro ⟨fi, ⟨h1, h2⟩, h3⟩; exact ⟨fi, h1, h2, h3⟩
  · rintro ⟨fi, h1, h2, h3⟩; exact ⟨fi, ⟨h1, h2⟩, h3⟩

theorem sig_insert {ix ix' : ObjIndex} {o : Obj} (hr : ix.insertOrUpdate o = .ok ix') : ix'.sig = ix.sig := by
  obtain ⟨_, _, hc⟩ := insertOrUpdate_inv hr
  rcases hc with ⟨oid, _, rfl⟩ | ⟨_, rfl⟩
  · simp only [ObjIndex.sig, updIx, List.map_map]; rfl
  · simp only [ObjIndex.sig, insIx, List.map_map]; rfl

theorem sig_delete (ix : ObjIndex) (u : Nat) : (ix.deleteByUUID u).sig = ix.sig := by
  cases ho : ix.oidOf u with
  | none => rw [deleteByUUID_eq_none ho]
  | some oid =>
    rw [deleteByUUID_eq_some ho]
    simp only [ObjIndex.sig, ObjIndex.deleteFields, List.map_map]; rfl

theorem typed_of_sig {ix ix' : ObjIndex} (h : ix'.sig = ix.sig) {o : Obj} (ht : o.Typed ix) : o.Typed ix' := by
  apply typed_of_fields _ ht
  intro fi' hfi'
  have : (fi'.pos, fi'.cast, fi'.cons) ∈ ix'.sig := List.mem_map.mpr ⟨fi', hfi', rfl⟩
  rw [h] at this
  obtain ⟨fi, hfi, he⟩ := List.mem_map.mp this
  injection he with h1 h2
  injection h2 with h2 _
  exact ⟨fi, hfi, h1.symm, h2.symm⟩

/-- settings, descriptors and the shape of the index of a loaded schema stay what they were -/
structure Stable (l l' : Loaded) : Prop where
  descs : l'.descs = l.descs
  settings : l'.settings = l.settings
  sig : l'.index.sig = l.index.sig

theorem Stable.rfl' (l : Loaded) : Stable l l := ⟨rfl, rfl, rfl⟩

theorem Stable.trans {l l' l'' : Loaded} (h1 : Stable l l') (h2 : Stable l' l'') : Stable l l'' :=
  ⟨h2.descs.trans h1.descs, h2.settings.trans h1.settings, h2.sig.trans h1.sig⟩

/-! ### 4. the simulation relation -/

structure Sim (cfg : SpecCfg) (c : Coll) (l : Loaded) (s : Spec) : Prop where
  inv   : Inv' c l
  map   : s.map = c.view
  dom   : s.dom.Perm l.index.uuids
  descs : cfg.descs = l.descs
  upos  : ∀ p, p ∈ cfg.uniquePos ↔ p ∈ l.index.uniquePos

/-- under `Sim` the abstract state is a well-formed finite map: `dom` lists exactly the stored
    identifiers, each once (so `Count` = number of stored objects) -/
theorem Sim.dom_nodup {cfg : SpecCfg} {c : Coll} {l : Loaded} {s : Spec} (h : Sim cfg c l s) : s.dom.Nodup :=
  h.dom.nodup_iff.mpr h.inv.wf.uuidNodup

theorem Sim.mem_dom {cfg : SpecCfg} {c : Coll} {l : Loaded} {s : Spec} (h : Sim cfg c l s) (u : Nat) :
    u ∈ s.dom ↔ (s.map u).isSome := by
  rw [h.dom.mem_iff, h.map]; exact h.inv.dom u

/-- the object a call inserts has a value of the right kind in every indexed field
    (Go's type system; `Typed` only looks at `ObjIndex.sig`, which never changes) -/
def CallTyped (E : Env) (l : Loaded) : Call → Prop
  | .ins o fresh => (assignNew (E.canon l.descs (E.transform o)) fresh).Typed l.index
  | _ => True

def CallsTyped (E : Env) (l : Loaded) (calls : List Call) : Prop := ∀ k ∈ calls, CallTyped E l k

theorem CallTyped.congr {E : Env} {l l' : Loaded} (hd : l'.descs = l.descs) (hg : l'.index.sig = l.index.sig)
    {k : Call} (h : CallTyped E l k) : CallTyped E l' k := by
  cases k with
  | ins o fresh =>
    show (assignNew (E.canon l'.descs (E.transform o)) fresh).Typed l'.index
    rw [hd]
    exact typed_of_sig hg h
  | _ => trivial

theorem CallTyped.stable {E : Env} {l l' : Loaded} (hst : Stable l l') {k : Call} (h : CallTyped E l k) :
    CallTyped E l' k := h.congr hst.descs hst.sig

/-- `CallsTyped` spelled out -/
theorem callsTyped_iff {E : Env} {l : Loaded} {calls : List Call} :
    CallsTyped E l calls ↔
      ∀ o fresh, Call.ins o fresh ∈ calls → (assignNew (E.canon l.descs (E.transform o)) fresh).Typed l.index := by
  constructor
  · intro h o fresh hm; exact h _ hm
  · intro h k hk
    cases k with
    | ins o fresh => exact h o fresh hk
    | _ => trivial

/-- the link between the index check and the abstract conflict: the uniqueness error is answered
    exactly when another stored object holds the value at a unique position -/
theorem conflict_iff {cfg : SpecCfg} {c : Coll} {l : Loaded} {dom : List Nat} (h : Inv c l)
    (hdom : dom.Perm l.index.uuids) (hup : ∀ p, p ∈ cfg.uniquePos ↔ p ∈ l.index.uniquePos)
    {o : Obj} (ht : o.Typed l.index) :
    l.index.satisfyAll o = Res.err Err.unique ↔ Spec.conflict cfg c.view dom o := by
  rw [satisfyAll_unique_iff h.wf ht]
  constructor
  · rintro ⟨fi, hfi, hq, e, he, hf, hne⟩
    obtain ⟨u, o', hid, hv, hf'⟩ := (h.refl.2 fi hfi e).mp he
    have hu : l.index.uuidOf e.2 = some u := uuidOf_of_mem h.wf.oidNodup hid
    refine ⟨fi.pos, (hup _).mpr (mem_uniquePos.mpr ⟨fi, hfi, hq, rfl⟩), u, ?_, ?_, o', hv, ?_⟩
    · exact hdom.mem_iff.mpr (List.mem_map.mpr ⟨_, hid, rfl⟩)
    · intro hu'
      rw [hu, hu'] at hne
      exact hne rfl
    · rw [hf, hf']
  · rintro ⟨p, hp, u, hu, hne, o', hv, hf⟩
    obtain ⟨fi, hfi, hq, rfl⟩ := mem_uniquePos.mp ((hup _).mp hp)
    obtain ⟨v, hov, _⟩ := ht fi hfi
    obtain ⟨q, hq', hq2⟩ := List.mem_map.mp (hdom.mem_iff.mp hu)
    obtain ⟨oid, u'⟩ := q
    simp only at hq2
    subst hq2
    refine ⟨fi, hfi, hq, (v, oid), ?_, hov, ?_⟩
    · exact (h.refl.2 fi hfi (v, oid)).mpr ⟨u', o', hq', hv, by rw [hf, hov]⟩
    · rw [uuidOf_of_mem h.wf.oidNodup hq']
      intro he
      injection he with he
      exact hne he

/-! ### 5. `getMany` / `all` keep the strengthened invariant -/

theorem getMany_inv' {c : Coll} {l : Loaded} (h : Inv' c l) (us : List Nat) : Inv' (c.getMany us).1 l := by
  induction us generalizing c with
  | nil => exact h
  | cons u us ih =>
    obtain ⟨_, h2, _⟩ := get_spec' h u
    rw [Coll.getMany]
    rcases hg : c.get u with ⟨c1, r⟩
    rw [hg] at h2
    cases r with
    | ok o => exact ih h2
    | err e => exact h2
    | panic => exact h2

theorem all_eq {c : Coll} {l : Loaded} (h : Inv c l) :
    c.all = ((c.getMany l.index.uuids).1, Res.ok (l.index.uuids.filterMap c.view), l.index.uuids.filterMap c.view) ∧
    (c.getMany l.index.uuids).1.view = c.view := by
  obtain ⟨c', h1, _, h3, _⟩ := getMany_spec h l.index.uuids (fun u hu => (h.dom u).mp hu)
  constructor
  · unfold Coll.all
    rw [schema_of_inv h]
    simp only [h1]
  · rw [h1]; exact h3

/-! ### 6. one call -/

theorem step_refines {cfg : SpecCfg} {E : Env} {c : Coll} {l : Loaded} {s : Spec} {call : Call}
    (hs : Sim cfg c l s) (ht : CallTyped E l call) :
    ∃ l' s' obsSpec, Spec.Step cfg E s call s' obsSpec ∧ ObsEq (c.step E call).2 obsSpec ∧
      Sim cfg (c.step E call).1 l' s' ∧ Stable l l' := by
  obtain ⟨hinv, hmap, hdom, hdescs, hupos⟩ := hs
  obtain ⟨sm, sd⟩ := s
  obtain ⟨cd, cu⟩ := cfg
  simp only at hmap hdom hdescs hupos
  subst hmap hdescs
  cases call with
  | get u =>
    obtain ⟨h1, h2, h3, _⟩ := get_spec' hinv u
    refine ⟨l, _, _, Spec.Step.get _ u, ?_, ⟨h2, h3.symm, hdom, rfl, hupos⟩, Stable.rfl' l⟩
    show ObsEq (.obj (c.get u).2) _
    rw [h1]
    exact .refl _
  | exist u =>
    have h1 := exist_spec hinv.toInv u
    refine ⟨l, _, _, Spec.Step.exist _ u, ?_, ?_, Stable.rfl' l⟩
    · show ObsEq (.bool (c.exist u).2) _
      rw [h1]
      exact .refl _
    · show Sim _ (c.exist u).1 _ _
      rw [h1]
      exact ⟨hinv, rfl, hdom, rfl, hupos⟩
  | count =>
    have h1 := count_spec hinv.toInv
    refine ⟨l, _, _, Spec.Step.count _, ?_, ?_, Stable.rfl' l⟩
    · show ObsEq (.nat c.count.2) _
      rw [h1]
      show ObsEq (.nat (.ok l.index.uuids.length)) (.nat (.ok sd.length))
      rw [hdom.length_eq]
      exact .refl _
    · show Sim _ c.count.1 _ _
      rw [h1]
      exact ⟨hinv, rfl, hdom, rfl, hupos⟩
  | all =>
    obtain ⟨h1, h2⟩ := all_eq hinv.toInv
    refine ⟨l, _, _, Spec.Step.all _ _ (List.Perm.refl _), ?_, ?_, Stable.rfl' l⟩
    · show ObsEq (.objs c.all.2.1) _
      rw [h1]
      exact .perm (hdom.symm.filterMap _)
    · show Sim _ c.all.1 _ _
      rw [h1]
      exact ⟨getMany_inv' hinv _, h2.symm, hdom, rfl, hupos⟩
  | del u =>
    have h1 := delete_eq hinv.toInv u
    obtain ⟨l', _, h3, h4⟩ := delete_spec' hinv u
    have hl' : l' = { l with index := l.index.deleteByUUID u } := by
      have := h3.mem
      rw [h1, delState_mem] at this
      injection this with this
      exact this.symm
    subst hl'
    refine ⟨_, _, _, Spec.Step.del _ u, ?_, ⟨h3, h4.symm, ?_, rfl, ?_⟩, ⟨rfl, rfl, sig_delete _ u⟩⟩
    · show ObsEq (.unit (c.delete u).2) _
      rw [h1]
      exact .refl _
    · show (sd.filter (· != u)).Perm (l.index.deleteByUUID u).uuids
      rw [deleteByUUID_uuids hinv.wf]
      exact hdom.filter _
    · intro p
      show p ∈ cu ↔ p ∈ (l.index.deleteByUUID u).uniquePos
      rw [uniquePos_eq_sig, sig_delete, ← uniquePos_eq_sig]
      exact hupos p
  | ins o fresh =>
    have ht' : (assignNew (E.canon l.descs (E.transform o)) fresh).Typed l.index := ht
    have hst : c.step E (.ins o fresh) = ((c.insert E o fresh).1, .unit (c.insert E o fresh).2) := rfl
    rw [hst]
    rcases insert_cases hinv.toInv o fresh ht' with ⟨hv, hi⟩ | ⟨hv, hse, hi⟩ | ⟨hv, hse, hu, hi⟩ | ⟨hv, hse, hu, hi⟩
    · rw [hi]
      exact ⟨l, _, _, Spec.Step.insInvalid _ o fresh hv, .refl _, ⟨hinv, rfl, hdom, rfl, hupos⟩, Stable.rfl' l⟩
    · rw [hi]
      exact ⟨l, _, _, Spec.Step.insUnserial _ o fresh hv hse, .refl _, ⟨hinv, rfl, hdom, rfl, hupos⟩, Stable.rfl' l⟩
    · rw [hi]
      refine ⟨l, _, _, Spec.Step.insConflict _ o fresh hv hse ?_, .refl _, ⟨hinv, rfl, hdom, rfl, hupos⟩,
        Stable.rfl' l⟩
      exact (conflict_iff hinv.toInv hdom hupos ht').mp hu
    · obtain ⟨ix', hr⟩ : ∃ ix', l.index.insertOrUpdate (assignNew (E.canon l.descs (E.transform o)) fresh) = .ok ix' :=
        ⟨_, insertOrUpdate_of_ok ht'.hasVal hu⟩
      obtain ⟨c', l', h1, h2, h3, _, _⟩ := insertCore_accept' (E := E) true hinv ht' hse hu
      have h1' := insertCore_eq (E := E) (c := c) true hse hu hr
      rw [h1'] at h1
      injection h1 with e1 e2
      injection e2 with e2
      subst e1 e2
      rw [hi, h1']
      have hnc : ¬ Spec.conflict ⟨l.descs, cu⟩ c.view sd (assignNew (E.canon l.descs (E.transform o)) fresh) := by
        intro hc
        have := (conflict_iff hinv.toInv hdom hupos ht').mpr hc
        rw [hu] at this
        cases this
      refine ⟨_, _, _, Spec.Step.insOk _ o fresh hv hse hnc, .refl _, ⟨h2, h3.symm, ?_, rfl, ?_⟩,
        ⟨rfl, rfl, sig_insert hr⟩⟩
      · show (if (assignNew (E.canon l.descs (E.transform o)) fresh).uuid ∈ sd then sd
          else sd ++ [(assignNew (E.canon l.descs (E.transform o)) fresh).uuid]).Perm ix'.uuids
        rw [insertOrUpdate_uuids hr]
        by_cases hm : (assignNew (E.canon l.descs (E.transform o)) fresh).uuid ∈ sd
        · rw [if_pos hm, if_pos (hdom.mem_iff.mp hm)]; exact hdom
        · rw [if_neg hm, if_neg (fun h => hm (hdom.mem_iff.mpr h))]; exact hdom.append_right _
      · intro p
        show p ∈ cu ↔ p ∈ ix'.uniquePos
        rw [uniquePos_eq_sig, sig_insert hr, ← uniquePos_eq_sig]
        exact hupos p

/-! ### 7. every finite sequence of calls -/

theorem C01_refines {cfg : SpecCfg} {E : Env} {calls : List Call} {c : Coll} {l : Loaded} {s : Spec}
    (hs : Sim cfg c l s) (ht : CallsTyped E l calls) :
    ∃ l' s' obsSpec, Spec.Run cfg E s calls s' obsSpec ∧ ObsListEq (c.run E calls).2 obsSpec ∧
      Sim cfg (c.run E calls).1 l' s' ∧ Stable l l' := by
  induction calls generalizing c l s with
  | nil => exact ⟨l, s, [], .nil s, .nil, hs, Stable.rfl' l⟩
  | cons k ks ih =>
    obtain ⟨l1, s1, ob, h1, h2, h3, h4⟩ := step_refines (E := E) hs (ht k List.mem_cons_self)
    have ht1 : CallsTyped E l1 ks := fun k' hk' => (ht k' (List.mem_cons_of_mem _ hk')).stable h4
    obtain ⟨l2, s2, obs, i1, i2, i3, i4⟩ := ih h3 ht1
    exact ⟨l2, s2, ob :: obs, .cons h1 i1, .cons h2 i2, i3, h4.trans i4⟩

/-! ### 8. corollaries -/

/-- two collections with different settings (cache on/off, synchronous/asynchronous) but the same
    abstract content answer every sequence of calls alike -/
theorem C01_config_independent {cfg : SpecCfg} {E : Env} {calls : List Call} {c₁ c₂ : Coll} {l₁ l₂ : Loaded}
    {s : Spec} (h₁ : Sim cfg c₁ l₁ s) (h₂ : Sim cfg c₂ l₂ s)
    (t₁ : CallsTyped E l₁ calls) (t₂ : CallsTyped E l₂ calls) :
    ObsListEq (c₁.run E calls).2 (c₂.run E calls).2 ∧
    ∃ l₁' l₂' s', Sim cfg (c₁.run E calls).1 l₁' s' ∧ Sim cfg (c₂.run E calls).1 l₂' s' := by
  obtain ⟨l₁', s₁, o₁, r₁, e₁, m₁, _⟩ := C01_refines h₁ t₁
  obtain ⟨l₂', s₂, o₂, r₂, e₂, m₂, _⟩ := C01_refines h₂ t₂
  obtain ⟨es, eo⟩ := r₁.det r₂
  subst es
  exact ⟨e₁.trans (eo.trans e₂.symm), l₁', l₂', s₁, m₁, m₂⟩

def Call.isRead : Call → Bool
  | .ins _ _ => false
  | .del _ => false
  | _ => true

theorem callsTyped_of_reads {E : Env} {l : Loaded} {ks : List Call} (hr : ∀ k ∈ ks, k.isRead = true) :
    CallsTyped E l ks := by
  intro k hk
  have := hr k hk
  cases k with
  | ins o f => cases this
  | _ => trivial

/-- reads do not change the abstract state -/
theorem Spec.Run.reads {cfg : SpecCfg} {E : Env} {s s' : Spec} {ks : List Call} {obs : List Obs}
    (h : Spec.Run cfg E s ks s' obs) (hr : ∀ k ∈ ks, k.isRead = true) : s' = s := by
  induction h with
  | nil => rfl
  | cons st _ ih =>
    rw [ih (fun k hk => hr k (List.mem_cons_of_mem _ hk))]
    have := hr _ List.mem_cons_self
    cases st <;> first | rfl | cases this

/-- an identifier that is not stored is answered `notFound` every time it is tried … -/
theorem C01_absent_always {cfg : SpecCfg} {c : Coll} {l : Loaded} {s : Spec} (hs : Sim cfg c l s)
    (u : Nat) (ha : s.map u = none) (n : Nat) :
    ((iter n (fun c => (c.get u).1) c).get u).2 = Res.err Err.notFound :=
  get_absent_always hs.inv.toInv u (by rw [← hs.map]; exact ha) n

/-- … also after any number of intervening reads (`Get` of any identifier, `Exist`, `Count`, `All`):
    filling the cache never makes an absent object appear -/
theorem C01_absent_after_reads {cfg : SpecCfg} {E : Env} {c : Coll} {l : Loaded} {s : Spec} (hs : Sim cfg c l s)
    (u : Nat) (ha : s.map u = none) (reads : List Call) (hr : ∀ k ∈ reads, k.isRead = true) :
    ((c.run E reads).1.step E (.get u)).2 = .obj (.err .notFound) := by
  obtain ⟨l', s', obs, r, _, m, _⟩ := C01_refines (E := E) hs (callsTyped_of_reads hr)
  have := r.reads hr
  subst this
  show Obs.obj ((c.run E reads).1.get u).2 = _
  rw [(get_spec' m.inv u).1, ← m.map, ha]

/-- an accepted insert stores the object under its own identifier when it has one, under the
    freshly drawn one otherwise.  `hT` (the user's `Transform` hook leaves the identifier alone) is
    needed: see `C01_uuid_kept_needs_hT`. -/
theorem C01_uuid_kept {cfg : SpecCfg} {E : Env} {c : Coll} {l : Loaded} {s : Spec} {o : Obj} {fresh : Nat}
    (hs : Sim cfg c l s) (ht : CallTyped E l (.ins o fresh))
    (hacc : (c.step E (.ins o fresh)).2 = .unit (.ok ()))
    (hT : (E.transform o).uuid = o.uuid) :
    (o.uuid ≠ 0 → (c.step E (.ins o fresh)).1.view o.uuid = some (E.canon l.descs (E.transform o))) ∧
    (o.uuid = 0 → (c.step E (.ins o fresh)).1.view fresh =
                    some { E.canon l.descs (E.transform o) with uuid := fresh }) := by
  have hacc' : (c.insert E o fresh).2 = Res.ok () := by
    have : Obs.unit (c.insert E o fresh).2 = .unit (.ok ()) := hacc
    injection this
  obtain ⟨l', _, hv, _⟩ := insert_accepted' hs.inv o fresh ht hacc'
  have hcu : (E.canon l.descs (E.transform o)).uuid = o.uuid := hT
  show (_ → (c.insert E o fresh).1.view _ = _) ∧ (_ → (c.insert E o fresh).1.view _ = _)
  rw [hv]
  constructor
  · intro hne
    have : assignNew (E.canon l.descs (E.transform o)) fresh = E.canon l.descs (E.transform o) := by
      unfold assignNew
      rw [hcu]
      simp [hne]
    rw [this, hcu, updView_apply, if_pos rfl]
  · intro h0
    have : assignNew (E.canon l.descs (E.transform o)) fresh =
        { E.canon l.descs (E.transform o) with uuid := fresh } := by
      unfold assignNew
      rw [hcu, h0]
      simp
    rw [this, updView_apply, if_pos rfl]

/-! ### 9. non-vacuity: the freshly created collection, under every setting -/

def emptyLoaded (descs : List FieldDesc) (st : Settings) : Loaded :=
  { descs := descs, settings := st, index := ObjIndex.new descs, flusher := st.async.isSome }

def emptyColl (descs : List FieldDesc) (st : Settings) : Coll :=
  { live := [], mem := some (emptyLoaded descs st) }

theorem sim_init (descs : List FieldDesc) (st : Settings) :
    Sim ⟨descs, (ObjIndex.new descs).uniquePos⟩ (emptyColl descs st) (emptyLoaded descs st) ⟨fun _ => none, []⟩ := by
  have hv : (emptyColl descs st).view = fun _ => none := rfl
  refine ⟨⟨⟨rfl, new_wf descs, by rw [hv]; exact new_reflects descs, ?_, ?_, ?_, ?_, fun _ => rfl, id,
    OMap.Keyed.nil, OMap.Keyed.nil, OMap.Keyed.nil⟩, fun _ => rfl⟩, hv.symm, List.Perm.refl _, rfl, fun _ => Iff.rfl⟩
  · intro u
    rw [hv]
    show u ∈ [] ↔ _
    simp
  · intro u o h; rw [hv] at h; cases h
  · intro u o h; cases h
  · intro u o h; cases h

/-- so: whatever the cache / async settings, a new collection answers every call sequence the same -/
theorem C01_config_independent_init {E : Env} (descs : List FieldDesc) (st₁ st₂ : Settings) (calls : List Call)
    (t : CallsTyped E (emptyLoaded descs st₁) calls) :
    ObsListEq ((emptyColl descs st₁).run E calls).2 ((emptyColl descs st₂).run E calls).2 :=
  (C01_config_independent (sim_init descs st₁) (sim_init descs st₂) t (fun k hk => (t k hk).congr rfl rfl)).1

/-- `C01_uuid_kept` without `hT` is false: a `Transform` hook that rewrites the identifier makes an
    identified object land somewhere else -/
theorem C01_uuid_kept_needs_hT :
    ∃ (cfg : SpecCfg) (E : Env) (c : Coll) (l : Loaded) (s : Spec) (o : Obj) (fresh : Nat),
      Sim cfg c l s ∧ CallTyped E l (.ins o fresh) ∧ (c.step E (.ins o fresh)).2 = .unit (.ok ()) ∧
      o.uuid ≠ 0 ∧ (c.step E (.ins o fresh)).1.view o.uuid = none := by
  refine ⟨_, { up := id, lo := id, transform := fun o => { o with uuid := 9 }, validate := fun _ => true,
               compile := fun _ => none, serialisable := fun _ => true },
    _, _, _, { uuid := 5, shape := "", vals := [] }, 7, sim_init [] {}, ?_, rfl, by decide, rfl⟩
  intro fi hfi
  cases hfi

end Sod
