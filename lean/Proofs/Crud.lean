/-
  Crud.lean — the CRUD core (`get`, `exist`, `count`, `getMany`, `all`, `insertCore`, `insert`,
  `delete`) refines the abstract map `Coll.view`.

  `Inv` (Proofs/Inv.lean) is enough for the reads and for the rejecting half of the write path.
  It is NOT preserved by an accepted insert nor by a delete when caching is off and the cache
  happens to hold a (never read) entry: see `insertCore_accept_counterexample` and
  `delete_spec_counterexample`.  The write path is therefore stated over the strengthened
  invariant `Inv'` (= `Inv` + "cache off ⇒ cache empty"): theorems with a prime.
-/
import Proofs.Inv
namespace Sod

/-! ### association lists -/

namespace OMap

theorem get?_nil (u : Nat) : OMap.get? [] u = none := rfl

theorem get?_cons (p : Nat × Obj) (t : OMap) (u : Nat) :
    OMap.get? (p :: t) u = if p.1 = u then some p.2 else OMap.get? t u := by
  unfold OMap.get?
  rw [List.find?_cons]
  by_cases h : p.1 = u
  · simp [h]
  · have : (p.1 == u) = false := by simpa using h
    simp [this, h]

theorem erase_cons (p : Nat × Obj) (t : OMap) (u : Nat) :
    OMap.erase (p :: t) u = if p.1 = u then OMap.erase t u else p :: OMap.erase t u := by
  unfold OMap.erase
  by_cases h : p.1 = u
  · simp [h]
  · simp [h]

theorem get?_eq_none_iff {m : OMap} {u : Nat} : m.get? u = none ↔ ∀ p ∈ m, p.1 ≠ u := by
  induction m with
  | nil => simp [get?_nil]
  | cons p t ih =>
    rw [get?_cons]
    by_cases h : p.1 = u
    · simp [h]
    · simp [h, ih]

theorem get?_erase_self (m : OMap) (u : Nat) : (m.erase u).get? u = none := by
  rw [get?_eq_none_iff]
  intro p hp
  unfold OMap.erase at hp
  simpa using (List.mem_filter.mp hp).2

theorem get?_erase_other (m : OMap) {u w : Nat} (h : w ≠ u) : (m.erase u).get? w = m.get? w := by
  induction m with
  | nil => rfl
  | cons p t ih =>
    rw [erase_cons, get?_cons]
    by_cases hp : p.1 = u
    · have : p.1 ≠ w := fun e => h (e ▸ hp)
      rw [if_pos hp, if_neg this, ih]
    · rw [if_neg hp, get?_cons, ih]

theorem get?_erase (m : OMap) (u w : Nat) : (m.erase u).get? w = if w = u then none else m.get? w := by
  by_cases h : w = u
  · rw [if_pos h, h, get?_erase_self]
  · rw [if_neg h, get?_erase_other m h]

theorem get?_append (a b : OMap) (u : Nat) :
    OMap.get? (a ++ b) u = match a.get? u with | some o => some o | none => b.get? u := by
  induction a with
  | nil => rfl
  | cons p t ih =>
    rw [List.cons_append, get?_cons, get?_cons]
    by_cases h : p.1 = u
    · simp [h]
    · simp only [if_neg h]; exact ih

theorem get?_put_self (m : OMap) (o : Obj) : (m.put o).get? o.uuid = some o := by
  unfold OMap.put
  rw [get?_append, get?_erase_self]
  simp [get?_cons]

theorem get?_put_other (m : OMap) (o : Obj) {w : Nat} (h : w ≠ o.uuid) : (m.put o).get? w = m.get? w := by
  unfold OMap.put
  rw [get?_append, get?_erase_other m h]
  cases hm : m.get? w with
  | some x => rfl
  | none =>
    simp only [get?_cons, get?_nil]
    rw [if_neg (fun e => h e.symm)]

theorem get?_put (m : OMap) (o : Obj) (w : Nat) :
    (m.put o).get? w = if w = o.uuid then some o else m.get? w := by
  by_cases h : w = o.uuid
  · rw [if_pos h, h, get?_put_self]
  · rw [if_neg h, get?_put_other m o h]

theorem has_iff_get?_isSome (m : OMap) (u : Nat) : m.has u = (m.get? u).isSome := by
  induction m with
  | nil => rfl
  | cons p t ih =>
    rw [get?_cons]
    unfold OMap.has at ih ⊢
    rw [List.any_cons, ih]
    by_cases h : p.1 = u
    · simp [h]
    · simp [h]

theorem keys_nil : OMap.keys [] = [] := rfl

theorem Keyed.nil : OMap.Keyed [] := fun _ hp => by cases hp

theorem Keyed.erase {m : OMap} (h : m.Keyed) (u : Nat) : (m.erase u).Keyed := by
  intro p hp
  unfold OMap.erase at hp
  exact h p (List.mem_filter.mp hp).1

theorem Keyed.put {m : OMap} (h : m.Keyed) (o : Obj) : (m.put o).Keyed := by
  intro p hp
  unfold OMap.put at hp
  rcases List.mem_append.mp hp with hp | hp
  · exact h.erase _ p hp
  · rw [List.mem_singleton] at hp
    subst hp
    rfl

theorem Keyed.get? {m : OMap} (h : m.Keyed) {u : Nat} {o : Obj} (hg : m.get? u = some o) : o.uuid = u := by
  induction m with
  | nil => cases hg
  | cons p t ih =>
    rw [get?_cons] at hg
    by_cases hp : p.1 = u
    · rw [if_pos hp] at hg
      injection hg with hg
      rw [← hg, ← hp]
      exact h p List.mem_cons_self
    · rw [if_neg hp] at hg
      exact ih (fun q hq => h q (List.mem_cons_of_mem _ hq)) hg

end OMap

/-! ### projections of the directory primitives -/

@[simp] theorem fs_mem (c : Coll) (op : FsOp) : (c.fs op).mem = c.mem := by
  unfold Coll.fs; split <;> rfl
@[simp] theorem fs_cache (c : Coll) (op : FsOp) : (c.fs op).cache = c.cache := by
  unfold Coll.fs; split <;> rfl
@[simp] theorem fs_pending (c : Coll) (op : FsOp) : (c.fs op).pending = c.pending := by
  unfold Coll.fs; split <;> rfl
@[simp] theorem fs_live (c : Coll) (op : FsOp) : (c.fs op).live = c.live := by
  unfold Coll.fs; split <;> rfl
@[simp] theorem fs_mkdir_files (c : Coll) : (c.fs .mkdir).disk.files = c.disk.files := by
  unfold Coll.fs; split <;> rfl
@[simp] theorem fs_writeSchema_files (c : Coll) (i : SchemaImg) : (c.fs (.writeSchema i)).disk.files = c.disk.files := rfl
@[simp] theorem fs_writeObj_files (c : Coll) (o : Obj) : (c.fs (.writeObj o)).disk.files = c.disk.files.put o := rfl
@[simp] theorem fs_rmObj_files (c : Coll) (u : Nat) : (c.fs (.rmObj u)).disk.files = c.disk.files.erase u := rfl

@[simp] theorem setMem_mem (c : Coll) (l : Loaded) : (c.setMem l).mem = some l := rfl
@[simp] theorem setMem_cache (c : Coll) (l : Loaded) : (c.setMem l).cache = c.cache := rfl
@[simp] theorem setMem_pending (c : Coll) (l : Loaded) : (c.setMem l).pending = c.pending := rfl
@[simp] theorem setMem_disk (c : Coll) (l : Loaded) : (c.setMem l).disk = c.disk := rfl
@[simp] theorem setMem_log (c : Coll) (l : Loaded) : (c.setMem l).log = c.log := rfl

@[simp] theorem commit_mem (c : Coll) (l : Loaded) : (c.commit l).mem = c.mem := by simp [Coll.commit]
@[simp] theorem commit_cache (c : Coll) (l : Loaded) : (c.commit l).cache = c.cache := by simp [Coll.commit]
@[simp] theorem commit_pending (c : Coll) (l : Loaded) : (c.commit l).pending = c.pending := by simp [Coll.commit]
@[simp] theorem commit_files (c : Coll) (l : Loaded) : (c.commit l).disk.files = c.disk.files := by simp [Coll.commit]

/-! ### the view -/

theorem view_eq (c : Coll) (u : Nat) :
    c.view u = match c.pending.get? u with | some o => some o | none => c.disk.files.get? u := rfl

theorem view_congr {c c' : Coll} (hp : c'.pending = c.pending) (hf : c'.disk.files = c.disk.files) :
    c'.view = c.view := by
  funext u
  rw [view_eq, view_eq, hp, hf]

theorem view_nopend {c : Coll} (hp : c.pending = []) (u : Nat) : c.view u = c.disk.files.get? u := by
  rw [view_eq, hp]; rfl

/-- `Inv` only looks at the handle's schema, the files, the pending store and the cache -/
theorem Inv.congr {c c' : Coll} {l : Loaded} (h : Inv c l) (hm : c'.mem = c.mem) (hf : c'.disk.files = c.disk.files)
    (hp : c'.pending = c.pending) (hc : c'.cache = c.cache) : Inv c' l := by
  have hv : c'.view = c.view := view_congr hp hf
  refine ⟨by rw [hm]; exact h.mem, h.wf, by rw [hv]; exact h.refl, by rw [hv]; exact h.dom,
    by rw [hv]; exact h.typed, by rw [hv, hc]; exact h.cacheOk, by rw [hp, hc]; exact h.pendCached,
    by rw [hp]; exact h.syncNoPend, h.flusher, by rw [hf]; exact h.keyedF, by rw [hp]; exact h.keyedP,
    by rw [hc]; exact h.keyedC⟩

/-- the strengthened invariant: with caching off the cache is empty (the model never writes to it) -/
structure Inv' (c : Coll) (l : Loaded) : Prop extends Inv c l where
  cacheOff : l.settings.mustCache = false → c.cache = []

theorem Inv'.congr {c c' : Coll} {l : Loaded} (h : Inv' c l) (hm : c'.mem = c.mem) (hf : c'.disk.files = c.disk.files)
    (hp : c'.pending = c.pending) (hc : c'.cache = c.cache) : Inv' c' l :=
  ⟨h.toInv.congr hm hf hp hc, by rw [hc]; exact h.cacheOff⟩

theorem mustCache_false {s : Settings} (h : s.mustCache = false) : s.cache = false ∧ s.async = none := by
  unfold Settings.mustCache at h
  rw [Bool.or_eq_false_iff] at h
  refine ⟨h.1, ?_⟩
  cases ha : s.async with
  | none => rfl
  | some a => rw [ha] at h; simp at h

theorem mustCache_of_async {s : Settings} (h : s.async.isSome = true) : s.mustCache = true := by
  unfold Settings.mustCache; rw [h, Bool.or_true]

/-! ### 1. schema access -/

theorem startFlusher_of_inv {c : Coll} {l : Loaded} (h : Inv c l) : startFlusher l = l := by
  unfold startFlusher
  cases ha : l.settings.async.isSome with
  | false => simp
  | true => simp [h.flusher ha]

theorem schema_of_inv {c : Coll} {l : Loaded} (h : Inv c l) : c.schema = (c, .ok l) := by
  unfold Coll.schema
  rw [h.mem]
  simp only [startFlusher_of_inv h]
  rw [← h.mem]

/-! ### 2. get -/

theorem get_eq {c : Coll} {l : Loaded} (h : Inv c l) (u : Nat) :
    c.get u =
      match (if l.settings.mustCache then c.cache.get? u else none) with
      | some o => (c, .ok o)
      | none =>
        match c.disk.files.get? u with
        | some o => ((if l.settings.mustCache then { c with cache := c.cache.put o } else c), .ok o)
        | none => (c, .err .notFound) := by
  unfold Coll.get
  rw [schema_of_inv h]
  rfl

/-- filling the cache with the file content of an uncached object keeps the invariant -/
theorem inv_cache_fill {c : Coll} {l : Loaded} (h : Inv c l) {u : Nat} {o : Obj}
    (hc : c.cache.get? u = none) (hf : c.disk.files.get? u = some o) :
    Inv { c with cache := c.cache.put o } l := by
  have hou : o.uuid = u := h.keyedF.get? hf
  have hp : c.pending.get? u = none := by
    cases hp : c.pending.get? u with
    | none => rfl
    | some o' => rw [h.pendCached u o' hp] at hc; cases hc
  have hvu : c.view u = some o := by rw [view_eq, hp]; exact hf
  refine ⟨h.mem, h.wf, h.refl, h.dom, h.typed, ?_, ?_, h.syncNoPend, h.flusher, h.keyedF, h.keyedP, h.keyedC.put o⟩
  · intro w o' hw
    show c.view w = some o'
    change (c.cache.put o).get? w = some o' at hw
    rw [OMap.get?_put, hou] at hw
    by_cases hwu : w = u
    · rw [if_pos hwu] at hw
      rw [hwu, hvu]; exact hw
    · rw [if_neg hwu] at hw
      exact h.cacheOk w o' hw
  · intro w o' hw
    change c.pending.get? w = some o' at hw
    show (c.cache.put o).get? w = some o'
    rw [OMap.get?_put, hou]
    by_cases hwu : w = u
    · rw [hwu, hp] at hw; cases hw
    · rw [if_neg hwu]
      exact h.pendCached w o' hw

/-- the three ways a lookup can go -/
theorem get_cases {c : Coll} {l : Loaded} (h : Inv c l) (u : Nat) :
    (∃ o, c.get u = (c, .ok o) ∧ c.view u = some o) ∨
    (∃ o, c.get u = ({ c with cache := c.cache.put o }, .ok o) ∧ c.view u = some o ∧
          l.settings.mustCache = true ∧ c.cache.get? u = none ∧ c.disk.files.get? u = some o) ∨
    (c.get u = (c, .err .notFound) ∧ c.view u = none) := by
  rw [get_eq h]
  cases hmc : l.settings.mustCache with
  | true =>
    simp only [if_true]
    cases hcg : c.cache.get? u with
    | some o => exact Or.inl ⟨o, rfl, h.cacheOk u o hcg⟩
    | none =>
      have hp : c.pending.get? u = none := by
        cases hp : c.pending.get? u with
        | none => rfl
        | some o' => rw [h.pendCached u o' hp] at hcg; cases hcg
      have hv : c.view u = c.disk.files.get? u := by rw [view_eq, hp]
      cases hfg : c.disk.files.get? u with
      | some o =>
        refine Or.inr (Or.inl ⟨o, rfl, by rw [hv, hfg], ?_, ?_, ?_⟩) <;> first | rfl | trivial
      | none => exact Or.inr (Or.inr ⟨rfl, by rw [hv, hfg]⟩)
  | false =>
    simp only [Bool.false_eq_true, if_false]
    have hv : c.view u = c.disk.files.get? u := view_nopend (h.syncNoPend (mustCache_false hmc).2) u
    cases hfg : c.disk.files.get? u with
    | some o => exact Or.inl ⟨o, rfl, by rw [hv, hfg]⟩
    | none => exact Or.inr (Or.inr ⟨rfl, by rw [hv, hfg]⟩)

theorem get_spec {c : Coll} {l : Loaded} (h : Inv c l) (u : Nat) :
    (c.get u).2 = (match c.view u with | some o => Res.ok o | none => Res.err Err.notFound) ∧
    Inv (c.get u).1 l ∧ (c.get u).1.view = c.view ∧
    (c.get u).1.disk = c.disk ∧ (c.get u).1.log = c.log ∧ (c.get u).1.pending = c.pending := by
  rcases get_cases h u with ⟨o, hg, hv⟩ | ⟨o, hg, hv, _, hcg, hfg⟩ | ⟨hg, hv⟩
  · rw [hg, hv]; exact ⟨rfl, h, rfl, rfl, rfl, rfl⟩
  · rw [hg, hv]; exact ⟨rfl, inv_cache_fill h hcg hfg, rfl, rfl, rfl, rfl⟩
  · rw [hg, hv]; exact ⟨rfl, h, rfl, rfl, rfl, rfl⟩

/-- `get` also keeps the strengthened invariant -/
theorem get_spec' {c : Coll} {l : Loaded} (h : Inv' c l) (u : Nat) :
    (c.get u).2 = (match c.view u with | some o => Res.ok o | none => Res.err Err.notFound) ∧
    Inv' (c.get u).1 l ∧ (c.get u).1.view = c.view ∧
    (c.get u).1.disk = c.disk ∧ (c.get u).1.log = c.log ∧ (c.get u).1.pending = c.pending := by
  obtain ⟨h1, h2, h3, h4, h5, h6⟩ := get_spec h.toInv u
  refine ⟨h1, ⟨h2, ?_⟩, h3, h4, h5, h6⟩
  intro hmc
  rcases get_cases h.toInv u with ⟨o, hg, _⟩ | ⟨o, _, _, hmc', _⟩ | ⟨hg, _⟩
  · rw [hg]; exact h.cacheOff hmc
  · rw [hmc] at hmc'; cases hmc'
  · rw [hg]; exact h.cacheOff hmc

/-- iteration of a state transformer (`f^[n]`) -/
def iter {α : Type} : Nat → (α → α) → α → α
  | 0, _, a => a
  | n+1, f, a => iter n f (f a)

/-- a lookup of an absent identifier fails every time it is tried -/
theorem get_absent_always {c : Coll} {l : Loaded} (h : Inv c l) (u : Nat) (ha : c.view u = none) (n : Nat) :
    ((iter n (fun c => (c.get u).1) c).get u).2 = Res.err Err.notFound := by
  induction n generalizing c with
  | zero =>
    show (c.get u).2 = _
    rw [(get_spec h u).1, ha]
  | succ n ih =>
    show ((iter n (fun c => (c.get u).1) (c.get u).1).get u).2 = _
    obtain ⟨_, h2, h3, _⟩ := get_spec h u
    exact ih h2 (by rw [h3]; exact ha)

/-! ### 3. exist, count -/

theorem exist_spec {c : Coll} {l : Loaded} (h : Inv c l) (u : Nat) :
    c.exist u = (c, Res.ok (c.view u).isSome) := by
  unfold Coll.exist
  rw [schema_of_inv h]
  simp only
  congr 2
  rw [OMap.has_iff_get?_isSome, OMap.has_iff_get?_isSome, view_eq]
  cases ha : l.settings.async with
  | none =>
    rw [h.syncNoPend ha]
    simp [OMap.get?_nil]
  | some a =>
    cases hp : c.pending.get? u with
    | none => simp
    | some o => simp

theorem count_spec {c : Coll} {l : Loaded} (h : Inv c l) : c.count = (c, Res.ok l.index.uuids.length) := by
  unfold Coll.count
  rw [schema_of_inv h]
  simp [ObjIndex.len, ObjIndex.uuids]

/-! ### 4. getMany, all -/

theorem getMany_spec {c : Coll} {l : Loaded} (h : Inv c l) (us : List Nat) (hus : ∀ u ∈ us, (c.view u).isSome) :
    ∃ c', c.getMany us = (c', us.filterMap c.view, none) ∧ Inv c' l ∧ c'.view = c.view ∧ c'.disk = c.disk ∧
      c'.log = c.log := by
  induction us generalizing c with
  | nil => exact ⟨c, rfl, h, rfl, rfl, rfl⟩
  | cons u us ih =>
    obtain ⟨h1, h2, h3, h4, h5, _⟩ := get_spec h u
    have hu := hus u List.mem_cons_self
    cases hv : c.view u with
    | none => rw [hv] at hu; cases hu
    | some o =>
      rw [hv] at h1
      have hg : c.get u = ((c.get u).1, Res.ok o) := Prod.ext rfl h1
      obtain ⟨c', i1, i2, i3, i4, i5⟩ := ih h2 (fun w hw => by rw [h3]; exact hus w (List.mem_cons_of_mem _ hw))
      refine ⟨c', ?_, i2, i3.trans h3, i4.trans h4, i5.trans h5⟩
      rw [Coll.getMany, hg]
      simp only [i1, h3, List.filterMap_cons, hv]

theorem all_spec {c : Coll} {l : Loaded} (h : Inv c l) :
    ∃ c' os, c.all = (c', Res.ok os, os) ∧ os = l.index.uuids.filterMap c.view ∧ Inv c' l ∧ c'.view = c.view := by
  obtain ⟨c', h1, h2, h3, _⟩ := getMany_spec h l.index.uuids (fun u hu => (h.dom u).mp hu)
  refine ⟨c', _, ?_, rfl, h2, h3⟩
  unfold Coll.all
  rw [schema_of_inv h]
  simp only [h1]

/-- every stored object appears in `All`, under its own identifier -/
theorem all_complete {c : Coll} {l : Loaded} (h : Inv c l) (u : Nat) (o : Obj) :
    c.view u = some o ↔ o ∈ l.index.uuids.filterMap c.view ∧ o.uuid = u := by
  rw [List.mem_filterMap]
  constructor
  · intro hv
    exact ⟨⟨u, (h.dom u).mpr (by rw [hv]; rfl), hv⟩, (h.typed u o hv).2⟩
  · rintro ⟨⟨w, _, hw⟩, hou⟩
    have := (h.typed w o hw).2
    rw [← hou, this]; exact hw

theorem nodup_filterMap_of_inj {α β : Type} (f : α → Option β)
    (hinj : ∀ a b o, f a = some o → f b = some o → a = b) :
    ∀ (l : List α), l.Nodup → (l.filterMap f).Nodup := by
  intro l
  induction l with
  | nil => intro _; exact List.nodup_nil
  | cons a t ih =>
    intro hn
    rw [List.nodup_cons] at hn
    rw [List.filterMap_cons]
    cases hfa : f a with
    | none => exact ih hn.2
    | some o =>
      simp only
      rw [List.nodup_cons]
      refine ⟨?_, ih hn.2⟩
      intro hm
      obtain ⟨b, hb, hfb⟩ := List.mem_filterMap.mp hm
      exact hn.1 (hinj a b o hfa hfb ▸ hb)

/-- … and exactly once: the result of `All` has no duplicates -/
theorem all_nodup {c : Coll} {l : Loaded} (h : Inv c l) : (l.index.uuids.filterMap c.view).Nodup := by
  apply nodup_filterMap_of_inj _ _ _ h.wf.uuidNodup
  intro a b o ha hb
  rw [← (h.typed a o ha).2, ← (h.typed b o hb).2]

/-! ### 5. the write path -/

theorem insertCore_reject_serial {E : Env} {c : Coll} {l : Loaded} {o : Obj} (commit : Bool)
    (hs : E.serialisable o = false) : Coll.insertCore E c l o commit = (c, Res.err Err.other) := by
  unfold Coll.insertCore
  simp [hs]

theorem insertCore_reject_unique {E : Env} {c : Coll} {l : Loaded} {o : Obj} (commit : Bool)
    (hs : E.serialisable o = true) (hu : l.index.satisfyAll o = Res.err Err.unique) :
    Coll.insertCore E c l o commit = (c, Res.err Err.unique) := by
  unfold Coll.insertCore
  simp [hs, hu]

set_option linter.unusedVariables false in
theorem satisfyAll_cases {ix : ObjIndex} {o : Obj} (h : ix.WF) (ht : o.Typed ix) :
    ix.satisfyAll o = Res.ok () ∨ ix.satisfyAll o = Res.err Err.unique := by
  rcases satisfyAll_spec ht.hasVal with ⟨h1, _⟩ | ⟨h1, _⟩
  · exact Or.inl h1
  · exact Or.inr h1

/-- `Typed` only looks at the position and cast of the field indexes -/
theorem typed_of_fields {ix ix' : ObjIndex}
    (hf : ∀ fi' ∈ ix'.fields, ∃ fi ∈ ix.fields, fi'.pos = fi.pos ∧ fi'.cast = fi.cast)
    {o : Obj} (ht : o.Typed ix) : o.Typed ix' := by
  intro fi' hfi'
  obtain ⟨fi, hfi, hp, hc⟩ := hf fi' hfi'
  rw [hp, hc]
  exact ht fi hfi

theorem insertOrUpdate_fields {ix ix' : ObjIndex} {o : Obj} (hr : ix.insertOrUpdate o = .ok ix') :
    ∀ fi' ∈ ix'.fields, ∃ fi ∈ ix.fields, fi'.pos = fi.pos ∧ fi'.cast = fi.cast := by
  obtain ⟨_, _, hc⟩ := insertOrUpdate_inv hr
  intro fi' hfi'
  rcases hc with ⟨oid, _, rfl⟩ | ⟨_, rfl⟩
  · obtain ⟨fi, hfi, rfl⟩ := List.mem_map.mp hfi'
    exact ⟨fi, hfi, rfl, rfl⟩
  · obtain ⟨fi, hfi, rfl⟩ := List.mem_map.mp hfi'
    exact ⟨fi, hfi, rfl, rfl⟩

theorem deleteByUUID_fields (ix : ObjIndex) (u : Nat) :
    ∀ fi' ∈ (ix.deleteByUUID u).fields, ∃ fi ∈ ix.fields, fi'.pos = fi.pos ∧ fi'.cast = fi.cast := by
  intro fi' hfi'
  cases ho : ix.oidOf u with
  | none =>
    rw [deleteByUUID_eq_none ho] at hfi'
    exact ⟨fi', hfi', rfl, rfl⟩
  | some oid =>
    rw [deleteByUUID_eq_some ho] at hfi'
    obtain ⟨fi, hfi, rfl⟩ := List.mem_map.mp hfi'
    exact ⟨fi, hfi, rfl, rfl⟩

theorem insertOrUpdate_typed {ix ix' : ObjIndex} {o : Obj} (hr : ix.insertOrUpdate o = .ok ix')
    {o' : Obj} (ht : o'.Typed ix) : o'.Typed ix' :=
  typed_of_fields (insertOrUpdate_fields hr) ht

theorem deleteByUUID_typed (ix : ObjIndex) (u : Nat) {o' : Obj} (ht : o'.Typed ix) : o'.Typed (ix.deleteByUUID u) :=
  typed_of_fields (deleteByUUID_fields ix u) ht

theorem updView_apply (v : Nat → Option Obj) (u : Nat) (x : Option Obj) (w : Nat) :
    updView v u x w = if w = u then x else v w := rfl

/-- the index half of the invariant after an accepted insert -/
theorem inv_index_insert {c : Coll} {l : Loaded} {o : Obj} {ix' : ObjIndex} (h : Inv c l)
    (ht : o.Typed l.index) (hr : l.index.insertOrUpdate o = .ok ix') :
    ix'.WF ∧ Reflects ix' (updView c.view o.uuid (some o)) ∧
    (∀ u, u ∈ ix'.uuids ↔ (updView c.view o.uuid (some o) u).isSome) ∧
    (∀ u o', updView c.view o.uuid (some o) u = some o' → o'.Typed ix' ∧ o'.uuid = u) := by
  refine ⟨insertOrUpdate_wf h.wf ht hr, insertOrUpdate_reflects h.wf ht h.refl hr, ?_, ?_⟩
  · intro u
    rw [insertOrUpdate_uuids hr, updView_apply]
    by_cases hu : u = o.uuid
    · rw [if_pos hu]
      simp only [Option.isSome_some, iff_true]
      split
      · rw [hu]; assumption
      · rw [hu]; simp
    · rw [if_neg hu, ← h.dom u]
      split
      · exact Iff.rfl
      · simp [hu]
  · intro u o' hv
    rw [updView_apply] at hv
    by_cases hu : u = o.uuid
    · rw [if_pos hu] at hv
      injection hv with hv
      subst hv
      exact ⟨insertOrUpdate_typed hr ht, hu.symm⟩
    · rw [if_neg hu] at hv
      obtain ⟨h1, h2⟩ := h.typed u o' hv
      exact ⟨insertOrUpdate_typed hr h1, h2⟩

/-- the index half of the invariant after a delete -/
theorem inv_index_delete {c : Coll} {l : Loaded} (h : Inv c l) (u : Nat) :
    (l.index.deleteByUUID u).WF ∧ Reflects (l.index.deleteByUUID u) (updView c.view u none) ∧
    (∀ w, w ∈ (l.index.deleteByUUID u).uuids ↔ (updView c.view u none w).isSome) ∧
    (∀ w o', updView c.view u none w = some o' → o'.Typed (l.index.deleteByUUID u) ∧ o'.uuid = w) := by
  refine ⟨deleteByUUID_wf h.wf u, deleteByUUID_reflects h.wf h.refl u, ?_, ?_⟩
  · intro w
    rw [deleteByUUID_uuids h.wf, updView_apply, List.mem_filter]
    by_cases hw : w = u
    · simp [hw]
    · rw [if_neg hw, ← h.dom w]
      simp [hw]
  · intro w o' hv
    rw [updView_apply] at hv
    by_cases hw : w = u
    · rw [if_pos hw] at hv; cases hv
    · rw [if_neg hw] at hv
      obtain ⟨h1, h2⟩ := h.typed w o' hv
      exact ⟨deleteByUUID_typed _ u h1, h2⟩

/-- the cache half of the invariant when `o` is put both in the store (view) and in the cache -/
theorem cache_put_ok {cache : OMap} {v : Nat → Option Obj} {o : Obj}
    (h : ∀ u o', cache.get? u = some o' → v u = some o') :
    ∀ u o', (cache.put o).get? u = some o' → updView v o.uuid (some o) u = some o' := by
  intro u o' hg
  rw [OMap.get?_put] at hg
  rw [updView_apply]
  by_cases hu : u = o.uuid
  · rw [if_pos hu] at hg ⊢; exact hg
  · rw [if_neg hu] at hg ⊢; exact h u o' hg

/-- state after an accepted insert, asynchronous mode: `o` goes to the pending store and to the cache -/
theorem inv_insert_async {c c' : Coll} {l : Loaded} {o : Obj} {ix' : ObjIndex} (h : Inv c l)
    (ht : o.Typed l.index) (hr : l.index.insertOrUpdate o = .ok ix') (ha : l.settings.async.isSome = true)
    (hm : c'.mem = some { l with index := ix' }) (hp : c'.pending = c.pending.put o)
    (hf : c'.disk.files = c.disk.files) (hc : c'.cache = c.cache.put o) :
    Inv' c' { l with index := ix' } ∧ c'.view = updView c.view o.uuid (some o) := by
  have hv : c'.view = updView c.view o.uuid (some o) := by
    funext w
    rw [view_eq, hp, hf, OMap.get?_put, updView_apply, view_eq]
    by_cases hw : w = o.uuid
    · simp only [if_pos hw]
    · simp only [if_neg hw]
  obtain ⟨i1, i2, i3, i4⟩ := inv_index_insert h ht hr
  refine ⟨⟨⟨hm, i1, by rw [hv]; exact i2, by rw [hv]; exact i3, by rw [hv]; exact i4, ?_, ?_, ?_, h.flusher,
    by rw [hf]; exact h.keyedF, by rw [hp]; exact h.keyedP.put o, by rw [hc]; exact h.keyedC.put o⟩, ?_⟩, hv⟩
  · rw [hv, hc]; exact cache_put_ok h.cacheOk
  · intro u o' hg
    rw [hp, OMap.get?_put] at hg
    rw [hc, OMap.get?_put]
    by_cases hu : u = o.uuid
    · rw [if_pos hu] at hg ⊢; exact hg
    · rw [if_neg hu] at hg ⊢; exact h.pendCached u o' hg
  · intro hn
    change l.settings.async = none at hn
    rw [hn] at ha; cases ha
  · intro hmc
    change l.settings.mustCache = false at hmc
    rw [mustCache_of_async ha] at hmc; cases hmc

/-- state after an accepted insert, synchronous mode: `o` goes to its file, and to the cache if caching is on -/
theorem inv_insert_sync {c c' : Coll} {l : Loaded} {o : Obj} {ix' : ObjIndex} (h : Inv' c l)
    (ht : o.Typed l.index) (hr : l.index.insertOrUpdate o = .ok ix') (ha : l.settings.async = none)
    (hm : c'.mem = some { l with index := ix' }) (hp : c'.pending = c.pending)
    (hf : c'.disk.files = c.disk.files.put o)
    (hc : c'.cache = if l.settings.mustCache then c.cache.put o else c.cache) :
    Inv' c' { l with index := ix' } ∧ c'.view = updView c.view o.uuid (some o) := by
  have hp0 : c.pending = [] := h.syncNoPend ha
  have hv : c'.view = updView c.view o.uuid (some o) := by
    funext w
    rw [view_nopend (hp.trans hp0), hf, OMap.get?_put, updView_apply, view_nopend hp0]
  obtain ⟨i1, i2, i3, i4⟩ := inv_index_insert h.toInv ht hr
  refine ⟨⟨⟨hm, i1, by rw [hv]; exact i2, by rw [hv]; exact i3, by rw [hv]; exact i4, ?_, ?_, ?_, h.flusher,
    by rw [hf]; exact h.keyedF.put o, by rw [hp]; exact h.keyedP, ?_⟩, ?_⟩, hv⟩
  · rw [hv, hc]
    cases hmc : l.settings.mustCache with
    | true => simp only [if_true]; exact cache_put_ok h.cacheOk
    | false =>
      simp only [Bool.false_eq_true, if_false]
      rw [h.cacheOff hmc]
      intro u o' hg; cases hg
  · intro u o' hg
    rw [hp, hp0] at hg; cases hg
  · intro _; rw [hp]; exact hp0
  · rw [hc]
    split
    · exact h.keyedC.put o
    · exact h.keyedC
  · intro hmc
    change l.settings.mustCache = false at hmc
    rw [hc, hmc]
    simp only [Bool.false_eq_true, if_false]
    exact h.cacheOff hmc

/-- the state `insertCore` builds once the object is accepted -/
def insState (c : Coll) (l : Loaded) (o : Obj) (ix' : ObjIndex) (commit : Bool) : Coll :=
  let c1 := if l.settings.async.isSome then { c with pending := c.pending.put o } else (c.fs .mkdir).fs (.writeObj o)
  let l' : Loaded := { l with index := ix' }
  let c2 := c1.setMem l'
  let c3 := if l'.settings.mustCache then { c2 with cache := c2.cache.put o } else c2
  if !l'.settings.async.isSome && commit then c3.commit l' else c3

theorem insertCore_eq {E : Env} {c : Coll} {l : Loaded} {o : Obj} {ix' : ObjIndex} (commit : Bool)
    (hs : E.serialisable o = true) (hu : l.index.satisfyAll o = Res.ok ())
    (hr : l.index.insertOrUpdate o = .ok ix') :
    Coll.insertCore E c l o commit = (insState c l o ix' commit, Res.ok { l with index := ix' }) := by
  unfold Coll.insertCore insState
  simp only [hs, hu, hr]
  rfl

theorem insertCore_accept' {E : Env} {c : Coll} {l : Loaded} {o : Obj} (commit : Bool) (h : Inv' c l)
    (ht : o.Typed l.index) (hs : E.serialisable o = true) (hu : l.index.satisfyAll o = Res.ok ()) :
    ∃ c' l', Coll.insertCore E c l o commit = (c', Res.ok l') ∧ Inv' c' l' ∧
      c'.view = updView c.view o.uuid (some o) ∧ l'.settings = l.settings ∧ l'.descs = l.descs := by
  obtain ⟨ix', hr⟩ : ∃ ix', l.index.insertOrUpdate o = .ok ix' := ⟨_, insertOrUpdate_of_ok ht.hasVal hu⟩
  refine ⟨_, _, insertCore_eq commit hs hu hr, ?_, ?_, rfl, rfl⟩
  all_goals
    cases ha : l.settings.async.isSome with
    | true =>
      have hmc := mustCache_of_async ha
      have := @inv_insert_async c (insState c l o ix' commit) l o ix' h.toInv ht hr ha
        (by simp [insState, ha, hmc]) (by simp [insState, ha, hmc]) (by simp [insState, ha, hmc])
        (by simp [insState, ha, hmc])
      first | exact this.1 | exact this.2
    | false =>
      have ha' : l.settings.async = none := by
        cases hh : l.settings.async with
        | none => rfl
        | some a => rw [hh] at ha; cases ha
      have := @inv_insert_sync c (insState c l o ix' commit) l o ix' h ht hr ha'
        (by cases commit <;> cases hmc : l.settings.mustCache <;> simp [insState, ha, hmc])
        (by cases commit <;> cases hmc : l.settings.mustCache <;> simp [insState, ha, hmc])
        (by cases commit <;> cases hmc : l.settings.mustCache <;> simp [insState, ha, hmc])
        (by cases commit <;> cases hmc : l.settings.mustCache <;> simp [insState, ha, hmc])
      first | exact this.1 | exact this.2

/-- closest true statement over `Inv`: the extra hypothesis `hoff` is exactly `Inv'.cacheOff` -/
theorem insertCore_accept_partial {E : Env} {c : Coll} {l : Loaded} {o : Obj} (commit : Bool) (h : Inv c l)
    (hoff : l.settings.mustCache = false → c.cache = [])
    (ht : o.Typed l.index) (hs : E.serialisable o = true) (hu : l.index.satisfyAll o = Res.ok ()) :
    ∃ c' l', Coll.insertCore E c l o commit = (c', Res.ok l') ∧ Inv c' l' ∧
      c'.view = updView c.view o.uuid (some o) ∧ l'.settings = l.settings ∧ l'.descs = l.descs := by
  obtain ⟨c', l', h1, h2, h3⟩ := insertCore_accept' commit ⟨h, hoff⟩ ht hs hu
  exact ⟨c', l', h1, h2.toInv, h3⟩

/-! ### 6. the public insert -/

theorem insert_invalid {E : Env} {c : Coll} {l : Loaded} (h : Inv c l) (o : Obj) (fresh : Nat)
    (hv : E.validate (E.canon l.descs (E.transform o)) = false) : c.insert E o fresh = (c, Res.err Err.invalid) := by
  unfold Coll.insert
  rw [schema_of_inv h]
  simp [hv]

theorem insert_valid_eq {E : Env} {c : Coll} {l : Loaded} (h : Inv c l) (o : Obj) (fresh : Nat)
    (hv : E.validate (E.canon l.descs (E.transform o)) = true) :
    c.insert E o fresh =
      match Coll.insertCore E c l (assignNew (E.canon l.descs (E.transform o)) fresh) true with
      | (c, .ok _) => (c, .ok ())
      | (c, .err e) => (c, .err e)
      | (c, .panic) => (c, .panic) := by
  unfold Coll.insert
  rw [schema_of_inv h]
  simp only [hv, Bool.not_true, Bool.false_eq_true, if_false]
  rfl

/-- the four ways `InsertOrUpdate` can go on a loaded, consistent handle -/
theorem insert_cases {E : Env} {c : Coll} {l : Loaded} (h : Inv c l) (o : Obj) (fresh : Nat)
    (ht : (assignNew (E.canon l.descs (E.transform o)) fresh).Typed l.index) :
    (E.validate (E.canon l.descs (E.transform o)) = false ∧ c.insert E o fresh = (c, Res.err Err.invalid)) ∨
    (E.validate (E.canon l.descs (E.transform o)) = true ∧
      E.serialisable (assignNew (E.canon l.descs (E.transform o)) fresh) = false ∧
      c.insert E o fresh = (c, Res.err Err.other)) ∨
    (E.validate (E.canon l.descs (E.transform o)) = true ∧
      E.serialisable (assignNew (E.canon l.descs (E.transform o)) fresh) = true ∧
      l.index.satisfyAll (assignNew (E.canon l.descs (E.transform o)) fresh) = Res.err Err.unique ∧
      c.insert E o fresh = (c, Res.err Err.unique)) ∨
    (E.validate (E.canon l.descs (E.transform o)) = true ∧
      E.serialisable (assignNew (E.canon l.descs (E.transform o)) fresh) = true ∧
      l.index.satisfyAll (assignNew (E.canon l.descs (E.transform o)) fresh) = Res.ok () ∧
      c.insert E o fresh =
        ((Coll.insertCore E c l (assignNew (E.canon l.descs (E.transform o)) fresh) true).1, Res.ok ())) := by
  cases hv : E.validate (E.canon l.descs (E.transform o)) with
  | false => exact Or.inl ⟨rfl, insert_invalid h o fresh hv⟩
  | true =>
    have hi := insert_valid_eq h o fresh hv
    cases hs : E.serialisable (assignNew (E.canon l.descs (E.transform o)) fresh) with
    | false =>
      refine Or.inr (Or.inl ⟨rfl, rfl, ?_⟩)
      rw [hi, insertCore_reject_serial true hs]
    | true =>
      rcases satisfyAll_cases h.wf ht with hu | hu
      · refine Or.inr (Or.inr (Or.inr ⟨rfl, rfl, hu, ?_⟩))
        rw [hi, insertCore_eq true hs hu (insertOrUpdate_of_ok ht.hasVal hu)]
      · refine Or.inr (Or.inr (Or.inl ⟨rfl, rfl, hu, ?_⟩))
        rw [hi, insertCore_reject_unique true hs hu]

/-- a rejected insert returns the state unchanged (cache, pending, index, directory, log) -/
theorem insert_rejected_frame {E : Env} {c : Coll} {l : Loaded} (h : Inv c l) (o : Obj) (fresh : Nat)
    (ht : (assignNew (E.canon l.descs (E.transform o)) fresh).Typed l.index) (e : Err)
    (hr : (c.insert E o fresh).2 = Res.err e) : (c.insert E o fresh).1 = c := by
  rcases insert_cases h o fresh ht with ⟨_, hi⟩ | ⟨_, _, hi⟩ | ⟨_, _, _, hi⟩ | ⟨_, _, _, hi⟩
  · rw [hi]
  · rw [hi]
  · rw [hi]
  · rw [hi] at hr; cases hr

theorem insert_accepted' {E : Env} {c : Coll} {l : Loaded} (h : Inv' c l) (o : Obj) (fresh : Nat)
    (ht : (assignNew (E.canon l.descs (E.transform o)) fresh).Typed l.index)
    (hr : (c.insert E o fresh).2 = Res.ok ()) :
    ∃ l', Inv' (c.insert E o fresh).1 l' ∧
      (c.insert E o fresh).1.view = updView c.view (assignNew (E.canon l.descs (E.transform o)) fresh).uuid
                                       (some (assignNew (E.canon l.descs (E.transform o)) fresh)) ∧
      E.validate (E.canon l.descs (E.transform o)) = true := by
  rcases insert_cases h.toInv o fresh ht with ⟨_, hi⟩ | ⟨_, _, hi⟩ | ⟨_, _, _, hi⟩ | ⟨hv, hs, hu, hi⟩
  · rw [hi] at hr; cases hr
  · rw [hi] at hr; cases hr
  · rw [hi] at hr; cases hr
  · obtain ⟨c', l', h1, h2, h3, _⟩ := insertCore_accept' (E := E) true h ht hs hu
    rw [hi, h1]
    exact ⟨l', h2, h3, hv⟩

theorem insert_accepted_partial {E : Env} {c : Coll} {l : Loaded} (h : Inv c l)
    (hoff : l.settings.mustCache = false → c.cache = []) (o : Obj) (fresh : Nat)
    (ht : (assignNew (E.canon l.descs (E.transform o)) fresh).Typed l.index)
    (hr : (c.insert E o fresh).2 = Res.ok ()) :
    ∃ l', Inv (c.insert E o fresh).1 l' ∧
      (c.insert E o fresh).1.view = updView c.view (assignNew (E.canon l.descs (E.transform o)) fresh).uuid
                                       (some (assignNew (E.canon l.descs (E.transform o)) fresh)) ∧
      E.validate (E.canon l.descs (E.transform o)) = true := by
  obtain ⟨l', h1, h2⟩ := insert_accepted' ⟨h, hoff⟩ o fresh ht hr
  exact ⟨l', h1.toInv, h2⟩

/-! ### 7. delete -/

theorem OMap.erase_of_not_has {m : OMap} {u : Nat} (h : m.has u = false) : m.erase u = m := by
  unfold OMap.erase
  rw [List.filter_eq_self]
  intro p hp
  unfold OMap.has at h
  rw [List.any_eq_false] at h
  simpa using h p hp

/-- the state `Delete` builds -/
def delState (c : Coll) (l : Loaded) (u : Nat) : Coll :=
  let c1 := if l.settings.mustCache then { c with cache := c.cache.erase u, pending := c.pending.erase u } else c
  let l' : Loaded := { l with index := l.index.deleteByUUID u }
  let c2 := c1.setMem l'
  let c3 := if c2.disk.files.has u then c2.fs (.rmObj u) else c2
  c3.commit l'

theorem delete_eq {c : Coll} {l : Loaded} (h : Inv c l) (u : Nat) :
    c.delete u = (delState c l u, Res.ok ()) := by
  unfold Coll.delete
  rw [schema_of_inv h]
  rfl

theorem delState_mem (c : Coll) (l : Loaded) (u : Nat) :
    (delState c l u).mem = some { l with index := l.index.deleteByUUID u } := by
  unfold delState
  simp only [commit_mem]
  split <;> split <;> simp

theorem delState_cache (c : Coll) (l : Loaded) (u : Nat) :
    (delState c l u).cache = if l.settings.mustCache then c.cache.erase u else c.cache := by
  unfold delState
  simp only [commit_cache]
  split <;> split <;> simp [*]

theorem delState_pending (c : Coll) (l : Loaded) (u : Nat) :
    (delState c l u).pending = if l.settings.mustCache then c.pending.erase u else c.pending := by
  unfold delState
  simp only [commit_pending]
  split <;> split <;> simp [*]

theorem delState_files (c : Coll) (l : Loaded) (u : Nat) :
    (delState c l u).disk.files = c.disk.files.erase u := by
  unfold delState
  simp only [commit_files]
  cases hmc : l.settings.mustCache <;> cases hh : c.disk.files.has u <;>
    simp [hh, OMap.erase_of_not_has]

/-- state after a delete: `u` is erased from the files, the pending store and the cache -/
theorem inv_delete {c c' : Coll} {l : Loaded} (h : Inv c l) (u : Nat)
    (hm : c'.mem = some { l with index := l.index.deleteByUUID u }) (hp : c'.pending = c.pending.erase u)
    (hf : c'.disk.files = c.disk.files.erase u) (hc : c'.cache = c.cache.erase u) :
    Inv c' { l with index := l.index.deleteByUUID u } ∧ c'.view = updView c.view u none := by
  have hv : c'.view = updView c.view u none := by
    funext w
    rw [view_eq, hp, hf, OMap.get?_erase, OMap.get?_erase, updView_apply, view_eq]
    by_cases hw : w = u
    · simp only [if_pos hw]
    · simp only [if_neg hw]
  obtain ⟨i1, i2, i3, i4⟩ := inv_index_delete h u
  refine ⟨⟨hm, i1, by rw [hv]; exact i2, by rw [hv]; exact i3, by rw [hv]; exact i4, ?_, ?_, ?_, h.flusher,
    by rw [hf]; exact h.keyedF.erase u, by rw [hp]; exact h.keyedP.erase u, by rw [hc]; exact h.keyedC.erase u⟩, hv⟩
  · intro w o' hg
    rw [hc, OMap.get?_erase] at hg
    rw [hv, updView_apply]
    by_cases hw : w = u
    · rw [if_pos hw] at hg; cases hg
    · rw [if_neg hw] at hg ⊢; exact h.cacheOk w o' hg
  · intro w o' hg
    rw [hp, OMap.get?_erase] at hg
    rw [hc, OMap.get?_erase]
    by_cases hw : w = u
    · rw [if_pos hw] at hg; cases hg
    · rw [if_neg hw] at hg ⊢; exact h.pendCached w o' hg
  · intro hn
    rw [hp, h.syncNoPend hn]; rfl

theorem delete_spec' {c : Coll} {l : Loaded} (h : Inv' c l) (u : Nat) :
    ∃ l', (c.delete u).2 = Res.ok () ∧ Inv' (c.delete u).1 l' ∧ (c.delete u).1.view = updView c.view u none := by
  rw [delete_eq h.toInv u]
  have hp : (delState c l u).pending = c.pending.erase u := by
    rw [delState_pending]
    cases hmc : l.settings.mustCache with
    | true => rfl
    | false => rw [h.syncNoPend (mustCache_false hmc).2]; rfl
  have hc : (delState c l u).cache = c.cache.erase u := by
    rw [delState_cache]
    cases hmc : l.settings.mustCache with
    | true => rfl
    | false => rw [h.cacheOff hmc]; rfl
  obtain ⟨h1, h2⟩ := inv_delete h.toInv u (delState_mem c l u) hp (delState_files c l u) hc
  refine ⟨_, rfl, ⟨h1, ?_⟩, h2⟩
  intro hmc
  change l.settings.mustCache = false at hmc
  rw [hc, h.cacheOff hmc]; rfl

theorem delete_spec_partial {c : Coll} {l : Loaded} (h : Inv c l)
    (hoff : l.settings.mustCache = false → c.cache = []) (u : Nat) :
    ∃ l', (c.delete u).2 = Res.ok () ∧ Inv (c.delete u).1 l' ∧ (c.delete u).1.view = updView c.view u none := by
  obtain ⟨l', h1, h2, h3⟩ := delete_spec' ⟨h, hoff⟩ u
  exact ⟨l', h1, h2.toInv, h3⟩

/-! ### why `Inv` alone is not enough for the write path

  Synchronous, uncached collection (`mustCache = false`) holding object 5 in its file, with a stale
  copy of it in the (never read) cache.  `Inv` holds.  Deleting 5, or overwriting 5 with another
  value, leaves the cache entry behind, so `Inv.cacheOk` fails afterwards. -/

namespace Counter

def o5 : Obj := { uuid := 5, shape := "", vals := [] }
def o5' : Obj := { uuid := 5, shape := "x", vals := [] }
def l0 : Loaded := { descs := [], settings := {}, index := { next := 1, ids := [(0, 5)], fields := [] } }
def c0 : Coll := { live := [], disk := { dir := true, files := [(5, o5)] }, mem := some l0, cache := [(5, o5)] }
def E0 : Env := { up := id, lo := id, transform := id, validate := fun _ => true, compile := fun _ => none,
                  serialisable := fun _ => true }

theorem view0 (u : Nat) : c0.view u = if 5 = u then some o5 else none := by
  rw [view_eq]
  show (match OMap.get? [] u with | some o => some o | none => OMap.get? [(5, o5)] u) = _
  rw [OMap.get?_nil, OMap.get?_cons, OMap.get?_nil]

theorem inv0 : Inv c0 l0 := by
  refine ⟨rfl, ⟨by decide, by decide, by decide, (fun fi hfi => by cases hfi)⟩, ⟨?_, (fun fi hfi => by cases hfi)⟩,
    ?_, ?_, ?_, (fun u o hp => by cases hp), fun _ => rfl, (fun hs => by cases hs), ?_, OMap.Keyed.nil, ?_⟩
  · intro p hp
    have : p = (0, 5) := by simpa [l0] using hp
    subst this
    exact ⟨o5, rfl, rfl⟩
  · intro u
    rw [view0]
    show u ∈ [5] ↔ _
    by_cases hu : 5 = u
    · simp [hu.symm]
    · have : u ≠ 5 := fun e => hu e.symm
      simp [hu, this]
  · intro u o hv
    rw [view0] at hv
    by_cases hu : 5 = u
    · rw [if_pos hu] at hv
      injection hv with hv
      subst hv
      exact ⟨(fun fi hfi => by cases hfi), hu⟩
    · rw [if_neg hu] at hv; cases hv
  · intro u o hg
    rw [view0]
    change OMap.get? [(5, o5)] u = some o at hg
    rw [OMap.get?_cons, OMap.get?_nil] at hg
    exact hg
  · intro p hp
    have : p = (5, o5) := by simpa [c0] using hp
    subst this; rfl
  · intro p hp
    have : p = (5, o5) := by simpa [c0] using hp
    subst this; rfl

end Counter

open Counter in
/-- `delete_spec` as stated over `Inv` is false -/
theorem delete_spec_counterexample :
    ∃ (c : Coll) (l : Loaded) (u : Nat), Inv c l ∧
      ¬ ∃ l', (c.delete u).2 = Res.ok () ∧ Inv (c.delete u).1 l' ∧ (c.delete u).1.view = updView c.view u none := by
  refine ⟨c0, l0, 5, inv0, ?_⟩
  rintro ⟨l', _, hi, _⟩
  have h1 : (c0.delete 5).1.view 5 = some o5 := hi.cacheOk 5 o5 rfl
  have h2 : (c0.delete 5).1.view 5 = none := rfl
  rw [h2] at h1
  cases h1

open Counter in
/-- `insertCore_accept` as stated over `Inv` is false (and so is `insert_accepted`, which goes through it) -/
theorem insertCore_accept_counterexample :
    ∃ (E : Env) (c : Coll) (l : Loaded) (o : Obj) (commit : Bool), Inv c l ∧ o.Typed l.index ∧
      E.serialisable o = true ∧ l.index.satisfyAll o = Res.ok () ∧
      ¬ ∃ c' l', Coll.insertCore E c l o commit = (c', Res.ok l') ∧ Inv c' l' ∧
          c'.view = updView c.view o.uuid (some o) ∧ l'.settings = l.settings ∧ l'.descs = l.descs := by
  refine ⟨E0, c0, l0, o5', true, inv0, (fun fi hfi => by cases hfi), rfl, rfl, ?_⟩
  rintro ⟨c', l', he, hi, _⟩
  have hc : c' = (Coll.insertCore E0 c0 l0 o5' true).1 := by rw [he]
  subst hc
  have h1 : (Coll.insertCore E0 c0 l0 o5' true).1.view 5 = some o5 := hi.cacheOk 5 o5 rfl
  have h2 : (Coll.insertCore E0 c0 l0 o5' true).1.view 5 = some o5' := rfl
  rw [h2] at h1
  exact absurd h1 (by decide)

open Counter in
theorem insert_accepted_counterexample :
    ∃ (E : Env) (c : Coll) (l : Loaded) (o : Obj) (fresh : Nat), Inv c l ∧
      (assignNew (E.canon l.descs (E.transform o)) fresh).Typed l.index ∧ (c.insert E o fresh).2 = Res.ok () ∧
      ¬ ∃ l', Inv (c.insert E o fresh).1 l' ∧
          (c.insert E o fresh).1.view = updView c.view (assignNew (E.canon l.descs (E.transform o)) fresh).uuid
                                           (some (assignNew (E.canon l.descs (E.transform o)) fresh)) ∧
          E.validate (E.canon l.descs (E.transform o)) = true := by
  refine ⟨E0, c0, l0, o5', 7, inv0, (fun fi hfi => by cases hfi), rfl, ?_⟩
  rintro ⟨l', hi, _⟩
  have h1 : (c0.insert E0 o5' 7).1.view 5 = some o5 := hi.cacheOk 5 o5 rfl
  have h2 : (c0.insert E0 o5' 7).1.view 5 = some o5' := rfl
  rw [h2] at h1
  exact absurd h1 (by decide)

end Sod
