import SodModel.Codec
import Std.Data.String.ToInt
/-!
  Facts about the decimal-literal reader of the schema codec (`Sod.Codec.decIsKey`), the part of the
  correspondence oracle that decides whether the number text in schema.json denotes the double whose
  order key the model holds (C04: index values survive reopen exactly).
-/
namespace Sod.Codec

theorem cmpScaled_gt_mono {A A' : Nat} (a : Int) (m : Nat) (x : Int) (h : A ≤ A')
    (hg : cmpScaled A a m x = .gt) : cmpScaled A' a m x = .gt := by
  unfold cmpScaled at *
  simp only [Nat.compare_eq_gt] at *
  have : A * 2 ^ a.toNat * 10 ^ (-x).toNat ≤ A' * 2 ^ a.toNat * 10 ^ (-x).toNat :=
    Nat.mul_le_mul_right _ (Nat.mul_le_mul_right _ h)
  omega

theorem cmpScaled_lt_mono {A A' : Nat} (a : Int) (m : Nat) (x : Int) (h : A' ≤ A)
    (hg : cmpScaled A a m x = .lt) : cmpScaled A' a m x = .lt := by
  unfold cmpScaled at *
  simp only [Nat.compare_eq_lt] at *
  have : A' * 2 ^ a.toNat * 10 ^ (-x).toNat ≤ A * 2 ^ a.toNat * 10 ^ (-x).toNat :=
    Nat.mul_le_mul_right _ (Nat.mul_le_mul_right _ h)
  omega

/-- key 0 (both zeros) is denoted exactly by the literals with a zero mantissa -/
theorem decIsKey_zero (d : Dec) : decIsKey d 0 = (d.mant == 0) := by
  simp [decIsKey]

/-- no literal denotes an infinity or a NaN -/
theorem decIsKey_nonfinite (d : Dec) (k : Int) (hk : k.natAbs / 2 ^ 52 ≥ 2047) :
    decIsKey d k = false := by
  have h0 : k ≠ 0 := by
    intro h; subst h; simp at hk
  unfold decIsKey
  simp [h0, hk]

/-- the sign of an accepted literal is the sign of the key -/
theorem decIsKey_sign (d : Dec) (k : Int) (h0 : k ≠ 0) (h : decIsKey d k = true) :
    d.neg = decide (k < 0) := by
  unfold decIsKey at h
  simp only [beq_iff_eq, h0, if_false] at h
  split at h
  · exact absurd h (by simp)
  · simp only [Bool.and_eq_true, beq_iff_eq] at h
    exact h.1.1

/-- `decIsKey` for a positive finite key, with the arithmetic spelled out -/
theorem decIsKey_pos (d : Dec) (n : Nat) (hn : 0 < n) (he : n / 2 ^ 52 < 2047) :
    decIsKey d (n : Int) =
      (let e := n / 2 ^ 52
       let m := n % 2 ^ 52
       let M := if e = 0 then m else 2 ^ 52 + m
       let E : Int := if e = 0 then -1074 else ((e : Nat) : Int) - 1075
       let up := cmpScaled (2 * M + 1) (E - 1) d.mant d.exp
       let lo := if m = 0 ∧ e > 1 then cmpScaled (4 * M - 1) (E - 2) d.mant d.exp
                 else cmpScaled (2 * M - 1) (E - 1) d.mant d.exp
       (d.neg == false) && (up == .gt || (up == .eq && M % 2 == 0)) &&
         (lo == .lt || (lo == .eq && M % 2 == 0))) := by
  have h0 : (n : Int) ≠ 0 := by omega
  have hlt : ¬ ((n : Int) < 0) := by omega
  have he' : ¬ (n / 2 ^ 52 ≥ 2047) := by omega
  unfold decIsKey
  simp only [beq_iff_eq, h0, if_false, Int.natAbs_natCast, he', hlt, decide_false]
  by_cases hz : n / 4503599627370496 = 0 <;> simp [hz]


theorem ord_excl {o : Ordering} {p q : Bool} (hpq : ¬ (p = true ∧ q = true))
    (h1 : (o == .gt || (o == .eq && p)) = true) (h2 : (o == .lt || (o == .eq && q)) = true) : False := by
  cases o <;> simp_all

/-- two adjacent positive doubles of one binade are never both denoted by the same literal:
    the upper rounding boundary of `n` is the lower one of `n+1`, and only one of the two
    has an even significand -/
theorem decIsKey_adjacent_excl (d : Dec) (n : Nat) (hn : 0 < n) (he : n / 2 ^ 52 < 2047)
    (hm : n % 2 ^ 52 + 1 < 2 ^ 52) :
    ¬ (decIsKey d (n : Int) = true ∧ decIsKey d ((n + 1 : Nat) : Int) = true) := by
  have e1 : (n + 1) / 2 ^ 52 = n / 2 ^ 52 := by omega
  have m1 : (n + 1) % 2 ^ 52 = n % 2 ^ 52 + 1 := by omega
  have he1 : (n + 1) / 2 ^ 52 < 2047 := by omega
  rw [decIsKey_pos d n hn he, decIsKey_pos d (n + 1) (by omega) he1]
  simp only [e1, m1]
  intro ⟨h1, h2⟩
  have hne : ¬ (n % 2 ^ 52 + 1 = 0 ∧ n / 2 ^ 52 > 1) := by omega
  simp only [hne, if_false, Bool.and_eq_true] at h1 h2
  by_cases hz : n / 2 ^ 52 = 0
  · simp only [hz, if_true] at h1 h2
    have hM : 2 * (n % 2 ^ 52 + 1) - 1 = 2 * (n % 2 ^ 52) + 1 := by omega
    rw [hM] at h2
    exact ord_excl (p := (n % 2 ^ 52) % 2 == 0) (q := (n % 2 ^ 52 + 1) % 2 == 0)
      (by simp only [beq_iff_eq]; omega) h1.1.2 h2.2
  · simp only [hz, if_false] at h1 h2
    have hM : 2 * (2 ^ 52 + (n % 2 ^ 52 + 1)) - 1 = 2 * (2 ^ 52 + n % 2 ^ 52) + 1 := by omega
    rw [hM] at h2
    exact ord_excl (p := (2 ^ 52 + n % 2 ^ 52) % 2 == 0) (q := (2 ^ 52 + (n % 2 ^ 52 + 1)) % 2 == 0)
      (by simp only [beq_iff_eq]; omega) h1.1.2 h2.2

/-- across a binade boundary (and from the last subnormal to the first normal) -/
theorem decIsKey_adjacent_excl_cross (d : Dec) (n : Nat) (hn : 0 < n) (he : (n + 1) / 2 ^ 52 < 2047)
    (hm : n % 2 ^ 52 + 1 = 2 ^ 52) :
    ¬ (decIsKey d (n : Int) = true ∧ decIsKey d ((n + 1 : Nat) : Int) = true) := by
  have e1 : (n + 1) / 2 ^ 52 = n / 2 ^ 52 + 1 := by omega
  have m1 : (n + 1) % 2 ^ 52 = 0 := by omega
  have m0 : n % 2 ^ 52 = 2 ^ 52 - 1 := by omega
  have he0 : n / 2 ^ 52 < 2047 := by omega
  rw [decIsKey_pos d n hn he0, decIsKey_pos d (n + 1) (by omega) he]
  simp only [e1, m1, m0]
  intro ⟨h1, h2⟩
  have hne : ¬ (n / 2 ^ 52 + 1 = 0) := by omega
  simp only [hne, if_false, Bool.and_eq_true] at h1 h2
  by_cases hz : n / 2 ^ 52 = 0
  · have hgt : ¬ (True ∧ 0 + 1 > 1) := by omega
    simp only [hz, if_true, hgt, if_false] at h1 h2
    have hE : ((0 + 1 : Nat) : Int) - 1075 - 1 = -1074 - 1 := by omega
    have hM : 2 * (2 ^ 52 + 0) - 1 = 2 * (2 ^ 52 - 1) + 1 := by omega
    rw [hE, hM] at h2
    exact ord_excl (p := (2 ^ 52 - 1) % 2 == 0) (q := (2 ^ 52 + 0) % 2 == 0)
      (by decide) h1.1.2 h2.2
  · have hgt : (True ∧ n / 2 ^ 52 + 1 > 1) := ⟨trivial, by omega⟩
    simp only [hz, if_false, hgt] at h1 h2
    have hE : ((n / 2 ^ 52 + 1 : Nat) : Int) - 1075 - 2 = ((n / 2 ^ 52 : Nat) : Int) - 1075 - 1 := by omega
    have hM : 4 * (2 ^ 52 + 0) - 1 = 2 * (2 ^ 52 + (2 ^ 52 - 1)) + 1 := by omega
    rw [hE, hM] at h2
    exact ord_excl (p := (2 ^ 52 + (2 ^ 52 - 1)) % 2 == 0) (q := (2 ^ 52 + 0) % 2 == 0)
      (by decide) h1.1.2 h2.2

/-- any two adjacent positive finite doubles -/
theorem decIsKey_adjacent_excl_pos (d : Dec) (n : Nat) (hn : 0 < n) (he : (n + 1) / 2 ^ 52 < 2047) :
    ¬ (decIsKey d (n : Int) = true ∧ decIsKey d ((n + 1 : Nat) : Int) = true) := by
  by_cases hm : n % 2 ^ 52 + 1 < 2 ^ 52
  · exact decIsKey_adjacent_excl d n hn (by omega) hm
  · exact decIsKey_adjacent_excl_cross d n hn he (by omega)

/-- a negative key is denoted by the negated literals of its absolute value -/
theorem decIsKey_neg (d : Dec) (n : Nat) (hn : 0 < n) :
    decIsKey d (-(n : Int)) = decIsKey { d with neg := !d.neg } (n : Int) := by
  have h0 : (n : Int) ≠ 0 := by omega
  have h0' : -(n : Int) ≠ 0 := by omega
  have hlt : ¬ ((n : Int) < 0) := by omega
  have hlt' : (-(n : Int) < 0) := by omega
  unfold decIsKey
  simp only [beq_iff_eq, h0, h0', if_false, Int.natAbs_natCast, Int.natAbs_neg, hlt, hlt', decide_false, decide_true]
  cases d.neg <;> simp

/-- any two adjacent negative finite doubles -/
theorem decIsKey_adjacent_excl_neg (d : Dec) (n : Nat) (hn : 0 < n) (he : (n + 1) / 2 ^ 52 < 2047) :
    ¬ (decIsKey d (-(n : Int)) = true ∧ decIsKey d (-((n + 1 : Nat) : Int)) = true) := by
  rw [decIsKey_neg d n hn, decIsKey_neg d (n + 1) (by omega)]
  exact decIsKey_adjacent_excl_pos _ n hn he

theorem cmpScaled_zero_right (A : Nat) (a : Int) (x : Int) (hA : 0 < A) : cmpScaled A a 0 x = .gt := by
  unfold cmpScaled
  simp only [Nat.zero_mul, Nat.compare_eq_gt]
  exact Nat.mul_pos (Nat.mul_pos hA (Nat.pow_pos (by decide))) (Nat.pow_pos (by decide))

/-- a literal with a zero mantissa denotes no positive key -/
theorem decIsKey_zero_mant_pos (d : Dec) (n : Nat) (hn : 0 < n) (hd : d.mant = 0) :
    decIsKey d (n : Int) = false := by
  by_cases he : n / 2 ^ 52 < 2047
  · rw [decIsKey_pos d n hn he]
    simp only [hd]
    have hM : 0 < (if n / 2 ^ 52 = 0 then n % 2 ^ 52 else 2 ^ 52 + n % 2 ^ 52) := by
      split <;> omega
    rw [cmpScaled_zero_right (4 * _ - 1) _ _ (by omega), cmpScaled_zero_right (2 * _ - 1) _ _ (by omega)]
    simp
  · exact decIsKey_nonfinite d n (by simpa using Nat.le_of_not_lt he)

/-- THE EXACTNESS STATEMENT: one literal never denotes two adjacent order keys `k`, `k+1`, for
    every literal and every pair of finite keys (negative, zero, subnormal, normal, across binades) -/
theorem decIsKey_adjacent_excl_all (d : Dec) (k : Int)
    (hk : k.natAbs / 2 ^ 52 < 2047) (hk1 : (k + 1).natAbs / 2 ^ 52 < 2047) :
    ¬ (decIsKey d k = true ∧ decIsKey d (k + 1) = true) := by
  rcases Int.lt_trichotomy k 0 with hneg | hz | hpos
  · by_cases hm1 : k = -1
    · subst hm1
      intro ⟨h1, h2⟩
      have h2' : decIsKey d 0 = true := h2
      rw [decIsKey_zero] at h2'
      have := decIsKey_neg d 1 (by decide)
      have h1' : decIsKey d (-((1 : Nat) : Int)) = true := h1
      rw [this, decIsKey_zero_mant_pos _ 1 (by decide) (by simpa using h2')] at h1'
      exact absurd h1' (by simp)
    · -- k ≤ -2 : k+1 = -n, k = -(n+1)
      obtain ⟨n, hn⟩ : ∃ n : Nat, k + 1 = -(n : Int) := ⟨(-(k + 1)).toNat, by omega⟩
      have hk' : k = -((n + 1 : Nat) : Int) := by omega
      have hn0 : 0 < n := by omega
      intro ⟨h1, h2⟩
      rw [hn] at h2
      rw [hk'] at h1
      have he : (n + 1) / 2 ^ 52 < 2047 := by
        have : k.natAbs = n + 1 := by omega
        omega
      exact decIsKey_adjacent_excl_neg d n hn0 he ⟨h2, h1⟩
  · subst hz
    intro ⟨h1, h2⟩
    rw [decIsKey_zero] at h1
    have h2' : decIsKey d ((1 : Nat) : Int) = true := h2
    rw [decIsKey_zero_mant_pos d 1 (by decide) (by simpa using h1)] at h2'
    exact absurd h2' (by simp)
  · obtain ⟨n, hn⟩ : ∃ n : Nat, k = (n : Int) := ⟨k.toNat, by omega⟩
    subst hn
    have he : (n + 1) / 2 ^ 52 < 2047 := by
      have : ((n : Int) + 1).natAbs = n + 1 := by omega
      omega
    exact decIsKey_adjacent_excl_pos d n (by omega) he

theorem cmpScaled_int_cmp (A m t j : Nat) :
    cmpScaled A ((t : Int) - (j : Int)) (m * 2 ^ t) 0 = compare A (m * 2 ^ j) := by
  unfold cmpScaled
  by_cases h : j ≤ t
  · have h1 : ((t : Int) - (j : Int)).toNat = t - j := by omega
    have h2 : (-((t : Int) - (j : Int))).toNat = 0 := by omega
    have hp : 2 ^ t = 2 ^ j * 2 ^ (t - j) := by rw [← Nat.pow_add]; congr 1; omega
    simp only [h1, h2, Int.neg_zero, Int.toNat_zero, Nat.pow_zero, Nat.mul_one, hp, ← Nat.mul_assoc]
    have hP : 0 < 2 ^ (t - j) := Nat.pow_pos (by decide)
    rcases Nat.lt_trichotomy A (m * 2 ^ j) with hl | he | hg
    · rw [Nat.compare_eq_lt.mpr hl, Nat.compare_eq_lt]; exact Nat.mul_lt_mul_of_pos_right hl hP
    · rw [he]; simp
    · rw [Nat.compare_eq_gt.mpr hg, Nat.compare_eq_gt]; exact Nat.mul_lt_mul_of_pos_right hg hP
  · have h1 : ((t : Int) - (j : Int)).toNat = 0 := by omega
    have h2 : (-((t : Int) - (j : Int))).toNat = j - t := by omega
    have hp : 2 ^ j = 2 ^ t * 2 ^ (j - t) := by rw [← Nat.pow_add]; congr 1; omega
    simp only [h1, h2, Int.neg_zero, Int.toNat_zero, Nat.pow_zero, Nat.mul_one, hp, ← Nat.mul_assoc]

/-- NO FALSE REJECTION for the large integers of the C04 defect: every double `≥ 2^52` (an integer
    `M·2^t`) is denoted by its exact integer text -/
theorem decIsKey_exact_int (n t : Nat) (ht : n / 2 ^ 52 = 1075 + t) (hf : n / 2 ^ 52 < 2047) :
    decIsKey ⟨false, (2 ^ 52 + n % 2 ^ 52) * 2 ^ t, 0⟩ (n : Int) = true := by
  have hn : 0 < n := by
    rcases Nat.eq_zero_or_pos n with h | h
    · subst h; omega
    · exact h
  rw [decIsKey_pos _ n hn hf]
  have hz : ¬ (n / 2 ^ 52 = 0) := by omega
  have hE1 : (((n / 2 ^ 52 : Nat) : Int) - 1075 - 1) = (t : Int) - ((1 : Nat) : Int) := by omega
  have hE2 : (((n / 2 ^ 52 : Nat) : Int) - 1075 - 2) = (t : Int) - ((2 : Nat) : Int) := by omega
  simp only [hz, if_false, hE1, hE2, cmpScaled_int_cmp]
  have hup : compare (2 * (2 ^ 52 + n % 2 ^ 52) + 1) ((2 ^ 52 + n % 2 ^ 52) * 2 ^ 1) = .gt := by
    rw [Nat.compare_eq_gt]; omega
  have hlo2 : compare (2 * (2 ^ 52 + n % 2 ^ 52) - 1) ((2 ^ 52 + n % 2 ^ 52) * 2 ^ 1) = .lt := by
    rw [Nat.compare_eq_lt]; omega
  have hlo4 : compare (4 * (2 ^ 52 + n % 2 ^ 52) - 1) ((2 ^ 52 + n % 2 ^ 52) * 2 ^ 2) = .lt := by
    rw [Nat.compare_eq_lt]; omega
  rw [hup]
  split <;> simp [hlo2, hlo4]

def dstep (acc : Option Nat) (c : Char) : Option Nat :=
  acc.bind (fun a => if c.isDigit then some (a * 10 + (c.toNat - 48)) else none)

theorem digitsVal_eq (l : List Char) : digitsVal l = if l.isEmpty then none else l.foldl dstep (some 0) := rfl

/-- the digit reader is positional: appending a digit multiplies by ten and adds it -/
theorem digitsVal_snoc (l : List Char) (c : Char) (hl : l ≠ []) (hc : c.isDigit = true) :
    digitsVal (l ++ [c]) = (digitsVal l).map (fun a => a * 10 + (c.toNat - 48)) := by
  rw [digitsVal_eq, digitsVal_eq]
  have h1 : (l ++ [c]).isEmpty = false := by simp
  have h2 : l.isEmpty = false := by simpa using hl
  simp only [h1, h2, List.foldl_append, List.foldl_cons, List.foldl_nil]
  simp only [Bool.false_eq_true, if_false]
  cases h : List.foldl dstep (some 0) l <;> simp [dstep, hc]

/-- anything but a digit makes the reader fail -/
theorem digitsVal_nondigit (l r : List Char) (c : Char) (hc : c.isDigit = false) :
    digitsVal (l ++ c :: r) = none := by
  rw [digitsVal_eq]
  have h1 : (l ++ c :: r).isEmpty = false := by simp
  simp only [h1, Bool.false_eq_true, if_false, List.foldl_append, List.foldl_cons]
  have hnone : ∀ r : List Char, List.foldl dstep none r = none := by
    intro r; induction r with
    | nil => rfl
    | cons x xs ih => simpa [dstep] using ih
  have : dstep (List.foldl dstep (some 0) l) c = none := by
    cases List.foldl dstep (some 0) l <;> simp [dstep, hc]
  rw [this, hnone]


theorem cmpScaled_frac_cmp (A m k j : Nat) :
    cmpScaled A (-(k : Int) - (j : Int)) (m * 5 ^ k) (-(k : Int)) = compare A (m * 2 ^ j) := by
  unfold cmpScaled
  have h1 : (-(k : Int) - (j : Int)).toNat = 0 := by omega
  have h2 : (-(-(k : Int) - (j : Int))).toNat = k + j := by omega
  have h3 : (-(k : Int)).toNat = 0 := by omega
  have h4 : (-(-(k : Int))).toNat = k := by omega
  simp only [h1, h2, h3, h4, Nat.pow_zero, Nat.mul_one]
  have hp : m * 5 ^ k * 2 ^ (k + j) = m * 2 ^ j * 10 ^ k := by
    have : (10 : Nat) ^ k = 5 ^ k * 2 ^ k := by rw [← Nat.mul_pow]
    rw [this, Nat.pow_add]
    simp only [Nat.mul_assoc, Nat.mul_comm, Nat.mul_left_comm]
  rw [hp]
  have hP : 0 < 10 ^ k := Nat.pow_pos (by decide)
  rcases Nat.lt_trichotomy A (m * 2 ^ j) with hl | he | hg
  · rw [Nat.compare_eq_lt.mpr hl, Nat.compare_eq_lt]; exact Nat.mul_lt_mul_of_pos_right hl hP
  · rw [he]; simp
  · rw [Nat.compare_eq_gt.mpr hg, Nat.compare_eq_gt]; exact Nat.mul_lt_mul_of_pos_right hg hP


/-- NO FALSE REJECTION below 2^52: every positive finite double with a negative binary exponent
    (all subnormals, all normals `< 2^52`) is denoted by the exact decimal expansion of its
    binary value `M·2^(-k) = M·5^k·10^(-k)` -/
theorem decIsKey_exact_frac (n k : Nat) (hn : 0 < n) (he : n / 2 ^ 52 < 1075)
    (hk : (if n / 2 ^ 52 = 0 then 1074 else 1075 - n / 2 ^ 52) = k) :
    decIsKey ⟨false, (if n / 2 ^ 52 = 0 then n % 2 ^ 52 else 2 ^ 52 + n % 2 ^ 52) * 5 ^ k, -(k : Int)⟩
      (n : Int) = true := by
  rw [decIsKey_pos _ n hn (by omega)]
  have hE1 : ((if n / 2 ^ 52 = 0 then (-1074 : Int) else ((n / 2 ^ 52 : Nat) : Int) - 1075) - 1)
      = -(k : Int) - ((1 : Nat) : Int) := by split at hk <;> simp_all <;> omega
  have hE2 : ((if n / 2 ^ 52 = 0 then (-1074 : Int) else ((n / 2 ^ 52 : Nat) : Int) - 1075) - 2)
      = -(k : Int) - ((2 : Nat) : Int) := by split at hk <;> simp_all <;> omega
  simp only [hE1, hE2, cmpScaled_frac_cmp]
  generalize hM : (if n / 2 ^ 52 = 0 then n % 2 ^ 52 else 2 ^ 52 + n % 2 ^ 52) = M
  have hMpos : 0 < M := by rw [← hM]; split <;> omega
  have hup : compare (2 * M + 1) (M * 2 ^ 1) = .gt := by rw [Nat.compare_eq_gt]; omega
  have hlo2 : compare (2 * M - 1) (M * 2 ^ 1) = .lt := by rw [Nat.compare_eq_lt]; omega
  have hlo4 : compare (4 * M - 1) (M * 2 ^ 2) = .lt := by rw [Nat.compare_eq_lt]; omega
  rw [hup]
  split <;> simp [hlo2, hlo4]


/-- the oracle is satisfiable at every finite key: some literal (the exact value) is accepted, so a
    correct encoder can always pass it -/
theorem decIsKey_satisfiable (k : Int) (hk : k.natAbs / 2 ^ 52 < 2047) : ∃ d : Dec, decIsKey d k = true := by
  have pos : ∀ n : Nat, 0 < n → n / 2 ^ 52 < 2047 → ∃ d : Dec, decIsKey d (n : Int) = true ∧ d.neg = false := by
    intro n hn hf
    by_cases he : n / 2 ^ 52 < 1075
    · exact ⟨_, decIsKey_exact_frac n _ hn he rfl, rfl⟩
    · exact ⟨_, decIsKey_exact_int n (n / 2 ^ 52 - 1075) (by omega) hf, rfl⟩
  rcases Int.lt_trichotomy k 0 with hneg | hz | hpos
  · obtain ⟨n, hn⟩ : ∃ n : Nat, k = -(n : Int) := ⟨(-k).toNat, by omega⟩
    subst hn
    have hn0 : 0 < n := by omega
    obtain ⟨d, hd, hs⟩ := pos n hn0 (by simpa using hk)
    refine ⟨{ d with neg := true }, ?_⟩
    rw [decIsKey_neg _ n hn0]
    have : ({ { d with neg := true } with neg := !({ d with neg := true } : Dec).neg } : Dec) = d := by
      cases d; simp_all
    rw [this]; exact hd
  · subst hz; exact ⟨⟨false, 0, 0⟩, by decide⟩
  · obtain ⟨n, hn⟩ : ∃ n : Nat, k = (n : Int) := ⟨k.toNat, by omega⟩
    subst hn
    obtain ⟨d, hd, _⟩ := pos n (by omega) (by simpa using hk)
    exact ⟨d, hd⟩


def Mof (n : Nat) : Nat := if n / 2 ^ 52 = 0 then n % 2 ^ 52 else 2 ^ 52 + n % 2 ^ 52
def Eof (n : Nat) : Int := if n / 2 ^ 52 = 0 then -1074 else ((n / 2 ^ 52 : Nat) : Int) - 1075
def upC (d : Dec) (n : Nat) : Ordering := cmpScaled (2 * Mof n + 1) (Eof n - 1) d.mant d.exp
def loC (d : Dec) (n : Nat) : Ordering :=
  if n % 2 ^ 52 = 0 ∧ n / 2 ^ 52 > 1 then cmpScaled (4 * Mof n - 1) (Eof n - 2) d.mant d.exp
  else cmpScaled (2 * Mof n - 1) (Eof n - 1) d.mant d.exp

theorem decIsKey_pos' (d : Dec) (n : Nat) (hn : 0 < n) (he : n / 2 ^ 52 < 2047) :
    decIsKey d (n : Int) = ((d.neg == false) && (upC d n == .gt || (upC d n == .eq && Mof n % 2 == 0)) &&
      (loC d n == .lt || (loC d n == .eq && Mof n % 2 == 0))) := by
  rw [decIsKey_pos d n hn he]; rfl

theorem cmpScaled_strict_mono {A A' : Nat} (a : Int) (m : Nat) (x : Int) (h : A < A')
    (hg : cmpScaled A a m x ≠ .lt) : cmpScaled A' a m x = .gt := by
  unfold cmpScaled at *
  simp only [Nat.compare_eq_gt, ne_eq, Nat.compare_eq_lt] at *
  have hP : 0 < 2 ^ a.toNat * 10 ^ (-x).toNat := Nat.mul_pos (Nat.pow_pos (by decide)) (Nat.pow_pos (by decide))
  have : A * (2 ^ a.toNat * 10 ^ (-x).toNat) < A' * (2 ^ a.toNat * 10 ^ (-x).toNat) :=
    Nat.mul_lt_mul_of_pos_right h hP
  simp only [← Nat.mul_assoc] at this
  omega

theorem cmpScaled_double (A : Nat) (a : Int) (m : Nat) (x : Int) :
    cmpScaled (2 * A) (a - 1) m x = cmpScaled A a m x := by
  unfold cmpScaled
  by_cases h : 1 ≤ a
  · have h1 : a.toNat = (a - 1).toNat + 1 := by omega
    have h2 : (-(a - 1)).toNat = 0 := by omega
    have h3 : (-a).toNat = 0 := by omega
    rw [h1, h2, h3, Nat.pow_succ]
    congr 1
    simp only [Nat.mul_assoc, Nat.mul_comm, Nat.mul_left_comm]
  · have h1 : a.toNat = 0 := by omega
    have h2 : (a - 1).toNat = 0 := by omega
    have h3 : (-(a - 1)).toNat = (-a).toNat + 1 := by omega
    rw [h1, h2, h3, Nat.pow_succ, Nat.pow_zero]
    generalize 10 ^ (-x).toNat = P
    generalize 10 ^ x.toNat = Q
    generalize 2 ^ (-a).toNat = R
    have e1 : 2 * A * 1 * P = 2 * (A * 1 * P) := by simp only [Nat.mul_assoc]
    have e2 : m * Q * (R * 2) = 2 * (m * Q * R) := by
      simp only [Nat.mul_assoc, Nat.mul_comm, Nat.mul_left_comm]
    rw [e1, e2]
    rcases Nat.lt_trichotomy (A * 1 * P) (m * Q * R) with hl | he | hg
    · rw [Nat.compare_eq_lt.mpr hl, Nat.compare_eq_lt]; omega
    · rw [he]; simp
    · rw [Nat.compare_eq_gt.mpr hg, Nat.compare_eq_gt]; omega


/-- the lower rounding boundary of `n+1` is the upper rounding boundary of `n` -/
theorem loC_succ (d : Dec) (n : Nat) (hn : 0 < n) : loC d (n + 1) = upC d n := by
  unfold loC upC Mof Eof
  by_cases hm : n % 2 ^ 52 + 1 < 2 ^ 52
  · have e1 : (n + 1) / 2 ^ 52 = n / 2 ^ 52 := by omega
    have m1 : (n + 1) % 2 ^ 52 = n % 2 ^ 52 + 1 := by omega
    have hne : ¬ (n % 2 ^ 52 + 1 = 0 ∧ n / 2 ^ 52 > 1) := by omega
    simp only [e1, m1, hne, if_false]
    by_cases hz : n / 2 ^ 52 = 0
    · simp only [hz, if_true]
      have hM : 2 * (n % 2 ^ 52 + 1) - 1 = 2 * (n % 2 ^ 52) + 1 := by omega
      rw [hM]
    · simp only [hz, if_false]
      have hM : 2 * (2 ^ 52 + (n % 2 ^ 52 + 1)) - 1 = 2 * (2 ^ 52 + n % 2 ^ 52) + 1 := by omega
      rw [hM]
  · have e1 : (n + 1) / 2 ^ 52 = n / 2 ^ 52 + 1 := by omega
    have m1 : (n + 1) % 2 ^ 52 = 0 := by omega
    have m0 : n % 2 ^ 52 = 2 ^ 52 - 1 := by omega
    have hne : ¬ (n / 2 ^ 52 + 1 = 0) := by omega
    simp only [e1, m1, m0, hne, if_false]
    by_cases hz : n / 2 ^ 52 = 0
    · have hgt : ¬ (True ∧ 0 + 1 > 1) := by omega
      simp only [hz, if_true, hgt, if_false]
      have hE : ((0 + 1 : Nat) : Int) - 1075 - 1 = -1074 - 1 := by omega
      have hM : 2 * (2 ^ 52 + 0) - 1 = 2 * (2 ^ 52 - 1) + 1 := by omega
      rw [hE, hM]
    · have hgt : (True ∧ n / 2 ^ 52 + 1 > 1) := ⟨trivial, by omega⟩
      simp only [hz, if_false, hgt]
      have hE : ((n / 2 ^ 52 + 1 : Nat) : Int) - 1075 - 2 = ((n / 2 ^ 52 : Nat) : Int) - 1075 - 1 := by omega
      have hM : 4 * (2 ^ 52 + 0) - 1 = 2 * (2 ^ 52 + (2 ^ 52 - 1)) + 1 := by omega
      rw [hE, hM]
      simp

/-- the upper rounding boundaries are strictly increasing in the key -/
theorem upC_succ (d : Dec) (n : Nat) (h : upC d n ≠ .lt) : upC d (n + 1) = .gt := by
  unfold upC Mof Eof at *
  by_cases hm : n % 2 ^ 52 + 1 < 2 ^ 52
  · have e1 : (n + 1) / 2 ^ 52 = n / 2 ^ 52 := by omega
    have m1 : (n + 1) % 2 ^ 52 = n % 2 ^ 52 + 1 := by omega
    simp only [e1, m1]
    refine cmpScaled_strict_mono _ _ _ ?_ h
    split <;> omega
  · have e1 : (n + 1) / 2 ^ 52 = n / 2 ^ 52 + 1 := by omega
    have m1 : (n + 1) % 2 ^ 52 = 0 := by omega
    have m0 : n % 2 ^ 52 = 2 ^ 52 - 1 := by omega
    have hne : ¬ (n / 2 ^ 52 + 1 = 0) := by omega
    simp only [e1, m1, m0, hne, if_false] at h ⊢
    by_cases hz : n / 2 ^ 52 = 0
    · simp only [hz, if_true] at h ⊢
      have hE : ((0 + 1 : Nat) : Int) - 1075 - 1 = -1074 - 1 := by omega
      rw [hE]
      exact cmpScaled_strict_mono _ _ _ (by omega) h
    · simp only [hz, if_false] at h ⊢
      have hE : ((n / 2 ^ 52 + 1 : Nat) : Int) - 1075 - 1 = (((n / 2 ^ 52 : Nat) : Int) - 1075 - 1 + 1) := by omega
      rw [hE, ← cmpScaled_double, Int.add_sub_cancel]
      exact cmpScaled_strict_mono _ _ _ (by omega) h

theorem upC_add (d : Dec) (n : Nat) (h : upC d n ≠ .lt) (j : Nat) : upC d (n + (j + 1)) = .gt := by
  induction j with
  | zero => exact upC_succ d n h
  | succ j ih => exact upC_succ d (n + (j + 1)) (by rw [ih]; decide)


theorem decIsKey_up_ne_lt (d : Dec) (n : Nat) (hn : 0 < n) (he : n / 2 ^ 52 < 2047)
    (h : decIsKey d (n : Int) = true) : upC d n ≠ .lt := by
  rw [decIsKey_pos' d n hn he] at h
  intro hc
  simp [hc] at h

theorem decIsKey_lo_ne_gt (d : Dec) (n : Nat) (hn : 0 < n) (he : n / 2 ^ 52 < 2047)
    (h : decIsKey d (n : Int) = true) : loC d n ≠ .gt := by
  rw [decIsKey_pos' d n hn he] at h
  intro hc
  simp [hc] at h

/-- two different positive keys are never denoted by one literal -/
theorem decIsKey_functional_pos (d : Dec) (n n' : Nat) (hn : 0 < n) (hlt : n < n')
    (he' : n' / 2 ^ 52 < 2047) :
    ¬ (decIsKey d (n : Int) = true ∧ decIsKey d (n' : Int) = true) := by
  intro ⟨h1, h2⟩
  have he : n / 2 ^ 52 < 2047 := by
    have : n / 2 ^ 52 ≤ n' / 2 ^ 52 := Nat.div_le_div_right (by omega)
    omega
  by_cases hadj : n' = n + 1
  · subst hadj
    exact decIsKey_adjacent_excl_pos d n hn he' ⟨h1, h2⟩
  · obtain ⟨j, hj⟩ : ∃ j, n' = (n + (j + 1)) + 1 := ⟨n' - n - 2, by omega⟩
    subst hj
    have hup := upC_add d n (decIsKey_up_ne_lt d n hn he h1) j
    have hlo := decIsKey_lo_ne_gt d _ (by omega) he' h2
    rw [loC_succ d _ (by omega)] at hlo
    exact hlo hup


theorem decIsKey_lt_excl (d : Dec) (k k' : Int) (hlt : k < k')
    (hk : k.natAbs / 2 ^ 52 < 2047) (hk' : k'.natAbs / 2 ^ 52 < 2047) :
    ¬ (decIsKey d k = true ∧ decIsKey d k' = true) := by
  intro ⟨h1, h2⟩
  rcases Int.lt_trichotomy k 0 with hneg | hz | hpos
  · obtain ⟨a, ha⟩ : ∃ a : Nat, k = -(a : Int) := ⟨(-k).toNat, by omega⟩
    subst ha
    have ha0 : 0 < a := by omega
    rw [decIsKey_neg d a ha0] at h1
    rcases Int.lt_trichotomy k' 0 with hneg' | hz' | hpos'
    · obtain ⟨b, hb⟩ : ∃ b : Nat, k' = -(b : Int) := ⟨(-k').toNat, by omega⟩
      subst hb
      have hb0 : 0 < b := by omega
      rw [decIsKey_neg d b hb0] at h2
      exact decIsKey_functional_pos _ b a hb0 (by omega) (by simpa using hk) ⟨h2, h1⟩
    · subst hz'
      rw [decIsKey_zero] at h2
      rw [decIsKey_zero_mant_pos _ a ha0 (by simpa using h2)] at h1
      exact absurd h1 (by simp)
    · have s2 := decIsKey_sign d k' (by omega) h2
      have s1 := decIsKey_sign _ (a : Int) (by omega) h1
      have : decide (k' < 0) = false := by simpa using Int.le_of_lt hpos'
      rw [this] at s2
      have : decide ((a : Int) < 0) = false := by simp
      rw [this] at s1
      simp [s2] at s1
  · subst hz
    rw [decIsKey_zero] at h1
    obtain ⟨b, hb⟩ : ∃ b : Nat, k' = (b : Int) := ⟨k'.toNat, by omega⟩
    subst hb
    rw [decIsKey_zero_mant_pos d b (by omega) (by simpa using h1)] at h2
    exact absurd h2 (by simp)
  · obtain ⟨a, ha⟩ : ∃ a : Nat, k = (a : Int) := ⟨k.toNat, by omega⟩
    obtain ⟨b, hb⟩ : ∃ b : Nat, k' = (b : Int) := ⟨k'.toNat, by omega⟩
    subst ha; subst hb
    exact decIsKey_functional_pos d a b (by omega) (by omega) (by simpa using hk') ⟨h1, h2⟩

/-- THE ORACLE IS A PARTIAL FUNCTION from number texts to order keys: a literal denotes at most one
    finite key -/
theorem decIsKey_functional (d : Dec) (k k' : Int)
    (hk : k.natAbs / 2 ^ 52 < 2047) (hk' : k'.natAbs / 2 ^ 52 < 2047)
    (h : decIsKey d k = true) (h' : decIsKey d k' = true) : k = k' := by
  rcases Int.lt_trichotomy k k' with hlt | heq | hgt
  · exact absurd ⟨h, h'⟩ (decIsKey_lt_excl d k k' hlt hk hk')
  · exact heq
  · exact absurd ⟨h', h⟩ (decIsKey_lt_excl d k' k hgt hk' hk)


/-- … with no side condition: infinities and NaNs are never denoted at all -/
theorem decIsKey_functional' (d : Dec) (k k' : Int)
    (h : decIsKey d k = true) (h' : decIsKey d k' = true) : k = k' := by
  by_cases hk : k.natAbs / 2 ^ 52 < 2047
  · by_cases hk' : k'.natAbs / 2 ^ 52 < 2047
    · exact decIsKey_functional d k k' hk hk' h h'
    · rw [decIsKey_nonfinite d k' (Nat.le_of_not_lt hk')] at h'; exact absurd h' (by simp)
  · rw [decIsKey_nonfinite d k (Nat.le_of_not_lt hk)] at h; exact absurd h (by simp)

open Sod Sod.Json


/-- a JSON value in an index entry stands for at most one float -/
theorem valueIs_f64_functional (j : J) (k k' : Int)
    (h : valueIs j (.f64 k) = true) (h' : valueIs j (.f64 k') = true) : k = k' := by
  match j, h, h' with
  | .num l, h, h' =>
    simp only [valueIs] at h h'
    split at h
    · rename_i d hd
      rw [hd] at h'
      exact decIsKey_functional' d k k' h h'
    · exact absurd h (by simp)
  | .null, h, _ | .bool _, h, _ | .str _, h, _ | .arr _, h, _ | .obj _, h, _ => exact absurd h (by simp [valueIs])

/-- … and for at most one string -/
theorem valueIs_str_functional (j : J) (s s' : Bytes)
    (h : valueIs j (.str s) = true) (h' : valueIs j (.str s') = true) : s = s' := by
  match j, h, h' with
  | .str b, h, h' =>
    simp only [valueIs, beq_iff_eq] at h h'
    rw [← h, ← h']
  | .null, h, _ | .bool _, h, _ | .num _, h, _ | .arr _, h, _ | .obj _, h, _ => exact absurd h (by simp [valueIs])

/-- a JSON string never stands for a number and a JSON number never for a string -/
theorem valueIs_kind (j : J) (v : Val) (h : valueIs j v = true) :
    (∃ b, j = .str b ∧ ∃ s, v = .str s) ∨ (∃ l, j = .num l ∧ ∀ s, v ≠ .str s) := by
  cases j <;> cases v <;> simp_all [valueIs]


theorem valueIs_i64_functional (j : J) (x y : Int)
    (h : valueIs j (.i64 x) = true) (h' : valueIs j (.i64 y) = true) : x = y := by
  match j, h, h' with
  | .num l, h, h' =>
    simp only [valueIs, beq_iff_eq] at h h'
    exact Int.repr_injective (h.symm.trans h')
  | .null, h, _ | .bool _, h, _ | .str _, h, _ | .arr _, h, _ | .obj _, h, _ => exact absurd h (by simp [valueIs])

theorem valueIs_u64_functional (j : J) (x y : Nat)
    (h : valueIs j (.u64 x) = true) (h' : valueIs j (.u64 y) = true) : x = y := by
  match j, h, h' with
  | .num l, h, h' =>
    simp only [valueIs, beq_iff_eq] at h h'
    exact Nat.repr_injective (h.symm.trans h')
  | .null, h, _ | .bool _, h, _ | .str _, h, _ | .arr _, h, _ | .obj _, h, _ => exact absurd h (by simp [valueIs])

/-- THE ENTRY COMPARISON IS EXACT: within one cast (the index's type), a JSON value of schema.json
    stands for at most one model value -/
theorem valueIs_functional (j : J) (v w : Val) (ht : v.tag = w.tag)
    (h : valueIs j v = true) (h' : valueIs j w = true) : v = w := by
  match v, w, ht, h, h' with
  | .i64 _, .i64 _, _, h, h' => exact congrArg _ (valueIs_i64_functional j _ _ h h')
  | .u64 _, .u64 _, _, h, h' => exact congrArg _ (valueIs_u64_functional j _ _ h h')
  | .f64 _, .f64 _, _, h, h' => exact congrArg _ (valueIs_f64_functional j _ _ h h')
  | .str _, .str _, _, h, h' => exact congrArg _ (valueIs_str_functional j _ _ h h')
  | .i64 _, .u64 _, ht, _, _ | .i64 _, .f64 _, ht, _, _ | .i64 _, .str _, ht, _, _
  | .u64 _, .i64 _, ht, _, _ | .u64 _, .f64 _, ht, _, _ | .u64 _, .str _, ht, _, _
  | .f64 _, .i64 _, ht, _, _ | .f64 _, .u64 _, ht, _, _ | .f64 _, .str _, ht, _, _
  | .str _, .i64 _, ht, _, _ | .str _, .u64 _, ht, _, _ | .str _, .f64 _, ht, _, _ => exact absurd ht (by intro hh; cases hh)


theorem mapM_option_length {α β : Type} (f : α → Option β) :
    ∀ (l : List α) (r : List β), l.mapM f = some r → r.length = l.length := by
  intro l
  induction l with
  | nil => intro r h; simp at h; subst h; rfl
  | cons a as ih =>
    intro r h
    simp only [List.mapM_cons] at h
    cases hfa : f a with
    | none => simp [hfa] at h
    | some b =>
      cases has : as.mapM f with
      | none => simp [hfa, has] at h
      | some bs =>
        simp [hfa, has] at h
        subst h
        simp [ih bs has]

/-- an accepted entry list has exactly as many entries as the model's index -/
theorem checkEntries_length (name : String) (fi mi : List (Nat × Nat)) :
    ∀ (fuel i : Nat) (js : List J) (es : FIdx),
      checkEntries name fi mi fuel i js es = .ok () → js.length = es.length := by
  intro fuel
  induction fuel with
  | zero => intro i js es h; simp [checkEntries] at h
  | succ fuel ih =>
    intro i js es h
    match js, es, h with
    | [], [], _ => rfl
    | [], _ :: _, h => simp [checkEntries] at h
    | _ :: _, [], h => simp [checkEntries] at h
    | j :: js, (x, o) :: es, h =>
      simp only [checkEntries] at h
      split at h
      · simp at h
      · rename_i fe hfe
        split at h
        · simp at h
        · rename_i hlen
          split at h
          · simp at h
          · split at h
            · simp at h
            · split at h
              · simp at h
              · have hrec := ih _ _ _ h
                have h1 := mapM_option_length _ _ _ hfe
                simp only [bne_iff_ne, ne_eq, Decidable.not_not] at hlen
                have hrun : (List.takeWhile (fun e => e.1 == x) ((x, o) :: es)).length ≤ ((x, o) :: es).length :=
                  (List.takeWhile_sublist _).length_le
                simp only [List.length_drop, List.length_take] at hrec h1
                omega


/-- a plain digit string is read as that integer with exponent 0 -/
theorem parseDec_digits (cs : List Char) (hne : cs ≠ []) (hd : ∀ c ∈ cs, c.isDigit = true) :
    parseDec (String.ofList cs) = (digitsVal cs).map (fun m => ⟨false, m, 0⟩) := by
  have htw : cs.takeWhile Char.isDigit = cs := by
    have := List.takeWhile_append_of_pos (p := Char.isDigit) (l₁ := cs) (l₂ := []) hd
    simpa using this
  have hdw : cs.dropWhile Char.isDigit = [] := by
    have := List.dropWhile_append_of_pos (p := Char.isDigit) (l₁ := cs) (l₂ := []) hd
    simpa using this
  obtain ⟨c, r, rfl⟩ := List.exists_cons_of_ne_nil hne
  have hc : c ≠ '-' := by
    intro h; have := hd c (by simp); rw [h] at this; exact absurd this (by decide)
  unfold parseDec
  simp only [String.toList_ofList]
  split
  · rename_i r' heq
    simp only [List.cons.injEq] at heq
    exact absurd heq.1 hc
  · rename_i hnm
    simp [htw, hdw]
    cases digitsVal (c :: r) <;> rfl


/-- end to end: for a double `≥ 2^52`, any digit string whose value is the double's exact integer
    value is accepted by the entry comparison as that double -/
theorem valueIs_exact_int_text (cs : List Char) (n t : Nat) (hne : cs ≠ [])
    (hd : ∀ c ∈ cs, c.isDigit = true) (hv : digitsVal cs = some ((2 ^ 52 + n % 2 ^ 52) * 2 ^ t))
    (ht : n / 2 ^ 52 = 1075 + t) (hf : n / 2 ^ 52 < 2047) :
    valueIs (.num (String.ofList cs)) (.f64 (n : Int)) = true := by
  simp only [valueIs, parseDec_digits cs hne hd, hv, Option.map_some]
  exact decIsKey_exact_int n t ht hf


/-- an accepted JSON object has only expected keys (a stray or misspelt key in schema.json is a
    difference, never ignored) -/
theorem keysWithin_ok (j : J) (allowed : List String) (what : String)
    (h : keysWithin j allowed what = .ok ()) :
    ∃ kv, j = .obj kv ∧ ∀ p ∈ kv, ∃ a ∈ allowed, sbytes a = p.1 := by
  match j, h with
  | .obj kv, h =>
    refine ⟨kv, rfl, ?_⟩
    simp only [keysWithin] at h
    split at h
    · simp at h
    · rename_i hnone
      intro p hp
      have := List.find?_eq_none.mp hnone p hp
      simpa using this
  | .null, h | .bool _, h | .num _, h | .str _, h | .arr _, h => simp [keysWithin] at h


/-- accepted constraints are the model's constraints, flag by flag (absent flag = false) -/
theorem checkCons_ok (j : J) (c : Cons) (what : String) (h : checkCons (some j) c what = .ok ()) :
    getBool j "index" (some false) = .ok c.index ∧ getBool j "unique" (some false) = .ok c.unique ∧
    getBool j "upper" (some false) = .ok c.upper ∧ getBool j "lower" (some false) = .ok c.lower := by
  simp only [checkCons, bind, Except.bind] at h
  split at h
  · simp at h
  · split at h
    · simp at h
    · rename_i i hi
      split at h
      · simp at h
      · rename_i u hu
        split at h
        · simp at h
        · rename_i up hup
          split at h
          · simp at h
          · rename_i lo hlo
            simp only [expect] at h
            split at h
            · rename_i hc
              simp only [Bool.and_eq_true, beq_iff_eq] at hc
              obtain ⟨⟨⟨h1, h2⟩, h3⟩, h4⟩ := hc
              subst h1 h2 h3 h4
              exact ⟨hi, hu, hup, hlo⟩
            · simp at h


/-- accepted async settings are the model's: on/off agree, and when on the threshold text is the
    model's threshold and the timeout string is a Go duration of the model's number of 100 ms steps -/
theorem checkAsync_ok (j : Option J) (a : Option Async) (h : checkAsync j a = .ok ()) :
    (a = none → ∀ jj, j = some jj → getBool jj "enable" none = .ok false) ∧
    (∀ aa, a = some aa → ∃ jj, j = some jj ∧ getBool jj "enable" none = .ok true ∧
      ∃ t d ns, jj.get? "threshold" = some (.num t) ∧ jj.get? "timeout" = some (.str d) ∧
        t = toString aa.threshold ∧ parseDurationNs (String.ofList (d.map Char.ofNat)) = some ns ∧
        (ns + 99999999) / 100000000 = aa.timeout) := by
  match j, a, h with
  | none, none, _ => exact ⟨fun _ jj hj => (by cases hj), fun aa ha => (by cases ha)⟩
  | none, some _, h => simp [checkAsync] at h
  | some jj, none, h =>
    refine ⟨fun _ j' hj => ?_, fun aa ha => (by cases ha)⟩
    cases hj
    simp only [checkAsync, bind, Except.bind] at h
    split at h
    · simp at h
    · split at h
      · simp at h
      · rename_i en hen
        simp only [expect] at h
        split at h
        · rename_i hc
          simp only [Bool.not_eq_true'] at hc
          rw [hen, hc]
        · simp at h
  | some jj, some aa, h =>
    refine ⟨fun ha => (by cases ha), fun a' ha => ?_⟩
    cases ha
    refine ⟨jj, rfl, ?_⟩
    simp only [checkAsync, bind, Except.bind] at h
    split at h
    · simp at h
    · split at h
      · simp at h
      · rename_i en hen
        cases en with
        | false => simp [expect] at h
        | true =>
          simp only [expect, if_true] at h
          split at h
          · rename_i t d ht hd
            by_cases htt : t = aa.threshold.repr
            · simp [htt] at h
              split at h
              · rename_i ns hns
                by_cases hto : (ns + 99999999) / 100000000 = aa.timeout
                · exact ⟨hen, t, d, ns, ht, hd, htt, hns, hto⟩
                · simp [hto] at h
              · simp at h
            · simp [htt] at h
          · simp at h


theorem checkCons_some (j : Option J) (c : Cons) (what : String) (h : checkCons j c what = .ok ()) :
    ∃ jj, j = some jj := by
  cases j with
  | none => simp [checkCons] at h
  | some jj => exact ⟨jj, rfl⟩

/-- an accepted field index of schema.json carries the model's name, cast, constraints and number
    of entries -/
theorem checkFieldIndex_ok (fileIds modelIds : List (Nat × Nat)) (j : J) (fi : FieldIdx)
    (h : checkFieldIndex fileIds modelIds j fi = .ok ()) :
    getStr j "name" = .ok (sbytes fi.name) ∧ getStr j "cast" = .ok (sbytes fi.cast.name) ∧
    (∃ cj, j.get? "constraints" = some cj ∧
      getBool cj "index" (some false) = .ok fi.cons.index ∧ getBool cj "unique" (some false) = .ok fi.cons.unique ∧
      getBool cj "upper" (some false) = .ok fi.cons.upper ∧ getBool cj "lower" (some false) = .ok fi.cons.lower) ∧
    ∃ l, j.get? "index" = some (.arr l) ∧ l.length = fi.idx.length := by
  simp only [checkFieldIndex, bind, Except.bind] at h
  split at h
  · simp at h
  · split at h
    · simp at h
    · rename_i n hn
      by_cases hne : n = sbytes fi.name
      · simp [expect, hne] at h
        split at h
        · simp at h
        · rename_i c hc
          by_cases hce : c = sbytes fi.cast.name
          · simp [hce] at h
            split at h
            · simp at h
            · rename_i hcons
              obtain ⟨cj, hcj⟩ := checkCons_some _ _ _ hcons
              rw [hcj] at hcons
              split at h
              · rename_i l hl
                exact ⟨by rw [hn, hne], by rw [hc, hce], ⟨cj, hcj, checkCons_ok cj _ _ hcons⟩,
                  l, hl, checkEntries_length _ _ _ _ _ _ _ h⟩
              · simp at h
          · simp [hce] at h
      · simp [expect, hne] at h


theorem mapM_option_mem {α β : Type} (f : α → Option β) :
    ∀ (l : List α) (r : List β), l.mapM f = some r → ∀ a ∈ l, ∃ b ∈ r, f a = some b := by
  intro l
  induction l with
  | nil => intro r _ a ha; cases ha
  | cons x xs ih =>
    intro r h a ha
    simp only [List.mapM_cons] at h
    cases hfx : f x with
    | none => simp [hfx] at h
    | some b =>
      cases hxs : xs.mapM f with
      | none => simp [hfx, hxs] at h
      | some bs =>
        simp [hfx, hxs] at h
        subst h
        rcases List.mem_cons.mp ha with rfl | hm
        · exact ⟨b, by simp, hfx⟩
        · obtain ⟨b', hb', hfb⟩ := ih bs hxs a hm
          exact ⟨b', by simp [hb'], hfb⟩

theorem mem_takeWhile_sat {α : Type} (p : α → Bool) : ∀ (l : List α) (a : α), a ∈ l.takeWhile p → p a = true := by
  intro l
  induction l with
  | nil => intro a h; simp at h
  | cons x xs ih =>
    intro a h
    by_cases hx : p x = true
    · simp only [List.takeWhile_cons, hx, if_true] at h
      rcases List.mem_cons.mp h with rfl | hm
      · exact hx
      · exact ih a hm
    · simp [hx] at h

/-- ENTRY BY ENTRY: in an accepted entry list every file entry, paired with the model entry at the
    same position, is a well-formed `[value, id]` pair whose value stands for the model's value -/
theorem checkEntries_values (name : String) (fi mi : List (Nat × Nat)) :
    ∀ (fuel i : Nat) (js : List J) (es : FIdx),
      checkEntries name fi mi fuel i js es = .ok () →
      ∀ p ∈ js.zip es, ∃ v o, entryOf p.1 = some (v, o) ∧ valueIs v p.2.1 = true := by
  intro fuel
  induction fuel with
  | zero => intro i js es h; simp [checkEntries] at h
  | succ fuel ih =>
    intro i js es h
    match js, es, h with
    | [], [], _ => intro p hp; simp at hp
    | [], _ :: _, h => simp [checkEntries] at h
    | _ :: _, [], h => simp [checkEntries] at h
    | j :: js, (x, o) :: es, h =>
      simp only [checkEntries] at h
      split at h
      · simp at h
      · rename_i fe hfe
        split at h
        · simp at h
        · rename_i hlen
          split at h
          · simp at h
          · rename_i hall
            split at h
            · simp at h
            · split at h
              · simp at h
              · have hrec := ih _ _ _ h
                simp only [bne_iff_ne, ne_eq, Decidable.not_not] at hlen
                simp only [Bool.not_eq_true, Bool.not_eq_false'] at hall
                have hflen := mapM_option_length _ _ _ hfe
                have hmem := mapM_option_mem _ _ _ hfe
                have hpre : List.takeWhile (fun e => e.1 == x) ((x, o) :: es) <+: ((x, o) :: es) :=
                  List.takeWhile_prefix _
                have hrun := List.prefix_iff_eq_take.mp hpre
                generalize hn : (List.takeWhile (fun e => e.1 == x) ((x, o) :: es)).length = n at *
                intro p hp
                have hsplit : (j :: js).zip ((x, o) :: es) =
                    ((j :: js).take n).zip (((x, o) :: es).take n) ++ ((j :: js).drop n).zip (((x, o) :: es).drop n) := by
                  have h3 : min n ((x, o) :: es).length = n := by
                    have := congrArg List.length hrun
                    simp only [List.length_take] at this
                    omega
                  rw [← List.zip_append (by simp only [List.length_take] at hflen ⊢; omega),
                    List.take_append_drop, List.take_append_drop]
                rw [hsplit] at hp
                rcases List.mem_append.mp hp with h1 | h2
                · have hp1 := (List.of_mem_zip h1).1
                  have hp2 := (List.of_mem_zip h1).2
                  obtain ⟨b, hb, hfb⟩ := hmem p.1 hp1
                  have hv := List.all_eq_true.mp hall b hb
                  rw [← hrun] at hp2
                  have hx := mem_takeWhile_sat _ _ _ hp2
                  simp only [beq_iff_eq] at hx
                  exact ⟨b.1, b.2, hfb, by rw [hx]; exact hv⟩
                · exact hrec p h2


/-- an accepted object-id table is an object whose every member is `"<oid>": "h<uuid-handle>"`, one
    returned pair per member -/
theorem checkIds_ok (j : J) (ids got : List (Nat × Nat)) (h : checkIds j ids = .ok got) :
    ∃ kv, j = .obj kv ∧ got.length = kv.length ∧
      ∀ p ∈ got, ∃ q ∈ kv, natOf q.1 = some p.1 ∧ ∃ b, q.2 = .str b ∧ handleOf b = some p.2 := by
  match j, h with
  | .obj kv, h =>
    refine ⟨kv, rfl, ?_⟩
    simp only [checkIds] at h
    split at h
    · simp at h
    · rename_i hlen
      split at h
      · simp at h
      · split at h
        · simp at h
        · simp only [Except.ok.injEq] at h
          subst h
          simp only [bne_iff_ne, ne_eq, Decidable.not_not] at hlen
          refine ⟨hlen, ?_⟩
          intro p hp
          obtain ⟨q, hq, hqp⟩ := List.mem_filterMap.mp hp
          refine ⟨q, hq, ?_⟩
          split at hqp
          · rename_i oid b hoid hb
            simp only [Option.map_eq_some_iff] at hqp
            obtain ⟨u, hu, hpu⟩ := hqp
            subst hpu
            exact ⟨hoid, b, hb, hu⟩
          · simp at hqp
  | .null, h | .bool _, h | .num _, h | .str _, h | .arr _, h => simp [checkIds] at h

end Sod.Codec
namespace Sod.Json

/-- `get?` returns a member of the object under that key (the first one) -/
theorem get?_mem (j : J) (k : String) (v : J) (h : j.get? k = some v) :
    ∃ kv, j = .obj kv ∧ (k.toUTF8.toList.map (·.toNat), v) ∈ kv := by
  match j, h with
  | .obj kv, h =>
    refine ⟨kv, rfl, ?_⟩
    simp only [J.get?, Option.map_eq_some_iff] at h
    obtain ⟨p, hp, hv⟩ := h
    have hm := List.mem_of_find?_eq_some hp
    have hk := List.find?_some hp
    simp only [beq_iff_eq] at hk
    rw [← hk, ← hv]
    exact hm
  | .null, h | .bool _, h | .num _, h | .str _, h | .arr _, h => simp [J.get?] at h

end Sod.Json
