/-
  ValOrder.lean — `Val.lt` is a strict total order; `eq`/`gt` in terms of it.
-/
import SodModel.Val
namespace Sod
namespace Val

private theorem bytes_lt_trans {a b c : Bytes} (h₁ : a < b) (h₂ : b < c) : a < c := List.lt_trans h₁ h₂
private theorem bytes_lt_asymm {a b : Bytes} (h : a < b) : ¬ b < a := List.lt_asymm h
private theorem bytes_lt_ntrans {a b c : Bytes} (h₁ : ¬ a < b) (h₂ : ¬ b < c) : ¬ a < c := by
  have h₁' : b ≤ a := List.not_lt.mp h₁
  have h₂' : c ≤ b := List.not_lt.mp h₂
  exact List.not_lt.mpr (List.le_trans h₂' h₁')
private theorem bytes_lt_total {a b : Bytes} (h₁ : ¬ a < b) (h₂ : ¬ b < a) : a = b :=
  List.le_antisymm (List.not_lt.mp h₂) (List.not_lt.mp h₁)

theorem lt_irrefl (a : Val) : Val.lt a a = false := by
  cases a <;> simp [Val.lt]

theorem lt_trans {a b c : Val} : Val.lt a b = true → Val.lt b c = true → Val.lt a c = true := by
  cases a <;> cases b <;> cases c <;> simp [Val.lt, Val.tag, Tag.ord] <;> try omega
  exact bytes_lt_trans

theorem lt_ntrans {a b c : Val} : Val.lt a b = false → Val.lt b c = false → Val.lt a c = false := by
  cases a <;> cases b <;> cases c <;> simp [Val.lt, Val.tag, Tag.ord] <;> try omega
  exact fun h₁ h₂ => List.not_lt.mp (bytes_lt_ntrans (List.not_lt.mpr h₁) (List.not_lt.mpr h₂))

theorem lt_asymm {a b : Val} : Val.lt a b = true → Val.lt b a = false := by
  cases a <;> cases b <;> simp [Val.lt, Val.tag, Tag.ord] <;> try omega
  exact fun h => List.not_lt.mp (bytes_lt_asymm h)

theorem lt_total {a b : Val} : Val.lt a b = false → Val.lt b a = false → a = b := by
  cases a <;> cases b <;> simp [Val.lt, Val.tag, Tag.ord] <;> try omega
  exact fun h₁ h₂ => bytes_lt_total (List.not_lt.mpr h₁) (List.not_lt.mpr h₂)

theorem eq_iff {a b : Val} : Val.eq a b = true ↔ a = b := by
  simp [Val.eq]

theorem gt_iff {a b : Val} : Val.gt a b = true ↔ Val.lt b a = true := by
  constructor
  · intro h
    simp only [Val.gt, Bool.and_eq_true, Bool.not_eq_true', Val.eq, beq_eq_false_iff_ne] at h
    cases hba : Val.lt b a with
    | true => rfl
    | false => exact absurd (lt_total h.1 hba) h.2
  · intro h
    have h1 := lt_asymm h
    have h2 : a ≠ b := by
      intro e; subst e; rw [lt_irrefl] at h; cases h
    simp [Val.gt, Val.eq, h1, h2]

end Val
end Sod
