import SodModel.Tags
namespace Sod

theorem foldl_addTag_spec (tags : List String) (c : Cons) :
    (tags.foldl Cons.addTag c).index = (c.index || tags.contains "index" || tags.contains "unique") ∧
    (tags.foldl Cons.addTag c).unique = (c.unique || tags.contains "unique") ∧
    (tags.foldl Cons.addTag c).upper = (c.upper || tags.contains "upper") ∧
    (tags.foldl Cons.addTag c).lower = (c.lower || tags.contains "lower") := by
  induction tags generalizing c with
  | nil => simp
  | cons t ts ih =>
    simp only [List.foldl_cons]
    obtain ⟨h1, h2, h3, h4⟩ := ih (c.addTag t)
    rw [h1, h2, h3, h4]
    unfold Cons.addTag
    split
    · simp [List.contains_cons, Bool.or_comm, Bool.or_left_comm, Bool.or_assoc]
    · simp [List.contains_cons, Bool.or_comm, Bool.or_left_comm, Bool.or_assoc]
    · simp [List.contains_cons, Bool.or_comm, Bool.or_left_comm, Bool.or_assoc]
    · simp [List.contains_cons, Bool.or_comm, Bool.or_left_comm, Bool.or_assoc]
    · rename_i h1 h2 h3 h4
      have e1 : ¬ "index" = t := fun h => h1 h.symm
      have e2 : ¬ "unique" = t := fun h => h2 h.symm
      have e3 : ¬ "lower" = t := fun h => h3 h.symm
      have e4 : ¬ "upper" = t := fun h => h4 h.symm
      simp [List.mem_cons, e1, e2, e3, e4]

/-- the constraints of a tag do not depend on the order of its tokens: each flag is set iff its
    token occurs (and `index` also when `unique` occurs) -/
theorem ofTags_spec (tags : List String) :
    (Cons.ofTags tags).index = (tags.contains "index" || tags.contains "unique") ∧
    (Cons.ofTags tags).unique = tags.contains "unique" ∧
    (Cons.ofTags tags).upper = tags.contains "upper" ∧
    (Cons.ofTags tags).lower = tags.contains "lower" := by
  have := foldl_addTag_spec tags {}
  simpa [Cons.ofTags] using this

theorem ofTags_perm {a b : List String} (h : a.Perm b) : Cons.ofTags a = Cons.ofTags b := by
  have ha := ofTags_spec a
  have hb := ofTags_spec b
  have hc : ∀ s, a.contains s = b.contains s := by
    intro s
    have : s ∈ a ↔ s ∈ b := h.mem_iff
    cases h1 : a.contains s <;> cases h2 : b.contains s <;> simp_all
  cases hA : Cons.ofTags a; cases hB : Cons.ofTags b
  simp only [hA, hB] at ha hb
  simp_all

end Sod
