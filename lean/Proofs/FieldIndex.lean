/-
  FieldIndex.lean — on a descending field index every search of `field_index.go`
  is the corresponding `List.filter`; insert / delete / constrain / control facts.
-/
import SodModel.FieldIndex
import Proofs.ValOrder
namespace Sod

/-- the index invariant: values are in descending order (equal values allowed) -/
def Desc (l : FIdx) : Prop := l.Pairwise (fun a b => Val.lt a.1 b.1 = false)

/-! ### indexing helpers -/

theorem at_eq_getElem (l : FIdx) (p : Nat) (hp : p < l.length) : l.at p = (l[p]).1 := by
  simp [FIdx.at, List.getD_eq_getElem?_getD, hp]

theorem getD_eq_getElem' (l : FIdx) (p : Nat) (hp : p < l.length) : l.getD p Entry.dflt = l[p] := by
  simp [List.getD_eq_getElem?_getD, hp]

theorem desc_at (l : FIdx) (h : Desc l) (p q : Nat) (hpq : p < q) (hq : q < l.length) :
    Val.lt (l.at p) (l.at q) = false := by
  have hp : p < l.length := by omega
  have := List.pairwise_iff_getElem.mp h p q hp hq hpq
  rw [at_eq_getElem l p hp, at_eq_getElem l q hq]
  exact this

/-- elements of a slice `l[lo:hi]` come from positions in `[lo, hi)` -/
theorem mem_slice {α} (l : List α) (lo hi : Nat) (e : α) (he : e ∈ (l.take hi).drop lo) :
    ∃ q, lo ≤ q ∧ q < hi ∧ ∃ h : q < l.length, l[q] = e := by
  rw [List.mem_drop_iff_getElem] at he
  obtain ⟨j, hm, hj⟩ := he
  have hm' := hm
  rw [List.length_take] at hm'
  refine ⟨lo + j, by omega, by omega, by omega, ?_⟩
  rw [← hj, List.getElem_take]

theorem mem_take_idx {α} (l : List α) (n : Nat) (e : α) (he : e ∈ l.take n) :
    ∃ q, q < n ∧ ∃ h : q < l.length, l[q] = e := by
  rw [List.mem_take_iff_getElem] at he
  obtain ⟨j, hm, hj⟩ := he
  exact ⟨j, by omega, by omega, hj⟩

theorem mem_drop_idx {α} (l : List α) (n : Nat) (e : α) (he : e ∈ l.drop n) :
    ∃ q, n ≤ q ∧ ∃ h : q < l.length, l[q] = e := by
  rw [List.mem_drop_iff_getElem] at he
  obtain ⟨j, hm, hj⟩ := he
  exact ⟨n + j, by omega, by omega, hj⟩

/-! ### the bisection -/

theorem insRec_spec (l : FIdx) (k : Val) (h : Desc l) (hl : 2 ≤ l.length) :
    ∀ (n i j : Nat), j - i = n → i < j → j ≤ l.length →
      i ≤ insRec l k i j ∧ insRec l k i j ≤ j ∧
      (∀ p, i ≤ p → p < insRec l k i j → Val.lt (l.at p) k = false) ∧
      (∀ p, insRec l k i j ≤ p → p < j → Val.lt (l.at p) k = true) := by
  intro n
  induction n using Nat.strongRecOn with
  | _ n ih =>
    intro i j hn hij hj
    unfold insRec
    have h0 : ¬ l.length = 0 := by omega
    have h1 : ¬ l.length = 1 := by omega
    simp only [h0, h1, if_false]
    by_cases h2 : j - i = 1
    · simp only [h2, if_true]
      have hji : j = i + 1 := by omega
      cases hlt : Val.lt (l.at i) k with
      | true =>
        simp only [if_true]
        refine ⟨by omega, by omega, ?_, ?_⟩
        · intro p hp1 hp2; omega
        · intro p hp1 hp2
          have : p = i := by omega
          subst this; exact hlt
      | false =>
        simp only [Bool.false_eq_true, if_false]
        refine ⟨by omega, by omega, ?_, ?_⟩
        · intro p hp1 hp2
          have : p = i := by omega
          subst this; exact hlt
        · intro p hp1 hp2; omega
    · have h3 : ¬ j ≤ i := by omega
      simp only [h2, h3, if_false]
      have hpv1 : i < (j + 1 - i) / 2 + i := by omega
      have hpv2 : (j + 1 - i) / 2 + i < j := by omega
      generalize (j + 1 - i) / 2 + i = pv at hpv1 hpv2
      cases hlt : Val.lt (l.at pv) k with
      | true =>
        simp only [if_true]
        obtain ⟨a, b, c, d⟩ := ih (pv - i) (by omega) i pv rfl hpv1 (by omega)
        refine ⟨a, by omega, c, ?_⟩
        intro p hp1 hp2
        by_cases hpp : p < pv
        · exact d p hp1 hpp
        · by_cases hpe : p = pv
          · subst hpe; exact hlt
          · have hd := desc_at l h pv p (by omega) (by omega)
            cases hx : Val.lt (l.at p) k with
            | true => rfl
            | false =>
              have := Val.lt_ntrans hd hx
              rw [hlt] at this; cases this
      | false =>
        simp only [Bool.false_eq_true, if_false]
        obtain ⟨a, b, c, d⟩ := ih (j - pv) (by omega) pv j rfl hpv2 hj
        refine ⟨by omega, b, ?_, d⟩
        intro p hp1 hp2
        by_cases hpp : pv ≤ p
        · exact c p hpp hp2
        · have hd := desc_at l h p pv (by omega) (by omega)
          exact Val.lt_ntrans hd hlt

theorem insertionIndex_spec (l : FIdx) (k : Val) (h : Desc l) :
    insertionIndex l k ≤ l.length ∧
    (∀ p, p < insertionIndex l k → Val.lt (l.at p) k = false) ∧
    (∀ p, insertionIndex l k ≤ p → p < l.length → Val.lt (l.at p) k = true) := by
  by_cases hl : 2 ≤ l.length
  · obtain ⟨_, b, c, d⟩ := insRec_spec l k h hl l.length 0 l.length rfl (by omega) (Nat.le_refl _)
    exact ⟨b, fun p hp => c p (Nat.zero_le _) hp, d⟩
  · unfold insertionIndex insRec
    by_cases h0 : l.length = 0
    · simp only [h0, if_true]
      refine ⟨by omega, fun p hp => by omega, fun p _ hp => by omega⟩
    · have h1 : l.length = 1 := by omega
      simp only [h1, Nat.one_ne_zero, ↓reduceIte]
      cases hlt : Val.lt (l.at 0) k with
      | true =>
        simp only [if_true]
        refine ⟨by omega, fun p hp => by omega, fun p _ hp => ?_⟩
        have : p = 0 := by omega
        subst this; exact hlt
      | false =>
        simp only [Bool.false_eq_true, if_false]
        refine ⟨by omega, fun p hp => ?_, fun p _ hp => by omega⟩
        have : p = 0 := by omega
        subst this; exact hlt

theorem insertionIndex_take_drop (l : FIdx) (k : Val) (h : Desc l) :
    (∀ e ∈ l.take (insertionIndex l k), Val.lt e.1 k = false) ∧
    (∀ e ∈ l.drop (insertionIndex l k), Val.lt e.1 k = true) := by
  obtain ⟨_, b, c⟩ := insertionIndex_spec l k h
  constructor
  · intro e he
    obtain ⟨q, hq, hql, rfl⟩ := mem_take_idx l _ e he
    rw [← at_eq_getElem l q hql]; exact b q hq
  · intro e he
    obtain ⟨q, hq, hql, rfl⟩ := mem_drop_idx l _ e he
    rw [← at_eq_getElem l q hql]; exact c q hq hql

/-! ### a filter whose predicate is constant on windows of the list -/

theorem filter_eq_take {α} (l : List α) (P : α → Bool) (n : Nat)
    (h1 : ∀ e ∈ l.take n, P e = true) (h2 : ∀ e ∈ l.drop n, P e = false) :
    l.filter P = l.take n := by
  conv => lhs; rw [← List.take_append_drop n l]
  rw [List.filter_append, List.filter_eq_self.mpr h1,
    List.filter_eq_nil_iff.mpr (fun a ha => by simp [h2 a ha]), List.append_nil]

theorem filter_eq_drop {α} (l : List α) (P : α → Bool) (n : Nat)
    (h1 : ∀ e ∈ l.take n, P e = false) (h2 : ∀ e ∈ l.drop n, P e = true) :
    l.filter P = l.drop n := by
  conv => lhs; rw [← List.take_append_drop n l]
  rw [List.filter_append, List.filter_eq_self.mpr h2,
    List.filter_eq_nil_iff.mpr (fun a ha => by simp [h1 a ha]), List.nil_append]

theorem take_split {α} (l : List α) (lo hi : Nat) (hle : lo ≤ hi) :
    l.take hi = l.take lo ++ (l.take hi).drop lo := by
  conv => lhs; rw [← List.take_append_drop lo (l.take hi)]
  rw [List.take_take, Nat.min_eq_left hle]

theorem filter_eq_mid {α} (l : List α) (P : α → Bool) (lo hi : Nat) (hle : lo ≤ hi)
    (h1 : ∀ e ∈ l.take lo, P e = false) (h2 : ∀ e ∈ (l.take hi).drop lo, P e = true)
    (h3 : ∀ e ∈ l.drop hi, P e = false) :
    l.filter P = (l.take hi).drop lo := by
  conv => lhs; rw [← List.take_append_drop hi l, take_split l lo hi hle]
  rw [List.filter_append, List.filter_append, List.filter_eq_self.mpr h2,
    List.filter_eq_nil_iff.mpr (fun a ha => by simp [h1 a ha]),
    List.filter_eq_nil_iff.mpr (fun a ha => by simp [h3 a ha]), List.nil_append, List.append_nil]

theorem filter_eq_outer {α} (l : List α) (P : α → Bool) (lo hi : Nat) (hle : lo ≤ hi)
    (h1 : ∀ e ∈ l.take lo, P e = true) (h2 : ∀ e ∈ (l.take hi).drop lo, P e = false)
    (h3 : ∀ e ∈ l.drop hi, P e = true) :
    l.filter P = l.take lo ++ l.drop hi := by
  conv => lhs; rw [← List.take_append_drop hi l, take_split l lo hi hle]
  rw [List.filter_append, List.filter_append, List.filter_eq_self.mpr h1,
    List.filter_eq_self.mpr h3,
    List.filter_eq_nil_iff.mpr (fun a ha => by simp [h2 a ha]), List.append_nil]

/-! ### the backwards scans -/

theorem eqRunBack_spec (l : FIdx) (k : Val) (p : Nat) :
    eqRunBack l k p ≤ p ∧
    (∀ q, eqRunBack l k p ≤ q → q < p → Val.eq (l.at q) k = true) ∧
    (eqRunBack l k p = 0 ∨ Val.eq (l.at (eqRunBack l k p - 1)) k = false) := by
  induction p with
  | zero => simp [eqRunBack]
  | succ p ih =>
    unfold eqRunBack
    cases he : Val.eq (l.at p) k with
    | true =>
      simp only [if_true]
      obtain ⟨a, b, c⟩ := ih
      refine ⟨by omega, ?_, c⟩
      intro q hq1 hq2
      by_cases hqp : q = p
      · subst hqp; exact he
      · exact b q hq1 (by omega)
    | false =>
      simp only [Bool.false_eq_true, if_false]
      refine ⟨by omega, fun q hq1 hq2 => by omega, Or.inr ?_⟩
      simpa using he

theorem gtScan_spec (l : FIdx) (k : Val) (s : Nat) :
    gtScan l k s ≤ s ∧
    (∀ q, gtScan l k s ≤ q → q < s → Val.gt (l.at q) k = false) ∧
    (gtScan l k s = 0 ∨ Val.gt (l.at (gtScan l k s - 1)) k = true) := by
  induction s with
  | zero => simp [gtScan]
  | succ s ih =>
    unfold gtScan
    cases he : Val.gt (l.at s) k with
    | true =>
      simp only [if_true]
      refine ⟨by omega, fun q hq1 hq2 => by omega, Or.inr ?_⟩
      simpa using he
    | false =>
      simp only [Bool.false_eq_true, if_false]
      obtain ⟨a, b, c⟩ := ih
      refine ⟨by omega, ?_, c⟩
      intro q hq1 hq2
      by_cases hqp : q = s
      · subst hqp; exact he
      · exact b q hq1 (by omega)

/-- the three zones of a descending index around key `k`:
    `[0,lo)` greater, `[lo,hi)` equal, `[hi,len)` less -/
theorem rangeEqual_zones (l : FIdx) (k : Val) (h : Desc l) :
    (rangeEqual l k).1 ≤ (rangeEqual l k).2 ∧ (rangeEqual l k).2 ≤ l.length ∧
    (∀ q, q < (rangeEqual l k).1 → Val.lt (l.at q) k = false ∧ Val.eq (l.at q) k = false) ∧
    (∀ q, (rangeEqual l k).1 ≤ q → q < (rangeEqual l k).2 → Val.eq (l.at q) k = true) ∧
    (∀ q, (rangeEqual l k).2 ≤ q → q < l.length → Val.lt (l.at q) k = true) := by
  obtain ⟨a, b, c⟩ := insertionIndex_spec l k h
  obtain ⟨d, e, f⟩ := eqRunBack_spec l k (insertionIndex l k)
  simp only [rangeEqual]
  refine ⟨d, a, ?_, e, c⟩
  intro q hq
  refine ⟨b q (by omega), ?_⟩
  rcases f with f | f
  · omega
  · generalize eqRunBack l k (insertionIndex l k) = lo at *
    have hb := b (lo - 1) (by omega)
    by_cases hq' : q = lo - 1
    · subst hq'; exact f
    · have hd := desc_at l h q (lo - 1) (by omega) (by omega)
      cases hx : Val.eq (l.at q) k with
      | false => rfl
      | true =>
        rw [Val.eq_iff] at hx
        rw [hx] at hd
        have := Val.lt_total hb hd
        rw [← Val.eq_iff, f] at this; cases this

theorem eq_imp_not_lt {a k : Val} (h : Val.eq a k = true) : Val.lt a k = false := by
  rw [Val.eq_iff] at h; subst h; exact Val.lt_irrefl _

theorem lt_imp_not_eq {a k : Val} (h : Val.lt a k = true) : Val.eq a k = false := by
  cases hx : Val.eq a k with
  | false => rfl
  | true => rw [eq_imp_not_lt hx] at h; cases h

theorem gt_eq_not_lt_not_eq (a k : Val) : Val.gt a k = (!Val.lt a k && !Val.eq a k) := rfl

/-- zones lifted from positions to list windows -/
theorem zones_mem (l : FIdx) (k : Val) (h : Desc l) :
    (∀ e ∈ l.take (rangeEqual l k).1, Val.lt e.1 k = false ∧ Val.eq e.1 k = false) ∧
    (∀ e ∈ (l.take (rangeEqual l k).2).drop (rangeEqual l k).1, Val.eq e.1 k = true) ∧
    (∀ e ∈ l.drop (rangeEqual l k).2, Val.lt e.1 k = true) := by
  obtain ⟨_, _, z1, z2, z3⟩ := rangeEqual_zones l k h
  refine ⟨?_, ?_, ?_⟩
  · intro e he
    obtain ⟨q, hq, hql, rfl⟩ := mem_take_idx l _ e he
    rw [← at_eq_getElem l q hql]; exact z1 q hq
  · intro e he
    obtain ⟨q, hq1, hq2, hql, rfl⟩ := mem_slice l _ _ e he
    rw [← at_eq_getElem l q hql]; exact z2 q hq1 hq2
  · intro e he
    obtain ⟨q, hq, hql, rfl⟩ := mem_drop_idx l _ e he
    rw [← at_eq_getElem l q hql]; exact z3 q hq hql

/-! ### searches -/

theorem searchEq_filter (l : FIdx) (k : Val) (h : Desc l) :
    searchEq l k = l.filter (fun e => Val.eq e.1 k) := by
  obtain ⟨hle, _, _⟩ := rangeEqual_zones l k h
  obtain ⟨m1, m2, m3⟩ := zones_mem l k h
  unfold searchEq
  exact (filter_eq_mid l _ _ _ hle (fun e he => (m1 e he).2) m2
    (fun e he => lt_imp_not_eq (m3 e he))).symm

theorem searchNe_filter (l : FIdx) (k : Val) (h : Desc l) :
    searchNe l k = l.filter (fun e => !Val.eq e.1 k) := by
  obtain ⟨hle, _, _⟩ := rangeEqual_zones l k h
  obtain ⟨m1, m2, m3⟩ := zones_mem l k h
  unfold searchNe
  exact (filter_eq_outer l _ _ _ hle (fun e he => by simp [(m1 e he).2])
    (fun e he => by simp [m2 e he])
    (fun e he => by simp [lt_imp_not_eq (m3 e he)])).symm

theorem ge_eq_not_lt (a k : Val) : (Val.gt a k || Val.eq a k) = !Val.lt a k := by
  rw [gt_eq_not_lt_not_eq]
  cases hx : Val.eq a k with
  | true => simp [eq_imp_not_lt hx]
  | false => simp

theorem searchGe_filter (l : FIdx) (k : Val) (h : Desc l) :
    searchGe l k = l.filter (fun e => Val.gt e.1 k || Val.eq e.1 k) := by
  obtain ⟨t, d⟩ := insertionIndex_take_drop l k h
  have hf : l.filter (fun e => Val.gt e.1 k || Val.eq e.1 k) = l.take (insertionIndex l k) :=
    filter_eq_take l _ _ (fun e he => by rw [ge_eq_not_lt]; simp [t e he])
      (fun e he => by rw [ge_eq_not_lt]; simp [d e he])
  unfold searchGe
  rw [hf]
  by_cases hi : insertionIndex l k = 0
  · simp [hi]
  · simp [hi]

theorem searchLt_filter (l : FIdx) (k : Val) (h : Desc l) :
    searchLt l k = l.filter (fun e => Val.lt e.1 k) := by
  obtain ⟨t, d⟩ := insertionIndex_take_drop l k h
  obtain ⟨hle, _, _⟩ := insertionIndex_spec l k h
  have hf : l.filter (fun e => Val.lt e.1 k) = l.drop (insertionIndex l k) :=
    filter_eq_drop l _ _ t d
  unfold searchLt
  rw [hf]
  by_cases hi : insertionIndex l k + 1 > l.length
  · have : l.length ≤ insertionIndex l k := by omega
    simp [hi, List.drop_eq_nil_of_le this]
  · simp [hi]

/-- the cursor of `SearchGreater`/`SearchLessOrEqual` splits the list at the end of the
    strictly-greater prefix -/
theorem gtScan_zones (l : FIdx) (k : Val) (h : Desc l) :
    (∀ e ∈ l.take (gtScan l k (gtStart l k)), Val.gt e.1 k = true) ∧
    (∀ e ∈ l.drop (gtScan l k (gtStart l k)), Val.gt e.1 k = false) := by
  obtain ⟨a, b, c⟩ := insertionIndex_spec l k h
  obtain ⟨d, e, f⟩ := gtScan_spec l k (gtStart l k)
  have hs : gtStart l k ≤ l.length := by unfold gtStart; omega
  have hs' : ∀ q, gtStart l k ≤ q → q < l.length → insertionIndex l k ≤ q := by
    unfold gtStart; intro q h1 h2; omega
  generalize gtScan l k (gtStart l k) = c' at *
  constructor
  · intro x hx
    obtain ⟨q, hq, hql, rfl⟩ := mem_take_idx l _ x hx
    rw [← at_eq_getElem l q hql]
    rcases f with f | f
    · omega
    · by_cases hq' : q = c' - 1
      · subst hq'; exact f
      · have hd := desc_at l h q (c' - 1) (by omega) (by omega)
        rw [Val.gt_iff] at f ⊢
        cases hx : Val.lt k (l.at q) with
        | true => rfl
        | false =>
          have := Val.lt_ntrans hx hd
          rw [f] at this; cases this
  · intro x hx
    obtain ⟨q, hq, hql, rfl⟩ := mem_drop_idx l _ x hx
    rw [← at_eq_getElem l q hql]
    by_cases hq' : q < gtStart l k
    · exact e q hq hq'
    · have hlt := c q (hs' q (by omega) hql) hql
      cases hx : Val.gt (l.at q) k with
      | false => rfl
      | true =>
        rw [Val.gt_iff] at hx
        rw [Val.lt_asymm hx] at hlt; cases hlt

theorem searchGt_filter (l : FIdx) (k : Val) (h : Desc l) :
    searchGt l k = l.filter (fun e => Val.gt e.1 k) := by
  obtain ⟨t, d⟩ := gtScan_zones l k h
  unfold searchGt
  exact (filter_eq_take l _ _ t d).symm

theorem le_eq_not_gt (a k : Val) : (Val.lt a k || Val.eq a k) = !Val.gt a k := by
  rw [gt_eq_not_lt_not_eq]
  cases Val.lt a k <;> cases Val.eq a k <;> rfl

theorem searchLe_filter (l : FIdx) (k : Val) (h : Desc l) :
    searchLe l k = l.filter (fun e => Val.lt e.1 k || Val.eq e.1 k) := by
  obtain ⟨t, d⟩ := gtScan_zones l k h
  unfold searchLe
  exact (filter_eq_drop l _ _ (fun e he => by rw [le_eq_not_gt]; simp [t e he])
    (fun e he => by rw [le_eq_not_gt]; simp [d e he])).symm

theorem searchRe_filter (m : Matcher) (l : FIdx) (h : ∀ e ∈ l, e.1.tag = Tag.str) :
    searchRe m l = l.filter (fun e => match e.1 with | .str s => m s | _ => false) := by
  induction l with
  | nil => rfl
  | cons a t ih =>
    have iht := ih (fun e he => h e (List.mem_cons_of_mem _ he))
    have ha := h a List.mem_cons_self
    obtain ⟨v, o⟩ := a
    cases v with
    | str s =>
      unfold searchRe
      rw [iht]
      cases hm : m s <;> simp [hm]
    | i64 _ => simp [Val.tag] at ha
    | u64 _ => simp [Val.tag] at ha
    | f64 _ => simp [Val.tag] at ha

/-! ### insert -/

theorem insert_eq (l : FIdx) (e : Entry) (h : Desc l) :
    l.insert e = l.take (insertionIndex l e.1) ++ e :: l.drop (insertionIndex l e.1) := by
  obtain ⟨hle, _, _⟩ := insertionIndex_spec l e.1 h
  unfold FIdx.insert
  by_cases hi : insertionIndex l e.1 + 1 > l.length
  · have h1 : l.length ≤ insertionIndex l e.1 := by omega
    simp only [hi, if_true, List.take_of_length_le h1, List.drop_eq_nil_of_le h1]
  · simp only [hi, if_false]

theorem insert_eq_split (l : FIdx) (e : Entry) (h : Desc l) :
    l.insert e = l.filter (fun x => !Val.lt x.1 e.1) ++ e :: l.filter (fun x => Val.lt x.1 e.1) := by
  obtain ⟨t, d⟩ := insertionIndex_take_drop l e.1 h
  rw [insert_eq l e h,
    filter_eq_take l (fun x => !Val.lt x.1 e.1) (insertionIndex l e.1)
      (fun x hx => by simp [t x hx]) (fun x hx => by simp [d x hx]),
    filter_eq_drop l (fun x => Val.lt x.1 e.1) (insertionIndex l e.1) t d]

theorem insert_desc (l : FIdx) (e : Entry) (h : Desc l) : Desc (l.insert e) := by
  obtain ⟨t, d⟩ := insertionIndex_take_drop l e.1 h
  rw [insert_eq l e h]
  generalize insertionIndex l e.1 = i at t d
  have h' : Desc (l.take i ++ l.drop i) := by rw [List.take_append_drop]; exact h
  unfold Desc at h' ⊢
  rw [List.pairwise_append] at h' ⊢
  obtain ⟨p1, p2, p3⟩ := h'
  refine ⟨p1, ?_, ?_⟩
  · rw [List.pairwise_cons]
    exact ⟨fun y hy => Val.lt_asymm (d y hy), p2⟩
  · intro a ha b hb
    rcases List.mem_cons.mp hb with hb | hb
    · subst hb; exact t a ha
    · exact p3 a ha b hb

theorem insert_perm (l : FIdx) (e : Entry) (h : Desc l) : (l.insert e).Perm (e :: l) := by
  rw [insert_eq l e h]
  have := @List.perm_middle _ e (l.take (insertionIndex l e.1)) (l.drop (insertionIndex l e.1))
  rwa [List.take_append_drop] at this

/-! ### delete -/

theorem keyScan_spec (l : FIdx) (oid hi i : Nat) :
    ∀ (fuel s : Nat), s ≤ i → i < hi → hi ≤ s + fuel →
      (∀ q, s ≤ q → q < i → (l.getD q Entry.dflt).2 ≠ oid) →
      (l.getD i Entry.dflt).2 = oid →
      keyScan l oid hi s fuel = some i := by
  intro fuel
  induction fuel with
  | zero => intro s h1 h2 h3; omega
  | succ fuel ih =>
    intro s h1 h2 h3 h4 h5
    unfold keyScan
    have hs : s < hi := by omega
    simp only [hs, if_true]
    by_cases hsi : s = i
    · subst hsi; simp only [h5, beq_self_eq_true, if_true]
    · have hne := h4 s (Nat.le_refl _) (by omega)
      have : ((l.getD s Entry.dflt).2 == oid) = false := by simpa using hne
      simp only [this, Bool.false_eq_true, if_false]
      exact ih (s + 1) (by omega) h2 (by omega) (fun q hq1 hq2 => h4 q (by omega) hq2) h5

theorem searchKey_eq (l : FIdx) (e : Entry) :
    searchKey l e = keyScan l e.2 (rangeEqual l e.1).2 (rangeEqual l e.1).1
      ((rangeEqual l e.1).2 - (rangeEqual l e.1).1) := rfl

theorem eraseIdx_eq_filter (l : FIdx) (oid : Nat) (hn : (l.map (·.2)).Nodup) :
    ∀ (i : Nat) (hi : i < l.length), (l[i]).2 = oid →
      l.eraseIdx i = l.filter (fun e => e.2 != oid) := by
  induction l with
  | nil => intro i hi; simp at hi
  | cons a t ih =>
    rw [List.map_cons, List.nodup_cons] at hn
    obtain ⟨hna, hnt⟩ := hn
    intro i hi he
    cases i with
    | zero =>
      simp only [List.getElem_cons_zero] at he
      rw [List.eraseIdx_cons_zero, List.filter_cons]
      simp only [he, bne_self_eq_false, Bool.false_eq_true, if_false]
      symm
      rw [List.filter_eq_self]
      intro x hx
      have : x.2 ≠ oid := by
        intro hxo
        apply hna
        rw [he, ← hxo]
        exact List.mem_map_of_mem hx
      simpa using this
    | succ i =>
      simp only [List.getElem_cons_succ] at he
      have hi' : i < t.length := by simpa using hi
      have hao : a.2 ≠ oid := by
        intro hao
        apply hna
        rw [hao, ← he]
        exact List.mem_map_of_mem (List.getElem_mem hi')
      rw [List.eraseIdx_cons_succ, List.filter_cons, ih hnt i hi' he]
      have : (a.2 != oid) = true := by simpa using hao
      simp only [this, if_true]

theorem delete_spec (l : FIdx) (oid : Nat) (h : Desc l) (hn : (l.map (·.2)).Nodup)
    (hm : oid ∈ l.map (·.2)) :
    l.delete oid = l.filter (fun e => e.2 != oid) := by
  unfold FIdx.delete FIdx.byOid
  cases hfind : l.find? (fun e => e.2 == oid) with
  | none =>
    rw [List.find?_eq_none] at hfind
    obtain ⟨x, hx, hxo⟩ := List.mem_map.mp hm
    exact absurd (by simpa using hxo) (hfind x hx)
  | some e =>
    obtain ⟨pe, i, hi, hie, hbefore⟩ := List.find?_eq_some_iff_getElem.mp hfind
    have heo : e.2 = oid := by simpa using pe
    obtain ⟨hle, hhl, z1, z2, z3⟩ := rangeEqual_zones l e.1 h
    have hat : l.at i = e.1 := by rw [at_eq_getElem l i hi, hie]
    have heq : Val.eq (l.at i) e.1 = true := by rw [hat, Val.eq_iff]
    have hlo : (rangeEqual l e.1).1 ≤ i := by
      apply Nat.le_of_not_lt
      intro hlt
      have := (z1 i hlt).2
      rw [heq] at this; cases this
    have hhi : i < (rangeEqual l e.1).2 := by
      apply Nat.lt_of_not_le
      intro hge
      have := lt_imp_not_eq (z3 i hge hi)
      rw [heq] at this; cases this
    have hkey : searchKey l e = some i := by
      rw [searchKey_eq]
      apply keyScan_spec l e.2 _ i _ _ hlo hhi (by omega)
      · intro q hq1 hq2
        have hql : q < l.length := by omega
        rw [getD_eq_getElem' l q hql, heo]
        simpa using hbefore q hq2
      · rw [getD_eq_getElem' l i hi, hie]
    simp only [hkey]
    rw [eraseIdx_eq_filter l oid hn i hi (by rw [hie, heo])]

theorem delete_none (l : FIdx) (oid : Nat) (hm : oid ∉ l.map (·.2)) : l.delete oid = l := by
  unfold FIdx.delete FIdx.byOid
  have : l.find? (fun e => e.2 == oid) = none := by
    rw [List.find?_eq_none]
    intro x hx hxo
    apply hm
    have : x.2 = oid := by simpa using hxo
    rw [← this]
    exact List.mem_map_of_mem hx
  rw [this]

theorem filter_desc (l : FIdx) (p : Entry → Bool) (h : Desc l) : Desc (l.filter p) :=
  List.Pairwise.filter p h

/-! ### control -/

theorem control_iff (l : FIdx) : l.control = true ↔ Desc l := by
  induction l with
  | nil => simp [FIdx.control, Desc]
  | cons a t ih =>
    cases t with
    | nil => simp [FIdx.control, Desc]
    | cons b rest =>
      unfold FIdx.control
      rw [Bool.and_eq_true, ih]
      unfold Desc
      rw [List.pairwise_cons (a := a)]
      constructor
      · rintro ⟨h1, h2⟩
        refine ⟨?_, h2⟩
        have hab : Val.lt a.1 b.1 = false := by
          rcases Bool.or_eq_true_iff.mp h1 with h1 | h1
          · exact eq_imp_not_lt h1
          · exact Val.lt_asymm h1
        intro x hx
        rcases List.mem_cons.mp hx with hx | hx
        · subst hx; exact hab
        · exact Val.lt_ntrans hab ((List.pairwise_cons.mp h2).1 x hx)
      · rintro ⟨h1, h2⟩
        refine ⟨?_, h2⟩
        have hab := h1 b List.mem_cons_self
        cases hba : Val.lt b.1 a.1 with
        | true => simp
        | false =>
          have := Val.lt_total hab hba
          simp [Val.eq, this]

/-! ### constrain -/

theorem constrain_fold (l : FIdx) (fs : FIdx) :
    ∀ (acc : FIdx), Desc acc →
      Desc (fs.foldl (fun acc fi => match l.byOid fi.2 with
                                    | some e => acc.insert e
                                    | none => acc) acc) ∧
      (fs.foldl (fun acc fi => match l.byOid fi.2 with
                               | some e => acc.insert e
                               | none => acc) acc).Perm
        (acc ++ fs.filterMap (fun f => l.byOid f.2)) := by
  induction fs with
  | nil => intro acc h; simp [h]
  | cons f fs ih =>
    intro acc h
    rw [List.foldl_cons, List.filterMap_cons]
    cases hb : l.byOid f.2 with
    | none => exact ih acc h
    | some e =>
      obtain ⟨d, p⟩ := ih (acc.insert e) (insert_desc acc e h)
      refine ⟨d, p.trans ?_⟩
      have h1 := (insert_perm acc e h).append_right (fs.filterMap (fun f => l.byOid f.2))
      exact h1.trans (List.perm_middle (l₁ := acc)).symm

theorem constrain_desc (l fs : FIdx) : Desc (l.constrain fs) :=
  (constrain_fold l fs [] List.Pairwise.nil).1

theorem nodup_of_map_snd (l : FIdx) (hn : (l.map (·.2)).Nodup) : l.Nodup :=
  List.Pairwise.of_map (·.2) (fun a b h hab => h (by rw [hab])) hn

theorem snd_inj_of_nodup (l : FIdx) (hn : (l.map (·.2)).Nodup) {x y : Entry}
    (hx : x ∈ l) (hy : y ∈ l) (hxy : x.2 = y.2) : x = y := by
  induction l with
  | nil => cases hx
  | cons a t ih =>
    rw [List.map_cons, List.nodup_cons] at hn
    obtain ⟨hna, hnt⟩ := hn
    rcases List.mem_cons.mp hx with hx1 | hx1 <;> rcases List.mem_cons.mp hy with hy1 | hy1
    · rw [hx1, hy1]
    · subst hx1; exact absurd (hxy ▸ List.mem_map_of_mem hy1) hna
    · subst hy1; exact absurd (hxy ▸ List.mem_map_of_mem hx1) hna
    · exact ih hnt hx1 hy1

theorem byOid_eq_some_iff (l : FIdx) (hn : (l.map (·.2)).Nodup) (o : Nat) (e : Entry) :
    l.byOid o = some e ↔ e ∈ l ∧ e.2 = o := by
  unfold FIdx.byOid
  constructor
  · intro hf
    exact ⟨List.mem_of_find?_eq_some hf, by simpa using List.find?_some hf⟩
  · rintro ⟨hel, heo⟩
    cases hf : l.find? (fun e => e.2 == o) with
    | none =>
      rw [List.find?_eq_none] at hf
      exact absurd (by simpa using heo) (hf e hel)
    | some x =>
      have hxl := List.mem_of_find?_eq_some hf
      have hxo : x.2 = o := by simpa using List.find?_some hf
      congr 1
      exact snd_inj_of_nodup l hn hxl hel (by rw [hxo, heo])

theorem constrain_perm (l fs : FIdx) (hn : (l.map (·.2)).Nodup) (hf : (fs.map (·.2)).Nodup) :
    (l.constrain fs).Perm (l.filter (fun e => fs.any (fun f => f.2 == e.2))) := by
  have hp := (constrain_fold l fs [] List.Pairwise.nil).2
  rw [List.nil_append] at hp
  refine hp.trans ?_
  have hln : l.Nodup := nodup_of_map_snd l hn
  rw [List.perm_ext_iff_of_nodup ?_ (hln.filter _)]
  · intro e
    rw [List.mem_filterMap, List.mem_filter, List.any_eq_true]
    constructor
    · rintro ⟨f, hf1, hf2⟩
      rw [byOid_eq_some_iff l hn] at hf2
      exact ⟨hf2.1, f, hf1, by simp [hf2.2]⟩
    · rintro ⟨hel, f, hf1, hf2⟩
      refine ⟨f, hf1, ?_⟩
      rw [byOid_eq_some_iff l hn]
      exact ⟨hel, (by simpa using hf2 : f.2 = e.2).symm⟩
  · have : fs.filterMap (fun f => l.byOid f.2) = (fs.map (·.2)).filterMap (fun o => l.byOid o) := by
      rw [List.filterMap_map]; rfl
    rw [this]
    refine List.Pairwise.filterMap _ ?_ hf
    intro o o' hoo' b hb b' hb' hbb'
    rw [byOid_eq_some_iff l hn] at hb hb'
    apply hoo'
    rw [← hb.2, ← hb'.2, hbb']

/-! ### unique constraint -/

theorem satisfyUnique_iff (l : FIdx) (known : Option Nat) (v : Val) (h : Desc l)
    (hu : l.Pairwise (fun a b => a.1 ≠ b.1)) :
    l.satisfyUnique known v = true ↔ ∀ e ∈ l, e.1 = v → some e.2 = known := by
  unfold FIdx.satisfyUnique
  rw [searchEq_filter l v h]
  have hmem : ∀ e, e ∈ l.filter (fun e => Val.eq e.1 v) ↔ e ∈ l ∧ e.1 = v := by
    intro e; rw [List.mem_filter, Val.eq_iff]
  have hu' : (l.filter (fun e => Val.eq e.1 v)).Pairwise (fun a b => a.1 ≠ b.1) :=
    List.Pairwise.filter _ hu
  generalize l.filter (fun e => Val.eq e.1 v) = F at hmem hu'
  match F, hmem, hu' with
  | [], hmem, _ =>
    simp only [true_iff]
    intro e hel hev
    exact absurd ((hmem e).mpr ⟨hel, hev⟩) List.not_mem_nil
  | [x], hmem, _ =>
    have hx := (hmem x).mp List.mem_cons_self
    cases known with
    | none =>
      simp only [Bool.false_eq_true, false_iff]
      intro hall
      exact absurd (hall x hx.1 hx.2) (by simp)
    | some oid =>
      simp only [beq_iff_eq]
      constructor
      · intro hxo e hel hev
        have := (hmem e).mpr ⟨hel, hev⟩
        rw [List.mem_singleton] at this
        rw [this, hxo]
      · intro hall
        exact Option.some.inj (hall x hx.1 hx.2)
  | x :: y :: rest, hmem, hu' =>
    exfalso
    have hx := (hmem x).mp List.mem_cons_self
    have hy := (hmem y).mp (List.mem_cons_of_mem _ List.mem_cons_self)
    have := (List.pairwise_cons.mp hu').1 y List.mem_cons_self
    exact this (by rw [hx.2, hy.2])

end Sod
