/-
  ObjIndex.lean — the object index (`object_index.go`): well-formedness is established by
  `new`, preserved by `insertOrUpdate` / `deleteByUUID` / `reload`; uniqueness is enforced
  exactly (C03); the index reflects the stored objects and a search returns exactly the
  matching objects (C02) in index order (C13); oids are stable within a handle (C20).
-/
import SodModel.DB
import Proofs.FieldIndex
namespace Sod

/-- one field index is well formed w.r.t. the id table -/
structure FieldWF (ix : ObjIndex) (fi : FieldIdx) : Prop where
  desc  : Desc fi.idx
  oids  : (fi.idx.map (·.2)).Perm (ix.ids.map (·.1))
  homog : ∀ e ∈ fi.idx, e.1.tag = fi.cast
  uniq  : fi.cons.unique = true → fi.idx.Pairwise (fun a b => a.1 ≠ b.1)

structure ObjIndex.WF (ix : ObjIndex) : Prop where
  oidNodup  : (ix.ids.map (·.1)).Nodup
  uuidNodup : (ix.ids.map (·.2)).Nodup
  ltNext    : ∀ p ∈ ix.ids, p.1 < ix.next
  fields    : ∀ fi ∈ ix.fields, FieldWF ix fi

/-- the object has a value of the right kind for every indexed field (guaranteed by Go's type system) -/
def Obj.Typed (ix : ObjIndex) (o : Obj) : Prop :=
  ∀ fi ∈ ix.fields, ∃ v, o.field fi.pos = .v v ∧ v.tag = fi.cast

/-- the index reflects a store of objects `objs : uuid → Option Obj`: an entry (value, oid) is in a
    field index iff oid is the id of a stored object whose field has that value -/
def Reflects (ix : ObjIndex) (objs : Nat → Option Obj) : Prop :=
  (∀ p ∈ ix.ids, ∃ o, objs p.2 = some o ∧ o.uuid = p.2) ∧
  ∀ fi ∈ ix.fields, ∀ e : Entry, e ∈ fi.idx ↔ ∃ u o, (e.2, u) ∈ ix.ids ∧ objs u = some o ∧ o.field fi.pos = .v e.1

/-! ### the `Res` monad -/

theorem Res.bind_ok {α β} (a : α) (f : α → Res β) : (Res.ok a >>= f) = f a := rfl
theorem Res.bind_err {α β} (e : Err) (f : α → Res β) : (Res.err e >>= f) = Res.err e := rfl
theorem Res.bind_panic {α β} (f : α → Res β) : ((Res.panic : Res α) >>= f) = Res.panic := rfl
theorem Res.pure_eq {α} (a : α) : (pure a : Res α) = Res.ok a := rfl

/-! ### generic list facts -/

theorem inj_of_nodup_map {α β} (f : α → β) : ∀ (l : List α), (l.map f).Nodup →
    ∀ {x y : α}, x ∈ l → y ∈ l → f x = f y → x = y := by
  intro l
  induction l with
  | nil => intro _ x y hx; cases hx
  | cons a t ih =>
    intro hn x y hx hy hxy
    rw [List.map_cons, List.nodup_cons] at hn
    obtain ⟨hna, hnt⟩ := hn
    rcases List.mem_cons.mp hx with hx1 | hx1 <;> rcases List.mem_cons.mp hy with hy1 | hy1
    · rw [hx1, hy1]
    · subst hx1; exact absurd (hxy ▸ List.mem_map_of_mem hy1) hna
    · subst hy1; exact absurd (hxy ▸ List.mem_map_of_mem hx1) hna
    · exact ih hnt hx1 hy1 hxy

theorem perm_cons_filter_ne {l : List Nat} (hn : l.Nodup) {a : Nat} (hm : a ∈ l) :
    (a :: l.filter (· != a)).Perm l := by
  rw [List.perm_ext_iff_of_nodup ?_ hn]
  · intro x
    rw [List.mem_cons, List.mem_filter]
    constructor
    · rintro (rfl | ⟨h, _⟩)
      · exact hm
      · exact h
    · intro hx
      by_cases hxa : x = a
      · exact Or.inl hxa
      · exact Or.inr ⟨hx, by simpa using hxa⟩
  · rw [List.nodup_cons]
    refine ⟨?_, hn.filter _⟩
    rw [List.mem_filter]
    rintro ⟨_, h⟩
    simp at h

theorem map_snd_filter_ne (l : FIdx) (oid : Nat) :
    (l.filter (fun e => e.2 != oid)).map (·.2) = (l.map (·.2)).filter (· != oid) := by
  rw [List.filter_map]; rfl

theorem map_fst_filter_ne (l : List (Nat × Nat)) (oid : Nat) :
    (l.filter (fun p => p.1 != oid)).map (·.1) = (l.map (·.1)).filter (· != oid) := by
  rw [List.filter_map]; rfl

theorem mem_insert_iff {l : FIdx} (hd : Desc l) (e x : Entry) : x ∈ l.insert e ↔ x = e ∨ x ∈ l := by
  rw [(insert_perm l e hd).mem_iff, List.mem_cons]

/-! ### the id table -/

theorem oidOf_mem {ix : ObjIndex} {u oid : Nat} (h : ix.oidOf u = some oid) : (oid, u) ∈ ix.ids := by
  unfold ObjIndex.oidOf at h
  cases hf : ix.ids.find? (fun p => p.2 == u) with
  | none => rw [hf] at h; cases h
  | some p =>
    rw [hf] at h
    have h1 := List.mem_of_find?_eq_some hf
    have h2 : p.2 = u := by simpa using List.find?_some hf
    have h3 : p.1 = oid := by simpa using h
    obtain ⟨a, b⟩ := p
    simp only at h2 h3
    subst h2 h3
    exact h1

theorem uuidOf_mem {ix : ObjIndex} {u oid : Nat} (h : ix.uuidOf oid = some u) : (oid, u) ∈ ix.ids := by
  unfold ObjIndex.uuidOf at h
  cases hf : ix.ids.find? (fun p => p.1 == oid) with
  | none => rw [hf] at h; cases h
  | some p =>
    rw [hf] at h
    have h1 := List.mem_of_find?_eq_some hf
    have h2 : p.1 = oid := by simpa using List.find?_some hf
    have h3 : p.2 = u := by simpa using h
    obtain ⟨a, b⟩ := p
    simp only at h2 h3
    subst h2 h3
    exact h1

theorem oidOf_none_iff {ix : ObjIndex} {u : Nat} : ix.oidOf u = none ↔ u ∉ ix.uuids := by
  unfold ObjIndex.oidOf ObjIndex.uuids
  rw [Option.map_eq_none_iff, List.find?_eq_none, List.mem_map]
  constructor
  · rintro h ⟨p, hp, hpu⟩
    exact h p hp (by simpa using hpu)
  · intro h p hp hpu
    exact h ⟨p, hp, by simpa using hpu⟩

theorem uuidOf_none_iff {ix : ObjIndex} {oid : Nat} : ix.uuidOf oid = none ↔ oid ∉ ix.ids.map (·.1) := by
  unfold ObjIndex.uuidOf
  rw [Option.map_eq_none_iff, List.find?_eq_none, List.mem_map]
  constructor
  · rintro h ⟨p, hp, hpu⟩
    exact h p hp (by simpa using hpu)
  · intro h p hp hpu
    exact h ⟨p, hp, by simpa using hpu⟩

theorem oidOf_of_mem {ix : ObjIndex} (hn : (ix.ids.map (·.2)).Nodup) {u oid : Nat}
    (hm : (oid, u) ∈ ix.ids) : ix.oidOf u = some oid := by
  cases h : ix.oidOf u with
  | none => exact absurd (List.mem_map.mpr ⟨(oid, u), hm, rfl⟩) (oidOf_none_iff.mp h)
  | some oid' =>
    have h1 := oidOf_mem h
    have h2 := inj_of_nodup_map (·.2) _ hn h1 hm rfl
    rw [(Prod.mk.inj h2).1]

theorem uuidOf_of_mem {ix : ObjIndex} (hn : (ix.ids.map (·.1)).Nodup) {u oid : Nat}
    (hm : (oid, u) ∈ ix.ids) : ix.uuidOf oid = some u := by
  cases h : ix.uuidOf oid with
  | none => exact absurd (List.mem_map.mpr ⟨(oid, u), hm, rfl⟩) (uuidOf_none_iff.mp h)
  | some u' =>
    have h1 := uuidOf_mem h
    have h2 := inj_of_nodup_map (·.1) _ hn h1 hm rfl
    rw [(Prod.mk.inj h2).2]

theorem oidOf_iff_uuidOf {ix : ObjIndex} (h : ix.WF) (u oid : Nat) :
    ix.oidOf u = some oid ↔ ix.uuidOf oid = some u :=
  ⟨fun h1 => uuidOf_of_mem h.oidNodup (oidOf_mem h1), fun h1 => oidOf_of_mem h.uuidNodup (uuidOf_mem h1)⟩

/-- two rows of the id table with the same uuid have the same oid -/
theorem ids_oid_eq {ix : ObjIndex} (h : ix.WF) {a b u : Nat} (ha : (a, u) ∈ ix.ids) (hb : (b, u) ∈ ix.ids) :
    a = b :=
  (Prod.mk.inj (inj_of_nodup_map (·.2) _ h.uuidNodup ha hb rfl)).1

/-- two rows of the id table with the same oid have the same uuid -/
theorem ids_uuid_eq {ix : ObjIndex} (h : ix.WF) {a u w : Nat} (ha : (a, u) ∈ ix.ids) (hb : (a, w) ∈ ix.ids) :
    u = w :=
  (Prod.mk.inj (inj_of_nodup_map (·.1) _ h.oidNodup ha hb rfl)).2

/-! ### the per-field loops as maps -/

/-- the value `fieldVal` reads (junk on an opaque leaf) -/
def valOf (fi : FieldIdx) (o : Obj) : Val :=
  match o.field fi.pos with
  | .v x => x
  | .opaque _ => Val.zero fi.cast

def HasVal (o : Obj) (fs : List FieldIdx) : Prop := ∀ fi ∈ fs, ∃ v, o.field fi.pos = .v v

theorem Obj.Typed.hasVal {ix : ObjIndex} {o : Obj} (ht : o.Typed ix) : HasVal o ix.fields := by
  intro fi hfi
  obtain ⟨v, hv, _⟩ := ht fi hfi
  exact ⟨v, hv⟩

theorem valOf_eq {fi : FieldIdx} {o : Obj} {v : Val} (h : o.field fi.pos = .v v) : valOf fi o = v := by
  unfold valOf; rw [h]

theorem field_valOf {fi : FieldIdx} {o : Obj} (h : ∃ v, o.field fi.pos = .v v) :
    o.field fi.pos = .v (valOf fi o) := by
  obtain ⟨v, hv⟩ := h
  rw [valOf_eq hv, hv]

theorem Obj.Typed.valOf_tag {ix : ObjIndex} {o : Obj} (ht : o.Typed ix) {fi : FieldIdx} (hfi : fi ∈ ix.fields) :
    (valOf fi o).tag = fi.cast := by
  obtain ⟨v, hv, htag⟩ := ht fi hfi
  rw [valOf_eq hv, htag]

theorem fieldVal_eq {fi : FieldIdx} {o : Obj} (h : ∃ v, o.field fi.pos = .v v) :
    ObjIndex.fieldVal fi o = .ok (valOf fi o) := by
  obtain ⟨v, hv⟩ := h
  unfold ObjIndex.fieldVal
  rw [valOf_eq hv, hv]

theorem fieldVal_ok {fi : FieldIdx} {o : Obj} {v : Val} (h : ObjIndex.fieldVal fi o = .ok v) :
    o.field fi.pos = .v v := by
  unfold ObjIndex.fieldVal at h
  cases hf : o.field fi.pos with
  | v x => rw [hf] at h; injection h with h; rw [h]
  | «opaque» s => rw [hf] at h; cases h

theorem insertFields_eq {o : Obj} {oid : Nat} : ∀ {fs : List FieldIdx}, HasVal o fs →
    ObjIndex.insertFields o oid fs =
      .ok (fs.map (fun fi => { fi with idx := fi.idx.insert (valOf fi o, oid) })) := by
  intro fs
  induction fs with
  | nil => intro _; rfl
  | cons fi rest ih =>
    intro h
    unfold ObjIndex.insertFields
    rw [fieldVal_eq (h fi List.mem_cons_self), ih (fun f hf => h f (List.mem_cons_of_mem _ hf))]
    rfl

theorem insertFields_hasVal {o : Obj} {oid : Nat} : ∀ {fs fs' : List FieldIdx},
    ObjIndex.insertFields o oid fs = .ok fs' → HasVal o fs := by
  intro fs
  induction fs with
  | nil => intro _ _ fi hfi; cases hfi
  | cons fi rest ih =>
    intro fs' h
    unfold ObjIndex.insertFields at h
    cases hv : ObjIndex.fieldVal fi o with
    | ok v =>
      rw [hv] at h
      cases hr : ObjIndex.insertFields o oid rest with
      | ok r =>
        intro f hf
        rcases List.mem_cons.mp hf with rfl | hf
        · exact ⟨v, fieldVal_ok hv⟩
        · exact ih hr f hf
      | err e => rw [hr] at h; cases h
      | panic => rw [hr] at h; cases h
    | err e => rw [hv] at h; cases h
    | panic => rw [hv] at h; cases h

theorem updateFields_eq {o : Obj} {oid : Nat} : ∀ {fs : List FieldIdx}, HasVal o fs →
    ObjIndex.updateFields o oid fs =
      .ok (fs.map (fun fi => { fi with idx := fi.idx.update (valOf fi o) oid })) := by
  intro fs
  induction fs with
  | nil => intro _; rfl
  | cons fi rest ih =>
    intro h
    unfold ObjIndex.updateFields
    rw [fieldVal_eq (h fi List.mem_cons_self), ih (fun f hf => h f (List.mem_cons_of_mem _ hf))]
    rfl

theorem updateFields_hasVal {o : Obj} {oid : Nat} : ∀ {fs fs' : List FieldIdx},
    ObjIndex.updateFields o oid fs = .ok fs' → HasVal o fs := by
  intro fs
  induction fs with
  | nil => intro _ _ fi hfi; cases hfi
  | cons fi rest ih =>
    intro fs' h
    unfold ObjIndex.updateFields at h
    cases hv : ObjIndex.fieldVal fi o with
    | ok v =>
      rw [hv] at h
      cases hr : ObjIndex.updateFields o oid rest with
      | ok r =>
        intro f hf
        rcases List.mem_cons.mp hf with rfl | hf
        · exact ⟨v, fieldVal_ok hv⟩
        · exact ih hr f hf
      | err e => rw [hr] at h; cases h
      | panic => rw [hr] at h; cases h
    | err e => rw [hv] at h; cases h
    | panic => rw [hv] at h; cases h

/-- the uniqueness loop: with a value for every field it either accepts (every unique field is
    satisfied) or answers `ErrUnique` (some unique field is not) -/
theorem satisfyGo_spec {o : Obj} {known : Option Nat} : ∀ {fs : List FieldIdx}, HasVal o fs →
    (ObjIndex.satisfyAll.go o known fs = .ok () ∧
        ∀ fi ∈ fs, fi.cons.unique = true → fi.idx.satisfyUnique known (valOf fi o) = true) ∨
    (ObjIndex.satisfyAll.go o known fs = .err .unique ∧
        ∃ fi ∈ fs, fi.cons.unique = true ∧ fi.idx.satisfyUnique known (valOf fi o) = false) := by
  intro fs
  induction fs with
  | nil =>
    intro _
    left
    exact ⟨rfl, fun fi hfi => by cases hfi⟩
  | cons fi rest ih =>
    intro h
    rw [ObjIndex.satisfyAll.go.eq_2, fieldVal_eq (h fi List.mem_cons_self)]
    simp only
    cases hu : fi.cons.unique with
    | false =>
      simp only [Bool.false_and, Bool.false_eq_true, if_false]
      rcases ih (fun f hf => h f (List.mem_cons_of_mem _ hf)) with ⟨h1, h2⟩ | ⟨h1, f, hf, h2⟩
      · left
        refine ⟨h1, ?_⟩
        intro f hf hfu
        rcases List.mem_cons.mp hf with rfl | hf
        · rw [hu] at hfu; cases hfu
        · exact h2 f hf hfu
      · right
        exact ⟨h1, f, List.mem_cons_of_mem _ hf, h2⟩
    | true =>
      cases hs : fi.idx.satisfyUnique known (valOf fi o) with
      | false =>
        simp only [Bool.not_false, Bool.and_self, if_true]
        right
        exact ⟨trivial, fi, List.mem_cons_self, hu, hs⟩
      | true =>
        simp only [Bool.not_true, Bool.and_false, Bool.false_eq_true, if_false]
        rcases ih (fun f hf => h f (List.mem_cons_of_mem _ hf)) with ⟨h1, h2⟩ | ⟨h1, f, hf, h2⟩
        · left
          refine ⟨h1, ?_⟩
          intro f hf hfu
          rcases List.mem_cons.mp hf with rfl | hf
          · exact hs
          · exact h2 f hf hfu
        · right
          exact ⟨h1, f, List.mem_cons_of_mem _ hf, h2⟩

/-! ### inversion of `insertOrUpdate` -/

theorem insertOrUpdate_of_err {ix : ObjIndex} {o : Obj} {e : Err} (h : ix.satisfyAll o = .err e) :
    ix.insertOrUpdate o = .err e := by
  unfold ObjIndex.insertOrUpdate
  rw [h]; rfl

/-- the index `insertOrUpdate` builds for a known object -/
def updIx (ix : ObjIndex) (o : Obj) (oid : Nat) : ObjIndex :=
  { ix with fields := ix.fields.map (fun fi => { fi with idx := fi.idx.update (valOf fi o) oid }) }

/-- the index `insertOrUpdate` builds for a new object -/
def insIx (ix : ObjIndex) (o : Obj) : ObjIndex :=
  { next := ix.next + 1, ids := ix.ids ++ [(ix.next, o.uuid)],
    fields := ix.fields.map (fun fi => { fi with idx := fi.idx.insert (valOf fi o, ix.next) }) }

theorem insertOrUpdate_of_ok {ix : ObjIndex} {o : Obj} (ht : HasVal o ix.fields) (h : ix.satisfyAll o = .ok ()) :
    ix.insertOrUpdate o = .ok (match ix.oidOf o.uuid with
                               | some oid => updIx ix o oid
                               | none => insIx ix o) := by
  unfold ObjIndex.insertOrUpdate
  rw [h, Res.bind_ok]
  cases ix.oidOf o.uuid with
  | some oid => simp only [updateFields_eq ht, Res.bind_ok, Res.pure_eq, updIx]
  | none => simp only [insertFields_eq ht, Res.bind_ok, Res.pure_eq, insIx]

theorem insertOrUpdate_inv {ix ix' : ObjIndex} {o : Obj} (hr : ix.insertOrUpdate o = .ok ix') :
    ix.satisfyAll o = .ok () ∧ HasVal o ix.fields ∧
    ((∃ oid, ix.oidOf o.uuid = some oid ∧ ix' = updIx ix o oid) ∨
     (ix.oidOf o.uuid = none ∧ ix' = insIx ix o)) := by
  cases hs : ix.satisfyAll o with
  | err e => rw [insertOrUpdate_of_err hs] at hr; cases hr
  | panic =>
    unfold ObjIndex.insertOrUpdate at hr
    rw [hs] at hr; cases hr
  | ok u =>
    have hr0 := hr
    unfold ObjIndex.insertOrUpdate at hr
    rw [hs, Res.bind_ok] at hr
    have hv : HasVal o ix.fields := by
      cases ho : ix.oidOf o.uuid with
      | some oid =>
        rw [ho] at hr
        simp only at hr
        cases hf : ObjIndex.updateFields o oid ix.fields with
        | ok fs => exact updateFields_hasVal hf
        | err e => rw [hf] at hr; cases hr
        | panic => rw [hf] at hr; cases hr
      | none =>
        rw [ho] at hr
        simp only at hr
        cases hf : ObjIndex.insertFields o ix.next ix.fields with
        | ok fs => exact insertFields_hasVal hf
        | err e => rw [hf] at hr; cases hr
        | panic => rw [hf] at hr; cases hr
    refine ⟨rfl, hv, ?_⟩
    rw [insertOrUpdate_of_ok hv hs] at hr0
    injection hr0 with hr0
    cases ho : ix.oidOf o.uuid with
    | some oid => rw [ho] at hr0; exact Or.inl ⟨oid, rfl, hr0.symm⟩
    | none => rw [ho] at hr0; exact Or.inr ⟨rfl, hr0.symm⟩

theorem satisfyAll_spec {ix : ObjIndex} {o : Obj} (ht : HasVal o ix.fields) :
    (ix.satisfyAll o = .ok () ∧
        ∀ fi ∈ ix.fields, fi.cons.unique = true → fi.idx.satisfyUnique (ix.oidOf o.uuid) (valOf fi o) = true) ∨
    (ix.satisfyAll o = .err .unique ∧
        ∃ fi ∈ ix.fields, fi.cons.unique = true ∧ fi.idx.satisfyUnique (ix.oidOf o.uuid) (valOf fi o) = false) :=
  satisfyGo_spec ht

/-! ### field-level preservation -/

theorem FieldWF.nodup {ix : ObjIndex} {fi : FieldIdx} (hw : FieldWF ix fi) (hn : (ix.ids.map (·.1)).Nodup) :
    (fi.idx.map (·.2)).Nodup :=
  hw.oids.nodup_iff.mpr hn

theorem FieldWF.delete_eq {ix : ObjIndex} {fi : FieldIdx} (hw : FieldWF ix fi) (hn : (ix.ids.map (·.1)).Nodup)
    {oid : Nat} (hm : oid ∈ ix.ids.map (·.1)) : fi.idx.delete oid = fi.idx.filter (fun e => e.2 != oid) :=
  delete_spec fi.idx oid hw.desc (hw.nodup hn) (hw.oids.mem_iff.mpr hm)

theorem fieldWF_mk_insert {ix' : ObjIndex} {fi : FieldIdx} {l : FIdx} {v : Val} {oid : Nat}
    (hd : Desc l) (hp : (oid :: l.map (·.2)).Perm (ix'.ids.map (·.1)))
    (hh : ∀ e ∈ l, e.1.tag = fi.cast) (hv : v.tag = fi.cast)
    (hu : fi.cons.unique = true → l.Pairwise (fun a b => a.1 ≠ b.1) ∧ ∀ e ∈ l, e.1 ≠ v) :
    FieldWF ix' { fi with idx := l.insert (v, oid) } := by
  have hperm := insert_perm l (v, oid) hd
  refine ⟨insert_desc l _ hd, ?_, ?_, ?_⟩
  · exact (hperm.map (fun x : Entry => x.2)).trans hp
  · intro e he
    rcases List.mem_cons.mp (hperm.mem_iff.mp he) with rfl | he
    · exact hv
    · exact hh e he
  · intro hq
    obtain ⟨h1, h2⟩ := hu hq
    refine (hperm.pairwise_iff (fun h => Ne.symm h)).mpr ?_
    exact List.pairwise_cons.mpr ⟨fun e he => (h2 e he).symm, h1⟩

theorem fieldWF_update {ix ix' : ObjIndex} {fi : FieldIdx} (hw : FieldWF ix fi)
    (hn : (ix.ids.map (·.1)).Nodup) {oid : Nat} (hm : oid ∈ ix.ids.map (·.1))
    {v : Val} (hv : v.tag = fi.cast)
    (hu : fi.cons.unique = true → ∀ e ∈ fi.idx, e.1 = v → e.2 = oid) (hids : ix'.ids = ix.ids) :
    FieldWF ix' { fi with idx := fi.idx.update v oid } := by
  unfold FIdx.update
  rw [hw.delete_eq hn hm]
  apply fieldWF_mk_insert (filter_desc _ _ hw.desc)
  · rw [hids, map_snd_filter_ne]
    exact (perm_cons_filter_ne (hw.nodup hn) (hw.oids.mem_iff.mpr hm)).trans hw.oids
  · intro e he
    exact hw.homog e (List.mem_filter.mp he).1
  · exact hv
  · intro hq
    refine ⟨List.Pairwise.filter _ (hw.uniq hq), ?_⟩
    intro e he hev
    obtain ⟨he1, he2⟩ := List.mem_filter.mp he
    have := hu hq e he1 hev
    simp [this] at he2

theorem fieldWF_delete {ix ix' : ObjIndex} {fi : FieldIdx} (hw : FieldWF ix fi)
    (hn : (ix.ids.map (·.1)).Nodup) {oid : Nat} (hm : oid ∈ ix.ids.map (·.1))
    (hids : ix'.ids = ix.ids.filter (fun p => p.1 != oid)) :
    FieldWF ix' { fi with idx := fi.idx.delete oid } := by
  rw [hw.delete_eq hn hm]
  refine ⟨filter_desc _ _ hw.desc, ?_, ?_, ?_⟩
  · rw [hids, map_snd_filter_ne, map_fst_filter_ne]
    exact hw.oids.filter _
  · intro e he
    exact hw.homog e (List.mem_filter.mp he).1
  · intro hq
    exact List.Pairwise.filter _ (hw.uniq hq)

/-- `FieldWF` only looks at the id table -/
theorem FieldWF.congr {ix ix' : ObjIndex} {fi : FieldIdx} (hw : FieldWF ix fi) (hids : ix'.ids = ix.ids) :
    FieldWF ix' fi :=
  ⟨hw.desc, by rw [hids]; exact hw.oids, hw.homog, hw.uniq⟩

/-! ### A. construction and preservation -/

theorem new_go_idx (ds : List FieldDesc) : ∀ (pos : Nat), ∀ fi ∈ ObjIndex.new.go ds pos, fi.idx = [] := by
  induction ds with
  | nil => intro pos fi hfi; cases hfi
  | cons d rest ih =>
    intro pos fi hfi
    unfold ObjIndex.new.go at hfi
    split at hfi
    · rcases List.mem_cons.mp hfi with rfl | hfi
      · rfl
      · exact ih _ fi hfi
    · exact ih _ fi hfi

theorem new_wf (descs : List FieldDesc) : (ObjIndex.new descs).WF := by
  refine ⟨List.nodup_nil, List.nodup_nil, fun p hp => absurd hp List.not_mem_nil, ?_⟩
  intro fi hfi
  have hi : fi.idx = [] := new_go_idx descs 0 fi hfi
  refine ⟨?_, ?_, ?_, ?_⟩
  · rw [hi]; exact List.Pairwise.nil
  · rw [hi]; exact List.Perm.nil
  · rw [hi]; intro e he; cases he
  · rw [hi]; intro _; exact List.Pairwise.nil

theorem insIx_wf {ix : ObjIndex} {o : Obj} (h : ix.WF) (ht : o.Typed ix)
    (hs : ∀ fi ∈ ix.fields, fi.cons.unique = true → fi.idx.satisfyUnique (ix.oidOf o.uuid) (valOf fi o) = true)
    (ho : ix.oidOf o.uuid = none) : (insIx ix o).WF := by
  have hnu := oidOf_none_iff.mp ho
  have hno : ix.next ∉ ix.ids.map (·.1) := by
    intro hm
    obtain ⟨p, hp, hpe⟩ := List.mem_map.mp hm
    have := h.ltNext p hp
    omega
  refine ⟨?_, ?_, ?_, ?_⟩
  · show ((ix.ids ++ [(ix.next, o.uuid)]).map (·.1)).Nodup
    rw [List.map_append, List.nodup_append]
    refine ⟨h.oidNodup, by simp, ?_⟩
    intro a ha b hb hab
    simp only [List.map_cons, List.map_nil, List.mem_singleton] at hb
    subst hab; subst hb; exact hno ha
  · show ((ix.ids ++ [(ix.next, o.uuid)]).map (·.2)).Nodup
    rw [List.map_append, List.nodup_append]
    refine ⟨h.uuidNodup, by simp, ?_⟩
    intro a ha b hb hab
    simp only [List.map_cons, List.map_nil, List.mem_singleton] at hb
    subst hab; subst hb; exact hnu ha
  · intro p hp
    show p.1 < ix.next + 1
    rcases List.mem_append.mp hp with hp | hp
    · have := h.ltNext p hp; omega
    · rw [List.mem_singleton] at hp; subst hp; simp
  · intro fi' hfi'
    obtain ⟨fi, hfi, rfl⟩ := List.mem_map.mp hfi'
    have hw := h.fields fi hfi
    apply fieldWF_mk_insert hw.desc
    · show (ix.next :: fi.idx.map (·.2)).Perm ((ix.ids ++ [(ix.next, o.uuid)]).map (·.1))
      rw [List.map_append]
      exact ((List.perm_append_singleton _ _).trans (hw.oids.symm.cons _)).symm
    · exact hw.homog
    · exact ht.valOf_tag hfi
    · intro hq
      refine ⟨hw.uniq hq, ?_⟩
      intro e he hev
      have := (satisfyUnique_iff fi.idx _ _ hw.desc (hw.uniq hq)).mp (hs fi hfi hq) e he hev
      rw [ho] at this; cases this

theorem updIx_wf {ix : ObjIndex} {o : Obj} (h : ix.WF) (ht : o.Typed ix)
    (hs : ∀ fi ∈ ix.fields, fi.cons.unique = true → fi.idx.satisfyUnique (ix.oidOf o.uuid) (valOf fi o) = true)
    {oid : Nat} (ho : ix.oidOf o.uuid = some oid) : (updIx ix o oid).WF := by
  have hmem := oidOf_mem ho
  have hm : oid ∈ ix.ids.map (·.1) := List.mem_map.mpr ⟨_, hmem, rfl⟩
  refine ⟨h.oidNodup, h.uuidNodup, h.ltNext, ?_⟩
  intro fi' hfi'
  obtain ⟨fi, hfi, rfl⟩ := List.mem_map.mp hfi'
  have hw := h.fields fi hfi
  apply fieldWF_update (ix' := updIx ix o oid) hw h.oidNodup hm (ht.valOf_tag hfi) _ rfl
  intro hq e he hev
  have := (satisfyUnique_iff fi.idx _ _ hw.desc (hw.uniq hq)).mp (hs fi hfi hq) e he hev
  rw [ho] at this
  exact Option.some.inj this

theorem insertOrUpdate_wf {ix ix' : ObjIndex} {o : Obj} (h : ix.WF) (ht : o.Typed ix)
    (hr : ix.insertOrUpdate o = .ok ix') : ix'.WF := by
  obtain ⟨hs, hv, hc⟩ := insertOrUpdate_inv hr
  have hsat : ∀ fi ∈ ix.fields, fi.cons.unique = true →
      fi.idx.satisfyUnique (ix.oidOf o.uuid) (valOf fi o) = true := by
    rcases satisfyAll_spec hv with ⟨_, h2⟩ | ⟨h1, _⟩
    · exact h2
    · rw [hs] at h1; cases h1
  rcases hc with ⟨oid, ho, rfl⟩ | ⟨ho, rfl⟩
  · exact updIx_wf h ht hsat ho
  · exact insIx_wf h ht hsat ho

theorem deleteByUUID_eq_none {ix : ObjIndex} {u : Nat} (ho : ix.oidOf u = none) : ix.deleteByUUID u = ix := by
  unfold ObjIndex.deleteByUUID; rw [ho]

theorem deleteByUUID_eq_some {ix : ObjIndex} {u oid : Nat} (ho : ix.oidOf u = some oid) :
    ix.deleteByUUID u =
      { ix with fields := ObjIndex.deleteFields oid ix.fields, ids := ix.ids.filter (fun p => p.1 != oid) } := by
  unfold ObjIndex.deleteByUUID; rw [ho]

theorem deleteByUUID_wf {ix : ObjIndex} (h : ix.WF) (u : Nat) : (ix.deleteByUUID u).WF := by
  cases ho : ix.oidOf u with
  | none => rw [deleteByUUID_eq_none ho]; exact h
  | some oid =>
    rw [deleteByUUID_eq_some ho]
    have hmem := oidOf_mem ho
    have hm : oid ∈ ix.ids.map (·.1) := List.mem_map.mpr ⟨_, hmem, rfl⟩
    refine ⟨?_, ?_, ?_, ?_⟩
    · show ((ix.ids.filter (fun p => p.1 != oid)).map (·.1)).Nodup
      rw [map_fst_filter_ne]; exact h.oidNodup.filter _
    · show ((ix.ids.filter (fun p => p.1 != oid)).map (·.2)).Nodup
      exact h.uuidNodup.sublist (List.filter_sublist.map _)
    · intro p hp
      exact h.ltNext p (List.mem_filter.mp hp).1
    · intro fi' hfi'
      obtain ⟨fi, hfi, rfl⟩ := List.mem_map.mp hfi'
      exact fieldWF_delete (h.fields fi hfi) h.oidNodup hm rfl

theorem reload_ids (ix : ObjIndex) : ix.reload.ids = ix.ids ∧ ix.reload.fields = ix.fields := ⟨rfl, rfl⟩

theorem foldl_max_ge (l : List (Nat × Nat)) : ∀ (m : Nat),
    m ≤ l.foldl (fun m p => max m p.1) m ∧ ∀ p ∈ l, p.1 ≤ l.foldl (fun m p => max m p.1) m := by
  induction l with
  | nil => intro m; exact ⟨Nat.le_refl _, fun p hp => by cases hp⟩
  | cons a t ih =>
    intro m
    rw [List.foldl_cons]
    obtain ⟨h1, h2⟩ := ih (max m a.1)
    refine ⟨by omega, ?_⟩
    intro p hp
    rcases List.mem_cons.mp hp with rfl | hp
    · omega
    · exact h2 p hp

theorem reload_wf {ix : ObjIndex} (h : ix.WF) : ix.reload.WF := by
  refine ⟨h.oidNodup, h.uuidNodup, ?_, fun fi hfi => (h.fields fi hfi).congr rfl⟩
  intro p hp
  show p.1 < ix.ids.foldl (fun m p => max m p.1) 0 + 1
  have := (foldl_max_ge ix.ids 0).2 p hp
  omega

theorem control_of_wf {ix : ObjIndex} (h : ix.WF) : ix.control = true := by
  unfold ObjIndex.control
  rw [List.all_eq_true]
  intro fi hfi
  have hw := h.fields fi hfi
  rw [Bool.and_eq_true]
  refine ⟨(control_iff _).mpr hw.desc, ?_⟩
  have := hw.oids.length_eq
  simp only [List.length_map] at this
  simp [ObjIndex.len, this]

/-! ### B. the id table -/

theorem oidOf_isSome_iff {ix : ObjIndex} {u : Nat} : (∃ oid, ix.oidOf u = some oid) ↔ u ∈ ix.uuids := by
  constructor
  · rintro ⟨oid, h⟩
    exact List.mem_map.mpr ⟨_, oidOf_mem h, rfl⟩
  · intro h
    cases ho : ix.oidOf u with
    | none => exact absurd h (oidOf_none_iff.mp ho)
    | some oid => exact ⟨oid, rfl⟩

theorem insertOrUpdate_uuids {ix ix' : ObjIndex} {o : Obj} (hr : ix.insertOrUpdate o = .ok ix') :
    ix'.uuids = if o.uuid ∈ ix.uuids then ix.uuids else ix.uuids ++ [o.uuid] := by
  obtain ⟨_, _, hc⟩ := insertOrUpdate_inv hr
  rcases hc with ⟨oid, ho, rfl⟩ | ⟨ho, rfl⟩
  · rw [if_pos (oidOf_isSome_iff.mp ⟨oid, ho⟩)]; rfl
  · rw [if_neg (oidOf_none_iff.mp ho)]
    simp [ObjIndex.uuids, insIx]

theorem insertOrUpdate_next_mono {ix ix' : ObjIndex} {o : Obj} (hr : ix.insertOrUpdate o = .ok ix') :
    ix.next ≤ ix'.next := by
  obtain ⟨_, _, hc⟩ := insertOrUpdate_inv hr
  rcases hc with ⟨oid, ho, rfl⟩ | ⟨ho, rfl⟩
  · exact Nat.le_refl _
  · exact Nat.le_succ _

set_option linter.unusedVariables false in
/-- existing objects keep their oid (a search result taken earlier still designates the same object: C20) -/
theorem insertOrUpdate_oidOf_stable {ix ix' : ObjIndex} {o : Obj} (h : ix.WF) (hr : ix.insertOrUpdate o = .ok ix')
    {u oid : Nat} (hu : ix.oidOf u = some oid) : ix'.oidOf u = some oid := by
  obtain ⟨_, _, hc⟩ := insertOrUpdate_inv hr
  rcases hc with ⟨oid', ho, rfl⟩ | ⟨ho, rfl⟩
  · exact hu
  · unfold ObjIndex.oidOf at hu ⊢
    show ((ix.ids ++ [(ix.next, o.uuid)]).find? (fun p => p.2 == u)).map (·.1) = some oid
    cases hf : ix.ids.find? (fun p => p.2 == u) with
    | none => rw [hf] at hu; cases hu
    | some p => rw [List.find?_append, hf]; rw [hf] at hu; exact hu

set_option linter.unusedVariables false in
/-- an oid is never given to another object within a handle (C20) -/
theorem insertOrUpdate_uuidOf_stable {ix ix' : ObjIndex} {o : Obj} (h : ix.WF) (hr : ix.insertOrUpdate o = .ok ix')
    {u oid : Nat} (hu : ix'.uuidOf oid = some u) (hlt : oid < ix.next) : ix.uuidOf oid = some u := by
  obtain ⟨_, _, hc⟩ := insertOrUpdate_inv hr
  rcases hc with ⟨oid', ho, rfl⟩ | ⟨ho, rfl⟩
  · exact hu
  · unfold ObjIndex.uuidOf at hu ⊢
    change ((ix.ids ++ [(ix.next, o.uuid)]).find? (fun p => p.1 == oid)).map (·.2) = some u at hu
    rw [List.find?_append] at hu
    cases hf : ix.ids.find? (fun p => p.1 == oid) with
    | some p => rw [hf] at hu; exact hu
    | none =>
      rw [hf] at hu
      have hne : (ix.next == oid) = false := by
        rw [beq_eq_false_iff_ne]; omega
      simp [List.find?, hne] at hu

theorem deleteByUUID_uuids {ix : ObjIndex} (h : ix.WF) (u : Nat) :
    (ix.deleteByUUID u).uuids = ix.uuids.filter (· != u) := by
  cases ho : ix.oidOf u with
  | none =>
    rw [deleteByUUID_eq_none ho]
    symm
    rw [List.filter_eq_self]
    intro x hx
    have := oidOf_none_iff.mp ho
    have hne : x ≠ u := fun e => this (e ▸ hx)
    simpa using hne
  | some oid =>
    rw [deleteByUUID_eq_some ho]
    have hmem := oidOf_mem ho
    show (ix.ids.filter (fun p => p.1 != oid)).map (·.2) = (ix.ids.map (·.2)).filter (· != u)
    rw [List.filter_map]
    congr 1
    apply List.filter_congr
    intro p hp
    obtain ⟨a, b⟩ := p
    simp only [Function.comp]
    by_cases hb : b = u
    · subst hb
      have := ids_oid_eq h hp hmem
      subst this
      simp
    · have ha : a ≠ oid := by
        intro ha
        subst ha
        exact hb (ids_uuid_eq h hp hmem)
      rw [bne_iff_ne.mpr ha, bne_iff_ne.mpr hb]

theorem deleteByUUID_next (ix : ObjIndex) (u : Nat) : (ix.deleteByUUID u).next = ix.next := by
  unfold ObjIndex.deleteByUUID
  cases ix.oidOf u <;> rfl

/-! ### C. uniqueness is enforced exactly (C03) -/

set_option linter.unusedVariables false in
theorem insertOrUpdate_total {ix : ObjIndex} {o : Obj} (h : ix.WF) (ht : o.Typed ix) :
    (∃ ix', ix.insertOrUpdate o = .ok ix') ∨ ix.insertOrUpdate o = .err .unique := by
  rcases satisfyAll_spec ht.hasVal with ⟨h1, _⟩ | ⟨h1, _⟩
  · exact Or.inl ⟨_, insertOrUpdate_of_ok ht.hasVal h1⟩
  · exact Or.inr (insertOrUpdate_of_err h1)

/-- what a failed `Satisfy` on a unique field means in terms of the id table -/
theorem satisfyUnique_false_iff {ix : ObjIndex} {o : Obj} (h : ix.WF) {fi : FieldIdx} (hfi : fi ∈ ix.fields)
    (hq : fi.cons.unique = true) (hv : ∃ v, o.field fi.pos = .v v) :
    fi.idx.satisfyUnique (ix.oidOf o.uuid) (valOf fi o) = false ↔
      ∃ e ∈ fi.idx, o.field fi.pos = .v e.1 ∧ ix.uuidOf e.2 ≠ some o.uuid := by
  have hw := h.fields fi hfi
  rw [← Bool.not_eq_true, satisfyUnique_iff fi.idx _ _ hw.desc (hw.uniq hq)]
  have hfv := field_valOf hv
  constructor
  · intro hn
    apply Classical.byContradiction
    intro hne
    apply hn
    intro e he hev
    apply Classical.byContradiction
    intro hk
    apply hne
    refine ⟨e, he, by rw [hev]; exact hfv, ?_⟩
    intro hu
    exact hk ((oidOf_iff_uuidOf h _ _).mpr hu).symm
  · rintro ⟨e, he, hf, hu⟩ hall
    have hev : e.1 = valOf fi o := by
      rw [hfv] at hf
      injection hf with hf
      exact hf.symm
    exact hu ((oidOf_iff_uuidOf h _ _).mp (hall e he hev).symm)

/-- `satisfyAll` alone (used by batch validation) has the same characterisation -/
theorem satisfyAll_unique_iff {ix : ObjIndex} {o : Obj} (h : ix.WF) (ht : o.Typed ix) :
    ix.satisfyAll o = .err .unique ↔
      ∃ fi ∈ ix.fields, fi.cons.unique = true ∧ ∃ e ∈ fi.idx, o.field fi.pos = .v e.1 ∧ ix.uuidOf e.2 ≠ some o.uuid := by
  constructor
  · intro he
    rcases satisfyAll_spec ht.hasVal with ⟨h1, _⟩ | ⟨_, fi, hfi, hq, hs⟩
    · rw [he] at h1; cases h1
    · exact ⟨fi, hfi, hq, (satisfyUnique_false_iff h hfi hq (ht.hasVal fi hfi)).mp hs⟩
  · rintro ⟨fi, hfi, hq, hex⟩
    have hs := (satisfyUnique_false_iff h hfi hq (ht.hasVal fi hfi)).mpr hex
    rcases satisfyAll_spec ht.hasVal with ⟨_, h2⟩ | ⟨h1, _⟩
    · rw [h2 fi hfi hq] at hs; cases hs
    · exact h1

theorem insertOrUpdate_unique_iff {ix : ObjIndex} {o : Obj} (h : ix.WF) (ht : o.Typed ix) :
    ix.insertOrUpdate o = .err .unique ↔
      ∃ fi ∈ ix.fields, fi.cons.unique = true ∧ ∃ e ∈ fi.idx, o.field fi.pos = .v e.1 ∧ ix.uuidOf e.2 ≠ some o.uuid := by
  rw [← satisfyAll_unique_iff h ht]
  constructor
  · intro he
    rcases satisfyAll_spec ht.hasVal with ⟨h1, _⟩ | ⟨h1, _⟩
    · rw [insertOrUpdate_of_ok ht.hasVal h1] at he; cases he
    · exact h1
  · exact insertOrUpdate_of_err

/-! ### D. the index reflects the stored objects -/

theorem new_reflects (descs : List FieldDesc) : Reflects (ObjIndex.new descs) (fun _ => none) := by
  refine ⟨fun p hp => absurd hp List.not_mem_nil, ?_⟩
  intro fi hfi e
  have hi : fi.idx = [] := new_go_idx descs 0 fi hfi
  rw [hi]
  constructor
  · intro he; cases he
  · rintro ⟨u, o, _, ho, _⟩; cases ho

theorem insIx_reflects {ix : ObjIndex} {o : Obj} {objs : Nat → Option Obj}
    (h : ix.WF) (hv : HasVal o ix.fields) (hrf : Reflects ix objs) (ho : ix.oidOf o.uuid = none) :
    Reflects (insIx ix o) (fun u => if u = o.uuid then some o else objs u) := by
  have hnu : ∀ {a u : Nat}, (a, u) ∈ ix.ids → u ≠ o.uuid := by
    intro a u hm hu
    subst hu
    exact oidOf_none_iff.mp ho (List.mem_map.mpr ⟨_, hm, rfl⟩)
  constructor
  · intro p hp
    change p ∈ ix.ids ++ [(ix.next, o.uuid)] at hp
    rcases List.mem_append.mp hp with hp | hp
    · obtain ⟨o', h1, h2⟩ := hrf.1 p hp
      have : p.2 ≠ o.uuid := hnu (a := p.1) hp
      exact ⟨o', by simp only [if_neg this]; exact h1, h2⟩
    · rw [List.mem_singleton] at hp
      subst hp
      exact ⟨o, by simp, rfl⟩
  · intro fi' hfi' e
    obtain ⟨fi, hfi, rfl⟩ := List.mem_map.mp hfi'
    have hw := h.fields fi hfi
    have hfv := field_valOf (hv fi hfi)
    show e ∈ fi.idx.insert (valOf fi o, ix.next) ↔
      ∃ u o', (e.2, u) ∈ ix.ids ++ [(ix.next, o.uuid)] ∧ (if u = o.uuid then some o else objs u) = some o' ∧
        o'.field fi.pos = .v e.1
    rw [mem_insert_iff hw.desc]
    constructor
    · rintro (rfl | he)
      · exact ⟨o.uuid, o, List.mem_append_right _ List.mem_cons_self, by simp, hfv⟩
      · obtain ⟨u, o', h1, h2, h3⟩ := (hrf.2 fi hfi e).mp he
        exact ⟨u, o', List.mem_append_left _ h1, by rw [if_neg (hnu h1)]; exact h2, h3⟩
    · rintro ⟨u, o', h1, h2, h3⟩
      rcases List.mem_append.mp h1 with h1 | h1
      · rw [if_neg (hnu h1)] at h2
        exact Or.inr ((hrf.2 fi hfi e).mpr ⟨u, o', h1, h2, h3⟩)
      · rw [List.mem_singleton] at h1
        obtain ⟨h1a, h1b⟩ := Prod.mk.inj h1
        rw [if_pos h1b] at h2
        injection h2 with h2
        subst h2
        rw [hfv] at h3
        injection h3 with h3
        exact Or.inl (Prod.ext h3.symm h1a)

theorem updIx_reflects {ix : ObjIndex} {o : Obj} {objs : Nat → Option Obj}
    (h : ix.WF) (hv : HasVal o ix.fields) (hrf : Reflects ix objs) {oid : Nat} (ho : ix.oidOf o.uuid = some oid) :
    Reflects (updIx ix o oid) (fun u => if u = o.uuid then some o else objs u) := by
  have hmem := oidOf_mem ho
  have hm : oid ∈ ix.ids.map (·.1) := List.mem_map.mpr ⟨_, hmem, rfl⟩
  constructor
  · intro p hp
    change p ∈ ix.ids at hp
    by_cases hpu : p.2 = o.uuid
    · exact ⟨o, by simp [hpu], hpu.symm⟩
    · obtain ⟨o', h1, h2⟩ := hrf.1 p hp
      exact ⟨o', by simp only [if_neg hpu]; exact h1, h2⟩
  · intro fi' hfi' e
    obtain ⟨fi, hfi, rfl⟩ := List.mem_map.mp hfi'
    have hw := h.fields fi hfi
    have hfv := field_valOf (hv fi hfi)
    show e ∈ fi.idx.update (valOf fi o) oid ↔
      ∃ u o', (e.2, u) ∈ ix.ids ∧ (if u = o.uuid then some o else objs u) = some o' ∧ o'.field fi.pos = .v e.1
    unfold FIdx.update
    rw [hw.delete_eq h.oidNodup hm, mem_insert_iff (filter_desc _ _ hw.desc), List.mem_filter]
    constructor
    · rintro (rfl | ⟨he, hne⟩)
      · exact ⟨o.uuid, o, hmem, by simp, hfv⟩
      · obtain ⟨u, o', h1, h2, h3⟩ := (hrf.2 fi hfi e).mp he
        have hu : u ≠ o.uuid := by
          intro hu
          subst hu
          have := ids_oid_eq h h1 hmem
          simp [this] at hne
        exact ⟨u, o', h1, by rw [if_neg hu]; exact h2, h3⟩
    · rintro ⟨u, o', h1, h2, h3⟩
      by_cases hu : u = o.uuid
      · subst hu
        rw [if_pos rfl] at h2
        injection h2 with h2
        subst h2
        rw [hfv] at h3
        injection h3 with h3
        exact Or.inl (Prod.ext h3.symm (ids_oid_eq h h1 hmem))
      · rw [if_neg hu] at h2
        refine Or.inr ⟨(hrf.2 fi hfi e).mpr ⟨u, o', h1, h2, h3⟩, ?_⟩
        have : e.2 ≠ oid := by
          intro he
          rw [he] at h1
          exact hu (ids_uuid_eq h h1 hmem)
        simpa using this

set_option linter.unusedVariables false in
theorem insertOrUpdate_reflects {ix ix' : ObjIndex} {o : Obj} {objs : Nat → Option Obj}
    (h : ix.WF) (ht : o.Typed ix) (hrf : Reflects ix objs) (hr : ix.insertOrUpdate o = .ok ix') :
    Reflects ix' (fun u => if u = o.uuid then some o else objs u) := by
  obtain ⟨_, hv, hc⟩ := insertOrUpdate_inv hr
  rcases hc with ⟨oid, ho, rfl⟩ | ⟨ho, rfl⟩
  · exact updIx_reflects h hv hrf ho
  · exact insIx_reflects h hv hrf ho

theorem deleteByUUID_reflects {ix : ObjIndex} {objs : Nat → Option Obj} (h : ix.WF) (hrf : Reflects ix objs) (u : Nat) :
    Reflects (ix.deleteByUUID u) (fun x => if x = u then none else objs x) := by
  cases ho : ix.oidOf u with
  | none =>
    rw [deleteByUUID_eq_none ho]
    have hnu : ∀ {a w : Nat}, (a, w) ∈ ix.ids → w ≠ u := by
      intro a w hm hw
      subst hw
      exact oidOf_none_iff.mp ho (List.mem_map.mpr ⟨_, hm, rfl⟩)
    constructor
    · intro p hp
      obtain ⟨o', h1, h2⟩ := hrf.1 p hp
      have : p.2 ≠ u := hnu (a := p.1) hp
      exact ⟨o', by simp only [if_neg this]; exact h1, h2⟩
    · intro fi hfi e
      show e ∈ fi.idx ↔
        ∃ w o', (e.2, w) ∈ ix.ids ∧ (if w = u then none else objs w) = some o' ∧ o'.field fi.pos = .v e.1
      rw [hrf.2 fi hfi e]
      constructor
      · rintro ⟨w, o', h1, h2, h3⟩
        exact ⟨w, o', h1, by rw [if_neg (hnu h1)]; exact h2, h3⟩
      · rintro ⟨w, o', h1, h2, h3⟩
        rw [if_neg (hnu h1)] at h2
        exact ⟨w, o', h1, h2, h3⟩
  | some oid =>
    rw [deleteByUUID_eq_some ho]
    have hmem := oidOf_mem ho
    have hm : oid ∈ ix.ids.map (·.1) := List.mem_map.mpr ⟨_, hmem, rfl⟩
    have hnu : ∀ {a w : Nat}, (a, w) ∈ ix.ids → a ≠ oid → w ≠ u := by
      intro a w hmw ha hw
      subst hw
      exact ha (ids_oid_eq h hmw hmem)
    constructor
    · intro p hp
      change p ∈ ix.ids.filter (fun p => p.1 != oid) at hp
      obtain ⟨hp1, hp2⟩ := List.mem_filter.mp hp
      obtain ⟨o', h1, h2⟩ := hrf.1 p hp1
      have : p.2 ≠ u := hnu (a := p.1) hp1 (by simpa using hp2)
      exact ⟨o', by simp only [if_neg this]; exact h1, h2⟩
    · intro fi' hfi' e
      obtain ⟨fi, hfi, rfl⟩ := List.mem_map.mp hfi'
      have hw := h.fields fi hfi
      show e ∈ fi.idx.delete oid ↔
        ∃ w o', (e.2, w) ∈ ix.ids.filter (fun p => p.1 != oid) ∧ (if w = u then none else objs w) = some o' ∧
          o'.field fi.pos = .v e.1
      rw [hw.delete_eq h.oidNodup hm, List.mem_filter, hrf.2 fi hfi e]
      constructor
      · rintro ⟨⟨w, o', h1, h2, h3⟩, hne⟩
        have hne' : e.2 ≠ oid := by simpa using hne
        exact ⟨w, o', List.mem_filter.mpr ⟨h1, hne⟩, by rw [if_neg (hnu h1 hne')]; exact h2, h3⟩
      · rintro ⟨w, o', h1, h2, h3⟩
        obtain ⟨h1a, h1b⟩ := List.mem_filter.mp h1
        have hne' : e.2 ≠ oid := by simpa using h1b
        rw [if_neg (hnu h1a hne')] at h2
        exact ⟨⟨w, o', h1a, h2, h3⟩, h1b⟩

theorem reload_reflects {ix : ObjIndex} {objs : Nat → Option Obj} (hrf : Reflects ix objs) :
    Reflects ix.reload objs := hrf

/-! ### E. search returns exactly the matching objects (C02), in index order (C13) -/

theorem mem_filter_reflects {ix : ObjIndex} {objs : Nat → Option Obj} (hrf : Reflects ix objs)
    {fi : FieldIdx} (hfi : fi ∈ ix.fields) (P : Entry → Bool) (e : Entry) :
    e ∈ fi.idx.filter P ↔
      ∃ u o, (e.2, u) ∈ ix.ids ∧ objs u = some o ∧ o.field fi.pos = .v e.1 ∧ P e = true := by
  rw [List.mem_filter, hrf.2 fi hfi e]
  constructor
  · rintro ⟨⟨u, o, a, b, c⟩, d⟩; exact ⟨u, o, a, b, c, d⟩
  · rintro ⟨u, o, a, b, c, d⟩; exact ⟨⟨u, o, a, b, c⟩, d⟩

theorem searchOp_exact {ix : ObjIndex} {objs : Nat → Option Obj} (h : ix.WF) (hrf : Reflects ix objs)
    {fi : FieldIdx} (hfi : fi ∈ ix.fields) (op : Op) (hop : op ≠ .re) (m : Option Matcher) (v : Val) :
    ∃ r, ObjIndex.searchOp m op fi.idx v = .ok r ∧
      (∀ e : Entry, e ∈ r ↔ ∃ u o, (e.2, u) ∈ ix.ids ∧ objs u = some o ∧ o.field fi.pos = .v e.1 ∧
        Val.eval (fun _ => false) op e.1 v = true) ∧
      r.Sublist fi.idx := by
  have hd := (h.fields fi hfi).desc
  cases op with
  | re => exact absurd rfl hop
  | eq =>
    refine ⟨searchEq fi.idx v, rfl, ?_, ?_⟩ <;> rw [searchEq_filter _ _ hd]
    · exact fun e => mem_filter_reflects hrf hfi _ e
    · exact List.filter_sublist
  | ne =>
    refine ⟨searchNe fi.idx v, rfl, ?_, ?_⟩ <;> rw [searchNe_filter _ _ hd]
    · exact fun e => mem_filter_reflects hrf hfi _ e
    · exact List.filter_sublist
  | gt =>
    refine ⟨searchGt fi.idx v, rfl, ?_, ?_⟩ <;> rw [searchGt_filter _ _ hd]
    · exact fun e => mem_filter_reflects hrf hfi _ e
    · exact List.filter_sublist
  | ge =>
    refine ⟨searchGe fi.idx v, rfl, ?_, ?_⟩ <;> rw [searchGe_filter _ _ hd]
    · exact fun e => mem_filter_reflects hrf hfi _ e
    · exact List.filter_sublist
  | lt =>
    refine ⟨searchLt fi.idx v, rfl, ?_, ?_⟩ <;> rw [searchLt_filter _ _ hd]
    · exact fun e => mem_filter_reflects hrf hfi _ e
    · exact List.filter_sublist
  | le =>
    refine ⟨searchLe fi.idx v, rfl, ?_, ?_⟩ <;> rw [searchLe_filter _ _ hd]
    · exact fun e => mem_filter_reflects hrf hfi _ e
    · exact List.filter_sublist

theorem searchOp_re_exact {ix : ObjIndex} {objs : Nat → Option Obj} (h : ix.WF) (hrf : Reflects ix objs)
    {fi : FieldIdx} (hfi : fi ∈ ix.fields) (hc : fi.cast = Tag.str) (f : Matcher) (s : Bytes) :
    ∃ r, ObjIndex.searchOp (some f) .re fi.idx (.str s) = .ok r ∧
      (∀ e : Entry, e ∈ r ↔ ∃ u o, (e.2, u) ∈ ix.ids ∧ objs u = some o ∧ o.field fi.pos = .v e.1 ∧
        Val.eval f .re e.1 (.str s) = true) ∧
      r.Sublist fi.idx := by
  have hw := h.fields fi hfi
  have hs : ∀ e ∈ fi.idx, e.1.tag = Tag.str := fun e he => (hw.homog e he).trans hc
  refine ⟨searchRe f fi.idx, rfl, ?_, ?_⟩ <;> rw [searchRe_filter f fi.idx hs]
  · exact fun e => mem_filter_reflects hrf hfi _ e
  · exact List.filter_sublist

/-- results come out in index order, i.e. non-increasing (C13) -/
theorem sublist_desc {l r : FIdx} (h : Desc l) (hs : r.Sublist l) : Desc r :=
  List.Pairwise.sublist hs h

end Sod
